#![allow(unused, dead_code)]
use generic_array::typenum::*;
use generic_array::{arr, box_arr, GenericArray as GA};
const unsafe fn danger() -> u8 { 7 }
const RAW: *const u8 = &5u8;
mod r_list { use super::*; fn p() { let _ = arr![danger(), 1]; } }
mod r_list1 { use super::*; fn p() { let _ = arr![danger()]; } }
mod r_repeat_type { use super::*; fn p() { let _ = arr![danger(); U3]; } }
mod r_repeat_const { use super::*; fn p() { let _ = arr![danger(); 3]; } }
mod r_box_list { use super::*; fn p() { let _ = box_arr![danger(), 1]; } }
mod r_box_repeat_type { use super::*; fn p() { let _ = box_arr![danger(); U3]; } }
mod r_box_repeat_const { use super::*; fn p() { let _ = box_arr![danger(); 3]; } }
mod r_deref { use super::*; fn p() { let _ = arr![*RAW; U2]; } }
mod r_deref_list { use super::*; fn p() { let _ = arr![*RAW, 0]; } }
mod r_box_deref { use super::*; fn p() { let _ = box_arr![*RAW; 2]; } }
mod r_const_item { use super::*; const C: GA<u8, U2> = arr![danger(); U2]; }
mod r_const_list { use super::*; const C: GA<u8, U2> = arr![danger(), 1]; }
fn main() {}
