#![allow(unused, dead_code, clippy::all)]
use generic_array::{GenericArray, GenericArrayIter, ArrayLength, ConstArrayLength, arr};
use generic_array::sequence::*;
use generic_array::functional::*;
use generic_array::typenum::*;
use core::borrow::{Borrow, BorrowMut};
type GA<T, N> = GenericArray<T, N>;
mod q0 { use super::*; fn p(a: GA<u8, U0>, b: GA<u8, U0>) { let _ = GenericSequence::inverted_zip(b, a, |x: u8, y: u8| x.wrapping_add(y)); } }
mod q1 { use super::*; fn p(a: GA<u8, U0>, b: GA<u8, U0>) { let _c: GA<u8, U0> = a.concat(b); } }
mod q2 { use super::*; fn p(a: GA<u8, U0>, b: GA<u8, U1>) { let _ = a.zip(b, |x, y| x.wrapping_add(y)); } }
mod q3 { use super::*; fn p(a: GA<u8, U0>, b: GA<u8, U1>) -> bool { a == b } }
mod q4 { use super::*; fn p(a: GA<GA<u8, U0>, U1>) { let _f: GA<u8, U0> = a.flatten(); } }
mod q5 { use super::*; fn p(a: GA<u8, U0>, b: &mut GA<u8, U2>) { let _ = a.zip(b, |x, y| x.wrapping_add(*y)); } }
mod q6 { use super::*; fn p(a: GA<u8, U0>, b: GA<u8, U2>) -> core::cmp::Ordering { core::cmp::Ord::cmp(&a, &b) } }
mod q7 { use super::*; fn p(a: &GA<GA<u8, U0>, U2>) { let _f: &GA<u8, U0> = a.flatten(); } }
mod q8 { use super::*; fn p(a: &GA<u8, U0>, b: &GA<u8, U3>) { let _ = a.zip(b, |x, y| x.wrapping_add(*y)); } }
mod q9 { use super::*; fn p(a: GA<u8, U0>, b: GA<u8, U3>) -> bool { a < b } }
mod q10 { use super::*; fn p(a: GA<GA<u8, U0>, U3>) { let _f: GA<u8, U0> = a.flatten(); } }
mod q11 { use super::*; fn p(a: GA<u8, U0>, b: GA<u8, U4>) { let _ = a.zip(b, |x, y| x.wrapping_add(y)); } }
mod q12 { use super::*; fn p(a: GA<u8, U0>, b: GA<u8, U4>) -> bool { a == b } }
mod q13 { use super::*; fn p(a: GA<u8, U0>, b: GA<u8, U4>) { let _c: GA<u8, U5> = a.concat(b); } }
mod q14 { use super::*; fn p(a: &GA<GA<u8, U0>, U4>) { let _f: &GA<u8, U4> = a.flatten(); } }
mod q15 { use super::*; fn p(a: &GA<u8, U0>, b: GA<u8, U5>) { let _ = GenericSequence::inverted_zip2(b, a, |x: &u8, y: u8| x.wrapping_add(y)); } }
mod q16 { use super::*; fn p(a: GA<u8, U0>, b: GA<u8, U5>) { let _c: GA<u8, U5> = a.concat(b); } }
mod q17 { use super::*; fn p(a: GA<GA<u8, U0>, U5>) { let _f: GA<u8, U5> = a.flatten(); } }
mod q18 { use super::*; fn p(a: GA<u8, U0>, b: GA<u8, U6>) { let _ = GenericSequence::inverted_zip2(b, a, |x: u8, y: u8| x.wrapping_add(y)); } }
mod q19 { use super::*; fn p(a: GA<u8, U0>, b: GA<u8, U6>) { let _c: GA<u8, U5> = a.concat(b); } }
mod q20 { use super::*; fn p(a: &GA<GA<u8, U0>, U6>) { let _f: &GA<u8, U1> = a.flatten(); } }
mod q21 { use super::*; fn p(a: &GA<u8, U0>) { let (_h, _t): (&GA<u8, U0>, &GA<u8, U1>) = Split::<u8, U0>::split(a); } }
mod q22 { use super::*; fn p(a: &GA<u8, U0>) { let (_h, _t): (&GA<u8, U2>, &GA<u8, U0>) = Split::<u8, U2>::split(a); } }
mod q23 { use super::*; fn p(a: &GA<u8, U0>) { let (_h, _t): (&GA<u8, U3>, &GA<u8, U1>) = Split::<u8, U3>::split(a); } }
mod q24 { use super::*; fn p(a: &GA<u8, U0>) { let (_h, _t): (&GA<u8, U5>, &GA<u8, U0>) = Split::<u8, U5>::split(a); } }
mod q25 { use super::*; fn p(a: &GA<u8, U0>) { let (_h, _t): (&GA<u8, U6>, &GA<u8, U1>) = Split::<u8, U6>::split(a); } }
mod q26 { use super::*; fn p(a: GA<u8, U0>) { let _c: GA<u8, U0> = a.prepend(1u8); } }
mod q27 { use super::*; fn p(a: &GA<u8, U0>) { let _m: GA<u16, U0> = a.map(|x| *x as u16); } }
mod q28 { use super::*; fn p(a: GA<u8, U0>) { let _x: [u8; 0] = a.into_array(); } }
mod q29 { use super::*; fn p(a: &mut GA<u8, U0>) { let _r: &mut [u8; 0] = a.as_mut(); } }
mod q30 { use super::*; fn p(x: &[GA<u8, U0>]) { let _g = GA::<u8, U0>::into_chunks::<0>(x); } }
mod q31 { use super::*; fn p(a: GA<u8, U0>) { let (_x, _c): (u8, GA<u8, U1>) = a.pop_front(); } }
mod q32 { use super::*; fn p(a: GA<u8, U0>, b: GA<u8, U0>) { let _z: GA<u16, U1> = a.zip(b, |x, y| x as u16 + y as u16); } }
mod q33 { use super::*; fn p() { let _g = GA::<u8, U0>::from_array([0u8; 1]); } }
mod q34 { use super::*; fn p(x: &mut [u8; 1]) { let _g: &mut GA<u8, U0> = x.into(); } }
mod q35 { use super::*; fn p(x: &mut [GA<u8, U0>]) { let _g = GA::<u8, U0>::into_chunks_mut::<1>(x); } }
mod q36 { use super::*; fn p(a: GA<u8, U0>) { let (_x, _c): (u8, GA<u8, U2>) = a.swap_remove(0); } }
mod q37 { use super::*; fn p() { let _a: GA<u8, U2> = arr![7u8; 0]; } }
mod q38 { use super::*; fn p() { let _g: GA<u8, U0> = [0u8; 2].into(); } }
mod q39 { use super::*; fn p(x: &mut [[u8; 2]]) { let _g: &mut [GA<u8, U0>] = GA::from_chunks_mut(x); } }
mod q40 { use super::*; fn p(a: GA<u8, U0>) { let _c: GA<u8, U3> = a.prepend(1u8); } }
mod q41 { use super::*; fn p(a: &GA<u8, U0>) { let _m: GA<u16, U3> = a.map(|x| *x as u16); } }
mod q42 { use super::*; fn p(a: GA<u8, U0>) { let _x: [u8; 3] = a.into_array(); } }
mod q43 { use super::*; fn p(a: &mut GA<u8, U0>) { let _r: &mut [u8; 3] = a.as_mut(); } }
mod q44 { use super::*; fn p(x: &[GA<u8, U0>]) { let _g = GA::<u8, U0>::into_chunks::<3>(x); } }
mod q45 { use super::*; fn p(a: GA<u8, U0>) { let (_x, _c): (u8, GA<u8, U4>) = a.pop_front(); } }
mod q46 { use super::*; fn p(a: GA<u8, U0>, b: GA<u8, U0>) { let _z: GA<u16, U4> = a.zip(b, |x, y| x as u16 + y as u16); } }
mod q47 { use super::*; fn p() { let _g = GA::<u8, U0>::from_array([0u8; 4]); } }
mod q48 { use super::*; fn p(x: &mut [u8; 4]) { let _g: &mut GA<u8, U0> = x.into(); } }
mod q49 { use super::*; fn p(x: &mut [GA<u8, U0>]) { let _g = GA::<u8, U0>::into_chunks_mut::<4>(x); } }
mod q50 { use super::*; fn p(a: GA<u8, U0>) { let (_x, _c): (u8, GA<u8, U5>) = a.swap_remove(0); } }
mod q51 { use super::*; fn p() { let _a: GA<u8, U5> = arr![7u8; 0]; } }
mod q52 { use super::*; fn p() { let _g: GA<u8, U0> = [0u8; 5].into(); } }
mod q53 { use super::*; fn p(x: &mut [[u8; 5]]) { let _g: &mut [GA<u8, U0>] = GA::from_chunks_mut(x); } }
mod q54 { use super::*; fn p(a: GA<u8, U0>) { let _c: GA<u8, U6> = a.prepend(1u8); } }
mod q55 { use super::*; fn p(a: &GA<u8, U0>) { let _m: GA<u16, U6> = a.map(|x| *x as u16); } }
mod q56 { use super::*; fn p(a: GA<u8, U0>) { let _x: [u8; 6] = a.into_array(); } }
mod q57 { use super::*; fn p(a: &mut GA<u8, U0>) { let _r: &mut [u8; 6] = a.as_mut(); } }
mod q58 { use super::*; fn p(x: &[GA<u8, U0>]) { let _g = GA::<u8, U0>::into_chunks::<6>(x); } }
mod q59 { use super::*; fn p(a: GA<u8, U0>) { let (_x, _c): (u8, GA<u8, U7>) = a.pop_front(); } }
mod q60 { use super::*; fn p(a: GA<u8, U0>, b: GA<u8, U0>) { let _z: GA<u16, U7> = a.zip(b, |x, y| x as u16 + y as u16); } }
mod q61 { use super::*; fn p() { let _g = GA::<u8, U0>::from_array([0u8; 7]); } }
mod q62 { use super::*; fn p(x: &mut [u8; 7]) { let _g: &mut GA<u8, U0> = x.into(); } }
mod q63 { use super::*; fn p(x: &mut [GA<u8, U0>]) { let _g = GA::<u8, U0>::into_chunks_mut::<7>(x); } }
mod q64 { use super::*; fn p(a: GA<u8, U0>) { let (_x, _c): (u8, GA<u8, U8>) = a.swap_remove(0); } }
mod q65 { use super::*; fn p() { let _a: GA<u8, U8> = arr![7u8; 0]; } }
mod q66 { use super::*; fn p() { let _g: GA<u8, U0> = [0u8; 8].into(); } }
mod q67 { use super::*; fn p(x: &mut [[u8; 8]]) { let _g: &mut [GA<u8, U0>] = GA::from_chunks_mut(x); } }
mod q68 { use super::*; fn p(a: GA<u8, U0>) { let _u: GA<GA<u8, U0>, U1> = a.unflatten(); } }
mod q69 { use super::*; fn p(a: GA<u8, U0>) { let _u: GA<GA<u8, U0>, U7> = a.unflatten(); } }
mod q70 { use super::*; fn p(a: GA<u8, U0>) { let _u: GA<GA<u8, U1>, U5> = a.unflatten(); } }
mod q71 { use super::*; fn p(a: GA<u8, U0>) { let _u: GA<GA<u8, U2>, U3> = a.unflatten(); } }
mod q72 { use super::*; fn p(a: GA<u8, U0>) { let _u: GA<GA<u8, U3>, U1> = a.unflatten(); } }
mod q73 { use super::*; fn p(a: GA<u8, U0>) { let _u: GA<GA<u8, U3>, U7> = a.unflatten(); } }
mod q74 { use super::*; fn p(a: &GA<u8, U1>, b: GA<u8, U0>) { let _ = GenericSequence::inverted_zip2(b, a, |x: &u8, y: u8| x.wrapping_add(y)); } }
mod q75 { use super::*; fn p(a: GA<u8, U1>, b: GA<u8, U0>) { let _c: GA<u8, U2> = a.concat(b); } }
mod q76 { use super::*; fn p(a: &GA<u8, U1>, b: &GA<u8, U1>) { let _ = a.zip(b, |x, y| x.wrapping_add(*y)); } }
mod q77 { use super::*; fn p(a: GA<u8, U1>, b: GA<u8, U1>) -> bool { a < b } }
mod q78 { use super::*; fn p(a: GA<GA<u8, U1>, U1>) { let _f: GA<u8, U0> = a.flatten(); } }
mod q79 { use super::*; fn p(a: GA<u8, U1>, b: GA<u8, U2>) { let _ = a.zip(b, |x, y| x.wrapping_add(y)); } }
mod q80 { use super::*; fn p(a: GA<u8, U1>, b: GA<u8, U2>) -> bool { a == b } }
mod q81 { use super::*; fn p(a: GA<u8, U1>, b: GA<u8, U2>) { let _c: GA<u8, U4> = a.concat(b); } }
mod q82 { use super::*; fn p(a: &GA<GA<u8, U1>, U2>) { let _f: &GA<u8, U3> = a.flatten(); } }
mod q83 { use super::*; fn p(a: &GA<u8, U1>, b: GA<u8, U3>) { let _ = GenericSequence::inverted_zip2(b, a, |x: &u8, y: u8| x.wrapping_add(y)); } }
mod q84 { use super::*; fn p(a: GA<u8, U1>, b: GA<u8, U3>) { let _c: GA<u8, U4> = a.concat(b); } }
mod q85 { use super::*; fn p(a: GA<GA<u8, U1>, U3>) { let _f: GA<u8, U4> = a.flatten(); } }
mod q86 { use super::*; fn p(a: GA<u8, U1>, b: GA<u8, U4>) { let _ = GenericSequence::inverted_zip2(b, a, |x: u8, y: u8| x.wrapping_add(y)); } }
mod q87 { use super::*; fn p(a: GA<u8, U1>, b: GA<u8, U4>) { let _c: GA<u8, U4> = a.concat(b); } }
mod q88 { use super::*; fn p(a: &GA<GA<u8, U1>, U4>) { let _f: &GA<u8, U4> = a.flatten(); } }
mod q89 { use super::*; fn p(a: GA<u8, U1>, b: GA<u8, U5>) { let _ = GenericSequence::inverted_zip(b, a, |x: u8, y: u8| x.wrapping_add(y)); } }
mod q90 { use super::*; fn p(a: GA<u8, U1>, b: GA<u8, U5>) { let _c: GA<u8, U0> = a.concat(b); } }
mod q91 { use super::*; fn p(a: GA<GA<u8, U1>, U5>) { let _f: GA<u8, U5> = a.flatten(); } }
mod q92 { use super::*; fn p(a: GA<u8, U1>, b: &mut GA<u8, U6>) { let _ = a.zip(b, |x, y| x.wrapping_add(*y)); } }
mod q93 { use super::*; fn p(a: GA<u8, U1>, b: GA<u8, U6>) -> core::cmp::Ordering { core::cmp::Ord::cmp(&a, &b) } }
mod q94 { use super::*; fn p(a: &GA<GA<u8, U1>, U6>) { let _f: &GA<u8, U5> = a.flatten(); } }
mod q95 { use super::*; fn p(a: &GA<u8, U1>) { let (_h, _t): (&GA<u8, U0>, &GA<u8, U0>) = Split::<u8, U0>::split(a); } }
mod q96 { use super::*; fn p(a: &GA<u8, U1>) { let (_h, _t): (&GA<u8, U1>, &GA<u8, U0>) = Split::<u8, U1>::split(a); } }
mod q97 { use super::*; fn p(a: &GA<u8, U1>) { let (_h, _t): (&GA<u8, U2>, &GA<u8, U1>) = Split::<u8, U2>::split(a); } }
mod q98 { use super::*; fn p(a: &GA<u8, U1>) { let (_h, _t): (&GA<u8, U4>, &GA<u8, U0>) = Split::<u8, U4>::split(a); } }
mod q99 { use super::*; fn p(a: &GA<u8, U1>) { let (_h, _t): (&GA<u8, U5>, &GA<u8, U1>) = Split::<u8, U5>::split(a); } }
mod q100 { use super::*; fn p(a: &GA<u8, U1>) { let (_h, _t): (&GA<u8, U7>, &GA<u8, U0>) = Split::<u8, U7>::split(a); } }
mod q101 { use super::*; fn p(a: GA<u8, U1>) { let (_x, _c): (u8, GA<u8, U0>) = a.pop_front(); } }
mod q102 { use super::*; fn p(a: GA<u8, U1>, b: GA<u8, U1>) { let _z: GA<u16, U0> = a.zip(b, |x, y| x as u16 + y as u16); } }
mod q103 { use super::*; fn p() { let _g = GA::<u8, U1>::from_array([0u8; 0]); } }
mod q104 { use super::*; fn p(x: &mut [u8; 0]) { let _g: &mut GA<u8, U1> = x.into(); } }
mod q105 { use super::*; fn p(x: &mut [GA<u8, U1>]) { let _g = GA::<u8, U1>::into_chunks_mut::<0>(x); } }
mod q106 { use super::*; fn p(a: GA<u8, U1>) { let (_x, _c): (u8, GA<u8, U1>) = a.swap_remove(0); } }
mod q107 { use super::*; fn p() { let _a: GA<u8, U1> = arr![7u8; 1]; } }
mod q108 { use super::*; fn p() { let _g: GA<u8, U1> = [0u8; 1].into(); } }
mod q109 { use super::*; fn p(x: &mut [[u8; 1]]) { let _g: &mut [GA<u8, U1>] = GA::from_chunks_mut(x); } }
mod q110 { use super::*; fn p(a: GA<u8, U1>) { let _c: GA<u8, U2> = a.prepend(1u8); } }
mod q111 { use super::*; fn p(a: &GA<u8, U1>) { let _m: GA<u16, U2> = a.map(|x| *x as u16); } }
mod q112 { use super::*; fn p(a: GA<u8, U1>) { let _x: [u8; 2] = a.into_array(); } }
mod q113 { use super::*; fn p(a: &mut GA<u8, U1>) { let _r: &mut [u8; 2] = a.as_mut(); } }
mod q114 { use super::*; fn p(x: &[GA<u8, U1>]) { let _g = GA::<u8, U1>::into_chunks::<2>(x); } }
mod q115 { use super::*; fn p(a: GA<u8, U1>) { let (_x, _c): (u8, GA<u8, U3>) = a.pop_front(); } }
mod q116 { use super::*; fn p(a: GA<u8, U1>, b: GA<u8, U1>) { let _z: GA<u16, U3> = a.zip(b, |x, y| x as u16 + y as u16); } }
mod q117 { use super::*; fn p() { let _g = GA::<u8, U1>::from_array([0u8; 3]); } }
mod q118 { use super::*; fn p(x: &mut [u8; 3]) { let _g: &mut GA<u8, U1> = x.into(); } }
mod q119 { use super::*; fn p(x: &mut [GA<u8, U1>]) { let _g = GA::<u8, U1>::into_chunks_mut::<3>(x); } }
mod q120 { use super::*; fn p(a: GA<u8, U1>) { let (_x, _c): (u8, GA<u8, U4>) = a.swap_remove(0); } }
mod q121 { use super::*; fn p() { let _a: GA<u8, U4> = arr![7u8; 1]; } }
mod q122 { use super::*; fn p() { let _g: GA<u8, U1> = [0u8; 4].into(); } }
mod q123 { use super::*; fn p(x: &mut [[u8; 4]]) { let _g: &mut [GA<u8, U1>] = GA::from_chunks_mut(x); } }
mod q124 { use super::*; fn p(a: GA<u8, U1>) { let _c: GA<u8, U5> = a.prepend(1u8); } }
mod q125 { use super::*; fn p(a: &GA<u8, U1>) { let _m: GA<u16, U5> = a.map(|x| *x as u16); } }
mod q126 { use super::*; fn p(a: GA<u8, U1>) { let _x: [u8; 5] = a.into_array(); } }
mod q127 { use super::*; fn p(a: &mut GA<u8, U1>) { let _r: &mut [u8; 5] = a.as_mut(); } }
mod q128 { use super::*; fn p(x: &[GA<u8, U1>]) { let _g = GA::<u8, U1>::into_chunks::<5>(x); } }
mod q129 { use super::*; fn p(a: GA<u8, U1>) { let (_x, _c): (u8, GA<u8, U6>) = a.pop_front(); } }
mod q130 { use super::*; fn p(a: GA<u8, U1>, b: GA<u8, U1>) { let _z: GA<u16, U6> = a.zip(b, |x, y| x as u16 + y as u16); } }
mod q131 { use super::*; fn p() { let _g = GA::<u8, U1>::from_array([0u8; 6]); } }
mod q132 { use super::*; fn p(x: &mut [u8; 6]) { let _g: &mut GA<u8, U1> = x.into(); } }
mod q133 { use super::*; fn p(x: &mut [GA<u8, U1>]) { let _g = GA::<u8, U1>::into_chunks_mut::<6>(x); } }
mod q134 { use super::*; fn p(a: GA<u8, U1>) { let (_x, _c): (u8, GA<u8, U7>) = a.swap_remove(0); } }
mod q135 { use super::*; fn p() { let _a: GA<u8, U7> = arr![7u8; 1]; } }
mod q136 { use super::*; fn p() { let _g: GA<u8, U1> = [0u8; 7].into(); } }
mod q137 { use super::*; fn p(x: &mut [[u8; 7]]) { let _g: &mut [GA<u8, U1>] = GA::from_chunks_mut(x); } }
mod q138 { use super::*; fn p(a: GA<u8, U1>) { let _c: GA<u8, U8> = a.prepend(1u8); } }
mod q139 { use super::*; fn p(a: &GA<u8, U1>) { let _m: GA<u16, U8> = a.map(|x| *x as u16); } }
mod q140 { use super::*; fn p(a: GA<u8, U1>) { let _x: [u8; 8] = a.into_array(); } }
mod q141 { use super::*; fn p(a: &mut GA<u8, U1>) { let _r: &mut [u8; 8] = a.as_mut(); } }
mod q142 { use super::*; fn p(x: &[GA<u8, U1>]) { let _g = GA::<u8, U1>::into_chunks::<8>(x); } }
mod q143 { use super::*; fn p(a: GA<u8, U1>) { let _u: GA<GA<u8, U0>, U3> = a.unflatten(); } }
mod q144 { use super::*; fn p(a: GA<u8, U1>) { let _u: GA<GA<u8, U1>, U1> = a.unflatten(); } }
mod q145 { use super::*; fn p(a: GA<u8, U1>) { let _u: GA<GA<u8, U1>, U7> = a.unflatten(); } }
mod q146 { use super::*; fn p(a: GA<u8, U1>) { let _u: GA<GA<u8, U2>, U5> = a.unflatten(); } }
mod q147 { use super::*; fn p(a: GA<u8, U1>) { let _u: GA<GA<u8, U3>, U3> = a.unflatten(); } }
mod q148 { use super::*; fn p(a: &GA<u8, U2>, b: &GA<u8, U0>) { let _ = a.zip(b, |x, y| x.wrapping_add(*y)); } }
mod q149 { use super::*; fn p(a: GA<u8, U2>, b: GA<u8, U0>) -> bool { a < b } }
mod q150 { use super::*; fn p(a: GA<GA<u8, U2>, U0>) { let _f: GA<u8, U0> = a.flatten(); } }
mod q151 { use super::*; fn p(a: GA<u8, U2>, b: GA<u8, U1>) { let _ = a.zip(b, |x, y| x.wrapping_add(y)); } }
mod q152 { use super::*; fn p(a: GA<u8, U2>, b: GA<u8, U1>) -> bool { a == b } }
mod q153 { use super::*; fn p(a: GA<u8, U2>, b: GA<u8, U1>) { let _c: GA<u8, U4> = a.concat(b); } }
mod q154 { use super::*; fn p(a: &GA<GA<u8, U2>, U1>) { let _f: &GA<u8, U3> = a.flatten(); } }
mod q155 { use super::*; fn p(a: &GA<u8, U2>, b: GA<u8, U2>) { let _ = GenericSequence::inverted_zip2(b, a, |x: &u8, y: u8| x.wrapping_add(y)); } }
mod q156 { use super::*; fn p(a: GA<u8, U2>, b: GA<u8, U2>) { let _c: GA<u8, U4> = a.concat(b); } }
mod q157 { use super::*; fn p(a: GA<GA<u8, U2>, U2>) { let _f: GA<u8, U5> = a.flatten(); } }
mod q158 { use super::*; fn p(a: GA<u8, U2>, b: GA<u8, U3>) { let _ = GenericSequence::inverted_zip2(b, a, |x: u8, y: u8| x.wrapping_add(y)); } }
mod q159 { use super::*; fn p(a: GA<u8, U2>, b: GA<u8, U3>) { let _c: GA<u8, U4> = a.concat(b); } }
mod q160 { use super::*; fn p(a: &GA<GA<u8, U2>, U3>) { let _f: &GA<u8, U6> = a.flatten(); } }
mod q161 { use super::*; fn p(a: GA<u8, U2>, b: GA<u8, U4>) { let _ = GenericSequence::inverted_zip(b, a, |x: u8, y: u8| x.wrapping_add(y)); } }
mod q162 { use super::*; fn p(a: GA<u8, U2>, b: GA<u8, U4>) { let _c: GA<u8, U0> = a.concat(b); } }
mod q163 { use super::*; fn p(a: GA<GA<u8, U2>, U4>) { let _f: GA<u8, U7> = a.flatten(); } }
mod q164 { use super::*; fn p(a: GA<u8, U2>, b: GA<u8, U5>) { let _ = a.zip(b, |x, y| x.wrapping_add(y)); } }
mod q165 { use super::*; fn p(a: GA<u8, U2>, b: GA<u8, U5>) -> bool { a == b } }
mod q166 { use super::*; fn p(a: GA<u8, U2>, b: GA<u8, U5>) { let _c: GA<u8, U8> = a.concat(b); } }
mod q167 { use super::*; fn p(a: &GA<GA<u8, U2>, U5>) { let _f: &GA<u8, U10> = a.flatten(); } }
mod q168 { use super::*; fn p(a: GA<u8, U2>, b: GA<u8, U6>) { let _ = GenericSequence::inverted_zip(b, a, |x: u8, y: u8| x.wrapping_add(y)); } }
mod q169 { use super::*; fn p(a: GA<u8, U2>, b: GA<u8, U6>) { let _c: GA<u8, U0> = a.concat(b); } }
mod q170 { use super::*; fn p(a: GA<GA<u8, U2>, U6>) { let _f: GA<u8, U11> = a.flatten(); } }
mod q171 { use super::*; fn p(a: GA<u8, U2>) { let (_h, _t): (GA<u8, U0>, GA<u8, U0>) = Split::<u8, U0>::split(a); } }
mod q172 { use super::*; fn p(a: GA<u8, U2>) { let (_h, _t): (GA<u8, U1>, GA<u8, U0>) = Split::<u8, U1>::split(a); } }
mod q173 { use super::*; fn p(a: GA<u8, U2>) { let (_h, _t): (GA<u8, U2>, GA<u8, U0>) = Split::<u8, U2>::split(a); } }
mod q174 { use super::*; fn p(a: GA<u8, U2>) { let (_h, _t): (GA<u8, U3>, GA<u8, U0>) = Split::<u8, U3>::split(a); } }
mod q175 { use super::*; fn p(a: GA<u8, U2>) { let (_h, _t): (GA<u8, U4>, GA<u8, U0>) = Split::<u8, U4>::split(a); } }
mod q176 { use super::*; fn p(a: GA<u8, U2>) { let (_h, _t): (GA<u8, U5>, GA<u8, U0>) = Split::<u8, U5>::split(a); } }
mod q177 { use super::*; fn p(a: GA<u8, U2>) { let (_h, _t): (GA<u8, U6>, GA<u8, U0>) = Split::<u8, U6>::split(a); } }
mod q178 { use super::*; fn p(a: GA<u8, U2>) { let (_h, _t): (GA<u8, U7>, GA<u8, U0>) = Split::<u8, U7>::split(a); } }
mod q179 { use super::*; fn p(a: GA<u8, U2>) { let _c: GA<u8, U0> = a.append(1u8); } }
mod q180 { use super::*; fn p(a: GA<u8, U2>) { let _m: GA<u16, U0> = a.map(|x| x as u16); } }
mod q181 { use super::*; fn p() { let _a: GA<u8, U0> = arr![1u8, 1u8]; } }
mod q182 { use super::*; fn p(a: &GA<u8, U2>) { let _r: &[u8; 0] = a.as_ref(); } }
mod q183 { use super::*; fn p(x: &[GA<u8, U2>]) { let _g: &[[u8; 0]] = GA::into_chunks(x); } }
mod q184 { use super::*; fn p(a: GA<u8, U2>) { let (_c, _x): (GA<u8, U1>, u8) = a.pop_back(); } }
mod q185 { use super::*; fn p() { let _g: GA<u8, U1> = GA::<u8, U2>::generate(|i| i as u8); } }
mod q186 { use super::*; fn p(a: GA<u8, U2>) { let _x = a.into_array::<1>(); } }
mod q187 { use super::*; fn p(x: &[u8; 1]) { let _g: &GA<u8, U2> = x.into(); } }
mod q188 { use super::*; fn p(x: &mut [GA<u8, U2>]) { let _g: &mut [[u8; 1]] = GA::into_chunks_mut(x); } }
mod q189 { use super::*; fn p(a: GA<u8, U2>) { let (_x, _c): (u8, GA<u8, U2>) = a.remove(0); } }
mod q190 { use super::*; fn p() { let _a: GA<u8, U2> = arr![7u8; U2]; } }
mod q191 { use super::*; fn p(a: GA<u8, U2>) { let _x: [u8; 2] = a.into(); } }
mod q192 { use super::*; fn p(x: &[[u8; 2]]) { let _g: &[GA<u8, U2>] = GA::from_chunks(x); } }
mod q193 { use super::*; fn p(a: GA<u8, U2>) { let _c: GA<u8, U3> = a.append(1u8); } }
mod q194 { use super::*; fn p(a: GA<u8, U2>) { let _m: GA<u16, U3> = a.map(|x| x as u16); } }
mod q195 { use super::*; fn p() { let _a: GA<u8, U3> = arr![1u8, 1u8]; } }
mod q196 { use super::*; fn p(a: &GA<u8, U2>) { let _r: &[u8; 3] = a.as_ref(); } }
mod q197 { use super::*; fn p(x: &[GA<u8, U2>]) { let _g: &[[u8; 3]] = GA::into_chunks(x); } }
mod q198 { use super::*; fn p(a: GA<u8, U2>) { let (_c, _x): (GA<u8, U4>, u8) = a.pop_back(); } }
mod q199 { use super::*; fn p() { let _g: GA<u8, U4> = GA::<u8, U2>::generate(|i| i as u8); } }
mod q200 { use super::*; fn p(a: GA<u8, U2>) { let _x = a.into_array::<4>(); } }
mod q201 { use super::*; fn p(x: &[u8; 4]) { let _g: &GA<u8, U2> = x.into(); } }
mod q202 { use super::*; fn p(x: &mut [GA<u8, U2>]) { let _g: &mut [[u8; 4]] = GA::into_chunks_mut(x); } }
mod q203 { use super::*; fn p(a: GA<u8, U2>) { let (_x, _c): (u8, GA<u8, U5>) = a.remove(0); } }
mod q204 { use super::*; fn p() { let _a: GA<u8, U5> = arr![7u8; U2]; } }
mod q205 { use super::*; fn p(a: GA<u8, U2>) { let _x: [u8; 5] = a.into(); } }
mod q206 { use super::*; fn p(x: &[[u8; 5]]) { let _g: &[GA<u8, U2>] = GA::from_chunks(x); } }
mod q207 { use super::*; fn p(a: GA<u8, U2>) { let _c: GA<u8, U6> = a.append(1u8); } }
mod q208 { use super::*; fn p(a: GA<u8, U2>) { let _m: GA<u16, U6> = a.map(|x| x as u16); } }
mod q209 { use super::*; fn p() { let _a: GA<u8, U6> = arr![1u8, 1u8]; } }
mod q210 { use super::*; fn p(a: &GA<u8, U2>) { let _r: &[u8; 6] = a.as_ref(); } }
mod q211 { use super::*; fn p(x: &[GA<u8, U2>]) { let _g: &[[u8; 6]] = GA::into_chunks(x); } }
mod q212 { use super::*; fn p(a: GA<u8, U2>) { let (_c, _x): (GA<u8, U7>, u8) = a.pop_back(); } }
mod q213 { use super::*; fn p() { let _g: GA<u8, U7> = GA::<u8, U2>::generate(|i| i as u8); } }
mod q214 { use super::*; fn p(a: GA<u8, U2>) { let _x = a.into_array::<7>(); } }
mod q215 { use super::*; fn p(x: &[u8; 7]) { let _g: &GA<u8, U2> = x.into(); } }
mod q216 { use super::*; fn p(x: &mut [GA<u8, U2>]) { let _g: &mut [[u8; 7]] = GA::into_chunks_mut(x); } }
mod q217 { use super::*; fn p(a: GA<u8, U2>) { let (_x, _c): (u8, GA<u8, U8>) = a.remove(0); } }
mod q218 { use super::*; fn p() { let _a: GA<u8, U8> = arr![7u8; U2]; } }
mod q219 { use super::*; fn p(a: GA<u8, U2>) { let _x: [u8; 8] = a.into(); } }
mod q220 { use super::*; fn p(x: &[[u8; 8]]) { let _g: &[GA<u8, U2>] = GA::from_chunks(x); } }
mod q221 { use super::*; fn p(a: GA<u8, U2>) { let _u: GA<GA<u8, U0>, U0> = a.unflatten(); } }
mod q222 { use super::*; fn p(a: GA<u8, U2>) { let _u: GA<GA<u8, U0>, U6> = a.unflatten(); } }
mod q223 { use super::*; fn p(a: GA<u8, U2>) { let _u: GA<GA<u8, U1>, U4> = a.unflatten(); } }
mod q224 { use super::*; fn p(a: GA<u8, U2>) { let _u: GA<GA<u8, U2>, U2> = a.unflatten(); } }
mod q225 { use super::*; fn p(a: GA<u8, U2>) { let _u: GA<GA<u8, U3>, U0> = a.unflatten(); } }
mod q226 { use super::*; fn p(a: GA<u8, U2>) { let _u: GA<GA<u8, U3>, U6> = a.unflatten(); } }
mod q227 { use super::*; fn p(a: GA<u8, U3>, b: GA<u8, U0>) { let _ = GenericSequence::inverted_zip2(b, a, |x: u8, y: u8| x.wrapping_add(y)); } }
mod q228 { use super::*; fn p(a: GA<u8, U3>, b: GA<u8, U0>) { let _c: GA<u8, U2> = a.concat(b); } }
mod q229 { use super::*; fn p(a: &GA<GA<u8, U3>, U0>) { let _f: &GA<u8, U1> = a.flatten(); } }
mod q230 { use super::*; fn p(a: GA<u8, U3>, b: GA<u8, U1>) { let _ = GenericSequence::inverted_zip(b, a, |x: u8, y: u8| x.wrapping_add(y)); } }
mod q231 { use super::*; fn p(a: GA<u8, U3>, b: GA<u8, U1>) { let _c: GA<u8, U0> = a.concat(b); } }
mod q232 { use super::*; fn p(a: GA<GA<u8, U3>, U1>) { let _f: GA<u8, U3> = a.flatten(); } }
mod q233 { use super::*; fn p(a: GA<u8, U3>, b: &mut GA<u8, U2>) { let _ = a.zip(b, |x, y| x.wrapping_add(*y)); } }
mod q234 { use super::*; fn p(a: GA<u8, U3>, b: GA<u8, U2>) -> core::cmp::Ordering { core::cmp::Ord::cmp(&a, &b) } }
mod q235 { use super::*; fn p(a: &GA<GA<u8, U3>, U2>) { let _f: &GA<u8, U5> = a.flatten(); } }
mod q236 { use super::*; fn p(a: &GA<u8, U3>, b: &GA<u8, U3>) { let _ = a.zip(b, |x, y| x.wrapping_add(*y)); } }
mod q237 { use super::*; fn p(a: GA<u8, U3>, b: GA<u8, U3>) -> bool { a < b } }
mod q238 { use super::*; fn p(a: GA<GA<u8, U3>, U3>) { let _f: GA<u8, U6> = a.flatten(); } }
mod q239 { use super::*; fn p(a: GA<GA<u8, U3>, U3>) { let _f: GA<u8, U10> = a.flatten(); } }
mod q240 { use super::*; fn p(a: GA<u8, U3>, b: GA<u8, U4>) { let _ = GenericSequence::inverted_zip2(b, a, |x: u8, y: u8| x.wrapping_add(y)); } }
mod q241 { use super::*; fn p(a: GA<u8, U3>, b: GA<u8, U4>) { let _c: GA<u8, U6> = a.concat(b); } }
mod q242 { use super::*; fn p(a: &GA<GA<u8, U3>, U4>) { let _f: &GA<u8, U11> = a.flatten(); } }
mod q243 { use super::*; fn p(a: &GA<u8, U3>, b: &GA<u8, U5>) { let _ = a.zip(b, |x, y| x.wrapping_add(*y)); } }
mod q244 { use super::*; fn p(a: GA<u8, U3>, b: GA<u8, U5>) -> bool { a < b } }
mod q245 { use super::*; fn p(a: GA<GA<u8, U3>, U5>) { let _f: GA<u8, U8> = a.flatten(); } }
mod q246 { use super::*; fn p(a: GA<GA<u8, U3>, U5>) { let _f: GA<u8, U16> = a.flatten(); } }
mod q247 { use super::*; fn p(a: GA<u8, U3>, b: GA<u8, U6>) { let _ = GenericSequence::inverted_zip2(b, a, |x: u8, y: u8| x.wrapping_add(y)); } }
mod q248 { use super::*; fn p(a: GA<u8, U3>, b: GA<u8, U6>) { let _c: GA<u8, U8> = a.concat(b); } }
mod q249 { use super::*; fn p(a: &GA<GA<u8, U3>, U6>) { let _f: &GA<u8, U17> = a.flatten(); } }
mod q250 { use super::*; fn p(a: &GA<u8, U3>) { let (_h, _t): (&GA<u8, U0>, &GA<u8, U0>) = Split::<u8, U0>::split(a); } }
mod q251 { use super::*; fn p(a: &GA<u8, U3>) { let (_h, _t): (&GA<u8, U1>, &GA<u8, U0>) = Split::<u8, U1>::split(a); } }
mod q252 { use super::*; fn p(a: &GA<u8, U3>) { let (_h, _t): (&GA<u8, U2>, &GA<u8, U0>) = Split::<u8, U2>::split(a); } }
mod q253 { use super::*; fn p(a: &GA<u8, U3>) { let (_h, _t): (&GA<u8, U2>, &GA<u8, U3>) = Split::<u8, U2>::split(a); } }
mod q254 { use super::*; fn p(a: &GA<u8, U3>) { let (_h, _t): (&GA<u8, U3>, &GA<u8, U3>) = Split::<u8, U3>::split(a); } }
mod q255 { use super::*; fn p(a: &GA<u8, U3>) { let (_h, _t): (&GA<u8, U4>, &GA<u8, U3>) = Split::<u8, U4>::split(a); } }
mod q256 { use super::*; fn p(a: &GA<u8, U3>) { let (_h, _t): (&GA<u8, U5>, &GA<u8, U3>) = Split::<u8, U5>::split(a); } }
mod q257 { use super::*; fn p(a: &GA<u8, U3>) { let (_h, _t): (&GA<u8, U6>, &GA<u8, U3>) = Split::<u8, U6>::split(a); } }
mod q258 { use super::*; fn p(a: &GA<u8, U3>) { let (_h, _t): (&GA<u8, U7>, &GA<u8, U3>) = Split::<u8, U7>::split(a); } }
mod q259 { use super::*; fn p(a: GA<u8, U3>) { let (_x, _c): (u8, GA<u8, U0>) = a.swap_remove(0); } }
mod q260 { use super::*; fn p() { let _a: GA<u8, U0> = arr![7u8; 3]; } }
mod q261 { use super::*; fn p() { let _g: GA<u8, U3> = [0u8; 0].into(); } }
mod q262 { use super::*; fn p(x: &mut [[u8; 0]]) { let _g: &mut [GA<u8, U3>] = GA::from_chunks_mut(x); } }
mod q263 { use super::*; fn p(a: GA<u8, U3>) { let _c: GA<u8, U1> = a.prepend(1u8); } }
mod q264 { use super::*; fn p(a: &GA<u8, U3>) { let _m: GA<u16, U1> = a.map(|x| *x as u16); } }
mod q265 { use super::*; fn p(a: GA<u8, U3>) { let _x: [u8; 1] = a.into_array(); } }
mod q266 { use super::*; fn p(a: &mut GA<u8, U3>) { let _r: &mut [u8; 1] = a.as_mut(); } }
mod q267 { use super::*; fn p(x: &[GA<u8, U3>]) { let _g = GA::<u8, U3>::into_chunks::<1>(x); } }
mod q268 { use super::*; fn p(a: GA<u8, U3>) { let (_x, _c): (u8, GA<u8, U2>) = a.pop_front(); } }
mod q269 { use super::*; fn p(a: GA<u8, U3>, b: GA<u8, U3>) { let _z: GA<u16, U2> = a.zip(b, |x, y| x as u16 + y as u16); } }
mod q270 { use super::*; fn p() { let _g = GA::<u8, U3>::from_array([0u8; 2]); } }
mod q271 { use super::*; fn p(x: &mut [u8; 2]) { let _g: &mut GA<u8, U3> = x.into(); } }
mod q272 { use super::*; fn p(x: &mut [GA<u8, U3>]) { let _g = GA::<u8, U3>::into_chunks_mut::<2>(x); } }
mod q273 { use super::*; fn p(a: GA<u8, U3>) { let (_x, _c): (u8, GA<u8, U3>) = a.swap_remove(0); } }
mod q274 { use super::*; fn p() { let _a: GA<u8, U3> = arr![7u8; 3]; } }
mod q275 { use super::*; fn p() { let _g: GA<u8, U3> = [0u8; 3].into(); } }
mod q276 { use super::*; fn p(x: &mut [[u8; 3]]) { let _g: &mut [GA<u8, U3>] = GA::from_chunks_mut(x); } }
mod q277 { use super::*; fn p(a: GA<u8, U3>) { let _c: GA<u8, U4> = a.prepend(1u8); } }
mod q278 { use super::*; fn p(a: &GA<u8, U3>) { let _m: GA<u16, U4> = a.map(|x| *x as u16); } }
mod q279 { use super::*; fn p(a: GA<u8, U3>) { let _x: [u8; 4] = a.into_array(); } }
mod q280 { use super::*; fn p(a: &mut GA<u8, U3>) { let _r: &mut [u8; 4] = a.as_mut(); } }
mod q281 { use super::*; fn p(x: &[GA<u8, U3>]) { let _g = GA::<u8, U3>::into_chunks::<4>(x); } }
mod q282 { use super::*; fn p(a: GA<u8, U3>) { let (_x, _c): (u8, GA<u8, U5>) = a.pop_front(); } }
mod q283 { use super::*; fn p(a: GA<u8, U3>, b: GA<u8, U3>) { let _z: GA<u16, U5> = a.zip(b, |x, y| x as u16 + y as u16); } }
mod q284 { use super::*; fn p() { let _g = GA::<u8, U3>::from_array([0u8; 5]); } }
mod q285 { use super::*; fn p(x: &mut [u8; 5]) { let _g: &mut GA<u8, U3> = x.into(); } }
mod q286 { use super::*; fn p(x: &mut [GA<u8, U3>]) { let _g = GA::<u8, U3>::into_chunks_mut::<5>(x); } }
mod q287 { use super::*; fn p(a: GA<u8, U3>) { let (_x, _c): (u8, GA<u8, U6>) = a.swap_remove(0); } }
mod q288 { use super::*; fn p() { let _a: GA<u8, U6> = arr![7u8; 3]; } }
mod q289 { use super::*; fn p() { let _g: GA<u8, U3> = [0u8; 6].into(); } }
mod q290 { use super::*; fn p(x: &mut [[u8; 6]]) { let _g: &mut [GA<u8, U3>] = GA::from_chunks_mut(x); } }
mod q291 { use super::*; fn p(a: GA<u8, U3>) { let _c: GA<u8, U7> = a.prepend(1u8); } }
mod q292 { use super::*; fn p(a: &GA<u8, U3>) { let _m: GA<u16, U7> = a.map(|x| *x as u16); } }
mod q293 { use super::*; fn p(a: GA<u8, U3>) { let _x: [u8; 7] = a.into_array(); } }
mod q294 { use super::*; fn p(a: &mut GA<u8, U3>) { let _r: &mut [u8; 7] = a.as_mut(); } }
mod q295 { use super::*; fn p(x: &[GA<u8, U3>]) { let _g = GA::<u8, U3>::into_chunks::<7>(x); } }
mod q296 { use super::*; fn p(a: GA<u8, U3>) { let (_x, _c): (u8, GA<u8, U8>) = a.pop_front(); } }
mod q297 { use super::*; fn p(a: GA<u8, U3>, b: GA<u8, U3>) { let _z: GA<u16, U8> = a.zip(b, |x, y| x as u16 + y as u16); } }
mod q298 { use super::*; fn p() { let _g = GA::<u8, U3>::from_array([0u8; 8]); } }
mod q299 { use super::*; fn p(x: &mut [u8; 8]) { let _g: &mut GA<u8, U3> = x.into(); } }
mod q300 { use super::*; fn p(x: &mut [GA<u8, U3>]) { let _g = GA::<u8, U3>::into_chunks_mut::<8>(x); } }
mod q301 { use super::*; fn p(a: GA<u8, U3>) { let _u: GA<GA<u8, U0>, U5> = a.unflatten(); } }
mod q302 { use super::*; fn p(a: GA<u8, U3>) { let _u: GA<GA<u8, U1>, U3> = a.unflatten(); } }
mod q303 { use super::*; fn p(a: GA<u8, U3>) { let _u: GA<GA<u8, U2>, U1> = a.unflatten(); } }
mod q304 { use super::*; fn p(a: GA<u8, U3>) { let _u: GA<GA<u8, U2>, U7> = a.unflatten(); } }
mod q305 { use super::*; fn p(a: GA<u8, U3>) { let _u: GA<GA<u8, U3>, U5> = a.unflatten(); } }
mod q306 { use super::*; fn p(a: GA<u8, U4>, b: GA<u8, U0>) { let _ = GenericSequence::inverted_zip(b, a, |x: u8, y: u8| x.wrapping_add(y)); } }
mod q307 { use super::*; fn p(a: GA<u8, U4>, b: GA<u8, U0>) { let _c: GA<u8, U0> = a.concat(b); } }
mod q308 { use super::*; fn p(a: GA<GA<u8, U4>, U0>) { let _f: GA<u8, U1> = a.flatten(); } }
mod q309 { use super::*; fn p(a: GA<u8, U4>, b: &mut GA<u8, U1>) { let _ = a.zip(b, |x, y| x.wrapping_add(*y)); } }
mod q310 { use super::*; fn p(a: GA<u8, U4>, b: GA<u8, U1>) -> core::cmp::Ordering { core::cmp::Ord::cmp(&a, &b) } }
mod q311 { use super::*; fn p(a: &GA<GA<u8, U4>, U1>) { let _f: &GA<u8, U3> = a.flatten(); } }
mod q312 { use super::*; fn p(a: &GA<u8, U4>, b: &GA<u8, U2>) { let _ = a.zip(b, |x, y| x.wrapping_add(*y)); } }
mod q313 { use super::*; fn p(a: GA<u8, U4>, b: GA<u8, U2>) -> bool { a < b } }
mod q314 { use super::*; fn p(a: GA<GA<u8, U4>, U2>) { let _f: GA<u8, U6> = a.flatten(); } }
mod q315 { use super::*; fn p(a: GA<GA<u8, U4>, U2>) { let _f: GA<u8, U9> = a.flatten(); } }
mod q316 { use super::*; fn p(a: GA<u8, U4>, b: GA<u8, U3>) { let _ = GenericSequence::inverted_zip2(b, a, |x: u8, y: u8| x.wrapping_add(y)); } }
mod q317 { use super::*; fn p(a: GA<u8, U4>, b: GA<u8, U3>) { let _c: GA<u8, U6> = a.concat(b); } }
mod q318 { use super::*; fn p(a: &GA<GA<u8, U4>, U3>) { let _f: &GA<u8, U11> = a.flatten(); } }
mod q319 { use super::*; fn p(a: &GA<u8, U4>, b: &GA<u8, U4>) { let _ = a.zip(b, |x, y| x.wrapping_add(*y)); } }
mod q320 { use super::*; fn p(a: GA<u8, U4>, b: GA<u8, U4>) -> bool { a < b } }
mod q321 { use super::*; fn p(a: GA<GA<u8, U4>, U4>) { let _f: GA<u8, U8> = a.flatten(); } }
mod q322 { use super::*; fn p(a: GA<GA<u8, U4>, U4>) { let _f: GA<u8, U17> = a.flatten(); } }
mod q323 { use super::*; fn p(a: GA<u8, U4>, b: GA<u8, U5>) { let _ = GenericSequence::inverted_zip2(b, a, |x: u8, y: u8| x.wrapping_add(y)); } }
mod q324 { use super::*; fn p(a: GA<u8, U4>, b: GA<u8, U5>) { let _c: GA<u8, U8> = a.concat(b); } }
mod q325 { use super::*; fn p(a: &GA<GA<u8, U4>, U5>) { let _f: &GA<u8, U19> = a.flatten(); } }
mod q326 { use super::*; fn p(a: &GA<u8, U4>, b: &GA<u8, U6>) { let _ = a.zip(b, |x, y| x.wrapping_add(*y)); } }
mod q327 { use super::*; fn p(a: GA<u8, U4>, b: GA<u8, U6>) -> bool { a < b } }
mod q328 { use super::*; fn p(a: GA<GA<u8, U4>, U6>) { let _f: GA<u8, U10> = a.flatten(); } }
mod q329 { use super::*; fn p(a: GA<GA<u8, U4>, U6>) { let _f: GA<u8, U25> = a.flatten(); } }
mod q330 { use super::*; fn p(a: GA<u8, U4>) { let (_h, _t): (GA<u8, U0>, GA<u8, U5>) = Split::<u8, U0>::split(a); } }
mod q331 { use super::*; fn p(a: GA<u8, U4>) { let (_h, _t): (GA<u8, U1>, GA<u8, U4>) = Split::<u8, U1>::split(a); } }
mod q332 { use super::*; fn p(a: GA<u8, U4>) { let (_h, _t): (GA<u8, U2>, GA<u8, U3>) = Split::<u8, U2>::split(a); } }
mod q333 { use super::*; fn p(a: GA<u8, U4>) { let (_h, _t): (GA<u8, U3>, GA<u8, U1>) = Split::<u8, U3>::split(a); } }
mod q334 { use super::*; fn p(a: GA<u8, U4>) { let (_h, _t): (GA<u8, U4>, GA<u8, U0>) = Split::<u8, U4>::split(a); } }
mod q335 { use super::*; fn p(a: GA<u8, U4>) { let (_h, _t): (GA<u8, U5>, GA<u8, U0>) = Split::<u8, U5>::split(a); } }
mod q336 { use super::*; fn p(a: GA<u8, U4>) { let (_h, _t): (GA<u8, U6>, GA<u8, U0>) = Split::<u8, U6>::split(a); } }
mod q337 { use super::*; fn p(a: GA<u8, U4>) { let (_h, _t): (GA<u8, U7>, GA<u8, U0>) = Split::<u8, U7>::split(a); } }
mod q338 { use super::*; fn p(a: GA<u8, U4>) { let _c: GA<u8, U0> = a.append(1u8); } }
mod q339 { use super::*; fn p(a: GA<u8, U4>) { let _m: GA<u16, U0> = a.map(|x| x as u16); } }
mod q340 { use super::*; fn p() { let _a: GA<u8, U0> = arr![1u8, 1u8, 1u8, 1u8]; } }
mod q341 { use super::*; fn p(a: &GA<u8, U4>) { let _r: &[u8; 0] = a.as_ref(); } }
mod q342 { use super::*; fn p(x: &[GA<u8, U4>]) { let _g: &[[u8; 0]] = GA::into_chunks(x); } }
mod q343 { use super::*; fn p(a: GA<u8, U4>) { let (_c, _x): (GA<u8, U1>, u8) = a.pop_back(); } }
mod q344 { use super::*; fn p() { let _g: GA<u8, U1> = GA::<u8, U4>::generate(|i| i as u8); } }
mod q345 { use super::*; fn p(a: GA<u8, U4>) { let _x = a.into_array::<1>(); } }
mod q346 { use super::*; fn p(x: &[u8; 1]) { let _g: &GA<u8, U4> = x.into(); } }
mod q347 { use super::*; fn p(x: &mut [GA<u8, U4>]) { let _g: &mut [[u8; 1]] = GA::into_chunks_mut(x); } }
mod q348 { use super::*; fn p(a: GA<u8, U4>) { let (_x, _c): (u8, GA<u8, U2>) = a.remove(0); } }
mod q349 { use super::*; fn p() { let _a: GA<u8, U2> = arr![7u8; U4]; } }
mod q350 { use super::*; fn p(a: GA<u8, U4>) { let _x: [u8; 2] = a.into(); } }
mod q351 { use super::*; fn p(x: &[[u8; 2]]) { let _g: &[GA<u8, U4>] = GA::from_chunks(x); } }
mod q352 { use super::*; fn p(a: GA<u8, U4>) { let _c: GA<u8, U3> = a.append(1u8); } }
mod q353 { use super::*; fn p(a: GA<u8, U4>) { let _m: GA<u16, U3> = a.map(|x| x as u16); } }
mod q354 { use super::*; fn p() { let _a: GA<u8, U3> = arr![1u8, 1u8, 1u8, 1u8]; } }
mod q355 { use super::*; fn p(a: &GA<u8, U4>) { let _r: &[u8; 3] = a.as_ref(); } }
mod q356 { use super::*; fn p(x: &[GA<u8, U4>]) { let _g: &[[u8; 3]] = GA::into_chunks(x); } }
mod q357 { use super::*; fn p(a: GA<u8, U4>) { let (_c, _x): (GA<u8, U4>, u8) = a.pop_back(); } }
mod q358 { use super::*; fn p() { let _g: GA<u8, U4> = GA::<u8, U4>::generate(|i| i as u8); } }
mod q359 { use super::*; fn p(a: GA<u8, U4>) { let _x = a.into_array::<4>(); } }
mod q360 { use super::*; fn p(x: &[u8; 4]) { let _g: &GA<u8, U4> = x.into(); } }
mod q361 { use super::*; fn p(x: &mut [GA<u8, U4>]) { let _g: &mut [[u8; 4]] = GA::into_chunks_mut(x); } }
mod q362 { use super::*; fn p(a: GA<u8, U4>) { let (_x, _c): (u8, GA<u8, U5>) = a.remove(0); } }
mod q363 { use super::*; fn p() { let _a: GA<u8, U5> = arr![7u8; U4]; } }
mod q364 { use super::*; fn p(a: GA<u8, U4>) { let _x: [u8; 5] = a.into(); } }
mod q365 { use super::*; fn p(x: &[[u8; 5]]) { let _g: &[GA<u8, U4>] = GA::from_chunks(x); } }
mod q366 { use super::*; fn p(a: GA<u8, U4>) { let _c: GA<u8, U6> = a.append(1u8); } }
mod q367 { use super::*; fn p(a: GA<u8, U4>) { let _m: GA<u16, U6> = a.map(|x| x as u16); } }
mod q368 { use super::*; fn p() { let _a: GA<u8, U6> = arr![1u8, 1u8, 1u8, 1u8]; } }
mod q369 { use super::*; fn p(a: &GA<u8, U4>) { let _r: &[u8; 6] = a.as_ref(); } }
mod q370 { use super::*; fn p(x: &[GA<u8, U4>]) { let _g: &[[u8; 6]] = GA::into_chunks(x); } }
mod q371 { use super::*; fn p(a: GA<u8, U4>) { let (_c, _x): (GA<u8, U7>, u8) = a.pop_back(); } }
mod q372 { use super::*; fn p() { let _g: GA<u8, U7> = GA::<u8, U4>::generate(|i| i as u8); } }
mod q373 { use super::*; fn p(a: GA<u8, U4>) { let _x = a.into_array::<7>(); } }
mod q374 { use super::*; fn p(x: &[u8; 7]) { let _g: &GA<u8, U4> = x.into(); } }
mod q375 { use super::*; fn p(x: &mut [GA<u8, U4>]) { let _g: &mut [[u8; 7]] = GA::into_chunks_mut(x); } }
mod q376 { use super::*; fn p(a: GA<u8, U4>) { let (_x, _c): (u8, GA<u8, U8>) = a.remove(0); } }
mod q377 { use super::*; fn p() { let _a: GA<u8, U8> = arr![7u8; U4]; } }
mod q378 { use super::*; fn p(a: GA<u8, U4>) { let _x: [u8; 8] = a.into(); } }
mod q379 { use super::*; fn p(x: &[[u8; 8]]) { let _g: &[GA<u8, U4>] = GA::from_chunks(x); } }
mod q380 { use super::*; fn p(a: GA<u8, U4>) { let _u: GA<GA<u8, U0>, U0> = a.unflatten(); } }
mod q381 { use super::*; fn p(a: GA<u8, U4>) { let _u: GA<GA<u8, U0>, U6> = a.unflatten(); } }
mod q382 { use super::*; fn p(a: GA<u8, U4>) { let _u: GA<GA<u8, U1>, U4> = a.unflatten(); } }
mod q383 { use super::*; fn p(a: GA<u8, U4>) { let _u: GA<GA<u8, U2>, U2> = a.unflatten(); } }
mod q384 { use super::*; fn p(a: GA<u8, U4>) { let _u: GA<GA<u8, U3>, U0> = a.unflatten(); } }
mod q385 { use super::*; fn p(a: GA<u8, U4>) { let _u: GA<GA<u8, U3>, U6> = a.unflatten(); } }
mod q386 { use super::*; fn p(a: GA<u8, U5>, b: GA<u8, U0>) { let _ = GenericSequence::inverted_zip2(b, a, |x: u8, y: u8| x.wrapping_add(y)); } }
mod q387 { use super::*; fn p(a: GA<u8, U5>, b: GA<u8, U0>) { let _c: GA<u8, U4> = a.concat(b); } }
mod q388 { use super::*; fn p(a: &GA<GA<u8, U5>, U0>) { let _f: &GA<u8, U1> = a.flatten(); } }
mod q389 { use super::*; fn p(a: GA<u8, U5>, b: GA<u8, U1>) { let _ = GenericSequence::inverted_zip(b, a, |x: u8, y: u8| x.wrapping_add(y)); } }
mod q390 { use super::*; fn p(a: GA<u8, U5>, b: GA<u8, U1>) { let _c: GA<u8, U0> = a.concat(b); } }
mod q391 { use super::*; fn p(a: GA<GA<u8, U5>, U1>) { let _f: GA<u8, U5> = a.flatten(); } }
mod q392 { use super::*; fn p(a: GA<u8, U5>, b: &mut GA<u8, U2>) { let _ = a.zip(b, |x, y| x.wrapping_add(*y)); } }
mod q393 { use super::*; fn p(a: GA<u8, U5>, b: GA<u8, U2>) -> core::cmp::Ordering { core::cmp::Ord::cmp(&a, &b) } }
mod q394 { use super::*; fn p(a: &GA<GA<u8, U5>, U2>) { let _f: &GA<u8, U7> = a.flatten(); } }
mod q395 { use super::*; fn p(a: &GA<GA<u8, U5>, U2>) { let _f: &GA<u8, U11> = a.flatten(); } }
mod q396 { use super::*; fn p(a: &GA<u8, U5>, b: GA<u8, U3>) { let _ = GenericSequence::inverted_zip2(b, a, |x: &u8, y: u8| x.wrapping_add(y)); } }
mod q397 { use super::*; fn p(a: GA<u8, U5>, b: GA<u8, U3>) { let _c: GA<u8, U8> = a.concat(b); } }
mod q398 { use super::*; fn p(a: GA<GA<u8, U5>, U3>) { let _f: GA<u8, U15> = a.flatten(); } }
mod q399 { use super::*; fn p(a: GA<u8, U5>, b: &mut GA<u8, U4>) { let _ = a.zip(b, |x, y| x.wrapping_add(*y)); } }
mod q400 { use super::*; fn p(a: GA<u8, U5>, b: GA<u8, U4>) -> core::cmp::Ordering { core::cmp::Ord::cmp(&a, &b) } }
mod q401 { use super::*; fn p(a: &GA<GA<u8, U5>, U4>) { let _f: &GA<u8, U9> = a.flatten(); } }
mod q402 { use super::*; fn p(a: &GA<GA<u8, U5>, U4>) { let _f: &GA<u8, U21> = a.flatten(); } }
mod q403 { use super::*; fn p(a: &GA<u8, U5>, b: GA<u8, U5>) { let _ = GenericSequence::inverted_zip2(b, a, |x: &u8, y: u8| x.wrapping_add(y)); } }
mod q404 { use super::*; fn p(a: GA<u8, U5>, b: GA<u8, U5>) { let _c: GA<u8, U10> = a.concat(b); } }
mod q405 { use super::*; fn p(a: GA<GA<u8, U5>, U5>) { let _f: GA<u8, U25> = a.flatten(); } }
mod q406 { use super::*; fn p(a: GA<u8, U5>, b: &mut GA<u8, U6>) { let _ = a.zip(b, |x, y| x.wrapping_add(*y)); } }
mod q407 { use super::*; fn p(a: GA<u8, U5>, b: GA<u8, U6>) -> core::cmp::Ordering { core::cmp::Ord::cmp(&a, &b) } }
mod q408 { use super::*; fn p(a: &GA<GA<u8, U5>, U6>) { let _f: &GA<u8, U11> = a.flatten(); } }
mod q409 { use super::*; fn p(a: &GA<GA<u8, U5>, U6>) { let _f: &GA<u8, U31> = a.flatten(); } }
mod q410 { use super::*; fn p(a: &GA<u8, U5>) { let (_h, _t): (&GA<u8, U0>, &GA<u8, U6>) = Split::<u8, U0>::split(a); } }
mod q411 { use super::*; fn p(a: &GA<u8, U5>) { let (_h, _t): (&GA<u8, U1>, &GA<u8, U5>) = Split::<u8, U1>::split(a); } }
mod q412 { use super::*; fn p(a: &GA<u8, U5>) { let (_h, _t): (&GA<u8, U2>, &GA<u8, U4>) = Split::<u8, U2>::split(a); } }
mod q413 { use super::*; fn p(a: &GA<u8, U5>) { let (_h, _t): (&GA<u8, U3>, &GA<u8, U2>) = Split::<u8, U3>::split(a); } }
mod q414 { use super::*; fn p(a: &GA<u8, U5>) { let (_h, _t): (&GA<u8, U4>, &GA<u8, U0>) = Split::<u8, U4>::split(a); } }
mod q415 { use super::*; fn p(a: &GA<u8, U5>) { let (_h, _t): (&GA<u8, U4>, &GA<u8, U5>) = Split::<u8, U4>::split(a); } }
mod q416 { use super::*; fn p(a: &GA<u8, U5>) { let (_h, _t): (&GA<u8, U5>, &GA<u8, U5>) = Split::<u8, U5>::split(a); } }
mod q417 { use super::*; fn p(a: &GA<u8, U5>) { let (_h, _t): (&GA<u8, U6>, &GA<u8, U5>) = Split::<u8, U6>::split(a); } }
mod q418 { use super::*; fn p(a: &GA<u8, U5>) { let (_h, _t): (&GA<u8, U7>, &GA<u8, U5>) = Split::<u8, U7>::split(a); } }
mod q419 { use super::*; fn p(a: GA<u8, U5>) { let (_x, _c): (u8, GA<u8, U0>) = a.swap_remove(0); } }
mod q420 { use super::*; fn p() { let _a: GA<u8, U0> = arr![7u8; 5]; } }
mod q421 { use super::*; fn p() { let _g: GA<u8, U5> = [0u8; 0].into(); } }
mod q422 { use super::*; fn p(x: &mut [[u8; 0]]) { let _g: &mut [GA<u8, U5>] = GA::from_chunks_mut(x); } }
mod q423 { use super::*; fn p(a: GA<u8, U5>) { let _c: GA<u8, U1> = a.prepend(1u8); } }
mod q424 { use super::*; fn p(a: &GA<u8, U5>) { let _m: GA<u16, U1> = a.map(|x| *x as u16); } }
mod q425 { use super::*; fn p(a: GA<u8, U5>) { let _x: [u8; 1] = a.into_array(); } }
mod q426 { use super::*; fn p(a: &mut GA<u8, U5>) { let _r: &mut [u8; 1] = a.as_mut(); } }
mod q427 { use super::*; fn p(x: &[GA<u8, U5>]) { let _g = GA::<u8, U5>::into_chunks::<1>(x); } }
mod q428 { use super::*; fn p(a: GA<u8, U5>) { let (_x, _c): (u8, GA<u8, U2>) = a.pop_front(); } }
mod q429 { use super::*; fn p(a: GA<u8, U5>, b: GA<u8, U5>) { let _z: GA<u16, U2> = a.zip(b, |x, y| x as u16 + y as u16); } }
mod q430 { use super::*; fn p() { let _g = GA::<u8, U5>::from_array([0u8; 2]); } }
mod q431 { use super::*; fn p(x: &mut [u8; 2]) { let _g: &mut GA<u8, U5> = x.into(); } }
mod q432 { use super::*; fn p(x: &mut [GA<u8, U5>]) { let _g = GA::<u8, U5>::into_chunks_mut::<2>(x); } }
mod q433 { use super::*; fn p(a: GA<u8, U5>) { let (_x, _c): (u8, GA<u8, U3>) = a.swap_remove(0); } }
mod q434 { use super::*; fn p() { let _a: GA<u8, U3> = arr![7u8; 5]; } }
mod q435 { use super::*; fn p() { let _g: GA<u8, U5> = [0u8; 3].into(); } }
mod q436 { use super::*; fn p(x: &mut [[u8; 3]]) { let _g: &mut [GA<u8, U5>] = GA::from_chunks_mut(x); } }
mod q437 { use super::*; fn p(a: GA<u8, U5>) { let _c: GA<u8, U4> = a.prepend(1u8); } }
mod q438 { use super::*; fn p(a: &GA<u8, U5>) { let _m: GA<u16, U4> = a.map(|x| *x as u16); } }
mod q439 { use super::*; fn p(a: GA<u8, U5>) { let _x: [u8; 4] = a.into_array(); } }
mod q440 { use super::*; fn p(a: &mut GA<u8, U5>) { let _r: &mut [u8; 4] = a.as_mut(); } }
mod q441 { use super::*; fn p(x: &[GA<u8, U5>]) { let _g = GA::<u8, U5>::into_chunks::<4>(x); } }
mod q442 { use super::*; fn p(a: GA<u8, U5>) { let (_x, _c): (u8, GA<u8, U5>) = a.pop_front(); } }
mod q443 { use super::*; fn p(a: GA<u8, U5>, b: GA<u8, U5>) { let _z: GA<u16, U5> = a.zip(b, |x, y| x as u16 + y as u16); } }
mod q444 { use super::*; fn p() { let _g = GA::<u8, U5>::from_array([0u8; 5]); } }
mod q445 { use super::*; fn p(x: &mut [u8; 5]) { let _g: &mut GA<u8, U5> = x.into(); } }
mod q446 { use super::*; fn p(x: &mut [GA<u8, U5>]) { let _g = GA::<u8, U5>::into_chunks_mut::<5>(x); } }
mod q447 { use super::*; fn p(a: GA<u8, U5>) { let (_x, _c): (u8, GA<u8, U6>) = a.swap_remove(0); } }
mod q448 { use super::*; fn p() { let _a: GA<u8, U6> = arr![7u8; 5]; } }
mod q449 { use super::*; fn p() { let _g: GA<u8, U5> = [0u8; 6].into(); } }
mod q450 { use super::*; fn p(x: &mut [[u8; 6]]) { let _g: &mut [GA<u8, U5>] = GA::from_chunks_mut(x); } }
mod q451 { use super::*; fn p(a: GA<u8, U5>) { let _c: GA<u8, U7> = a.prepend(1u8); } }
mod q452 { use super::*; fn p(a: &GA<u8, U5>) { let _m: GA<u16, U7> = a.map(|x| *x as u16); } }
mod q453 { use super::*; fn p(a: GA<u8, U5>) { let _x: [u8; 7] = a.into_array(); } }
mod q454 { use super::*; fn p(a: &mut GA<u8, U5>) { let _r: &mut [u8; 7] = a.as_mut(); } }
mod q455 { use super::*; fn p(x: &[GA<u8, U5>]) { let _g = GA::<u8, U5>::into_chunks::<7>(x); } }
mod q456 { use super::*; fn p(a: GA<u8, U5>) { let (_x, _c): (u8, GA<u8, U8>) = a.pop_front(); } }
mod q457 { use super::*; fn p(a: GA<u8, U5>, b: GA<u8, U5>) { let _z: GA<u16, U8> = a.zip(b, |x, y| x as u16 + y as u16); } }
mod q458 { use super::*; fn p() { let _g = GA::<u8, U5>::from_array([0u8; 8]); } }
mod q459 { use super::*; fn p(x: &mut [u8; 8]) { let _g: &mut GA<u8, U5> = x.into(); } }
mod q460 { use super::*; fn p(x: &mut [GA<u8, U5>]) { let _g = GA::<u8, U5>::into_chunks_mut::<8>(x); } }
mod q461 { use super::*; fn p(a: GA<u8, U5>) { let _u: GA<GA<u8, U0>, U5> = a.unflatten(); } }
mod q462 { use super::*; fn p(a: GA<u8, U5>) { let _u: GA<GA<u8, U1>, U3> = a.unflatten(); } }
mod q463 { use super::*; fn p(a: GA<u8, U5>) { let _u: GA<GA<u8, U2>, U1> = a.unflatten(); } }
mod q464 { use super::*; fn p(a: GA<u8, U5>) { let _u: GA<GA<u8, U2>, U7> = a.unflatten(); } }
mod q465 { use super::*; fn p(a: GA<u8, U5>) { let _u: GA<GA<u8, U3>, U5> = a.unflatten(); } }
mod q466 { use super::*; fn p(a: GA<u8, U6>, b: GA<u8, U0>) { let _ = GenericSequence::inverted_zip(b, a, |x: u8, y: u8| x.wrapping_add(y)); } }
mod q467 { use super::*; fn p(a: GA<u8, U6>, b: GA<u8, U0>) { let _c: GA<u8, U0> = a.concat(b); } }
mod q468 { use super::*; fn p(a: GA<GA<u8, U6>, U0>) { let _f: GA<u8, U1> = a.flatten(); } }
mod q469 { use super::*; fn p(a: GA<u8, U6>, b: &mut GA<u8, U1>) { let _ = a.zip(b, |x, y| x.wrapping_add(*y)); } }
mod q470 { use super::*; fn p(a: GA<u8, U6>, b: GA<u8, U1>) -> core::cmp::Ordering { core::cmp::Ord::cmp(&a, &b) } }
mod q471 { use super::*; fn p(a: &GA<GA<u8, U6>, U1>) { let _f: &GA<u8, U5> = a.flatten(); } }
mod q472 { use super::*; fn p(a: &GA<u8, U6>, b: &GA<u8, U2>) { let _ = a.zip(b, |x, y| x.wrapping_add(*y)); } }
mod q473 { use super::*; fn p(a: GA<u8, U6>, b: GA<u8, U2>) -> bool { a < b } }
mod q474 { use super::*; fn p(a: GA<GA<u8, U6>, U2>) { let _f: GA<u8, U8> = a.flatten(); } }
mod q475 { use super::*; fn p(a: GA<GA<u8, U6>, U2>) { let _f: GA<u8, U13> = a.flatten(); } }
mod q476 { use super::*; fn p(a: GA<u8, U6>, b: GA<u8, U3>) { let _ = GenericSequence::inverted_zip2(b, a, |x: u8, y: u8| x.wrapping_add(y)); } }
mod q477 { use super::*; fn p(a: GA<u8, U6>, b: GA<u8, U3>) { let _c: GA<u8, U8> = a.concat(b); } }
mod q478 { use super::*; fn p(a: &GA<GA<u8, U6>, U3>) { let _f: &GA<u8, U17> = a.flatten(); } }
mod q479 { use super::*; fn p(a: &GA<u8, U6>, b: &GA<u8, U4>) { let _ = a.zip(b, |x, y| x.wrapping_add(*y)); } }
mod q480 { use super::*; fn p(a: GA<u8, U6>, b: GA<u8, U4>) -> bool { a < b } }
mod q481 { use super::*; fn p(a: GA<GA<u8, U6>, U4>) { let _f: GA<u8, U10> = a.flatten(); } }
mod q482 { use super::*; fn p(a: GA<GA<u8, U6>, U4>) { let _f: GA<u8, U25> = a.flatten(); } }
mod q483 { use super::*; fn p(a: GA<u8, U6>, b: GA<u8, U5>) { let _ = GenericSequence::inverted_zip2(b, a, |x: u8, y: u8| x.wrapping_add(y)); } }
mod q484 { use super::*; fn p(a: GA<u8, U6>, b: GA<u8, U5>) { let _c: GA<u8, U10> = a.concat(b); } }
mod q485 { use super::*; fn p(a: &GA<GA<u8, U6>, U5>) { let _f: &GA<u8, U29> = a.flatten(); } }
mod q486 { use super::*; fn p(a: &GA<u8, U6>, b: &GA<u8, U6>) { let _ = a.zip(b, |x, y| x.wrapping_add(*y)); } }
mod q487 { use super::*; fn p(a: GA<u8, U6>, b: GA<u8, U6>) -> bool { a < b } }
mod q488 { use super::*; fn p(a: GA<GA<u8, U6>, U6>) { let _f: GA<u8, U12> = a.flatten(); } }
mod q489 { use super::*; fn p(a: GA<GA<u8, U6>, U6>) { let _f: GA<u8, U37> = a.flatten(); } }
mod q490 { use super::*; fn p(a: GA<u8, U6>) { let (_h, _t): (GA<u8, U0>, GA<u8, U7>) = Split::<u8, U0>::split(a); } }
mod q491 { use super::*; fn p(a: GA<u8, U6>) { let (_h, _t): (GA<u8, U1>, GA<u8, U6>) = Split::<u8, U1>::split(a); } }
mod q492 { use super::*; fn p(a: GA<u8, U6>) { let (_h, _t): (GA<u8, U2>, GA<u8, U5>) = Split::<u8, U2>::split(a); } }
mod q493 { use super::*; fn p(a: GA<u8, U6>) { let (_h, _t): (GA<u8, U3>, GA<u8, U3>) = Split::<u8, U3>::split(a); } }
mod q494 { use super::*; fn p(a: GA<u8, U6>) { let (_h, _t): (GA<u8, U4>, GA<u8, U0>) = Split::<u8, U4>::split(a); } }
mod q495 { use super::*; fn p(a: GA<u8, U6>) { let (_h, _t): (GA<u8, U4>, GA<u8, U6>) = Split::<u8, U4>::split(a); } }
mod q496 { use super::*; fn p(a: GA<u8, U6>) { let (_h, _t): (GA<u8, U5>, GA<u8, U2>) = Split::<u8, U5>::split(a); } }
mod q497 { use super::*; fn p(a: GA<u8, U6>) { let (_h, _t): (GA<u8, U6>, GA<u8, U1>) = Split::<u8, U6>::split(a); } }
mod q498 { use super::*; fn p(a: GA<u8, U6>) { let (_h, _t): (GA<u8, U7>, GA<u8, U1>) = Split::<u8, U7>::split(a); } }
mod q499 { use super::*; fn p(a: GA<u8, U6>) { let (_c, _x): (GA<u8, U0>, u8) = a.pop_back(); } }
mod q500 { use super::*; fn p() { let _g: GA<u8, U0> = GA::<u8, U6>::generate(|i| i as u8); } }
mod q501 { use super::*; fn p(a: GA<u8, U6>) { let _x = a.into_array::<0>(); } }
mod q502 { use super::*; fn p(x: &[u8; 0]) { let _g: &GA<u8, U6> = x.into(); } }
mod q503 { use super::*; fn p(x: &mut [GA<u8, U6>]) { let _g: &mut [[u8; 0]] = GA::into_chunks_mut(x); } }
mod q504 { use super::*; fn p(a: GA<u8, U6>) { let (_x, _c): (u8, GA<u8, U1>) = a.remove(0); } }
mod q505 { use super::*; fn p() { let _a: GA<u8, U1> = arr![7u8; U6]; } }
mod q506 { use super::*; fn p(a: GA<u8, U6>) { let _x: [u8; 1] = a.into(); } }
mod q507 { use super::*; fn p(x: &[[u8; 1]]) { let _g: &[GA<u8, U6>] = GA::from_chunks(x); } }
mod q508 { use super::*; fn p(a: GA<u8, U6>) { let _c: GA<u8, U2> = a.append(1u8); } }
mod q509 { use super::*; fn p(a: GA<u8, U6>) { let _m: GA<u16, U2> = a.map(|x| x as u16); } }
mod q510 { use super::*; fn p() { let _a: GA<u8, U2> = arr![1u8, 1u8, 1u8, 1u8, 1u8, 1u8]; } }
mod q511 { use super::*; fn p(a: &GA<u8, U6>) { let _r: &[u8; 2] = a.as_ref(); } }
mod q512 { use super::*; fn p(x: &[GA<u8, U6>]) { let _g: &[[u8; 2]] = GA::into_chunks(x); } }
mod q513 { use super::*; fn p(a: GA<u8, U6>) { let (_c, _x): (GA<u8, U3>, u8) = a.pop_back(); } }
mod q514 { use super::*; fn p() { let _g: GA<u8, U3> = GA::<u8, U6>::generate(|i| i as u8); } }
mod q515 { use super::*; fn p(a: GA<u8, U6>) { let _x = a.into_array::<3>(); } }
mod q516 { use super::*; fn p(x: &[u8; 3]) { let _g: &GA<u8, U6> = x.into(); } }
mod q517 { use super::*; fn p(x: &mut [GA<u8, U6>]) { let _g: &mut [[u8; 3]] = GA::into_chunks_mut(x); } }
mod q518 { use super::*; fn p(a: GA<u8, U6>) { let (_x, _c): (u8, GA<u8, U4>) = a.remove(0); } }
mod q519 { use super::*; fn p() { let _a: GA<u8, U4> = arr![7u8; U6]; } }
mod q520 { use super::*; fn p(a: GA<u8, U6>) { let _x: [u8; 4] = a.into(); } }
mod q521 { use super::*; fn p(x: &[[u8; 4]]) { let _g: &[GA<u8, U6>] = GA::from_chunks(x); } }
mod q522 { use super::*; fn p(a: GA<u8, U6>) { let _c: GA<u8, U5> = a.append(1u8); } }
mod q523 { use super::*; fn p(a: GA<u8, U6>) { let _m: GA<u16, U5> = a.map(|x| x as u16); } }
mod q524 { use super::*; fn p() { let _a: GA<u8, U5> = arr![1u8, 1u8, 1u8, 1u8, 1u8, 1u8]; } }
mod q525 { use super::*; fn p(a: &GA<u8, U6>) { let _r: &[u8; 5] = a.as_ref(); } }
mod q526 { use super::*; fn p(x: &[GA<u8, U6>]) { let _g: &[[u8; 5]] = GA::into_chunks(x); } }
mod q527 { use super::*; fn p(a: GA<u8, U6>) { let (_c, _x): (GA<u8, U6>, u8) = a.pop_back(); } }
mod q528 { use super::*; fn p() { let _g: GA<u8, U6> = GA::<u8, U6>::generate(|i| i as u8); } }
mod q529 { use super::*; fn p(a: GA<u8, U6>) { let _x = a.into_array::<6>(); } }
mod q530 { use super::*; fn p(x: &[u8; 6]) { let _g: &GA<u8, U6> = x.into(); } }
mod q531 { use super::*; fn p(x: &mut [GA<u8, U6>]) { let _g: &mut [[u8; 6]] = GA::into_chunks_mut(x); } }
mod q532 { use super::*; fn p(a: GA<u8, U6>) { let (_x, _c): (u8, GA<u8, U7>) = a.remove(0); } }
mod q533 { use super::*; fn p() { let _a: GA<u8, U7> = arr![7u8; U6]; } }
mod q534 { use super::*; fn p(a: GA<u8, U6>) { let _x: [u8; 7] = a.into(); } }
mod q535 { use super::*; fn p(x: &[[u8; 7]]) { let _g: &[GA<u8, U6>] = GA::from_chunks(x); } }
mod q536 { use super::*; fn p(a: GA<u8, U6>) { let _c: GA<u8, U8> = a.append(1u8); } }
mod q537 { use super::*; fn p(a: GA<u8, U6>) { let _m: GA<u16, U8> = a.map(|x| x as u16); } }
mod q538 { use super::*; fn p() { let _a: GA<u8, U8> = arr![1u8, 1u8, 1u8, 1u8, 1u8, 1u8]; } }
mod q539 { use super::*; fn p(a: &GA<u8, U6>) { let _r: &[u8; 8] = a.as_ref(); } }
mod q540 { use super::*; fn p(x: &[GA<u8, U6>]) { let _g: &[[u8; 8]] = GA::into_chunks(x); } }
mod q541 { use super::*; fn p(a: GA<u8, U6>) { let _u: GA<GA<u8, U0>, U2> = a.unflatten(); } }
mod q542 { use super::*; fn p(a: GA<u8, U6>) { let _u: GA<GA<u8, U1>, U0> = a.unflatten(); } }
mod q543 { use super::*; fn p(a: GA<u8, U6>) { let _u: GA<GA<u8, U1>, U6> = a.unflatten(); } }
mod q544 { use super::*; fn p(a: GA<u8, U6>) { let _u: GA<GA<u8, U2>, U4> = a.unflatten(); } }
mod q545 { use super::*; fn p(a: GA<u8, U6>) { let _u: GA<GA<u8, U3>, U2> = a.unflatten(); } }
mod q546 { use super::*; fn p() { let _g: GA<u8, U0> = (0u8, ).into(); } }
mod q547 { use super::*; fn p() { let _g: GA<u8, U12> = (0u8, ).into(); } }
mod q548 { use super::*; fn p() { let _g: GA<u8, U1> = (0u8, 0u8, ).into(); } }
mod q549 { use super::*; fn p() { let _g: GA<u8, U12> = (0u8, 0u8, ).into(); } }
mod q550 { use super::*; fn p() { let _g: GA<u8, U2> = (0u8, 0u8, 0u8, ).into(); } }
mod q551 { use super::*; fn p() { let _g: GA<u8, U12> = (0u8, 0u8, 0u8, ).into(); } }
mod q552 { use super::*; fn p() { let _g: GA<u8, U3> = (0u8, 0u8, 0u8, 0u8, ).into(); } }
mod q553 { use super::*; fn p() { let _g: GA<u8, U12> = (0u8, 0u8, 0u8, 0u8, ).into(); } }
mod q554 { use super::*; fn p() { let _g: GA<u8, U4> = (0u8, 0u8, 0u8, 0u8, 0u8, ).into(); } }
mod q555 { use super::*; fn p() { let _g: GA<u8, U12> = (0u8, 0u8, 0u8, 0u8, 0u8, ).into(); } }
mod q556 { use super::*; fn p() { let _g: GA<u8, U5> = (0u8, 0u8, 0u8, 0u8, 0u8, 0u8, ).into(); } }
mod q557 { use super::*; fn p() { let _g: GA<u8, U12> = (0u8, 0u8, 0u8, 0u8, 0u8, 0u8, ).into(); } }
mod q558 { use super::*; fn p() { let _g: GA<u8, U6> = (0u8, 0u8, 0u8, 0u8, 0u8, 0u8, 0u8, ).into(); } }
mod q559 { use super::*; fn p() { let _g: GA<u8, U12> = (0u8, 0u8, 0u8, 0u8, 0u8, 0u8, 0u8, ).into(); } }
mod q560 { use super::*; fn p() { let _g: GA<u8, U7> = (0u8, 0u8, 0u8, 0u8, 0u8, 0u8, 0u8, 0u8, ).into(); } }
mod q561 { use super::*; fn p() { let _g: GA<u8, U12> = (0u8, 0u8, 0u8, 0u8, 0u8, 0u8, 0u8, 0u8, ).into(); } }
mod q562 { use super::*; fn p() { let _g: GA<u8, U8> = (0u8, 0u8, 0u8, 0u8, 0u8, 0u8, 0u8, 0u8, 0u8, ).into(); } }
mod q563 { use super::*; fn p() { let _g: GA<u8, U12> = (0u8, 0u8, 0u8, 0u8, 0u8, 0u8, 0u8, 0u8, 0u8, ).into(); } }
mod q564 { use super::*; fn p() { let _g: GA<u8, U9> = (0u8, 0u8, 0u8, 0u8, 0u8, 0u8, 0u8, 0u8, 0u8, 0u8, ).into(); } }
mod q565 { use super::*; fn p() { let _g: GA<u8, U12> = (0u8, 0u8, 0u8, 0u8, 0u8, 0u8, 0u8, 0u8, 0u8, 0u8, ).into(); } }
mod q566 { use super::*; fn p() { let _g: GA<u8, U10> = (0u8, 0u8, 0u8, 0u8, 0u8, 0u8, 0u8, 0u8, 0u8, 0u8, 0u8, ).into(); } }
mod q567 { use super::*; fn p() { let _g: GA<u8, U13> = (0u8, 0u8, 0u8, 0u8, 0u8, 0u8, 0u8, 0u8, 0u8, 0u8, 0u8, ).into(); } }
mod q568 { use super::*; fn p() { let _g: GA<u8, U12> = (0u8, 0u8, 0u8, 0u8, 0u8, 0u8, 0u8, 0u8, 0u8, 0u8, 0u8, 0u8, ).into(); } }
mod q569 { use super::*; fn p() { let _g: GA<u8, U12> = (0u8, 0u8, 0u8, 0u8, 0u8, 0u8, 0u8, 0u8, 0u8, 0u8, 0u8, 0u8, 0u8, ).into(); } }
mod q570 { use super::*; fn p(a: GA<u8, U3>) -> String { format!("{:x}", a) } }
mod q571 { use super::*; fn p(a: GA<u8, U16>) { let _c: GA<u8, U15> = a.append(1u8); } }
mod q572 { use super::*; fn p(a: GA<u8, U16>, b: GA<u8, U16>) -> bool { a == b } }
mod q573 { use super::*; fn p(a: GA<u8, U16>, b: GA<u8, U17>) { let _ = a.zip(b, |x, y| x.wrapping_add(y)); } }
mod q574 { use super::*; fn p(a: GA<u8, U16>) { let (_h, _t): (GA<u8, U17>, GA<u8, U0>) = Split::<u8, U17>::split(a); } }
mod q575 { use super::*; fn p(x: &[[u8; 32]]) { let _g: &[GA<u8, U33>] = GA::from_chunks(x); } }
mod q576 { use super::*; fn p(a: GA<u8, U33>) { let _x: [u8; 33] = a.into_array(); } }
mod q577 { use super::*; fn p(a: GA<u8, U33>) { let (_c, _x): (GA<u8, U34>, u8) = a.pop_back(); } }
mod q578 { use super::*; fn p(a: GA<u8, U1023>) { let _c: GA<u8, U1022> = a.append(1u8); } }
mod q579 { use super::*; fn p(a: GA<u8, U1023>, b: GA<u8, U1023>) -> bool { a == b } }
mod q580 { use super::*; fn p(a: GA<u8, U1023>, b: GA<u8, U1024>) { let _ = a.zip(b, |x, y| x.wrapping_add(y)); } }
mod q581 { use super::*; fn p(a: GA<u8, U1023>) { let (_h, _t): (GA<u8, U1024>, GA<u8, U0>) = Split::<u8, U1024>::split(a); } }
mod q582 { use super::*; fn p(a: GA<u8, N1>) {} }
mod q583 { use super::*; fn p<N>(a: GA<u8, N>) {} }
mod q584 { use super::*; fn p() { fn need<X: Send>() {} need::<GenericArrayIter<u8, U0>>(); } }
mod q585 { use super::*; fn p() { fn need<X: Clone>() {} need::<&'static GA<u8, U0>>(); } }
mod q586 { use super::*; fn p() { fn need<X: Send>() {} need::<GA<u8, U1>>(); } }
mod q587 { use super::*; fn p() { fn need<X: Clone>() {} need::<GenericArrayIter<u8, U1>>(); } }
mod q588 { use super::*; fn p() { fn need<X: Send>() {} need::<Box<GA<u8, U1>>>(); } }
mod q589 { use super::*; fn p() { fn need<X: Clone>() {} need::<GA<u8, U2>>(); } }
mod q590 { use super::*; fn p() { fn need<X: Send>() {} need::<&'static GA<u8, U2>>(); } }
mod q591 { use super::*; fn p() { fn need<X: Clone>() {} need::<Box<GA<u8, U2>>>(); } }
mod q592 { use super::*; fn p() { fn need<X: Send>() {} need::<GenericArrayIter<u8, U3>>(); } }
mod q593 { use super::*; fn p() { fn need<X: Clone>() {} need::<&'static GA<u8, U3>>(); } }
mod q594 { use super::*; fn p() { fn need<X: Send>() {} need::<GA<u8, U6>>(); } }
mod q595 { use super::*; fn p() { fn need<X: Clone>() {} need::<GenericArrayIter<u8, U6>>(); } }
mod q596 { use super::*; fn p() { fn need<X: Send>() {} need::<Box<GA<u8, U6>>>(); } }
mod q597 { use super::*; fn p() { fn need<X: Clone>() {} need::<GA<String, U0>>(); } }
mod q598 { use super::*; fn p() { fn need<X: Send>() {} need::<&'static GA<String, U0>>(); } }
mod q599 { use super::*; fn p() { fn need<X: Clone>() {} need::<Box<GA<String, U0>>>(); } }
mod q600 { use super::*; fn p() { fn need<X: Send>() {} need::<GenericArrayIter<String, U1>>(); } }
mod q601 { use super::*; fn p() { fn need<X: Clone>() {} need::<&'static GA<String, U1>>(); } }
mod q602 { use super::*; fn p() { fn need<X: Send>() {} need::<GA<String, U2>>(); } }
mod q603 { use super::*; fn p() { fn need<X: Clone>() {} need::<GenericArrayIter<String, U2>>(); } }
mod q604 { use super::*; fn p() { fn need<X: Send>() {} need::<Box<GA<String, U2>>>(); } }
mod q605 { use super::*; fn p() { fn need<X: Clone>() {} need::<GA<String, U3>>(); } }
mod q606 { use super::*; fn p() { fn need<X: Send>() {} need::<&'static GA<String, U3>>(); } }
mod q607 { use super::*; fn p() { fn need<X: Clone>() {} need::<Box<GA<String, U3>>>(); } }
mod q608 { use super::*; fn p() { fn need<X: Send>() {} need::<GenericArrayIter<String, U6>>(); } }
mod q609 { use super::*; fn p() { fn need<X: Clone>() {} need::<&'static GA<String, U6>>(); } }
mod q610 { use super::*; fn p() { fn need<X: Send>() {} need::<GA<std::rc::Rc<u8>, U0>>(); } }
mod q611 { use super::*; fn p() { fn need<X: Clone>() {} need::<GenericArrayIter<std::rc::Rc<u8>, U0>>(); } }
mod q612 { use super::*; fn p() { fn need<X: Send>() {} need::<Box<GA<std::rc::Rc<u8>, U0>>>(); } }
mod q613 { use super::*; fn p() { fn need<X: Clone>() {} need::<GA<std::rc::Rc<u8>, U1>>(); } }
mod q614 { use super::*; fn p() { fn need<X: Send>() {} need::<&'static GA<std::rc::Rc<u8>, U1>>(); } }
mod q615 { use super::*; fn p() { fn need<X: Clone>() {} need::<Box<GA<std::rc::Rc<u8>, U1>>>(); } }
mod q616 { use super::*; fn p() { fn need<X: Send>() {} need::<GenericArrayIter<std::rc::Rc<u8>, U2>>(); } }
mod q617 { use super::*; fn p() { fn need<X: Clone>() {} need::<&'static GA<std::rc::Rc<u8>, U2>>(); } }
mod q618 { use super::*; fn p() { fn need<X: Send>() {} need::<GA<std::rc::Rc<u8>, U3>>(); } }
mod q619 { use super::*; fn p() { fn need<X: Clone>() {} need::<GenericArrayIter<std::rc::Rc<u8>, U3>>(); } }
mod q620 { use super::*; fn p() { fn need<X: Send>() {} need::<Box<GA<std::rc::Rc<u8>, U3>>>(); } }
mod q621 { use super::*; fn p() { fn need<X: Clone>() {} need::<GA<std::rc::Rc<u8>, U6>>(); } }
mod q622 { use super::*; fn p() { fn need<X: Send>() {} need::<&'static GA<std::rc::Rc<u8>, U6>>(); } }
mod q623 { use super::*; fn p() { fn need<X: Clone>() {} need::<Box<GA<std::rc::Rc<u8>, U6>>>(); } }
mod q624 { use super::*; fn p() { fn need<X: Send>() {} need::<GenericArrayIter<core::cell::Cell<u8>, U0>>(); } }
mod q625 { use super::*; fn p() { fn need<X: Clone>() {} need::<&'static GA<core::cell::Cell<u8>, U0>>(); } }
mod q626 { use super::*; fn p() { fn need<X: Send>() {} need::<GA<core::cell::Cell<u8>, U1>>(); } }
mod q627 { use super::*; fn p() { fn need<X: Clone>() {} need::<GenericArrayIter<core::cell::Cell<u8>, U1>>(); } }
mod q628 { use super::*; fn p() { fn need<X: Send>() {} need::<Box<GA<core::cell::Cell<u8>, U1>>>(); } }
mod q629 { use super::*; fn p() { fn need<X: Clone>() {} need::<GA<core::cell::Cell<u8>, U2>>(); } }
mod q630 { use super::*; fn p() { fn need<X: Send>() {} need::<&'static GA<core::cell::Cell<u8>, U2>>(); } }
mod q631 { use super::*; fn p() { fn need<X: Clone>() {} need::<Box<GA<core::cell::Cell<u8>, U2>>>(); } }
mod q632 { use super::*; fn p() { fn need<X: Send>() {} need::<GenericArrayIter<core::cell::Cell<u8>, U3>>(); } }
mod q633 { use super::*; fn p() { fn need<X: Clone>() {} need::<&'static GA<core::cell::Cell<u8>, U3>>(); } }
mod q634 { use super::*; fn p() { fn need<X: Send>() {} need::<GA<core::cell::Cell<u8>, U6>>(); } }
mod q635 { use super::*; fn p() { fn need<X: Clone>() {} need::<GenericArrayIter<core::cell::Cell<u8>, U6>>(); } }
mod q636 { use super::*; fn p() { fn need<X: Send>() {} need::<Box<GA<core::cell::Cell<u8>, U6>>>(); } }
mod q637 { use super::*; fn p() { fn need<X: Clone>() {} need::<GA<*const u8, U0>>(); } }
mod q638 { use super::*; fn p() { fn need<X: Send>() {} need::<&'static GA<*const u8, U0>>(); } }
mod q639 { use super::*; fn p() { fn need<X: Clone>() {} need::<Box<GA<*const u8, U0>>>(); } }
mod q640 { use super::*; fn p() { fn need<X: Send>() {} need::<GenericArrayIter<*const u8, U1>>(); } }
mod q641 { use super::*; fn p() { fn need<X: Clone>() {} need::<&'static GA<*const u8, U1>>(); } }
mod q642 { use super::*; fn p() { fn need<X: Send>() {} need::<GA<*const u8, U2>>(); } }
mod q643 { use super::*; fn p() { fn need<X: Clone>() {} need::<GenericArrayIter<*const u8, U2>>(); } }
mod q644 { use super::*; fn p() { fn need<X: Send>() {} need::<Box<GA<*const u8, U2>>>(); } }
mod q645 { use super::*; fn p() { fn need<X: Clone>() {} need::<GA<*const u8, U3>>(); } }
mod q646 { use super::*; fn p() { fn need<X: Send>() {} need::<&'static GA<*const u8, U3>>(); } }
mod q647 { use super::*; fn p() { fn need<X: Clone>() {} need::<Box<GA<*const u8, U3>>>(); } }
mod q648 { use super::*; fn p() { fn need<X: Send>() {} need::<GenericArrayIter<*const u8, U6>>(); } }
mod q649 { use super::*; fn p() { fn need<X: Clone>() {} need::<&'static GA<*const u8, U6>>(); } }
mod q650 { use super::*; fn p() { fn need<X: Send>() {} need::<GA<std::sync::MutexGuard<'static, u8>, U0>>(); } }
mod q651 { use super::*; fn p() { fn need<X: Clone>() {} need::<GenericArrayIter<std::sync::MutexGuard<'static, u8>, U0>>(); } }
mod q652 { use super::*; fn p() { fn need<X: Send>() {} need::<Box<GA<std::sync::MutexGuard<'static, u8>, U0>>>(); } }
mod q653 { use super::*; fn p() { fn need<X: Clone>() {} need::<GA<std::sync::MutexGuard<'static, u8>, U1>>(); } }
mod q654 { use super::*; fn p() { fn need<X: Send>() {} need::<&'static GA<std::sync::MutexGuard<'static, u8>, U1>>(); } }
mod q655 { use super::*; fn p() { fn need<X: Clone>() {} need::<Box<GA<std::sync::MutexGuard<'static, u8>, U1>>>(); } }
mod q656 { use super::*; fn p() { fn need<X: Send>() {} need::<GenericArrayIter<std::sync::MutexGuard<'static, u8>, U2>>(); } }
mod q657 { use super::*; fn p() { fn need<X: Clone>() {} need::<&'static GA<std::sync::MutexGuard<'static, u8>, U2>>(); } }
mod q658 { use super::*; fn p() { fn need<X: Send>() {} need::<GA<std::sync::MutexGuard<'static, u8>, U3>>(); } }
mod q659 { use super::*; fn p() { fn need<X: Clone>() {} need::<GenericArrayIter<std::sync::MutexGuard<'static, u8>, U3>>(); } }
mod q660 { use super::*; fn p() { fn need<X: Send>() {} need::<Box<GA<std::sync::MutexGuard<'static, u8>, U3>>>(); } }
mod q661 { use super::*; fn p() { fn need<X: Clone>() {} need::<GA<std::sync::MutexGuard<'static, u8>, U6>>(); } }
mod q662 { use super::*; fn p() { fn need<X: Send>() {} need::<&'static GA<std::sync::MutexGuard<'static, u8>, U6>>(); } }
mod q663 { use super::*; fn p() { fn need<X: Clone>() {} need::<Box<GA<std::sync::MutexGuard<'static, u8>, U6>>>(); } }
