#![allow(unused, dead_code, clippy::all)]
use generic_array::{GenericArray, GenericArrayIter, ArrayLength, ConstArrayLength, arr};
use generic_array::sequence::*;
use generic_array::functional::*;
use generic_array::typenum::*;
use core::borrow::{Borrow, BorrowMut};
type GA<T, N> = GenericArray<T, N>;
mod q0 { use super::*; fn p() { let mut s: GA<u8, U3> = GA::default(); let v = s.as_slice(); let _ = core::mem::size_of_val(&v); s = Default::default(); } }
mod q1 { use super::*; fn p() { let mut s: GA<u8, U3> = GA::default(); let v = s.as_slice(); s = Default::default(); let _ = core::mem::size_of_val(&v); } }
mod q2 { use super::*; fn p() { let v; { let mut s: GA<u8, U3> = GA::default(); v = s.as_slice(); } let _ = core::mem::size_of_val(&v); } }
mod q3 { use super::*; fn p() { let mut s: GA<u8, U3> = GA::default(); { let v = s.as_slice(); let _ = core::mem::size_of_val(&v); } s = Default::default(); } }
mod q4 { use super::*; fn p() { let mut s: GA<u8, U3> = GA::default(); { let v1 = s.as_mut_slice(); let _ = core::mem::size_of_val(&v1); } let v2 = s.as_mut_slice(); let _ = core::mem::size_of_val(&v2); } }
mod q5 { use super::*; fn p() { let mut s: GA<u8, U3> = GA::default(); let v1 = s.as_mut_slice(); let v2 = s.as_mut_slice(); let _ = core::mem::size_of_val(&v1); let _ = core::mem::size_of_val(&v2); } }
mod q6 { use super::*; fn p() { let mut s: GA<u8, U3> = GA::default(); let v1 = s.as_slice(); let v2 = s.as_mut_slice(); let _ = core::mem::size_of_val(&v1); let _ = core::mem::size_of_val(&v2); } }
mod q7 { use super::*; fn p() { let v; { let mut s: GA<u8, U3> = GA::default(); v = s.as_mut_slice(); } let _ = core::mem::size_of_val(&v); } }
mod q8 { use super::*; fn p() { let mut s: GA<u8, U3> = GA::default(); let v = &*s; let _ = core::mem::size_of_val(&v); s = Default::default(); } }
mod q9 { use super::*; fn p() { let mut s: GA<u8, U3> = GA::default(); let v = &*s; s = Default::default(); let _ = core::mem::size_of_val(&v); } }
mod q10 { use super::*; fn p() { let v; { let mut s: GA<u8, U3> = GA::default(); v = &*s; } let _ = core::mem::size_of_val(&v); } }
mod q11 { use super::*; fn p() { let mut s: GA<u8, U3> = GA::default(); { let v = &*s; let _ = core::mem::size_of_val(&v); } s = Default::default(); } }
mod q12 { use super::*; fn p() { let mut s: GA<u8, U3> = GA::default(); { let v1 = &mut *s; let _ = core::mem::size_of_val(&v1); } let v2 = &mut *s; let _ = core::mem::size_of_val(&v2); } }
mod q13 { use super::*; fn p() { let mut s: GA<u8, U3> = GA::default(); let v1 = &mut *s; let v2 = &mut *s; let _ = core::mem::size_of_val(&v1); let _ = core::mem::size_of_val(&v2); } }
mod q14 { use super::*; fn p() { let mut s: GA<u8, U3> = GA::default(); let v1 = &*s; let v2 = &mut *s; let _ = core::mem::size_of_val(&v1); let _ = core::mem::size_of_val(&v2); } }
mod q15 { use super::*; fn p() { let v; { let mut s: GA<u8, U3> = GA::default(); v = &mut *s; } let _ = core::mem::size_of_val(&v); } }
mod q16 { use super::*; fn p() { let mut s: GA<u8, U3> = GA::default(); let v = &s[1..]; let _ = core::mem::size_of_val(&v); s = Default::default(); } }
mod q17 { use super::*; fn p() { let mut s: GA<u8, U3> = GA::default(); let v = &s[1..]; s = Default::default(); let _ = core::mem::size_of_val(&v); } }
mod q18 { use super::*; fn p() { let v; { let mut s: GA<u8, U3> = GA::default(); v = &s[1..]; } let _ = core::mem::size_of_val(&v); } }
mod q19 { use super::*; fn p() { let mut s: GA<u8, U3> = GA::default(); { let v = &s[1..]; let _ = core::mem::size_of_val(&v); } s = Default::default(); } }
mod q20 { use super::*; fn p() { let mut s: GA<u8, U3> = GA::default(); { let v1 = &mut s[1..]; let _ = core::mem::size_of_val(&v1); } let v2 = &mut s[1..]; let _ = core::mem::size_of_val(&v2); } }
mod q21 { use super::*; fn p() { let mut s: GA<u8, U3> = GA::default(); let v1 = &mut s[1..]; let v2 = &mut s[1..]; let _ = core::mem::size_of_val(&v1); let _ = core::mem::size_of_val(&v2); } }
mod q22 { use super::*; fn p() { let mut s: GA<u8, U3> = GA::default(); let v1 = &s[1..]; let v2 = &mut s[1..]; let _ = core::mem::size_of_val(&v1); let _ = core::mem::size_of_val(&v2); } }
mod q23 { use super::*; fn p() { let v; { let mut s: GA<u8, U3> = GA::default(); v = &mut s[1..]; } let _ = core::mem::size_of_val(&v); } }
mod q24 { use super::*; fn p() { let mut s: GA<u8, U3> = GA::default(); let v = AsRef::<[u8]>::as_ref(&s); let _ = core::mem::size_of_val(&v); s = Default::default(); } }
mod q25 { use super::*; fn p() { let mut s: GA<u8, U3> = GA::default(); let v = AsRef::<[u8]>::as_ref(&s); s = Default::default(); let _ = core::mem::size_of_val(&v); } }
mod q26 { use super::*; fn p() { let v; { let mut s: GA<u8, U3> = GA::default(); v = AsRef::<[u8]>::as_ref(&s); } let _ = core::mem::size_of_val(&v); } }
mod q27 { use super::*; fn p() { let mut s: GA<u8, U3> = GA::default(); { let v = AsRef::<[u8]>::as_ref(&s); let _ = core::mem::size_of_val(&v); } s = Default::default(); } }
mod q28 { use super::*; fn p() { let mut s: GA<u8, U3> = GA::default(); { let v1 = AsMut::<[u8]>::as_mut(&mut s); let _ = core::mem::size_of_val(&v1); } let v2 = AsMut::<[u8]>::as_mut(&mut s); let _ = core::mem::size_of_val(&v2); } }
mod q29 { use super::*; fn p() { let mut s: GA<u8, U3> = GA::default(); let v1 = AsMut::<[u8]>::as_mut(&mut s); let v2 = AsMut::<[u8]>::as_mut(&mut s); let _ = core::mem::size_of_val(&v1); let _ = core::mem::size_of_val(&v2); } }
mod q30 { use super::*; fn p() { let mut s: GA<u8, U3> = GA::default(); let v1 = AsRef::<[u8]>::as_ref(&s); let v2 = AsMut::<[u8]>::as_mut(&mut s); let _ = core::mem::size_of_val(&v1); let _ = core::mem::size_of_val(&v2); } }
mod q31 { use super::*; fn p() { let v; { let mut s: GA<u8, U3> = GA::default(); v = AsMut::<[u8]>::as_mut(&mut s); } let _ = core::mem::size_of_val(&v); } }
mod q32 { use super::*; fn p() { let mut s: GA<u8, U3> = GA::default(); let v = AsRef::<[u8; 3]>::as_ref(&s); let _ = core::mem::size_of_val(&v); s = Default::default(); } }
mod q33 { use super::*; fn p() { let mut s: GA<u8, U3> = GA::default(); let v = AsRef::<[u8; 3]>::as_ref(&s); s = Default::default(); let _ = core::mem::size_of_val(&v); } }
mod q34 { use super::*; fn p() { let v; { let mut s: GA<u8, U3> = GA::default(); v = AsRef::<[u8; 3]>::as_ref(&s); } let _ = core::mem::size_of_val(&v); } }
mod q35 { use super::*; fn p() { let mut s: GA<u8, U3> = GA::default(); { let v = AsRef::<[u8; 3]>::as_ref(&s); let _ = core::mem::size_of_val(&v); } s = Default::default(); } }
mod q36 { use super::*; fn p() { let mut s: GA<u8, U3> = GA::default(); { let v1 = AsMut::<[u8; 3]>::as_mut(&mut s); let _ = core::mem::size_of_val(&v1); } let v2 = AsMut::<[u8; 3]>::as_mut(&mut s); let _ = core::mem::size_of_val(&v2); } }
mod q37 { use super::*; fn p() { let mut s: GA<u8, U3> = GA::default(); let v1 = AsMut::<[u8; 3]>::as_mut(&mut s); let v2 = AsMut::<[u8; 3]>::as_mut(&mut s); let _ = core::mem::size_of_val(&v1); let _ = core::mem::size_of_val(&v2); } }
mod q38 { use super::*; fn p() { let mut s: GA<u8, U3> = GA::default(); let v1 = AsRef::<[u8; 3]>::as_ref(&s); let v2 = AsMut::<[u8; 3]>::as_mut(&mut s); let _ = core::mem::size_of_val(&v1); let _ = core::mem::size_of_val(&v2); } }
mod q39 { use super::*; fn p() { let v; { let mut s: GA<u8, U3> = GA::default(); v = AsMut::<[u8; 3]>::as_mut(&mut s); } let _ = core::mem::size_of_val(&v); } }
mod q40 { use super::*; fn p() { let mut s: GA<u8, U3> = GA::default(); let v = Borrow::<[u8]>::borrow(&s); let _ = core::mem::size_of_val(&v); s = Default::default(); } }
mod q41 { use super::*; fn p() { let mut s: GA<u8, U3> = GA::default(); let v = Borrow::<[u8]>::borrow(&s); s = Default::default(); let _ = core::mem::size_of_val(&v); } }
mod q42 { use super::*; fn p() { let v; { let mut s: GA<u8, U3> = GA::default(); v = Borrow::<[u8]>::borrow(&s); } let _ = core::mem::size_of_val(&v); } }
mod q43 { use super::*; fn p() { let mut s: GA<u8, U3> = GA::default(); { let v = Borrow::<[u8]>::borrow(&s); let _ = core::mem::size_of_val(&v); } s = Default::default(); } }
mod q44 { use super::*; fn p() { let mut s: GA<u8, U3> = GA::default(); { let v1 = BorrowMut::<[u8]>::borrow_mut(&mut s); let _ = core::mem::size_of_val(&v1); } let v2 = BorrowMut::<[u8]>::borrow_mut(&mut s); let _ = core::mem::size_of_val(&v2); } }
mod q45 { use super::*; fn p() { let mut s: GA<u8, U3> = GA::default(); let v1 = BorrowMut::<[u8]>::borrow_mut(&mut s); let v2 = BorrowMut::<[u8]>::borrow_mut(&mut s); let _ = core::mem::size_of_val(&v1); let _ = core::mem::size_of_val(&v2); } }
mod q46 { use super::*; fn p() { let mut s: GA<u8, U3> = GA::default(); let v1 = Borrow::<[u8]>::borrow(&s); let v2 = BorrowMut::<[u8]>::borrow_mut(&mut s); let _ = core::mem::size_of_val(&v1); let _ = core::mem::size_of_val(&v2); } }
mod q47 { use super::*; fn p() { let v; { let mut s: GA<u8, U3> = GA::default(); v = BorrowMut::<[u8]>::borrow_mut(&mut s); } let _ = core::mem::size_of_val(&v); } }
mod q48 { use super::*; fn p() { let mut s: GA<u8, U3> = GA::default(); let v = (&s).into_iter(); let _ = core::mem::size_of_val(&v); s = Default::default(); } }
mod q49 { use super::*; fn p() { let mut s: GA<u8, U3> = GA::default(); let v = (&s).into_iter(); s = Default::default(); let _ = core::mem::size_of_val(&v); } }
mod q50 { use super::*; fn p() { let v; { let mut s: GA<u8, U3> = GA::default(); v = (&s).into_iter(); } let _ = core::mem::size_of_val(&v); } }
mod q51 { use super::*; fn p() { let mut s: GA<u8, U3> = GA::default(); { let v = (&s).into_iter(); let _ = core::mem::size_of_val(&v); } s = Default::default(); } }
mod q52 { use super::*; fn p() { let mut s: GA<u8, U3> = GA::default(); { let v1 = (&mut s).into_iter(); let _ = core::mem::size_of_val(&v1); } let v2 = (&mut s).into_iter(); let _ = core::mem::size_of_val(&v2); } }
mod q53 { use super::*; fn p() { let mut s: GA<u8, U3> = GA::default(); let v1 = (&mut s).into_iter(); let v2 = (&mut s).into_iter(); let _ = core::mem::size_of_val(&v1); let _ = core::mem::size_of_val(&v2); } }
mod q54 { use super::*; fn p() { let mut s: GA<u8, U3> = GA::default(); let v1 = (&s).into_iter(); let v2 = (&mut s).into_iter(); let _ = core::mem::size_of_val(&v1); let _ = core::mem::size_of_val(&v2); } }
mod q55 { use super::*; fn p() { let v; { let mut s: GA<u8, U3> = GA::default(); v = (&mut s).into_iter(); } let _ = core::mem::size_of_val(&v); } }
mod q56 { use super::*; fn p() { let mut s: GA<u8, U3> = GA::default(); let v = s.iter(); let _ = core::mem::size_of_val(&v); s = Default::default(); } }
mod q57 { use super::*; fn p() { let mut s: GA<u8, U3> = GA::default(); let v = s.iter(); s = Default::default(); let _ = core::mem::size_of_val(&v); } }
mod q58 { use super::*; fn p() { let v; { let mut s: GA<u8, U3> = GA::default(); v = s.iter(); } let _ = core::mem::size_of_val(&v); } }
mod q59 { use super::*; fn p() { let mut s: GA<u8, U3> = GA::default(); { let v = s.iter(); let _ = core::mem::size_of_val(&v); } s = Default::default(); } }
mod q60 { use super::*; fn p() { let mut s: GA<u8, U3> = GA::default(); { let v1 = s.iter_mut(); let _ = core::mem::size_of_val(&v1); } let v2 = s.iter_mut(); let _ = core::mem::size_of_val(&v2); } }
mod q61 { use super::*; fn p() { let mut s: GA<u8, U3> = GA::default(); let v1 = s.iter_mut(); let v2 = s.iter_mut(); let _ = core::mem::size_of_val(&v1); let _ = core::mem::size_of_val(&v2); } }
mod q62 { use super::*; fn p() { let mut s: GA<u8, U3> = GA::default(); let v1 = s.iter(); let v2 = s.iter_mut(); let _ = core::mem::size_of_val(&v1); let _ = core::mem::size_of_val(&v2); } }
mod q63 { use super::*; fn p() { let v; { let mut s: GA<u8, U3> = GA::default(); v = s.iter_mut(); } let _ = core::mem::size_of_val(&v); } }
mod q64 { use super::*; fn p() { let mut s: [u8; 6] = [0; 6]; let v = GA::<u8, U6>::from_slice(&s); let _ = core::mem::size_of_val(&v); s = Default::default(); } }
mod q65 { use super::*; fn p() { let mut s: [u8; 6] = [0; 6]; let v = GA::<u8, U6>::from_slice(&s); s = Default::default(); let _ = core::mem::size_of_val(&v); } }
mod q66 { use super::*; fn p() { let v; { let mut s: [u8; 6] = [0; 6]; v = GA::<u8, U6>::from_slice(&s); } let _ = core::mem::size_of_val(&v); } }
mod q67 { use super::*; fn p() { let mut s: [u8; 6] = [0; 6]; { let v = GA::<u8, U6>::from_slice(&s); let _ = core::mem::size_of_val(&v); } s = Default::default(); } }
mod q68 { use super::*; fn p() { let mut s: [u8; 6] = [0; 6]; { let v1 = GA::<u8, U6>::from_mut_slice(&mut s); let _ = core::mem::size_of_val(&v1); } let v2 = GA::<u8, U6>::from_mut_slice(&mut s); let _ = core::mem::size_of_val(&v2); } }
mod q69 { use super::*; fn p() { let mut s: [u8; 6] = [0; 6]; let v1 = GA::<u8, U6>::from_mut_slice(&mut s); let v2 = GA::<u8, U6>::from_mut_slice(&mut s); let _ = core::mem::size_of_val(&v1); let _ = core::mem::size_of_val(&v2); } }
mod q70 { use super::*; fn p() { let mut s: [u8; 6] = [0; 6]; let v1 = GA::<u8, U6>::from_slice(&s); let v2 = GA::<u8, U6>::from_mut_slice(&mut s); let _ = core::mem::size_of_val(&v1); let _ = core::mem::size_of_val(&v2); } }
mod q71 { use super::*; fn p() { let v; { let mut s: [u8; 6] = [0; 6]; v = GA::<u8, U6>::from_mut_slice(&mut s); } let _ = core::mem::size_of_val(&v); } }
mod q72 { use super::*; fn p() { let mut s: [u8; 6] = [0; 6]; let v = GA::<u8, U6>::try_from_slice(&s).unwrap(); let _ = core::mem::size_of_val(&v); s = Default::default(); } }
mod q73 { use super::*; fn p() { let mut s: [u8; 6] = [0; 6]; let v = GA::<u8, U6>::try_from_slice(&s).unwrap(); s = Default::default(); let _ = core::mem::size_of_val(&v); } }
mod q74 { use super::*; fn p() { let v; { let mut s: [u8; 6] = [0; 6]; v = GA::<u8, U6>::try_from_slice(&s).unwrap(); } let _ = core::mem::size_of_val(&v); } }
mod q75 { use super::*; fn p() { let mut s: [u8; 6] = [0; 6]; { let v = GA::<u8, U6>::try_from_slice(&s).unwrap(); let _ = core::mem::size_of_val(&v); } s = Default::default(); } }
mod q76 { use super::*; fn p() { let mut s: [u8; 6] = [0; 6]; { let v1 = GA::<u8, U6>::try_from_mut_slice(&mut s).unwrap(); let _ = core::mem::size_of_val(&v1); } let v2 = GA::<u8, U6>::try_from_mut_slice(&mut s).unwrap(); let _ = core::mem::size_of_val(&v2); } }
mod q77 { use super::*; fn p() { let mut s: [u8; 6] = [0; 6]; let v1 = GA::<u8, U6>::try_from_mut_slice(&mut s).unwrap(); let v2 = GA::<u8, U6>::try_from_mut_slice(&mut s).unwrap(); let _ = core::mem::size_of_val(&v1); let _ = core::mem::size_of_val(&v2); } }
mod q78 { use super::*; fn p() { let mut s: [u8; 6] = [0; 6]; let v1 = GA::<u8, U6>::try_from_slice(&s).unwrap(); let v2 = GA::<u8, U6>::try_from_mut_slice(&mut s).unwrap(); let _ = core::mem::size_of_val(&v1); let _ = core::mem::size_of_val(&v2); } }
mod q79 { use super::*; fn p() { let v; { let mut s: [u8; 6] = [0; 6]; v = GA::<u8, U6>::try_from_mut_slice(&mut s).unwrap(); } let _ = core::mem::size_of_val(&v); } }
mod q80 { use super::*; fn p() { let mut s: [u8; 6] = [0; 6]; let v = <&GA<u8, U6>>::try_from(&s[..]).unwrap(); let _ = core::mem::size_of_val(&v); s = Default::default(); } }
mod q81 { use super::*; fn p() { let mut s: [u8; 6] = [0; 6]; let v = <&GA<u8, U6>>::try_from(&s[..]).unwrap(); s = Default::default(); let _ = core::mem::size_of_val(&v); } }
mod q82 { use super::*; fn p() { let v; { let mut s: [u8; 6] = [0; 6]; v = <&GA<u8, U6>>::try_from(&s[..]).unwrap(); } let _ = core::mem::size_of_val(&v); } }
mod q83 { use super::*; fn p() { let mut s: [u8; 6] = [0; 6]; { let v = <&GA<u8, U6>>::try_from(&s[..]).unwrap(); let _ = core::mem::size_of_val(&v); } s = Default::default(); } }
mod q84 { use super::*; fn p() { let mut s: [u8; 6] = [0; 6]; { let v1 = <&mut GA<u8, U6>>::try_from(&mut s[..]).unwrap(); let _ = core::mem::size_of_val(&v1); } let v2 = <&mut GA<u8, U6>>::try_from(&mut s[..]).unwrap(); let _ = core::mem::size_of_val(&v2); } }
mod q85 { use super::*; fn p() { let mut s: [u8; 6] = [0; 6]; let v1 = <&mut GA<u8, U6>>::try_from(&mut s[..]).unwrap(); let v2 = <&mut GA<u8, U6>>::try_from(&mut s[..]).unwrap(); let _ = core::mem::size_of_val(&v1); let _ = core::mem::size_of_val(&v2); } }
mod q86 { use super::*; fn p() { let mut s: [u8; 6] = [0; 6]; let v1 = <&GA<u8, U6>>::try_from(&s[..]).unwrap(); let v2 = <&mut GA<u8, U6>>::try_from(&mut s[..]).unwrap(); let _ = core::mem::size_of_val(&v1); let _ = core::mem::size_of_val(&v2); } }
mod q87 { use super::*; fn p() { let v; { let mut s: [u8; 6] = [0; 6]; v = <&mut GA<u8, U6>>::try_from(&mut s[..]).unwrap(); } let _ = core::mem::size_of_val(&v); } }
mod q88 { use super::*; fn p() { let mut s: [u8; 3] = [0; 3]; let v = <&GA<u8, U3>>::from(&s); let _ = core::mem::size_of_val(&v); s = Default::default(); } }
mod q89 { use super::*; fn p() { let mut s: [u8; 3] = [0; 3]; let v = <&GA<u8, U3>>::from(&s); s = Default::default(); let _ = core::mem::size_of_val(&v); } }
mod q90 { use super::*; fn p() { let v; { let mut s: [u8; 3] = [0; 3]; v = <&GA<u8, U3>>::from(&s); } let _ = core::mem::size_of_val(&v); } }
mod q91 { use super::*; fn p() { let mut s: [u8; 3] = [0; 3]; { let v = <&GA<u8, U3>>::from(&s); let _ = core::mem::size_of_val(&v); } s = Default::default(); } }
mod q92 { use super::*; fn p() { let mut s: [u8; 3] = [0; 3]; { let v1 = <&mut GA<u8, U3>>::from(&mut s); let _ = core::mem::size_of_val(&v1); } let v2 = <&mut GA<u8, U3>>::from(&mut s); let _ = core::mem::size_of_val(&v2); } }
mod q93 { use super::*; fn p() { let mut s: [u8; 3] = [0; 3]; let v1 = <&mut GA<u8, U3>>::from(&mut s); let v2 = <&mut GA<u8, U3>>::from(&mut s); let _ = core::mem::size_of_val(&v1); let _ = core::mem::size_of_val(&v2); } }
mod q94 { use super::*; fn p() { let mut s: [u8; 3] = [0; 3]; let v1 = <&GA<u8, U3>>::from(&s); let v2 = <&mut GA<u8, U3>>::from(&mut s); let _ = core::mem::size_of_val(&v1); let _ = core::mem::size_of_val(&v2); } }
mod q95 { use super::*; fn p() { let v; { let mut s: [u8; 3] = [0; 3]; v = <&mut GA<u8, U3>>::from(&mut s); } let _ = core::mem::size_of_val(&v); } }
mod q96 { use super::*; fn p() { let mut s: [u8; 6] = [0; 6]; let v = GA::<u8, U2>::chunks_from_slice(&s).0; let _ = core::mem::size_of_val(&v); s = Default::default(); } }
mod q97 { use super::*; fn p() { let mut s: [u8; 6] = [0; 6]; let v = GA::<u8, U2>::chunks_from_slice(&s).0; s = Default::default(); let _ = core::mem::size_of_val(&v); } }
mod q98 { use super::*; fn p() { let v; { let mut s: [u8; 6] = [0; 6]; v = GA::<u8, U2>::chunks_from_slice(&s).0; } let _ = core::mem::size_of_val(&v); } }
mod q99 { use super::*; fn p() { let mut s: [u8; 6] = [0; 6]; { let v = GA::<u8, U2>::chunks_from_slice(&s).0; let _ = core::mem::size_of_val(&v); } s = Default::default(); } }
mod q100 { use super::*; fn p() { let mut s: [u8; 6] = [0; 6]; { let v1 = GA::<u8, U2>::chunks_from_slice_mut(&mut s).0; let _ = core::mem::size_of_val(&v1); } let v2 = GA::<u8, U2>::chunks_from_slice_mut(&mut s).0; let _ = core::mem::size_of_val(&v2); } }
mod q101 { use super::*; fn p() { let mut s: [u8; 6] = [0; 6]; let v1 = GA::<u8, U2>::chunks_from_slice_mut(&mut s).0; let v2 = GA::<u8, U2>::chunks_from_slice_mut(&mut s).0; let _ = core::mem::size_of_val(&v1); let _ = core::mem::size_of_val(&v2); } }
mod q102 { use super::*; fn p() { let mut s: [u8; 6] = [0; 6]; let v1 = GA::<u8, U2>::chunks_from_slice(&s).0; let v2 = GA::<u8, U2>::chunks_from_slice_mut(&mut s).0; let _ = core::mem::size_of_val(&v1); let _ = core::mem::size_of_val(&v2); } }
mod q103 { use super::*; fn p() { let v; { let mut s: [u8; 6] = [0; 6]; v = GA::<u8, U2>::chunks_from_slice_mut(&mut s).0; } let _ = core::mem::size_of_val(&v); } }
mod q104 { use super::*; fn p() { let mut s: [u8; 7] = [0; 7]; let v = GA::<u8, U2>::chunks_from_slice(&s).1; let _ = core::mem::size_of_val(&v); s = Default::default(); } }
mod q105 { use super::*; fn p() { let mut s: [u8; 7] = [0; 7]; let v = GA::<u8, U2>::chunks_from_slice(&s).1; s = Default::default(); let _ = core::mem::size_of_val(&v); } }
mod q106 { use super::*; fn p() { let v; { let mut s: [u8; 7] = [0; 7]; v = GA::<u8, U2>::chunks_from_slice(&s).1; } let _ = core::mem::size_of_val(&v); } }
mod q107 { use super::*; fn p() { let mut s: [u8; 7] = [0; 7]; { let v = GA::<u8, U2>::chunks_from_slice(&s).1; let _ = core::mem::size_of_val(&v); } s = Default::default(); } }
mod q108 { use super::*; fn p() { let mut s: [u8; 7] = [0; 7]; { let v1 = GA::<u8, U2>::chunks_from_slice_mut(&mut s).1; let _ = core::mem::size_of_val(&v1); } let v2 = GA::<u8, U2>::chunks_from_slice_mut(&mut s).1; let _ = core::mem::size_of_val(&v2); } }
mod q109 { use super::*; fn p() { let mut s: [u8; 7] = [0; 7]; let v1 = GA::<u8, U2>::chunks_from_slice_mut(&mut s).1; let v2 = GA::<u8, U2>::chunks_from_slice_mut(&mut s).1; let _ = core::mem::size_of_val(&v1); let _ = core::mem::size_of_val(&v2); } }
mod q110 { use super::*; fn p() { let mut s: [u8; 7] = [0; 7]; let v1 = GA::<u8, U2>::chunks_from_slice(&s).1; let v2 = GA::<u8, U2>::chunks_from_slice_mut(&mut s).1; let _ = core::mem::size_of_val(&v1); let _ = core::mem::size_of_val(&v2); } }
mod q111 { use super::*; fn p() { let v; { let mut s: [u8; 7] = [0; 7]; v = GA::<u8, U2>::chunks_from_slice_mut(&mut s).1; } let _ = core::mem::size_of_val(&v); } }
mod q112 { use super::*; fn p() { let mut s: [GA<u8, U2>; 3] = Default::default(); let v = GA::<u8, U2>::slice_from_chunks(&s); let _ = core::mem::size_of_val(&v); s = Default::default(); } }
mod q113 { use super::*; fn p() { let mut s: [GA<u8, U2>; 3] = Default::default(); let v = GA::<u8, U2>::slice_from_chunks(&s); s = Default::default(); let _ = core::mem::size_of_val(&v); } }
mod q114 { use super::*; fn p() { let v; { let mut s: [GA<u8, U2>; 3] = Default::default(); v = GA::<u8, U2>::slice_from_chunks(&s); } let _ = core::mem::size_of_val(&v); } }
mod q115 { use super::*; fn p() { let mut s: [GA<u8, U2>; 3] = Default::default(); { let v = GA::<u8, U2>::slice_from_chunks(&s); let _ = core::mem::size_of_val(&v); } s = Default::default(); } }
mod q116 { use super::*; fn p() { let mut s: [GA<u8, U2>; 3] = Default::default(); { let v1 = GA::<u8, U2>::slice_from_chunks_mut(&mut s); let _ = core::mem::size_of_val(&v1); } let v2 = GA::<u8, U2>::slice_from_chunks_mut(&mut s); let _ = core::mem::size_of_val(&v2); } }
mod q117 { use super::*; fn p() { let mut s: [GA<u8, U2>; 3] = Default::default(); let v1 = GA::<u8, U2>::slice_from_chunks_mut(&mut s); let v2 = GA::<u8, U2>::slice_from_chunks_mut(&mut s); let _ = core::mem::size_of_val(&v1); let _ = core::mem::size_of_val(&v2); } }
mod q118 { use super::*; fn p() { let mut s: [GA<u8, U2>; 3] = Default::default(); let v1 = GA::<u8, U2>::slice_from_chunks(&s); let v2 = GA::<u8, U2>::slice_from_chunks_mut(&mut s); let _ = core::mem::size_of_val(&v1); let _ = core::mem::size_of_val(&v2); } }
mod q119 { use super::*; fn p() { let v; { let mut s: [GA<u8, U2>; 3] = Default::default(); v = GA::<u8, U2>::slice_from_chunks_mut(&mut s); } let _ = core::mem::size_of_val(&v); } }
mod q120 { use super::*; fn p() { let mut s: [[u8; 2]; 3] = [[0; 2]; 3]; let v = GA::<u8, U2>::from_chunks(&s); let _ = core::mem::size_of_val(&v); s = Default::default(); } }
mod q121 { use super::*; fn p() { let mut s: [[u8; 2]; 3] = [[0; 2]; 3]; let v = GA::<u8, U2>::from_chunks(&s); s = Default::default(); let _ = core::mem::size_of_val(&v); } }
mod q122 { use super::*; fn p() { let v; { let mut s: [[u8; 2]; 3] = [[0; 2]; 3]; v = GA::<u8, U2>::from_chunks(&s); } let _ = core::mem::size_of_val(&v); } }
mod q123 { use super::*; fn p() { let mut s: [[u8; 2]; 3] = [[0; 2]; 3]; { let v = GA::<u8, U2>::from_chunks(&s); let _ = core::mem::size_of_val(&v); } s = Default::default(); } }
mod q124 { use super::*; fn p() { let mut s: [[u8; 2]; 3] = [[0; 2]; 3]; { let v1 = GA::<u8, U2>::from_chunks_mut(&mut s); let _ = core::mem::size_of_val(&v1); } let v2 = GA::<u8, U2>::from_chunks_mut(&mut s); let _ = core::mem::size_of_val(&v2); } }
mod q125 { use super::*; fn p() { let mut s: [[u8; 2]; 3] = [[0; 2]; 3]; let v1 = GA::<u8, U2>::from_chunks_mut(&mut s); let v2 = GA::<u8, U2>::from_chunks_mut(&mut s); let _ = core::mem::size_of_val(&v1); let _ = core::mem::size_of_val(&v2); } }
mod q126 { use super::*; fn p() { let mut s: [[u8; 2]; 3] = [[0; 2]; 3]; let v1 = GA::<u8, U2>::from_chunks(&s); let v2 = GA::<u8, U2>::from_chunks_mut(&mut s); let _ = core::mem::size_of_val(&v1); let _ = core::mem::size_of_val(&v2); } }
mod q127 { use super::*; fn p() { let v; { let mut s: [[u8; 2]; 3] = [[0; 2]; 3]; v = GA::<u8, U2>::from_chunks_mut(&mut s); } let _ = core::mem::size_of_val(&v); } }
mod q128 { use super::*; fn p() { let mut s: [GA<u8, U2>; 3] = Default::default(); let v = GA::<u8, U2>::into_chunks::<2>(&s); let _ = core::mem::size_of_val(&v); s = Default::default(); } }
mod q129 { use super::*; fn p() { let mut s: [GA<u8, U2>; 3] = Default::default(); let v = GA::<u8, U2>::into_chunks::<2>(&s); s = Default::default(); let _ = core::mem::size_of_val(&v); } }
mod q130 { use super::*; fn p() { let v; { let mut s: [GA<u8, U2>; 3] = Default::default(); v = GA::<u8, U2>::into_chunks::<2>(&s); } let _ = core::mem::size_of_val(&v); } }
mod q131 { use super::*; fn p() { let mut s: [GA<u8, U2>; 3] = Default::default(); { let v = GA::<u8, U2>::into_chunks::<2>(&s); let _ = core::mem::size_of_val(&v); } s = Default::default(); } }
mod q132 { use super::*; fn p() { let mut s: [GA<u8, U2>; 3] = Default::default(); { let v1 = GA::<u8, U2>::into_chunks_mut::<2>(&mut s); let _ = core::mem::size_of_val(&v1); } let v2 = GA::<u8, U2>::into_chunks_mut::<2>(&mut s); let _ = core::mem::size_of_val(&v2); } }
mod q133 { use super::*; fn p() { let mut s: [GA<u8, U2>; 3] = Default::default(); let v1 = GA::<u8, U2>::into_chunks_mut::<2>(&mut s); let v2 = GA::<u8, U2>::into_chunks_mut::<2>(&mut s); let _ = core::mem::size_of_val(&v1); let _ = core::mem::size_of_val(&v2); } }
mod q134 { use super::*; fn p() { let mut s: [GA<u8, U2>; 3] = Default::default(); let v1 = GA::<u8, U2>::into_chunks::<2>(&s); let v2 = GA::<u8, U2>::into_chunks_mut::<2>(&mut s); let _ = core::mem::size_of_val(&v1); let _ = core::mem::size_of_val(&v2); } }
mod q135 { use super::*; fn p() { let v; { let mut s: [GA<u8, U2>; 3] = Default::default(); v = GA::<u8, U2>::into_chunks_mut::<2>(&mut s); } let _ = core::mem::size_of_val(&v); } }
mod q136 { use super::*; fn p() { let mut s: GA<u8, U3> = GA::default(); let v = Split::<u8, U1>::split(&s).0; let _ = core::mem::size_of_val(&v); s = Default::default(); } }
mod q137 { use super::*; fn p() { let mut s: GA<u8, U3> = GA::default(); let v = Split::<u8, U1>::split(&s).0; s = Default::default(); let _ = core::mem::size_of_val(&v); } }
mod q138 { use super::*; fn p() { let v; { let mut s: GA<u8, U3> = GA::default(); v = Split::<u8, U1>::split(&s).0; } let _ = core::mem::size_of_val(&v); } }
mod q139 { use super::*; fn p() { let mut s: GA<u8, U3> = GA::default(); { let v = Split::<u8, U1>::split(&s).0; let _ = core::mem::size_of_val(&v); } s = Default::default(); } }
mod q140 { use super::*; fn p() { let mut s: GA<u8, U3> = GA::default(); { let v1 = Split::<u8, U1>::split(&mut s).0; let _ = core::mem::size_of_val(&v1); } let v2 = Split::<u8, U1>::split(&mut s).0; let _ = core::mem::size_of_val(&v2); } }
mod q141 { use super::*; fn p() { let mut s: GA<u8, U3> = GA::default(); let v1 = Split::<u8, U1>::split(&mut s).0; let v2 = Split::<u8, U1>::split(&mut s).0; let _ = core::mem::size_of_val(&v1); let _ = core::mem::size_of_val(&v2); } }
mod q142 { use super::*; fn p() { let mut s: GA<u8, U3> = GA::default(); let v1 = Split::<u8, U1>::split(&s).0; let v2 = Split::<u8, U1>::split(&mut s).0; let _ = core::mem::size_of_val(&v1); let _ = core::mem::size_of_val(&v2); } }
mod q143 { use super::*; fn p() { let v; { let mut s: GA<u8, U3> = GA::default(); v = Split::<u8, U1>::split(&mut s).0; } let _ = core::mem::size_of_val(&v); } }
mod q144 { use super::*; fn p() { let mut s: GA<u8, U3> = GA::default(); let v = Split::<u8, U1>::split(&s).1; let _ = core::mem::size_of_val(&v); s = Default::default(); } }
mod q145 { use super::*; fn p() { let mut s: GA<u8, U3> = GA::default(); let v = Split::<u8, U1>::split(&s).1; s = Default::default(); let _ = core::mem::size_of_val(&v); } }
mod q146 { use super::*; fn p() { let v; { let mut s: GA<u8, U3> = GA::default(); v = Split::<u8, U1>::split(&s).1; } let _ = core::mem::size_of_val(&v); } }
mod q147 { use super::*; fn p() { let mut s: GA<u8, U3> = GA::default(); { let v = Split::<u8, U1>::split(&s).1; let _ = core::mem::size_of_val(&v); } s = Default::default(); } }
mod q148 { use super::*; fn p() { let mut s: GA<u8, U3> = GA::default(); { let v1 = Split::<u8, U1>::split(&mut s).1; let _ = core::mem::size_of_val(&v1); } let v2 = Split::<u8, U1>::split(&mut s).1; let _ = core::mem::size_of_val(&v2); } }
mod q149 { use super::*; fn p() { let mut s: GA<u8, U3> = GA::default(); let v1 = Split::<u8, U1>::split(&mut s).1; let v2 = Split::<u8, U1>::split(&mut s).1; let _ = core::mem::size_of_val(&v1); let _ = core::mem::size_of_val(&v2); } }
mod q150 { use super::*; fn p() { let mut s: GA<u8, U3> = GA::default(); let v1 = Split::<u8, U1>::split(&s).1; let v2 = Split::<u8, U1>::split(&mut s).1; let _ = core::mem::size_of_val(&v1); let _ = core::mem::size_of_val(&v2); } }
mod q151 { use super::*; fn p() { let v; { let mut s: GA<u8, U3> = GA::default(); v = Split::<u8, U1>::split(&mut s).1; } let _ = core::mem::size_of_val(&v); } }
mod q152 { use super::*; fn p() { let mut s: GA<GA<u8, U2>, U3> = GA::default(); let v = Flatten::flatten(&s); let _ = core::mem::size_of_val(&v); s = Default::default(); } }
mod q153 { use super::*; fn p() { let mut s: GA<GA<u8, U2>, U3> = GA::default(); let v = Flatten::flatten(&s); s = Default::default(); let _ = core::mem::size_of_val(&v); } }
mod q154 { use super::*; fn p() { let v; { let mut s: GA<GA<u8, U2>, U3> = GA::default(); v = Flatten::flatten(&s); } let _ = core::mem::size_of_val(&v); } }
mod q155 { use super::*; fn p() { let mut s: GA<GA<u8, U2>, U3> = GA::default(); { let v = Flatten::flatten(&s); let _ = core::mem::size_of_val(&v); } s = Default::default(); } }
mod q156 { use super::*; fn p() { let mut s: GA<GA<u8, U2>, U3> = GA::default(); { let v1 = Flatten::flatten(&mut s); let _ = core::mem::size_of_val(&v1); } let v2 = Flatten::flatten(&mut s); let _ = core::mem::size_of_val(&v2); } }
mod q157 { use super::*; fn p() { let mut s: GA<GA<u8, U2>, U3> = GA::default(); let v1 = Flatten::flatten(&mut s); let v2 = Flatten::flatten(&mut s); let _ = core::mem::size_of_val(&v1); let _ = core::mem::size_of_val(&v2); } }
mod q158 { use super::*; fn p() { let mut s: GA<GA<u8, U2>, U3> = GA::default(); let v1 = Flatten::flatten(&s); let v2 = Flatten::flatten(&mut s); let _ = core::mem::size_of_val(&v1); let _ = core::mem::size_of_val(&v2); } }
mod q159 { use super::*; fn p() { let v; { let mut s: GA<GA<u8, U2>, U3> = GA::default(); v = Flatten::flatten(&mut s); } let _ = core::mem::size_of_val(&v); } }
mod q160 { use super::*; fn p() { let mut s: GA<u8, U6> = GA::default(); let v = Unflatten::<u8, U6, U2>::unflatten(&s); let _ = core::mem::size_of_val(&v); s = Default::default(); } }
mod q161 { use super::*; fn p() { let mut s: GA<u8, U6> = GA::default(); let v = Unflatten::<u8, U6, U2>::unflatten(&s); s = Default::default(); let _ = core::mem::size_of_val(&v); } }
mod q162 { use super::*; fn p() { let v; { let mut s: GA<u8, U6> = GA::default(); v = Unflatten::<u8, U6, U2>::unflatten(&s); } let _ = core::mem::size_of_val(&v); } }
mod q163 { use super::*; fn p() { let mut s: GA<u8, U6> = GA::default(); { let v = Unflatten::<u8, U6, U2>::unflatten(&s); let _ = core::mem::size_of_val(&v); } s = Default::default(); } }
mod q164 { use super::*; fn p() { let mut s: GA<u8, U6> = GA::default(); { let v1 = Unflatten::<u8, U6, U2>::unflatten(&mut s); let _ = core::mem::size_of_val(&v1); } let v2 = Unflatten::<u8, U6, U2>::unflatten(&mut s); let _ = core::mem::size_of_val(&v2); } }
mod q165 { use super::*; fn p() { let mut s: GA<u8, U6> = GA::default(); let v1 = Unflatten::<u8, U6, U2>::unflatten(&mut s); let v2 = Unflatten::<u8, U6, U2>::unflatten(&mut s); let _ = core::mem::size_of_val(&v1); let _ = core::mem::size_of_val(&v2); } }
mod q166 { use super::*; fn p() { let mut s: GA<u8, U6> = GA::default(); let v1 = Unflatten::<u8, U6, U2>::unflatten(&s); let v2 = Unflatten::<u8, U6, U2>::unflatten(&mut s); let _ = core::mem::size_of_val(&v1); let _ = core::mem::size_of_val(&v2); } }
mod q167 { use super::*; fn p() { let v; { let mut s: GA<u8, U6> = GA::default(); v = Unflatten::<u8, U6, U2>::unflatten(&mut s); } let _ = core::mem::size_of_val(&v); } }
mod q168 { use super::*; fn p() { let mut s = GA::<u8, U3>::default().into_iter(); let v = s.as_slice(); let _ = core::mem::size_of_val(&v); s = GA::<u8, U3>::default().into_iter(); } }
mod q169 { use super::*; fn p() { let mut s = GA::<u8, U3>::default().into_iter(); let v = s.as_slice(); s = GA::<u8, U3>::default().into_iter(); let _ = core::mem::size_of_val(&v); } }
mod q170 { use super::*; fn p() { let v; { let mut s = GA::<u8, U3>::default().into_iter(); v = s.as_slice(); } let _ = core::mem::size_of_val(&v); } }
mod q171 { use super::*; fn p() { let mut s = GA::<u8, U3>::default().into_iter(); { let v = s.as_slice(); let _ = core::mem::size_of_val(&v); } s = GA::<u8, U3>::default().into_iter(); } }
mod q172 { use super::*; fn p() { let mut s = GA::<u8, U3>::default().into_iter(); { let v1 = s.as_mut_slice(); let _ = core::mem::size_of_val(&v1); } let v2 = s.as_mut_slice(); let _ = core::mem::size_of_val(&v2); } }
mod q173 { use super::*; fn p() { let mut s = GA::<u8, U3>::default().into_iter(); let v1 = s.as_mut_slice(); let v2 = s.as_mut_slice(); let _ = core::mem::size_of_val(&v1); let _ = core::mem::size_of_val(&v2); } }
mod q174 { use super::*; fn p() { let mut s = GA::<u8, U3>::default().into_iter(); let v1 = s.as_slice(); let v2 = s.as_mut_slice(); let _ = core::mem::size_of_val(&v1); let _ = core::mem::size_of_val(&v2); } }
mod q175 { use super::*; fn p() { let v; { let mut s = GA::<u8, U3>::default().into_iter(); v = s.as_mut_slice(); } let _ = core::mem::size_of_val(&v); } }
mod q176 { use super::*; fn p() { let mut s: GA<u8, U3> = GA::default(); let v = (&s).map(|x| x); let _ = core::mem::size_of_val(&v); s = Default::default(); } }
mod q177 { use super::*; fn p() { let mut s: GA<u8, U3> = GA::default(); let v = (&s).map(|x| x); s = Default::default(); let _ = core::mem::size_of_val(&v); } }
mod q178 { use super::*; fn p() { let v; { let mut s: GA<u8, U3> = GA::default(); v = (&s).map(|x| x); } let _ = core::mem::size_of_val(&v); } }
mod q179 { use super::*; fn p() { let mut s: GA<u8, U3> = GA::default(); { let v = (&s).map(|x| x); let _ = core::mem::size_of_val(&v); } s = Default::default(); } }
mod q180 { use super::*; fn p() { let mut s: u8 = 0; let v = arr![&s][0]; let _ = core::mem::size_of_val(&v); s = Default::default(); } }
mod q181 { use super::*; fn p() { let mut s: u8 = 0; let v = arr![&s][0]; s = Default::default(); let _ = core::mem::size_of_val(&v); } }
mod q182 { use super::*; fn p() { let v; { let mut s: u8 = 0; v = arr![&s][0]; } let _ = core::mem::size_of_val(&v); } }
mod q183 { use super::*; fn p() { let mut s: u8 = 0; { let v = arr![&s][0]; let _ = core::mem::size_of_val(&v); } s = Default::default(); } }
mod q184 { use super::*; fn p() { let mut s: u8 = 0; let v = arr![&s; 2][1]; let _ = core::mem::size_of_val(&v); s = Default::default(); } }
mod q185 { use super::*; fn p() { let mut s: u8 = 0; let v = arr![&s; 2][1]; s = Default::default(); let _ = core::mem::size_of_val(&v); } }
mod q186 { use super::*; fn p() { let v; { let mut s: u8 = 0; v = arr![&s; 2][1]; } let _ = core::mem::size_of_val(&v); } }
mod q187 { use super::*; fn p() { let mut s: u8 = 0; { let v = arr![&s; 2][1]; let _ = core::mem::size_of_val(&v); } s = Default::default(); } }
mod q188 { use super::*; fn p<'a>(a: &'a GA<u8, U3>) -> &'a [u8] { a.as_slice() } }
mod q189 { use super::*; fn p<'a>(a: &'a GA<u8, U3>) -> &'static [u8] { a.as_slice() } }
mod q190 { use super::*; fn p<'a, 'b>(a: &'a GA<u8, U3>) -> &'b [u8] { a.as_slice() } }
mod q191 { use super::*; fn p<'a>(a: &'a mut GA<u8, U3>) -> &'a mut [u8] { a.as_mut_slice() } }
mod q192 { use super::*; fn p<'a>(a: &'a mut GA<u8, U3>) -> &'static mut [u8] { a.as_mut_slice() } }
mod q193 { use super::*; fn p<'a, 'b>(a: &'a mut GA<u8, U3>) -> &'b mut [u8] { a.as_mut_slice() } }
mod q194 { use super::*; fn p<'a>(a: &'a [u8]) -> &'a GA<u8, U3> { GA::from_slice(a) } }
mod q195 { use super::*; fn p<'a>(a: &'a [u8]) -> &'static GA<u8, U3> { GA::from_slice(a) } }
mod q196 { use super::*; fn p<'a, 'b>(a: &'a [u8]) -> &'b GA<u8, U3> { GA::from_slice(a) } }
mod q197 { use super::*; fn p<'a>(a: &'a mut [u8]) -> &'a mut GA<u8, U3> { GA::from_mut_slice(a) } }
mod q198 { use super::*; fn p<'a>(a: &'a mut [u8]) -> &'static mut GA<u8, U3> { GA::from_mut_slice(a) } }
mod q199 { use super::*; fn p<'a, 'b>(a: &'a mut [u8]) -> &'b mut GA<u8, U3> { GA::from_mut_slice(a) } }
mod q200 { use super::*; fn p<'a>(a: &'a [u8]) -> &'a GA<u8, U3> { GA::try_from_slice(a).unwrap() } }
mod q201 { use super::*; fn p<'a>(a: &'a [u8]) -> &'static GA<u8, U3> { GA::try_from_slice(a).unwrap() } }
mod q202 { use super::*; fn p<'a, 'b>(a: &'a [u8]) -> &'b GA<u8, U3> { GA::try_from_slice(a).unwrap() } }
mod q203 { use super::*; fn p<'a>(a: &'a mut [u8]) -> &'a mut GA<u8, U3> { GA::try_from_mut_slice(a).unwrap() } }
mod q204 { use super::*; fn p<'a>(a: &'a mut [u8]) -> &'static mut GA<u8, U3> { GA::try_from_mut_slice(a).unwrap() } }
mod q205 { use super::*; fn p<'a, 'b>(a: &'a mut [u8]) -> &'b mut GA<u8, U3> { GA::try_from_mut_slice(a).unwrap() } }
mod q206 { use super::*; fn p<'a>(a: &'a [u8]) -> &'a GA<u8, U3> { a.try_into().unwrap() } }
mod q207 { use super::*; fn p<'a>(a: &'a [u8]) -> &'static GA<u8, U3> { a.try_into().unwrap() } }
mod q208 { use super::*; fn p<'a, 'b>(a: &'a [u8]) -> &'b GA<u8, U3> { a.try_into().unwrap() } }
mod q209 { use super::*; fn p<'a>(a: &'a mut [u8]) -> &'a mut GA<u8, U3> { a.try_into().unwrap() } }
mod q210 { use super::*; fn p<'a>(a: &'a mut [u8]) -> &'static mut GA<u8, U3> { a.try_into().unwrap() } }
mod q211 { use super::*; fn p<'a, 'b>(a: &'a mut [u8]) -> &'b mut GA<u8, U3> { a.try_into().unwrap() } }
mod q212 { use super::*; fn p<'a>(a: &'a [u8; 3]) -> &'a GA<u8, U3> { a.into() } }
mod q213 { use super::*; fn p<'a>(a: &'a [u8; 3]) -> &'static GA<u8, U3> { a.into() } }
mod q214 { use super::*; fn p<'a, 'b>(a: &'a [u8; 3]) -> &'b GA<u8, U3> { a.into() } }
mod q215 { use super::*; fn p<'a>(a: &'a mut [u8; 3]) -> &'a mut GA<u8, U3> { a.into() } }
mod q216 { use super::*; fn p<'a>(a: &'a mut [u8; 3]) -> &'static mut GA<u8, U3> { a.into() } }
mod q217 { use super::*; fn p<'a, 'b>(a: &'a mut [u8; 3]) -> &'b mut GA<u8, U3> { a.into() } }
mod q218 { use super::*; fn p<'a>(a: &'a GA<u8, U3>) -> &'a [u8; 3] { a.as_ref() } }
mod q219 { use super::*; fn p<'a>(a: &'a GA<u8, U3>) -> &'static [u8; 3] { a.as_ref() } }
mod q220 { use super::*; fn p<'a, 'b>(a: &'a GA<u8, U3>) -> &'b [u8; 3] { a.as_ref() } }
mod q221 { use super::*; fn p<'a>(a: &'a mut GA<u8, U3>) -> &'a mut [u8; 3] { a.as_mut() } }
mod q222 { use super::*; fn p<'a>(a: &'a mut GA<u8, U3>) -> &'static mut [u8; 3] { a.as_mut() } }
mod q223 { use super::*; fn p<'a, 'b>(a: &'a mut GA<u8, U3>) -> &'b mut [u8; 3] { a.as_mut() } }
mod q224 { use super::*; fn p<'a>(a: &'a [u8]) -> &'a [GA<u8, U2>] { GA::<u8, U2>::chunks_from_slice(a).0 } }
mod q225 { use super::*; fn p<'a>(a: &'a [u8]) -> &'static [GA<u8, U2>] { GA::<u8, U2>::chunks_from_slice(a).0 } }
mod q226 { use super::*; fn p<'a, 'b>(a: &'a [u8]) -> &'b [GA<u8, U2>] { GA::<u8, U2>::chunks_from_slice(a).0 } }
mod q227 { use super::*; fn p<'a>(a: &'a [u8]) -> &'a [u8] { GA::<u8, U2>::chunks_from_slice(a).1 } }
mod q228 { use super::*; fn p<'a>(a: &'a [u8]) -> &'static [u8] { GA::<u8, U2>::chunks_from_slice(a).1 } }
mod q229 { use super::*; fn p<'a, 'b>(a: &'a [u8]) -> &'b [u8] { GA::<u8, U2>::chunks_from_slice(a).1 } }
mod q230 { use super::*; fn p<'a>(a: &'a mut [u8]) -> &'a mut [GA<u8, U2>] { GA::<u8, U2>::chunks_from_slice_mut(a).0 } }
mod q231 { use super::*; fn p<'a>(a: &'a mut [u8]) -> &'static mut [GA<u8, U2>] { GA::<u8, U2>::chunks_from_slice_mut(a).0 } }
mod q232 { use super::*; fn p<'a, 'b>(a: &'a mut [u8]) -> &'b mut [GA<u8, U2>] { GA::<u8, U2>::chunks_from_slice_mut(a).0 } }
mod q233 { use super::*; fn p<'a>(a: &'a mut [u8]) -> &'a mut [u8] { GA::<u8, U2>::chunks_from_slice_mut(a).1 } }
mod q234 { use super::*; fn p<'a>(a: &'a mut [u8]) -> &'static mut [u8] { GA::<u8, U2>::chunks_from_slice_mut(a).1 } }
mod q235 { use super::*; fn p<'a, 'b>(a: &'a mut [u8]) -> &'b mut [u8] { GA::<u8, U2>::chunks_from_slice_mut(a).1 } }
mod q236 { use super::*; fn p<'a>(a: &'a [GA<u8, U2>]) -> &'a [u8] { GA::slice_from_chunks(a) } }
mod q237 { use super::*; fn p<'a>(a: &'a [GA<u8, U2>]) -> &'static [u8] { GA::slice_from_chunks(a) } }
mod q238 { use super::*; fn p<'a, 'b>(a: &'a [GA<u8, U2>]) -> &'b [u8] { GA::slice_from_chunks(a) } }
mod q239 { use super::*; fn p<'a>(a: &'a mut [GA<u8, U2>]) -> &'a mut [u8] { GA::slice_from_chunks_mut(a) } }
mod q240 { use super::*; fn p<'a>(a: &'a mut [GA<u8, U2>]) -> &'static mut [u8] { GA::slice_from_chunks_mut(a) } }
mod q241 { use super::*; fn p<'a, 'b>(a: &'a mut [GA<u8, U2>]) -> &'b mut [u8] { GA::slice_from_chunks_mut(a) } }
mod q242 { use super::*; fn p<'a>(a: &'a [[u8; 2]]) -> &'a [GA<u8, U2>] { GA::from_chunks(a) } }
mod q243 { use super::*; fn p<'a>(a: &'a [[u8; 2]]) -> &'static [GA<u8, U2>] { GA::from_chunks(a) } }
mod q244 { use super::*; fn p<'a, 'b>(a: &'a [[u8; 2]]) -> &'b [GA<u8, U2>] { GA::from_chunks(a) } }
mod q245 { use super::*; fn p<'a>(a: &'a mut [[u8; 2]]) -> &'a mut [GA<u8, U2>] { GA::from_chunks_mut(a) } }
mod q246 { use super::*; fn p<'a>(a: &'a mut [[u8; 2]]) -> &'static mut [GA<u8, U2>] { GA::from_chunks_mut(a) } }
mod q247 { use super::*; fn p<'a, 'b>(a: &'a mut [[u8; 2]]) -> &'b mut [GA<u8, U2>] { GA::from_chunks_mut(a) } }
mod q248 { use super::*; fn p<'a>(a: &'a [GA<u8, U2>]) -> &'a [[u8; 2]] { GA::into_chunks(a) } }
mod q249 { use super::*; fn p<'a>(a: &'a [GA<u8, U2>]) -> &'static [[u8; 2]] { GA::into_chunks(a) } }
mod q250 { use super::*; fn p<'a, 'b>(a: &'a [GA<u8, U2>]) -> &'b [[u8; 2]] { GA::into_chunks(a) } }
mod q251 { use super::*; fn p<'a>(a: &'a mut [GA<u8, U2>]) -> &'a mut [[u8; 2]] { GA::into_chunks_mut(a) } }
mod q252 { use super::*; fn p<'a>(a: &'a mut [GA<u8, U2>]) -> &'static mut [[u8; 2]] { GA::into_chunks_mut(a) } }
mod q253 { use super::*; fn p<'a, 'b>(a: &'a mut [GA<u8, U2>]) -> &'b mut [[u8; 2]] { GA::into_chunks_mut(a) } }
mod q254 { use super::*; fn p<'a>(a: &'a GA<u8, U3>) -> &'a GA<u8, U1> { Split::<u8, U1>::split(a).0 } }
mod q255 { use super::*; fn p<'a>(a: &'a GA<u8, U3>) -> &'static GA<u8, U1> { Split::<u8, U1>::split(a).0 } }
mod q256 { use super::*; fn p<'a, 'b>(a: &'a GA<u8, U3>) -> &'b GA<u8, U1> { Split::<u8, U1>::split(a).0 } }
mod q257 { use super::*; fn p<'a>(a: &'a GA<u8, U3>) -> &'a GA<u8, U2> { Split::<u8, U1>::split(a).1 } }
mod q258 { use super::*; fn p<'a>(a: &'a GA<u8, U3>) -> &'static GA<u8, U2> { Split::<u8, U1>::split(a).1 } }
mod q259 { use super::*; fn p<'a, 'b>(a: &'a GA<u8, U3>) -> &'b GA<u8, U2> { Split::<u8, U1>::split(a).1 } }
mod q260 { use super::*; fn p<'a>(a: &'a mut GA<u8, U3>) -> &'a mut GA<u8, U1> { Split::<u8, U1>::split(a).0 } }
mod q261 { use super::*; fn p<'a>(a: &'a mut GA<u8, U3>) -> &'static mut GA<u8, U1> { Split::<u8, U1>::split(a).0 } }
mod q262 { use super::*; fn p<'a, 'b>(a: &'a mut GA<u8, U3>) -> &'b mut GA<u8, U1> { Split::<u8, U1>::split(a).0 } }
mod q263 { use super::*; fn p<'a>(a: &'a mut GA<u8, U3>) -> &'a mut GA<u8, U2> { Split::<u8, U1>::split(a).1 } }
mod q264 { use super::*; fn p<'a>(a: &'a mut GA<u8, U3>) -> &'static mut GA<u8, U2> { Split::<u8, U1>::split(a).1 } }
mod q265 { use super::*; fn p<'a, 'b>(a: &'a mut GA<u8, U3>) -> &'b mut GA<u8, U2> { Split::<u8, U1>::split(a).1 } }
mod q266 { use super::*; fn p<'a>(a: &'a GA<GA<u8, U2>, U3>) -> &'a GA<u8, U6> { a.flatten() } }
mod q267 { use super::*; fn p<'a>(a: &'a GA<GA<u8, U2>, U3>) -> &'static GA<u8, U6> { a.flatten() } }
mod q268 { use super::*; fn p<'a, 'b>(a: &'a GA<GA<u8, U2>, U3>) -> &'b GA<u8, U6> { a.flatten() } }
mod q269 { use super::*; fn p<'a>(a: &'a mut GA<GA<u8, U2>, U3>) -> &'a mut GA<u8, U6> { a.flatten() } }
mod q270 { use super::*; fn p<'a>(a: &'a mut GA<GA<u8, U2>, U3>) -> &'static mut GA<u8, U6> { a.flatten() } }
mod q271 { use super::*; fn p<'a, 'b>(a: &'a mut GA<GA<u8, U2>, U3>) -> &'b mut GA<u8, U6> { a.flatten() } }
mod q272 { use super::*; fn p<'a>(a: &'a GA<u8, U6>) -> &'a GA<GA<u8, U2>, U3> { a.unflatten() } }
mod q273 { use super::*; fn p<'a>(a: &'a GA<u8, U6>) -> &'static GA<GA<u8, U2>, U3> { a.unflatten() } }
mod q274 { use super::*; fn p<'a, 'b>(a: &'a GA<u8, U6>) -> &'b GA<GA<u8, U2>, U3> { a.unflatten() } }
mod q275 { use super::*; fn p<'a>(a: &'a mut GA<u8, U6>) -> &'a mut GA<GA<u8, U2>, U3> { a.unflatten() } }
mod q276 { use super::*; fn p<'a>(a: &'a mut GA<u8, U6>) -> &'static mut GA<GA<u8, U2>, U3> { a.unflatten() } }
mod q277 { use super::*; fn p<'a, 'b>(a: &'a mut GA<u8, U6>) -> &'b mut GA<GA<u8, U2>, U3> { a.unflatten() } }
mod q278 { use super::*; fn p<'a>(a: &'a GenericArrayIter<u8, U3>) -> &'a [u8] { a.as_slice() } }
mod q279 { use super::*; fn p<'a>(a: &'a GenericArrayIter<u8, U3>) -> &'static [u8] { a.as_slice() } }
mod q280 { use super::*; fn p<'a, 'b>(a: &'a GenericArrayIter<u8, U3>) -> &'b [u8] { a.as_slice() } }
mod q281 { use super::*; fn p<'a>(a: &'a mut GenericArrayIter<u8, U3>) -> &'a mut [u8] { a.as_mut_slice() } }
mod q282 { use super::*; fn p<'a>(a: &'a mut GenericArrayIter<u8, U3>) -> &'static mut [u8] { a.as_mut_slice() } }
mod q283 { use super::*; fn p<'a, 'b>(a: &'a mut GenericArrayIter<u8, U3>) -> &'b mut [u8] { a.as_mut_slice() } }
mod q284 { use super::*; fn p<'a>(a: &'a GA<u8, U3>) -> core::slice::Iter<'a, u8> { a.into_iter() } }
mod q285 { use super::*; fn p<'a>(a: &'a GA<u8, U3>) -> core::slice::Iter<'static, u8> { a.into_iter() } }
mod q286 { use super::*; fn p<'a, 'b>(a: &'a GA<u8, U3>) -> core::slice::Iter<'b, u8> { a.into_iter() } }
mod q287 { use super::*; fn p<'a>(a: &'a mut GA<u8, U3>) -> core::slice::IterMut<'a, u8> { a.into_iter() } }
mod q288 { use super::*; fn p<'a>(a: &'a mut GA<u8, U3>) -> core::slice::IterMut<'static, u8> { a.into_iter() } }
mod q289 { use super::*; fn p<'a, 'b>(a: &'a mut GA<u8, U3>) -> core::slice::IterMut<'b, u8> { a.into_iter() } }
mod q290 { use super::*; fn p<'a>(a: &'a u8) -> &'a u8 { arr![a][0] } }
mod q291 { use super::*; fn p<'a>(a: &'a u8) -> &'static u8 { arr![a][0] } }
mod q292 { use super::*; fn p<'a, 'b>(a: &'a u8) -> &'b u8 { arr![a][0] } }
mod q293 { use super::*; fn p<'a>(a: &'a u8) -> &'a u8 { arr![a as &u8][0] } }
mod q294 { use super::*; fn p<'a>(a: &'a u8) -> &'static u8 { arr![a as &u8][0] } }
mod q295 { use super::*; fn p<'a, 'b>(a: &'a u8) -> &'b u8 { arr![a as &u8][0] } }
mod q296 { use super::*; fn p<'a>(a: &'a u8) -> &'a u8 { arr![a; 2][0] } }
mod q297 { use super::*; fn p<'a>(a: &'a u8) -> &'static u8 { arr![a; 2][0] } }
mod q298 { use super::*; fn p<'a, 'b>(a: &'a u8) -> &'b u8 { arr![a; 2][0] } }
mod q299 { use super::*; fn p<'a>(a: &'a u8) -> &'a u8 { arr![a; U2][0] } }
mod q300 { use super::*; fn p<'a>(a: &'a u8) -> &'static u8 { arr![a; U2][0] } }
mod q301 { use super::*; fn p<'a, 'b>(a: &'a u8) -> &'b u8 { arr![a; U2][0] } }
mod q302 { use super::*; fn p<'a>(a: &'a GA<String, U2>) -> GA<&'a str, U2> { a.map(|s| s.as_str()) } }
mod q303 { use super::*; fn p<'a>(a: &'a GA<String, U2>) -> GA<&'static str, U2> { a.map(|s| s.as_str()) } }
mod q304 { use super::*; fn p<'a, 'b>(a: &'a GA<String, U2>) -> GA<&'b str, U2> { a.map(|s| s.as_str()) } }
mod q305 { use super::*; fn p<'a>(a: &'a GA<String, U2>) -> GA<&'a String, U2> { a.zip(a, |s, _| s) } }
mod q306 { use super::*; fn p<'a>(a: &'a GA<String, U2>) -> GA<&'static String, U2> { a.zip(a, |s, _| s) } }
mod q307 { use super::*; fn p<'a, 'b>(a: &'a GA<String, U2>) -> GA<&'b String, U2> { a.zip(a, |s, _| s) } }
mod q308 { use super::*; fn p<'a>(a: &'a GA<u8, U3>) -> &'a [u8] { a.borrow() } }
mod q309 { use super::*; fn p<'a>(a: &'a GA<u8, U3>) -> &'static [u8] { a.borrow() } }
mod q310 { use super::*; fn p<'a, 'b>(a: &'a GA<u8, U3>) -> &'b [u8] { a.borrow() } }
mod q311 { use super::*; fn p<'a>(a: &'a mut GA<u8, U3>) -> &'a mut [u8] { a.borrow_mut() } }
mod q312 { use super::*; fn p<'a>(a: &'a mut GA<u8, U3>) -> &'static mut [u8] { a.borrow_mut() } }
mod q313 { use super::*; fn p<'a, 'b>(a: &'a mut GA<u8, U3>) -> &'b mut [u8] { a.borrow_mut() } }
mod q314 { use super::*; fn p<'a>(a: &'a GA<u8, U3>) -> &'a [u8] { &**a } }
mod q315 { use super::*; fn p<'a>(a: &'a GA<u8, U3>) -> &'static [u8] { &**a } }
mod q316 { use super::*; fn p<'a, 'b>(a: &'a GA<u8, U3>) -> &'b [u8] { &**a } }
mod q317 { use super::*; fn p<'a>(a: &'a mut GA<u8, U3>) -> &'a mut [u8] { &mut **a } }
mod q318 { use super::*; fn p<'a>(a: &'a mut GA<u8, U3>) -> &'static mut [u8] { &mut **a } }
mod q319 { use super::*; fn p<'a, 'b>(a: &'a mut GA<u8, U3>) -> &'b mut [u8] { &mut **a } }
