#![allow(unused, dead_code, clippy::all, unused_unsafe)]
use core::mem::MaybeUninit;
use generic_array::typenum::{Const, Unsigned, U0, U1, U2, U3, U5, U7};
use generic_array::{arr, ArrayLength, ConstArrayLength, GenericArray as GA, IntoArrayLength};
use generic_array::internals::{ArrayBuilder, ArrayConsumer, IntrusiveArrayBuilder};

pub type Out = (usize, usize, u64, u64, isize);
#[derive(Clone, Copy)]
#[repr(align(16))]
pub struct A16(pub u8);
type N<const K: usize> = ConstArrayLength<K>;

const fn mix(h: u64, v: u64) -> u64 { (h ^ v).wrapping_mul(0x100000001b3) }


// ------------------------------------------------------------------ element type u8
const fn mk_u8(i: usize) -> u8 { ((i * 7 + 3) % 251) as u8 }
const fn cv_u8(x: &u8) -> u64 { *x as u64 }
const fn dg_u8(s: &[u8]) -> u64 { let mut h = 0xcbf29ce484222325u64; let mut i = 0; while i < s.len() { h = mix(h, cv_u8(&s[i])); i += 1; } mix(h, s.len() as u64) }
const fn src_u8<const L: usize>() -> [u8; L] { let mut a = [mk_u8(0); L]; let mut i = 0; while i < L { a[i] = mk_u8(i); i += 1; } a }
const fn off_u8(a: *const u8, base: *const u8) -> isize { unsafe { a.offset_from(base) } }

const fn chunks_u8<const K: usize, const L: usize>() -> Out where Const<K>: IntoArrayLength {
    let src = src_u8::<L>();
    let (c, r) = GA::<u8, N<K>>::chunks_from_slice(&src);
    if K == 0 { assert!(L == 0 && c.len() == 0 && r.len() == 0); return (0, 0, 0, 0, 0); }
    assert!(c.len() == L / K);
    assert!(r.len() == L % K);
    // offsets are only taken for non-empty parts: where an empty part points is not pinned (C10), and offset_from on
    // pointers into different allocations would be OUR error, not the crate's
    let off = if r.len() > 0 { off_u8(r.as_ptr(), src.as_ptr()) } else { ((L / K) * K) as isize };
    assert!(off == ((L / K) * K) as isize || false);
    assert!(c.len() == 0 || off_u8(c.as_ptr() as *const u8, src.as_ptr()) == 0);
    let mut k = 0;
    while k < c.len() { let ch = c[k].as_slice(); assert!(ch.len() == K); let mut m = 0; while m < K { assert!(cv_u8(&ch[m]) == cv_u8(&src[k * K + m])); m += 1; } k += 1; }
    let mut j = 0;
    while j < r.len() { assert!(cv_u8(&r[j]) == cv_u8(&src[(L / K) * K + j])); j += 1; }
    let flat = GA::<u8, N<K>>::slice_from_chunks(c);
    assert!(flat.len() == (L / K) * K);
    assert!(flat.len() == 0 || off_u8(flat.as_ptr(), src.as_ptr()) == 0);
    (c.len(), r.len(), dg_u8(flat), dg_u8(r), off)
}

const fn chunks_mut_u8<const K: usize, const L: usize>() -> Out where Const<K>: IntoArrayLength {
    let mut src = src_u8::<L>();
    let base = src.as_ptr();
    if K == 0 { let (c, r) = GA::<u8, N<K>>::chunks_from_slice_mut(&mut src); assert!(L == 0 && c.len() == 0 && r.len() == 0); return (0, 0, 0, 0, 0); }
    let (nc, nr);
    {
        let (c, r) = GA::<u8, N<K>>::chunks_from_slice_mut(&mut src);
        nc = c.len(); nr = r.len();
        assert!(nc == L / K && nr == L % K);
        assert!(nr == 0 || off_u8(r.as_ptr(), base) == ((L / K) * K) as isize || false);
        let mut k = 0;
        while k < nc { let ch = c[k].as_mut_slice(); let mut m = 0; while m < K { ch[m] = mk_u8(1000 + k * K + m); m += 1; } k += 1; }
        let mut j = 0;
        while j < nr { r[j] = mk_u8(5000 + j); j += 1; }
        let flat = GA::<u8, N<K>>::slice_from_chunks_mut(c);
        assert!(flat.len() == nc * K);
        if flat.len() > 0 { flat[flat.len() - 1] = mk_u8(9000); }
    }
    // every write landed at the right index of the source, nothing else changed
    let mut i = 0;
    while i < L {
        let want = if i < nc * K { if i == nc * K - 1 { mk_u8(9000) } else { mk_u8(1000 + i) } } else { mk_u8(5000 + i - nc * K) };
        assert!(cv_u8(&src[i]) == cv_u8(&want));
        i += 1;
    }
    (nc, nr, dg_u8(&src), 0, 0)
}

const fn reinterpret_u8<const K: usize, const L: usize>() -> Out where Const<K>: IntoArrayLength {
    let mut src = src_u8::<L>();
    let base = src.as_ptr();
    // shared forms
    let ok = match GA::<u8, N<K>>::try_from_slice(&src) {
        Ok(a) => { assert!(L == K); assert!(a.as_slice().len() == K); assert!(off_u8(a.as_slice().as_ptr(), base) == 0); assert!(dg_u8(a.as_slice()) == dg_u8(&src)); true }
        Err(_) => { assert!(L != K); false }
    };
    if ok {
        let a = GA::<u8, N<K>>::from_slice(&src);
        assert!(off_u8(a.as_slice().as_ptr(), base) == 0 && a.as_slice().len() == K);
    }
    // mutable forms
    match GA::<u8, N<K>>::try_from_mut_slice(&mut src) {
        Ok(a) => { assert!(L == K); if K > 0 { a.as_mut_slice()[K - 1] = mk_u8(777); } }
        Err(_) => { assert!(L != K); }
    }
    if ok {
        let a = GA::<u8, N<K>>::from_mut_slice(&mut src);
        if K > 0 { a.as_mut_slice()[0] = mk_u8(778); }
        if K > 0 { assert!(cv_u8(&src[0]) == cv_u8(&mk_u8(778))); assert!(K == 1 || cv_u8(&src[K - 1]) == cv_u8(&mk_u8(777))); }
    }
    (K, L, dg_u8(&src), ok as u64, 0)
}

const fn byvalue_u8<const K: usize>() -> Out where Const<K>: IntoArrayLength {
    assert!(GA::<u8, N<K>>::len() == K);
    let a = GA::<u8, N<K>>::from_array(src_u8::<K>());
    let d = dg_u8(a.as_slice());
    assert!(d == dg_u8(&src_u8::<K>()));
    let mut a = a;
    if K > 0 { a.as_mut_slice()[K / 2] = mk_u8(4242); }
    let back: [u8; K] = a.into_array();
    if K > 0 { assert!(cv_u8(&back[K / 2]) == cv_u8(&mk_u8(4242))); }
    // uninit + element writes + assume_init
    let mut u = GA::<u8, N<K>>::uninit();
    let mut i = 0;
    while i < K { u.as_mut_slice()[i] = MaybeUninit::new(mk_u8(i + 1)); i += 1; }
    let init = unsafe { GA::<u8, N<K>>::assume_init(u) };
    let d2 = dg_u8(init.as_slice());
    let arr: [u8; K] = init.into_array();
    let mut i = 0;
    while i < K { assert!(cv_u8(&arr[i]) == cv_u8(&mk_u8(i + 1))); i += 1; }
    (K, 0, d, d2, 0)
}

const fn native_chunks_u8<const K: usize, const C: usize>() -> Out where Const<K>: IntoArrayLength {
    let mut src = [src_u8::<K>(); C];
    let base = src.as_ptr();
    let d;
    {
        let g: &[GA<u8, N<K>>] = GA::<u8, N<K>>::from_chunks(&src);
        assert!(g.len() == C);
        assert!(off_u8(g.as_ptr() as *const u8, base as *const u8) == 0);
        let mut h = 0u64; let mut k = 0;
        while k < C { h = mix(h, dg_u8(g[k].as_slice())); k += 1; }
        d = h;
        let back: &[[u8; K]] = GA::<u8, N<K>>::into_chunks(g);
        assert!(back.len() == C);
        let flat = GA::<u8, N<K>>::slice_from_chunks(g);
        assert!(flat.len() == C * K);
    }
    {
        let g: &mut [GA<u8, N<K>>] = GA::<u8, N<K>>::from_chunks_mut(&mut src);
        if C > 0 && K > 0 { g[C - 1].as_mut_slice()[K - 1] = mk_u8(31337); }
        let back: &mut [[u8; K]] = GA::<u8, N<K>>::into_chunks_mut(g);
        assert!(back.len() == C);
        if C > 0 && K > 0 { back[0][0] = mk_u8(31338); }
    }
    if C > 0 && K > 0 { assert!(cv_u8(&src[C - 1][K - 1]) == cv_u8(&mk_u8(31337)) || (C == 1 && K == 1)); assert!(cv_u8(&src[0][0]) == cv_u8(&mk_u8(31338))); }
    (K, C, d, 0, 0)
}


// ------------------------------------------------------------------ element type u32
const fn mk_u32(i: usize) -> u32 { (i as u32).wrapping_mul(2654435761).wrapping_add(17) }
const fn cv_u32(x: &u32) -> u64 { *x as u64 }
const fn dg_u32(s: &[u32]) -> u64 { let mut h = 0xcbf29ce484222325u64; let mut i = 0; while i < s.len() { h = mix(h, cv_u32(&s[i])); i += 1; } mix(h, s.len() as u64) }
const fn src_u32<const L: usize>() -> [u32; L] { let mut a = [mk_u32(0); L]; let mut i = 0; while i < L { a[i] = mk_u32(i); i += 1; } a }
const fn off_u32(a: *const u32, base: *const u32) -> isize { unsafe { a.offset_from(base) } }

const fn chunks_u32<const K: usize, const L: usize>() -> Out where Const<K>: IntoArrayLength {
    let src = src_u32::<L>();
    let (c, r) = GA::<u32, N<K>>::chunks_from_slice(&src);
    if K == 0 { assert!(L == 0 && c.len() == 0 && r.len() == 0); return (0, 0, 0, 0, 0); }
    assert!(c.len() == L / K);
    assert!(r.len() == L % K);
    // offsets are only taken for non-empty parts: where an empty part points is not pinned (C10), and offset_from on
    // pointers into different allocations would be OUR error, not the crate's
    let off = if r.len() > 0 { off_u32(r.as_ptr(), src.as_ptr()) } else { ((L / K) * K) as isize };
    assert!(off == ((L / K) * K) as isize || false);
    assert!(c.len() == 0 || off_u32(c.as_ptr() as *const u32, src.as_ptr()) == 0);
    let mut k = 0;
    while k < c.len() { let ch = c[k].as_slice(); assert!(ch.len() == K); let mut m = 0; while m < K { assert!(cv_u32(&ch[m]) == cv_u32(&src[k * K + m])); m += 1; } k += 1; }
    let mut j = 0;
    while j < r.len() { assert!(cv_u32(&r[j]) == cv_u32(&src[(L / K) * K + j])); j += 1; }
    let flat = GA::<u32, N<K>>::slice_from_chunks(c);
    assert!(flat.len() == (L / K) * K);
    assert!(flat.len() == 0 || off_u32(flat.as_ptr(), src.as_ptr()) == 0);
    (c.len(), r.len(), dg_u32(flat), dg_u32(r), off)
}

const fn chunks_mut_u32<const K: usize, const L: usize>() -> Out where Const<K>: IntoArrayLength {
    let mut src = src_u32::<L>();
    let base = src.as_ptr();
    if K == 0 { let (c, r) = GA::<u32, N<K>>::chunks_from_slice_mut(&mut src); assert!(L == 0 && c.len() == 0 && r.len() == 0); return (0, 0, 0, 0, 0); }
    let (nc, nr);
    {
        let (c, r) = GA::<u32, N<K>>::chunks_from_slice_mut(&mut src);
        nc = c.len(); nr = r.len();
        assert!(nc == L / K && nr == L % K);
        assert!(nr == 0 || off_u32(r.as_ptr(), base) == ((L / K) * K) as isize || false);
        let mut k = 0;
        while k < nc { let ch = c[k].as_mut_slice(); let mut m = 0; while m < K { ch[m] = mk_u32(1000 + k * K + m); m += 1; } k += 1; }
        let mut j = 0;
        while j < nr { r[j] = mk_u32(5000 + j); j += 1; }
        let flat = GA::<u32, N<K>>::slice_from_chunks_mut(c);
        assert!(flat.len() == nc * K);
        if flat.len() > 0 { flat[flat.len() - 1] = mk_u32(9000); }
    }
    // every write landed at the right index of the source, nothing else changed
    let mut i = 0;
    while i < L {
        let want = if i < nc * K { if i == nc * K - 1 { mk_u32(9000) } else { mk_u32(1000 + i) } } else { mk_u32(5000 + i - nc * K) };
        assert!(cv_u32(&src[i]) == cv_u32(&want));
        i += 1;
    }
    (nc, nr, dg_u32(&src), 0, 0)
}

const fn reinterpret_u32<const K: usize, const L: usize>() -> Out where Const<K>: IntoArrayLength {
    let mut src = src_u32::<L>();
    let base = src.as_ptr();
    // shared forms
    let ok = match GA::<u32, N<K>>::try_from_slice(&src) {
        Ok(a) => { assert!(L == K); assert!(a.as_slice().len() == K); assert!(off_u32(a.as_slice().as_ptr(), base) == 0); assert!(dg_u32(a.as_slice()) == dg_u32(&src)); true }
        Err(_) => { assert!(L != K); false }
    };
    if ok {
        let a = GA::<u32, N<K>>::from_slice(&src);
        assert!(off_u32(a.as_slice().as_ptr(), base) == 0 && a.as_slice().len() == K);
    }
    // mutable forms
    match GA::<u32, N<K>>::try_from_mut_slice(&mut src) {
        Ok(a) => { assert!(L == K); if K > 0 { a.as_mut_slice()[K - 1] = mk_u32(777); } }
        Err(_) => { assert!(L != K); }
    }
    if ok {
        let a = GA::<u32, N<K>>::from_mut_slice(&mut src);
        if K > 0 { a.as_mut_slice()[0] = mk_u32(778); }
        if K > 0 { assert!(cv_u32(&src[0]) == cv_u32(&mk_u32(778))); assert!(K == 1 || cv_u32(&src[K - 1]) == cv_u32(&mk_u32(777))); }
    }
    (K, L, dg_u32(&src), ok as u64, 0)
}

const fn byvalue_u32<const K: usize>() -> Out where Const<K>: IntoArrayLength {
    assert!(GA::<u32, N<K>>::len() == K);
    let a = GA::<u32, N<K>>::from_array(src_u32::<K>());
    let d = dg_u32(a.as_slice());
    assert!(d == dg_u32(&src_u32::<K>()));
    let mut a = a;
    if K > 0 { a.as_mut_slice()[K / 2] = mk_u32(4242); }
    let back: [u32; K] = a.into_array();
    if K > 0 { assert!(cv_u32(&back[K / 2]) == cv_u32(&mk_u32(4242))); }
    // uninit + element writes + assume_init
    let mut u = GA::<u32, N<K>>::uninit();
    let mut i = 0;
    while i < K { u.as_mut_slice()[i] = MaybeUninit::new(mk_u32(i + 1)); i += 1; }
    let init = unsafe { GA::<u32, N<K>>::assume_init(u) };
    let d2 = dg_u32(init.as_slice());
    let arr: [u32; K] = init.into_array();
    let mut i = 0;
    while i < K { assert!(cv_u32(&arr[i]) == cv_u32(&mk_u32(i + 1))); i += 1; }
    (K, 0, d, d2, 0)
}

const fn native_chunks_u32<const K: usize, const C: usize>() -> Out where Const<K>: IntoArrayLength {
    let mut src = [src_u32::<K>(); C];
    let base = src.as_ptr();
    let d;
    {
        let g: &[GA<u32, N<K>>] = GA::<u32, N<K>>::from_chunks(&src);
        assert!(g.len() == C);
        assert!(off_u32(g.as_ptr() as *const u32, base as *const u32) == 0);
        let mut h = 0u64; let mut k = 0;
        while k < C { h = mix(h, dg_u32(g[k].as_slice())); k += 1; }
        d = h;
        let back: &[[u32; K]] = GA::<u32, N<K>>::into_chunks(g);
        assert!(back.len() == C);
        let flat = GA::<u32, N<K>>::slice_from_chunks(g);
        assert!(flat.len() == C * K);
    }
    {
        let g: &mut [GA<u32, N<K>>] = GA::<u32, N<K>>::from_chunks_mut(&mut src);
        if C > 0 && K > 0 { g[C - 1].as_mut_slice()[K - 1] = mk_u32(31337); }
        let back: &mut [[u32; K]] = GA::<u32, N<K>>::into_chunks_mut(g);
        assert!(back.len() == C);
        if C > 0 && K > 0 { back[0][0] = mk_u32(31338); }
    }
    if C > 0 && K > 0 { assert!(cv_u32(&src[C - 1][K - 1]) == cv_u32(&mk_u32(31337)) || (C == 1 && K == 1)); assert!(cv_u32(&src[0][0]) == cv_u32(&mk_u32(31338))); }
    (K, C, d, 0, 0)
}


// ------------------------------------------------------------------ element type (u8, u16)
const fn mk_p3(i: usize) -> (u8, u16) { ((i % 200) as u8, ((i * 13 + 5) % 65521) as u16) }
const fn cv_p3(x: &(u8, u16)) -> u64 { (x.0 as u64) | ((x.1 as u64) << 8) }
const fn dg_p3(s: &[(u8, u16)]) -> u64 { let mut h = 0xcbf29ce484222325u64; let mut i = 0; while i < s.len() { h = mix(h, cv_p3(&s[i])); i += 1; } mix(h, s.len() as u64) }
const fn src_p3<const L: usize>() -> [(u8, u16); L] { let mut a = [mk_p3(0); L]; let mut i = 0; while i < L { a[i] = mk_p3(i); i += 1; } a }
const fn off_p3(a: *const (u8, u16), base: *const (u8, u16)) -> isize { unsafe { a.offset_from(base) } }

const fn chunks_p3<const K: usize, const L: usize>() -> Out where Const<K>: IntoArrayLength {
    let src = src_p3::<L>();
    let (c, r) = GA::<(u8, u16), N<K>>::chunks_from_slice(&src);
    if K == 0 { assert!(L == 0 && c.len() == 0 && r.len() == 0); return (0, 0, 0, 0, 0); }
    assert!(c.len() == L / K);
    assert!(r.len() == L % K);
    // offsets are only taken for non-empty parts: where an empty part points is not pinned (C10), and offset_from on
    // pointers into different allocations would be OUR error, not the crate's
    let off = if r.len() > 0 { off_p3(r.as_ptr(), src.as_ptr()) } else { ((L / K) * K) as isize };
    assert!(off == ((L / K) * K) as isize || false);
    assert!(c.len() == 0 || off_p3(c.as_ptr() as *const (u8, u16), src.as_ptr()) == 0);
    let mut k = 0;
    while k < c.len() { let ch = c[k].as_slice(); assert!(ch.len() == K); let mut m = 0; while m < K { assert!(cv_p3(&ch[m]) == cv_p3(&src[k * K + m])); m += 1; } k += 1; }
    let mut j = 0;
    while j < r.len() { assert!(cv_p3(&r[j]) == cv_p3(&src[(L / K) * K + j])); j += 1; }
    let flat = GA::<(u8, u16), N<K>>::slice_from_chunks(c);
    assert!(flat.len() == (L / K) * K);
    assert!(flat.len() == 0 || off_p3(flat.as_ptr(), src.as_ptr()) == 0);
    (c.len(), r.len(), dg_p3(flat), dg_p3(r), off)
}

const fn chunks_mut_p3<const K: usize, const L: usize>() -> Out where Const<K>: IntoArrayLength {
    let mut src = src_p3::<L>();
    let base = src.as_ptr();
    if K == 0 { let (c, r) = GA::<(u8, u16), N<K>>::chunks_from_slice_mut(&mut src); assert!(L == 0 && c.len() == 0 && r.len() == 0); return (0, 0, 0, 0, 0); }
    let (nc, nr);
    {
        let (c, r) = GA::<(u8, u16), N<K>>::chunks_from_slice_mut(&mut src);
        nc = c.len(); nr = r.len();
        assert!(nc == L / K && nr == L % K);
        assert!(nr == 0 || off_p3(r.as_ptr(), base) == ((L / K) * K) as isize || false);
        let mut k = 0;
        while k < nc { let ch = c[k].as_mut_slice(); let mut m = 0; while m < K { ch[m] = mk_p3(1000 + k * K + m); m += 1; } k += 1; }
        let mut j = 0;
        while j < nr { r[j] = mk_p3(5000 + j); j += 1; }
        let flat = GA::<(u8, u16), N<K>>::slice_from_chunks_mut(c);
        assert!(flat.len() == nc * K);
        if flat.len() > 0 { flat[flat.len() - 1] = mk_p3(9000); }
    }
    // every write landed at the right index of the source, nothing else changed
    let mut i = 0;
    while i < L {
        let want = if i < nc * K { if i == nc * K - 1 { mk_p3(9000) } else { mk_p3(1000 + i) } } else { mk_p3(5000 + i - nc * K) };
        assert!(cv_p3(&src[i]) == cv_p3(&want));
        i += 1;
    }
    (nc, nr, dg_p3(&src), 0, 0)
}

const fn reinterpret_p3<const K: usize, const L: usize>() -> Out where Const<K>: IntoArrayLength {
    let mut src = src_p3::<L>();
    let base = src.as_ptr();
    // shared forms
    let ok = match GA::<(u8, u16), N<K>>::try_from_slice(&src) {
        Ok(a) => { assert!(L == K); assert!(a.as_slice().len() == K); assert!(off_p3(a.as_slice().as_ptr(), base) == 0); assert!(dg_p3(a.as_slice()) == dg_p3(&src)); true }
        Err(_) => { assert!(L != K); false }
    };
    if ok {
        let a = GA::<(u8, u16), N<K>>::from_slice(&src);
        assert!(off_p3(a.as_slice().as_ptr(), base) == 0 && a.as_slice().len() == K);
    }
    // mutable forms
    match GA::<(u8, u16), N<K>>::try_from_mut_slice(&mut src) {
        Ok(a) => { assert!(L == K); if K > 0 { a.as_mut_slice()[K - 1] = mk_p3(777); } }
        Err(_) => { assert!(L != K); }
    }
    if ok {
        let a = GA::<(u8, u16), N<K>>::from_mut_slice(&mut src);
        if K > 0 { a.as_mut_slice()[0] = mk_p3(778); }
        if K > 0 { assert!(cv_p3(&src[0]) == cv_p3(&mk_p3(778))); assert!(K == 1 || cv_p3(&src[K - 1]) == cv_p3(&mk_p3(777))); }
    }
    (K, L, dg_p3(&src), ok as u64, 0)
}

const fn byvalue_p3<const K: usize>() -> Out where Const<K>: IntoArrayLength {
    assert!(GA::<(u8, u16), N<K>>::len() == K);
    let a = GA::<(u8, u16), N<K>>::from_array(src_p3::<K>());
    let d = dg_p3(a.as_slice());
    assert!(d == dg_p3(&src_p3::<K>()));
    let mut a = a;
    if K > 0 { a.as_mut_slice()[K / 2] = mk_p3(4242); }
    let back: [(u8, u16); K] = a.into_array();
    if K > 0 { assert!(cv_p3(&back[K / 2]) == cv_p3(&mk_p3(4242))); }
    // uninit + element writes + assume_init
    let mut u = GA::<(u8, u16), N<K>>::uninit();
    let mut i = 0;
    while i < K { u.as_mut_slice()[i] = MaybeUninit::new(mk_p3(i + 1)); i += 1; }
    let init = unsafe { GA::<(u8, u16), N<K>>::assume_init(u) };
    let d2 = dg_p3(init.as_slice());
    let arr: [(u8, u16); K] = init.into_array();
    let mut i = 0;
    while i < K { assert!(cv_p3(&arr[i]) == cv_p3(&mk_p3(i + 1))); i += 1; }
    (K, 0, d, d2, 0)
}

const fn native_chunks_p3<const K: usize, const C: usize>() -> Out where Const<K>: IntoArrayLength {
    let mut src = [src_p3::<K>(); C];
    let base = src.as_ptr();
    let d;
    {
        let g: &[GA<(u8, u16), N<K>>] = GA::<(u8, u16), N<K>>::from_chunks(&src);
        assert!(g.len() == C);
        assert!(off_p3(g.as_ptr() as *const (u8, u16), base as *const (u8, u16)) == 0);
        let mut h = 0u64; let mut k = 0;
        while k < C { h = mix(h, dg_p3(g[k].as_slice())); k += 1; }
        d = h;
        let back: &[[(u8, u16); K]] = GA::<(u8, u16), N<K>>::into_chunks(g);
        assert!(back.len() == C);
        let flat = GA::<(u8, u16), N<K>>::slice_from_chunks(g);
        assert!(flat.len() == C * K);
    }
    {
        let g: &mut [GA<(u8, u16), N<K>>] = GA::<(u8, u16), N<K>>::from_chunks_mut(&mut src);
        if C > 0 && K > 0 { g[C - 1].as_mut_slice()[K - 1] = mk_p3(31337); }
        let back: &mut [[(u8, u16); K]] = GA::<(u8, u16), N<K>>::into_chunks_mut(g);
        assert!(back.len() == C);
        if C > 0 && K > 0 { back[0][0] = mk_p3(31338); }
    }
    if C > 0 && K > 0 { assert!(cv_p3(&src[C - 1][K - 1]) == cv_p3(&mk_p3(31337)) || (C == 1 && K == 1)); assert!(cv_p3(&src[0][0]) == cv_p3(&mk_p3(31338))); }
    (K, C, d, 0, 0)
}


// ------------------------------------------------------------------ element type ()
const fn mk_unit(i: usize) -> () { () }
const fn cv_unit(x: &()) -> u64 { 7 }
const fn dg_unit(s: &[()]) -> u64 { let mut h = 0xcbf29ce484222325u64; let mut i = 0; while i < s.len() { h = mix(h, cv_unit(&s[i])); i += 1; } mix(h, s.len() as u64) }
const fn src_unit<const L: usize>() -> [(); L] { let mut a = [mk_unit(0); L]; let mut i = 0; while i < L { a[i] = mk_unit(i); i += 1; } a }
const fn off_unit(a: *const (), base: *const ()) -> isize { 0 }

const fn chunks_unit<const K: usize, const L: usize>() -> Out where Const<K>: IntoArrayLength {
    let src = src_unit::<L>();
    let (c, r) = GA::<(), N<K>>::chunks_from_slice(&src);
    if K == 0 { assert!(L == 0 && c.len() == 0 && r.len() == 0); return (0, 0, 0, 0, 0); }
    assert!(c.len() == L / K);
    assert!(r.len() == L % K);
    // offsets are only taken for non-empty parts: where an empty part points is not pinned (C10), and offset_from on
    // pointers into different allocations would be OUR error, not the crate's
    let off = if r.len() > 0 { off_unit(r.as_ptr(), src.as_ptr()) } else { ((L / K) * K) as isize };
    assert!(off == ((L / K) * K) as isize || true);
    assert!(c.len() == 0 || off_unit(c.as_ptr() as *const (), src.as_ptr()) == 0);
    let mut k = 0;
    while k < c.len() { let ch = c[k].as_slice(); assert!(ch.len() == K); let mut m = 0; while m < K { assert!(cv_unit(&ch[m]) == cv_unit(&src[k * K + m])); m += 1; } k += 1; }
    let mut j = 0;
    while j < r.len() { assert!(cv_unit(&r[j]) == cv_unit(&src[(L / K) * K + j])); j += 1; }
    let flat = GA::<(), N<K>>::slice_from_chunks(c);
    assert!(flat.len() == (L / K) * K);
    assert!(flat.len() == 0 || off_unit(flat.as_ptr(), src.as_ptr()) == 0);
    (c.len(), r.len(), dg_unit(flat), dg_unit(r), off)
}

const fn chunks_mut_unit<const K: usize, const L: usize>() -> Out where Const<K>: IntoArrayLength {
    let mut src = src_unit::<L>();
    let base = src.as_ptr();
    if K == 0 { let (c, r) = GA::<(), N<K>>::chunks_from_slice_mut(&mut src); assert!(L == 0 && c.len() == 0 && r.len() == 0); return (0, 0, 0, 0, 0); }
    let (nc, nr);
    {
        let (c, r) = GA::<(), N<K>>::chunks_from_slice_mut(&mut src);
        nc = c.len(); nr = r.len();
        assert!(nc == L / K && nr == L % K);
        assert!(nr == 0 || off_unit(r.as_ptr(), base) == ((L / K) * K) as isize || true);
        let mut k = 0;
        while k < nc { let ch = c[k].as_mut_slice(); let mut m = 0; while m < K { ch[m] = mk_unit(1000 + k * K + m); m += 1; } k += 1; }
        let mut j = 0;
        while j < nr { r[j] = mk_unit(5000 + j); j += 1; }
        let flat = GA::<(), N<K>>::slice_from_chunks_mut(c);
        assert!(flat.len() == nc * K);
        if flat.len() > 0 { flat[flat.len() - 1] = mk_unit(9000); }
    }
    // every write landed at the right index of the source, nothing else changed
    let mut i = 0;
    while i < L {
        let want = if i < nc * K { if i == nc * K - 1 { mk_unit(9000) } else { mk_unit(1000 + i) } } else { mk_unit(5000 + i - nc * K) };
        assert!(cv_unit(&src[i]) == cv_unit(&want));
        i += 1;
    }
    (nc, nr, dg_unit(&src), 0, 0)
}

const fn reinterpret_unit<const K: usize, const L: usize>() -> Out where Const<K>: IntoArrayLength {
    let mut src = src_unit::<L>();
    let base = src.as_ptr();
    // shared forms
    let ok = match GA::<(), N<K>>::try_from_slice(&src) {
        Ok(a) => { assert!(L == K); assert!(a.as_slice().len() == K); assert!(off_unit(a.as_slice().as_ptr(), base) == 0); assert!(dg_unit(a.as_slice()) == dg_unit(&src)); true }
        Err(_) => { assert!(L != K); false }
    };
    if ok {
        let a = GA::<(), N<K>>::from_slice(&src);
        assert!(off_unit(a.as_slice().as_ptr(), base) == 0 && a.as_slice().len() == K);
    }
    // mutable forms
    match GA::<(), N<K>>::try_from_mut_slice(&mut src) {
        Ok(a) => { assert!(L == K); if K > 0 { a.as_mut_slice()[K - 1] = mk_unit(777); } }
        Err(_) => { assert!(L != K); }
    }
    if ok {
        let a = GA::<(), N<K>>::from_mut_slice(&mut src);
        if K > 0 { a.as_mut_slice()[0] = mk_unit(778); }
        if K > 0 { assert!(cv_unit(&src[0]) == cv_unit(&mk_unit(778))); assert!(K == 1 || cv_unit(&src[K - 1]) == cv_unit(&mk_unit(777))); }
    }
    (K, L, dg_unit(&src), ok as u64, 0)
}

const fn byvalue_unit<const K: usize>() -> Out where Const<K>: IntoArrayLength {
    assert!(GA::<(), N<K>>::len() == K);
    let a = GA::<(), N<K>>::from_array(src_unit::<K>());
    let d = dg_unit(a.as_slice());
    assert!(d == dg_unit(&src_unit::<K>()));
    let mut a = a;
    if K > 0 { a.as_mut_slice()[K / 2] = mk_unit(4242); }
    let back: [(); K] = a.into_array();
    if K > 0 { assert!(cv_unit(&back[K / 2]) == cv_unit(&mk_unit(4242))); }
    // uninit + element writes + assume_init
    let mut u = GA::<(), N<K>>::uninit();
    let mut i = 0;
    while i < K { u.as_mut_slice()[i] = MaybeUninit::new(mk_unit(i + 1)); i += 1; }
    let init = unsafe { GA::<(), N<K>>::assume_init(u) };
    let d2 = dg_unit(init.as_slice());
    let arr: [(); K] = init.into_array();
    let mut i = 0;
    while i < K { assert!(cv_unit(&arr[i]) == cv_unit(&mk_unit(i + 1))); i += 1; }
    (K, 0, d, d2, 0)
}

const fn native_chunks_unit<const K: usize, const C: usize>() -> Out where Const<K>: IntoArrayLength {
    let mut src = [src_unit::<K>(); C];
    let base = src.as_ptr();
    let d;
    {
        let g: &[GA<(), N<K>>] = GA::<(), N<K>>::from_chunks(&src);
        assert!(g.len() == C);
        assert!(off_unit(g.as_ptr() as *const (), base as *const ()) == 0);
        let mut h = 0u64; let mut k = 0;
        while k < C { h = mix(h, dg_unit(g[k].as_slice())); k += 1; }
        d = h;
        let back: &[[(); K]] = GA::<(), N<K>>::into_chunks(g);
        assert!(back.len() == C);
        let flat = GA::<(), N<K>>::slice_from_chunks(g);
        assert!(flat.len() == C * K);
    }
    {
        let g: &mut [GA<(), N<K>>] = GA::<(), N<K>>::from_chunks_mut(&mut src);
        if C > 0 && K > 0 { g[C - 1].as_mut_slice()[K - 1] = mk_unit(31337); }
        let back: &mut [[(); K]] = GA::<(), N<K>>::into_chunks_mut(g);
        assert!(back.len() == C);
        if C > 0 && K > 0 { back[0][0] = mk_unit(31338); }
    }
    if C > 0 && K > 0 { assert!(cv_unit(&src[C - 1][K - 1]) == cv_unit(&mk_unit(31337)) || (C == 1 && K == 1)); assert!(cv_unit(&src[0][0]) == cv_unit(&mk_unit(31338))); }
    (K, C, d, 0, 0)
}


// ------------------------------------------------------------------ element type A16
const fn mk_a16(i: usize) -> A16 { A16(((i * 5 + 1) % 251) as u8) }
const fn cv_a16(x: &A16) -> u64 { x.0 as u64 }
const fn dg_a16(s: &[A16]) -> u64 { let mut h = 0xcbf29ce484222325u64; let mut i = 0; while i < s.len() { h = mix(h, cv_a16(&s[i])); i += 1; } mix(h, s.len() as u64) }
const fn src_a16<const L: usize>() -> [A16; L] { let mut a = [mk_a16(0); L]; let mut i = 0; while i < L { a[i] = mk_a16(i); i += 1; } a }
const fn off_a16(a: *const A16, base: *const A16) -> isize { unsafe { a.offset_from(base) } }

const fn chunks_a16<const K: usize, const L: usize>() -> Out where Const<K>: IntoArrayLength {
    let src = src_a16::<L>();
    let (c, r) = GA::<A16, N<K>>::chunks_from_slice(&src);
    if K == 0 { assert!(L == 0 && c.len() == 0 && r.len() == 0); return (0, 0, 0, 0, 0); }
    assert!(c.len() == L / K);
    assert!(r.len() == L % K);
    // offsets are only taken for non-empty parts: where an empty part points is not pinned (C10), and offset_from on
    // pointers into different allocations would be OUR error, not the crate's
    let off = if r.len() > 0 { off_a16(r.as_ptr(), src.as_ptr()) } else { ((L / K) * K) as isize };
    assert!(off == ((L / K) * K) as isize || false);
    assert!(c.len() == 0 || off_a16(c.as_ptr() as *const A16, src.as_ptr()) == 0);
    let mut k = 0;
    while k < c.len() { let ch = c[k].as_slice(); assert!(ch.len() == K); let mut m = 0; while m < K { assert!(cv_a16(&ch[m]) == cv_a16(&src[k * K + m])); m += 1; } k += 1; }
    let mut j = 0;
    while j < r.len() { assert!(cv_a16(&r[j]) == cv_a16(&src[(L / K) * K + j])); j += 1; }
    let flat = GA::<A16, N<K>>::slice_from_chunks(c);
    assert!(flat.len() == (L / K) * K);
    assert!(flat.len() == 0 || off_a16(flat.as_ptr(), src.as_ptr()) == 0);
    (c.len(), r.len(), dg_a16(flat), dg_a16(r), off)
}

const fn chunks_mut_a16<const K: usize, const L: usize>() -> Out where Const<K>: IntoArrayLength {
    let mut src = src_a16::<L>();
    let base = src.as_ptr();
    if K == 0 { let (c, r) = GA::<A16, N<K>>::chunks_from_slice_mut(&mut src); assert!(L == 0 && c.len() == 0 && r.len() == 0); return (0, 0, 0, 0, 0); }
    let (nc, nr);
    {
        let (c, r) = GA::<A16, N<K>>::chunks_from_slice_mut(&mut src);
        nc = c.len(); nr = r.len();
        assert!(nc == L / K && nr == L % K);
        assert!(nr == 0 || off_a16(r.as_ptr(), base) == ((L / K) * K) as isize || false);
        let mut k = 0;
        while k < nc { let ch = c[k].as_mut_slice(); let mut m = 0; while m < K { ch[m] = mk_a16(1000 + k * K + m); m += 1; } k += 1; }
        let mut j = 0;
        while j < nr { r[j] = mk_a16(5000 + j); j += 1; }
        let flat = GA::<A16, N<K>>::slice_from_chunks_mut(c);
        assert!(flat.len() == nc * K);
        if flat.len() > 0 { flat[flat.len() - 1] = mk_a16(9000); }
    }
    // every write landed at the right index of the source, nothing else changed
    let mut i = 0;
    while i < L {
        let want = if i < nc * K { if i == nc * K - 1 { mk_a16(9000) } else { mk_a16(1000 + i) } } else { mk_a16(5000 + i - nc * K) };
        assert!(cv_a16(&src[i]) == cv_a16(&want));
        i += 1;
    }
    (nc, nr, dg_a16(&src), 0, 0)
}

const fn reinterpret_a16<const K: usize, const L: usize>() -> Out where Const<K>: IntoArrayLength {
    let mut src = src_a16::<L>();
    let base = src.as_ptr();
    // shared forms
    let ok = match GA::<A16, N<K>>::try_from_slice(&src) {
        Ok(a) => { assert!(L == K); assert!(a.as_slice().len() == K); assert!(off_a16(a.as_slice().as_ptr(), base) == 0); assert!(dg_a16(a.as_slice()) == dg_a16(&src)); true }
        Err(_) => { assert!(L != K); false }
    };
    if ok {
        let a = GA::<A16, N<K>>::from_slice(&src);
        assert!(off_a16(a.as_slice().as_ptr(), base) == 0 && a.as_slice().len() == K);
    }
    // mutable forms
    match GA::<A16, N<K>>::try_from_mut_slice(&mut src) {
        Ok(a) => { assert!(L == K); if K > 0 { a.as_mut_slice()[K - 1] = mk_a16(777); } }
        Err(_) => { assert!(L != K); }
    }
    if ok {
        let a = GA::<A16, N<K>>::from_mut_slice(&mut src);
        if K > 0 { a.as_mut_slice()[0] = mk_a16(778); }
        if K > 0 { assert!(cv_a16(&src[0]) == cv_a16(&mk_a16(778))); assert!(K == 1 || cv_a16(&src[K - 1]) == cv_a16(&mk_a16(777))); }
    }
    (K, L, dg_a16(&src), ok as u64, 0)
}

const fn byvalue_a16<const K: usize>() -> Out where Const<K>: IntoArrayLength {
    assert!(GA::<A16, N<K>>::len() == K);
    let a = GA::<A16, N<K>>::from_array(src_a16::<K>());
    let d = dg_a16(a.as_slice());
    assert!(d == dg_a16(&src_a16::<K>()));
    let mut a = a;
    if K > 0 { a.as_mut_slice()[K / 2] = mk_a16(4242); }
    let back: [A16; K] = a.into_array();
    if K > 0 { assert!(cv_a16(&back[K / 2]) == cv_a16(&mk_a16(4242))); }
    // uninit + element writes + assume_init
    let mut u = GA::<A16, N<K>>::uninit();
    let mut i = 0;
    while i < K { u.as_mut_slice()[i] = MaybeUninit::new(mk_a16(i + 1)); i += 1; }
    let init = unsafe { GA::<A16, N<K>>::assume_init(u) };
    let d2 = dg_a16(init.as_slice());
    let arr: [A16; K] = init.into_array();
    let mut i = 0;
    while i < K { assert!(cv_a16(&arr[i]) == cv_a16(&mk_a16(i + 1))); i += 1; }
    (K, 0, d, d2, 0)
}

const fn native_chunks_a16<const K: usize, const C: usize>() -> Out where Const<K>: IntoArrayLength {
    let mut src = [src_a16::<K>(); C];
    let base = src.as_ptr();
    let d;
    {
        let g: &[GA<A16, N<K>>] = GA::<A16, N<K>>::from_chunks(&src);
        assert!(g.len() == C);
        assert!(off_a16(g.as_ptr() as *const A16, base as *const A16) == 0);
        let mut h = 0u64; let mut k = 0;
        while k < C { h = mix(h, dg_a16(g[k].as_slice())); k += 1; }
        d = h;
        let back: &[[A16; K]] = GA::<A16, N<K>>::into_chunks(g);
        assert!(back.len() == C);
        let flat = GA::<A16, N<K>>::slice_from_chunks(g);
        assert!(flat.len() == C * K);
    }
    {
        let g: &mut [GA<A16, N<K>>] = GA::<A16, N<K>>::from_chunks_mut(&mut src);
        if C > 0 && K > 0 { g[C - 1].as_mut_slice()[K - 1] = mk_a16(31337); }
        let back: &mut [[A16; K]] = GA::<A16, N<K>>::into_chunks_mut(g);
        assert!(back.len() == C);
        if C > 0 && K > 0 { back[0][0] = mk_a16(31338); }
    }
    if C > 0 && K > 0 { assert!(cv_a16(&src[C - 1][K - 1]) == cv_a16(&mk_a16(31337)) || (C == 1 && K == 1)); assert!(cv_a16(&src[0][0]) == cv_a16(&mk_a16(31338))); }
    (K, C, d, 0, 0)
}


// ------------------------------------------------------------------ element type [u8; 3]
const fn mk_b3(i: usize) -> [u8; 3] { [(i % 251) as u8, ((i * 3) % 253) as u8, 9] }
const fn cv_b3(x: &[u8; 3]) -> u64 { (x[0] as u64) | ((x[1] as u64) << 8) | ((x[2] as u64) << 16) }
const fn dg_b3(s: &[[u8; 3]]) -> u64 { let mut h = 0xcbf29ce484222325u64; let mut i = 0; while i < s.len() { h = mix(h, cv_b3(&s[i])); i += 1; } mix(h, s.len() as u64) }
const fn src_b3<const L: usize>() -> [[u8; 3]; L] { let mut a = [mk_b3(0); L]; let mut i = 0; while i < L { a[i] = mk_b3(i); i += 1; } a }
const fn off_b3(a: *const [u8; 3], base: *const [u8; 3]) -> isize { unsafe { a.offset_from(base) } }

const fn chunks_b3<const K: usize, const L: usize>() -> Out where Const<K>: IntoArrayLength {
    let src = src_b3::<L>();
    let (c, r) = GA::<[u8; 3], N<K>>::chunks_from_slice(&src);
    if K == 0 { assert!(L == 0 && c.len() == 0 && r.len() == 0); return (0, 0, 0, 0, 0); }
    assert!(c.len() == L / K);
    assert!(r.len() == L % K);
    // offsets are only taken for non-empty parts: where an empty part points is not pinned (C10), and offset_from on
    // pointers into different allocations would be OUR error, not the crate's
    let off = if r.len() > 0 { off_b3(r.as_ptr(), src.as_ptr()) } else { ((L / K) * K) as isize };
    assert!(off == ((L / K) * K) as isize || false);
    assert!(c.len() == 0 || off_b3(c.as_ptr() as *const [u8; 3], src.as_ptr()) == 0);
    let mut k = 0;
    while k < c.len() { let ch = c[k].as_slice(); assert!(ch.len() == K); let mut m = 0; while m < K { assert!(cv_b3(&ch[m]) == cv_b3(&src[k * K + m])); m += 1; } k += 1; }
    let mut j = 0;
    while j < r.len() { assert!(cv_b3(&r[j]) == cv_b3(&src[(L / K) * K + j])); j += 1; }
    let flat = GA::<[u8; 3], N<K>>::slice_from_chunks(c);
    assert!(flat.len() == (L / K) * K);
    assert!(flat.len() == 0 || off_b3(flat.as_ptr(), src.as_ptr()) == 0);
    (c.len(), r.len(), dg_b3(flat), dg_b3(r), off)
}

const fn chunks_mut_b3<const K: usize, const L: usize>() -> Out where Const<K>: IntoArrayLength {
    let mut src = src_b3::<L>();
    let base = src.as_ptr();
    if K == 0 { let (c, r) = GA::<[u8; 3], N<K>>::chunks_from_slice_mut(&mut src); assert!(L == 0 && c.len() == 0 && r.len() == 0); return (0, 0, 0, 0, 0); }
    let (nc, nr);
    {
        let (c, r) = GA::<[u8; 3], N<K>>::chunks_from_slice_mut(&mut src);
        nc = c.len(); nr = r.len();
        assert!(nc == L / K && nr == L % K);
        assert!(nr == 0 || off_b3(r.as_ptr(), base) == ((L / K) * K) as isize || false);
        let mut k = 0;
        while k < nc { let ch = c[k].as_mut_slice(); let mut m = 0; while m < K { ch[m] = mk_b3(1000 + k * K + m); m += 1; } k += 1; }
        let mut j = 0;
        while j < nr { r[j] = mk_b3(5000 + j); j += 1; }
        let flat = GA::<[u8; 3], N<K>>::slice_from_chunks_mut(c);
        assert!(flat.len() == nc * K);
        if flat.len() > 0 { flat[flat.len() - 1] = mk_b3(9000); }
    }
    // every write landed at the right index of the source, nothing else changed
    let mut i = 0;
    while i < L {
        let want = if i < nc * K { if i == nc * K - 1 { mk_b3(9000) } else { mk_b3(1000 + i) } } else { mk_b3(5000 + i - nc * K) };
        assert!(cv_b3(&src[i]) == cv_b3(&want));
        i += 1;
    }
    (nc, nr, dg_b3(&src), 0, 0)
}

const fn reinterpret_b3<const K: usize, const L: usize>() -> Out where Const<K>: IntoArrayLength {
    let mut src = src_b3::<L>();
    let base = src.as_ptr();
    // shared forms
    let ok = match GA::<[u8; 3], N<K>>::try_from_slice(&src) {
        Ok(a) => { assert!(L == K); assert!(a.as_slice().len() == K); assert!(off_b3(a.as_slice().as_ptr(), base) == 0); assert!(dg_b3(a.as_slice()) == dg_b3(&src)); true }
        Err(_) => { assert!(L != K); false }
    };
    if ok {
        let a = GA::<[u8; 3], N<K>>::from_slice(&src);
        assert!(off_b3(a.as_slice().as_ptr(), base) == 0 && a.as_slice().len() == K);
    }
    // mutable forms
    match GA::<[u8; 3], N<K>>::try_from_mut_slice(&mut src) {
        Ok(a) => { assert!(L == K); if K > 0 { a.as_mut_slice()[K - 1] = mk_b3(777); } }
        Err(_) => { assert!(L != K); }
    }
    if ok {
        let a = GA::<[u8; 3], N<K>>::from_mut_slice(&mut src);
        if K > 0 { a.as_mut_slice()[0] = mk_b3(778); }
        if K > 0 { assert!(cv_b3(&src[0]) == cv_b3(&mk_b3(778))); assert!(K == 1 || cv_b3(&src[K - 1]) == cv_b3(&mk_b3(777))); }
    }
    (K, L, dg_b3(&src), ok as u64, 0)
}

const fn byvalue_b3<const K: usize>() -> Out where Const<K>: IntoArrayLength {
    assert!(GA::<[u8; 3], N<K>>::len() == K);
    let a = GA::<[u8; 3], N<K>>::from_array(src_b3::<K>());
    let d = dg_b3(a.as_slice());
    assert!(d == dg_b3(&src_b3::<K>()));
    let mut a = a;
    if K > 0 { a.as_mut_slice()[K / 2] = mk_b3(4242); }
    let back: [[u8; 3]; K] = a.into_array();
    if K > 0 { assert!(cv_b3(&back[K / 2]) == cv_b3(&mk_b3(4242))); }
    // uninit + element writes + assume_init
    let mut u = GA::<[u8; 3], N<K>>::uninit();
    let mut i = 0;
    while i < K { u.as_mut_slice()[i] = MaybeUninit::new(mk_b3(i + 1)); i += 1; }
    let init = unsafe { GA::<[u8; 3], N<K>>::assume_init(u) };
    let d2 = dg_b3(init.as_slice());
    let arr: [[u8; 3]; K] = init.into_array();
    let mut i = 0;
    while i < K { assert!(cv_b3(&arr[i]) == cv_b3(&mk_b3(i + 1))); i += 1; }
    (K, 0, d, d2, 0)
}

const fn native_chunks_b3<const K: usize, const C: usize>() -> Out where Const<K>: IntoArrayLength {
    let mut src = [src_b3::<K>(); C];
    let base = src.as_ptr();
    let d;
    {
        let g: &[GA<[u8; 3], N<K>>] = GA::<[u8; 3], N<K>>::from_chunks(&src);
        assert!(g.len() == C);
        assert!(off_b3(g.as_ptr() as *const [u8; 3], base as *const [u8; 3]) == 0);
        let mut h = 0u64; let mut k = 0;
        while k < C { h = mix(h, dg_b3(g[k].as_slice())); k += 1; }
        d = h;
        let back: &[[[u8; 3]; K]] = GA::<[u8; 3], N<K>>::into_chunks(g);
        assert!(back.len() == C);
        let flat = GA::<[u8; 3], N<K>>::slice_from_chunks(g);
        assert!(flat.len() == C * K);
    }
    {
        let g: &mut [GA<[u8; 3], N<K>>] = GA::<[u8; 3], N<K>>::from_chunks_mut(&mut src);
        if C > 0 && K > 0 { g[C - 1].as_mut_slice()[K - 1] = mk_b3(31337); }
        let back: &mut [[[u8; 3]; K]] = GA::<[u8; 3], N<K>>::into_chunks_mut(g);
        assert!(back.len() == C);
        if C > 0 && K > 0 { back[0][0] = mk_b3(31338); }
    }
    if C > 0 && K > 0 { assert!(cv_b3(&src[C - 1][K - 1]) == cv_b3(&mk_b3(31337)) || (C == 1 && K == 1)); assert!(cv_b3(&src[0][0]) == cv_b3(&mk_b3(31338))); }
    (K, C, d, 0, 0)
}


// ------------------------------------------------------------------ element type char
const fn mk_ch(i: usize) -> char { (b'A' + (i % 26) as u8) as char }
const fn cv_ch(x: &char) -> u64 { *x as u64 }
const fn dg_ch(s: &[char]) -> u64 { let mut h = 0xcbf29ce484222325u64; let mut i = 0; while i < s.len() { h = mix(h, cv_ch(&s[i])); i += 1; } mix(h, s.len() as u64) }
const fn src_ch<const L: usize>() -> [char; L] { let mut a = [mk_ch(0); L]; let mut i = 0; while i < L { a[i] = mk_ch(i); i += 1; } a }
const fn off_ch(a: *const char, base: *const char) -> isize { unsafe { a.offset_from(base) } }

const fn chunks_ch<const K: usize, const L: usize>() -> Out where Const<K>: IntoArrayLength {
    let src = src_ch::<L>();
    let (c, r) = GA::<char, N<K>>::chunks_from_slice(&src);
    if K == 0 { assert!(L == 0 && c.len() == 0 && r.len() == 0); return (0, 0, 0, 0, 0); }
    assert!(c.len() == L / K);
    assert!(r.len() == L % K);
    // offsets are only taken for non-empty parts: where an empty part points is not pinned (C10), and offset_from on
    // pointers into different allocations would be OUR error, not the crate's
    let off = if r.len() > 0 { off_ch(r.as_ptr(), src.as_ptr()) } else { ((L / K) * K) as isize };
    assert!(off == ((L / K) * K) as isize || false);
    assert!(c.len() == 0 || off_ch(c.as_ptr() as *const char, src.as_ptr()) == 0);
    let mut k = 0;
    while k < c.len() { let ch = c[k].as_slice(); assert!(ch.len() == K); let mut m = 0; while m < K { assert!(cv_ch(&ch[m]) == cv_ch(&src[k * K + m])); m += 1; } k += 1; }
    let mut j = 0;
    while j < r.len() { assert!(cv_ch(&r[j]) == cv_ch(&src[(L / K) * K + j])); j += 1; }
    let flat = GA::<char, N<K>>::slice_from_chunks(c);
    assert!(flat.len() == (L / K) * K);
    assert!(flat.len() == 0 || off_ch(flat.as_ptr(), src.as_ptr()) == 0);
    (c.len(), r.len(), dg_ch(flat), dg_ch(r), off)
}

const fn chunks_mut_ch<const K: usize, const L: usize>() -> Out where Const<K>: IntoArrayLength {
    let mut src = src_ch::<L>();
    let base = src.as_ptr();
    if K == 0 { let (c, r) = GA::<char, N<K>>::chunks_from_slice_mut(&mut src); assert!(L == 0 && c.len() == 0 && r.len() == 0); return (0, 0, 0, 0, 0); }
    let (nc, nr);
    {
        let (c, r) = GA::<char, N<K>>::chunks_from_slice_mut(&mut src);
        nc = c.len(); nr = r.len();
        assert!(nc == L / K && nr == L % K);
        assert!(nr == 0 || off_ch(r.as_ptr(), base) == ((L / K) * K) as isize || false);
        let mut k = 0;
        while k < nc { let ch = c[k].as_mut_slice(); let mut m = 0; while m < K { ch[m] = mk_ch(1000 + k * K + m); m += 1; } k += 1; }
        let mut j = 0;
        while j < nr { r[j] = mk_ch(5000 + j); j += 1; }
        let flat = GA::<char, N<K>>::slice_from_chunks_mut(c);
        assert!(flat.len() == nc * K);
        if flat.len() > 0 { flat[flat.len() - 1] = mk_ch(9000); }
    }
    // every write landed at the right index of the source, nothing else changed
    let mut i = 0;
    while i < L {
        let want = if i < nc * K { if i == nc * K - 1 { mk_ch(9000) } else { mk_ch(1000 + i) } } else { mk_ch(5000 + i - nc * K) };
        assert!(cv_ch(&src[i]) == cv_ch(&want));
        i += 1;
    }
    (nc, nr, dg_ch(&src), 0, 0)
}

const fn reinterpret_ch<const K: usize, const L: usize>() -> Out where Const<K>: IntoArrayLength {
    let mut src = src_ch::<L>();
    let base = src.as_ptr();
    // shared forms
    let ok = match GA::<char, N<K>>::try_from_slice(&src) {
        Ok(a) => { assert!(L == K); assert!(a.as_slice().len() == K); assert!(off_ch(a.as_slice().as_ptr(), base) == 0); assert!(dg_ch(a.as_slice()) == dg_ch(&src)); true }
        Err(_) => { assert!(L != K); false }
    };
    if ok {
        let a = GA::<char, N<K>>::from_slice(&src);
        assert!(off_ch(a.as_slice().as_ptr(), base) == 0 && a.as_slice().len() == K);
    }
    // mutable forms
    match GA::<char, N<K>>::try_from_mut_slice(&mut src) {
        Ok(a) => { assert!(L == K); if K > 0 { a.as_mut_slice()[K - 1] = mk_ch(777); } }
        Err(_) => { assert!(L != K); }
    }
    if ok {
        let a = GA::<char, N<K>>::from_mut_slice(&mut src);
        if K > 0 { a.as_mut_slice()[0] = mk_ch(778); }
        if K > 0 { assert!(cv_ch(&src[0]) == cv_ch(&mk_ch(778))); assert!(K == 1 || cv_ch(&src[K - 1]) == cv_ch(&mk_ch(777))); }
    }
    (K, L, dg_ch(&src), ok as u64, 0)
}

const fn byvalue_ch<const K: usize>() -> Out where Const<K>: IntoArrayLength {
    assert!(GA::<char, N<K>>::len() == K);
    let a = GA::<char, N<K>>::from_array(src_ch::<K>());
    let d = dg_ch(a.as_slice());
    assert!(d == dg_ch(&src_ch::<K>()));
    let mut a = a;
    if K > 0 { a.as_mut_slice()[K / 2] = mk_ch(4242); }
    let back: [char; K] = a.into_array();
    if K > 0 { assert!(cv_ch(&back[K / 2]) == cv_ch(&mk_ch(4242))); }
    // uninit + element writes + assume_init
    let mut u = GA::<char, N<K>>::uninit();
    let mut i = 0;
    while i < K { u.as_mut_slice()[i] = MaybeUninit::new(mk_ch(i + 1)); i += 1; }
    let init = unsafe { GA::<char, N<K>>::assume_init(u) };
    let d2 = dg_ch(init.as_slice());
    let arr: [char; K] = init.into_array();
    let mut i = 0;
    while i < K { assert!(cv_ch(&arr[i]) == cv_ch(&mk_ch(i + 1))); i += 1; }
    (K, 0, d, d2, 0)
}

const fn native_chunks_ch<const K: usize, const C: usize>() -> Out where Const<K>: IntoArrayLength {
    let mut src = [src_ch::<K>(); C];
    let base = src.as_ptr();
    let d;
    {
        let g: &[GA<char, N<K>>] = GA::<char, N<K>>::from_chunks(&src);
        assert!(g.len() == C);
        assert!(off_ch(g.as_ptr() as *const char, base as *const char) == 0);
        let mut h = 0u64; let mut k = 0;
        while k < C { h = mix(h, dg_ch(g[k].as_slice())); k += 1; }
        d = h;
        let back: &[[char; K]] = GA::<char, N<K>>::into_chunks(g);
        assert!(back.len() == C);
        let flat = GA::<char, N<K>>::slice_from_chunks(g);
        assert!(flat.len() == C * K);
    }
    {
        let g: &mut [GA<char, N<K>>] = GA::<char, N<K>>::from_chunks_mut(&mut src);
        if C > 0 && K > 0 { g[C - 1].as_mut_slice()[K - 1] = mk_ch(31337); }
        let back: &mut [[char; K]] = GA::<char, N<K>>::into_chunks_mut(g);
        assert!(back.len() == C);
        if C > 0 && K > 0 { back[0][0] = mk_ch(31338); }
    }
    if C > 0 && K > 0 { assert!(cv_ch(&src[C - 1][K - 1]) == cv_ch(&mk_ch(31337)) || (C == 1 && K == 1)); assert!(cv_ch(&src[0][0]) == cv_ch(&mk_ch(31338))); }
    (K, C, d, 0, 0)
}


// ------------------------------------------------------------------ misc const API
const fn transmute_case() -> Out {
    let x: u32 = unsafe { generic_array::const_transmute::<[u8; 4], u32>([1, 2, 3, 4]) };
    assert!(x == u32::from_ne_bytes([1, 2, 3, 4]));
    let y: [u16; 2] = unsafe { generic_array::const_transmute::<GA<u16, U2>, [u16; 2]>(GA::<u16, U2>::from_array([9, 10])) };
    assert!(y[0] == 9 && y[1] == 10);
    (4, 0, x as u64, y[1] as u64, 0)
}
const fn builders_case<const K: usize>() -> Out where Const<K>: IntoArrayLength {
    let b = ArrayBuilder::<u8, N<K>>::new();
    let full = b.is_full();
    assert!(full == (K == 0));
    core::mem::forget(b);
    let mut arr = GA::<u8, N<K>>::uninit();
    let ib = IntrusiveArrayBuilder::new(&mut arr);
    assert!(ib.is_full() == (K == 0));
    core::mem::forget(ib);
    core::mem::forget(arr);
    let c = ArrayConsumer::new(GA::<u8, N<K>>::from_array([5u8; K]));
    core::mem::forget(c);
    (K, full as usize, 0, 0, 0)
}
const fn builders_finish_empty() -> Out {
    let b = ArrayBuilder::<u32, U0>::new();
    let a: GA<u32, U0> = unsafe { b.assume_init() };
    let mut arr = GA::<u32, U0>::uninit();
    let ib = IntrusiveArrayBuilder::new(&mut arr);
    unsafe { ib.finish() };
    (a.as_slice().len(), 0, 0, 0, 0)
}

const C_CHUNKS_U8_0_0: Out = chunks_u8::<0, 0>();
const C_CHUNKS_MUT_U8_0_0: Out = chunks_mut_u8::<0, 0>();
const C_REINTERPRET_U8_0_0: Out = reinterpret_u8::<0, 0>();
const C_REINTERPRET_U8_0_1: Out = reinterpret_u8::<0, 1>();
const C_REINTERPRET_U8_0_2: Out = reinterpret_u8::<0, 2>();
const C_BYVALUE_U8_0: Out = byvalue_u8::<0>();
const C_NATIVE_CHUNKS_U8_0_0: Out = native_chunks_u8::<0, 0>();
const C_NATIVE_CHUNKS_U8_0_1: Out = native_chunks_u8::<0, 1>();
const C_NATIVE_CHUNKS_U8_0_2: Out = native_chunks_u8::<0, 2>();
const C_NATIVE_CHUNKS_U8_0_3: Out = native_chunks_u8::<0, 3>();
const C_CHUNKS_U8_1_0: Out = chunks_u8::<1, 0>();
const C_CHUNKS_MUT_U8_1_0: Out = chunks_mut_u8::<1, 0>();
const C_CHUNKS_U8_1_1: Out = chunks_u8::<1, 1>();
const C_CHUNKS_MUT_U8_1_1: Out = chunks_mut_u8::<1, 1>();
const C_CHUNKS_U8_1_2: Out = chunks_u8::<1, 2>();
const C_CHUNKS_MUT_U8_1_2: Out = chunks_mut_u8::<1, 2>();
const C_CHUNKS_U8_1_3: Out = chunks_u8::<1, 3>();
const C_CHUNKS_MUT_U8_1_3: Out = chunks_mut_u8::<1, 3>();
const C_CHUNKS_U8_1_4: Out = chunks_u8::<1, 4>();
const C_CHUNKS_MUT_U8_1_4: Out = chunks_mut_u8::<1, 4>();
const C_CHUNKS_U8_1_5: Out = chunks_u8::<1, 5>();
const C_CHUNKS_MUT_U8_1_5: Out = chunks_mut_u8::<1, 5>();
const C_REINTERPRET_U8_1_0: Out = reinterpret_u8::<1, 0>();
const C_REINTERPRET_U8_1_1: Out = reinterpret_u8::<1, 1>();
const C_REINTERPRET_U8_1_2: Out = reinterpret_u8::<1, 2>();
const C_REINTERPRET_U8_1_5: Out = reinterpret_u8::<1, 5>();
const C_BYVALUE_U8_1: Out = byvalue_u8::<1>();
const C_NATIVE_CHUNKS_U8_1_0: Out = native_chunks_u8::<1, 0>();
const C_NATIVE_CHUNKS_U8_1_1: Out = native_chunks_u8::<1, 1>();
const C_NATIVE_CHUNKS_U8_1_2: Out = native_chunks_u8::<1, 2>();
const C_NATIVE_CHUNKS_U8_1_3: Out = native_chunks_u8::<1, 3>();
const C_CHUNKS_U8_2_0: Out = chunks_u8::<2, 0>();
const C_CHUNKS_MUT_U8_2_0: Out = chunks_mut_u8::<2, 0>();
const C_CHUNKS_U8_2_1: Out = chunks_u8::<2, 1>();
const C_CHUNKS_MUT_U8_2_1: Out = chunks_mut_u8::<2, 1>();
const C_CHUNKS_U8_2_2: Out = chunks_u8::<2, 2>();
const C_CHUNKS_MUT_U8_2_2: Out = chunks_mut_u8::<2, 2>();
const C_CHUNKS_U8_2_3: Out = chunks_u8::<2, 3>();
const C_CHUNKS_MUT_U8_2_3: Out = chunks_mut_u8::<2, 3>();
const C_CHUNKS_U8_2_4: Out = chunks_u8::<2, 4>();
const C_CHUNKS_MUT_U8_2_4: Out = chunks_mut_u8::<2, 4>();
const C_CHUNKS_U8_2_5: Out = chunks_u8::<2, 5>();
const C_CHUNKS_MUT_U8_2_5: Out = chunks_mut_u8::<2, 5>();
const C_CHUNKS_U8_2_6: Out = chunks_u8::<2, 6>();
const C_CHUNKS_MUT_U8_2_6: Out = chunks_mut_u8::<2, 6>();
const C_CHUNKS_U8_2_7: Out = chunks_u8::<2, 7>();
const C_CHUNKS_MUT_U8_2_7: Out = chunks_mut_u8::<2, 7>();
const C_CHUNKS_U8_2_8: Out = chunks_u8::<2, 8>();
const C_CHUNKS_MUT_U8_2_8: Out = chunks_mut_u8::<2, 8>();
const C_REINTERPRET_U8_2_0: Out = reinterpret_u8::<2, 0>();
const C_REINTERPRET_U8_2_1: Out = reinterpret_u8::<2, 1>();
const C_REINTERPRET_U8_2_2: Out = reinterpret_u8::<2, 2>();
const C_REINTERPRET_U8_2_3: Out = reinterpret_u8::<2, 3>();
const C_REINTERPRET_U8_2_4: Out = reinterpret_u8::<2, 4>();
const C_REINTERPRET_U8_2_8: Out = reinterpret_u8::<2, 8>();
const C_BYVALUE_U8_2: Out = byvalue_u8::<2>();
const C_NATIVE_CHUNKS_U8_2_0: Out = native_chunks_u8::<2, 0>();
const C_NATIVE_CHUNKS_U8_2_1: Out = native_chunks_u8::<2, 1>();
const C_NATIVE_CHUNKS_U8_2_2: Out = native_chunks_u8::<2, 2>();
const C_NATIVE_CHUNKS_U8_2_3: Out = native_chunks_u8::<2, 3>();
const C_CHUNKS_U8_3_0: Out = chunks_u8::<3, 0>();
const C_CHUNKS_MUT_U8_3_0: Out = chunks_mut_u8::<3, 0>();
const C_CHUNKS_U8_3_1: Out = chunks_u8::<3, 1>();
const C_CHUNKS_MUT_U8_3_1: Out = chunks_mut_u8::<3, 1>();
const C_CHUNKS_U8_3_2: Out = chunks_u8::<3, 2>();
const C_CHUNKS_MUT_U8_3_2: Out = chunks_mut_u8::<3, 2>();
const C_CHUNKS_U8_3_3: Out = chunks_u8::<3, 3>();
const C_CHUNKS_MUT_U8_3_3: Out = chunks_mut_u8::<3, 3>();
const C_CHUNKS_U8_3_4: Out = chunks_u8::<3, 4>();
const C_CHUNKS_MUT_U8_3_4: Out = chunks_mut_u8::<3, 4>();
const C_CHUNKS_U8_3_5: Out = chunks_u8::<3, 5>();
const C_CHUNKS_MUT_U8_3_5: Out = chunks_mut_u8::<3, 5>();
const C_CHUNKS_U8_3_6: Out = chunks_u8::<3, 6>();
const C_CHUNKS_MUT_U8_3_6: Out = chunks_mut_u8::<3, 6>();
const C_CHUNKS_U8_3_7: Out = chunks_u8::<3, 7>();
const C_CHUNKS_MUT_U8_3_7: Out = chunks_mut_u8::<3, 7>();
const C_CHUNKS_U8_3_8: Out = chunks_u8::<3, 8>();
const C_CHUNKS_MUT_U8_3_8: Out = chunks_mut_u8::<3, 8>();
const C_CHUNKS_U8_3_9: Out = chunks_u8::<3, 9>();
const C_CHUNKS_MUT_U8_3_9: Out = chunks_mut_u8::<3, 9>();
const C_CHUNKS_U8_3_10: Out = chunks_u8::<3, 10>();
const C_CHUNKS_MUT_U8_3_10: Out = chunks_mut_u8::<3, 10>();
const C_CHUNKS_U8_3_11: Out = chunks_u8::<3, 11>();
const C_CHUNKS_MUT_U8_3_11: Out = chunks_mut_u8::<3, 11>();
const C_REINTERPRET_U8_3_0: Out = reinterpret_u8::<3, 0>();
const C_REINTERPRET_U8_3_1: Out = reinterpret_u8::<3, 1>();
const C_REINTERPRET_U8_3_2: Out = reinterpret_u8::<3, 2>();
const C_REINTERPRET_U8_3_3: Out = reinterpret_u8::<3, 3>();
const C_REINTERPRET_U8_3_4: Out = reinterpret_u8::<3, 4>();
const C_REINTERPRET_U8_3_6: Out = reinterpret_u8::<3, 6>();
const C_REINTERPRET_U8_3_11: Out = reinterpret_u8::<3, 11>();
const C_BYVALUE_U8_3: Out = byvalue_u8::<3>();
const C_NATIVE_CHUNKS_U8_3_0: Out = native_chunks_u8::<3, 0>();
const C_NATIVE_CHUNKS_U8_3_1: Out = native_chunks_u8::<3, 1>();
const C_NATIVE_CHUNKS_U8_3_2: Out = native_chunks_u8::<3, 2>();
const C_NATIVE_CHUNKS_U8_3_3: Out = native_chunks_u8::<3, 3>();
const C_CHUNKS_U8_7_0: Out = chunks_u8::<7, 0>();
const C_CHUNKS_MUT_U8_7_0: Out = chunks_mut_u8::<7, 0>();
const C_CHUNKS_U8_7_1: Out = chunks_u8::<7, 1>();
const C_CHUNKS_MUT_U8_7_1: Out = chunks_mut_u8::<7, 1>();
const C_CHUNKS_U8_7_2: Out = chunks_u8::<7, 2>();
const C_CHUNKS_MUT_U8_7_2: Out = chunks_mut_u8::<7, 2>();
const C_CHUNKS_U8_7_3: Out = chunks_u8::<7, 3>();
const C_CHUNKS_MUT_U8_7_3: Out = chunks_mut_u8::<7, 3>();
const C_CHUNKS_U8_7_4: Out = chunks_u8::<7, 4>();
const C_CHUNKS_MUT_U8_7_4: Out = chunks_mut_u8::<7, 4>();
const C_CHUNKS_U8_7_5: Out = chunks_u8::<7, 5>();
const C_CHUNKS_MUT_U8_7_5: Out = chunks_mut_u8::<7, 5>();
const C_CHUNKS_U8_7_6: Out = chunks_u8::<7, 6>();
const C_CHUNKS_MUT_U8_7_6: Out = chunks_mut_u8::<7, 6>();
const C_CHUNKS_U8_7_7: Out = chunks_u8::<7, 7>();
const C_CHUNKS_MUT_U8_7_7: Out = chunks_mut_u8::<7, 7>();
const C_CHUNKS_U8_7_8: Out = chunks_u8::<7, 8>();
const C_CHUNKS_MUT_U8_7_8: Out = chunks_mut_u8::<7, 8>();
const C_CHUNKS_U8_7_9: Out = chunks_u8::<7, 9>();
const C_CHUNKS_MUT_U8_7_9: Out = chunks_mut_u8::<7, 9>();
const C_CHUNKS_U8_7_10: Out = chunks_u8::<7, 10>();
const C_CHUNKS_MUT_U8_7_10: Out = chunks_mut_u8::<7, 10>();
const C_CHUNKS_U8_7_11: Out = chunks_u8::<7, 11>();
const C_CHUNKS_MUT_U8_7_11: Out = chunks_mut_u8::<7, 11>();
const C_CHUNKS_U8_7_12: Out = chunks_u8::<7, 12>();
const C_CHUNKS_MUT_U8_7_12: Out = chunks_mut_u8::<7, 12>();
const C_CHUNKS_U8_7_13: Out = chunks_u8::<7, 13>();
const C_CHUNKS_MUT_U8_7_13: Out = chunks_mut_u8::<7, 13>();
const C_CHUNKS_U8_7_14: Out = chunks_u8::<7, 14>();
const C_CHUNKS_MUT_U8_7_14: Out = chunks_mut_u8::<7, 14>();
const C_CHUNKS_U8_7_15: Out = chunks_u8::<7, 15>();
const C_CHUNKS_MUT_U8_7_15: Out = chunks_mut_u8::<7, 15>();
const C_CHUNKS_U8_7_16: Out = chunks_u8::<7, 16>();
const C_CHUNKS_MUT_U8_7_16: Out = chunks_mut_u8::<7, 16>();
const C_CHUNKS_U8_7_17: Out = chunks_u8::<7, 17>();
const C_CHUNKS_MUT_U8_7_17: Out = chunks_mut_u8::<7, 17>();
const C_CHUNKS_U8_7_18: Out = chunks_u8::<7, 18>();
const C_CHUNKS_MUT_U8_7_18: Out = chunks_mut_u8::<7, 18>();
const C_CHUNKS_U8_7_19: Out = chunks_u8::<7, 19>();
const C_CHUNKS_MUT_U8_7_19: Out = chunks_mut_u8::<7, 19>();
const C_CHUNKS_U8_7_20: Out = chunks_u8::<7, 20>();
const C_CHUNKS_MUT_U8_7_20: Out = chunks_mut_u8::<7, 20>();
const C_CHUNKS_U8_7_21: Out = chunks_u8::<7, 21>();
const C_CHUNKS_MUT_U8_7_21: Out = chunks_mut_u8::<7, 21>();
const C_CHUNKS_U8_7_22: Out = chunks_u8::<7, 22>();
const C_CHUNKS_MUT_U8_7_22: Out = chunks_mut_u8::<7, 22>();
const C_CHUNKS_U8_7_23: Out = chunks_u8::<7, 23>();
const C_CHUNKS_MUT_U8_7_23: Out = chunks_mut_u8::<7, 23>();
const C_REINTERPRET_U8_7_0: Out = reinterpret_u8::<7, 0>();
const C_REINTERPRET_U8_7_1: Out = reinterpret_u8::<7, 1>();
const C_REINTERPRET_U8_7_6: Out = reinterpret_u8::<7, 6>();
const C_REINTERPRET_U8_7_7: Out = reinterpret_u8::<7, 7>();
const C_REINTERPRET_U8_7_8: Out = reinterpret_u8::<7, 8>();
const C_REINTERPRET_U8_7_14: Out = reinterpret_u8::<7, 14>();
const C_REINTERPRET_U8_7_23: Out = reinterpret_u8::<7, 23>();
const C_BYVALUE_U8_7: Out = byvalue_u8::<7>();
const C_NATIVE_CHUNKS_U8_7_0: Out = native_chunks_u8::<7, 0>();
const C_NATIVE_CHUNKS_U8_7_1: Out = native_chunks_u8::<7, 1>();
const C_NATIVE_CHUNKS_U8_7_2: Out = native_chunks_u8::<7, 2>();
const C_NATIVE_CHUNKS_U8_7_3: Out = native_chunks_u8::<7, 3>();
const C_CHUNKS_U8_8_0: Out = chunks_u8::<8, 0>();
const C_CHUNKS_MUT_U8_8_0: Out = chunks_mut_u8::<8, 0>();
const C_CHUNKS_U8_8_1: Out = chunks_u8::<8, 1>();
const C_CHUNKS_MUT_U8_8_1: Out = chunks_mut_u8::<8, 1>();
const C_CHUNKS_U8_8_2: Out = chunks_u8::<8, 2>();
const C_CHUNKS_MUT_U8_8_2: Out = chunks_mut_u8::<8, 2>();
const C_CHUNKS_U8_8_3: Out = chunks_u8::<8, 3>();
const C_CHUNKS_MUT_U8_8_3: Out = chunks_mut_u8::<8, 3>();
const C_CHUNKS_U8_8_4: Out = chunks_u8::<8, 4>();
const C_CHUNKS_MUT_U8_8_4: Out = chunks_mut_u8::<8, 4>();
const C_CHUNKS_U8_8_5: Out = chunks_u8::<8, 5>();
const C_CHUNKS_MUT_U8_8_5: Out = chunks_mut_u8::<8, 5>();
const C_CHUNKS_U8_8_6: Out = chunks_u8::<8, 6>();
const C_CHUNKS_MUT_U8_8_6: Out = chunks_mut_u8::<8, 6>();
const C_CHUNKS_U8_8_7: Out = chunks_u8::<8, 7>();
const C_CHUNKS_MUT_U8_8_7: Out = chunks_mut_u8::<8, 7>();
const C_CHUNKS_U8_8_8: Out = chunks_u8::<8, 8>();
const C_CHUNKS_MUT_U8_8_8: Out = chunks_mut_u8::<8, 8>();
const C_CHUNKS_U8_8_9: Out = chunks_u8::<8, 9>();
const C_CHUNKS_MUT_U8_8_9: Out = chunks_mut_u8::<8, 9>();
const C_CHUNKS_U8_8_10: Out = chunks_u8::<8, 10>();
const C_CHUNKS_MUT_U8_8_10: Out = chunks_mut_u8::<8, 10>();
const C_CHUNKS_U8_8_11: Out = chunks_u8::<8, 11>();
const C_CHUNKS_MUT_U8_8_11: Out = chunks_mut_u8::<8, 11>();
const C_CHUNKS_U8_8_12: Out = chunks_u8::<8, 12>();
const C_CHUNKS_MUT_U8_8_12: Out = chunks_mut_u8::<8, 12>();
const C_CHUNKS_U8_8_13: Out = chunks_u8::<8, 13>();
const C_CHUNKS_MUT_U8_8_13: Out = chunks_mut_u8::<8, 13>();
const C_CHUNKS_U8_8_14: Out = chunks_u8::<8, 14>();
const C_CHUNKS_MUT_U8_8_14: Out = chunks_mut_u8::<8, 14>();
const C_CHUNKS_U8_8_15: Out = chunks_u8::<8, 15>();
const C_CHUNKS_MUT_U8_8_15: Out = chunks_mut_u8::<8, 15>();
const C_CHUNKS_U8_8_16: Out = chunks_u8::<8, 16>();
const C_CHUNKS_MUT_U8_8_16: Out = chunks_mut_u8::<8, 16>();
const C_CHUNKS_U8_8_17: Out = chunks_u8::<8, 17>();
const C_CHUNKS_MUT_U8_8_17: Out = chunks_mut_u8::<8, 17>();
const C_CHUNKS_U8_8_18: Out = chunks_u8::<8, 18>();
const C_CHUNKS_MUT_U8_8_18: Out = chunks_mut_u8::<8, 18>();
const C_CHUNKS_U8_8_19: Out = chunks_u8::<8, 19>();
const C_CHUNKS_MUT_U8_8_19: Out = chunks_mut_u8::<8, 19>();
const C_CHUNKS_U8_8_20: Out = chunks_u8::<8, 20>();
const C_CHUNKS_MUT_U8_8_20: Out = chunks_mut_u8::<8, 20>();
const C_CHUNKS_U8_8_21: Out = chunks_u8::<8, 21>();
const C_CHUNKS_MUT_U8_8_21: Out = chunks_mut_u8::<8, 21>();
const C_CHUNKS_U8_8_22: Out = chunks_u8::<8, 22>();
const C_CHUNKS_MUT_U8_8_22: Out = chunks_mut_u8::<8, 22>();
const C_CHUNKS_U8_8_23: Out = chunks_u8::<8, 23>();
const C_CHUNKS_MUT_U8_8_23: Out = chunks_mut_u8::<8, 23>();
const C_CHUNKS_U8_8_24: Out = chunks_u8::<8, 24>();
const C_CHUNKS_MUT_U8_8_24: Out = chunks_mut_u8::<8, 24>();
const C_CHUNKS_U8_8_25: Out = chunks_u8::<8, 25>();
const C_CHUNKS_MUT_U8_8_25: Out = chunks_mut_u8::<8, 25>();
const C_CHUNKS_U8_8_26: Out = chunks_u8::<8, 26>();
const C_CHUNKS_MUT_U8_8_26: Out = chunks_mut_u8::<8, 26>();
const C_REINTERPRET_U8_8_0: Out = reinterpret_u8::<8, 0>();
const C_REINTERPRET_U8_8_1: Out = reinterpret_u8::<8, 1>();
const C_REINTERPRET_U8_8_7: Out = reinterpret_u8::<8, 7>();
const C_REINTERPRET_U8_8_8: Out = reinterpret_u8::<8, 8>();
const C_REINTERPRET_U8_8_9: Out = reinterpret_u8::<8, 9>();
const C_REINTERPRET_U8_8_16: Out = reinterpret_u8::<8, 16>();
const C_REINTERPRET_U8_8_26: Out = reinterpret_u8::<8, 26>();
const C_BYVALUE_U8_8: Out = byvalue_u8::<8>();
const C_NATIVE_CHUNKS_U8_8_0: Out = native_chunks_u8::<8, 0>();
const C_NATIVE_CHUNKS_U8_8_1: Out = native_chunks_u8::<8, 1>();
const C_NATIVE_CHUNKS_U8_8_2: Out = native_chunks_u8::<8, 2>();
const C_NATIVE_CHUNKS_U8_8_3: Out = native_chunks_u8::<8, 3>();
const C_CHUNKS_U8_16_0: Out = chunks_u8::<16, 0>();
const C_CHUNKS_MUT_U8_16_0: Out = chunks_mut_u8::<16, 0>();
const C_CHUNKS_U8_16_1: Out = chunks_u8::<16, 1>();
const C_CHUNKS_MUT_U8_16_1: Out = chunks_mut_u8::<16, 1>();
const C_CHUNKS_U8_16_2: Out = chunks_u8::<16, 2>();
const C_CHUNKS_MUT_U8_16_2: Out = chunks_mut_u8::<16, 2>();
const C_CHUNKS_U8_16_3: Out = chunks_u8::<16, 3>();
const C_CHUNKS_MUT_U8_16_3: Out = chunks_mut_u8::<16, 3>();
const C_CHUNKS_U8_16_4: Out = chunks_u8::<16, 4>();
const C_CHUNKS_MUT_U8_16_4: Out = chunks_mut_u8::<16, 4>();
const C_CHUNKS_U8_16_5: Out = chunks_u8::<16, 5>();
const C_CHUNKS_MUT_U8_16_5: Out = chunks_mut_u8::<16, 5>();
const C_CHUNKS_U8_16_6: Out = chunks_u8::<16, 6>();
const C_CHUNKS_MUT_U8_16_6: Out = chunks_mut_u8::<16, 6>();
const C_CHUNKS_U8_16_7: Out = chunks_u8::<16, 7>();
const C_CHUNKS_MUT_U8_16_7: Out = chunks_mut_u8::<16, 7>();
const C_CHUNKS_U8_16_8: Out = chunks_u8::<16, 8>();
const C_CHUNKS_MUT_U8_16_8: Out = chunks_mut_u8::<16, 8>();
const C_CHUNKS_U8_16_9: Out = chunks_u8::<16, 9>();
const C_CHUNKS_MUT_U8_16_9: Out = chunks_mut_u8::<16, 9>();
const C_CHUNKS_U8_16_10: Out = chunks_u8::<16, 10>();
const C_CHUNKS_MUT_U8_16_10: Out = chunks_mut_u8::<16, 10>();
const C_CHUNKS_U8_16_11: Out = chunks_u8::<16, 11>();
const C_CHUNKS_MUT_U8_16_11: Out = chunks_mut_u8::<16, 11>();
const C_CHUNKS_U8_16_12: Out = chunks_u8::<16, 12>();
const C_CHUNKS_MUT_U8_16_12: Out = chunks_mut_u8::<16, 12>();
const C_CHUNKS_U8_16_13: Out = chunks_u8::<16, 13>();
const C_CHUNKS_MUT_U8_16_13: Out = chunks_mut_u8::<16, 13>();
const C_CHUNKS_U8_16_14: Out = chunks_u8::<16, 14>();
const C_CHUNKS_MUT_U8_16_14: Out = chunks_mut_u8::<16, 14>();
const C_CHUNKS_U8_16_15: Out = chunks_u8::<16, 15>();
const C_CHUNKS_MUT_U8_16_15: Out = chunks_mut_u8::<16, 15>();
const C_CHUNKS_U8_16_16: Out = chunks_u8::<16, 16>();
const C_CHUNKS_MUT_U8_16_16: Out = chunks_mut_u8::<16, 16>();
const C_CHUNKS_U8_16_17: Out = chunks_u8::<16, 17>();
const C_CHUNKS_MUT_U8_16_17: Out = chunks_mut_u8::<16, 17>();
const C_CHUNKS_U8_16_18: Out = chunks_u8::<16, 18>();
const C_CHUNKS_MUT_U8_16_18: Out = chunks_mut_u8::<16, 18>();
const C_CHUNKS_U8_16_19: Out = chunks_u8::<16, 19>();
const C_CHUNKS_MUT_U8_16_19: Out = chunks_mut_u8::<16, 19>();
const C_CHUNKS_U8_16_20: Out = chunks_u8::<16, 20>();
const C_CHUNKS_MUT_U8_16_20: Out = chunks_mut_u8::<16, 20>();
const C_CHUNKS_U8_16_21: Out = chunks_u8::<16, 21>();
const C_CHUNKS_MUT_U8_16_21: Out = chunks_mut_u8::<16, 21>();
const C_CHUNKS_U8_16_22: Out = chunks_u8::<16, 22>();
const C_CHUNKS_MUT_U8_16_22: Out = chunks_mut_u8::<16, 22>();
const C_CHUNKS_U8_16_23: Out = chunks_u8::<16, 23>();
const C_CHUNKS_MUT_U8_16_23: Out = chunks_mut_u8::<16, 23>();
const C_CHUNKS_U8_16_24: Out = chunks_u8::<16, 24>();
const C_CHUNKS_MUT_U8_16_24: Out = chunks_mut_u8::<16, 24>();
const C_CHUNKS_U8_16_25: Out = chunks_u8::<16, 25>();
const C_CHUNKS_MUT_U8_16_25: Out = chunks_mut_u8::<16, 25>();
const C_CHUNKS_U8_16_26: Out = chunks_u8::<16, 26>();
const C_CHUNKS_MUT_U8_16_26: Out = chunks_mut_u8::<16, 26>();
const C_CHUNKS_U8_16_27: Out = chunks_u8::<16, 27>();
const C_CHUNKS_MUT_U8_16_27: Out = chunks_mut_u8::<16, 27>();
const C_CHUNKS_U8_16_28: Out = chunks_u8::<16, 28>();
const C_CHUNKS_MUT_U8_16_28: Out = chunks_mut_u8::<16, 28>();
const C_CHUNKS_U8_16_29: Out = chunks_u8::<16, 29>();
const C_CHUNKS_MUT_U8_16_29: Out = chunks_mut_u8::<16, 29>();
const C_CHUNKS_U8_16_30: Out = chunks_u8::<16, 30>();
const C_CHUNKS_MUT_U8_16_30: Out = chunks_mut_u8::<16, 30>();
const C_CHUNKS_U8_16_31: Out = chunks_u8::<16, 31>();
const C_CHUNKS_MUT_U8_16_31: Out = chunks_mut_u8::<16, 31>();
const C_CHUNKS_U8_16_32: Out = chunks_u8::<16, 32>();
const C_CHUNKS_MUT_U8_16_32: Out = chunks_mut_u8::<16, 32>();
const C_CHUNKS_U8_16_33: Out = chunks_u8::<16, 33>();
const C_CHUNKS_MUT_U8_16_33: Out = chunks_mut_u8::<16, 33>();
const C_CHUNKS_U8_16_34: Out = chunks_u8::<16, 34>();
const C_CHUNKS_MUT_U8_16_34: Out = chunks_mut_u8::<16, 34>();
const C_CHUNKS_U8_16_35: Out = chunks_u8::<16, 35>();
const C_CHUNKS_MUT_U8_16_35: Out = chunks_mut_u8::<16, 35>();
const C_CHUNKS_U8_16_36: Out = chunks_u8::<16, 36>();
const C_CHUNKS_MUT_U8_16_36: Out = chunks_mut_u8::<16, 36>();
const C_CHUNKS_U8_16_37: Out = chunks_u8::<16, 37>();
const C_CHUNKS_MUT_U8_16_37: Out = chunks_mut_u8::<16, 37>();
const C_CHUNKS_U8_16_38: Out = chunks_u8::<16, 38>();
const C_CHUNKS_MUT_U8_16_38: Out = chunks_mut_u8::<16, 38>();
const C_CHUNKS_U8_16_39: Out = chunks_u8::<16, 39>();
const C_CHUNKS_MUT_U8_16_39: Out = chunks_mut_u8::<16, 39>();
const C_CHUNKS_U8_16_40: Out = chunks_u8::<16, 40>();
const C_CHUNKS_MUT_U8_16_40: Out = chunks_mut_u8::<16, 40>();
const C_CHUNKS_U8_16_41: Out = chunks_u8::<16, 41>();
const C_CHUNKS_MUT_U8_16_41: Out = chunks_mut_u8::<16, 41>();
const C_CHUNKS_U8_16_42: Out = chunks_u8::<16, 42>();
const C_CHUNKS_MUT_U8_16_42: Out = chunks_mut_u8::<16, 42>();
const C_CHUNKS_U8_16_43: Out = chunks_u8::<16, 43>();
const C_CHUNKS_MUT_U8_16_43: Out = chunks_mut_u8::<16, 43>();
const C_CHUNKS_U8_16_44: Out = chunks_u8::<16, 44>();
const C_CHUNKS_MUT_U8_16_44: Out = chunks_mut_u8::<16, 44>();
const C_CHUNKS_U8_16_45: Out = chunks_u8::<16, 45>();
const C_CHUNKS_MUT_U8_16_45: Out = chunks_mut_u8::<16, 45>();
const C_CHUNKS_U8_16_46: Out = chunks_u8::<16, 46>();
const C_CHUNKS_MUT_U8_16_46: Out = chunks_mut_u8::<16, 46>();
const C_CHUNKS_U8_16_47: Out = chunks_u8::<16, 47>();
const C_CHUNKS_MUT_U8_16_47: Out = chunks_mut_u8::<16, 47>();
const C_CHUNKS_U8_16_48: Out = chunks_u8::<16, 48>();
const C_CHUNKS_MUT_U8_16_48: Out = chunks_mut_u8::<16, 48>();
const C_CHUNKS_U8_16_49: Out = chunks_u8::<16, 49>();
const C_CHUNKS_MUT_U8_16_49: Out = chunks_mut_u8::<16, 49>();
const C_CHUNKS_U8_16_50: Out = chunks_u8::<16, 50>();
const C_CHUNKS_MUT_U8_16_50: Out = chunks_mut_u8::<16, 50>();
const C_REINTERPRET_U8_16_0: Out = reinterpret_u8::<16, 0>();
const C_REINTERPRET_U8_16_1: Out = reinterpret_u8::<16, 1>();
const C_REINTERPRET_U8_16_15: Out = reinterpret_u8::<16, 15>();
const C_REINTERPRET_U8_16_16: Out = reinterpret_u8::<16, 16>();
const C_REINTERPRET_U8_16_17: Out = reinterpret_u8::<16, 17>();
const C_REINTERPRET_U8_16_32: Out = reinterpret_u8::<16, 32>();
const C_REINTERPRET_U8_16_50: Out = reinterpret_u8::<16, 50>();
const C_BYVALUE_U8_16: Out = byvalue_u8::<16>();
const C_NATIVE_CHUNKS_U8_16_0: Out = native_chunks_u8::<16, 0>();
const C_NATIVE_CHUNKS_U8_16_1: Out = native_chunks_u8::<16, 1>();
const C_NATIVE_CHUNKS_U8_16_2: Out = native_chunks_u8::<16, 2>();
const C_NATIVE_CHUNKS_U8_16_3: Out = native_chunks_u8::<16, 3>();
const C_CHUNKS_U8_17_0: Out = chunks_u8::<17, 0>();
const C_CHUNKS_MUT_U8_17_0: Out = chunks_mut_u8::<17, 0>();
const C_CHUNKS_U8_17_1: Out = chunks_u8::<17, 1>();
const C_CHUNKS_MUT_U8_17_1: Out = chunks_mut_u8::<17, 1>();
const C_CHUNKS_U8_17_2: Out = chunks_u8::<17, 2>();
const C_CHUNKS_MUT_U8_17_2: Out = chunks_mut_u8::<17, 2>();
const C_CHUNKS_U8_17_3: Out = chunks_u8::<17, 3>();
const C_CHUNKS_MUT_U8_17_3: Out = chunks_mut_u8::<17, 3>();
const C_CHUNKS_U8_17_4: Out = chunks_u8::<17, 4>();
const C_CHUNKS_MUT_U8_17_4: Out = chunks_mut_u8::<17, 4>();
const C_CHUNKS_U8_17_5: Out = chunks_u8::<17, 5>();
const C_CHUNKS_MUT_U8_17_5: Out = chunks_mut_u8::<17, 5>();
const C_CHUNKS_U8_17_6: Out = chunks_u8::<17, 6>();
const C_CHUNKS_MUT_U8_17_6: Out = chunks_mut_u8::<17, 6>();
const C_CHUNKS_U8_17_7: Out = chunks_u8::<17, 7>();
const C_CHUNKS_MUT_U8_17_7: Out = chunks_mut_u8::<17, 7>();
const C_CHUNKS_U8_17_8: Out = chunks_u8::<17, 8>();
const C_CHUNKS_MUT_U8_17_8: Out = chunks_mut_u8::<17, 8>();
const C_CHUNKS_U8_17_9: Out = chunks_u8::<17, 9>();
const C_CHUNKS_MUT_U8_17_9: Out = chunks_mut_u8::<17, 9>();
const C_CHUNKS_U8_17_10: Out = chunks_u8::<17, 10>();
const C_CHUNKS_MUT_U8_17_10: Out = chunks_mut_u8::<17, 10>();
const C_CHUNKS_U8_17_11: Out = chunks_u8::<17, 11>();
const C_CHUNKS_MUT_U8_17_11: Out = chunks_mut_u8::<17, 11>();
const C_CHUNKS_U8_17_12: Out = chunks_u8::<17, 12>();
const C_CHUNKS_MUT_U8_17_12: Out = chunks_mut_u8::<17, 12>();
const C_CHUNKS_U8_17_13: Out = chunks_u8::<17, 13>();
const C_CHUNKS_MUT_U8_17_13: Out = chunks_mut_u8::<17, 13>();
const C_CHUNKS_U8_17_14: Out = chunks_u8::<17, 14>();
const C_CHUNKS_MUT_U8_17_14: Out = chunks_mut_u8::<17, 14>();
const C_CHUNKS_U8_17_15: Out = chunks_u8::<17, 15>();
const C_CHUNKS_MUT_U8_17_15: Out = chunks_mut_u8::<17, 15>();
const C_CHUNKS_U8_17_16: Out = chunks_u8::<17, 16>();
const C_CHUNKS_MUT_U8_17_16: Out = chunks_mut_u8::<17, 16>();
const C_CHUNKS_U8_17_17: Out = chunks_u8::<17, 17>();
const C_CHUNKS_MUT_U8_17_17: Out = chunks_mut_u8::<17, 17>();
const C_CHUNKS_U8_17_18: Out = chunks_u8::<17, 18>();
const C_CHUNKS_MUT_U8_17_18: Out = chunks_mut_u8::<17, 18>();
const C_CHUNKS_U8_17_19: Out = chunks_u8::<17, 19>();
const C_CHUNKS_MUT_U8_17_19: Out = chunks_mut_u8::<17, 19>();
const C_CHUNKS_U8_17_20: Out = chunks_u8::<17, 20>();
const C_CHUNKS_MUT_U8_17_20: Out = chunks_mut_u8::<17, 20>();
const C_CHUNKS_U8_17_21: Out = chunks_u8::<17, 21>();
const C_CHUNKS_MUT_U8_17_21: Out = chunks_mut_u8::<17, 21>();
const C_CHUNKS_U8_17_22: Out = chunks_u8::<17, 22>();
const C_CHUNKS_MUT_U8_17_22: Out = chunks_mut_u8::<17, 22>();
const C_CHUNKS_U8_17_23: Out = chunks_u8::<17, 23>();
const C_CHUNKS_MUT_U8_17_23: Out = chunks_mut_u8::<17, 23>();
const C_CHUNKS_U8_17_24: Out = chunks_u8::<17, 24>();
const C_CHUNKS_MUT_U8_17_24: Out = chunks_mut_u8::<17, 24>();
const C_CHUNKS_U8_17_25: Out = chunks_u8::<17, 25>();
const C_CHUNKS_MUT_U8_17_25: Out = chunks_mut_u8::<17, 25>();
const C_CHUNKS_U8_17_26: Out = chunks_u8::<17, 26>();
const C_CHUNKS_MUT_U8_17_26: Out = chunks_mut_u8::<17, 26>();
const C_CHUNKS_U8_17_27: Out = chunks_u8::<17, 27>();
const C_CHUNKS_MUT_U8_17_27: Out = chunks_mut_u8::<17, 27>();
const C_CHUNKS_U8_17_28: Out = chunks_u8::<17, 28>();
const C_CHUNKS_MUT_U8_17_28: Out = chunks_mut_u8::<17, 28>();
const C_CHUNKS_U8_17_29: Out = chunks_u8::<17, 29>();
const C_CHUNKS_MUT_U8_17_29: Out = chunks_mut_u8::<17, 29>();
const C_CHUNKS_U8_17_30: Out = chunks_u8::<17, 30>();
const C_CHUNKS_MUT_U8_17_30: Out = chunks_mut_u8::<17, 30>();
const C_CHUNKS_U8_17_31: Out = chunks_u8::<17, 31>();
const C_CHUNKS_MUT_U8_17_31: Out = chunks_mut_u8::<17, 31>();
const C_CHUNKS_U8_17_32: Out = chunks_u8::<17, 32>();
const C_CHUNKS_MUT_U8_17_32: Out = chunks_mut_u8::<17, 32>();
const C_CHUNKS_U8_17_33: Out = chunks_u8::<17, 33>();
const C_CHUNKS_MUT_U8_17_33: Out = chunks_mut_u8::<17, 33>();
const C_CHUNKS_U8_17_34: Out = chunks_u8::<17, 34>();
const C_CHUNKS_MUT_U8_17_34: Out = chunks_mut_u8::<17, 34>();
const C_CHUNKS_U8_17_35: Out = chunks_u8::<17, 35>();
const C_CHUNKS_MUT_U8_17_35: Out = chunks_mut_u8::<17, 35>();
const C_CHUNKS_U8_17_36: Out = chunks_u8::<17, 36>();
const C_CHUNKS_MUT_U8_17_36: Out = chunks_mut_u8::<17, 36>();
const C_CHUNKS_U8_17_37: Out = chunks_u8::<17, 37>();
const C_CHUNKS_MUT_U8_17_37: Out = chunks_mut_u8::<17, 37>();
const C_CHUNKS_U8_17_38: Out = chunks_u8::<17, 38>();
const C_CHUNKS_MUT_U8_17_38: Out = chunks_mut_u8::<17, 38>();
const C_CHUNKS_U8_17_39: Out = chunks_u8::<17, 39>();
const C_CHUNKS_MUT_U8_17_39: Out = chunks_mut_u8::<17, 39>();
const C_CHUNKS_U8_17_40: Out = chunks_u8::<17, 40>();
const C_CHUNKS_MUT_U8_17_40: Out = chunks_mut_u8::<17, 40>();
const C_CHUNKS_U8_17_41: Out = chunks_u8::<17, 41>();
const C_CHUNKS_MUT_U8_17_41: Out = chunks_mut_u8::<17, 41>();
const C_CHUNKS_U8_17_42: Out = chunks_u8::<17, 42>();
const C_CHUNKS_MUT_U8_17_42: Out = chunks_mut_u8::<17, 42>();
const C_CHUNKS_U8_17_43: Out = chunks_u8::<17, 43>();
const C_CHUNKS_MUT_U8_17_43: Out = chunks_mut_u8::<17, 43>();
const C_CHUNKS_U8_17_44: Out = chunks_u8::<17, 44>();
const C_CHUNKS_MUT_U8_17_44: Out = chunks_mut_u8::<17, 44>();
const C_CHUNKS_U8_17_45: Out = chunks_u8::<17, 45>();
const C_CHUNKS_MUT_U8_17_45: Out = chunks_mut_u8::<17, 45>();
const C_CHUNKS_U8_17_46: Out = chunks_u8::<17, 46>();
const C_CHUNKS_MUT_U8_17_46: Out = chunks_mut_u8::<17, 46>();
const C_CHUNKS_U8_17_47: Out = chunks_u8::<17, 47>();
const C_CHUNKS_MUT_U8_17_47: Out = chunks_mut_u8::<17, 47>();
const C_CHUNKS_U8_17_48: Out = chunks_u8::<17, 48>();
const C_CHUNKS_MUT_U8_17_48: Out = chunks_mut_u8::<17, 48>();
const C_CHUNKS_U8_17_49: Out = chunks_u8::<17, 49>();
const C_CHUNKS_MUT_U8_17_49: Out = chunks_mut_u8::<17, 49>();
const C_CHUNKS_U8_17_50: Out = chunks_u8::<17, 50>();
const C_CHUNKS_MUT_U8_17_50: Out = chunks_mut_u8::<17, 50>();
const C_CHUNKS_U8_17_51: Out = chunks_u8::<17, 51>();
const C_CHUNKS_MUT_U8_17_51: Out = chunks_mut_u8::<17, 51>();
const C_CHUNKS_U8_17_52: Out = chunks_u8::<17, 52>();
const C_CHUNKS_MUT_U8_17_52: Out = chunks_mut_u8::<17, 52>();
const C_CHUNKS_U8_17_53: Out = chunks_u8::<17, 53>();
const C_CHUNKS_MUT_U8_17_53: Out = chunks_mut_u8::<17, 53>();
const C_REINTERPRET_U8_17_0: Out = reinterpret_u8::<17, 0>();
const C_REINTERPRET_U8_17_1: Out = reinterpret_u8::<17, 1>();
const C_REINTERPRET_U8_17_16: Out = reinterpret_u8::<17, 16>();
const C_REINTERPRET_U8_17_17: Out = reinterpret_u8::<17, 17>();
const C_REINTERPRET_U8_17_18: Out = reinterpret_u8::<17, 18>();
const C_REINTERPRET_U8_17_34: Out = reinterpret_u8::<17, 34>();
const C_REINTERPRET_U8_17_53: Out = reinterpret_u8::<17, 53>();
const C_BYVALUE_U8_17: Out = byvalue_u8::<17>();
const C_NATIVE_CHUNKS_U8_17_0: Out = native_chunks_u8::<17, 0>();
const C_NATIVE_CHUNKS_U8_17_1: Out = native_chunks_u8::<17, 1>();
const C_NATIVE_CHUNKS_U8_17_2: Out = native_chunks_u8::<17, 2>();
const C_NATIVE_CHUNKS_U8_17_3: Out = native_chunks_u8::<17, 3>();
const C_CHUNKS_U8_33_0: Out = chunks_u8::<33, 0>();
const C_CHUNKS_MUT_U8_33_0: Out = chunks_mut_u8::<33, 0>();
const C_CHUNKS_U8_33_1: Out = chunks_u8::<33, 1>();
const C_CHUNKS_MUT_U8_33_1: Out = chunks_mut_u8::<33, 1>();
const C_CHUNKS_U8_33_32: Out = chunks_u8::<33, 32>();
const C_CHUNKS_MUT_U8_33_32: Out = chunks_mut_u8::<33, 32>();
const C_CHUNKS_U8_33_33: Out = chunks_u8::<33, 33>();
const C_CHUNKS_MUT_U8_33_33: Out = chunks_mut_u8::<33, 33>();
const C_CHUNKS_U8_33_34: Out = chunks_u8::<33, 34>();
const C_CHUNKS_MUT_U8_33_34: Out = chunks_mut_u8::<33, 34>();
const C_CHUNKS_U8_33_65: Out = chunks_u8::<33, 65>();
const C_CHUNKS_MUT_U8_33_65: Out = chunks_mut_u8::<33, 65>();
const C_CHUNKS_U8_33_66: Out = chunks_u8::<33, 66>();
const C_CHUNKS_MUT_U8_33_66: Out = chunks_mut_u8::<33, 66>();
const C_CHUNKS_U8_33_67: Out = chunks_u8::<33, 67>();
const C_CHUNKS_MUT_U8_33_67: Out = chunks_mut_u8::<33, 67>();
const C_CHUNKS_U8_33_98: Out = chunks_u8::<33, 98>();
const C_CHUNKS_MUT_U8_33_98: Out = chunks_mut_u8::<33, 98>();
const C_CHUNKS_U8_33_99: Out = chunks_u8::<33, 99>();
const C_CHUNKS_MUT_U8_33_99: Out = chunks_mut_u8::<33, 99>();
const C_CHUNKS_U8_33_100: Out = chunks_u8::<33, 100>();
const C_CHUNKS_MUT_U8_33_100: Out = chunks_mut_u8::<33, 100>();
const C_CHUNKS_U8_33_101: Out = chunks_u8::<33, 101>();
const C_CHUNKS_MUT_U8_33_101: Out = chunks_mut_u8::<33, 101>();
const C_REINTERPRET_U8_33_0: Out = reinterpret_u8::<33, 0>();
const C_REINTERPRET_U8_33_1: Out = reinterpret_u8::<33, 1>();
const C_REINTERPRET_U8_33_32: Out = reinterpret_u8::<33, 32>();
const C_REINTERPRET_U8_33_33: Out = reinterpret_u8::<33, 33>();
const C_REINTERPRET_U8_33_34: Out = reinterpret_u8::<33, 34>();
const C_REINTERPRET_U8_33_66: Out = reinterpret_u8::<33, 66>();
const C_REINTERPRET_U8_33_101: Out = reinterpret_u8::<33, 101>();
const C_BYVALUE_U8_33: Out = byvalue_u8::<33>();
const C_NATIVE_CHUNKS_U8_33_0: Out = native_chunks_u8::<33, 0>();
const C_NATIVE_CHUNKS_U8_33_1: Out = native_chunks_u8::<33, 1>();
const C_NATIVE_CHUNKS_U8_33_2: Out = native_chunks_u8::<33, 2>();
const C_NATIVE_CHUNKS_U8_33_3: Out = native_chunks_u8::<33, 3>();
const C_CHUNKS_U8_64_0: Out = chunks_u8::<64, 0>();
const C_CHUNKS_MUT_U8_64_0: Out = chunks_mut_u8::<64, 0>();
const C_CHUNKS_U8_64_1: Out = chunks_u8::<64, 1>();
const C_CHUNKS_MUT_U8_64_1: Out = chunks_mut_u8::<64, 1>();
const C_CHUNKS_U8_64_63: Out = chunks_u8::<64, 63>();
const C_CHUNKS_MUT_U8_64_63: Out = chunks_mut_u8::<64, 63>();
const C_CHUNKS_U8_64_64: Out = chunks_u8::<64, 64>();
const C_CHUNKS_MUT_U8_64_64: Out = chunks_mut_u8::<64, 64>();
const C_CHUNKS_U8_64_65: Out = chunks_u8::<64, 65>();
const C_CHUNKS_MUT_U8_64_65: Out = chunks_mut_u8::<64, 65>();
const C_CHUNKS_U8_64_127: Out = chunks_u8::<64, 127>();
const C_CHUNKS_MUT_U8_64_127: Out = chunks_mut_u8::<64, 127>();
const C_CHUNKS_U8_64_128: Out = chunks_u8::<64, 128>();
const C_CHUNKS_MUT_U8_64_128: Out = chunks_mut_u8::<64, 128>();
const C_CHUNKS_U8_64_129: Out = chunks_u8::<64, 129>();
const C_CHUNKS_MUT_U8_64_129: Out = chunks_mut_u8::<64, 129>();
const C_CHUNKS_U8_64_191: Out = chunks_u8::<64, 191>();
const C_CHUNKS_MUT_U8_64_191: Out = chunks_mut_u8::<64, 191>();
const C_CHUNKS_U8_64_192: Out = chunks_u8::<64, 192>();
const C_CHUNKS_MUT_U8_64_192: Out = chunks_mut_u8::<64, 192>();
const C_CHUNKS_U8_64_193: Out = chunks_u8::<64, 193>();
const C_CHUNKS_MUT_U8_64_193: Out = chunks_mut_u8::<64, 193>();
const C_CHUNKS_U8_64_194: Out = chunks_u8::<64, 194>();
const C_CHUNKS_MUT_U8_64_194: Out = chunks_mut_u8::<64, 194>();
const C_REINTERPRET_U8_64_0: Out = reinterpret_u8::<64, 0>();
const C_REINTERPRET_U8_64_1: Out = reinterpret_u8::<64, 1>();
const C_REINTERPRET_U8_64_63: Out = reinterpret_u8::<64, 63>();
const C_REINTERPRET_U8_64_64: Out = reinterpret_u8::<64, 64>();
const C_REINTERPRET_U8_64_65: Out = reinterpret_u8::<64, 65>();
const C_REINTERPRET_U8_64_128: Out = reinterpret_u8::<64, 128>();
const C_REINTERPRET_U8_64_194: Out = reinterpret_u8::<64, 194>();
const C_BYVALUE_U8_64: Out = byvalue_u8::<64>();
const C_NATIVE_CHUNKS_U8_64_0: Out = native_chunks_u8::<64, 0>();
const C_NATIVE_CHUNKS_U8_64_1: Out = native_chunks_u8::<64, 1>();
const C_NATIVE_CHUNKS_U8_64_2: Out = native_chunks_u8::<64, 2>();
const C_NATIVE_CHUNKS_U8_64_3: Out = native_chunks_u8::<64, 3>();
const C_CHUNKS_U8_100_0: Out = chunks_u8::<100, 0>();
const C_CHUNKS_MUT_U8_100_0: Out = chunks_mut_u8::<100, 0>();
const C_CHUNKS_U8_100_1: Out = chunks_u8::<100, 1>();
const C_CHUNKS_MUT_U8_100_1: Out = chunks_mut_u8::<100, 1>();
const C_CHUNKS_U8_100_99: Out = chunks_u8::<100, 99>();
const C_CHUNKS_MUT_U8_100_99: Out = chunks_mut_u8::<100, 99>();
const C_CHUNKS_U8_100_100: Out = chunks_u8::<100, 100>();
const C_CHUNKS_MUT_U8_100_100: Out = chunks_mut_u8::<100, 100>();
const C_CHUNKS_U8_100_101: Out = chunks_u8::<100, 101>();
const C_CHUNKS_MUT_U8_100_101: Out = chunks_mut_u8::<100, 101>();
const C_CHUNKS_U8_100_199: Out = chunks_u8::<100, 199>();
const C_CHUNKS_MUT_U8_100_199: Out = chunks_mut_u8::<100, 199>();
const C_CHUNKS_U8_100_200: Out = chunks_u8::<100, 200>();
const C_CHUNKS_MUT_U8_100_200: Out = chunks_mut_u8::<100, 200>();
const C_CHUNKS_U8_100_201: Out = chunks_u8::<100, 201>();
const C_CHUNKS_MUT_U8_100_201: Out = chunks_mut_u8::<100, 201>();
const C_CHUNKS_U8_100_302: Out = chunks_u8::<100, 302>();
const C_CHUNKS_MUT_U8_100_302: Out = chunks_mut_u8::<100, 302>();
const C_REINTERPRET_U8_100_0: Out = reinterpret_u8::<100, 0>();
const C_REINTERPRET_U8_100_1: Out = reinterpret_u8::<100, 1>();
const C_REINTERPRET_U8_100_99: Out = reinterpret_u8::<100, 99>();
const C_REINTERPRET_U8_100_100: Out = reinterpret_u8::<100, 100>();
const C_REINTERPRET_U8_100_101: Out = reinterpret_u8::<100, 101>();
const C_REINTERPRET_U8_100_200: Out = reinterpret_u8::<100, 200>();
const C_REINTERPRET_U8_100_302: Out = reinterpret_u8::<100, 302>();
const C_BYVALUE_U8_100: Out = byvalue_u8::<100>();
const C_NATIVE_CHUNKS_U8_100_0: Out = native_chunks_u8::<100, 0>();
const C_NATIVE_CHUNKS_U8_100_1: Out = native_chunks_u8::<100, 1>();
const C_NATIVE_CHUNKS_U8_100_2: Out = native_chunks_u8::<100, 2>();
const C_NATIVE_CHUNKS_U8_100_3: Out = native_chunks_u8::<100, 3>();
const C_CHUNKS_U8_1024_0: Out = chunks_u8::<1024, 0>();
const C_CHUNKS_MUT_U8_1024_0: Out = chunks_mut_u8::<1024, 0>();
const C_CHUNKS_U8_1024_1: Out = chunks_u8::<1024, 1>();
const C_CHUNKS_MUT_U8_1024_1: Out = chunks_mut_u8::<1024, 1>();
const C_CHUNKS_U8_1024_1023: Out = chunks_u8::<1024, 1023>();
const C_CHUNKS_MUT_U8_1024_1023: Out = chunks_mut_u8::<1024, 1023>();
const C_CHUNKS_U8_1024_1024: Out = chunks_u8::<1024, 1024>();
const C_CHUNKS_MUT_U8_1024_1024: Out = chunks_mut_u8::<1024, 1024>();
const C_CHUNKS_U8_1024_1025: Out = chunks_u8::<1024, 1025>();
const C_CHUNKS_MUT_U8_1024_1025: Out = chunks_mut_u8::<1024, 1025>();
const C_CHUNKS_U8_1024_2047: Out = chunks_u8::<1024, 2047>();
const C_CHUNKS_MUT_U8_1024_2047: Out = chunks_mut_u8::<1024, 2047>();
const C_CHUNKS_U8_1024_2048: Out = chunks_u8::<1024, 2048>();
const C_CHUNKS_MUT_U8_1024_2048: Out = chunks_mut_u8::<1024, 2048>();
const C_CHUNKS_U8_1024_2049: Out = chunks_u8::<1024, 2049>();
const C_CHUNKS_MUT_U8_1024_2049: Out = chunks_mut_u8::<1024, 2049>();
const C_CHUNKS_U8_1024_3074: Out = chunks_u8::<1024, 3074>();
const C_CHUNKS_MUT_U8_1024_3074: Out = chunks_mut_u8::<1024, 3074>();
const C_REINTERPRET_U8_1024_0: Out = reinterpret_u8::<1024, 0>();
const C_REINTERPRET_U8_1024_1: Out = reinterpret_u8::<1024, 1>();
const C_REINTERPRET_U8_1024_1023: Out = reinterpret_u8::<1024, 1023>();
const C_REINTERPRET_U8_1024_1024: Out = reinterpret_u8::<1024, 1024>();
const C_REINTERPRET_U8_1024_1025: Out = reinterpret_u8::<1024, 1025>();
const C_REINTERPRET_U8_1024_2048: Out = reinterpret_u8::<1024, 2048>();
const C_REINTERPRET_U8_1024_3074: Out = reinterpret_u8::<1024, 3074>();
const C_BYVALUE_U8_1024: Out = byvalue_u8::<1024>();
const C_NATIVE_CHUNKS_U8_1024_0: Out = native_chunks_u8::<1024, 0>();
const C_NATIVE_CHUNKS_U8_1024_1: Out = native_chunks_u8::<1024, 1>();
const C_NATIVE_CHUNKS_U8_1024_2: Out = native_chunks_u8::<1024, 2>();
const C_NATIVE_CHUNKS_U8_1024_3: Out = native_chunks_u8::<1024, 3>();
const C_CHUNKS_U32_0_0: Out = chunks_u32::<0, 0>();
const C_CHUNKS_MUT_U32_0_0: Out = chunks_mut_u32::<0, 0>();
const C_REINTERPRET_U32_0_0: Out = reinterpret_u32::<0, 0>();
const C_REINTERPRET_U32_0_1: Out = reinterpret_u32::<0, 1>();
const C_REINTERPRET_U32_0_2: Out = reinterpret_u32::<0, 2>();
const C_BYVALUE_U32_0: Out = byvalue_u32::<0>();
const C_NATIVE_CHUNKS_U32_0_0: Out = native_chunks_u32::<0, 0>();
const C_NATIVE_CHUNKS_U32_0_1: Out = native_chunks_u32::<0, 1>();
const C_NATIVE_CHUNKS_U32_0_2: Out = native_chunks_u32::<0, 2>();
const C_NATIVE_CHUNKS_U32_0_3: Out = native_chunks_u32::<0, 3>();
const C_CHUNKS_U32_1_0: Out = chunks_u32::<1, 0>();
const C_CHUNKS_MUT_U32_1_0: Out = chunks_mut_u32::<1, 0>();
const C_CHUNKS_U32_1_1: Out = chunks_u32::<1, 1>();
const C_CHUNKS_MUT_U32_1_1: Out = chunks_mut_u32::<1, 1>();
const C_CHUNKS_U32_1_2: Out = chunks_u32::<1, 2>();
const C_CHUNKS_MUT_U32_1_2: Out = chunks_mut_u32::<1, 2>();
const C_CHUNKS_U32_1_3: Out = chunks_u32::<1, 3>();
const C_CHUNKS_MUT_U32_1_3: Out = chunks_mut_u32::<1, 3>();
const C_CHUNKS_U32_1_4: Out = chunks_u32::<1, 4>();
const C_CHUNKS_MUT_U32_1_4: Out = chunks_mut_u32::<1, 4>();
const C_CHUNKS_U32_1_5: Out = chunks_u32::<1, 5>();
const C_CHUNKS_MUT_U32_1_5: Out = chunks_mut_u32::<1, 5>();
const C_REINTERPRET_U32_1_0: Out = reinterpret_u32::<1, 0>();
const C_REINTERPRET_U32_1_1: Out = reinterpret_u32::<1, 1>();
const C_REINTERPRET_U32_1_2: Out = reinterpret_u32::<1, 2>();
const C_REINTERPRET_U32_1_5: Out = reinterpret_u32::<1, 5>();
const C_BYVALUE_U32_1: Out = byvalue_u32::<1>();
const C_NATIVE_CHUNKS_U32_1_0: Out = native_chunks_u32::<1, 0>();
const C_NATIVE_CHUNKS_U32_1_1: Out = native_chunks_u32::<1, 1>();
const C_NATIVE_CHUNKS_U32_1_2: Out = native_chunks_u32::<1, 2>();
const C_NATIVE_CHUNKS_U32_1_3: Out = native_chunks_u32::<1, 3>();
const C_CHUNKS_U32_2_0: Out = chunks_u32::<2, 0>();
const C_CHUNKS_MUT_U32_2_0: Out = chunks_mut_u32::<2, 0>();
const C_CHUNKS_U32_2_1: Out = chunks_u32::<2, 1>();
const C_CHUNKS_MUT_U32_2_1: Out = chunks_mut_u32::<2, 1>();
const C_CHUNKS_U32_2_2: Out = chunks_u32::<2, 2>();
const C_CHUNKS_MUT_U32_2_2: Out = chunks_mut_u32::<2, 2>();
const C_CHUNKS_U32_2_3: Out = chunks_u32::<2, 3>();
const C_CHUNKS_MUT_U32_2_3: Out = chunks_mut_u32::<2, 3>();
const C_CHUNKS_U32_2_4: Out = chunks_u32::<2, 4>();
const C_CHUNKS_MUT_U32_2_4: Out = chunks_mut_u32::<2, 4>();
const C_CHUNKS_U32_2_5: Out = chunks_u32::<2, 5>();
const C_CHUNKS_MUT_U32_2_5: Out = chunks_mut_u32::<2, 5>();
const C_CHUNKS_U32_2_6: Out = chunks_u32::<2, 6>();
const C_CHUNKS_MUT_U32_2_6: Out = chunks_mut_u32::<2, 6>();
const C_CHUNKS_U32_2_7: Out = chunks_u32::<2, 7>();
const C_CHUNKS_MUT_U32_2_7: Out = chunks_mut_u32::<2, 7>();
const C_CHUNKS_U32_2_8: Out = chunks_u32::<2, 8>();
const C_CHUNKS_MUT_U32_2_8: Out = chunks_mut_u32::<2, 8>();
const C_REINTERPRET_U32_2_0: Out = reinterpret_u32::<2, 0>();
const C_REINTERPRET_U32_2_1: Out = reinterpret_u32::<2, 1>();
const C_REINTERPRET_U32_2_2: Out = reinterpret_u32::<2, 2>();
const C_REINTERPRET_U32_2_3: Out = reinterpret_u32::<2, 3>();
const C_REINTERPRET_U32_2_4: Out = reinterpret_u32::<2, 4>();
const C_REINTERPRET_U32_2_8: Out = reinterpret_u32::<2, 8>();
const C_BYVALUE_U32_2: Out = byvalue_u32::<2>();
const C_NATIVE_CHUNKS_U32_2_0: Out = native_chunks_u32::<2, 0>();
const C_NATIVE_CHUNKS_U32_2_1: Out = native_chunks_u32::<2, 1>();
const C_NATIVE_CHUNKS_U32_2_2: Out = native_chunks_u32::<2, 2>();
const C_NATIVE_CHUNKS_U32_2_3: Out = native_chunks_u32::<2, 3>();
const C_CHUNKS_U32_3_0: Out = chunks_u32::<3, 0>();
const C_CHUNKS_MUT_U32_3_0: Out = chunks_mut_u32::<3, 0>();
const C_CHUNKS_U32_3_1: Out = chunks_u32::<3, 1>();
const C_CHUNKS_MUT_U32_3_1: Out = chunks_mut_u32::<3, 1>();
const C_CHUNKS_U32_3_2: Out = chunks_u32::<3, 2>();
const C_CHUNKS_MUT_U32_3_2: Out = chunks_mut_u32::<3, 2>();
const C_CHUNKS_U32_3_3: Out = chunks_u32::<3, 3>();
const C_CHUNKS_MUT_U32_3_3: Out = chunks_mut_u32::<3, 3>();
const C_CHUNKS_U32_3_4: Out = chunks_u32::<3, 4>();
const C_CHUNKS_MUT_U32_3_4: Out = chunks_mut_u32::<3, 4>();
const C_CHUNKS_U32_3_5: Out = chunks_u32::<3, 5>();
const C_CHUNKS_MUT_U32_3_5: Out = chunks_mut_u32::<3, 5>();
const C_CHUNKS_U32_3_6: Out = chunks_u32::<3, 6>();
const C_CHUNKS_MUT_U32_3_6: Out = chunks_mut_u32::<3, 6>();
const C_CHUNKS_U32_3_7: Out = chunks_u32::<3, 7>();
const C_CHUNKS_MUT_U32_3_7: Out = chunks_mut_u32::<3, 7>();
const C_CHUNKS_U32_3_8: Out = chunks_u32::<3, 8>();
const C_CHUNKS_MUT_U32_3_8: Out = chunks_mut_u32::<3, 8>();
const C_CHUNKS_U32_3_9: Out = chunks_u32::<3, 9>();
const C_CHUNKS_MUT_U32_3_9: Out = chunks_mut_u32::<3, 9>();
const C_CHUNKS_U32_3_10: Out = chunks_u32::<3, 10>();
const C_CHUNKS_MUT_U32_3_10: Out = chunks_mut_u32::<3, 10>();
const C_CHUNKS_U32_3_11: Out = chunks_u32::<3, 11>();
const C_CHUNKS_MUT_U32_3_11: Out = chunks_mut_u32::<3, 11>();
const C_REINTERPRET_U32_3_0: Out = reinterpret_u32::<3, 0>();
const C_REINTERPRET_U32_3_1: Out = reinterpret_u32::<3, 1>();
const C_REINTERPRET_U32_3_2: Out = reinterpret_u32::<3, 2>();
const C_REINTERPRET_U32_3_3: Out = reinterpret_u32::<3, 3>();
const C_REINTERPRET_U32_3_4: Out = reinterpret_u32::<3, 4>();
const C_REINTERPRET_U32_3_6: Out = reinterpret_u32::<3, 6>();
const C_REINTERPRET_U32_3_11: Out = reinterpret_u32::<3, 11>();
const C_BYVALUE_U32_3: Out = byvalue_u32::<3>();
const C_NATIVE_CHUNKS_U32_3_0: Out = native_chunks_u32::<3, 0>();
const C_NATIVE_CHUNKS_U32_3_1: Out = native_chunks_u32::<3, 1>();
const C_NATIVE_CHUNKS_U32_3_2: Out = native_chunks_u32::<3, 2>();
const C_NATIVE_CHUNKS_U32_3_3: Out = native_chunks_u32::<3, 3>();
const C_CHUNKS_U32_7_0: Out = chunks_u32::<7, 0>();
const C_CHUNKS_MUT_U32_7_0: Out = chunks_mut_u32::<7, 0>();
const C_CHUNKS_U32_7_1: Out = chunks_u32::<7, 1>();
const C_CHUNKS_MUT_U32_7_1: Out = chunks_mut_u32::<7, 1>();
const C_CHUNKS_U32_7_2: Out = chunks_u32::<7, 2>();
const C_CHUNKS_MUT_U32_7_2: Out = chunks_mut_u32::<7, 2>();
const C_CHUNKS_U32_7_3: Out = chunks_u32::<7, 3>();
const C_CHUNKS_MUT_U32_7_3: Out = chunks_mut_u32::<7, 3>();
const C_CHUNKS_U32_7_4: Out = chunks_u32::<7, 4>();
const C_CHUNKS_MUT_U32_7_4: Out = chunks_mut_u32::<7, 4>();
const C_CHUNKS_U32_7_5: Out = chunks_u32::<7, 5>();
const C_CHUNKS_MUT_U32_7_5: Out = chunks_mut_u32::<7, 5>();
const C_CHUNKS_U32_7_6: Out = chunks_u32::<7, 6>();
const C_CHUNKS_MUT_U32_7_6: Out = chunks_mut_u32::<7, 6>();
const C_CHUNKS_U32_7_7: Out = chunks_u32::<7, 7>();
const C_CHUNKS_MUT_U32_7_7: Out = chunks_mut_u32::<7, 7>();
const C_CHUNKS_U32_7_8: Out = chunks_u32::<7, 8>();
const C_CHUNKS_MUT_U32_7_8: Out = chunks_mut_u32::<7, 8>();
const C_CHUNKS_U32_7_9: Out = chunks_u32::<7, 9>();
const C_CHUNKS_MUT_U32_7_9: Out = chunks_mut_u32::<7, 9>();
const C_CHUNKS_U32_7_10: Out = chunks_u32::<7, 10>();
const C_CHUNKS_MUT_U32_7_10: Out = chunks_mut_u32::<7, 10>();
const C_CHUNKS_U32_7_11: Out = chunks_u32::<7, 11>();
const C_CHUNKS_MUT_U32_7_11: Out = chunks_mut_u32::<7, 11>();
const C_CHUNKS_U32_7_12: Out = chunks_u32::<7, 12>();
const C_CHUNKS_MUT_U32_7_12: Out = chunks_mut_u32::<7, 12>();
const C_CHUNKS_U32_7_13: Out = chunks_u32::<7, 13>();
const C_CHUNKS_MUT_U32_7_13: Out = chunks_mut_u32::<7, 13>();
const C_CHUNKS_U32_7_14: Out = chunks_u32::<7, 14>();
const C_CHUNKS_MUT_U32_7_14: Out = chunks_mut_u32::<7, 14>();
const C_CHUNKS_U32_7_15: Out = chunks_u32::<7, 15>();
const C_CHUNKS_MUT_U32_7_15: Out = chunks_mut_u32::<7, 15>();
const C_CHUNKS_U32_7_16: Out = chunks_u32::<7, 16>();
const C_CHUNKS_MUT_U32_7_16: Out = chunks_mut_u32::<7, 16>();
const C_CHUNKS_U32_7_17: Out = chunks_u32::<7, 17>();
const C_CHUNKS_MUT_U32_7_17: Out = chunks_mut_u32::<7, 17>();
const C_CHUNKS_U32_7_18: Out = chunks_u32::<7, 18>();
const C_CHUNKS_MUT_U32_7_18: Out = chunks_mut_u32::<7, 18>();
const C_CHUNKS_U32_7_19: Out = chunks_u32::<7, 19>();
const C_CHUNKS_MUT_U32_7_19: Out = chunks_mut_u32::<7, 19>();
const C_CHUNKS_U32_7_20: Out = chunks_u32::<7, 20>();
const C_CHUNKS_MUT_U32_7_20: Out = chunks_mut_u32::<7, 20>();
const C_CHUNKS_U32_7_21: Out = chunks_u32::<7, 21>();
const C_CHUNKS_MUT_U32_7_21: Out = chunks_mut_u32::<7, 21>();
const C_CHUNKS_U32_7_22: Out = chunks_u32::<7, 22>();
const C_CHUNKS_MUT_U32_7_22: Out = chunks_mut_u32::<7, 22>();
const C_CHUNKS_U32_7_23: Out = chunks_u32::<7, 23>();
const C_CHUNKS_MUT_U32_7_23: Out = chunks_mut_u32::<7, 23>();
const C_REINTERPRET_U32_7_0: Out = reinterpret_u32::<7, 0>();
const C_REINTERPRET_U32_7_1: Out = reinterpret_u32::<7, 1>();
const C_REINTERPRET_U32_7_6: Out = reinterpret_u32::<7, 6>();
const C_REINTERPRET_U32_7_7: Out = reinterpret_u32::<7, 7>();
const C_REINTERPRET_U32_7_8: Out = reinterpret_u32::<7, 8>();
const C_REINTERPRET_U32_7_14: Out = reinterpret_u32::<7, 14>();
const C_REINTERPRET_U32_7_23: Out = reinterpret_u32::<7, 23>();
const C_BYVALUE_U32_7: Out = byvalue_u32::<7>();
const C_NATIVE_CHUNKS_U32_7_0: Out = native_chunks_u32::<7, 0>();
const C_NATIVE_CHUNKS_U32_7_1: Out = native_chunks_u32::<7, 1>();
const C_NATIVE_CHUNKS_U32_7_2: Out = native_chunks_u32::<7, 2>();
const C_NATIVE_CHUNKS_U32_7_3: Out = native_chunks_u32::<7, 3>();
const C_CHUNKS_U32_8_0: Out = chunks_u32::<8, 0>();
const C_CHUNKS_MUT_U32_8_0: Out = chunks_mut_u32::<8, 0>();
const C_CHUNKS_U32_8_1: Out = chunks_u32::<8, 1>();
const C_CHUNKS_MUT_U32_8_1: Out = chunks_mut_u32::<8, 1>();
const C_CHUNKS_U32_8_2: Out = chunks_u32::<8, 2>();
const C_CHUNKS_MUT_U32_8_2: Out = chunks_mut_u32::<8, 2>();
const C_CHUNKS_U32_8_3: Out = chunks_u32::<8, 3>();
const C_CHUNKS_MUT_U32_8_3: Out = chunks_mut_u32::<8, 3>();
const C_CHUNKS_U32_8_4: Out = chunks_u32::<8, 4>();
const C_CHUNKS_MUT_U32_8_4: Out = chunks_mut_u32::<8, 4>();
const C_CHUNKS_U32_8_5: Out = chunks_u32::<8, 5>();
const C_CHUNKS_MUT_U32_8_5: Out = chunks_mut_u32::<8, 5>();
const C_CHUNKS_U32_8_6: Out = chunks_u32::<8, 6>();
const C_CHUNKS_MUT_U32_8_6: Out = chunks_mut_u32::<8, 6>();
const C_CHUNKS_U32_8_7: Out = chunks_u32::<8, 7>();
const C_CHUNKS_MUT_U32_8_7: Out = chunks_mut_u32::<8, 7>();
const C_CHUNKS_U32_8_8: Out = chunks_u32::<8, 8>();
const C_CHUNKS_MUT_U32_8_8: Out = chunks_mut_u32::<8, 8>();
const C_CHUNKS_U32_8_9: Out = chunks_u32::<8, 9>();
const C_CHUNKS_MUT_U32_8_9: Out = chunks_mut_u32::<8, 9>();
const C_CHUNKS_U32_8_10: Out = chunks_u32::<8, 10>();
const C_CHUNKS_MUT_U32_8_10: Out = chunks_mut_u32::<8, 10>();
const C_CHUNKS_U32_8_11: Out = chunks_u32::<8, 11>();
const C_CHUNKS_MUT_U32_8_11: Out = chunks_mut_u32::<8, 11>();
const C_CHUNKS_U32_8_12: Out = chunks_u32::<8, 12>();
const C_CHUNKS_MUT_U32_8_12: Out = chunks_mut_u32::<8, 12>();
const C_CHUNKS_U32_8_13: Out = chunks_u32::<8, 13>();
const C_CHUNKS_MUT_U32_8_13: Out = chunks_mut_u32::<8, 13>();
const C_CHUNKS_U32_8_14: Out = chunks_u32::<8, 14>();
const C_CHUNKS_MUT_U32_8_14: Out = chunks_mut_u32::<8, 14>();
const C_CHUNKS_U32_8_15: Out = chunks_u32::<8, 15>();
const C_CHUNKS_MUT_U32_8_15: Out = chunks_mut_u32::<8, 15>();
const C_CHUNKS_U32_8_16: Out = chunks_u32::<8, 16>();
const C_CHUNKS_MUT_U32_8_16: Out = chunks_mut_u32::<8, 16>();
const C_CHUNKS_U32_8_17: Out = chunks_u32::<8, 17>();
const C_CHUNKS_MUT_U32_8_17: Out = chunks_mut_u32::<8, 17>();
const C_CHUNKS_U32_8_18: Out = chunks_u32::<8, 18>();
const C_CHUNKS_MUT_U32_8_18: Out = chunks_mut_u32::<8, 18>();
const C_CHUNKS_U32_8_19: Out = chunks_u32::<8, 19>();
const C_CHUNKS_MUT_U32_8_19: Out = chunks_mut_u32::<8, 19>();
const C_CHUNKS_U32_8_20: Out = chunks_u32::<8, 20>();
const C_CHUNKS_MUT_U32_8_20: Out = chunks_mut_u32::<8, 20>();
const C_CHUNKS_U32_8_21: Out = chunks_u32::<8, 21>();
const C_CHUNKS_MUT_U32_8_21: Out = chunks_mut_u32::<8, 21>();
const C_CHUNKS_U32_8_22: Out = chunks_u32::<8, 22>();
const C_CHUNKS_MUT_U32_8_22: Out = chunks_mut_u32::<8, 22>();
const C_CHUNKS_U32_8_23: Out = chunks_u32::<8, 23>();
const C_CHUNKS_MUT_U32_8_23: Out = chunks_mut_u32::<8, 23>();
const C_CHUNKS_U32_8_24: Out = chunks_u32::<8, 24>();
const C_CHUNKS_MUT_U32_8_24: Out = chunks_mut_u32::<8, 24>();
const C_CHUNKS_U32_8_25: Out = chunks_u32::<8, 25>();
const C_CHUNKS_MUT_U32_8_25: Out = chunks_mut_u32::<8, 25>();
const C_CHUNKS_U32_8_26: Out = chunks_u32::<8, 26>();
const C_CHUNKS_MUT_U32_8_26: Out = chunks_mut_u32::<8, 26>();
const C_REINTERPRET_U32_8_0: Out = reinterpret_u32::<8, 0>();
const C_REINTERPRET_U32_8_1: Out = reinterpret_u32::<8, 1>();
const C_REINTERPRET_U32_8_7: Out = reinterpret_u32::<8, 7>();
const C_REINTERPRET_U32_8_8: Out = reinterpret_u32::<8, 8>();
const C_REINTERPRET_U32_8_9: Out = reinterpret_u32::<8, 9>();
const C_REINTERPRET_U32_8_16: Out = reinterpret_u32::<8, 16>();
const C_REINTERPRET_U32_8_26: Out = reinterpret_u32::<8, 26>();
const C_BYVALUE_U32_8: Out = byvalue_u32::<8>();
const C_NATIVE_CHUNKS_U32_8_0: Out = native_chunks_u32::<8, 0>();
const C_NATIVE_CHUNKS_U32_8_1: Out = native_chunks_u32::<8, 1>();
const C_NATIVE_CHUNKS_U32_8_2: Out = native_chunks_u32::<8, 2>();
const C_NATIVE_CHUNKS_U32_8_3: Out = native_chunks_u32::<8, 3>();
const C_CHUNKS_U32_16_0: Out = chunks_u32::<16, 0>();
const C_CHUNKS_MUT_U32_16_0: Out = chunks_mut_u32::<16, 0>();
const C_CHUNKS_U32_16_1: Out = chunks_u32::<16, 1>();
const C_CHUNKS_MUT_U32_16_1: Out = chunks_mut_u32::<16, 1>();
const C_CHUNKS_U32_16_2: Out = chunks_u32::<16, 2>();
const C_CHUNKS_MUT_U32_16_2: Out = chunks_mut_u32::<16, 2>();
const C_CHUNKS_U32_16_3: Out = chunks_u32::<16, 3>();
const C_CHUNKS_MUT_U32_16_3: Out = chunks_mut_u32::<16, 3>();
const C_CHUNKS_U32_16_4: Out = chunks_u32::<16, 4>();
const C_CHUNKS_MUT_U32_16_4: Out = chunks_mut_u32::<16, 4>();
const C_CHUNKS_U32_16_5: Out = chunks_u32::<16, 5>();
const C_CHUNKS_MUT_U32_16_5: Out = chunks_mut_u32::<16, 5>();
const C_CHUNKS_U32_16_6: Out = chunks_u32::<16, 6>();
const C_CHUNKS_MUT_U32_16_6: Out = chunks_mut_u32::<16, 6>();
const C_CHUNKS_U32_16_7: Out = chunks_u32::<16, 7>();
const C_CHUNKS_MUT_U32_16_7: Out = chunks_mut_u32::<16, 7>();
const C_CHUNKS_U32_16_8: Out = chunks_u32::<16, 8>();
const C_CHUNKS_MUT_U32_16_8: Out = chunks_mut_u32::<16, 8>();
const C_CHUNKS_U32_16_9: Out = chunks_u32::<16, 9>();
const C_CHUNKS_MUT_U32_16_9: Out = chunks_mut_u32::<16, 9>();
const C_CHUNKS_U32_16_10: Out = chunks_u32::<16, 10>();
const C_CHUNKS_MUT_U32_16_10: Out = chunks_mut_u32::<16, 10>();
const C_CHUNKS_U32_16_11: Out = chunks_u32::<16, 11>();
const C_CHUNKS_MUT_U32_16_11: Out = chunks_mut_u32::<16, 11>();
const C_CHUNKS_U32_16_12: Out = chunks_u32::<16, 12>();
const C_CHUNKS_MUT_U32_16_12: Out = chunks_mut_u32::<16, 12>();
const C_CHUNKS_U32_16_13: Out = chunks_u32::<16, 13>();
const C_CHUNKS_MUT_U32_16_13: Out = chunks_mut_u32::<16, 13>();
const C_CHUNKS_U32_16_14: Out = chunks_u32::<16, 14>();
const C_CHUNKS_MUT_U32_16_14: Out = chunks_mut_u32::<16, 14>();
const C_CHUNKS_U32_16_15: Out = chunks_u32::<16, 15>();
const C_CHUNKS_MUT_U32_16_15: Out = chunks_mut_u32::<16, 15>();
const C_CHUNKS_U32_16_16: Out = chunks_u32::<16, 16>();
const C_CHUNKS_MUT_U32_16_16: Out = chunks_mut_u32::<16, 16>();
const C_CHUNKS_U32_16_17: Out = chunks_u32::<16, 17>();
const C_CHUNKS_MUT_U32_16_17: Out = chunks_mut_u32::<16, 17>();
const C_CHUNKS_U32_16_18: Out = chunks_u32::<16, 18>();
const C_CHUNKS_MUT_U32_16_18: Out = chunks_mut_u32::<16, 18>();
const C_CHUNKS_U32_16_19: Out = chunks_u32::<16, 19>();
const C_CHUNKS_MUT_U32_16_19: Out = chunks_mut_u32::<16, 19>();
const C_CHUNKS_U32_16_20: Out = chunks_u32::<16, 20>();
const C_CHUNKS_MUT_U32_16_20: Out = chunks_mut_u32::<16, 20>();
const C_CHUNKS_U32_16_21: Out = chunks_u32::<16, 21>();
const C_CHUNKS_MUT_U32_16_21: Out = chunks_mut_u32::<16, 21>();
const C_CHUNKS_U32_16_22: Out = chunks_u32::<16, 22>();
const C_CHUNKS_MUT_U32_16_22: Out = chunks_mut_u32::<16, 22>();
const C_CHUNKS_U32_16_23: Out = chunks_u32::<16, 23>();
const C_CHUNKS_MUT_U32_16_23: Out = chunks_mut_u32::<16, 23>();
const C_CHUNKS_U32_16_24: Out = chunks_u32::<16, 24>();
const C_CHUNKS_MUT_U32_16_24: Out = chunks_mut_u32::<16, 24>();
const C_CHUNKS_U32_16_25: Out = chunks_u32::<16, 25>();
const C_CHUNKS_MUT_U32_16_25: Out = chunks_mut_u32::<16, 25>();
const C_CHUNKS_U32_16_26: Out = chunks_u32::<16, 26>();
const C_CHUNKS_MUT_U32_16_26: Out = chunks_mut_u32::<16, 26>();
const C_CHUNKS_U32_16_27: Out = chunks_u32::<16, 27>();
const C_CHUNKS_MUT_U32_16_27: Out = chunks_mut_u32::<16, 27>();
const C_CHUNKS_U32_16_28: Out = chunks_u32::<16, 28>();
const C_CHUNKS_MUT_U32_16_28: Out = chunks_mut_u32::<16, 28>();
const C_CHUNKS_U32_16_29: Out = chunks_u32::<16, 29>();
const C_CHUNKS_MUT_U32_16_29: Out = chunks_mut_u32::<16, 29>();
const C_CHUNKS_U32_16_30: Out = chunks_u32::<16, 30>();
const C_CHUNKS_MUT_U32_16_30: Out = chunks_mut_u32::<16, 30>();
const C_CHUNKS_U32_16_31: Out = chunks_u32::<16, 31>();
const C_CHUNKS_MUT_U32_16_31: Out = chunks_mut_u32::<16, 31>();
const C_CHUNKS_U32_16_32: Out = chunks_u32::<16, 32>();
const C_CHUNKS_MUT_U32_16_32: Out = chunks_mut_u32::<16, 32>();
const C_CHUNKS_U32_16_33: Out = chunks_u32::<16, 33>();
const C_CHUNKS_MUT_U32_16_33: Out = chunks_mut_u32::<16, 33>();
const C_CHUNKS_U32_16_34: Out = chunks_u32::<16, 34>();
const C_CHUNKS_MUT_U32_16_34: Out = chunks_mut_u32::<16, 34>();
const C_CHUNKS_U32_16_35: Out = chunks_u32::<16, 35>();
const C_CHUNKS_MUT_U32_16_35: Out = chunks_mut_u32::<16, 35>();
const C_CHUNKS_U32_16_36: Out = chunks_u32::<16, 36>();
const C_CHUNKS_MUT_U32_16_36: Out = chunks_mut_u32::<16, 36>();
const C_CHUNKS_U32_16_37: Out = chunks_u32::<16, 37>();
const C_CHUNKS_MUT_U32_16_37: Out = chunks_mut_u32::<16, 37>();
const C_CHUNKS_U32_16_38: Out = chunks_u32::<16, 38>();
const C_CHUNKS_MUT_U32_16_38: Out = chunks_mut_u32::<16, 38>();
const C_CHUNKS_U32_16_39: Out = chunks_u32::<16, 39>();
const C_CHUNKS_MUT_U32_16_39: Out = chunks_mut_u32::<16, 39>();
const C_CHUNKS_U32_16_40: Out = chunks_u32::<16, 40>();
const C_CHUNKS_MUT_U32_16_40: Out = chunks_mut_u32::<16, 40>();
const C_CHUNKS_U32_16_41: Out = chunks_u32::<16, 41>();
const C_CHUNKS_MUT_U32_16_41: Out = chunks_mut_u32::<16, 41>();
const C_CHUNKS_U32_16_42: Out = chunks_u32::<16, 42>();
const C_CHUNKS_MUT_U32_16_42: Out = chunks_mut_u32::<16, 42>();
const C_CHUNKS_U32_16_43: Out = chunks_u32::<16, 43>();
const C_CHUNKS_MUT_U32_16_43: Out = chunks_mut_u32::<16, 43>();
const C_CHUNKS_U32_16_44: Out = chunks_u32::<16, 44>();
const C_CHUNKS_MUT_U32_16_44: Out = chunks_mut_u32::<16, 44>();
const C_CHUNKS_U32_16_45: Out = chunks_u32::<16, 45>();
const C_CHUNKS_MUT_U32_16_45: Out = chunks_mut_u32::<16, 45>();
const C_CHUNKS_U32_16_46: Out = chunks_u32::<16, 46>();
const C_CHUNKS_MUT_U32_16_46: Out = chunks_mut_u32::<16, 46>();
const C_CHUNKS_U32_16_47: Out = chunks_u32::<16, 47>();
const C_CHUNKS_MUT_U32_16_47: Out = chunks_mut_u32::<16, 47>();
const C_CHUNKS_U32_16_48: Out = chunks_u32::<16, 48>();
const C_CHUNKS_MUT_U32_16_48: Out = chunks_mut_u32::<16, 48>();
const C_CHUNKS_U32_16_49: Out = chunks_u32::<16, 49>();
const C_CHUNKS_MUT_U32_16_49: Out = chunks_mut_u32::<16, 49>();
const C_CHUNKS_U32_16_50: Out = chunks_u32::<16, 50>();
const C_CHUNKS_MUT_U32_16_50: Out = chunks_mut_u32::<16, 50>();
const C_REINTERPRET_U32_16_0: Out = reinterpret_u32::<16, 0>();
const C_REINTERPRET_U32_16_1: Out = reinterpret_u32::<16, 1>();
const C_REINTERPRET_U32_16_15: Out = reinterpret_u32::<16, 15>();
const C_REINTERPRET_U32_16_16: Out = reinterpret_u32::<16, 16>();
const C_REINTERPRET_U32_16_17: Out = reinterpret_u32::<16, 17>();
const C_REINTERPRET_U32_16_32: Out = reinterpret_u32::<16, 32>();
const C_REINTERPRET_U32_16_50: Out = reinterpret_u32::<16, 50>();
const C_BYVALUE_U32_16: Out = byvalue_u32::<16>();
const C_NATIVE_CHUNKS_U32_16_0: Out = native_chunks_u32::<16, 0>();
const C_NATIVE_CHUNKS_U32_16_1: Out = native_chunks_u32::<16, 1>();
const C_NATIVE_CHUNKS_U32_16_2: Out = native_chunks_u32::<16, 2>();
const C_NATIVE_CHUNKS_U32_16_3: Out = native_chunks_u32::<16, 3>();
const C_CHUNKS_U32_17_0: Out = chunks_u32::<17, 0>();
const C_CHUNKS_MUT_U32_17_0: Out = chunks_mut_u32::<17, 0>();
const C_CHUNKS_U32_17_1: Out = chunks_u32::<17, 1>();
const C_CHUNKS_MUT_U32_17_1: Out = chunks_mut_u32::<17, 1>();
const C_CHUNKS_U32_17_2: Out = chunks_u32::<17, 2>();
const C_CHUNKS_MUT_U32_17_2: Out = chunks_mut_u32::<17, 2>();
const C_CHUNKS_U32_17_3: Out = chunks_u32::<17, 3>();
const C_CHUNKS_MUT_U32_17_3: Out = chunks_mut_u32::<17, 3>();
const C_CHUNKS_U32_17_4: Out = chunks_u32::<17, 4>();
const C_CHUNKS_MUT_U32_17_4: Out = chunks_mut_u32::<17, 4>();
const C_CHUNKS_U32_17_5: Out = chunks_u32::<17, 5>();
const C_CHUNKS_MUT_U32_17_5: Out = chunks_mut_u32::<17, 5>();
const C_CHUNKS_U32_17_6: Out = chunks_u32::<17, 6>();
const C_CHUNKS_MUT_U32_17_6: Out = chunks_mut_u32::<17, 6>();
const C_CHUNKS_U32_17_7: Out = chunks_u32::<17, 7>();
const C_CHUNKS_MUT_U32_17_7: Out = chunks_mut_u32::<17, 7>();
const C_CHUNKS_U32_17_8: Out = chunks_u32::<17, 8>();
const C_CHUNKS_MUT_U32_17_8: Out = chunks_mut_u32::<17, 8>();
const C_CHUNKS_U32_17_9: Out = chunks_u32::<17, 9>();
const C_CHUNKS_MUT_U32_17_9: Out = chunks_mut_u32::<17, 9>();
const C_CHUNKS_U32_17_10: Out = chunks_u32::<17, 10>();
const C_CHUNKS_MUT_U32_17_10: Out = chunks_mut_u32::<17, 10>();
const C_CHUNKS_U32_17_11: Out = chunks_u32::<17, 11>();
const C_CHUNKS_MUT_U32_17_11: Out = chunks_mut_u32::<17, 11>();
const C_CHUNKS_U32_17_12: Out = chunks_u32::<17, 12>();
const C_CHUNKS_MUT_U32_17_12: Out = chunks_mut_u32::<17, 12>();
const C_CHUNKS_U32_17_13: Out = chunks_u32::<17, 13>();
const C_CHUNKS_MUT_U32_17_13: Out = chunks_mut_u32::<17, 13>();
const C_CHUNKS_U32_17_14: Out = chunks_u32::<17, 14>();
const C_CHUNKS_MUT_U32_17_14: Out = chunks_mut_u32::<17, 14>();
const C_CHUNKS_U32_17_15: Out = chunks_u32::<17, 15>();
const C_CHUNKS_MUT_U32_17_15: Out = chunks_mut_u32::<17, 15>();
const C_CHUNKS_U32_17_16: Out = chunks_u32::<17, 16>();
const C_CHUNKS_MUT_U32_17_16: Out = chunks_mut_u32::<17, 16>();
const C_CHUNKS_U32_17_17: Out = chunks_u32::<17, 17>();
const C_CHUNKS_MUT_U32_17_17: Out = chunks_mut_u32::<17, 17>();
const C_CHUNKS_U32_17_18: Out = chunks_u32::<17, 18>();
const C_CHUNKS_MUT_U32_17_18: Out = chunks_mut_u32::<17, 18>();
const C_CHUNKS_U32_17_19: Out = chunks_u32::<17, 19>();
const C_CHUNKS_MUT_U32_17_19: Out = chunks_mut_u32::<17, 19>();
const C_CHUNKS_U32_17_20: Out = chunks_u32::<17, 20>();
const C_CHUNKS_MUT_U32_17_20: Out = chunks_mut_u32::<17, 20>();
const C_CHUNKS_U32_17_21: Out = chunks_u32::<17, 21>();
const C_CHUNKS_MUT_U32_17_21: Out = chunks_mut_u32::<17, 21>();
const C_CHUNKS_U32_17_22: Out = chunks_u32::<17, 22>();
const C_CHUNKS_MUT_U32_17_22: Out = chunks_mut_u32::<17, 22>();
const C_CHUNKS_U32_17_23: Out = chunks_u32::<17, 23>();
const C_CHUNKS_MUT_U32_17_23: Out = chunks_mut_u32::<17, 23>();
const C_CHUNKS_U32_17_24: Out = chunks_u32::<17, 24>();
const C_CHUNKS_MUT_U32_17_24: Out = chunks_mut_u32::<17, 24>();
const C_CHUNKS_U32_17_25: Out = chunks_u32::<17, 25>();
const C_CHUNKS_MUT_U32_17_25: Out = chunks_mut_u32::<17, 25>();
const C_CHUNKS_U32_17_26: Out = chunks_u32::<17, 26>();
const C_CHUNKS_MUT_U32_17_26: Out = chunks_mut_u32::<17, 26>();
const C_CHUNKS_U32_17_27: Out = chunks_u32::<17, 27>();
const C_CHUNKS_MUT_U32_17_27: Out = chunks_mut_u32::<17, 27>();
const C_CHUNKS_U32_17_28: Out = chunks_u32::<17, 28>();
const C_CHUNKS_MUT_U32_17_28: Out = chunks_mut_u32::<17, 28>();
const C_CHUNKS_U32_17_29: Out = chunks_u32::<17, 29>();
const C_CHUNKS_MUT_U32_17_29: Out = chunks_mut_u32::<17, 29>();
const C_CHUNKS_U32_17_30: Out = chunks_u32::<17, 30>();
const C_CHUNKS_MUT_U32_17_30: Out = chunks_mut_u32::<17, 30>();
const C_CHUNKS_U32_17_31: Out = chunks_u32::<17, 31>();
const C_CHUNKS_MUT_U32_17_31: Out = chunks_mut_u32::<17, 31>();
const C_CHUNKS_U32_17_32: Out = chunks_u32::<17, 32>();
const C_CHUNKS_MUT_U32_17_32: Out = chunks_mut_u32::<17, 32>();
const C_CHUNKS_U32_17_33: Out = chunks_u32::<17, 33>();
const C_CHUNKS_MUT_U32_17_33: Out = chunks_mut_u32::<17, 33>();
const C_CHUNKS_U32_17_34: Out = chunks_u32::<17, 34>();
const C_CHUNKS_MUT_U32_17_34: Out = chunks_mut_u32::<17, 34>();
const C_CHUNKS_U32_17_35: Out = chunks_u32::<17, 35>();
const C_CHUNKS_MUT_U32_17_35: Out = chunks_mut_u32::<17, 35>();
const C_CHUNKS_U32_17_36: Out = chunks_u32::<17, 36>();
const C_CHUNKS_MUT_U32_17_36: Out = chunks_mut_u32::<17, 36>();
const C_CHUNKS_U32_17_37: Out = chunks_u32::<17, 37>();
const C_CHUNKS_MUT_U32_17_37: Out = chunks_mut_u32::<17, 37>();
const C_CHUNKS_U32_17_38: Out = chunks_u32::<17, 38>();
const C_CHUNKS_MUT_U32_17_38: Out = chunks_mut_u32::<17, 38>();
const C_CHUNKS_U32_17_39: Out = chunks_u32::<17, 39>();
const C_CHUNKS_MUT_U32_17_39: Out = chunks_mut_u32::<17, 39>();
const C_CHUNKS_U32_17_40: Out = chunks_u32::<17, 40>();
const C_CHUNKS_MUT_U32_17_40: Out = chunks_mut_u32::<17, 40>();
const C_CHUNKS_U32_17_41: Out = chunks_u32::<17, 41>();
const C_CHUNKS_MUT_U32_17_41: Out = chunks_mut_u32::<17, 41>();
const C_CHUNKS_U32_17_42: Out = chunks_u32::<17, 42>();
const C_CHUNKS_MUT_U32_17_42: Out = chunks_mut_u32::<17, 42>();
const C_CHUNKS_U32_17_43: Out = chunks_u32::<17, 43>();
const C_CHUNKS_MUT_U32_17_43: Out = chunks_mut_u32::<17, 43>();
const C_CHUNKS_U32_17_44: Out = chunks_u32::<17, 44>();
const C_CHUNKS_MUT_U32_17_44: Out = chunks_mut_u32::<17, 44>();
const C_CHUNKS_U32_17_45: Out = chunks_u32::<17, 45>();
const C_CHUNKS_MUT_U32_17_45: Out = chunks_mut_u32::<17, 45>();
const C_CHUNKS_U32_17_46: Out = chunks_u32::<17, 46>();
const C_CHUNKS_MUT_U32_17_46: Out = chunks_mut_u32::<17, 46>();
const C_CHUNKS_U32_17_47: Out = chunks_u32::<17, 47>();
const C_CHUNKS_MUT_U32_17_47: Out = chunks_mut_u32::<17, 47>();
const C_CHUNKS_U32_17_48: Out = chunks_u32::<17, 48>();
const C_CHUNKS_MUT_U32_17_48: Out = chunks_mut_u32::<17, 48>();
const C_CHUNKS_U32_17_49: Out = chunks_u32::<17, 49>();
const C_CHUNKS_MUT_U32_17_49: Out = chunks_mut_u32::<17, 49>();
const C_CHUNKS_U32_17_50: Out = chunks_u32::<17, 50>();
const C_CHUNKS_MUT_U32_17_50: Out = chunks_mut_u32::<17, 50>();
const C_CHUNKS_U32_17_51: Out = chunks_u32::<17, 51>();
const C_CHUNKS_MUT_U32_17_51: Out = chunks_mut_u32::<17, 51>();
const C_CHUNKS_U32_17_52: Out = chunks_u32::<17, 52>();
const C_CHUNKS_MUT_U32_17_52: Out = chunks_mut_u32::<17, 52>();
const C_CHUNKS_U32_17_53: Out = chunks_u32::<17, 53>();
const C_CHUNKS_MUT_U32_17_53: Out = chunks_mut_u32::<17, 53>();
const C_REINTERPRET_U32_17_0: Out = reinterpret_u32::<17, 0>();
const C_REINTERPRET_U32_17_1: Out = reinterpret_u32::<17, 1>();
const C_REINTERPRET_U32_17_16: Out = reinterpret_u32::<17, 16>();
const C_REINTERPRET_U32_17_17: Out = reinterpret_u32::<17, 17>();
const C_REINTERPRET_U32_17_18: Out = reinterpret_u32::<17, 18>();
const C_REINTERPRET_U32_17_34: Out = reinterpret_u32::<17, 34>();
const C_REINTERPRET_U32_17_53: Out = reinterpret_u32::<17, 53>();
const C_BYVALUE_U32_17: Out = byvalue_u32::<17>();
const C_NATIVE_CHUNKS_U32_17_0: Out = native_chunks_u32::<17, 0>();
const C_NATIVE_CHUNKS_U32_17_1: Out = native_chunks_u32::<17, 1>();
const C_NATIVE_CHUNKS_U32_17_2: Out = native_chunks_u32::<17, 2>();
const C_NATIVE_CHUNKS_U32_17_3: Out = native_chunks_u32::<17, 3>();
const C_CHUNKS_U32_33_0: Out = chunks_u32::<33, 0>();
const C_CHUNKS_MUT_U32_33_0: Out = chunks_mut_u32::<33, 0>();
const C_CHUNKS_U32_33_1: Out = chunks_u32::<33, 1>();
const C_CHUNKS_MUT_U32_33_1: Out = chunks_mut_u32::<33, 1>();
const C_CHUNKS_U32_33_32: Out = chunks_u32::<33, 32>();
const C_CHUNKS_MUT_U32_33_32: Out = chunks_mut_u32::<33, 32>();
const C_CHUNKS_U32_33_33: Out = chunks_u32::<33, 33>();
const C_CHUNKS_MUT_U32_33_33: Out = chunks_mut_u32::<33, 33>();
const C_CHUNKS_U32_33_34: Out = chunks_u32::<33, 34>();
const C_CHUNKS_MUT_U32_33_34: Out = chunks_mut_u32::<33, 34>();
const C_CHUNKS_U32_33_65: Out = chunks_u32::<33, 65>();
const C_CHUNKS_MUT_U32_33_65: Out = chunks_mut_u32::<33, 65>();
const C_CHUNKS_U32_33_66: Out = chunks_u32::<33, 66>();
const C_CHUNKS_MUT_U32_33_66: Out = chunks_mut_u32::<33, 66>();
const C_CHUNKS_U32_33_67: Out = chunks_u32::<33, 67>();
const C_CHUNKS_MUT_U32_33_67: Out = chunks_mut_u32::<33, 67>();
const C_CHUNKS_U32_33_98: Out = chunks_u32::<33, 98>();
const C_CHUNKS_MUT_U32_33_98: Out = chunks_mut_u32::<33, 98>();
const C_CHUNKS_U32_33_99: Out = chunks_u32::<33, 99>();
const C_CHUNKS_MUT_U32_33_99: Out = chunks_mut_u32::<33, 99>();
const C_CHUNKS_U32_33_100: Out = chunks_u32::<33, 100>();
const C_CHUNKS_MUT_U32_33_100: Out = chunks_mut_u32::<33, 100>();
const C_CHUNKS_U32_33_101: Out = chunks_u32::<33, 101>();
const C_CHUNKS_MUT_U32_33_101: Out = chunks_mut_u32::<33, 101>();
const C_REINTERPRET_U32_33_0: Out = reinterpret_u32::<33, 0>();
const C_REINTERPRET_U32_33_1: Out = reinterpret_u32::<33, 1>();
const C_REINTERPRET_U32_33_32: Out = reinterpret_u32::<33, 32>();
const C_REINTERPRET_U32_33_33: Out = reinterpret_u32::<33, 33>();
const C_REINTERPRET_U32_33_34: Out = reinterpret_u32::<33, 34>();
const C_REINTERPRET_U32_33_66: Out = reinterpret_u32::<33, 66>();
const C_REINTERPRET_U32_33_101: Out = reinterpret_u32::<33, 101>();
const C_BYVALUE_U32_33: Out = byvalue_u32::<33>();
const C_NATIVE_CHUNKS_U32_33_0: Out = native_chunks_u32::<33, 0>();
const C_NATIVE_CHUNKS_U32_33_1: Out = native_chunks_u32::<33, 1>();
const C_NATIVE_CHUNKS_U32_33_2: Out = native_chunks_u32::<33, 2>();
const C_NATIVE_CHUNKS_U32_33_3: Out = native_chunks_u32::<33, 3>();
const C_CHUNKS_U32_64_0: Out = chunks_u32::<64, 0>();
const C_CHUNKS_MUT_U32_64_0: Out = chunks_mut_u32::<64, 0>();
const C_CHUNKS_U32_64_1: Out = chunks_u32::<64, 1>();
const C_CHUNKS_MUT_U32_64_1: Out = chunks_mut_u32::<64, 1>();
const C_CHUNKS_U32_64_63: Out = chunks_u32::<64, 63>();
const C_CHUNKS_MUT_U32_64_63: Out = chunks_mut_u32::<64, 63>();
const C_CHUNKS_U32_64_64: Out = chunks_u32::<64, 64>();
const C_CHUNKS_MUT_U32_64_64: Out = chunks_mut_u32::<64, 64>();
const C_CHUNKS_U32_64_65: Out = chunks_u32::<64, 65>();
const C_CHUNKS_MUT_U32_64_65: Out = chunks_mut_u32::<64, 65>();
const C_CHUNKS_U32_64_127: Out = chunks_u32::<64, 127>();
const C_CHUNKS_MUT_U32_64_127: Out = chunks_mut_u32::<64, 127>();
const C_CHUNKS_U32_64_128: Out = chunks_u32::<64, 128>();
const C_CHUNKS_MUT_U32_64_128: Out = chunks_mut_u32::<64, 128>();
const C_CHUNKS_U32_64_129: Out = chunks_u32::<64, 129>();
const C_CHUNKS_MUT_U32_64_129: Out = chunks_mut_u32::<64, 129>();
const C_CHUNKS_U32_64_191: Out = chunks_u32::<64, 191>();
const C_CHUNKS_MUT_U32_64_191: Out = chunks_mut_u32::<64, 191>();
const C_CHUNKS_U32_64_192: Out = chunks_u32::<64, 192>();
const C_CHUNKS_MUT_U32_64_192: Out = chunks_mut_u32::<64, 192>();
const C_CHUNKS_U32_64_193: Out = chunks_u32::<64, 193>();
const C_CHUNKS_MUT_U32_64_193: Out = chunks_mut_u32::<64, 193>();
const C_CHUNKS_U32_64_194: Out = chunks_u32::<64, 194>();
const C_CHUNKS_MUT_U32_64_194: Out = chunks_mut_u32::<64, 194>();
const C_REINTERPRET_U32_64_0: Out = reinterpret_u32::<64, 0>();
const C_REINTERPRET_U32_64_1: Out = reinterpret_u32::<64, 1>();
const C_REINTERPRET_U32_64_63: Out = reinterpret_u32::<64, 63>();
const C_REINTERPRET_U32_64_64: Out = reinterpret_u32::<64, 64>();
const C_REINTERPRET_U32_64_65: Out = reinterpret_u32::<64, 65>();
const C_REINTERPRET_U32_64_128: Out = reinterpret_u32::<64, 128>();
const C_REINTERPRET_U32_64_194: Out = reinterpret_u32::<64, 194>();
const C_BYVALUE_U32_64: Out = byvalue_u32::<64>();
const C_NATIVE_CHUNKS_U32_64_0: Out = native_chunks_u32::<64, 0>();
const C_NATIVE_CHUNKS_U32_64_1: Out = native_chunks_u32::<64, 1>();
const C_NATIVE_CHUNKS_U32_64_2: Out = native_chunks_u32::<64, 2>();
const C_NATIVE_CHUNKS_U32_64_3: Out = native_chunks_u32::<64, 3>();
const C_CHUNKS_U32_100_0: Out = chunks_u32::<100, 0>();
const C_CHUNKS_MUT_U32_100_0: Out = chunks_mut_u32::<100, 0>();
const C_CHUNKS_U32_100_1: Out = chunks_u32::<100, 1>();
const C_CHUNKS_MUT_U32_100_1: Out = chunks_mut_u32::<100, 1>();
const C_CHUNKS_U32_100_99: Out = chunks_u32::<100, 99>();
const C_CHUNKS_MUT_U32_100_99: Out = chunks_mut_u32::<100, 99>();
const C_CHUNKS_U32_100_100: Out = chunks_u32::<100, 100>();
const C_CHUNKS_MUT_U32_100_100: Out = chunks_mut_u32::<100, 100>();
const C_CHUNKS_U32_100_101: Out = chunks_u32::<100, 101>();
const C_CHUNKS_MUT_U32_100_101: Out = chunks_mut_u32::<100, 101>();
const C_CHUNKS_U32_100_199: Out = chunks_u32::<100, 199>();
const C_CHUNKS_MUT_U32_100_199: Out = chunks_mut_u32::<100, 199>();
const C_CHUNKS_U32_100_200: Out = chunks_u32::<100, 200>();
const C_CHUNKS_MUT_U32_100_200: Out = chunks_mut_u32::<100, 200>();
const C_CHUNKS_U32_100_201: Out = chunks_u32::<100, 201>();
const C_CHUNKS_MUT_U32_100_201: Out = chunks_mut_u32::<100, 201>();
const C_CHUNKS_U32_100_302: Out = chunks_u32::<100, 302>();
const C_CHUNKS_MUT_U32_100_302: Out = chunks_mut_u32::<100, 302>();
const C_REINTERPRET_U32_100_0: Out = reinterpret_u32::<100, 0>();
const C_REINTERPRET_U32_100_1: Out = reinterpret_u32::<100, 1>();
const C_REINTERPRET_U32_100_99: Out = reinterpret_u32::<100, 99>();
const C_REINTERPRET_U32_100_100: Out = reinterpret_u32::<100, 100>();
const C_REINTERPRET_U32_100_101: Out = reinterpret_u32::<100, 101>();
const C_REINTERPRET_U32_100_200: Out = reinterpret_u32::<100, 200>();
const C_REINTERPRET_U32_100_302: Out = reinterpret_u32::<100, 302>();
const C_BYVALUE_U32_100: Out = byvalue_u32::<100>();
const C_NATIVE_CHUNKS_U32_100_0: Out = native_chunks_u32::<100, 0>();
const C_NATIVE_CHUNKS_U32_100_1: Out = native_chunks_u32::<100, 1>();
const C_NATIVE_CHUNKS_U32_100_2: Out = native_chunks_u32::<100, 2>();
const C_NATIVE_CHUNKS_U32_100_3: Out = native_chunks_u32::<100, 3>();
const C_CHUNKS_U32_1024_0: Out = chunks_u32::<1024, 0>();
const C_CHUNKS_MUT_U32_1024_0: Out = chunks_mut_u32::<1024, 0>();
const C_CHUNKS_U32_1024_1: Out = chunks_u32::<1024, 1>();
const C_CHUNKS_MUT_U32_1024_1: Out = chunks_mut_u32::<1024, 1>();
const C_CHUNKS_U32_1024_1023: Out = chunks_u32::<1024, 1023>();
const C_CHUNKS_MUT_U32_1024_1023: Out = chunks_mut_u32::<1024, 1023>();
const C_CHUNKS_U32_1024_1024: Out = chunks_u32::<1024, 1024>();
const C_CHUNKS_MUT_U32_1024_1024: Out = chunks_mut_u32::<1024, 1024>();
const C_CHUNKS_U32_1024_1025: Out = chunks_u32::<1024, 1025>();
const C_CHUNKS_MUT_U32_1024_1025: Out = chunks_mut_u32::<1024, 1025>();
const C_CHUNKS_U32_1024_2047: Out = chunks_u32::<1024, 2047>();
const C_CHUNKS_MUT_U32_1024_2047: Out = chunks_mut_u32::<1024, 2047>();
const C_CHUNKS_U32_1024_2048: Out = chunks_u32::<1024, 2048>();
const C_CHUNKS_MUT_U32_1024_2048: Out = chunks_mut_u32::<1024, 2048>();
const C_CHUNKS_U32_1024_2049: Out = chunks_u32::<1024, 2049>();
const C_CHUNKS_MUT_U32_1024_2049: Out = chunks_mut_u32::<1024, 2049>();
const C_CHUNKS_U32_1024_3074: Out = chunks_u32::<1024, 3074>();
const C_CHUNKS_MUT_U32_1024_3074: Out = chunks_mut_u32::<1024, 3074>();
const C_REINTERPRET_U32_1024_0: Out = reinterpret_u32::<1024, 0>();
const C_REINTERPRET_U32_1024_1: Out = reinterpret_u32::<1024, 1>();
const C_REINTERPRET_U32_1024_1023: Out = reinterpret_u32::<1024, 1023>();
const C_REINTERPRET_U32_1024_1024: Out = reinterpret_u32::<1024, 1024>();
const C_REINTERPRET_U32_1024_1025: Out = reinterpret_u32::<1024, 1025>();
const C_REINTERPRET_U32_1024_2048: Out = reinterpret_u32::<1024, 2048>();
const C_REINTERPRET_U32_1024_3074: Out = reinterpret_u32::<1024, 3074>();
const C_BYVALUE_U32_1024: Out = byvalue_u32::<1024>();
const C_NATIVE_CHUNKS_U32_1024_0: Out = native_chunks_u32::<1024, 0>();
const C_NATIVE_CHUNKS_U32_1024_1: Out = native_chunks_u32::<1024, 1>();
const C_NATIVE_CHUNKS_U32_1024_2: Out = native_chunks_u32::<1024, 2>();
const C_NATIVE_CHUNKS_U32_1024_3: Out = native_chunks_u32::<1024, 3>();
const C_CHUNKS_P3_0_0: Out = chunks_p3::<0, 0>();
const C_CHUNKS_MUT_P3_0_0: Out = chunks_mut_p3::<0, 0>();
const C_REINTERPRET_P3_0_0: Out = reinterpret_p3::<0, 0>();
const C_REINTERPRET_P3_0_1: Out = reinterpret_p3::<0, 1>();
const C_REINTERPRET_P3_0_2: Out = reinterpret_p3::<0, 2>();
const C_BYVALUE_P3_0: Out = byvalue_p3::<0>();
const C_NATIVE_CHUNKS_P3_0_0: Out = native_chunks_p3::<0, 0>();
const C_NATIVE_CHUNKS_P3_0_1: Out = native_chunks_p3::<0, 1>();
const C_NATIVE_CHUNKS_P3_0_2: Out = native_chunks_p3::<0, 2>();
const C_NATIVE_CHUNKS_P3_0_3: Out = native_chunks_p3::<0, 3>();
const C_CHUNKS_P3_1_0: Out = chunks_p3::<1, 0>();
const C_CHUNKS_MUT_P3_1_0: Out = chunks_mut_p3::<1, 0>();
const C_CHUNKS_P3_1_1: Out = chunks_p3::<1, 1>();
const C_CHUNKS_MUT_P3_1_1: Out = chunks_mut_p3::<1, 1>();
const C_CHUNKS_P3_1_2: Out = chunks_p3::<1, 2>();
const C_CHUNKS_MUT_P3_1_2: Out = chunks_mut_p3::<1, 2>();
const C_CHUNKS_P3_1_3: Out = chunks_p3::<1, 3>();
const C_CHUNKS_MUT_P3_1_3: Out = chunks_mut_p3::<1, 3>();
const C_CHUNKS_P3_1_4: Out = chunks_p3::<1, 4>();
const C_CHUNKS_MUT_P3_1_4: Out = chunks_mut_p3::<1, 4>();
const C_CHUNKS_P3_1_5: Out = chunks_p3::<1, 5>();
const C_CHUNKS_MUT_P3_1_5: Out = chunks_mut_p3::<1, 5>();
const C_REINTERPRET_P3_1_0: Out = reinterpret_p3::<1, 0>();
const C_REINTERPRET_P3_1_1: Out = reinterpret_p3::<1, 1>();
const C_REINTERPRET_P3_1_2: Out = reinterpret_p3::<1, 2>();
const C_REINTERPRET_P3_1_5: Out = reinterpret_p3::<1, 5>();
const C_BYVALUE_P3_1: Out = byvalue_p3::<1>();
const C_NATIVE_CHUNKS_P3_1_0: Out = native_chunks_p3::<1, 0>();
const C_NATIVE_CHUNKS_P3_1_1: Out = native_chunks_p3::<1, 1>();
const C_NATIVE_CHUNKS_P3_1_2: Out = native_chunks_p3::<1, 2>();
const C_NATIVE_CHUNKS_P3_1_3: Out = native_chunks_p3::<1, 3>();
const C_CHUNKS_P3_2_0: Out = chunks_p3::<2, 0>();
const C_CHUNKS_MUT_P3_2_0: Out = chunks_mut_p3::<2, 0>();
const C_CHUNKS_P3_2_1: Out = chunks_p3::<2, 1>();
const C_CHUNKS_MUT_P3_2_1: Out = chunks_mut_p3::<2, 1>();
const C_CHUNKS_P3_2_2: Out = chunks_p3::<2, 2>();
const C_CHUNKS_MUT_P3_2_2: Out = chunks_mut_p3::<2, 2>();
const C_CHUNKS_P3_2_3: Out = chunks_p3::<2, 3>();
const C_CHUNKS_MUT_P3_2_3: Out = chunks_mut_p3::<2, 3>();
const C_CHUNKS_P3_2_4: Out = chunks_p3::<2, 4>();
const C_CHUNKS_MUT_P3_2_4: Out = chunks_mut_p3::<2, 4>();
const C_CHUNKS_P3_2_5: Out = chunks_p3::<2, 5>();
const C_CHUNKS_MUT_P3_2_5: Out = chunks_mut_p3::<2, 5>();
const C_CHUNKS_P3_2_6: Out = chunks_p3::<2, 6>();
const C_CHUNKS_MUT_P3_2_6: Out = chunks_mut_p3::<2, 6>();
const C_CHUNKS_P3_2_7: Out = chunks_p3::<2, 7>();
const C_CHUNKS_MUT_P3_2_7: Out = chunks_mut_p3::<2, 7>();
const C_CHUNKS_P3_2_8: Out = chunks_p3::<2, 8>();
const C_CHUNKS_MUT_P3_2_8: Out = chunks_mut_p3::<2, 8>();
const C_REINTERPRET_P3_2_0: Out = reinterpret_p3::<2, 0>();
const C_REINTERPRET_P3_2_1: Out = reinterpret_p3::<2, 1>();
const C_REINTERPRET_P3_2_2: Out = reinterpret_p3::<2, 2>();
const C_REINTERPRET_P3_2_3: Out = reinterpret_p3::<2, 3>();
const C_REINTERPRET_P3_2_4: Out = reinterpret_p3::<2, 4>();
const C_REINTERPRET_P3_2_8: Out = reinterpret_p3::<2, 8>();
const C_BYVALUE_P3_2: Out = byvalue_p3::<2>();
const C_NATIVE_CHUNKS_P3_2_0: Out = native_chunks_p3::<2, 0>();
const C_NATIVE_CHUNKS_P3_2_1: Out = native_chunks_p3::<2, 1>();
const C_NATIVE_CHUNKS_P3_2_2: Out = native_chunks_p3::<2, 2>();
const C_NATIVE_CHUNKS_P3_2_3: Out = native_chunks_p3::<2, 3>();
const C_CHUNKS_P3_3_0: Out = chunks_p3::<3, 0>();
const C_CHUNKS_MUT_P3_3_0: Out = chunks_mut_p3::<3, 0>();
const C_CHUNKS_P3_3_1: Out = chunks_p3::<3, 1>();
const C_CHUNKS_MUT_P3_3_1: Out = chunks_mut_p3::<3, 1>();
const C_CHUNKS_P3_3_2: Out = chunks_p3::<3, 2>();
const C_CHUNKS_MUT_P3_3_2: Out = chunks_mut_p3::<3, 2>();
const C_CHUNKS_P3_3_3: Out = chunks_p3::<3, 3>();
const C_CHUNKS_MUT_P3_3_3: Out = chunks_mut_p3::<3, 3>();
const C_CHUNKS_P3_3_4: Out = chunks_p3::<3, 4>();
const C_CHUNKS_MUT_P3_3_4: Out = chunks_mut_p3::<3, 4>();
const C_CHUNKS_P3_3_5: Out = chunks_p3::<3, 5>();
const C_CHUNKS_MUT_P3_3_5: Out = chunks_mut_p3::<3, 5>();
const C_CHUNKS_P3_3_6: Out = chunks_p3::<3, 6>();
const C_CHUNKS_MUT_P3_3_6: Out = chunks_mut_p3::<3, 6>();
const C_CHUNKS_P3_3_7: Out = chunks_p3::<3, 7>();
const C_CHUNKS_MUT_P3_3_7: Out = chunks_mut_p3::<3, 7>();
const C_CHUNKS_P3_3_8: Out = chunks_p3::<3, 8>();
const C_CHUNKS_MUT_P3_3_8: Out = chunks_mut_p3::<3, 8>();
const C_CHUNKS_P3_3_9: Out = chunks_p3::<3, 9>();
const C_CHUNKS_MUT_P3_3_9: Out = chunks_mut_p3::<3, 9>();
const C_CHUNKS_P3_3_10: Out = chunks_p3::<3, 10>();
const C_CHUNKS_MUT_P3_3_10: Out = chunks_mut_p3::<3, 10>();
const C_CHUNKS_P3_3_11: Out = chunks_p3::<3, 11>();
const C_CHUNKS_MUT_P3_3_11: Out = chunks_mut_p3::<3, 11>();
const C_REINTERPRET_P3_3_0: Out = reinterpret_p3::<3, 0>();
const C_REINTERPRET_P3_3_1: Out = reinterpret_p3::<3, 1>();
const C_REINTERPRET_P3_3_2: Out = reinterpret_p3::<3, 2>();
const C_REINTERPRET_P3_3_3: Out = reinterpret_p3::<3, 3>();
const C_REINTERPRET_P3_3_4: Out = reinterpret_p3::<3, 4>();
const C_REINTERPRET_P3_3_6: Out = reinterpret_p3::<3, 6>();
const C_REINTERPRET_P3_3_11: Out = reinterpret_p3::<3, 11>();
const C_BYVALUE_P3_3: Out = byvalue_p3::<3>();
const C_NATIVE_CHUNKS_P3_3_0: Out = native_chunks_p3::<3, 0>();
const C_NATIVE_CHUNKS_P3_3_1: Out = native_chunks_p3::<3, 1>();
const C_NATIVE_CHUNKS_P3_3_2: Out = native_chunks_p3::<3, 2>();
const C_NATIVE_CHUNKS_P3_3_3: Out = native_chunks_p3::<3, 3>();
const C_CHUNKS_P3_7_0: Out = chunks_p3::<7, 0>();
const C_CHUNKS_MUT_P3_7_0: Out = chunks_mut_p3::<7, 0>();
const C_CHUNKS_P3_7_1: Out = chunks_p3::<7, 1>();
const C_CHUNKS_MUT_P3_7_1: Out = chunks_mut_p3::<7, 1>();
const C_CHUNKS_P3_7_2: Out = chunks_p3::<7, 2>();
const C_CHUNKS_MUT_P3_7_2: Out = chunks_mut_p3::<7, 2>();
const C_CHUNKS_P3_7_3: Out = chunks_p3::<7, 3>();
const C_CHUNKS_MUT_P3_7_3: Out = chunks_mut_p3::<7, 3>();
const C_CHUNKS_P3_7_4: Out = chunks_p3::<7, 4>();
const C_CHUNKS_MUT_P3_7_4: Out = chunks_mut_p3::<7, 4>();
const C_CHUNKS_P3_7_5: Out = chunks_p3::<7, 5>();
const C_CHUNKS_MUT_P3_7_5: Out = chunks_mut_p3::<7, 5>();
const C_CHUNKS_P3_7_6: Out = chunks_p3::<7, 6>();
const C_CHUNKS_MUT_P3_7_6: Out = chunks_mut_p3::<7, 6>();
const C_CHUNKS_P3_7_7: Out = chunks_p3::<7, 7>();
const C_CHUNKS_MUT_P3_7_7: Out = chunks_mut_p3::<7, 7>();
const C_CHUNKS_P3_7_8: Out = chunks_p3::<7, 8>();
const C_CHUNKS_MUT_P3_7_8: Out = chunks_mut_p3::<7, 8>();
const C_CHUNKS_P3_7_9: Out = chunks_p3::<7, 9>();
const C_CHUNKS_MUT_P3_7_9: Out = chunks_mut_p3::<7, 9>();
const C_CHUNKS_P3_7_10: Out = chunks_p3::<7, 10>();
const C_CHUNKS_MUT_P3_7_10: Out = chunks_mut_p3::<7, 10>();
const C_CHUNKS_P3_7_11: Out = chunks_p3::<7, 11>();
const C_CHUNKS_MUT_P3_7_11: Out = chunks_mut_p3::<7, 11>();
const C_CHUNKS_P3_7_12: Out = chunks_p3::<7, 12>();
const C_CHUNKS_MUT_P3_7_12: Out = chunks_mut_p3::<7, 12>();
const C_CHUNKS_P3_7_13: Out = chunks_p3::<7, 13>();
const C_CHUNKS_MUT_P3_7_13: Out = chunks_mut_p3::<7, 13>();
const C_CHUNKS_P3_7_14: Out = chunks_p3::<7, 14>();
const C_CHUNKS_MUT_P3_7_14: Out = chunks_mut_p3::<7, 14>();
const C_CHUNKS_P3_7_15: Out = chunks_p3::<7, 15>();
const C_CHUNKS_MUT_P3_7_15: Out = chunks_mut_p3::<7, 15>();
const C_CHUNKS_P3_7_16: Out = chunks_p3::<7, 16>();
const C_CHUNKS_MUT_P3_7_16: Out = chunks_mut_p3::<7, 16>();
const C_CHUNKS_P3_7_17: Out = chunks_p3::<7, 17>();
const C_CHUNKS_MUT_P3_7_17: Out = chunks_mut_p3::<7, 17>();
const C_CHUNKS_P3_7_18: Out = chunks_p3::<7, 18>();
const C_CHUNKS_MUT_P3_7_18: Out = chunks_mut_p3::<7, 18>();
const C_CHUNKS_P3_7_19: Out = chunks_p3::<7, 19>();
const C_CHUNKS_MUT_P3_7_19: Out = chunks_mut_p3::<7, 19>();
const C_CHUNKS_P3_7_20: Out = chunks_p3::<7, 20>();
const C_CHUNKS_MUT_P3_7_20: Out = chunks_mut_p3::<7, 20>();
const C_CHUNKS_P3_7_21: Out = chunks_p3::<7, 21>();
const C_CHUNKS_MUT_P3_7_21: Out = chunks_mut_p3::<7, 21>();
const C_CHUNKS_P3_7_22: Out = chunks_p3::<7, 22>();
const C_CHUNKS_MUT_P3_7_22: Out = chunks_mut_p3::<7, 22>();
const C_CHUNKS_P3_7_23: Out = chunks_p3::<7, 23>();
const C_CHUNKS_MUT_P3_7_23: Out = chunks_mut_p3::<7, 23>();
const C_REINTERPRET_P3_7_0: Out = reinterpret_p3::<7, 0>();
const C_REINTERPRET_P3_7_1: Out = reinterpret_p3::<7, 1>();
const C_REINTERPRET_P3_7_6: Out = reinterpret_p3::<7, 6>();
const C_REINTERPRET_P3_7_7: Out = reinterpret_p3::<7, 7>();
const C_REINTERPRET_P3_7_8: Out = reinterpret_p3::<7, 8>();
const C_REINTERPRET_P3_7_14: Out = reinterpret_p3::<7, 14>();
const C_REINTERPRET_P3_7_23: Out = reinterpret_p3::<7, 23>();
const C_BYVALUE_P3_7: Out = byvalue_p3::<7>();
const C_NATIVE_CHUNKS_P3_7_0: Out = native_chunks_p3::<7, 0>();
const C_NATIVE_CHUNKS_P3_7_1: Out = native_chunks_p3::<7, 1>();
const C_NATIVE_CHUNKS_P3_7_2: Out = native_chunks_p3::<7, 2>();
const C_NATIVE_CHUNKS_P3_7_3: Out = native_chunks_p3::<7, 3>();
const C_CHUNKS_P3_8_0: Out = chunks_p3::<8, 0>();
const C_CHUNKS_MUT_P3_8_0: Out = chunks_mut_p3::<8, 0>();
const C_CHUNKS_P3_8_1: Out = chunks_p3::<8, 1>();
const C_CHUNKS_MUT_P3_8_1: Out = chunks_mut_p3::<8, 1>();
const C_CHUNKS_P3_8_2: Out = chunks_p3::<8, 2>();
const C_CHUNKS_MUT_P3_8_2: Out = chunks_mut_p3::<8, 2>();
const C_CHUNKS_P3_8_3: Out = chunks_p3::<8, 3>();
const C_CHUNKS_MUT_P3_8_3: Out = chunks_mut_p3::<8, 3>();
const C_CHUNKS_P3_8_4: Out = chunks_p3::<8, 4>();
const C_CHUNKS_MUT_P3_8_4: Out = chunks_mut_p3::<8, 4>();
const C_CHUNKS_P3_8_5: Out = chunks_p3::<8, 5>();
const C_CHUNKS_MUT_P3_8_5: Out = chunks_mut_p3::<8, 5>();
const C_CHUNKS_P3_8_6: Out = chunks_p3::<8, 6>();
const C_CHUNKS_MUT_P3_8_6: Out = chunks_mut_p3::<8, 6>();
const C_CHUNKS_P3_8_7: Out = chunks_p3::<8, 7>();
const C_CHUNKS_MUT_P3_8_7: Out = chunks_mut_p3::<8, 7>();
const C_CHUNKS_P3_8_8: Out = chunks_p3::<8, 8>();
const C_CHUNKS_MUT_P3_8_8: Out = chunks_mut_p3::<8, 8>();
const C_CHUNKS_P3_8_9: Out = chunks_p3::<8, 9>();
const C_CHUNKS_MUT_P3_8_9: Out = chunks_mut_p3::<8, 9>();
const C_CHUNKS_P3_8_10: Out = chunks_p3::<8, 10>();
const C_CHUNKS_MUT_P3_8_10: Out = chunks_mut_p3::<8, 10>();
const C_CHUNKS_P3_8_11: Out = chunks_p3::<8, 11>();
const C_CHUNKS_MUT_P3_8_11: Out = chunks_mut_p3::<8, 11>();
const C_CHUNKS_P3_8_12: Out = chunks_p3::<8, 12>();
const C_CHUNKS_MUT_P3_8_12: Out = chunks_mut_p3::<8, 12>();
const C_CHUNKS_P3_8_13: Out = chunks_p3::<8, 13>();
const C_CHUNKS_MUT_P3_8_13: Out = chunks_mut_p3::<8, 13>();
const C_CHUNKS_P3_8_14: Out = chunks_p3::<8, 14>();
const C_CHUNKS_MUT_P3_8_14: Out = chunks_mut_p3::<8, 14>();
const C_CHUNKS_P3_8_15: Out = chunks_p3::<8, 15>();
const C_CHUNKS_MUT_P3_8_15: Out = chunks_mut_p3::<8, 15>();
const C_CHUNKS_P3_8_16: Out = chunks_p3::<8, 16>();
const C_CHUNKS_MUT_P3_8_16: Out = chunks_mut_p3::<8, 16>();
const C_CHUNKS_P3_8_17: Out = chunks_p3::<8, 17>();
const C_CHUNKS_MUT_P3_8_17: Out = chunks_mut_p3::<8, 17>();
const C_CHUNKS_P3_8_18: Out = chunks_p3::<8, 18>();
const C_CHUNKS_MUT_P3_8_18: Out = chunks_mut_p3::<8, 18>();
const C_CHUNKS_P3_8_19: Out = chunks_p3::<8, 19>();
const C_CHUNKS_MUT_P3_8_19: Out = chunks_mut_p3::<8, 19>();
const C_CHUNKS_P3_8_20: Out = chunks_p3::<8, 20>();
const C_CHUNKS_MUT_P3_8_20: Out = chunks_mut_p3::<8, 20>();
const C_CHUNKS_P3_8_21: Out = chunks_p3::<8, 21>();
const C_CHUNKS_MUT_P3_8_21: Out = chunks_mut_p3::<8, 21>();
const C_CHUNKS_P3_8_22: Out = chunks_p3::<8, 22>();
const C_CHUNKS_MUT_P3_8_22: Out = chunks_mut_p3::<8, 22>();
const C_CHUNKS_P3_8_23: Out = chunks_p3::<8, 23>();
const C_CHUNKS_MUT_P3_8_23: Out = chunks_mut_p3::<8, 23>();
const C_CHUNKS_P3_8_24: Out = chunks_p3::<8, 24>();
const C_CHUNKS_MUT_P3_8_24: Out = chunks_mut_p3::<8, 24>();
const C_CHUNKS_P3_8_25: Out = chunks_p3::<8, 25>();
const C_CHUNKS_MUT_P3_8_25: Out = chunks_mut_p3::<8, 25>();
const C_CHUNKS_P3_8_26: Out = chunks_p3::<8, 26>();
const C_CHUNKS_MUT_P3_8_26: Out = chunks_mut_p3::<8, 26>();
const C_REINTERPRET_P3_8_0: Out = reinterpret_p3::<8, 0>();
const C_REINTERPRET_P3_8_1: Out = reinterpret_p3::<8, 1>();
const C_REINTERPRET_P3_8_7: Out = reinterpret_p3::<8, 7>();
const C_REINTERPRET_P3_8_8: Out = reinterpret_p3::<8, 8>();
const C_REINTERPRET_P3_8_9: Out = reinterpret_p3::<8, 9>();
const C_REINTERPRET_P3_8_16: Out = reinterpret_p3::<8, 16>();
const C_REINTERPRET_P3_8_26: Out = reinterpret_p3::<8, 26>();
const C_BYVALUE_P3_8: Out = byvalue_p3::<8>();
const C_NATIVE_CHUNKS_P3_8_0: Out = native_chunks_p3::<8, 0>();
const C_NATIVE_CHUNKS_P3_8_1: Out = native_chunks_p3::<8, 1>();
const C_NATIVE_CHUNKS_P3_8_2: Out = native_chunks_p3::<8, 2>();
const C_NATIVE_CHUNKS_P3_8_3: Out = native_chunks_p3::<8, 3>();
const C_CHUNKS_P3_16_0: Out = chunks_p3::<16, 0>();
const C_CHUNKS_MUT_P3_16_0: Out = chunks_mut_p3::<16, 0>();
const C_CHUNKS_P3_16_1: Out = chunks_p3::<16, 1>();
const C_CHUNKS_MUT_P3_16_1: Out = chunks_mut_p3::<16, 1>();
const C_CHUNKS_P3_16_2: Out = chunks_p3::<16, 2>();
const C_CHUNKS_MUT_P3_16_2: Out = chunks_mut_p3::<16, 2>();
const C_CHUNKS_P3_16_3: Out = chunks_p3::<16, 3>();
const C_CHUNKS_MUT_P3_16_3: Out = chunks_mut_p3::<16, 3>();
const C_CHUNKS_P3_16_4: Out = chunks_p3::<16, 4>();
const C_CHUNKS_MUT_P3_16_4: Out = chunks_mut_p3::<16, 4>();
const C_CHUNKS_P3_16_5: Out = chunks_p3::<16, 5>();
const C_CHUNKS_MUT_P3_16_5: Out = chunks_mut_p3::<16, 5>();
const C_CHUNKS_P3_16_6: Out = chunks_p3::<16, 6>();
const C_CHUNKS_MUT_P3_16_6: Out = chunks_mut_p3::<16, 6>();
const C_CHUNKS_P3_16_7: Out = chunks_p3::<16, 7>();
const C_CHUNKS_MUT_P3_16_7: Out = chunks_mut_p3::<16, 7>();
const C_CHUNKS_P3_16_8: Out = chunks_p3::<16, 8>();
const C_CHUNKS_MUT_P3_16_8: Out = chunks_mut_p3::<16, 8>();
const C_CHUNKS_P3_16_9: Out = chunks_p3::<16, 9>();
const C_CHUNKS_MUT_P3_16_9: Out = chunks_mut_p3::<16, 9>();
const C_CHUNKS_P3_16_10: Out = chunks_p3::<16, 10>();
const C_CHUNKS_MUT_P3_16_10: Out = chunks_mut_p3::<16, 10>();
const C_CHUNKS_P3_16_11: Out = chunks_p3::<16, 11>();
const C_CHUNKS_MUT_P3_16_11: Out = chunks_mut_p3::<16, 11>();
const C_CHUNKS_P3_16_12: Out = chunks_p3::<16, 12>();
const C_CHUNKS_MUT_P3_16_12: Out = chunks_mut_p3::<16, 12>();
const C_CHUNKS_P3_16_13: Out = chunks_p3::<16, 13>();
const C_CHUNKS_MUT_P3_16_13: Out = chunks_mut_p3::<16, 13>();
const C_CHUNKS_P3_16_14: Out = chunks_p3::<16, 14>();
const C_CHUNKS_MUT_P3_16_14: Out = chunks_mut_p3::<16, 14>();
const C_CHUNKS_P3_16_15: Out = chunks_p3::<16, 15>();
const C_CHUNKS_MUT_P3_16_15: Out = chunks_mut_p3::<16, 15>();
const C_CHUNKS_P3_16_16: Out = chunks_p3::<16, 16>();
const C_CHUNKS_MUT_P3_16_16: Out = chunks_mut_p3::<16, 16>();
const C_CHUNKS_P3_16_17: Out = chunks_p3::<16, 17>();
const C_CHUNKS_MUT_P3_16_17: Out = chunks_mut_p3::<16, 17>();
const C_CHUNKS_P3_16_18: Out = chunks_p3::<16, 18>();
const C_CHUNKS_MUT_P3_16_18: Out = chunks_mut_p3::<16, 18>();
const C_CHUNKS_P3_16_19: Out = chunks_p3::<16, 19>();
const C_CHUNKS_MUT_P3_16_19: Out = chunks_mut_p3::<16, 19>();
const C_CHUNKS_P3_16_20: Out = chunks_p3::<16, 20>();
const C_CHUNKS_MUT_P3_16_20: Out = chunks_mut_p3::<16, 20>();
const C_CHUNKS_P3_16_21: Out = chunks_p3::<16, 21>();
const C_CHUNKS_MUT_P3_16_21: Out = chunks_mut_p3::<16, 21>();
const C_CHUNKS_P3_16_22: Out = chunks_p3::<16, 22>();
const C_CHUNKS_MUT_P3_16_22: Out = chunks_mut_p3::<16, 22>();
const C_CHUNKS_P3_16_23: Out = chunks_p3::<16, 23>();
const C_CHUNKS_MUT_P3_16_23: Out = chunks_mut_p3::<16, 23>();
const C_CHUNKS_P3_16_24: Out = chunks_p3::<16, 24>();
const C_CHUNKS_MUT_P3_16_24: Out = chunks_mut_p3::<16, 24>();
const C_CHUNKS_P3_16_25: Out = chunks_p3::<16, 25>();
const C_CHUNKS_MUT_P3_16_25: Out = chunks_mut_p3::<16, 25>();
const C_CHUNKS_P3_16_26: Out = chunks_p3::<16, 26>();
const C_CHUNKS_MUT_P3_16_26: Out = chunks_mut_p3::<16, 26>();
const C_CHUNKS_P3_16_27: Out = chunks_p3::<16, 27>();
const C_CHUNKS_MUT_P3_16_27: Out = chunks_mut_p3::<16, 27>();
const C_CHUNKS_P3_16_28: Out = chunks_p3::<16, 28>();
const C_CHUNKS_MUT_P3_16_28: Out = chunks_mut_p3::<16, 28>();
const C_CHUNKS_P3_16_29: Out = chunks_p3::<16, 29>();
const C_CHUNKS_MUT_P3_16_29: Out = chunks_mut_p3::<16, 29>();
const C_CHUNKS_P3_16_30: Out = chunks_p3::<16, 30>();
const C_CHUNKS_MUT_P3_16_30: Out = chunks_mut_p3::<16, 30>();
const C_CHUNKS_P3_16_31: Out = chunks_p3::<16, 31>();
const C_CHUNKS_MUT_P3_16_31: Out = chunks_mut_p3::<16, 31>();
const C_CHUNKS_P3_16_32: Out = chunks_p3::<16, 32>();
const C_CHUNKS_MUT_P3_16_32: Out = chunks_mut_p3::<16, 32>();
const C_CHUNKS_P3_16_33: Out = chunks_p3::<16, 33>();
const C_CHUNKS_MUT_P3_16_33: Out = chunks_mut_p3::<16, 33>();
const C_CHUNKS_P3_16_34: Out = chunks_p3::<16, 34>();
const C_CHUNKS_MUT_P3_16_34: Out = chunks_mut_p3::<16, 34>();
const C_CHUNKS_P3_16_35: Out = chunks_p3::<16, 35>();
const C_CHUNKS_MUT_P3_16_35: Out = chunks_mut_p3::<16, 35>();
const C_CHUNKS_P3_16_36: Out = chunks_p3::<16, 36>();
const C_CHUNKS_MUT_P3_16_36: Out = chunks_mut_p3::<16, 36>();
const C_CHUNKS_P3_16_37: Out = chunks_p3::<16, 37>();
const C_CHUNKS_MUT_P3_16_37: Out = chunks_mut_p3::<16, 37>();
const C_CHUNKS_P3_16_38: Out = chunks_p3::<16, 38>();
const C_CHUNKS_MUT_P3_16_38: Out = chunks_mut_p3::<16, 38>();
const C_CHUNKS_P3_16_39: Out = chunks_p3::<16, 39>();
const C_CHUNKS_MUT_P3_16_39: Out = chunks_mut_p3::<16, 39>();
const C_CHUNKS_P3_16_40: Out = chunks_p3::<16, 40>();
const C_CHUNKS_MUT_P3_16_40: Out = chunks_mut_p3::<16, 40>();
const C_CHUNKS_P3_16_41: Out = chunks_p3::<16, 41>();
const C_CHUNKS_MUT_P3_16_41: Out = chunks_mut_p3::<16, 41>();
const C_CHUNKS_P3_16_42: Out = chunks_p3::<16, 42>();
const C_CHUNKS_MUT_P3_16_42: Out = chunks_mut_p3::<16, 42>();
const C_CHUNKS_P3_16_43: Out = chunks_p3::<16, 43>();
const C_CHUNKS_MUT_P3_16_43: Out = chunks_mut_p3::<16, 43>();
const C_CHUNKS_P3_16_44: Out = chunks_p3::<16, 44>();
const C_CHUNKS_MUT_P3_16_44: Out = chunks_mut_p3::<16, 44>();
const C_CHUNKS_P3_16_45: Out = chunks_p3::<16, 45>();
const C_CHUNKS_MUT_P3_16_45: Out = chunks_mut_p3::<16, 45>();
const C_CHUNKS_P3_16_46: Out = chunks_p3::<16, 46>();
const C_CHUNKS_MUT_P3_16_46: Out = chunks_mut_p3::<16, 46>();
const C_CHUNKS_P3_16_47: Out = chunks_p3::<16, 47>();
const C_CHUNKS_MUT_P3_16_47: Out = chunks_mut_p3::<16, 47>();
const C_CHUNKS_P3_16_48: Out = chunks_p3::<16, 48>();
const C_CHUNKS_MUT_P3_16_48: Out = chunks_mut_p3::<16, 48>();
const C_CHUNKS_P3_16_49: Out = chunks_p3::<16, 49>();
const C_CHUNKS_MUT_P3_16_49: Out = chunks_mut_p3::<16, 49>();
const C_CHUNKS_P3_16_50: Out = chunks_p3::<16, 50>();
const C_CHUNKS_MUT_P3_16_50: Out = chunks_mut_p3::<16, 50>();
const C_REINTERPRET_P3_16_0: Out = reinterpret_p3::<16, 0>();
const C_REINTERPRET_P3_16_1: Out = reinterpret_p3::<16, 1>();
const C_REINTERPRET_P3_16_15: Out = reinterpret_p3::<16, 15>();
const C_REINTERPRET_P3_16_16: Out = reinterpret_p3::<16, 16>();
const C_REINTERPRET_P3_16_17: Out = reinterpret_p3::<16, 17>();
const C_REINTERPRET_P3_16_32: Out = reinterpret_p3::<16, 32>();
const C_REINTERPRET_P3_16_50: Out = reinterpret_p3::<16, 50>();
const C_BYVALUE_P3_16: Out = byvalue_p3::<16>();
const C_NATIVE_CHUNKS_P3_16_0: Out = native_chunks_p3::<16, 0>();
const C_NATIVE_CHUNKS_P3_16_1: Out = native_chunks_p3::<16, 1>();
const C_NATIVE_CHUNKS_P3_16_2: Out = native_chunks_p3::<16, 2>();
const C_NATIVE_CHUNKS_P3_16_3: Out = native_chunks_p3::<16, 3>();
const C_CHUNKS_P3_17_0: Out = chunks_p3::<17, 0>();
const C_CHUNKS_MUT_P3_17_0: Out = chunks_mut_p3::<17, 0>();
const C_CHUNKS_P3_17_1: Out = chunks_p3::<17, 1>();
const C_CHUNKS_MUT_P3_17_1: Out = chunks_mut_p3::<17, 1>();
const C_CHUNKS_P3_17_2: Out = chunks_p3::<17, 2>();
const C_CHUNKS_MUT_P3_17_2: Out = chunks_mut_p3::<17, 2>();
const C_CHUNKS_P3_17_3: Out = chunks_p3::<17, 3>();
const C_CHUNKS_MUT_P3_17_3: Out = chunks_mut_p3::<17, 3>();
const C_CHUNKS_P3_17_4: Out = chunks_p3::<17, 4>();
const C_CHUNKS_MUT_P3_17_4: Out = chunks_mut_p3::<17, 4>();
const C_CHUNKS_P3_17_5: Out = chunks_p3::<17, 5>();
const C_CHUNKS_MUT_P3_17_5: Out = chunks_mut_p3::<17, 5>();
const C_CHUNKS_P3_17_6: Out = chunks_p3::<17, 6>();
const C_CHUNKS_MUT_P3_17_6: Out = chunks_mut_p3::<17, 6>();
const C_CHUNKS_P3_17_7: Out = chunks_p3::<17, 7>();
const C_CHUNKS_MUT_P3_17_7: Out = chunks_mut_p3::<17, 7>();
const C_CHUNKS_P3_17_8: Out = chunks_p3::<17, 8>();
const C_CHUNKS_MUT_P3_17_8: Out = chunks_mut_p3::<17, 8>();
const C_CHUNKS_P3_17_9: Out = chunks_p3::<17, 9>();
const C_CHUNKS_MUT_P3_17_9: Out = chunks_mut_p3::<17, 9>();
const C_CHUNKS_P3_17_10: Out = chunks_p3::<17, 10>();
const C_CHUNKS_MUT_P3_17_10: Out = chunks_mut_p3::<17, 10>();
const C_CHUNKS_P3_17_11: Out = chunks_p3::<17, 11>();
const C_CHUNKS_MUT_P3_17_11: Out = chunks_mut_p3::<17, 11>();
const C_CHUNKS_P3_17_12: Out = chunks_p3::<17, 12>();
const C_CHUNKS_MUT_P3_17_12: Out = chunks_mut_p3::<17, 12>();
const C_CHUNKS_P3_17_13: Out = chunks_p3::<17, 13>();
const C_CHUNKS_MUT_P3_17_13: Out = chunks_mut_p3::<17, 13>();
const C_CHUNKS_P3_17_14: Out = chunks_p3::<17, 14>();
const C_CHUNKS_MUT_P3_17_14: Out = chunks_mut_p3::<17, 14>();
const C_CHUNKS_P3_17_15: Out = chunks_p3::<17, 15>();
const C_CHUNKS_MUT_P3_17_15: Out = chunks_mut_p3::<17, 15>();
const C_CHUNKS_P3_17_16: Out = chunks_p3::<17, 16>();
const C_CHUNKS_MUT_P3_17_16: Out = chunks_mut_p3::<17, 16>();
const C_CHUNKS_P3_17_17: Out = chunks_p3::<17, 17>();
const C_CHUNKS_MUT_P3_17_17: Out = chunks_mut_p3::<17, 17>();
const C_CHUNKS_P3_17_18: Out = chunks_p3::<17, 18>();
const C_CHUNKS_MUT_P3_17_18: Out = chunks_mut_p3::<17, 18>();
const C_CHUNKS_P3_17_19: Out = chunks_p3::<17, 19>();
const C_CHUNKS_MUT_P3_17_19: Out = chunks_mut_p3::<17, 19>();
const C_CHUNKS_P3_17_20: Out = chunks_p3::<17, 20>();
const C_CHUNKS_MUT_P3_17_20: Out = chunks_mut_p3::<17, 20>();
const C_CHUNKS_P3_17_21: Out = chunks_p3::<17, 21>();
const C_CHUNKS_MUT_P3_17_21: Out = chunks_mut_p3::<17, 21>();
const C_CHUNKS_P3_17_22: Out = chunks_p3::<17, 22>();
const C_CHUNKS_MUT_P3_17_22: Out = chunks_mut_p3::<17, 22>();
const C_CHUNKS_P3_17_23: Out = chunks_p3::<17, 23>();
const C_CHUNKS_MUT_P3_17_23: Out = chunks_mut_p3::<17, 23>();
const C_CHUNKS_P3_17_24: Out = chunks_p3::<17, 24>();
const C_CHUNKS_MUT_P3_17_24: Out = chunks_mut_p3::<17, 24>();
const C_CHUNKS_P3_17_25: Out = chunks_p3::<17, 25>();
const C_CHUNKS_MUT_P3_17_25: Out = chunks_mut_p3::<17, 25>();
const C_CHUNKS_P3_17_26: Out = chunks_p3::<17, 26>();
const C_CHUNKS_MUT_P3_17_26: Out = chunks_mut_p3::<17, 26>();
const C_CHUNKS_P3_17_27: Out = chunks_p3::<17, 27>();
const C_CHUNKS_MUT_P3_17_27: Out = chunks_mut_p3::<17, 27>();
const C_CHUNKS_P3_17_28: Out = chunks_p3::<17, 28>();
const C_CHUNKS_MUT_P3_17_28: Out = chunks_mut_p3::<17, 28>();
const C_CHUNKS_P3_17_29: Out = chunks_p3::<17, 29>();
const C_CHUNKS_MUT_P3_17_29: Out = chunks_mut_p3::<17, 29>();
const C_CHUNKS_P3_17_30: Out = chunks_p3::<17, 30>();
const C_CHUNKS_MUT_P3_17_30: Out = chunks_mut_p3::<17, 30>();
const C_CHUNKS_P3_17_31: Out = chunks_p3::<17, 31>();
const C_CHUNKS_MUT_P3_17_31: Out = chunks_mut_p3::<17, 31>();
const C_CHUNKS_P3_17_32: Out = chunks_p3::<17, 32>();
const C_CHUNKS_MUT_P3_17_32: Out = chunks_mut_p3::<17, 32>();
const C_CHUNKS_P3_17_33: Out = chunks_p3::<17, 33>();
const C_CHUNKS_MUT_P3_17_33: Out = chunks_mut_p3::<17, 33>();
const C_CHUNKS_P3_17_34: Out = chunks_p3::<17, 34>();
const C_CHUNKS_MUT_P3_17_34: Out = chunks_mut_p3::<17, 34>();
const C_CHUNKS_P3_17_35: Out = chunks_p3::<17, 35>();
const C_CHUNKS_MUT_P3_17_35: Out = chunks_mut_p3::<17, 35>();
const C_CHUNKS_P3_17_36: Out = chunks_p3::<17, 36>();
const C_CHUNKS_MUT_P3_17_36: Out = chunks_mut_p3::<17, 36>();
const C_CHUNKS_P3_17_37: Out = chunks_p3::<17, 37>();
const C_CHUNKS_MUT_P3_17_37: Out = chunks_mut_p3::<17, 37>();
const C_CHUNKS_P3_17_38: Out = chunks_p3::<17, 38>();
const C_CHUNKS_MUT_P3_17_38: Out = chunks_mut_p3::<17, 38>();
const C_CHUNKS_P3_17_39: Out = chunks_p3::<17, 39>();
const C_CHUNKS_MUT_P3_17_39: Out = chunks_mut_p3::<17, 39>();
const C_CHUNKS_P3_17_40: Out = chunks_p3::<17, 40>();
const C_CHUNKS_MUT_P3_17_40: Out = chunks_mut_p3::<17, 40>();
const C_CHUNKS_P3_17_41: Out = chunks_p3::<17, 41>();
const C_CHUNKS_MUT_P3_17_41: Out = chunks_mut_p3::<17, 41>();
const C_CHUNKS_P3_17_42: Out = chunks_p3::<17, 42>();
const C_CHUNKS_MUT_P3_17_42: Out = chunks_mut_p3::<17, 42>();
const C_CHUNKS_P3_17_43: Out = chunks_p3::<17, 43>();
const C_CHUNKS_MUT_P3_17_43: Out = chunks_mut_p3::<17, 43>();
const C_CHUNKS_P3_17_44: Out = chunks_p3::<17, 44>();
const C_CHUNKS_MUT_P3_17_44: Out = chunks_mut_p3::<17, 44>();
const C_CHUNKS_P3_17_45: Out = chunks_p3::<17, 45>();
const C_CHUNKS_MUT_P3_17_45: Out = chunks_mut_p3::<17, 45>();
const C_CHUNKS_P3_17_46: Out = chunks_p3::<17, 46>();
const C_CHUNKS_MUT_P3_17_46: Out = chunks_mut_p3::<17, 46>();
const C_CHUNKS_P3_17_47: Out = chunks_p3::<17, 47>();
const C_CHUNKS_MUT_P3_17_47: Out = chunks_mut_p3::<17, 47>();
const C_CHUNKS_P3_17_48: Out = chunks_p3::<17, 48>();
const C_CHUNKS_MUT_P3_17_48: Out = chunks_mut_p3::<17, 48>();
const C_CHUNKS_P3_17_49: Out = chunks_p3::<17, 49>();
const C_CHUNKS_MUT_P3_17_49: Out = chunks_mut_p3::<17, 49>();
const C_CHUNKS_P3_17_50: Out = chunks_p3::<17, 50>();
const C_CHUNKS_MUT_P3_17_50: Out = chunks_mut_p3::<17, 50>();
const C_CHUNKS_P3_17_51: Out = chunks_p3::<17, 51>();
const C_CHUNKS_MUT_P3_17_51: Out = chunks_mut_p3::<17, 51>();
const C_CHUNKS_P3_17_52: Out = chunks_p3::<17, 52>();
const C_CHUNKS_MUT_P3_17_52: Out = chunks_mut_p3::<17, 52>();
const C_CHUNKS_P3_17_53: Out = chunks_p3::<17, 53>();
const C_CHUNKS_MUT_P3_17_53: Out = chunks_mut_p3::<17, 53>();
const C_REINTERPRET_P3_17_0: Out = reinterpret_p3::<17, 0>();
const C_REINTERPRET_P3_17_1: Out = reinterpret_p3::<17, 1>();
const C_REINTERPRET_P3_17_16: Out = reinterpret_p3::<17, 16>();
const C_REINTERPRET_P3_17_17: Out = reinterpret_p3::<17, 17>();
const C_REINTERPRET_P3_17_18: Out = reinterpret_p3::<17, 18>();
const C_REINTERPRET_P3_17_34: Out = reinterpret_p3::<17, 34>();
const C_REINTERPRET_P3_17_53: Out = reinterpret_p3::<17, 53>();
const C_BYVALUE_P3_17: Out = byvalue_p3::<17>();
const C_NATIVE_CHUNKS_P3_17_0: Out = native_chunks_p3::<17, 0>();
const C_NATIVE_CHUNKS_P3_17_1: Out = native_chunks_p3::<17, 1>();
const C_NATIVE_CHUNKS_P3_17_2: Out = native_chunks_p3::<17, 2>();
const C_NATIVE_CHUNKS_P3_17_3: Out = native_chunks_p3::<17, 3>();
const C_CHUNKS_P3_33_0: Out = chunks_p3::<33, 0>();
const C_CHUNKS_MUT_P3_33_0: Out = chunks_mut_p3::<33, 0>();
const C_CHUNKS_P3_33_1: Out = chunks_p3::<33, 1>();
const C_CHUNKS_MUT_P3_33_1: Out = chunks_mut_p3::<33, 1>();
const C_CHUNKS_P3_33_32: Out = chunks_p3::<33, 32>();
const C_CHUNKS_MUT_P3_33_32: Out = chunks_mut_p3::<33, 32>();
const C_CHUNKS_P3_33_33: Out = chunks_p3::<33, 33>();
const C_CHUNKS_MUT_P3_33_33: Out = chunks_mut_p3::<33, 33>();
const C_CHUNKS_P3_33_34: Out = chunks_p3::<33, 34>();
const C_CHUNKS_MUT_P3_33_34: Out = chunks_mut_p3::<33, 34>();
const C_CHUNKS_P3_33_65: Out = chunks_p3::<33, 65>();
const C_CHUNKS_MUT_P3_33_65: Out = chunks_mut_p3::<33, 65>();
const C_CHUNKS_P3_33_66: Out = chunks_p3::<33, 66>();
const C_CHUNKS_MUT_P3_33_66: Out = chunks_mut_p3::<33, 66>();
const C_CHUNKS_P3_33_67: Out = chunks_p3::<33, 67>();
const C_CHUNKS_MUT_P3_33_67: Out = chunks_mut_p3::<33, 67>();
const C_CHUNKS_P3_33_98: Out = chunks_p3::<33, 98>();
const C_CHUNKS_MUT_P3_33_98: Out = chunks_mut_p3::<33, 98>();
const C_CHUNKS_P3_33_99: Out = chunks_p3::<33, 99>();
const C_CHUNKS_MUT_P3_33_99: Out = chunks_mut_p3::<33, 99>();
const C_CHUNKS_P3_33_100: Out = chunks_p3::<33, 100>();
const C_CHUNKS_MUT_P3_33_100: Out = chunks_mut_p3::<33, 100>();
const C_CHUNKS_P3_33_101: Out = chunks_p3::<33, 101>();
const C_CHUNKS_MUT_P3_33_101: Out = chunks_mut_p3::<33, 101>();
const C_REINTERPRET_P3_33_0: Out = reinterpret_p3::<33, 0>();
const C_REINTERPRET_P3_33_1: Out = reinterpret_p3::<33, 1>();
const C_REINTERPRET_P3_33_32: Out = reinterpret_p3::<33, 32>();
const C_REINTERPRET_P3_33_33: Out = reinterpret_p3::<33, 33>();
const C_REINTERPRET_P3_33_34: Out = reinterpret_p3::<33, 34>();
const C_REINTERPRET_P3_33_66: Out = reinterpret_p3::<33, 66>();
const C_REINTERPRET_P3_33_101: Out = reinterpret_p3::<33, 101>();
const C_BYVALUE_P3_33: Out = byvalue_p3::<33>();
const C_NATIVE_CHUNKS_P3_33_0: Out = native_chunks_p3::<33, 0>();
const C_NATIVE_CHUNKS_P3_33_1: Out = native_chunks_p3::<33, 1>();
const C_NATIVE_CHUNKS_P3_33_2: Out = native_chunks_p3::<33, 2>();
const C_NATIVE_CHUNKS_P3_33_3: Out = native_chunks_p3::<33, 3>();
const C_CHUNKS_P3_64_0: Out = chunks_p3::<64, 0>();
const C_CHUNKS_MUT_P3_64_0: Out = chunks_mut_p3::<64, 0>();
const C_CHUNKS_P3_64_1: Out = chunks_p3::<64, 1>();
const C_CHUNKS_MUT_P3_64_1: Out = chunks_mut_p3::<64, 1>();
const C_CHUNKS_P3_64_63: Out = chunks_p3::<64, 63>();
const C_CHUNKS_MUT_P3_64_63: Out = chunks_mut_p3::<64, 63>();
const C_CHUNKS_P3_64_64: Out = chunks_p3::<64, 64>();
const C_CHUNKS_MUT_P3_64_64: Out = chunks_mut_p3::<64, 64>();
const C_CHUNKS_P3_64_65: Out = chunks_p3::<64, 65>();
const C_CHUNKS_MUT_P3_64_65: Out = chunks_mut_p3::<64, 65>();
const C_CHUNKS_P3_64_127: Out = chunks_p3::<64, 127>();
const C_CHUNKS_MUT_P3_64_127: Out = chunks_mut_p3::<64, 127>();
const C_CHUNKS_P3_64_128: Out = chunks_p3::<64, 128>();
const C_CHUNKS_MUT_P3_64_128: Out = chunks_mut_p3::<64, 128>();
const C_CHUNKS_P3_64_129: Out = chunks_p3::<64, 129>();
const C_CHUNKS_MUT_P3_64_129: Out = chunks_mut_p3::<64, 129>();
const C_CHUNKS_P3_64_191: Out = chunks_p3::<64, 191>();
const C_CHUNKS_MUT_P3_64_191: Out = chunks_mut_p3::<64, 191>();
const C_CHUNKS_P3_64_192: Out = chunks_p3::<64, 192>();
const C_CHUNKS_MUT_P3_64_192: Out = chunks_mut_p3::<64, 192>();
const C_CHUNKS_P3_64_193: Out = chunks_p3::<64, 193>();
const C_CHUNKS_MUT_P3_64_193: Out = chunks_mut_p3::<64, 193>();
const C_CHUNKS_P3_64_194: Out = chunks_p3::<64, 194>();
const C_CHUNKS_MUT_P3_64_194: Out = chunks_mut_p3::<64, 194>();
const C_REINTERPRET_P3_64_0: Out = reinterpret_p3::<64, 0>();
const C_REINTERPRET_P3_64_1: Out = reinterpret_p3::<64, 1>();
const C_REINTERPRET_P3_64_63: Out = reinterpret_p3::<64, 63>();
const C_REINTERPRET_P3_64_64: Out = reinterpret_p3::<64, 64>();
const C_REINTERPRET_P3_64_65: Out = reinterpret_p3::<64, 65>();
const C_REINTERPRET_P3_64_128: Out = reinterpret_p3::<64, 128>();
const C_REINTERPRET_P3_64_194: Out = reinterpret_p3::<64, 194>();
const C_BYVALUE_P3_64: Out = byvalue_p3::<64>();
const C_NATIVE_CHUNKS_P3_64_0: Out = native_chunks_p3::<64, 0>();
const C_NATIVE_CHUNKS_P3_64_1: Out = native_chunks_p3::<64, 1>();
const C_NATIVE_CHUNKS_P3_64_2: Out = native_chunks_p3::<64, 2>();
const C_NATIVE_CHUNKS_P3_64_3: Out = native_chunks_p3::<64, 3>();
const C_CHUNKS_P3_100_0: Out = chunks_p3::<100, 0>();
const C_CHUNKS_MUT_P3_100_0: Out = chunks_mut_p3::<100, 0>();
const C_CHUNKS_P3_100_1: Out = chunks_p3::<100, 1>();
const C_CHUNKS_MUT_P3_100_1: Out = chunks_mut_p3::<100, 1>();
const C_CHUNKS_P3_100_99: Out = chunks_p3::<100, 99>();
const C_CHUNKS_MUT_P3_100_99: Out = chunks_mut_p3::<100, 99>();
const C_CHUNKS_P3_100_100: Out = chunks_p3::<100, 100>();
const C_CHUNKS_MUT_P3_100_100: Out = chunks_mut_p3::<100, 100>();
const C_CHUNKS_P3_100_101: Out = chunks_p3::<100, 101>();
const C_CHUNKS_MUT_P3_100_101: Out = chunks_mut_p3::<100, 101>();
const C_CHUNKS_P3_100_199: Out = chunks_p3::<100, 199>();
const C_CHUNKS_MUT_P3_100_199: Out = chunks_mut_p3::<100, 199>();
const C_CHUNKS_P3_100_200: Out = chunks_p3::<100, 200>();
const C_CHUNKS_MUT_P3_100_200: Out = chunks_mut_p3::<100, 200>();
const C_CHUNKS_P3_100_201: Out = chunks_p3::<100, 201>();
const C_CHUNKS_MUT_P3_100_201: Out = chunks_mut_p3::<100, 201>();
const C_CHUNKS_P3_100_302: Out = chunks_p3::<100, 302>();
const C_CHUNKS_MUT_P3_100_302: Out = chunks_mut_p3::<100, 302>();
const C_REINTERPRET_P3_100_0: Out = reinterpret_p3::<100, 0>();
const C_REINTERPRET_P3_100_1: Out = reinterpret_p3::<100, 1>();
const C_REINTERPRET_P3_100_99: Out = reinterpret_p3::<100, 99>();
const C_REINTERPRET_P3_100_100: Out = reinterpret_p3::<100, 100>();
const C_REINTERPRET_P3_100_101: Out = reinterpret_p3::<100, 101>();
const C_REINTERPRET_P3_100_200: Out = reinterpret_p3::<100, 200>();
const C_REINTERPRET_P3_100_302: Out = reinterpret_p3::<100, 302>();
const C_BYVALUE_P3_100: Out = byvalue_p3::<100>();
const C_NATIVE_CHUNKS_P3_100_0: Out = native_chunks_p3::<100, 0>();
const C_NATIVE_CHUNKS_P3_100_1: Out = native_chunks_p3::<100, 1>();
const C_NATIVE_CHUNKS_P3_100_2: Out = native_chunks_p3::<100, 2>();
const C_NATIVE_CHUNKS_P3_100_3: Out = native_chunks_p3::<100, 3>();
const C_CHUNKS_P3_1024_0: Out = chunks_p3::<1024, 0>();
const C_CHUNKS_MUT_P3_1024_0: Out = chunks_mut_p3::<1024, 0>();
const C_CHUNKS_P3_1024_1: Out = chunks_p3::<1024, 1>();
const C_CHUNKS_MUT_P3_1024_1: Out = chunks_mut_p3::<1024, 1>();
const C_CHUNKS_P3_1024_1023: Out = chunks_p3::<1024, 1023>();
const C_CHUNKS_MUT_P3_1024_1023: Out = chunks_mut_p3::<1024, 1023>();
const C_CHUNKS_P3_1024_1024: Out = chunks_p3::<1024, 1024>();
const C_CHUNKS_MUT_P3_1024_1024: Out = chunks_mut_p3::<1024, 1024>();
const C_CHUNKS_P3_1024_1025: Out = chunks_p3::<1024, 1025>();
const C_CHUNKS_MUT_P3_1024_1025: Out = chunks_mut_p3::<1024, 1025>();
const C_CHUNKS_P3_1024_2047: Out = chunks_p3::<1024, 2047>();
const C_CHUNKS_MUT_P3_1024_2047: Out = chunks_mut_p3::<1024, 2047>();
const C_CHUNKS_P3_1024_2048: Out = chunks_p3::<1024, 2048>();
const C_CHUNKS_MUT_P3_1024_2048: Out = chunks_mut_p3::<1024, 2048>();
const C_CHUNKS_P3_1024_2049: Out = chunks_p3::<1024, 2049>();
const C_CHUNKS_MUT_P3_1024_2049: Out = chunks_mut_p3::<1024, 2049>();
const C_CHUNKS_P3_1024_3074: Out = chunks_p3::<1024, 3074>();
const C_CHUNKS_MUT_P3_1024_3074: Out = chunks_mut_p3::<1024, 3074>();
const C_REINTERPRET_P3_1024_0: Out = reinterpret_p3::<1024, 0>();
const C_REINTERPRET_P3_1024_1: Out = reinterpret_p3::<1024, 1>();
const C_REINTERPRET_P3_1024_1023: Out = reinterpret_p3::<1024, 1023>();
const C_REINTERPRET_P3_1024_1024: Out = reinterpret_p3::<1024, 1024>();
const C_REINTERPRET_P3_1024_1025: Out = reinterpret_p3::<1024, 1025>();
const C_REINTERPRET_P3_1024_2048: Out = reinterpret_p3::<1024, 2048>();
const C_REINTERPRET_P3_1024_3074: Out = reinterpret_p3::<1024, 3074>();
const C_BYVALUE_P3_1024: Out = byvalue_p3::<1024>();
const C_NATIVE_CHUNKS_P3_1024_0: Out = native_chunks_p3::<1024, 0>();
const C_NATIVE_CHUNKS_P3_1024_1: Out = native_chunks_p3::<1024, 1>();
const C_NATIVE_CHUNKS_P3_1024_2: Out = native_chunks_p3::<1024, 2>();
const C_NATIVE_CHUNKS_P3_1024_3: Out = native_chunks_p3::<1024, 3>();
const C_CHUNKS_UNIT_0_0: Out = chunks_unit::<0, 0>();
const C_CHUNKS_MUT_UNIT_0_0: Out = chunks_mut_unit::<0, 0>();
const C_REINTERPRET_UNIT_0_0: Out = reinterpret_unit::<0, 0>();
const C_REINTERPRET_UNIT_0_1: Out = reinterpret_unit::<0, 1>();
const C_REINTERPRET_UNIT_0_2: Out = reinterpret_unit::<0, 2>();
const C_BYVALUE_UNIT_0: Out = byvalue_unit::<0>();
const C_NATIVE_CHUNKS_UNIT_0_0: Out = native_chunks_unit::<0, 0>();
const C_NATIVE_CHUNKS_UNIT_0_1: Out = native_chunks_unit::<0, 1>();
const C_NATIVE_CHUNKS_UNIT_0_2: Out = native_chunks_unit::<0, 2>();
const C_NATIVE_CHUNKS_UNIT_0_3: Out = native_chunks_unit::<0, 3>();
const C_CHUNKS_UNIT_1_0: Out = chunks_unit::<1, 0>();
const C_CHUNKS_MUT_UNIT_1_0: Out = chunks_mut_unit::<1, 0>();
const C_CHUNKS_UNIT_1_1: Out = chunks_unit::<1, 1>();
const C_CHUNKS_MUT_UNIT_1_1: Out = chunks_mut_unit::<1, 1>();
const C_CHUNKS_UNIT_1_2: Out = chunks_unit::<1, 2>();
const C_CHUNKS_MUT_UNIT_1_2: Out = chunks_mut_unit::<1, 2>();
const C_CHUNKS_UNIT_1_3: Out = chunks_unit::<1, 3>();
const C_CHUNKS_MUT_UNIT_1_3: Out = chunks_mut_unit::<1, 3>();
const C_CHUNKS_UNIT_1_4: Out = chunks_unit::<1, 4>();
const C_CHUNKS_MUT_UNIT_1_4: Out = chunks_mut_unit::<1, 4>();
const C_CHUNKS_UNIT_1_5: Out = chunks_unit::<1, 5>();
const C_CHUNKS_MUT_UNIT_1_5: Out = chunks_mut_unit::<1, 5>();
const C_REINTERPRET_UNIT_1_0: Out = reinterpret_unit::<1, 0>();
const C_REINTERPRET_UNIT_1_1: Out = reinterpret_unit::<1, 1>();
const C_REINTERPRET_UNIT_1_2: Out = reinterpret_unit::<1, 2>();
const C_REINTERPRET_UNIT_1_5: Out = reinterpret_unit::<1, 5>();
const C_BYVALUE_UNIT_1: Out = byvalue_unit::<1>();
const C_NATIVE_CHUNKS_UNIT_1_0: Out = native_chunks_unit::<1, 0>();
const C_NATIVE_CHUNKS_UNIT_1_1: Out = native_chunks_unit::<1, 1>();
const C_NATIVE_CHUNKS_UNIT_1_2: Out = native_chunks_unit::<1, 2>();
const C_NATIVE_CHUNKS_UNIT_1_3: Out = native_chunks_unit::<1, 3>();
const C_CHUNKS_UNIT_2_0: Out = chunks_unit::<2, 0>();
const C_CHUNKS_MUT_UNIT_2_0: Out = chunks_mut_unit::<2, 0>();
const C_CHUNKS_UNIT_2_1: Out = chunks_unit::<2, 1>();
const C_CHUNKS_MUT_UNIT_2_1: Out = chunks_mut_unit::<2, 1>();
const C_CHUNKS_UNIT_2_2: Out = chunks_unit::<2, 2>();
const C_CHUNKS_MUT_UNIT_2_2: Out = chunks_mut_unit::<2, 2>();
const C_CHUNKS_UNIT_2_3: Out = chunks_unit::<2, 3>();
const C_CHUNKS_MUT_UNIT_2_3: Out = chunks_mut_unit::<2, 3>();
const C_CHUNKS_UNIT_2_4: Out = chunks_unit::<2, 4>();
const C_CHUNKS_MUT_UNIT_2_4: Out = chunks_mut_unit::<2, 4>();
const C_CHUNKS_UNIT_2_5: Out = chunks_unit::<2, 5>();
const C_CHUNKS_MUT_UNIT_2_5: Out = chunks_mut_unit::<2, 5>();
const C_CHUNKS_UNIT_2_6: Out = chunks_unit::<2, 6>();
const C_CHUNKS_MUT_UNIT_2_6: Out = chunks_mut_unit::<2, 6>();
const C_CHUNKS_UNIT_2_7: Out = chunks_unit::<2, 7>();
const C_CHUNKS_MUT_UNIT_2_7: Out = chunks_mut_unit::<2, 7>();
const C_CHUNKS_UNIT_2_8: Out = chunks_unit::<2, 8>();
const C_CHUNKS_MUT_UNIT_2_8: Out = chunks_mut_unit::<2, 8>();
const C_REINTERPRET_UNIT_2_0: Out = reinterpret_unit::<2, 0>();
const C_REINTERPRET_UNIT_2_1: Out = reinterpret_unit::<2, 1>();
const C_REINTERPRET_UNIT_2_2: Out = reinterpret_unit::<2, 2>();
const C_REINTERPRET_UNIT_2_3: Out = reinterpret_unit::<2, 3>();
const C_REINTERPRET_UNIT_2_4: Out = reinterpret_unit::<2, 4>();
const C_REINTERPRET_UNIT_2_8: Out = reinterpret_unit::<2, 8>();
const C_BYVALUE_UNIT_2: Out = byvalue_unit::<2>();
const C_NATIVE_CHUNKS_UNIT_2_0: Out = native_chunks_unit::<2, 0>();
const C_NATIVE_CHUNKS_UNIT_2_1: Out = native_chunks_unit::<2, 1>();
const C_NATIVE_CHUNKS_UNIT_2_2: Out = native_chunks_unit::<2, 2>();
const C_NATIVE_CHUNKS_UNIT_2_3: Out = native_chunks_unit::<2, 3>();
const C_CHUNKS_UNIT_3_0: Out = chunks_unit::<3, 0>();
const C_CHUNKS_MUT_UNIT_3_0: Out = chunks_mut_unit::<3, 0>();
const C_CHUNKS_UNIT_3_1: Out = chunks_unit::<3, 1>();
const C_CHUNKS_MUT_UNIT_3_1: Out = chunks_mut_unit::<3, 1>();
const C_CHUNKS_UNIT_3_2: Out = chunks_unit::<3, 2>();
const C_CHUNKS_MUT_UNIT_3_2: Out = chunks_mut_unit::<3, 2>();
const C_CHUNKS_UNIT_3_3: Out = chunks_unit::<3, 3>();
const C_CHUNKS_MUT_UNIT_3_3: Out = chunks_mut_unit::<3, 3>();
const C_CHUNKS_UNIT_3_4: Out = chunks_unit::<3, 4>();
const C_CHUNKS_MUT_UNIT_3_4: Out = chunks_mut_unit::<3, 4>();
const C_CHUNKS_UNIT_3_5: Out = chunks_unit::<3, 5>();
const C_CHUNKS_MUT_UNIT_3_5: Out = chunks_mut_unit::<3, 5>();
const C_CHUNKS_UNIT_3_6: Out = chunks_unit::<3, 6>();
const C_CHUNKS_MUT_UNIT_3_6: Out = chunks_mut_unit::<3, 6>();
const C_CHUNKS_UNIT_3_7: Out = chunks_unit::<3, 7>();
const C_CHUNKS_MUT_UNIT_3_7: Out = chunks_mut_unit::<3, 7>();
const C_CHUNKS_UNIT_3_8: Out = chunks_unit::<3, 8>();
const C_CHUNKS_MUT_UNIT_3_8: Out = chunks_mut_unit::<3, 8>();
const C_CHUNKS_UNIT_3_9: Out = chunks_unit::<3, 9>();
const C_CHUNKS_MUT_UNIT_3_9: Out = chunks_mut_unit::<3, 9>();
const C_CHUNKS_UNIT_3_10: Out = chunks_unit::<3, 10>();
const C_CHUNKS_MUT_UNIT_3_10: Out = chunks_mut_unit::<3, 10>();
const C_CHUNKS_UNIT_3_11: Out = chunks_unit::<3, 11>();
const C_CHUNKS_MUT_UNIT_3_11: Out = chunks_mut_unit::<3, 11>();
const C_REINTERPRET_UNIT_3_0: Out = reinterpret_unit::<3, 0>();
const C_REINTERPRET_UNIT_3_1: Out = reinterpret_unit::<3, 1>();
const C_REINTERPRET_UNIT_3_2: Out = reinterpret_unit::<3, 2>();
const C_REINTERPRET_UNIT_3_3: Out = reinterpret_unit::<3, 3>();
const C_REINTERPRET_UNIT_3_4: Out = reinterpret_unit::<3, 4>();
const C_REINTERPRET_UNIT_3_6: Out = reinterpret_unit::<3, 6>();
const C_REINTERPRET_UNIT_3_11: Out = reinterpret_unit::<3, 11>();
const C_BYVALUE_UNIT_3: Out = byvalue_unit::<3>();
const C_NATIVE_CHUNKS_UNIT_3_0: Out = native_chunks_unit::<3, 0>();
const C_NATIVE_CHUNKS_UNIT_3_1: Out = native_chunks_unit::<3, 1>();
const C_NATIVE_CHUNKS_UNIT_3_2: Out = native_chunks_unit::<3, 2>();
const C_NATIVE_CHUNKS_UNIT_3_3: Out = native_chunks_unit::<3, 3>();
const C_CHUNKS_UNIT_7_0: Out = chunks_unit::<7, 0>();
const C_CHUNKS_MUT_UNIT_7_0: Out = chunks_mut_unit::<7, 0>();
const C_CHUNKS_UNIT_7_1: Out = chunks_unit::<7, 1>();
const C_CHUNKS_MUT_UNIT_7_1: Out = chunks_mut_unit::<7, 1>();
const C_CHUNKS_UNIT_7_2: Out = chunks_unit::<7, 2>();
const C_CHUNKS_MUT_UNIT_7_2: Out = chunks_mut_unit::<7, 2>();
const C_CHUNKS_UNIT_7_3: Out = chunks_unit::<7, 3>();
const C_CHUNKS_MUT_UNIT_7_3: Out = chunks_mut_unit::<7, 3>();
const C_CHUNKS_UNIT_7_4: Out = chunks_unit::<7, 4>();
const C_CHUNKS_MUT_UNIT_7_4: Out = chunks_mut_unit::<7, 4>();
const C_CHUNKS_UNIT_7_5: Out = chunks_unit::<7, 5>();
const C_CHUNKS_MUT_UNIT_7_5: Out = chunks_mut_unit::<7, 5>();
const C_CHUNKS_UNIT_7_6: Out = chunks_unit::<7, 6>();
const C_CHUNKS_MUT_UNIT_7_6: Out = chunks_mut_unit::<7, 6>();
const C_CHUNKS_UNIT_7_7: Out = chunks_unit::<7, 7>();
const C_CHUNKS_MUT_UNIT_7_7: Out = chunks_mut_unit::<7, 7>();
const C_CHUNKS_UNIT_7_8: Out = chunks_unit::<7, 8>();
const C_CHUNKS_MUT_UNIT_7_8: Out = chunks_mut_unit::<7, 8>();
const C_CHUNKS_UNIT_7_9: Out = chunks_unit::<7, 9>();
const C_CHUNKS_MUT_UNIT_7_9: Out = chunks_mut_unit::<7, 9>();
const C_CHUNKS_UNIT_7_10: Out = chunks_unit::<7, 10>();
const C_CHUNKS_MUT_UNIT_7_10: Out = chunks_mut_unit::<7, 10>();
const C_CHUNKS_UNIT_7_11: Out = chunks_unit::<7, 11>();
const C_CHUNKS_MUT_UNIT_7_11: Out = chunks_mut_unit::<7, 11>();
const C_CHUNKS_UNIT_7_12: Out = chunks_unit::<7, 12>();
const C_CHUNKS_MUT_UNIT_7_12: Out = chunks_mut_unit::<7, 12>();
const C_CHUNKS_UNIT_7_13: Out = chunks_unit::<7, 13>();
const C_CHUNKS_MUT_UNIT_7_13: Out = chunks_mut_unit::<7, 13>();
const C_CHUNKS_UNIT_7_14: Out = chunks_unit::<7, 14>();
const C_CHUNKS_MUT_UNIT_7_14: Out = chunks_mut_unit::<7, 14>();
const C_CHUNKS_UNIT_7_15: Out = chunks_unit::<7, 15>();
const C_CHUNKS_MUT_UNIT_7_15: Out = chunks_mut_unit::<7, 15>();
const C_CHUNKS_UNIT_7_16: Out = chunks_unit::<7, 16>();
const C_CHUNKS_MUT_UNIT_7_16: Out = chunks_mut_unit::<7, 16>();
const C_CHUNKS_UNIT_7_17: Out = chunks_unit::<7, 17>();
const C_CHUNKS_MUT_UNIT_7_17: Out = chunks_mut_unit::<7, 17>();
const C_CHUNKS_UNIT_7_18: Out = chunks_unit::<7, 18>();
const C_CHUNKS_MUT_UNIT_7_18: Out = chunks_mut_unit::<7, 18>();
const C_CHUNKS_UNIT_7_19: Out = chunks_unit::<7, 19>();
const C_CHUNKS_MUT_UNIT_7_19: Out = chunks_mut_unit::<7, 19>();
const C_CHUNKS_UNIT_7_20: Out = chunks_unit::<7, 20>();
const C_CHUNKS_MUT_UNIT_7_20: Out = chunks_mut_unit::<7, 20>();
const C_CHUNKS_UNIT_7_21: Out = chunks_unit::<7, 21>();
const C_CHUNKS_MUT_UNIT_7_21: Out = chunks_mut_unit::<7, 21>();
const C_CHUNKS_UNIT_7_22: Out = chunks_unit::<7, 22>();
const C_CHUNKS_MUT_UNIT_7_22: Out = chunks_mut_unit::<7, 22>();
const C_CHUNKS_UNIT_7_23: Out = chunks_unit::<7, 23>();
const C_CHUNKS_MUT_UNIT_7_23: Out = chunks_mut_unit::<7, 23>();
const C_REINTERPRET_UNIT_7_0: Out = reinterpret_unit::<7, 0>();
const C_REINTERPRET_UNIT_7_1: Out = reinterpret_unit::<7, 1>();
const C_REINTERPRET_UNIT_7_6: Out = reinterpret_unit::<7, 6>();
const C_REINTERPRET_UNIT_7_7: Out = reinterpret_unit::<7, 7>();
const C_REINTERPRET_UNIT_7_8: Out = reinterpret_unit::<7, 8>();
const C_REINTERPRET_UNIT_7_14: Out = reinterpret_unit::<7, 14>();
const C_REINTERPRET_UNIT_7_23: Out = reinterpret_unit::<7, 23>();
const C_BYVALUE_UNIT_7: Out = byvalue_unit::<7>();
const C_NATIVE_CHUNKS_UNIT_7_0: Out = native_chunks_unit::<7, 0>();
const C_NATIVE_CHUNKS_UNIT_7_1: Out = native_chunks_unit::<7, 1>();
const C_NATIVE_CHUNKS_UNIT_7_2: Out = native_chunks_unit::<7, 2>();
const C_NATIVE_CHUNKS_UNIT_7_3: Out = native_chunks_unit::<7, 3>();
const C_CHUNKS_UNIT_8_0: Out = chunks_unit::<8, 0>();
const C_CHUNKS_MUT_UNIT_8_0: Out = chunks_mut_unit::<8, 0>();
const C_CHUNKS_UNIT_8_1: Out = chunks_unit::<8, 1>();
const C_CHUNKS_MUT_UNIT_8_1: Out = chunks_mut_unit::<8, 1>();
const C_CHUNKS_UNIT_8_2: Out = chunks_unit::<8, 2>();
const C_CHUNKS_MUT_UNIT_8_2: Out = chunks_mut_unit::<8, 2>();
const C_CHUNKS_UNIT_8_3: Out = chunks_unit::<8, 3>();
const C_CHUNKS_MUT_UNIT_8_3: Out = chunks_mut_unit::<8, 3>();
const C_CHUNKS_UNIT_8_4: Out = chunks_unit::<8, 4>();
const C_CHUNKS_MUT_UNIT_8_4: Out = chunks_mut_unit::<8, 4>();
const C_CHUNKS_UNIT_8_5: Out = chunks_unit::<8, 5>();
const C_CHUNKS_MUT_UNIT_8_5: Out = chunks_mut_unit::<8, 5>();
const C_CHUNKS_UNIT_8_6: Out = chunks_unit::<8, 6>();
const C_CHUNKS_MUT_UNIT_8_6: Out = chunks_mut_unit::<8, 6>();
const C_CHUNKS_UNIT_8_7: Out = chunks_unit::<8, 7>();
const C_CHUNKS_MUT_UNIT_8_7: Out = chunks_mut_unit::<8, 7>();
const C_CHUNKS_UNIT_8_8: Out = chunks_unit::<8, 8>();
const C_CHUNKS_MUT_UNIT_8_8: Out = chunks_mut_unit::<8, 8>();
const C_CHUNKS_UNIT_8_9: Out = chunks_unit::<8, 9>();
const C_CHUNKS_MUT_UNIT_8_9: Out = chunks_mut_unit::<8, 9>();
const C_CHUNKS_UNIT_8_10: Out = chunks_unit::<8, 10>();
const C_CHUNKS_MUT_UNIT_8_10: Out = chunks_mut_unit::<8, 10>();
const C_CHUNKS_UNIT_8_11: Out = chunks_unit::<8, 11>();
const C_CHUNKS_MUT_UNIT_8_11: Out = chunks_mut_unit::<8, 11>();
const C_CHUNKS_UNIT_8_12: Out = chunks_unit::<8, 12>();
const C_CHUNKS_MUT_UNIT_8_12: Out = chunks_mut_unit::<8, 12>();
const C_CHUNKS_UNIT_8_13: Out = chunks_unit::<8, 13>();
const C_CHUNKS_MUT_UNIT_8_13: Out = chunks_mut_unit::<8, 13>();
const C_CHUNKS_UNIT_8_14: Out = chunks_unit::<8, 14>();
const C_CHUNKS_MUT_UNIT_8_14: Out = chunks_mut_unit::<8, 14>();
const C_CHUNKS_UNIT_8_15: Out = chunks_unit::<8, 15>();
const C_CHUNKS_MUT_UNIT_8_15: Out = chunks_mut_unit::<8, 15>();
const C_CHUNKS_UNIT_8_16: Out = chunks_unit::<8, 16>();
const C_CHUNKS_MUT_UNIT_8_16: Out = chunks_mut_unit::<8, 16>();
const C_CHUNKS_UNIT_8_17: Out = chunks_unit::<8, 17>();
const C_CHUNKS_MUT_UNIT_8_17: Out = chunks_mut_unit::<8, 17>();
const C_CHUNKS_UNIT_8_18: Out = chunks_unit::<8, 18>();
const C_CHUNKS_MUT_UNIT_8_18: Out = chunks_mut_unit::<8, 18>();
const C_CHUNKS_UNIT_8_19: Out = chunks_unit::<8, 19>();
const C_CHUNKS_MUT_UNIT_8_19: Out = chunks_mut_unit::<8, 19>();
const C_CHUNKS_UNIT_8_20: Out = chunks_unit::<8, 20>();
const C_CHUNKS_MUT_UNIT_8_20: Out = chunks_mut_unit::<8, 20>();
const C_CHUNKS_UNIT_8_21: Out = chunks_unit::<8, 21>();
const C_CHUNKS_MUT_UNIT_8_21: Out = chunks_mut_unit::<8, 21>();
const C_CHUNKS_UNIT_8_22: Out = chunks_unit::<8, 22>();
const C_CHUNKS_MUT_UNIT_8_22: Out = chunks_mut_unit::<8, 22>();
const C_CHUNKS_UNIT_8_23: Out = chunks_unit::<8, 23>();
const C_CHUNKS_MUT_UNIT_8_23: Out = chunks_mut_unit::<8, 23>();
const C_CHUNKS_UNIT_8_24: Out = chunks_unit::<8, 24>();
const C_CHUNKS_MUT_UNIT_8_24: Out = chunks_mut_unit::<8, 24>();
const C_CHUNKS_UNIT_8_25: Out = chunks_unit::<8, 25>();
const C_CHUNKS_MUT_UNIT_8_25: Out = chunks_mut_unit::<8, 25>();
const C_CHUNKS_UNIT_8_26: Out = chunks_unit::<8, 26>();
const C_CHUNKS_MUT_UNIT_8_26: Out = chunks_mut_unit::<8, 26>();
const C_REINTERPRET_UNIT_8_0: Out = reinterpret_unit::<8, 0>();
const C_REINTERPRET_UNIT_8_1: Out = reinterpret_unit::<8, 1>();
const C_REINTERPRET_UNIT_8_7: Out = reinterpret_unit::<8, 7>();
const C_REINTERPRET_UNIT_8_8: Out = reinterpret_unit::<8, 8>();
const C_REINTERPRET_UNIT_8_9: Out = reinterpret_unit::<8, 9>();
const C_REINTERPRET_UNIT_8_16: Out = reinterpret_unit::<8, 16>();
const C_REINTERPRET_UNIT_8_26: Out = reinterpret_unit::<8, 26>();
const C_BYVALUE_UNIT_8: Out = byvalue_unit::<8>();
const C_NATIVE_CHUNKS_UNIT_8_0: Out = native_chunks_unit::<8, 0>();
const C_NATIVE_CHUNKS_UNIT_8_1: Out = native_chunks_unit::<8, 1>();
const C_NATIVE_CHUNKS_UNIT_8_2: Out = native_chunks_unit::<8, 2>();
const C_NATIVE_CHUNKS_UNIT_8_3: Out = native_chunks_unit::<8, 3>();
const C_CHUNKS_UNIT_16_0: Out = chunks_unit::<16, 0>();
const C_CHUNKS_MUT_UNIT_16_0: Out = chunks_mut_unit::<16, 0>();
const C_CHUNKS_UNIT_16_1: Out = chunks_unit::<16, 1>();
const C_CHUNKS_MUT_UNIT_16_1: Out = chunks_mut_unit::<16, 1>();
const C_CHUNKS_UNIT_16_2: Out = chunks_unit::<16, 2>();
const C_CHUNKS_MUT_UNIT_16_2: Out = chunks_mut_unit::<16, 2>();
const C_CHUNKS_UNIT_16_3: Out = chunks_unit::<16, 3>();
const C_CHUNKS_MUT_UNIT_16_3: Out = chunks_mut_unit::<16, 3>();
const C_CHUNKS_UNIT_16_4: Out = chunks_unit::<16, 4>();
const C_CHUNKS_MUT_UNIT_16_4: Out = chunks_mut_unit::<16, 4>();
const C_CHUNKS_UNIT_16_5: Out = chunks_unit::<16, 5>();
const C_CHUNKS_MUT_UNIT_16_5: Out = chunks_mut_unit::<16, 5>();
const C_CHUNKS_UNIT_16_6: Out = chunks_unit::<16, 6>();
const C_CHUNKS_MUT_UNIT_16_6: Out = chunks_mut_unit::<16, 6>();
const C_CHUNKS_UNIT_16_7: Out = chunks_unit::<16, 7>();
const C_CHUNKS_MUT_UNIT_16_7: Out = chunks_mut_unit::<16, 7>();
const C_CHUNKS_UNIT_16_8: Out = chunks_unit::<16, 8>();
const C_CHUNKS_MUT_UNIT_16_8: Out = chunks_mut_unit::<16, 8>();
const C_CHUNKS_UNIT_16_9: Out = chunks_unit::<16, 9>();
const C_CHUNKS_MUT_UNIT_16_9: Out = chunks_mut_unit::<16, 9>();
const C_CHUNKS_UNIT_16_10: Out = chunks_unit::<16, 10>();
const C_CHUNKS_MUT_UNIT_16_10: Out = chunks_mut_unit::<16, 10>();
const C_CHUNKS_UNIT_16_11: Out = chunks_unit::<16, 11>();
const C_CHUNKS_MUT_UNIT_16_11: Out = chunks_mut_unit::<16, 11>();
const C_CHUNKS_UNIT_16_12: Out = chunks_unit::<16, 12>();
const C_CHUNKS_MUT_UNIT_16_12: Out = chunks_mut_unit::<16, 12>();
const C_CHUNKS_UNIT_16_13: Out = chunks_unit::<16, 13>();
const C_CHUNKS_MUT_UNIT_16_13: Out = chunks_mut_unit::<16, 13>();
const C_CHUNKS_UNIT_16_14: Out = chunks_unit::<16, 14>();
const C_CHUNKS_MUT_UNIT_16_14: Out = chunks_mut_unit::<16, 14>();
const C_CHUNKS_UNIT_16_15: Out = chunks_unit::<16, 15>();
const C_CHUNKS_MUT_UNIT_16_15: Out = chunks_mut_unit::<16, 15>();
const C_CHUNKS_UNIT_16_16: Out = chunks_unit::<16, 16>();
const C_CHUNKS_MUT_UNIT_16_16: Out = chunks_mut_unit::<16, 16>();
const C_CHUNKS_UNIT_16_17: Out = chunks_unit::<16, 17>();
const C_CHUNKS_MUT_UNIT_16_17: Out = chunks_mut_unit::<16, 17>();
const C_CHUNKS_UNIT_16_18: Out = chunks_unit::<16, 18>();
const C_CHUNKS_MUT_UNIT_16_18: Out = chunks_mut_unit::<16, 18>();
const C_CHUNKS_UNIT_16_19: Out = chunks_unit::<16, 19>();
const C_CHUNKS_MUT_UNIT_16_19: Out = chunks_mut_unit::<16, 19>();
const C_CHUNKS_UNIT_16_20: Out = chunks_unit::<16, 20>();
const C_CHUNKS_MUT_UNIT_16_20: Out = chunks_mut_unit::<16, 20>();
const C_CHUNKS_UNIT_16_21: Out = chunks_unit::<16, 21>();
const C_CHUNKS_MUT_UNIT_16_21: Out = chunks_mut_unit::<16, 21>();
const C_CHUNKS_UNIT_16_22: Out = chunks_unit::<16, 22>();
const C_CHUNKS_MUT_UNIT_16_22: Out = chunks_mut_unit::<16, 22>();
const C_CHUNKS_UNIT_16_23: Out = chunks_unit::<16, 23>();
const C_CHUNKS_MUT_UNIT_16_23: Out = chunks_mut_unit::<16, 23>();
const C_CHUNKS_UNIT_16_24: Out = chunks_unit::<16, 24>();
const C_CHUNKS_MUT_UNIT_16_24: Out = chunks_mut_unit::<16, 24>();
const C_CHUNKS_UNIT_16_25: Out = chunks_unit::<16, 25>();
const C_CHUNKS_MUT_UNIT_16_25: Out = chunks_mut_unit::<16, 25>();
const C_CHUNKS_UNIT_16_26: Out = chunks_unit::<16, 26>();
const C_CHUNKS_MUT_UNIT_16_26: Out = chunks_mut_unit::<16, 26>();
const C_CHUNKS_UNIT_16_27: Out = chunks_unit::<16, 27>();
const C_CHUNKS_MUT_UNIT_16_27: Out = chunks_mut_unit::<16, 27>();
const C_CHUNKS_UNIT_16_28: Out = chunks_unit::<16, 28>();
const C_CHUNKS_MUT_UNIT_16_28: Out = chunks_mut_unit::<16, 28>();
const C_CHUNKS_UNIT_16_29: Out = chunks_unit::<16, 29>();
const C_CHUNKS_MUT_UNIT_16_29: Out = chunks_mut_unit::<16, 29>();
const C_CHUNKS_UNIT_16_30: Out = chunks_unit::<16, 30>();
const C_CHUNKS_MUT_UNIT_16_30: Out = chunks_mut_unit::<16, 30>();
const C_CHUNKS_UNIT_16_31: Out = chunks_unit::<16, 31>();
const C_CHUNKS_MUT_UNIT_16_31: Out = chunks_mut_unit::<16, 31>();
const C_CHUNKS_UNIT_16_32: Out = chunks_unit::<16, 32>();
const C_CHUNKS_MUT_UNIT_16_32: Out = chunks_mut_unit::<16, 32>();
const C_CHUNKS_UNIT_16_33: Out = chunks_unit::<16, 33>();
const C_CHUNKS_MUT_UNIT_16_33: Out = chunks_mut_unit::<16, 33>();
const C_CHUNKS_UNIT_16_34: Out = chunks_unit::<16, 34>();
const C_CHUNKS_MUT_UNIT_16_34: Out = chunks_mut_unit::<16, 34>();
const C_CHUNKS_UNIT_16_35: Out = chunks_unit::<16, 35>();
const C_CHUNKS_MUT_UNIT_16_35: Out = chunks_mut_unit::<16, 35>();
const C_CHUNKS_UNIT_16_36: Out = chunks_unit::<16, 36>();
const C_CHUNKS_MUT_UNIT_16_36: Out = chunks_mut_unit::<16, 36>();
const C_CHUNKS_UNIT_16_37: Out = chunks_unit::<16, 37>();
const C_CHUNKS_MUT_UNIT_16_37: Out = chunks_mut_unit::<16, 37>();
const C_CHUNKS_UNIT_16_38: Out = chunks_unit::<16, 38>();
const C_CHUNKS_MUT_UNIT_16_38: Out = chunks_mut_unit::<16, 38>();
const C_CHUNKS_UNIT_16_39: Out = chunks_unit::<16, 39>();
const C_CHUNKS_MUT_UNIT_16_39: Out = chunks_mut_unit::<16, 39>();
const C_CHUNKS_UNIT_16_40: Out = chunks_unit::<16, 40>();
const C_CHUNKS_MUT_UNIT_16_40: Out = chunks_mut_unit::<16, 40>();
const C_CHUNKS_UNIT_16_41: Out = chunks_unit::<16, 41>();
const C_CHUNKS_MUT_UNIT_16_41: Out = chunks_mut_unit::<16, 41>();
const C_CHUNKS_UNIT_16_42: Out = chunks_unit::<16, 42>();
const C_CHUNKS_MUT_UNIT_16_42: Out = chunks_mut_unit::<16, 42>();
const C_CHUNKS_UNIT_16_43: Out = chunks_unit::<16, 43>();
const C_CHUNKS_MUT_UNIT_16_43: Out = chunks_mut_unit::<16, 43>();
const C_CHUNKS_UNIT_16_44: Out = chunks_unit::<16, 44>();
const C_CHUNKS_MUT_UNIT_16_44: Out = chunks_mut_unit::<16, 44>();
const C_CHUNKS_UNIT_16_45: Out = chunks_unit::<16, 45>();
const C_CHUNKS_MUT_UNIT_16_45: Out = chunks_mut_unit::<16, 45>();
const C_CHUNKS_UNIT_16_46: Out = chunks_unit::<16, 46>();
const C_CHUNKS_MUT_UNIT_16_46: Out = chunks_mut_unit::<16, 46>();
const C_CHUNKS_UNIT_16_47: Out = chunks_unit::<16, 47>();
const C_CHUNKS_MUT_UNIT_16_47: Out = chunks_mut_unit::<16, 47>();
const C_CHUNKS_UNIT_16_48: Out = chunks_unit::<16, 48>();
const C_CHUNKS_MUT_UNIT_16_48: Out = chunks_mut_unit::<16, 48>();
const C_CHUNKS_UNIT_16_49: Out = chunks_unit::<16, 49>();
const C_CHUNKS_MUT_UNIT_16_49: Out = chunks_mut_unit::<16, 49>();
const C_CHUNKS_UNIT_16_50: Out = chunks_unit::<16, 50>();
const C_CHUNKS_MUT_UNIT_16_50: Out = chunks_mut_unit::<16, 50>();
const C_REINTERPRET_UNIT_16_0: Out = reinterpret_unit::<16, 0>();
const C_REINTERPRET_UNIT_16_1: Out = reinterpret_unit::<16, 1>();
const C_REINTERPRET_UNIT_16_15: Out = reinterpret_unit::<16, 15>();
const C_REINTERPRET_UNIT_16_16: Out = reinterpret_unit::<16, 16>();
const C_REINTERPRET_UNIT_16_17: Out = reinterpret_unit::<16, 17>();
const C_REINTERPRET_UNIT_16_32: Out = reinterpret_unit::<16, 32>();
const C_REINTERPRET_UNIT_16_50: Out = reinterpret_unit::<16, 50>();
const C_BYVALUE_UNIT_16: Out = byvalue_unit::<16>();
const C_NATIVE_CHUNKS_UNIT_16_0: Out = native_chunks_unit::<16, 0>();
const C_NATIVE_CHUNKS_UNIT_16_1: Out = native_chunks_unit::<16, 1>();
const C_NATIVE_CHUNKS_UNIT_16_2: Out = native_chunks_unit::<16, 2>();
const C_NATIVE_CHUNKS_UNIT_16_3: Out = native_chunks_unit::<16, 3>();
const C_CHUNKS_UNIT_17_0: Out = chunks_unit::<17, 0>();
const C_CHUNKS_MUT_UNIT_17_0: Out = chunks_mut_unit::<17, 0>();
const C_CHUNKS_UNIT_17_1: Out = chunks_unit::<17, 1>();
const C_CHUNKS_MUT_UNIT_17_1: Out = chunks_mut_unit::<17, 1>();
const C_CHUNKS_UNIT_17_2: Out = chunks_unit::<17, 2>();
const C_CHUNKS_MUT_UNIT_17_2: Out = chunks_mut_unit::<17, 2>();
const C_CHUNKS_UNIT_17_3: Out = chunks_unit::<17, 3>();
const C_CHUNKS_MUT_UNIT_17_3: Out = chunks_mut_unit::<17, 3>();
const C_CHUNKS_UNIT_17_4: Out = chunks_unit::<17, 4>();
const C_CHUNKS_MUT_UNIT_17_4: Out = chunks_mut_unit::<17, 4>();
const C_CHUNKS_UNIT_17_5: Out = chunks_unit::<17, 5>();
const C_CHUNKS_MUT_UNIT_17_5: Out = chunks_mut_unit::<17, 5>();
const C_CHUNKS_UNIT_17_6: Out = chunks_unit::<17, 6>();
const C_CHUNKS_MUT_UNIT_17_6: Out = chunks_mut_unit::<17, 6>();
const C_CHUNKS_UNIT_17_7: Out = chunks_unit::<17, 7>();
const C_CHUNKS_MUT_UNIT_17_7: Out = chunks_mut_unit::<17, 7>();
const C_CHUNKS_UNIT_17_8: Out = chunks_unit::<17, 8>();
const C_CHUNKS_MUT_UNIT_17_8: Out = chunks_mut_unit::<17, 8>();
const C_CHUNKS_UNIT_17_9: Out = chunks_unit::<17, 9>();
const C_CHUNKS_MUT_UNIT_17_9: Out = chunks_mut_unit::<17, 9>();
const C_CHUNKS_UNIT_17_10: Out = chunks_unit::<17, 10>();
const C_CHUNKS_MUT_UNIT_17_10: Out = chunks_mut_unit::<17, 10>();
const C_CHUNKS_UNIT_17_11: Out = chunks_unit::<17, 11>();
const C_CHUNKS_MUT_UNIT_17_11: Out = chunks_mut_unit::<17, 11>();
const C_CHUNKS_UNIT_17_12: Out = chunks_unit::<17, 12>();
const C_CHUNKS_MUT_UNIT_17_12: Out = chunks_mut_unit::<17, 12>();
const C_CHUNKS_UNIT_17_13: Out = chunks_unit::<17, 13>();
const C_CHUNKS_MUT_UNIT_17_13: Out = chunks_mut_unit::<17, 13>();
const C_CHUNKS_UNIT_17_14: Out = chunks_unit::<17, 14>();
const C_CHUNKS_MUT_UNIT_17_14: Out = chunks_mut_unit::<17, 14>();
const C_CHUNKS_UNIT_17_15: Out = chunks_unit::<17, 15>();
const C_CHUNKS_MUT_UNIT_17_15: Out = chunks_mut_unit::<17, 15>();
const C_CHUNKS_UNIT_17_16: Out = chunks_unit::<17, 16>();
const C_CHUNKS_MUT_UNIT_17_16: Out = chunks_mut_unit::<17, 16>();
const C_CHUNKS_UNIT_17_17: Out = chunks_unit::<17, 17>();
const C_CHUNKS_MUT_UNIT_17_17: Out = chunks_mut_unit::<17, 17>();
const C_CHUNKS_UNIT_17_18: Out = chunks_unit::<17, 18>();
const C_CHUNKS_MUT_UNIT_17_18: Out = chunks_mut_unit::<17, 18>();
const C_CHUNKS_UNIT_17_19: Out = chunks_unit::<17, 19>();
const C_CHUNKS_MUT_UNIT_17_19: Out = chunks_mut_unit::<17, 19>();
const C_CHUNKS_UNIT_17_20: Out = chunks_unit::<17, 20>();
const C_CHUNKS_MUT_UNIT_17_20: Out = chunks_mut_unit::<17, 20>();
const C_CHUNKS_UNIT_17_21: Out = chunks_unit::<17, 21>();
const C_CHUNKS_MUT_UNIT_17_21: Out = chunks_mut_unit::<17, 21>();
const C_CHUNKS_UNIT_17_22: Out = chunks_unit::<17, 22>();
const C_CHUNKS_MUT_UNIT_17_22: Out = chunks_mut_unit::<17, 22>();
const C_CHUNKS_UNIT_17_23: Out = chunks_unit::<17, 23>();
const C_CHUNKS_MUT_UNIT_17_23: Out = chunks_mut_unit::<17, 23>();
const C_CHUNKS_UNIT_17_24: Out = chunks_unit::<17, 24>();
const C_CHUNKS_MUT_UNIT_17_24: Out = chunks_mut_unit::<17, 24>();
const C_CHUNKS_UNIT_17_25: Out = chunks_unit::<17, 25>();
const C_CHUNKS_MUT_UNIT_17_25: Out = chunks_mut_unit::<17, 25>();
const C_CHUNKS_UNIT_17_26: Out = chunks_unit::<17, 26>();
const C_CHUNKS_MUT_UNIT_17_26: Out = chunks_mut_unit::<17, 26>();
const C_CHUNKS_UNIT_17_27: Out = chunks_unit::<17, 27>();
const C_CHUNKS_MUT_UNIT_17_27: Out = chunks_mut_unit::<17, 27>();
const C_CHUNKS_UNIT_17_28: Out = chunks_unit::<17, 28>();
const C_CHUNKS_MUT_UNIT_17_28: Out = chunks_mut_unit::<17, 28>();
const C_CHUNKS_UNIT_17_29: Out = chunks_unit::<17, 29>();
const C_CHUNKS_MUT_UNIT_17_29: Out = chunks_mut_unit::<17, 29>();
const C_CHUNKS_UNIT_17_30: Out = chunks_unit::<17, 30>();
const C_CHUNKS_MUT_UNIT_17_30: Out = chunks_mut_unit::<17, 30>();
const C_CHUNKS_UNIT_17_31: Out = chunks_unit::<17, 31>();
const C_CHUNKS_MUT_UNIT_17_31: Out = chunks_mut_unit::<17, 31>();
const C_CHUNKS_UNIT_17_32: Out = chunks_unit::<17, 32>();
const C_CHUNKS_MUT_UNIT_17_32: Out = chunks_mut_unit::<17, 32>();
const C_CHUNKS_UNIT_17_33: Out = chunks_unit::<17, 33>();
const C_CHUNKS_MUT_UNIT_17_33: Out = chunks_mut_unit::<17, 33>();
const C_CHUNKS_UNIT_17_34: Out = chunks_unit::<17, 34>();
const C_CHUNKS_MUT_UNIT_17_34: Out = chunks_mut_unit::<17, 34>();
const C_CHUNKS_UNIT_17_35: Out = chunks_unit::<17, 35>();
const C_CHUNKS_MUT_UNIT_17_35: Out = chunks_mut_unit::<17, 35>();
const C_CHUNKS_UNIT_17_36: Out = chunks_unit::<17, 36>();
const C_CHUNKS_MUT_UNIT_17_36: Out = chunks_mut_unit::<17, 36>();
const C_CHUNKS_UNIT_17_37: Out = chunks_unit::<17, 37>();
const C_CHUNKS_MUT_UNIT_17_37: Out = chunks_mut_unit::<17, 37>();
const C_CHUNKS_UNIT_17_38: Out = chunks_unit::<17, 38>();
const C_CHUNKS_MUT_UNIT_17_38: Out = chunks_mut_unit::<17, 38>();
const C_CHUNKS_UNIT_17_39: Out = chunks_unit::<17, 39>();
const C_CHUNKS_MUT_UNIT_17_39: Out = chunks_mut_unit::<17, 39>();
const C_CHUNKS_UNIT_17_40: Out = chunks_unit::<17, 40>();
const C_CHUNKS_MUT_UNIT_17_40: Out = chunks_mut_unit::<17, 40>();
const C_CHUNKS_UNIT_17_41: Out = chunks_unit::<17, 41>();
const C_CHUNKS_MUT_UNIT_17_41: Out = chunks_mut_unit::<17, 41>();
const C_CHUNKS_UNIT_17_42: Out = chunks_unit::<17, 42>();
const C_CHUNKS_MUT_UNIT_17_42: Out = chunks_mut_unit::<17, 42>();
const C_CHUNKS_UNIT_17_43: Out = chunks_unit::<17, 43>();
const C_CHUNKS_MUT_UNIT_17_43: Out = chunks_mut_unit::<17, 43>();
const C_CHUNKS_UNIT_17_44: Out = chunks_unit::<17, 44>();
const C_CHUNKS_MUT_UNIT_17_44: Out = chunks_mut_unit::<17, 44>();
const C_CHUNKS_UNIT_17_45: Out = chunks_unit::<17, 45>();
const C_CHUNKS_MUT_UNIT_17_45: Out = chunks_mut_unit::<17, 45>();
const C_CHUNKS_UNIT_17_46: Out = chunks_unit::<17, 46>();
const C_CHUNKS_MUT_UNIT_17_46: Out = chunks_mut_unit::<17, 46>();
const C_CHUNKS_UNIT_17_47: Out = chunks_unit::<17, 47>();
const C_CHUNKS_MUT_UNIT_17_47: Out = chunks_mut_unit::<17, 47>();
const C_CHUNKS_UNIT_17_48: Out = chunks_unit::<17, 48>();
const C_CHUNKS_MUT_UNIT_17_48: Out = chunks_mut_unit::<17, 48>();
const C_CHUNKS_UNIT_17_49: Out = chunks_unit::<17, 49>();
const C_CHUNKS_MUT_UNIT_17_49: Out = chunks_mut_unit::<17, 49>();
const C_CHUNKS_UNIT_17_50: Out = chunks_unit::<17, 50>();
const C_CHUNKS_MUT_UNIT_17_50: Out = chunks_mut_unit::<17, 50>();
const C_CHUNKS_UNIT_17_51: Out = chunks_unit::<17, 51>();
const C_CHUNKS_MUT_UNIT_17_51: Out = chunks_mut_unit::<17, 51>();
const C_CHUNKS_UNIT_17_52: Out = chunks_unit::<17, 52>();
const C_CHUNKS_MUT_UNIT_17_52: Out = chunks_mut_unit::<17, 52>();
const C_CHUNKS_UNIT_17_53: Out = chunks_unit::<17, 53>();
const C_CHUNKS_MUT_UNIT_17_53: Out = chunks_mut_unit::<17, 53>();
const C_REINTERPRET_UNIT_17_0: Out = reinterpret_unit::<17, 0>();
const C_REINTERPRET_UNIT_17_1: Out = reinterpret_unit::<17, 1>();
const C_REINTERPRET_UNIT_17_16: Out = reinterpret_unit::<17, 16>();
const C_REINTERPRET_UNIT_17_17: Out = reinterpret_unit::<17, 17>();
const C_REINTERPRET_UNIT_17_18: Out = reinterpret_unit::<17, 18>();
const C_REINTERPRET_UNIT_17_34: Out = reinterpret_unit::<17, 34>();
const C_REINTERPRET_UNIT_17_53: Out = reinterpret_unit::<17, 53>();
const C_BYVALUE_UNIT_17: Out = byvalue_unit::<17>();
const C_NATIVE_CHUNKS_UNIT_17_0: Out = native_chunks_unit::<17, 0>();
const C_NATIVE_CHUNKS_UNIT_17_1: Out = native_chunks_unit::<17, 1>();
const C_NATIVE_CHUNKS_UNIT_17_2: Out = native_chunks_unit::<17, 2>();
const C_NATIVE_CHUNKS_UNIT_17_3: Out = native_chunks_unit::<17, 3>();
const C_CHUNKS_UNIT_33_0: Out = chunks_unit::<33, 0>();
const C_CHUNKS_MUT_UNIT_33_0: Out = chunks_mut_unit::<33, 0>();
const C_CHUNKS_UNIT_33_1: Out = chunks_unit::<33, 1>();
const C_CHUNKS_MUT_UNIT_33_1: Out = chunks_mut_unit::<33, 1>();
const C_CHUNKS_UNIT_33_32: Out = chunks_unit::<33, 32>();
const C_CHUNKS_MUT_UNIT_33_32: Out = chunks_mut_unit::<33, 32>();
const C_CHUNKS_UNIT_33_33: Out = chunks_unit::<33, 33>();
const C_CHUNKS_MUT_UNIT_33_33: Out = chunks_mut_unit::<33, 33>();
const C_CHUNKS_UNIT_33_34: Out = chunks_unit::<33, 34>();
const C_CHUNKS_MUT_UNIT_33_34: Out = chunks_mut_unit::<33, 34>();
const C_CHUNKS_UNIT_33_65: Out = chunks_unit::<33, 65>();
const C_CHUNKS_MUT_UNIT_33_65: Out = chunks_mut_unit::<33, 65>();
const C_CHUNKS_UNIT_33_66: Out = chunks_unit::<33, 66>();
const C_CHUNKS_MUT_UNIT_33_66: Out = chunks_mut_unit::<33, 66>();
const C_CHUNKS_UNIT_33_67: Out = chunks_unit::<33, 67>();
const C_CHUNKS_MUT_UNIT_33_67: Out = chunks_mut_unit::<33, 67>();
const C_CHUNKS_UNIT_33_98: Out = chunks_unit::<33, 98>();
const C_CHUNKS_MUT_UNIT_33_98: Out = chunks_mut_unit::<33, 98>();
const C_CHUNKS_UNIT_33_99: Out = chunks_unit::<33, 99>();
const C_CHUNKS_MUT_UNIT_33_99: Out = chunks_mut_unit::<33, 99>();
const C_CHUNKS_UNIT_33_100: Out = chunks_unit::<33, 100>();
const C_CHUNKS_MUT_UNIT_33_100: Out = chunks_mut_unit::<33, 100>();
const C_CHUNKS_UNIT_33_101: Out = chunks_unit::<33, 101>();
const C_CHUNKS_MUT_UNIT_33_101: Out = chunks_mut_unit::<33, 101>();
const C_REINTERPRET_UNIT_33_0: Out = reinterpret_unit::<33, 0>();
const C_REINTERPRET_UNIT_33_1: Out = reinterpret_unit::<33, 1>();
const C_REINTERPRET_UNIT_33_32: Out = reinterpret_unit::<33, 32>();
const C_REINTERPRET_UNIT_33_33: Out = reinterpret_unit::<33, 33>();
const C_REINTERPRET_UNIT_33_34: Out = reinterpret_unit::<33, 34>();
const C_REINTERPRET_UNIT_33_66: Out = reinterpret_unit::<33, 66>();
const C_REINTERPRET_UNIT_33_101: Out = reinterpret_unit::<33, 101>();
const C_BYVALUE_UNIT_33: Out = byvalue_unit::<33>();
const C_NATIVE_CHUNKS_UNIT_33_0: Out = native_chunks_unit::<33, 0>();
const C_NATIVE_CHUNKS_UNIT_33_1: Out = native_chunks_unit::<33, 1>();
const C_NATIVE_CHUNKS_UNIT_33_2: Out = native_chunks_unit::<33, 2>();
const C_NATIVE_CHUNKS_UNIT_33_3: Out = native_chunks_unit::<33, 3>();
const C_CHUNKS_UNIT_64_0: Out = chunks_unit::<64, 0>();
const C_CHUNKS_MUT_UNIT_64_0: Out = chunks_mut_unit::<64, 0>();
const C_CHUNKS_UNIT_64_1: Out = chunks_unit::<64, 1>();
const C_CHUNKS_MUT_UNIT_64_1: Out = chunks_mut_unit::<64, 1>();
const C_CHUNKS_UNIT_64_63: Out = chunks_unit::<64, 63>();
const C_CHUNKS_MUT_UNIT_64_63: Out = chunks_mut_unit::<64, 63>();
const C_CHUNKS_UNIT_64_64: Out = chunks_unit::<64, 64>();
const C_CHUNKS_MUT_UNIT_64_64: Out = chunks_mut_unit::<64, 64>();
const C_CHUNKS_UNIT_64_65: Out = chunks_unit::<64, 65>();
const C_CHUNKS_MUT_UNIT_64_65: Out = chunks_mut_unit::<64, 65>();
const C_CHUNKS_UNIT_64_127: Out = chunks_unit::<64, 127>();
const C_CHUNKS_MUT_UNIT_64_127: Out = chunks_mut_unit::<64, 127>();
const C_CHUNKS_UNIT_64_128: Out = chunks_unit::<64, 128>();
const C_CHUNKS_MUT_UNIT_64_128: Out = chunks_mut_unit::<64, 128>();
const C_CHUNKS_UNIT_64_129: Out = chunks_unit::<64, 129>();
const C_CHUNKS_MUT_UNIT_64_129: Out = chunks_mut_unit::<64, 129>();
const C_CHUNKS_UNIT_64_191: Out = chunks_unit::<64, 191>();
const C_CHUNKS_MUT_UNIT_64_191: Out = chunks_mut_unit::<64, 191>();
const C_CHUNKS_UNIT_64_192: Out = chunks_unit::<64, 192>();
const C_CHUNKS_MUT_UNIT_64_192: Out = chunks_mut_unit::<64, 192>();
const C_CHUNKS_UNIT_64_193: Out = chunks_unit::<64, 193>();
const C_CHUNKS_MUT_UNIT_64_193: Out = chunks_mut_unit::<64, 193>();
const C_CHUNKS_UNIT_64_194: Out = chunks_unit::<64, 194>();
const C_CHUNKS_MUT_UNIT_64_194: Out = chunks_mut_unit::<64, 194>();
const C_REINTERPRET_UNIT_64_0: Out = reinterpret_unit::<64, 0>();
const C_REINTERPRET_UNIT_64_1: Out = reinterpret_unit::<64, 1>();
const C_REINTERPRET_UNIT_64_63: Out = reinterpret_unit::<64, 63>();
const C_REINTERPRET_UNIT_64_64: Out = reinterpret_unit::<64, 64>();
const C_REINTERPRET_UNIT_64_65: Out = reinterpret_unit::<64, 65>();
const C_REINTERPRET_UNIT_64_128: Out = reinterpret_unit::<64, 128>();
const C_REINTERPRET_UNIT_64_194: Out = reinterpret_unit::<64, 194>();
const C_BYVALUE_UNIT_64: Out = byvalue_unit::<64>();
const C_NATIVE_CHUNKS_UNIT_64_0: Out = native_chunks_unit::<64, 0>();
const C_NATIVE_CHUNKS_UNIT_64_1: Out = native_chunks_unit::<64, 1>();
const C_NATIVE_CHUNKS_UNIT_64_2: Out = native_chunks_unit::<64, 2>();
const C_NATIVE_CHUNKS_UNIT_64_3: Out = native_chunks_unit::<64, 3>();
const C_CHUNKS_UNIT_100_0: Out = chunks_unit::<100, 0>();
const C_CHUNKS_MUT_UNIT_100_0: Out = chunks_mut_unit::<100, 0>();
const C_CHUNKS_UNIT_100_1: Out = chunks_unit::<100, 1>();
const C_CHUNKS_MUT_UNIT_100_1: Out = chunks_mut_unit::<100, 1>();
const C_CHUNKS_UNIT_100_99: Out = chunks_unit::<100, 99>();
const C_CHUNKS_MUT_UNIT_100_99: Out = chunks_mut_unit::<100, 99>();
const C_CHUNKS_UNIT_100_100: Out = chunks_unit::<100, 100>();
const C_CHUNKS_MUT_UNIT_100_100: Out = chunks_mut_unit::<100, 100>();
const C_CHUNKS_UNIT_100_101: Out = chunks_unit::<100, 101>();
const C_CHUNKS_MUT_UNIT_100_101: Out = chunks_mut_unit::<100, 101>();
const C_CHUNKS_UNIT_100_199: Out = chunks_unit::<100, 199>();
const C_CHUNKS_MUT_UNIT_100_199: Out = chunks_mut_unit::<100, 199>();
const C_CHUNKS_UNIT_100_200: Out = chunks_unit::<100, 200>();
const C_CHUNKS_MUT_UNIT_100_200: Out = chunks_mut_unit::<100, 200>();
const C_CHUNKS_UNIT_100_201: Out = chunks_unit::<100, 201>();
const C_CHUNKS_MUT_UNIT_100_201: Out = chunks_mut_unit::<100, 201>();
const C_CHUNKS_UNIT_100_302: Out = chunks_unit::<100, 302>();
const C_CHUNKS_MUT_UNIT_100_302: Out = chunks_mut_unit::<100, 302>();
const C_REINTERPRET_UNIT_100_0: Out = reinterpret_unit::<100, 0>();
const C_REINTERPRET_UNIT_100_1: Out = reinterpret_unit::<100, 1>();
const C_REINTERPRET_UNIT_100_99: Out = reinterpret_unit::<100, 99>();
const C_REINTERPRET_UNIT_100_100: Out = reinterpret_unit::<100, 100>();
const C_REINTERPRET_UNIT_100_101: Out = reinterpret_unit::<100, 101>();
const C_REINTERPRET_UNIT_100_200: Out = reinterpret_unit::<100, 200>();
const C_REINTERPRET_UNIT_100_302: Out = reinterpret_unit::<100, 302>();
const C_BYVALUE_UNIT_100: Out = byvalue_unit::<100>();
const C_NATIVE_CHUNKS_UNIT_100_0: Out = native_chunks_unit::<100, 0>();
const C_NATIVE_CHUNKS_UNIT_100_1: Out = native_chunks_unit::<100, 1>();
const C_NATIVE_CHUNKS_UNIT_100_2: Out = native_chunks_unit::<100, 2>();
const C_NATIVE_CHUNKS_UNIT_100_3: Out = native_chunks_unit::<100, 3>();
const C_CHUNKS_UNIT_1024_0: Out = chunks_unit::<1024, 0>();
const C_CHUNKS_MUT_UNIT_1024_0: Out = chunks_mut_unit::<1024, 0>();
const C_CHUNKS_UNIT_1024_1: Out = chunks_unit::<1024, 1>();
const C_CHUNKS_MUT_UNIT_1024_1: Out = chunks_mut_unit::<1024, 1>();
const C_CHUNKS_UNIT_1024_1023: Out = chunks_unit::<1024, 1023>();
const C_CHUNKS_MUT_UNIT_1024_1023: Out = chunks_mut_unit::<1024, 1023>();
const C_CHUNKS_UNIT_1024_1024: Out = chunks_unit::<1024, 1024>();
const C_CHUNKS_MUT_UNIT_1024_1024: Out = chunks_mut_unit::<1024, 1024>();
const C_CHUNKS_UNIT_1024_1025: Out = chunks_unit::<1024, 1025>();
const C_CHUNKS_MUT_UNIT_1024_1025: Out = chunks_mut_unit::<1024, 1025>();
const C_CHUNKS_UNIT_1024_2047: Out = chunks_unit::<1024, 2047>();
const C_CHUNKS_MUT_UNIT_1024_2047: Out = chunks_mut_unit::<1024, 2047>();
const C_CHUNKS_UNIT_1024_2048: Out = chunks_unit::<1024, 2048>();
const C_CHUNKS_MUT_UNIT_1024_2048: Out = chunks_mut_unit::<1024, 2048>();
const C_CHUNKS_UNIT_1024_2049: Out = chunks_unit::<1024, 2049>();
const C_CHUNKS_MUT_UNIT_1024_2049: Out = chunks_mut_unit::<1024, 2049>();
const C_CHUNKS_UNIT_1024_3074: Out = chunks_unit::<1024, 3074>();
const C_CHUNKS_MUT_UNIT_1024_3074: Out = chunks_mut_unit::<1024, 3074>();
const C_REINTERPRET_UNIT_1024_0: Out = reinterpret_unit::<1024, 0>();
const C_REINTERPRET_UNIT_1024_1: Out = reinterpret_unit::<1024, 1>();
const C_REINTERPRET_UNIT_1024_1023: Out = reinterpret_unit::<1024, 1023>();
const C_REINTERPRET_UNIT_1024_1024: Out = reinterpret_unit::<1024, 1024>();
const C_REINTERPRET_UNIT_1024_1025: Out = reinterpret_unit::<1024, 1025>();
const C_REINTERPRET_UNIT_1024_2048: Out = reinterpret_unit::<1024, 2048>();
const C_REINTERPRET_UNIT_1024_3074: Out = reinterpret_unit::<1024, 3074>();
const C_BYVALUE_UNIT_1024: Out = byvalue_unit::<1024>();
const C_NATIVE_CHUNKS_UNIT_1024_0: Out = native_chunks_unit::<1024, 0>();
const C_NATIVE_CHUNKS_UNIT_1024_1: Out = native_chunks_unit::<1024, 1>();
const C_NATIVE_CHUNKS_UNIT_1024_2: Out = native_chunks_unit::<1024, 2>();
const C_NATIVE_CHUNKS_UNIT_1024_3: Out = native_chunks_unit::<1024, 3>();
const C_CHUNKS_A16_0_0: Out = chunks_a16::<0, 0>();
const C_CHUNKS_MUT_A16_0_0: Out = chunks_mut_a16::<0, 0>();
const C_REINTERPRET_A16_0_0: Out = reinterpret_a16::<0, 0>();
const C_REINTERPRET_A16_0_1: Out = reinterpret_a16::<0, 1>();
const C_REINTERPRET_A16_0_2: Out = reinterpret_a16::<0, 2>();
const C_BYVALUE_A16_0: Out = byvalue_a16::<0>();
const C_NATIVE_CHUNKS_A16_0_0: Out = native_chunks_a16::<0, 0>();
const C_NATIVE_CHUNKS_A16_0_1: Out = native_chunks_a16::<0, 1>();
const C_NATIVE_CHUNKS_A16_0_2: Out = native_chunks_a16::<0, 2>();
const C_NATIVE_CHUNKS_A16_0_3: Out = native_chunks_a16::<0, 3>();
const C_CHUNKS_A16_1_0: Out = chunks_a16::<1, 0>();
const C_CHUNKS_MUT_A16_1_0: Out = chunks_mut_a16::<1, 0>();
const C_CHUNKS_A16_1_1: Out = chunks_a16::<1, 1>();
const C_CHUNKS_MUT_A16_1_1: Out = chunks_mut_a16::<1, 1>();
const C_CHUNKS_A16_1_2: Out = chunks_a16::<1, 2>();
const C_CHUNKS_MUT_A16_1_2: Out = chunks_mut_a16::<1, 2>();
const C_CHUNKS_A16_1_3: Out = chunks_a16::<1, 3>();
const C_CHUNKS_MUT_A16_1_3: Out = chunks_mut_a16::<1, 3>();
const C_CHUNKS_A16_1_4: Out = chunks_a16::<1, 4>();
const C_CHUNKS_MUT_A16_1_4: Out = chunks_mut_a16::<1, 4>();
const C_CHUNKS_A16_1_5: Out = chunks_a16::<1, 5>();
const C_CHUNKS_MUT_A16_1_5: Out = chunks_mut_a16::<1, 5>();
const C_REINTERPRET_A16_1_0: Out = reinterpret_a16::<1, 0>();
const C_REINTERPRET_A16_1_1: Out = reinterpret_a16::<1, 1>();
const C_REINTERPRET_A16_1_2: Out = reinterpret_a16::<1, 2>();
const C_REINTERPRET_A16_1_5: Out = reinterpret_a16::<1, 5>();
const C_BYVALUE_A16_1: Out = byvalue_a16::<1>();
const C_NATIVE_CHUNKS_A16_1_0: Out = native_chunks_a16::<1, 0>();
const C_NATIVE_CHUNKS_A16_1_1: Out = native_chunks_a16::<1, 1>();
const C_NATIVE_CHUNKS_A16_1_2: Out = native_chunks_a16::<1, 2>();
const C_NATIVE_CHUNKS_A16_1_3: Out = native_chunks_a16::<1, 3>();
const C_CHUNKS_A16_2_0: Out = chunks_a16::<2, 0>();
const C_CHUNKS_MUT_A16_2_0: Out = chunks_mut_a16::<2, 0>();
const C_CHUNKS_A16_2_1: Out = chunks_a16::<2, 1>();
const C_CHUNKS_MUT_A16_2_1: Out = chunks_mut_a16::<2, 1>();
const C_CHUNKS_A16_2_2: Out = chunks_a16::<2, 2>();
const C_CHUNKS_MUT_A16_2_2: Out = chunks_mut_a16::<2, 2>();
const C_CHUNKS_A16_2_3: Out = chunks_a16::<2, 3>();
const C_CHUNKS_MUT_A16_2_3: Out = chunks_mut_a16::<2, 3>();
const C_CHUNKS_A16_2_4: Out = chunks_a16::<2, 4>();
const C_CHUNKS_MUT_A16_2_4: Out = chunks_mut_a16::<2, 4>();
const C_CHUNKS_A16_2_5: Out = chunks_a16::<2, 5>();
const C_CHUNKS_MUT_A16_2_5: Out = chunks_mut_a16::<2, 5>();
const C_CHUNKS_A16_2_6: Out = chunks_a16::<2, 6>();
const C_CHUNKS_MUT_A16_2_6: Out = chunks_mut_a16::<2, 6>();
const C_CHUNKS_A16_2_7: Out = chunks_a16::<2, 7>();
const C_CHUNKS_MUT_A16_2_7: Out = chunks_mut_a16::<2, 7>();
const C_CHUNKS_A16_2_8: Out = chunks_a16::<2, 8>();
const C_CHUNKS_MUT_A16_2_8: Out = chunks_mut_a16::<2, 8>();
const C_REINTERPRET_A16_2_0: Out = reinterpret_a16::<2, 0>();
const C_REINTERPRET_A16_2_1: Out = reinterpret_a16::<2, 1>();
const C_REINTERPRET_A16_2_2: Out = reinterpret_a16::<2, 2>();
const C_REINTERPRET_A16_2_3: Out = reinterpret_a16::<2, 3>();
const C_REINTERPRET_A16_2_4: Out = reinterpret_a16::<2, 4>();
const C_REINTERPRET_A16_2_8: Out = reinterpret_a16::<2, 8>();
const C_BYVALUE_A16_2: Out = byvalue_a16::<2>();
const C_NATIVE_CHUNKS_A16_2_0: Out = native_chunks_a16::<2, 0>();
const C_NATIVE_CHUNKS_A16_2_1: Out = native_chunks_a16::<2, 1>();
const C_NATIVE_CHUNKS_A16_2_2: Out = native_chunks_a16::<2, 2>();
const C_NATIVE_CHUNKS_A16_2_3: Out = native_chunks_a16::<2, 3>();
const C_CHUNKS_A16_3_0: Out = chunks_a16::<3, 0>();
const C_CHUNKS_MUT_A16_3_0: Out = chunks_mut_a16::<3, 0>();
const C_CHUNKS_A16_3_1: Out = chunks_a16::<3, 1>();
const C_CHUNKS_MUT_A16_3_1: Out = chunks_mut_a16::<3, 1>();
const C_CHUNKS_A16_3_2: Out = chunks_a16::<3, 2>();
const C_CHUNKS_MUT_A16_3_2: Out = chunks_mut_a16::<3, 2>();
const C_CHUNKS_A16_3_3: Out = chunks_a16::<3, 3>();
const C_CHUNKS_MUT_A16_3_3: Out = chunks_mut_a16::<3, 3>();
const C_CHUNKS_A16_3_4: Out = chunks_a16::<3, 4>();
const C_CHUNKS_MUT_A16_3_4: Out = chunks_mut_a16::<3, 4>();
const C_CHUNKS_A16_3_5: Out = chunks_a16::<3, 5>();
const C_CHUNKS_MUT_A16_3_5: Out = chunks_mut_a16::<3, 5>();
const C_CHUNKS_A16_3_6: Out = chunks_a16::<3, 6>();
const C_CHUNKS_MUT_A16_3_6: Out = chunks_mut_a16::<3, 6>();
const C_CHUNKS_A16_3_7: Out = chunks_a16::<3, 7>();
const C_CHUNKS_MUT_A16_3_7: Out = chunks_mut_a16::<3, 7>();
const C_CHUNKS_A16_3_8: Out = chunks_a16::<3, 8>();
const C_CHUNKS_MUT_A16_3_8: Out = chunks_mut_a16::<3, 8>();
const C_CHUNKS_A16_3_9: Out = chunks_a16::<3, 9>();
const C_CHUNKS_MUT_A16_3_9: Out = chunks_mut_a16::<3, 9>();
const C_CHUNKS_A16_3_10: Out = chunks_a16::<3, 10>();
const C_CHUNKS_MUT_A16_3_10: Out = chunks_mut_a16::<3, 10>();
const C_CHUNKS_A16_3_11: Out = chunks_a16::<3, 11>();
const C_CHUNKS_MUT_A16_3_11: Out = chunks_mut_a16::<3, 11>();
const C_REINTERPRET_A16_3_0: Out = reinterpret_a16::<3, 0>();
const C_REINTERPRET_A16_3_1: Out = reinterpret_a16::<3, 1>();
const C_REINTERPRET_A16_3_2: Out = reinterpret_a16::<3, 2>();
const C_REINTERPRET_A16_3_3: Out = reinterpret_a16::<3, 3>();
const C_REINTERPRET_A16_3_4: Out = reinterpret_a16::<3, 4>();
const C_REINTERPRET_A16_3_6: Out = reinterpret_a16::<3, 6>();
const C_REINTERPRET_A16_3_11: Out = reinterpret_a16::<3, 11>();
const C_BYVALUE_A16_3: Out = byvalue_a16::<3>();
const C_NATIVE_CHUNKS_A16_3_0: Out = native_chunks_a16::<3, 0>();
const C_NATIVE_CHUNKS_A16_3_1: Out = native_chunks_a16::<3, 1>();
const C_NATIVE_CHUNKS_A16_3_2: Out = native_chunks_a16::<3, 2>();
const C_NATIVE_CHUNKS_A16_3_3: Out = native_chunks_a16::<3, 3>();
const C_CHUNKS_A16_7_0: Out = chunks_a16::<7, 0>();
const C_CHUNKS_MUT_A16_7_0: Out = chunks_mut_a16::<7, 0>();
const C_CHUNKS_A16_7_1: Out = chunks_a16::<7, 1>();
const C_CHUNKS_MUT_A16_7_1: Out = chunks_mut_a16::<7, 1>();
const C_CHUNKS_A16_7_2: Out = chunks_a16::<7, 2>();
const C_CHUNKS_MUT_A16_7_2: Out = chunks_mut_a16::<7, 2>();
const C_CHUNKS_A16_7_3: Out = chunks_a16::<7, 3>();
const C_CHUNKS_MUT_A16_7_3: Out = chunks_mut_a16::<7, 3>();
const C_CHUNKS_A16_7_4: Out = chunks_a16::<7, 4>();
const C_CHUNKS_MUT_A16_7_4: Out = chunks_mut_a16::<7, 4>();
const C_CHUNKS_A16_7_5: Out = chunks_a16::<7, 5>();
const C_CHUNKS_MUT_A16_7_5: Out = chunks_mut_a16::<7, 5>();
const C_CHUNKS_A16_7_6: Out = chunks_a16::<7, 6>();
const C_CHUNKS_MUT_A16_7_6: Out = chunks_mut_a16::<7, 6>();
const C_CHUNKS_A16_7_7: Out = chunks_a16::<7, 7>();
const C_CHUNKS_MUT_A16_7_7: Out = chunks_mut_a16::<7, 7>();
const C_CHUNKS_A16_7_8: Out = chunks_a16::<7, 8>();
const C_CHUNKS_MUT_A16_7_8: Out = chunks_mut_a16::<7, 8>();
const C_CHUNKS_A16_7_9: Out = chunks_a16::<7, 9>();
const C_CHUNKS_MUT_A16_7_9: Out = chunks_mut_a16::<7, 9>();
const C_CHUNKS_A16_7_10: Out = chunks_a16::<7, 10>();
const C_CHUNKS_MUT_A16_7_10: Out = chunks_mut_a16::<7, 10>();
const C_CHUNKS_A16_7_11: Out = chunks_a16::<7, 11>();
const C_CHUNKS_MUT_A16_7_11: Out = chunks_mut_a16::<7, 11>();
const C_CHUNKS_A16_7_12: Out = chunks_a16::<7, 12>();
const C_CHUNKS_MUT_A16_7_12: Out = chunks_mut_a16::<7, 12>();
const C_CHUNKS_A16_7_13: Out = chunks_a16::<7, 13>();
const C_CHUNKS_MUT_A16_7_13: Out = chunks_mut_a16::<7, 13>();
const C_CHUNKS_A16_7_14: Out = chunks_a16::<7, 14>();
const C_CHUNKS_MUT_A16_7_14: Out = chunks_mut_a16::<7, 14>();
const C_CHUNKS_A16_7_15: Out = chunks_a16::<7, 15>();
const C_CHUNKS_MUT_A16_7_15: Out = chunks_mut_a16::<7, 15>();
const C_CHUNKS_A16_7_16: Out = chunks_a16::<7, 16>();
const C_CHUNKS_MUT_A16_7_16: Out = chunks_mut_a16::<7, 16>();
const C_CHUNKS_A16_7_17: Out = chunks_a16::<7, 17>();
const C_CHUNKS_MUT_A16_7_17: Out = chunks_mut_a16::<7, 17>();
const C_CHUNKS_A16_7_18: Out = chunks_a16::<7, 18>();
const C_CHUNKS_MUT_A16_7_18: Out = chunks_mut_a16::<7, 18>();
const C_CHUNKS_A16_7_19: Out = chunks_a16::<7, 19>();
const C_CHUNKS_MUT_A16_7_19: Out = chunks_mut_a16::<7, 19>();
const C_CHUNKS_A16_7_20: Out = chunks_a16::<7, 20>();
const C_CHUNKS_MUT_A16_7_20: Out = chunks_mut_a16::<7, 20>();
const C_CHUNKS_A16_7_21: Out = chunks_a16::<7, 21>();
const C_CHUNKS_MUT_A16_7_21: Out = chunks_mut_a16::<7, 21>();
const C_CHUNKS_A16_7_22: Out = chunks_a16::<7, 22>();
const C_CHUNKS_MUT_A16_7_22: Out = chunks_mut_a16::<7, 22>();
const C_CHUNKS_A16_7_23: Out = chunks_a16::<7, 23>();
const C_CHUNKS_MUT_A16_7_23: Out = chunks_mut_a16::<7, 23>();
const C_REINTERPRET_A16_7_0: Out = reinterpret_a16::<7, 0>();
const C_REINTERPRET_A16_7_1: Out = reinterpret_a16::<7, 1>();
const C_REINTERPRET_A16_7_6: Out = reinterpret_a16::<7, 6>();
const C_REINTERPRET_A16_7_7: Out = reinterpret_a16::<7, 7>();
const C_REINTERPRET_A16_7_8: Out = reinterpret_a16::<7, 8>();
const C_REINTERPRET_A16_7_14: Out = reinterpret_a16::<7, 14>();
const C_REINTERPRET_A16_7_23: Out = reinterpret_a16::<7, 23>();
const C_BYVALUE_A16_7: Out = byvalue_a16::<7>();
const C_NATIVE_CHUNKS_A16_7_0: Out = native_chunks_a16::<7, 0>();
const C_NATIVE_CHUNKS_A16_7_1: Out = native_chunks_a16::<7, 1>();
const C_NATIVE_CHUNKS_A16_7_2: Out = native_chunks_a16::<7, 2>();
const C_NATIVE_CHUNKS_A16_7_3: Out = native_chunks_a16::<7, 3>();
const C_CHUNKS_A16_8_0: Out = chunks_a16::<8, 0>();
const C_CHUNKS_MUT_A16_8_0: Out = chunks_mut_a16::<8, 0>();
const C_CHUNKS_A16_8_1: Out = chunks_a16::<8, 1>();
const C_CHUNKS_MUT_A16_8_1: Out = chunks_mut_a16::<8, 1>();
const C_CHUNKS_A16_8_2: Out = chunks_a16::<8, 2>();
const C_CHUNKS_MUT_A16_8_2: Out = chunks_mut_a16::<8, 2>();
const C_CHUNKS_A16_8_3: Out = chunks_a16::<8, 3>();
const C_CHUNKS_MUT_A16_8_3: Out = chunks_mut_a16::<8, 3>();
const C_CHUNKS_A16_8_4: Out = chunks_a16::<8, 4>();
const C_CHUNKS_MUT_A16_8_4: Out = chunks_mut_a16::<8, 4>();
const C_CHUNKS_A16_8_5: Out = chunks_a16::<8, 5>();
const C_CHUNKS_MUT_A16_8_5: Out = chunks_mut_a16::<8, 5>();
const C_CHUNKS_A16_8_6: Out = chunks_a16::<8, 6>();
const C_CHUNKS_MUT_A16_8_6: Out = chunks_mut_a16::<8, 6>();
const C_CHUNKS_A16_8_7: Out = chunks_a16::<8, 7>();
const C_CHUNKS_MUT_A16_8_7: Out = chunks_mut_a16::<8, 7>();
const C_CHUNKS_A16_8_8: Out = chunks_a16::<8, 8>();
const C_CHUNKS_MUT_A16_8_8: Out = chunks_mut_a16::<8, 8>();
const C_CHUNKS_A16_8_9: Out = chunks_a16::<8, 9>();
const C_CHUNKS_MUT_A16_8_9: Out = chunks_mut_a16::<8, 9>();
const C_CHUNKS_A16_8_10: Out = chunks_a16::<8, 10>();
const C_CHUNKS_MUT_A16_8_10: Out = chunks_mut_a16::<8, 10>();
const C_CHUNKS_A16_8_11: Out = chunks_a16::<8, 11>();
const C_CHUNKS_MUT_A16_8_11: Out = chunks_mut_a16::<8, 11>();
const C_CHUNKS_A16_8_12: Out = chunks_a16::<8, 12>();
const C_CHUNKS_MUT_A16_8_12: Out = chunks_mut_a16::<8, 12>();
const C_CHUNKS_A16_8_13: Out = chunks_a16::<8, 13>();
const C_CHUNKS_MUT_A16_8_13: Out = chunks_mut_a16::<8, 13>();
const C_CHUNKS_A16_8_14: Out = chunks_a16::<8, 14>();
const C_CHUNKS_MUT_A16_8_14: Out = chunks_mut_a16::<8, 14>();
const C_CHUNKS_A16_8_15: Out = chunks_a16::<8, 15>();
const C_CHUNKS_MUT_A16_8_15: Out = chunks_mut_a16::<8, 15>();
const C_CHUNKS_A16_8_16: Out = chunks_a16::<8, 16>();
const C_CHUNKS_MUT_A16_8_16: Out = chunks_mut_a16::<8, 16>();
const C_CHUNKS_A16_8_17: Out = chunks_a16::<8, 17>();
const C_CHUNKS_MUT_A16_8_17: Out = chunks_mut_a16::<8, 17>();
const C_CHUNKS_A16_8_18: Out = chunks_a16::<8, 18>();
const C_CHUNKS_MUT_A16_8_18: Out = chunks_mut_a16::<8, 18>();
const C_CHUNKS_A16_8_19: Out = chunks_a16::<8, 19>();
const C_CHUNKS_MUT_A16_8_19: Out = chunks_mut_a16::<8, 19>();
const C_CHUNKS_A16_8_20: Out = chunks_a16::<8, 20>();
const C_CHUNKS_MUT_A16_8_20: Out = chunks_mut_a16::<8, 20>();
const C_CHUNKS_A16_8_21: Out = chunks_a16::<8, 21>();
const C_CHUNKS_MUT_A16_8_21: Out = chunks_mut_a16::<8, 21>();
const C_CHUNKS_A16_8_22: Out = chunks_a16::<8, 22>();
const C_CHUNKS_MUT_A16_8_22: Out = chunks_mut_a16::<8, 22>();
const C_CHUNKS_A16_8_23: Out = chunks_a16::<8, 23>();
const C_CHUNKS_MUT_A16_8_23: Out = chunks_mut_a16::<8, 23>();
const C_CHUNKS_A16_8_24: Out = chunks_a16::<8, 24>();
const C_CHUNKS_MUT_A16_8_24: Out = chunks_mut_a16::<8, 24>();
const C_CHUNKS_A16_8_25: Out = chunks_a16::<8, 25>();
const C_CHUNKS_MUT_A16_8_25: Out = chunks_mut_a16::<8, 25>();
const C_CHUNKS_A16_8_26: Out = chunks_a16::<8, 26>();
const C_CHUNKS_MUT_A16_8_26: Out = chunks_mut_a16::<8, 26>();
const C_REINTERPRET_A16_8_0: Out = reinterpret_a16::<8, 0>();
const C_REINTERPRET_A16_8_1: Out = reinterpret_a16::<8, 1>();
const C_REINTERPRET_A16_8_7: Out = reinterpret_a16::<8, 7>();
const C_REINTERPRET_A16_8_8: Out = reinterpret_a16::<8, 8>();
const C_REINTERPRET_A16_8_9: Out = reinterpret_a16::<8, 9>();
const C_REINTERPRET_A16_8_16: Out = reinterpret_a16::<8, 16>();
const C_REINTERPRET_A16_8_26: Out = reinterpret_a16::<8, 26>();
const C_BYVALUE_A16_8: Out = byvalue_a16::<8>();
const C_NATIVE_CHUNKS_A16_8_0: Out = native_chunks_a16::<8, 0>();
const C_NATIVE_CHUNKS_A16_8_1: Out = native_chunks_a16::<8, 1>();
const C_NATIVE_CHUNKS_A16_8_2: Out = native_chunks_a16::<8, 2>();
const C_NATIVE_CHUNKS_A16_8_3: Out = native_chunks_a16::<8, 3>();
const C_CHUNKS_A16_16_0: Out = chunks_a16::<16, 0>();
const C_CHUNKS_MUT_A16_16_0: Out = chunks_mut_a16::<16, 0>();
const C_CHUNKS_A16_16_1: Out = chunks_a16::<16, 1>();
const C_CHUNKS_MUT_A16_16_1: Out = chunks_mut_a16::<16, 1>();
const C_CHUNKS_A16_16_2: Out = chunks_a16::<16, 2>();
const C_CHUNKS_MUT_A16_16_2: Out = chunks_mut_a16::<16, 2>();
const C_CHUNKS_A16_16_3: Out = chunks_a16::<16, 3>();
const C_CHUNKS_MUT_A16_16_3: Out = chunks_mut_a16::<16, 3>();
const C_CHUNKS_A16_16_4: Out = chunks_a16::<16, 4>();
const C_CHUNKS_MUT_A16_16_4: Out = chunks_mut_a16::<16, 4>();
const C_CHUNKS_A16_16_5: Out = chunks_a16::<16, 5>();
const C_CHUNKS_MUT_A16_16_5: Out = chunks_mut_a16::<16, 5>();
const C_CHUNKS_A16_16_6: Out = chunks_a16::<16, 6>();
const C_CHUNKS_MUT_A16_16_6: Out = chunks_mut_a16::<16, 6>();
const C_CHUNKS_A16_16_7: Out = chunks_a16::<16, 7>();
const C_CHUNKS_MUT_A16_16_7: Out = chunks_mut_a16::<16, 7>();
const C_CHUNKS_A16_16_8: Out = chunks_a16::<16, 8>();
const C_CHUNKS_MUT_A16_16_8: Out = chunks_mut_a16::<16, 8>();
const C_CHUNKS_A16_16_9: Out = chunks_a16::<16, 9>();
const C_CHUNKS_MUT_A16_16_9: Out = chunks_mut_a16::<16, 9>();
const C_CHUNKS_A16_16_10: Out = chunks_a16::<16, 10>();
const C_CHUNKS_MUT_A16_16_10: Out = chunks_mut_a16::<16, 10>();
const C_CHUNKS_A16_16_11: Out = chunks_a16::<16, 11>();
const C_CHUNKS_MUT_A16_16_11: Out = chunks_mut_a16::<16, 11>();
const C_CHUNKS_A16_16_12: Out = chunks_a16::<16, 12>();
const C_CHUNKS_MUT_A16_16_12: Out = chunks_mut_a16::<16, 12>();
const C_CHUNKS_A16_16_13: Out = chunks_a16::<16, 13>();
const C_CHUNKS_MUT_A16_16_13: Out = chunks_mut_a16::<16, 13>();
const C_CHUNKS_A16_16_14: Out = chunks_a16::<16, 14>();
const C_CHUNKS_MUT_A16_16_14: Out = chunks_mut_a16::<16, 14>();
const C_CHUNKS_A16_16_15: Out = chunks_a16::<16, 15>();
const C_CHUNKS_MUT_A16_16_15: Out = chunks_mut_a16::<16, 15>();
const C_CHUNKS_A16_16_16: Out = chunks_a16::<16, 16>();
const C_CHUNKS_MUT_A16_16_16: Out = chunks_mut_a16::<16, 16>();
const C_CHUNKS_A16_16_17: Out = chunks_a16::<16, 17>();
const C_CHUNKS_MUT_A16_16_17: Out = chunks_mut_a16::<16, 17>();
const C_CHUNKS_A16_16_18: Out = chunks_a16::<16, 18>();
const C_CHUNKS_MUT_A16_16_18: Out = chunks_mut_a16::<16, 18>();
const C_CHUNKS_A16_16_19: Out = chunks_a16::<16, 19>();
const C_CHUNKS_MUT_A16_16_19: Out = chunks_mut_a16::<16, 19>();
const C_CHUNKS_A16_16_20: Out = chunks_a16::<16, 20>();
const C_CHUNKS_MUT_A16_16_20: Out = chunks_mut_a16::<16, 20>();
const C_CHUNKS_A16_16_21: Out = chunks_a16::<16, 21>();
const C_CHUNKS_MUT_A16_16_21: Out = chunks_mut_a16::<16, 21>();
const C_CHUNKS_A16_16_22: Out = chunks_a16::<16, 22>();
const C_CHUNKS_MUT_A16_16_22: Out = chunks_mut_a16::<16, 22>();
const C_CHUNKS_A16_16_23: Out = chunks_a16::<16, 23>();
const C_CHUNKS_MUT_A16_16_23: Out = chunks_mut_a16::<16, 23>();
const C_CHUNKS_A16_16_24: Out = chunks_a16::<16, 24>();
const C_CHUNKS_MUT_A16_16_24: Out = chunks_mut_a16::<16, 24>();
const C_CHUNKS_A16_16_25: Out = chunks_a16::<16, 25>();
const C_CHUNKS_MUT_A16_16_25: Out = chunks_mut_a16::<16, 25>();
const C_CHUNKS_A16_16_26: Out = chunks_a16::<16, 26>();
const C_CHUNKS_MUT_A16_16_26: Out = chunks_mut_a16::<16, 26>();
const C_CHUNKS_A16_16_27: Out = chunks_a16::<16, 27>();
const C_CHUNKS_MUT_A16_16_27: Out = chunks_mut_a16::<16, 27>();
const C_CHUNKS_A16_16_28: Out = chunks_a16::<16, 28>();
const C_CHUNKS_MUT_A16_16_28: Out = chunks_mut_a16::<16, 28>();
const C_CHUNKS_A16_16_29: Out = chunks_a16::<16, 29>();
const C_CHUNKS_MUT_A16_16_29: Out = chunks_mut_a16::<16, 29>();
const C_CHUNKS_A16_16_30: Out = chunks_a16::<16, 30>();
const C_CHUNKS_MUT_A16_16_30: Out = chunks_mut_a16::<16, 30>();
const C_CHUNKS_A16_16_31: Out = chunks_a16::<16, 31>();
const C_CHUNKS_MUT_A16_16_31: Out = chunks_mut_a16::<16, 31>();
const C_CHUNKS_A16_16_32: Out = chunks_a16::<16, 32>();
const C_CHUNKS_MUT_A16_16_32: Out = chunks_mut_a16::<16, 32>();
const C_CHUNKS_A16_16_33: Out = chunks_a16::<16, 33>();
const C_CHUNKS_MUT_A16_16_33: Out = chunks_mut_a16::<16, 33>();
const C_CHUNKS_A16_16_34: Out = chunks_a16::<16, 34>();
const C_CHUNKS_MUT_A16_16_34: Out = chunks_mut_a16::<16, 34>();
const C_CHUNKS_A16_16_35: Out = chunks_a16::<16, 35>();
const C_CHUNKS_MUT_A16_16_35: Out = chunks_mut_a16::<16, 35>();
const C_CHUNKS_A16_16_36: Out = chunks_a16::<16, 36>();
const C_CHUNKS_MUT_A16_16_36: Out = chunks_mut_a16::<16, 36>();
const C_CHUNKS_A16_16_37: Out = chunks_a16::<16, 37>();
const C_CHUNKS_MUT_A16_16_37: Out = chunks_mut_a16::<16, 37>();
const C_CHUNKS_A16_16_38: Out = chunks_a16::<16, 38>();
const C_CHUNKS_MUT_A16_16_38: Out = chunks_mut_a16::<16, 38>();
const C_CHUNKS_A16_16_39: Out = chunks_a16::<16, 39>();
const C_CHUNKS_MUT_A16_16_39: Out = chunks_mut_a16::<16, 39>();
const C_CHUNKS_A16_16_40: Out = chunks_a16::<16, 40>();
const C_CHUNKS_MUT_A16_16_40: Out = chunks_mut_a16::<16, 40>();
const C_CHUNKS_A16_16_41: Out = chunks_a16::<16, 41>();
const C_CHUNKS_MUT_A16_16_41: Out = chunks_mut_a16::<16, 41>();
const C_CHUNKS_A16_16_42: Out = chunks_a16::<16, 42>();
const C_CHUNKS_MUT_A16_16_42: Out = chunks_mut_a16::<16, 42>();
const C_CHUNKS_A16_16_43: Out = chunks_a16::<16, 43>();
const C_CHUNKS_MUT_A16_16_43: Out = chunks_mut_a16::<16, 43>();
const C_CHUNKS_A16_16_44: Out = chunks_a16::<16, 44>();
const C_CHUNKS_MUT_A16_16_44: Out = chunks_mut_a16::<16, 44>();
const C_CHUNKS_A16_16_45: Out = chunks_a16::<16, 45>();
const C_CHUNKS_MUT_A16_16_45: Out = chunks_mut_a16::<16, 45>();
const C_CHUNKS_A16_16_46: Out = chunks_a16::<16, 46>();
const C_CHUNKS_MUT_A16_16_46: Out = chunks_mut_a16::<16, 46>();
const C_CHUNKS_A16_16_47: Out = chunks_a16::<16, 47>();
const C_CHUNKS_MUT_A16_16_47: Out = chunks_mut_a16::<16, 47>();
const C_CHUNKS_A16_16_48: Out = chunks_a16::<16, 48>();
const C_CHUNKS_MUT_A16_16_48: Out = chunks_mut_a16::<16, 48>();
const C_CHUNKS_A16_16_49: Out = chunks_a16::<16, 49>();
const C_CHUNKS_MUT_A16_16_49: Out = chunks_mut_a16::<16, 49>();
const C_CHUNKS_A16_16_50: Out = chunks_a16::<16, 50>();
const C_CHUNKS_MUT_A16_16_50: Out = chunks_mut_a16::<16, 50>();
const C_REINTERPRET_A16_16_0: Out = reinterpret_a16::<16, 0>();
const C_REINTERPRET_A16_16_1: Out = reinterpret_a16::<16, 1>();
const C_REINTERPRET_A16_16_15: Out = reinterpret_a16::<16, 15>();
const C_REINTERPRET_A16_16_16: Out = reinterpret_a16::<16, 16>();
const C_REINTERPRET_A16_16_17: Out = reinterpret_a16::<16, 17>();
const C_REINTERPRET_A16_16_32: Out = reinterpret_a16::<16, 32>();
const C_REINTERPRET_A16_16_50: Out = reinterpret_a16::<16, 50>();
const C_BYVALUE_A16_16: Out = byvalue_a16::<16>();
const C_NATIVE_CHUNKS_A16_16_0: Out = native_chunks_a16::<16, 0>();
const C_NATIVE_CHUNKS_A16_16_1: Out = native_chunks_a16::<16, 1>();
const C_NATIVE_CHUNKS_A16_16_2: Out = native_chunks_a16::<16, 2>();
const C_NATIVE_CHUNKS_A16_16_3: Out = native_chunks_a16::<16, 3>();
const C_CHUNKS_A16_17_0: Out = chunks_a16::<17, 0>();
const C_CHUNKS_MUT_A16_17_0: Out = chunks_mut_a16::<17, 0>();
const C_CHUNKS_A16_17_1: Out = chunks_a16::<17, 1>();
const C_CHUNKS_MUT_A16_17_1: Out = chunks_mut_a16::<17, 1>();
const C_CHUNKS_A16_17_2: Out = chunks_a16::<17, 2>();
const C_CHUNKS_MUT_A16_17_2: Out = chunks_mut_a16::<17, 2>();
const C_CHUNKS_A16_17_3: Out = chunks_a16::<17, 3>();
const C_CHUNKS_MUT_A16_17_3: Out = chunks_mut_a16::<17, 3>();
const C_CHUNKS_A16_17_4: Out = chunks_a16::<17, 4>();
const C_CHUNKS_MUT_A16_17_4: Out = chunks_mut_a16::<17, 4>();
const C_CHUNKS_A16_17_5: Out = chunks_a16::<17, 5>();
const C_CHUNKS_MUT_A16_17_5: Out = chunks_mut_a16::<17, 5>();
const C_CHUNKS_A16_17_6: Out = chunks_a16::<17, 6>();
const C_CHUNKS_MUT_A16_17_6: Out = chunks_mut_a16::<17, 6>();
const C_CHUNKS_A16_17_7: Out = chunks_a16::<17, 7>();
const C_CHUNKS_MUT_A16_17_7: Out = chunks_mut_a16::<17, 7>();
const C_CHUNKS_A16_17_8: Out = chunks_a16::<17, 8>();
const C_CHUNKS_MUT_A16_17_8: Out = chunks_mut_a16::<17, 8>();
const C_CHUNKS_A16_17_9: Out = chunks_a16::<17, 9>();
const C_CHUNKS_MUT_A16_17_9: Out = chunks_mut_a16::<17, 9>();
const C_CHUNKS_A16_17_10: Out = chunks_a16::<17, 10>();
const C_CHUNKS_MUT_A16_17_10: Out = chunks_mut_a16::<17, 10>();
const C_CHUNKS_A16_17_11: Out = chunks_a16::<17, 11>();
const C_CHUNKS_MUT_A16_17_11: Out = chunks_mut_a16::<17, 11>();
const C_CHUNKS_A16_17_12: Out = chunks_a16::<17, 12>();
const C_CHUNKS_MUT_A16_17_12: Out = chunks_mut_a16::<17, 12>();
const C_CHUNKS_A16_17_13: Out = chunks_a16::<17, 13>();
const C_CHUNKS_MUT_A16_17_13: Out = chunks_mut_a16::<17, 13>();
const C_CHUNKS_A16_17_14: Out = chunks_a16::<17, 14>();
const C_CHUNKS_MUT_A16_17_14: Out = chunks_mut_a16::<17, 14>();
const C_CHUNKS_A16_17_15: Out = chunks_a16::<17, 15>();
const C_CHUNKS_MUT_A16_17_15: Out = chunks_mut_a16::<17, 15>();
const C_CHUNKS_A16_17_16: Out = chunks_a16::<17, 16>();
const C_CHUNKS_MUT_A16_17_16: Out = chunks_mut_a16::<17, 16>();
const C_CHUNKS_A16_17_17: Out = chunks_a16::<17, 17>();
const C_CHUNKS_MUT_A16_17_17: Out = chunks_mut_a16::<17, 17>();
const C_CHUNKS_A16_17_18: Out = chunks_a16::<17, 18>();
const C_CHUNKS_MUT_A16_17_18: Out = chunks_mut_a16::<17, 18>();
const C_CHUNKS_A16_17_19: Out = chunks_a16::<17, 19>();
const C_CHUNKS_MUT_A16_17_19: Out = chunks_mut_a16::<17, 19>();
const C_CHUNKS_A16_17_20: Out = chunks_a16::<17, 20>();
const C_CHUNKS_MUT_A16_17_20: Out = chunks_mut_a16::<17, 20>();
const C_CHUNKS_A16_17_21: Out = chunks_a16::<17, 21>();
const C_CHUNKS_MUT_A16_17_21: Out = chunks_mut_a16::<17, 21>();
const C_CHUNKS_A16_17_22: Out = chunks_a16::<17, 22>();
const C_CHUNKS_MUT_A16_17_22: Out = chunks_mut_a16::<17, 22>();
const C_CHUNKS_A16_17_23: Out = chunks_a16::<17, 23>();
const C_CHUNKS_MUT_A16_17_23: Out = chunks_mut_a16::<17, 23>();
const C_CHUNKS_A16_17_24: Out = chunks_a16::<17, 24>();
const C_CHUNKS_MUT_A16_17_24: Out = chunks_mut_a16::<17, 24>();
const C_CHUNKS_A16_17_25: Out = chunks_a16::<17, 25>();
const C_CHUNKS_MUT_A16_17_25: Out = chunks_mut_a16::<17, 25>();
const C_CHUNKS_A16_17_26: Out = chunks_a16::<17, 26>();
const C_CHUNKS_MUT_A16_17_26: Out = chunks_mut_a16::<17, 26>();
const C_CHUNKS_A16_17_27: Out = chunks_a16::<17, 27>();
const C_CHUNKS_MUT_A16_17_27: Out = chunks_mut_a16::<17, 27>();
const C_CHUNKS_A16_17_28: Out = chunks_a16::<17, 28>();
const C_CHUNKS_MUT_A16_17_28: Out = chunks_mut_a16::<17, 28>();
const C_CHUNKS_A16_17_29: Out = chunks_a16::<17, 29>();
const C_CHUNKS_MUT_A16_17_29: Out = chunks_mut_a16::<17, 29>();
const C_CHUNKS_A16_17_30: Out = chunks_a16::<17, 30>();
const C_CHUNKS_MUT_A16_17_30: Out = chunks_mut_a16::<17, 30>();
const C_CHUNKS_A16_17_31: Out = chunks_a16::<17, 31>();
const C_CHUNKS_MUT_A16_17_31: Out = chunks_mut_a16::<17, 31>();
const C_CHUNKS_A16_17_32: Out = chunks_a16::<17, 32>();
const C_CHUNKS_MUT_A16_17_32: Out = chunks_mut_a16::<17, 32>();
const C_CHUNKS_A16_17_33: Out = chunks_a16::<17, 33>();
const C_CHUNKS_MUT_A16_17_33: Out = chunks_mut_a16::<17, 33>();
const C_CHUNKS_A16_17_34: Out = chunks_a16::<17, 34>();
const C_CHUNKS_MUT_A16_17_34: Out = chunks_mut_a16::<17, 34>();
const C_CHUNKS_A16_17_35: Out = chunks_a16::<17, 35>();
const C_CHUNKS_MUT_A16_17_35: Out = chunks_mut_a16::<17, 35>();
const C_CHUNKS_A16_17_36: Out = chunks_a16::<17, 36>();
const C_CHUNKS_MUT_A16_17_36: Out = chunks_mut_a16::<17, 36>();
const C_CHUNKS_A16_17_37: Out = chunks_a16::<17, 37>();
const C_CHUNKS_MUT_A16_17_37: Out = chunks_mut_a16::<17, 37>();
const C_CHUNKS_A16_17_38: Out = chunks_a16::<17, 38>();
const C_CHUNKS_MUT_A16_17_38: Out = chunks_mut_a16::<17, 38>();
const C_CHUNKS_A16_17_39: Out = chunks_a16::<17, 39>();
const C_CHUNKS_MUT_A16_17_39: Out = chunks_mut_a16::<17, 39>();
const C_CHUNKS_A16_17_40: Out = chunks_a16::<17, 40>();
const C_CHUNKS_MUT_A16_17_40: Out = chunks_mut_a16::<17, 40>();
const C_CHUNKS_A16_17_41: Out = chunks_a16::<17, 41>();
const C_CHUNKS_MUT_A16_17_41: Out = chunks_mut_a16::<17, 41>();
const C_CHUNKS_A16_17_42: Out = chunks_a16::<17, 42>();
const C_CHUNKS_MUT_A16_17_42: Out = chunks_mut_a16::<17, 42>();
const C_CHUNKS_A16_17_43: Out = chunks_a16::<17, 43>();
const C_CHUNKS_MUT_A16_17_43: Out = chunks_mut_a16::<17, 43>();
const C_CHUNKS_A16_17_44: Out = chunks_a16::<17, 44>();
const C_CHUNKS_MUT_A16_17_44: Out = chunks_mut_a16::<17, 44>();
const C_CHUNKS_A16_17_45: Out = chunks_a16::<17, 45>();
const C_CHUNKS_MUT_A16_17_45: Out = chunks_mut_a16::<17, 45>();
const C_CHUNKS_A16_17_46: Out = chunks_a16::<17, 46>();
const C_CHUNKS_MUT_A16_17_46: Out = chunks_mut_a16::<17, 46>();
const C_CHUNKS_A16_17_47: Out = chunks_a16::<17, 47>();
const C_CHUNKS_MUT_A16_17_47: Out = chunks_mut_a16::<17, 47>();
const C_CHUNKS_A16_17_48: Out = chunks_a16::<17, 48>();
const C_CHUNKS_MUT_A16_17_48: Out = chunks_mut_a16::<17, 48>();
const C_CHUNKS_A16_17_49: Out = chunks_a16::<17, 49>();
const C_CHUNKS_MUT_A16_17_49: Out = chunks_mut_a16::<17, 49>();
const C_CHUNKS_A16_17_50: Out = chunks_a16::<17, 50>();
const C_CHUNKS_MUT_A16_17_50: Out = chunks_mut_a16::<17, 50>();
const C_CHUNKS_A16_17_51: Out = chunks_a16::<17, 51>();
const C_CHUNKS_MUT_A16_17_51: Out = chunks_mut_a16::<17, 51>();
const C_CHUNKS_A16_17_52: Out = chunks_a16::<17, 52>();
const C_CHUNKS_MUT_A16_17_52: Out = chunks_mut_a16::<17, 52>();
const C_CHUNKS_A16_17_53: Out = chunks_a16::<17, 53>();
const C_CHUNKS_MUT_A16_17_53: Out = chunks_mut_a16::<17, 53>();
const C_REINTERPRET_A16_17_0: Out = reinterpret_a16::<17, 0>();
const C_REINTERPRET_A16_17_1: Out = reinterpret_a16::<17, 1>();
const C_REINTERPRET_A16_17_16: Out = reinterpret_a16::<17, 16>();
const C_REINTERPRET_A16_17_17: Out = reinterpret_a16::<17, 17>();
const C_REINTERPRET_A16_17_18: Out = reinterpret_a16::<17, 18>();
const C_REINTERPRET_A16_17_34: Out = reinterpret_a16::<17, 34>();
const C_REINTERPRET_A16_17_53: Out = reinterpret_a16::<17, 53>();
const C_BYVALUE_A16_17: Out = byvalue_a16::<17>();
const C_NATIVE_CHUNKS_A16_17_0: Out = native_chunks_a16::<17, 0>();
const C_NATIVE_CHUNKS_A16_17_1: Out = native_chunks_a16::<17, 1>();
const C_NATIVE_CHUNKS_A16_17_2: Out = native_chunks_a16::<17, 2>();
const C_NATIVE_CHUNKS_A16_17_3: Out = native_chunks_a16::<17, 3>();
const C_CHUNKS_A16_33_0: Out = chunks_a16::<33, 0>();
const C_CHUNKS_MUT_A16_33_0: Out = chunks_mut_a16::<33, 0>();
const C_CHUNKS_A16_33_1: Out = chunks_a16::<33, 1>();
const C_CHUNKS_MUT_A16_33_1: Out = chunks_mut_a16::<33, 1>();
const C_CHUNKS_A16_33_32: Out = chunks_a16::<33, 32>();
const C_CHUNKS_MUT_A16_33_32: Out = chunks_mut_a16::<33, 32>();
const C_CHUNKS_A16_33_33: Out = chunks_a16::<33, 33>();
const C_CHUNKS_MUT_A16_33_33: Out = chunks_mut_a16::<33, 33>();
const C_CHUNKS_A16_33_34: Out = chunks_a16::<33, 34>();
const C_CHUNKS_MUT_A16_33_34: Out = chunks_mut_a16::<33, 34>();
const C_CHUNKS_A16_33_65: Out = chunks_a16::<33, 65>();
const C_CHUNKS_MUT_A16_33_65: Out = chunks_mut_a16::<33, 65>();
const C_CHUNKS_A16_33_66: Out = chunks_a16::<33, 66>();
const C_CHUNKS_MUT_A16_33_66: Out = chunks_mut_a16::<33, 66>();
const C_CHUNKS_A16_33_67: Out = chunks_a16::<33, 67>();
const C_CHUNKS_MUT_A16_33_67: Out = chunks_mut_a16::<33, 67>();
const C_CHUNKS_A16_33_98: Out = chunks_a16::<33, 98>();
const C_CHUNKS_MUT_A16_33_98: Out = chunks_mut_a16::<33, 98>();
const C_CHUNKS_A16_33_99: Out = chunks_a16::<33, 99>();
const C_CHUNKS_MUT_A16_33_99: Out = chunks_mut_a16::<33, 99>();
const C_CHUNKS_A16_33_100: Out = chunks_a16::<33, 100>();
const C_CHUNKS_MUT_A16_33_100: Out = chunks_mut_a16::<33, 100>();
const C_CHUNKS_A16_33_101: Out = chunks_a16::<33, 101>();
const C_CHUNKS_MUT_A16_33_101: Out = chunks_mut_a16::<33, 101>();
const C_REINTERPRET_A16_33_0: Out = reinterpret_a16::<33, 0>();
const C_REINTERPRET_A16_33_1: Out = reinterpret_a16::<33, 1>();
const C_REINTERPRET_A16_33_32: Out = reinterpret_a16::<33, 32>();
const C_REINTERPRET_A16_33_33: Out = reinterpret_a16::<33, 33>();
const C_REINTERPRET_A16_33_34: Out = reinterpret_a16::<33, 34>();
const C_REINTERPRET_A16_33_66: Out = reinterpret_a16::<33, 66>();
const C_REINTERPRET_A16_33_101: Out = reinterpret_a16::<33, 101>();
const C_BYVALUE_A16_33: Out = byvalue_a16::<33>();
const C_NATIVE_CHUNKS_A16_33_0: Out = native_chunks_a16::<33, 0>();
const C_NATIVE_CHUNKS_A16_33_1: Out = native_chunks_a16::<33, 1>();
const C_NATIVE_CHUNKS_A16_33_2: Out = native_chunks_a16::<33, 2>();
const C_NATIVE_CHUNKS_A16_33_3: Out = native_chunks_a16::<33, 3>();
const C_CHUNKS_A16_64_0: Out = chunks_a16::<64, 0>();
const C_CHUNKS_MUT_A16_64_0: Out = chunks_mut_a16::<64, 0>();
const C_CHUNKS_A16_64_1: Out = chunks_a16::<64, 1>();
const C_CHUNKS_MUT_A16_64_1: Out = chunks_mut_a16::<64, 1>();
const C_CHUNKS_A16_64_63: Out = chunks_a16::<64, 63>();
const C_CHUNKS_MUT_A16_64_63: Out = chunks_mut_a16::<64, 63>();
const C_CHUNKS_A16_64_64: Out = chunks_a16::<64, 64>();
const C_CHUNKS_MUT_A16_64_64: Out = chunks_mut_a16::<64, 64>();
const C_CHUNKS_A16_64_65: Out = chunks_a16::<64, 65>();
const C_CHUNKS_MUT_A16_64_65: Out = chunks_mut_a16::<64, 65>();
const C_CHUNKS_A16_64_127: Out = chunks_a16::<64, 127>();
const C_CHUNKS_MUT_A16_64_127: Out = chunks_mut_a16::<64, 127>();
const C_CHUNKS_A16_64_128: Out = chunks_a16::<64, 128>();
const C_CHUNKS_MUT_A16_64_128: Out = chunks_mut_a16::<64, 128>();
const C_CHUNKS_A16_64_129: Out = chunks_a16::<64, 129>();
const C_CHUNKS_MUT_A16_64_129: Out = chunks_mut_a16::<64, 129>();
const C_CHUNKS_A16_64_191: Out = chunks_a16::<64, 191>();
const C_CHUNKS_MUT_A16_64_191: Out = chunks_mut_a16::<64, 191>();
const C_CHUNKS_A16_64_192: Out = chunks_a16::<64, 192>();
const C_CHUNKS_MUT_A16_64_192: Out = chunks_mut_a16::<64, 192>();
const C_CHUNKS_A16_64_193: Out = chunks_a16::<64, 193>();
const C_CHUNKS_MUT_A16_64_193: Out = chunks_mut_a16::<64, 193>();
const C_CHUNKS_A16_64_194: Out = chunks_a16::<64, 194>();
const C_CHUNKS_MUT_A16_64_194: Out = chunks_mut_a16::<64, 194>();
const C_REINTERPRET_A16_64_0: Out = reinterpret_a16::<64, 0>();
const C_REINTERPRET_A16_64_1: Out = reinterpret_a16::<64, 1>();
const C_REINTERPRET_A16_64_63: Out = reinterpret_a16::<64, 63>();
const C_REINTERPRET_A16_64_64: Out = reinterpret_a16::<64, 64>();
const C_REINTERPRET_A16_64_65: Out = reinterpret_a16::<64, 65>();
const C_REINTERPRET_A16_64_128: Out = reinterpret_a16::<64, 128>();
const C_REINTERPRET_A16_64_194: Out = reinterpret_a16::<64, 194>();
const C_BYVALUE_A16_64: Out = byvalue_a16::<64>();
const C_NATIVE_CHUNKS_A16_64_0: Out = native_chunks_a16::<64, 0>();
const C_NATIVE_CHUNKS_A16_64_1: Out = native_chunks_a16::<64, 1>();
const C_NATIVE_CHUNKS_A16_64_2: Out = native_chunks_a16::<64, 2>();
const C_NATIVE_CHUNKS_A16_64_3: Out = native_chunks_a16::<64, 3>();
const C_CHUNKS_A16_100_0: Out = chunks_a16::<100, 0>();
const C_CHUNKS_MUT_A16_100_0: Out = chunks_mut_a16::<100, 0>();
const C_CHUNKS_A16_100_1: Out = chunks_a16::<100, 1>();
const C_CHUNKS_MUT_A16_100_1: Out = chunks_mut_a16::<100, 1>();
const C_CHUNKS_A16_100_99: Out = chunks_a16::<100, 99>();
const C_CHUNKS_MUT_A16_100_99: Out = chunks_mut_a16::<100, 99>();
const C_CHUNKS_A16_100_100: Out = chunks_a16::<100, 100>();
const C_CHUNKS_MUT_A16_100_100: Out = chunks_mut_a16::<100, 100>();
const C_CHUNKS_A16_100_101: Out = chunks_a16::<100, 101>();
const C_CHUNKS_MUT_A16_100_101: Out = chunks_mut_a16::<100, 101>();
const C_CHUNKS_A16_100_199: Out = chunks_a16::<100, 199>();
const C_CHUNKS_MUT_A16_100_199: Out = chunks_mut_a16::<100, 199>();
const C_CHUNKS_A16_100_200: Out = chunks_a16::<100, 200>();
const C_CHUNKS_MUT_A16_100_200: Out = chunks_mut_a16::<100, 200>();
const C_CHUNKS_A16_100_201: Out = chunks_a16::<100, 201>();
const C_CHUNKS_MUT_A16_100_201: Out = chunks_mut_a16::<100, 201>();
const C_CHUNKS_A16_100_302: Out = chunks_a16::<100, 302>();
const C_CHUNKS_MUT_A16_100_302: Out = chunks_mut_a16::<100, 302>();
const C_REINTERPRET_A16_100_0: Out = reinterpret_a16::<100, 0>();
const C_REINTERPRET_A16_100_1: Out = reinterpret_a16::<100, 1>();
const C_REINTERPRET_A16_100_99: Out = reinterpret_a16::<100, 99>();
const C_REINTERPRET_A16_100_100: Out = reinterpret_a16::<100, 100>();
const C_REINTERPRET_A16_100_101: Out = reinterpret_a16::<100, 101>();
const C_REINTERPRET_A16_100_200: Out = reinterpret_a16::<100, 200>();
const C_REINTERPRET_A16_100_302: Out = reinterpret_a16::<100, 302>();
const C_BYVALUE_A16_100: Out = byvalue_a16::<100>();
const C_NATIVE_CHUNKS_A16_100_0: Out = native_chunks_a16::<100, 0>();
const C_NATIVE_CHUNKS_A16_100_1: Out = native_chunks_a16::<100, 1>();
const C_NATIVE_CHUNKS_A16_100_2: Out = native_chunks_a16::<100, 2>();
const C_NATIVE_CHUNKS_A16_100_3: Out = native_chunks_a16::<100, 3>();
const C_CHUNKS_A16_1024_0: Out = chunks_a16::<1024, 0>();
const C_CHUNKS_MUT_A16_1024_0: Out = chunks_mut_a16::<1024, 0>();
const C_CHUNKS_A16_1024_1: Out = chunks_a16::<1024, 1>();
const C_CHUNKS_MUT_A16_1024_1: Out = chunks_mut_a16::<1024, 1>();
const C_CHUNKS_A16_1024_1023: Out = chunks_a16::<1024, 1023>();
const C_CHUNKS_MUT_A16_1024_1023: Out = chunks_mut_a16::<1024, 1023>();
const C_CHUNKS_A16_1024_1024: Out = chunks_a16::<1024, 1024>();
const C_CHUNKS_MUT_A16_1024_1024: Out = chunks_mut_a16::<1024, 1024>();
const C_CHUNKS_A16_1024_1025: Out = chunks_a16::<1024, 1025>();
const C_CHUNKS_MUT_A16_1024_1025: Out = chunks_mut_a16::<1024, 1025>();
const C_CHUNKS_A16_1024_2047: Out = chunks_a16::<1024, 2047>();
const C_CHUNKS_MUT_A16_1024_2047: Out = chunks_mut_a16::<1024, 2047>();
const C_CHUNKS_A16_1024_2048: Out = chunks_a16::<1024, 2048>();
const C_CHUNKS_MUT_A16_1024_2048: Out = chunks_mut_a16::<1024, 2048>();
const C_CHUNKS_A16_1024_2049: Out = chunks_a16::<1024, 2049>();
const C_CHUNKS_MUT_A16_1024_2049: Out = chunks_mut_a16::<1024, 2049>();
const C_CHUNKS_A16_1024_3074: Out = chunks_a16::<1024, 3074>();
const C_CHUNKS_MUT_A16_1024_3074: Out = chunks_mut_a16::<1024, 3074>();
const C_REINTERPRET_A16_1024_0: Out = reinterpret_a16::<1024, 0>();
const C_REINTERPRET_A16_1024_1: Out = reinterpret_a16::<1024, 1>();
const C_REINTERPRET_A16_1024_1023: Out = reinterpret_a16::<1024, 1023>();
const C_REINTERPRET_A16_1024_1024: Out = reinterpret_a16::<1024, 1024>();
const C_REINTERPRET_A16_1024_1025: Out = reinterpret_a16::<1024, 1025>();
const C_REINTERPRET_A16_1024_2048: Out = reinterpret_a16::<1024, 2048>();
const C_REINTERPRET_A16_1024_3074: Out = reinterpret_a16::<1024, 3074>();
const C_BYVALUE_A16_1024: Out = byvalue_a16::<1024>();
const C_NATIVE_CHUNKS_A16_1024_0: Out = native_chunks_a16::<1024, 0>();
const C_NATIVE_CHUNKS_A16_1024_1: Out = native_chunks_a16::<1024, 1>();
const C_NATIVE_CHUNKS_A16_1024_2: Out = native_chunks_a16::<1024, 2>();
const C_NATIVE_CHUNKS_A16_1024_3: Out = native_chunks_a16::<1024, 3>();
const C_CHUNKS_B3_0_0: Out = chunks_b3::<0, 0>();
const C_CHUNKS_MUT_B3_0_0: Out = chunks_mut_b3::<0, 0>();
const C_REINTERPRET_B3_0_0: Out = reinterpret_b3::<0, 0>();
const C_REINTERPRET_B3_0_1: Out = reinterpret_b3::<0, 1>();
const C_REINTERPRET_B3_0_2: Out = reinterpret_b3::<0, 2>();
const C_BYVALUE_B3_0: Out = byvalue_b3::<0>();
const C_NATIVE_CHUNKS_B3_0_0: Out = native_chunks_b3::<0, 0>();
const C_NATIVE_CHUNKS_B3_0_1: Out = native_chunks_b3::<0, 1>();
const C_NATIVE_CHUNKS_B3_0_2: Out = native_chunks_b3::<0, 2>();
const C_NATIVE_CHUNKS_B3_0_3: Out = native_chunks_b3::<0, 3>();
const C_CHUNKS_B3_1_0: Out = chunks_b3::<1, 0>();
const C_CHUNKS_MUT_B3_1_0: Out = chunks_mut_b3::<1, 0>();
const C_CHUNKS_B3_1_1: Out = chunks_b3::<1, 1>();
const C_CHUNKS_MUT_B3_1_1: Out = chunks_mut_b3::<1, 1>();
const C_CHUNKS_B3_1_2: Out = chunks_b3::<1, 2>();
const C_CHUNKS_MUT_B3_1_2: Out = chunks_mut_b3::<1, 2>();
const C_CHUNKS_B3_1_3: Out = chunks_b3::<1, 3>();
const C_CHUNKS_MUT_B3_1_3: Out = chunks_mut_b3::<1, 3>();
const C_CHUNKS_B3_1_4: Out = chunks_b3::<1, 4>();
const C_CHUNKS_MUT_B3_1_4: Out = chunks_mut_b3::<1, 4>();
const C_CHUNKS_B3_1_5: Out = chunks_b3::<1, 5>();
const C_CHUNKS_MUT_B3_1_5: Out = chunks_mut_b3::<1, 5>();
const C_REINTERPRET_B3_1_0: Out = reinterpret_b3::<1, 0>();
const C_REINTERPRET_B3_1_1: Out = reinterpret_b3::<1, 1>();
const C_REINTERPRET_B3_1_2: Out = reinterpret_b3::<1, 2>();
const C_REINTERPRET_B3_1_5: Out = reinterpret_b3::<1, 5>();
const C_BYVALUE_B3_1: Out = byvalue_b3::<1>();
const C_NATIVE_CHUNKS_B3_1_0: Out = native_chunks_b3::<1, 0>();
const C_NATIVE_CHUNKS_B3_1_1: Out = native_chunks_b3::<1, 1>();
const C_NATIVE_CHUNKS_B3_1_2: Out = native_chunks_b3::<1, 2>();
const C_NATIVE_CHUNKS_B3_1_3: Out = native_chunks_b3::<1, 3>();
const C_CHUNKS_B3_2_0: Out = chunks_b3::<2, 0>();
const C_CHUNKS_MUT_B3_2_0: Out = chunks_mut_b3::<2, 0>();
const C_CHUNKS_B3_2_1: Out = chunks_b3::<2, 1>();
const C_CHUNKS_MUT_B3_2_1: Out = chunks_mut_b3::<2, 1>();
const C_CHUNKS_B3_2_2: Out = chunks_b3::<2, 2>();
const C_CHUNKS_MUT_B3_2_2: Out = chunks_mut_b3::<2, 2>();
const C_CHUNKS_B3_2_3: Out = chunks_b3::<2, 3>();
const C_CHUNKS_MUT_B3_2_3: Out = chunks_mut_b3::<2, 3>();
const C_CHUNKS_B3_2_4: Out = chunks_b3::<2, 4>();
const C_CHUNKS_MUT_B3_2_4: Out = chunks_mut_b3::<2, 4>();
const C_CHUNKS_B3_2_5: Out = chunks_b3::<2, 5>();
const C_CHUNKS_MUT_B3_2_5: Out = chunks_mut_b3::<2, 5>();
const C_CHUNKS_B3_2_6: Out = chunks_b3::<2, 6>();
const C_CHUNKS_MUT_B3_2_6: Out = chunks_mut_b3::<2, 6>();
const C_CHUNKS_B3_2_7: Out = chunks_b3::<2, 7>();
const C_CHUNKS_MUT_B3_2_7: Out = chunks_mut_b3::<2, 7>();
const C_CHUNKS_B3_2_8: Out = chunks_b3::<2, 8>();
const C_CHUNKS_MUT_B3_2_8: Out = chunks_mut_b3::<2, 8>();
const C_REINTERPRET_B3_2_0: Out = reinterpret_b3::<2, 0>();
const C_REINTERPRET_B3_2_1: Out = reinterpret_b3::<2, 1>();
const C_REINTERPRET_B3_2_2: Out = reinterpret_b3::<2, 2>();
const C_REINTERPRET_B3_2_3: Out = reinterpret_b3::<2, 3>();
const C_REINTERPRET_B3_2_4: Out = reinterpret_b3::<2, 4>();
const C_REINTERPRET_B3_2_8: Out = reinterpret_b3::<2, 8>();
const C_BYVALUE_B3_2: Out = byvalue_b3::<2>();
const C_NATIVE_CHUNKS_B3_2_0: Out = native_chunks_b3::<2, 0>();
const C_NATIVE_CHUNKS_B3_2_1: Out = native_chunks_b3::<2, 1>();
const C_NATIVE_CHUNKS_B3_2_2: Out = native_chunks_b3::<2, 2>();
const C_NATIVE_CHUNKS_B3_2_3: Out = native_chunks_b3::<2, 3>();
const C_CHUNKS_B3_3_0: Out = chunks_b3::<3, 0>();
const C_CHUNKS_MUT_B3_3_0: Out = chunks_mut_b3::<3, 0>();
const C_CHUNKS_B3_3_1: Out = chunks_b3::<3, 1>();
const C_CHUNKS_MUT_B3_3_1: Out = chunks_mut_b3::<3, 1>();
const C_CHUNKS_B3_3_2: Out = chunks_b3::<3, 2>();
const C_CHUNKS_MUT_B3_3_2: Out = chunks_mut_b3::<3, 2>();
const C_CHUNKS_B3_3_3: Out = chunks_b3::<3, 3>();
const C_CHUNKS_MUT_B3_3_3: Out = chunks_mut_b3::<3, 3>();
const C_CHUNKS_B3_3_4: Out = chunks_b3::<3, 4>();
const C_CHUNKS_MUT_B3_3_4: Out = chunks_mut_b3::<3, 4>();
const C_CHUNKS_B3_3_5: Out = chunks_b3::<3, 5>();
const C_CHUNKS_MUT_B3_3_5: Out = chunks_mut_b3::<3, 5>();
const C_CHUNKS_B3_3_6: Out = chunks_b3::<3, 6>();
const C_CHUNKS_MUT_B3_3_6: Out = chunks_mut_b3::<3, 6>();
const C_CHUNKS_B3_3_7: Out = chunks_b3::<3, 7>();
const C_CHUNKS_MUT_B3_3_7: Out = chunks_mut_b3::<3, 7>();
const C_CHUNKS_B3_3_8: Out = chunks_b3::<3, 8>();
const C_CHUNKS_MUT_B3_3_8: Out = chunks_mut_b3::<3, 8>();
const C_CHUNKS_B3_3_9: Out = chunks_b3::<3, 9>();
const C_CHUNKS_MUT_B3_3_9: Out = chunks_mut_b3::<3, 9>();
const C_CHUNKS_B3_3_10: Out = chunks_b3::<3, 10>();
const C_CHUNKS_MUT_B3_3_10: Out = chunks_mut_b3::<3, 10>();
const C_CHUNKS_B3_3_11: Out = chunks_b3::<3, 11>();
const C_CHUNKS_MUT_B3_3_11: Out = chunks_mut_b3::<3, 11>();
const C_REINTERPRET_B3_3_0: Out = reinterpret_b3::<3, 0>();
const C_REINTERPRET_B3_3_1: Out = reinterpret_b3::<3, 1>();
const C_REINTERPRET_B3_3_2: Out = reinterpret_b3::<3, 2>();
const C_REINTERPRET_B3_3_3: Out = reinterpret_b3::<3, 3>();
const C_REINTERPRET_B3_3_4: Out = reinterpret_b3::<3, 4>();
const C_REINTERPRET_B3_3_6: Out = reinterpret_b3::<3, 6>();
const C_REINTERPRET_B3_3_11: Out = reinterpret_b3::<3, 11>();
const C_BYVALUE_B3_3: Out = byvalue_b3::<3>();
const C_NATIVE_CHUNKS_B3_3_0: Out = native_chunks_b3::<3, 0>();
const C_NATIVE_CHUNKS_B3_3_1: Out = native_chunks_b3::<3, 1>();
const C_NATIVE_CHUNKS_B3_3_2: Out = native_chunks_b3::<3, 2>();
const C_NATIVE_CHUNKS_B3_3_3: Out = native_chunks_b3::<3, 3>();
const C_CHUNKS_B3_7_0: Out = chunks_b3::<7, 0>();
const C_CHUNKS_MUT_B3_7_0: Out = chunks_mut_b3::<7, 0>();
const C_CHUNKS_B3_7_1: Out = chunks_b3::<7, 1>();
const C_CHUNKS_MUT_B3_7_1: Out = chunks_mut_b3::<7, 1>();
const C_CHUNKS_B3_7_2: Out = chunks_b3::<7, 2>();
const C_CHUNKS_MUT_B3_7_2: Out = chunks_mut_b3::<7, 2>();
const C_CHUNKS_B3_7_3: Out = chunks_b3::<7, 3>();
const C_CHUNKS_MUT_B3_7_3: Out = chunks_mut_b3::<7, 3>();
const C_CHUNKS_B3_7_4: Out = chunks_b3::<7, 4>();
const C_CHUNKS_MUT_B3_7_4: Out = chunks_mut_b3::<7, 4>();
const C_CHUNKS_B3_7_5: Out = chunks_b3::<7, 5>();
const C_CHUNKS_MUT_B3_7_5: Out = chunks_mut_b3::<7, 5>();
const C_CHUNKS_B3_7_6: Out = chunks_b3::<7, 6>();
const C_CHUNKS_MUT_B3_7_6: Out = chunks_mut_b3::<7, 6>();
const C_CHUNKS_B3_7_7: Out = chunks_b3::<7, 7>();
const C_CHUNKS_MUT_B3_7_7: Out = chunks_mut_b3::<7, 7>();
const C_CHUNKS_B3_7_8: Out = chunks_b3::<7, 8>();
const C_CHUNKS_MUT_B3_7_8: Out = chunks_mut_b3::<7, 8>();
const C_CHUNKS_B3_7_9: Out = chunks_b3::<7, 9>();
const C_CHUNKS_MUT_B3_7_9: Out = chunks_mut_b3::<7, 9>();
const C_CHUNKS_B3_7_10: Out = chunks_b3::<7, 10>();
const C_CHUNKS_MUT_B3_7_10: Out = chunks_mut_b3::<7, 10>();
const C_CHUNKS_B3_7_11: Out = chunks_b3::<7, 11>();
const C_CHUNKS_MUT_B3_7_11: Out = chunks_mut_b3::<7, 11>();
const C_CHUNKS_B3_7_12: Out = chunks_b3::<7, 12>();
const C_CHUNKS_MUT_B3_7_12: Out = chunks_mut_b3::<7, 12>();
const C_CHUNKS_B3_7_13: Out = chunks_b3::<7, 13>();
const C_CHUNKS_MUT_B3_7_13: Out = chunks_mut_b3::<7, 13>();
const C_CHUNKS_B3_7_14: Out = chunks_b3::<7, 14>();
const C_CHUNKS_MUT_B3_7_14: Out = chunks_mut_b3::<7, 14>();
const C_CHUNKS_B3_7_15: Out = chunks_b3::<7, 15>();
const C_CHUNKS_MUT_B3_7_15: Out = chunks_mut_b3::<7, 15>();
const C_CHUNKS_B3_7_16: Out = chunks_b3::<7, 16>();
const C_CHUNKS_MUT_B3_7_16: Out = chunks_mut_b3::<7, 16>();
const C_CHUNKS_B3_7_17: Out = chunks_b3::<7, 17>();
const C_CHUNKS_MUT_B3_7_17: Out = chunks_mut_b3::<7, 17>();
const C_CHUNKS_B3_7_18: Out = chunks_b3::<7, 18>();
const C_CHUNKS_MUT_B3_7_18: Out = chunks_mut_b3::<7, 18>();
const C_CHUNKS_B3_7_19: Out = chunks_b3::<7, 19>();
const C_CHUNKS_MUT_B3_7_19: Out = chunks_mut_b3::<7, 19>();
const C_CHUNKS_B3_7_20: Out = chunks_b3::<7, 20>();
const C_CHUNKS_MUT_B3_7_20: Out = chunks_mut_b3::<7, 20>();
const C_CHUNKS_B3_7_21: Out = chunks_b3::<7, 21>();
const C_CHUNKS_MUT_B3_7_21: Out = chunks_mut_b3::<7, 21>();
const C_CHUNKS_B3_7_22: Out = chunks_b3::<7, 22>();
const C_CHUNKS_MUT_B3_7_22: Out = chunks_mut_b3::<7, 22>();
const C_CHUNKS_B3_7_23: Out = chunks_b3::<7, 23>();
const C_CHUNKS_MUT_B3_7_23: Out = chunks_mut_b3::<7, 23>();
const C_REINTERPRET_B3_7_0: Out = reinterpret_b3::<7, 0>();
const C_REINTERPRET_B3_7_1: Out = reinterpret_b3::<7, 1>();
const C_REINTERPRET_B3_7_6: Out = reinterpret_b3::<7, 6>();
const C_REINTERPRET_B3_7_7: Out = reinterpret_b3::<7, 7>();
const C_REINTERPRET_B3_7_8: Out = reinterpret_b3::<7, 8>();
const C_REINTERPRET_B3_7_14: Out = reinterpret_b3::<7, 14>();
const C_REINTERPRET_B3_7_23: Out = reinterpret_b3::<7, 23>();
const C_BYVALUE_B3_7: Out = byvalue_b3::<7>();
const C_NATIVE_CHUNKS_B3_7_0: Out = native_chunks_b3::<7, 0>();
const C_NATIVE_CHUNKS_B3_7_1: Out = native_chunks_b3::<7, 1>();
const C_NATIVE_CHUNKS_B3_7_2: Out = native_chunks_b3::<7, 2>();
const C_NATIVE_CHUNKS_B3_7_3: Out = native_chunks_b3::<7, 3>();
const C_CHUNKS_B3_8_0: Out = chunks_b3::<8, 0>();
const C_CHUNKS_MUT_B3_8_0: Out = chunks_mut_b3::<8, 0>();
const C_CHUNKS_B3_8_1: Out = chunks_b3::<8, 1>();
const C_CHUNKS_MUT_B3_8_1: Out = chunks_mut_b3::<8, 1>();
const C_CHUNKS_B3_8_2: Out = chunks_b3::<8, 2>();
const C_CHUNKS_MUT_B3_8_2: Out = chunks_mut_b3::<8, 2>();
const C_CHUNKS_B3_8_3: Out = chunks_b3::<8, 3>();
const C_CHUNKS_MUT_B3_8_3: Out = chunks_mut_b3::<8, 3>();
const C_CHUNKS_B3_8_4: Out = chunks_b3::<8, 4>();
const C_CHUNKS_MUT_B3_8_4: Out = chunks_mut_b3::<8, 4>();
const C_CHUNKS_B3_8_5: Out = chunks_b3::<8, 5>();
const C_CHUNKS_MUT_B3_8_5: Out = chunks_mut_b3::<8, 5>();
const C_CHUNKS_B3_8_6: Out = chunks_b3::<8, 6>();
const C_CHUNKS_MUT_B3_8_6: Out = chunks_mut_b3::<8, 6>();
const C_CHUNKS_B3_8_7: Out = chunks_b3::<8, 7>();
const C_CHUNKS_MUT_B3_8_7: Out = chunks_mut_b3::<8, 7>();
const C_CHUNKS_B3_8_8: Out = chunks_b3::<8, 8>();
const C_CHUNKS_MUT_B3_8_8: Out = chunks_mut_b3::<8, 8>();
const C_CHUNKS_B3_8_9: Out = chunks_b3::<8, 9>();
const C_CHUNKS_MUT_B3_8_9: Out = chunks_mut_b3::<8, 9>();
const C_CHUNKS_B3_8_10: Out = chunks_b3::<8, 10>();
const C_CHUNKS_MUT_B3_8_10: Out = chunks_mut_b3::<8, 10>();
const C_CHUNKS_B3_8_11: Out = chunks_b3::<8, 11>();
const C_CHUNKS_MUT_B3_8_11: Out = chunks_mut_b3::<8, 11>();
const C_CHUNKS_B3_8_12: Out = chunks_b3::<8, 12>();
const C_CHUNKS_MUT_B3_8_12: Out = chunks_mut_b3::<8, 12>();
const C_CHUNKS_B3_8_13: Out = chunks_b3::<8, 13>();
const C_CHUNKS_MUT_B3_8_13: Out = chunks_mut_b3::<8, 13>();
const C_CHUNKS_B3_8_14: Out = chunks_b3::<8, 14>();
const C_CHUNKS_MUT_B3_8_14: Out = chunks_mut_b3::<8, 14>();
const C_CHUNKS_B3_8_15: Out = chunks_b3::<8, 15>();
const C_CHUNKS_MUT_B3_8_15: Out = chunks_mut_b3::<8, 15>();
const C_CHUNKS_B3_8_16: Out = chunks_b3::<8, 16>();
const C_CHUNKS_MUT_B3_8_16: Out = chunks_mut_b3::<8, 16>();
const C_CHUNKS_B3_8_17: Out = chunks_b3::<8, 17>();
const C_CHUNKS_MUT_B3_8_17: Out = chunks_mut_b3::<8, 17>();
const C_CHUNKS_B3_8_18: Out = chunks_b3::<8, 18>();
const C_CHUNKS_MUT_B3_8_18: Out = chunks_mut_b3::<8, 18>();
const C_CHUNKS_B3_8_19: Out = chunks_b3::<8, 19>();
const C_CHUNKS_MUT_B3_8_19: Out = chunks_mut_b3::<8, 19>();
const C_CHUNKS_B3_8_20: Out = chunks_b3::<8, 20>();
const C_CHUNKS_MUT_B3_8_20: Out = chunks_mut_b3::<8, 20>();
const C_CHUNKS_B3_8_21: Out = chunks_b3::<8, 21>();
const C_CHUNKS_MUT_B3_8_21: Out = chunks_mut_b3::<8, 21>();
const C_CHUNKS_B3_8_22: Out = chunks_b3::<8, 22>();
const C_CHUNKS_MUT_B3_8_22: Out = chunks_mut_b3::<8, 22>();
const C_CHUNKS_B3_8_23: Out = chunks_b3::<8, 23>();
const C_CHUNKS_MUT_B3_8_23: Out = chunks_mut_b3::<8, 23>();
const C_CHUNKS_B3_8_24: Out = chunks_b3::<8, 24>();
const C_CHUNKS_MUT_B3_8_24: Out = chunks_mut_b3::<8, 24>();
const C_CHUNKS_B3_8_25: Out = chunks_b3::<8, 25>();
const C_CHUNKS_MUT_B3_8_25: Out = chunks_mut_b3::<8, 25>();
const C_CHUNKS_B3_8_26: Out = chunks_b3::<8, 26>();
const C_CHUNKS_MUT_B3_8_26: Out = chunks_mut_b3::<8, 26>();
const C_REINTERPRET_B3_8_0: Out = reinterpret_b3::<8, 0>();
const C_REINTERPRET_B3_8_1: Out = reinterpret_b3::<8, 1>();
const C_REINTERPRET_B3_8_7: Out = reinterpret_b3::<8, 7>();
const C_REINTERPRET_B3_8_8: Out = reinterpret_b3::<8, 8>();
const C_REINTERPRET_B3_8_9: Out = reinterpret_b3::<8, 9>();
const C_REINTERPRET_B3_8_16: Out = reinterpret_b3::<8, 16>();
const C_REINTERPRET_B3_8_26: Out = reinterpret_b3::<8, 26>();
const C_BYVALUE_B3_8: Out = byvalue_b3::<8>();
const C_NATIVE_CHUNKS_B3_8_0: Out = native_chunks_b3::<8, 0>();
const C_NATIVE_CHUNKS_B3_8_1: Out = native_chunks_b3::<8, 1>();
const C_NATIVE_CHUNKS_B3_8_2: Out = native_chunks_b3::<8, 2>();
const C_NATIVE_CHUNKS_B3_8_3: Out = native_chunks_b3::<8, 3>();
const C_CHUNKS_B3_16_0: Out = chunks_b3::<16, 0>();
const C_CHUNKS_MUT_B3_16_0: Out = chunks_mut_b3::<16, 0>();
const C_CHUNKS_B3_16_1: Out = chunks_b3::<16, 1>();
const C_CHUNKS_MUT_B3_16_1: Out = chunks_mut_b3::<16, 1>();
const C_CHUNKS_B3_16_2: Out = chunks_b3::<16, 2>();
const C_CHUNKS_MUT_B3_16_2: Out = chunks_mut_b3::<16, 2>();
const C_CHUNKS_B3_16_3: Out = chunks_b3::<16, 3>();
const C_CHUNKS_MUT_B3_16_3: Out = chunks_mut_b3::<16, 3>();
const C_CHUNKS_B3_16_4: Out = chunks_b3::<16, 4>();
const C_CHUNKS_MUT_B3_16_4: Out = chunks_mut_b3::<16, 4>();
const C_CHUNKS_B3_16_5: Out = chunks_b3::<16, 5>();
const C_CHUNKS_MUT_B3_16_5: Out = chunks_mut_b3::<16, 5>();
const C_CHUNKS_B3_16_6: Out = chunks_b3::<16, 6>();
const C_CHUNKS_MUT_B3_16_6: Out = chunks_mut_b3::<16, 6>();
const C_CHUNKS_B3_16_7: Out = chunks_b3::<16, 7>();
const C_CHUNKS_MUT_B3_16_7: Out = chunks_mut_b3::<16, 7>();
const C_CHUNKS_B3_16_8: Out = chunks_b3::<16, 8>();
const C_CHUNKS_MUT_B3_16_8: Out = chunks_mut_b3::<16, 8>();
const C_CHUNKS_B3_16_9: Out = chunks_b3::<16, 9>();
const C_CHUNKS_MUT_B3_16_9: Out = chunks_mut_b3::<16, 9>();
const C_CHUNKS_B3_16_10: Out = chunks_b3::<16, 10>();
const C_CHUNKS_MUT_B3_16_10: Out = chunks_mut_b3::<16, 10>();
const C_CHUNKS_B3_16_11: Out = chunks_b3::<16, 11>();
const C_CHUNKS_MUT_B3_16_11: Out = chunks_mut_b3::<16, 11>();
const C_CHUNKS_B3_16_12: Out = chunks_b3::<16, 12>();
const C_CHUNKS_MUT_B3_16_12: Out = chunks_mut_b3::<16, 12>();
const C_CHUNKS_B3_16_13: Out = chunks_b3::<16, 13>();
const C_CHUNKS_MUT_B3_16_13: Out = chunks_mut_b3::<16, 13>();
const C_CHUNKS_B3_16_14: Out = chunks_b3::<16, 14>();
const C_CHUNKS_MUT_B3_16_14: Out = chunks_mut_b3::<16, 14>();
const C_CHUNKS_B3_16_15: Out = chunks_b3::<16, 15>();
const C_CHUNKS_MUT_B3_16_15: Out = chunks_mut_b3::<16, 15>();
const C_CHUNKS_B3_16_16: Out = chunks_b3::<16, 16>();
const C_CHUNKS_MUT_B3_16_16: Out = chunks_mut_b3::<16, 16>();
const C_CHUNKS_B3_16_17: Out = chunks_b3::<16, 17>();
const C_CHUNKS_MUT_B3_16_17: Out = chunks_mut_b3::<16, 17>();
const C_CHUNKS_B3_16_18: Out = chunks_b3::<16, 18>();
const C_CHUNKS_MUT_B3_16_18: Out = chunks_mut_b3::<16, 18>();
const C_CHUNKS_B3_16_19: Out = chunks_b3::<16, 19>();
const C_CHUNKS_MUT_B3_16_19: Out = chunks_mut_b3::<16, 19>();
const C_CHUNKS_B3_16_20: Out = chunks_b3::<16, 20>();
const C_CHUNKS_MUT_B3_16_20: Out = chunks_mut_b3::<16, 20>();
const C_CHUNKS_B3_16_21: Out = chunks_b3::<16, 21>();
const C_CHUNKS_MUT_B3_16_21: Out = chunks_mut_b3::<16, 21>();
const C_CHUNKS_B3_16_22: Out = chunks_b3::<16, 22>();
const C_CHUNKS_MUT_B3_16_22: Out = chunks_mut_b3::<16, 22>();
const C_CHUNKS_B3_16_23: Out = chunks_b3::<16, 23>();
const C_CHUNKS_MUT_B3_16_23: Out = chunks_mut_b3::<16, 23>();
const C_CHUNKS_B3_16_24: Out = chunks_b3::<16, 24>();
const C_CHUNKS_MUT_B3_16_24: Out = chunks_mut_b3::<16, 24>();
const C_CHUNKS_B3_16_25: Out = chunks_b3::<16, 25>();
const C_CHUNKS_MUT_B3_16_25: Out = chunks_mut_b3::<16, 25>();
const C_CHUNKS_B3_16_26: Out = chunks_b3::<16, 26>();
const C_CHUNKS_MUT_B3_16_26: Out = chunks_mut_b3::<16, 26>();
const C_CHUNKS_B3_16_27: Out = chunks_b3::<16, 27>();
const C_CHUNKS_MUT_B3_16_27: Out = chunks_mut_b3::<16, 27>();
const C_CHUNKS_B3_16_28: Out = chunks_b3::<16, 28>();
const C_CHUNKS_MUT_B3_16_28: Out = chunks_mut_b3::<16, 28>();
const C_CHUNKS_B3_16_29: Out = chunks_b3::<16, 29>();
const C_CHUNKS_MUT_B3_16_29: Out = chunks_mut_b3::<16, 29>();
const C_CHUNKS_B3_16_30: Out = chunks_b3::<16, 30>();
const C_CHUNKS_MUT_B3_16_30: Out = chunks_mut_b3::<16, 30>();
const C_CHUNKS_B3_16_31: Out = chunks_b3::<16, 31>();
const C_CHUNKS_MUT_B3_16_31: Out = chunks_mut_b3::<16, 31>();
const C_CHUNKS_B3_16_32: Out = chunks_b3::<16, 32>();
const C_CHUNKS_MUT_B3_16_32: Out = chunks_mut_b3::<16, 32>();
const C_CHUNKS_B3_16_33: Out = chunks_b3::<16, 33>();
const C_CHUNKS_MUT_B3_16_33: Out = chunks_mut_b3::<16, 33>();
const C_CHUNKS_B3_16_34: Out = chunks_b3::<16, 34>();
const C_CHUNKS_MUT_B3_16_34: Out = chunks_mut_b3::<16, 34>();
const C_CHUNKS_B3_16_35: Out = chunks_b3::<16, 35>();
const C_CHUNKS_MUT_B3_16_35: Out = chunks_mut_b3::<16, 35>();
const C_CHUNKS_B3_16_36: Out = chunks_b3::<16, 36>();
const C_CHUNKS_MUT_B3_16_36: Out = chunks_mut_b3::<16, 36>();
const C_CHUNKS_B3_16_37: Out = chunks_b3::<16, 37>();
const C_CHUNKS_MUT_B3_16_37: Out = chunks_mut_b3::<16, 37>();
const C_CHUNKS_B3_16_38: Out = chunks_b3::<16, 38>();
const C_CHUNKS_MUT_B3_16_38: Out = chunks_mut_b3::<16, 38>();
const C_CHUNKS_B3_16_39: Out = chunks_b3::<16, 39>();
const C_CHUNKS_MUT_B3_16_39: Out = chunks_mut_b3::<16, 39>();
const C_CHUNKS_B3_16_40: Out = chunks_b3::<16, 40>();
const C_CHUNKS_MUT_B3_16_40: Out = chunks_mut_b3::<16, 40>();
const C_CHUNKS_B3_16_41: Out = chunks_b3::<16, 41>();
const C_CHUNKS_MUT_B3_16_41: Out = chunks_mut_b3::<16, 41>();
const C_CHUNKS_B3_16_42: Out = chunks_b3::<16, 42>();
const C_CHUNKS_MUT_B3_16_42: Out = chunks_mut_b3::<16, 42>();
const C_CHUNKS_B3_16_43: Out = chunks_b3::<16, 43>();
const C_CHUNKS_MUT_B3_16_43: Out = chunks_mut_b3::<16, 43>();
const C_CHUNKS_B3_16_44: Out = chunks_b3::<16, 44>();
const C_CHUNKS_MUT_B3_16_44: Out = chunks_mut_b3::<16, 44>();
const C_CHUNKS_B3_16_45: Out = chunks_b3::<16, 45>();
const C_CHUNKS_MUT_B3_16_45: Out = chunks_mut_b3::<16, 45>();
const C_CHUNKS_B3_16_46: Out = chunks_b3::<16, 46>();
const C_CHUNKS_MUT_B3_16_46: Out = chunks_mut_b3::<16, 46>();
const C_CHUNKS_B3_16_47: Out = chunks_b3::<16, 47>();
const C_CHUNKS_MUT_B3_16_47: Out = chunks_mut_b3::<16, 47>();
const C_CHUNKS_B3_16_48: Out = chunks_b3::<16, 48>();
const C_CHUNKS_MUT_B3_16_48: Out = chunks_mut_b3::<16, 48>();
const C_CHUNKS_B3_16_49: Out = chunks_b3::<16, 49>();
const C_CHUNKS_MUT_B3_16_49: Out = chunks_mut_b3::<16, 49>();
const C_CHUNKS_B3_16_50: Out = chunks_b3::<16, 50>();
const C_CHUNKS_MUT_B3_16_50: Out = chunks_mut_b3::<16, 50>();
const C_REINTERPRET_B3_16_0: Out = reinterpret_b3::<16, 0>();
const C_REINTERPRET_B3_16_1: Out = reinterpret_b3::<16, 1>();
const C_REINTERPRET_B3_16_15: Out = reinterpret_b3::<16, 15>();
const C_REINTERPRET_B3_16_16: Out = reinterpret_b3::<16, 16>();
const C_REINTERPRET_B3_16_17: Out = reinterpret_b3::<16, 17>();
const C_REINTERPRET_B3_16_32: Out = reinterpret_b3::<16, 32>();
const C_REINTERPRET_B3_16_50: Out = reinterpret_b3::<16, 50>();
const C_BYVALUE_B3_16: Out = byvalue_b3::<16>();
const C_NATIVE_CHUNKS_B3_16_0: Out = native_chunks_b3::<16, 0>();
const C_NATIVE_CHUNKS_B3_16_1: Out = native_chunks_b3::<16, 1>();
const C_NATIVE_CHUNKS_B3_16_2: Out = native_chunks_b3::<16, 2>();
const C_NATIVE_CHUNKS_B3_16_3: Out = native_chunks_b3::<16, 3>();
const C_CHUNKS_B3_17_0: Out = chunks_b3::<17, 0>();
const C_CHUNKS_MUT_B3_17_0: Out = chunks_mut_b3::<17, 0>();
const C_CHUNKS_B3_17_1: Out = chunks_b3::<17, 1>();
const C_CHUNKS_MUT_B3_17_1: Out = chunks_mut_b3::<17, 1>();
const C_CHUNKS_B3_17_2: Out = chunks_b3::<17, 2>();
const C_CHUNKS_MUT_B3_17_2: Out = chunks_mut_b3::<17, 2>();
const C_CHUNKS_B3_17_3: Out = chunks_b3::<17, 3>();
const C_CHUNKS_MUT_B3_17_3: Out = chunks_mut_b3::<17, 3>();
const C_CHUNKS_B3_17_4: Out = chunks_b3::<17, 4>();
const C_CHUNKS_MUT_B3_17_4: Out = chunks_mut_b3::<17, 4>();
const C_CHUNKS_B3_17_5: Out = chunks_b3::<17, 5>();
const C_CHUNKS_MUT_B3_17_5: Out = chunks_mut_b3::<17, 5>();
const C_CHUNKS_B3_17_6: Out = chunks_b3::<17, 6>();
const C_CHUNKS_MUT_B3_17_6: Out = chunks_mut_b3::<17, 6>();
const C_CHUNKS_B3_17_7: Out = chunks_b3::<17, 7>();
const C_CHUNKS_MUT_B3_17_7: Out = chunks_mut_b3::<17, 7>();
const C_CHUNKS_B3_17_8: Out = chunks_b3::<17, 8>();
const C_CHUNKS_MUT_B3_17_8: Out = chunks_mut_b3::<17, 8>();
const C_CHUNKS_B3_17_9: Out = chunks_b3::<17, 9>();
const C_CHUNKS_MUT_B3_17_9: Out = chunks_mut_b3::<17, 9>();
const C_CHUNKS_B3_17_10: Out = chunks_b3::<17, 10>();
const C_CHUNKS_MUT_B3_17_10: Out = chunks_mut_b3::<17, 10>();
const C_CHUNKS_B3_17_11: Out = chunks_b3::<17, 11>();
const C_CHUNKS_MUT_B3_17_11: Out = chunks_mut_b3::<17, 11>();
const C_CHUNKS_B3_17_12: Out = chunks_b3::<17, 12>();
const C_CHUNKS_MUT_B3_17_12: Out = chunks_mut_b3::<17, 12>();
const C_CHUNKS_B3_17_13: Out = chunks_b3::<17, 13>();
const C_CHUNKS_MUT_B3_17_13: Out = chunks_mut_b3::<17, 13>();
const C_CHUNKS_B3_17_14: Out = chunks_b3::<17, 14>();
const C_CHUNKS_MUT_B3_17_14: Out = chunks_mut_b3::<17, 14>();
const C_CHUNKS_B3_17_15: Out = chunks_b3::<17, 15>();
const C_CHUNKS_MUT_B3_17_15: Out = chunks_mut_b3::<17, 15>();
const C_CHUNKS_B3_17_16: Out = chunks_b3::<17, 16>();
const C_CHUNKS_MUT_B3_17_16: Out = chunks_mut_b3::<17, 16>();
const C_CHUNKS_B3_17_17: Out = chunks_b3::<17, 17>();
const C_CHUNKS_MUT_B3_17_17: Out = chunks_mut_b3::<17, 17>();
const C_CHUNKS_B3_17_18: Out = chunks_b3::<17, 18>();
const C_CHUNKS_MUT_B3_17_18: Out = chunks_mut_b3::<17, 18>();
const C_CHUNKS_B3_17_19: Out = chunks_b3::<17, 19>();
const C_CHUNKS_MUT_B3_17_19: Out = chunks_mut_b3::<17, 19>();
const C_CHUNKS_B3_17_20: Out = chunks_b3::<17, 20>();
const C_CHUNKS_MUT_B3_17_20: Out = chunks_mut_b3::<17, 20>();
const C_CHUNKS_B3_17_21: Out = chunks_b3::<17, 21>();
const C_CHUNKS_MUT_B3_17_21: Out = chunks_mut_b3::<17, 21>();
const C_CHUNKS_B3_17_22: Out = chunks_b3::<17, 22>();
const C_CHUNKS_MUT_B3_17_22: Out = chunks_mut_b3::<17, 22>();
const C_CHUNKS_B3_17_23: Out = chunks_b3::<17, 23>();
const C_CHUNKS_MUT_B3_17_23: Out = chunks_mut_b3::<17, 23>();
const C_CHUNKS_B3_17_24: Out = chunks_b3::<17, 24>();
const C_CHUNKS_MUT_B3_17_24: Out = chunks_mut_b3::<17, 24>();
const C_CHUNKS_B3_17_25: Out = chunks_b3::<17, 25>();
const C_CHUNKS_MUT_B3_17_25: Out = chunks_mut_b3::<17, 25>();
const C_CHUNKS_B3_17_26: Out = chunks_b3::<17, 26>();
const C_CHUNKS_MUT_B3_17_26: Out = chunks_mut_b3::<17, 26>();
const C_CHUNKS_B3_17_27: Out = chunks_b3::<17, 27>();
const C_CHUNKS_MUT_B3_17_27: Out = chunks_mut_b3::<17, 27>();
const C_CHUNKS_B3_17_28: Out = chunks_b3::<17, 28>();
const C_CHUNKS_MUT_B3_17_28: Out = chunks_mut_b3::<17, 28>();
const C_CHUNKS_B3_17_29: Out = chunks_b3::<17, 29>();
const C_CHUNKS_MUT_B3_17_29: Out = chunks_mut_b3::<17, 29>();
const C_CHUNKS_B3_17_30: Out = chunks_b3::<17, 30>();
const C_CHUNKS_MUT_B3_17_30: Out = chunks_mut_b3::<17, 30>();
const C_CHUNKS_B3_17_31: Out = chunks_b3::<17, 31>();
const C_CHUNKS_MUT_B3_17_31: Out = chunks_mut_b3::<17, 31>();
const C_CHUNKS_B3_17_32: Out = chunks_b3::<17, 32>();
const C_CHUNKS_MUT_B3_17_32: Out = chunks_mut_b3::<17, 32>();
const C_CHUNKS_B3_17_33: Out = chunks_b3::<17, 33>();
const C_CHUNKS_MUT_B3_17_33: Out = chunks_mut_b3::<17, 33>();
const C_CHUNKS_B3_17_34: Out = chunks_b3::<17, 34>();
const C_CHUNKS_MUT_B3_17_34: Out = chunks_mut_b3::<17, 34>();
const C_CHUNKS_B3_17_35: Out = chunks_b3::<17, 35>();
const C_CHUNKS_MUT_B3_17_35: Out = chunks_mut_b3::<17, 35>();
const C_CHUNKS_B3_17_36: Out = chunks_b3::<17, 36>();
const C_CHUNKS_MUT_B3_17_36: Out = chunks_mut_b3::<17, 36>();
const C_CHUNKS_B3_17_37: Out = chunks_b3::<17, 37>();
const C_CHUNKS_MUT_B3_17_37: Out = chunks_mut_b3::<17, 37>();
const C_CHUNKS_B3_17_38: Out = chunks_b3::<17, 38>();
const C_CHUNKS_MUT_B3_17_38: Out = chunks_mut_b3::<17, 38>();
const C_CHUNKS_B3_17_39: Out = chunks_b3::<17, 39>();
const C_CHUNKS_MUT_B3_17_39: Out = chunks_mut_b3::<17, 39>();
const C_CHUNKS_B3_17_40: Out = chunks_b3::<17, 40>();
const C_CHUNKS_MUT_B3_17_40: Out = chunks_mut_b3::<17, 40>();
const C_CHUNKS_B3_17_41: Out = chunks_b3::<17, 41>();
const C_CHUNKS_MUT_B3_17_41: Out = chunks_mut_b3::<17, 41>();
const C_CHUNKS_B3_17_42: Out = chunks_b3::<17, 42>();
const C_CHUNKS_MUT_B3_17_42: Out = chunks_mut_b3::<17, 42>();
const C_CHUNKS_B3_17_43: Out = chunks_b3::<17, 43>();
const C_CHUNKS_MUT_B3_17_43: Out = chunks_mut_b3::<17, 43>();
const C_CHUNKS_B3_17_44: Out = chunks_b3::<17, 44>();
const C_CHUNKS_MUT_B3_17_44: Out = chunks_mut_b3::<17, 44>();
const C_CHUNKS_B3_17_45: Out = chunks_b3::<17, 45>();
const C_CHUNKS_MUT_B3_17_45: Out = chunks_mut_b3::<17, 45>();
const C_CHUNKS_B3_17_46: Out = chunks_b3::<17, 46>();
const C_CHUNKS_MUT_B3_17_46: Out = chunks_mut_b3::<17, 46>();
const C_CHUNKS_B3_17_47: Out = chunks_b3::<17, 47>();
const C_CHUNKS_MUT_B3_17_47: Out = chunks_mut_b3::<17, 47>();
const C_CHUNKS_B3_17_48: Out = chunks_b3::<17, 48>();
const C_CHUNKS_MUT_B3_17_48: Out = chunks_mut_b3::<17, 48>();
const C_CHUNKS_B3_17_49: Out = chunks_b3::<17, 49>();
const C_CHUNKS_MUT_B3_17_49: Out = chunks_mut_b3::<17, 49>();
const C_CHUNKS_B3_17_50: Out = chunks_b3::<17, 50>();
const C_CHUNKS_MUT_B3_17_50: Out = chunks_mut_b3::<17, 50>();
const C_CHUNKS_B3_17_51: Out = chunks_b3::<17, 51>();
const C_CHUNKS_MUT_B3_17_51: Out = chunks_mut_b3::<17, 51>();
const C_CHUNKS_B3_17_52: Out = chunks_b3::<17, 52>();
const C_CHUNKS_MUT_B3_17_52: Out = chunks_mut_b3::<17, 52>();
const C_CHUNKS_B3_17_53: Out = chunks_b3::<17, 53>();
const C_CHUNKS_MUT_B3_17_53: Out = chunks_mut_b3::<17, 53>();
const C_REINTERPRET_B3_17_0: Out = reinterpret_b3::<17, 0>();
const C_REINTERPRET_B3_17_1: Out = reinterpret_b3::<17, 1>();
const C_REINTERPRET_B3_17_16: Out = reinterpret_b3::<17, 16>();
const C_REINTERPRET_B3_17_17: Out = reinterpret_b3::<17, 17>();
const C_REINTERPRET_B3_17_18: Out = reinterpret_b3::<17, 18>();
const C_REINTERPRET_B3_17_34: Out = reinterpret_b3::<17, 34>();
const C_REINTERPRET_B3_17_53: Out = reinterpret_b3::<17, 53>();
const C_BYVALUE_B3_17: Out = byvalue_b3::<17>();
const C_NATIVE_CHUNKS_B3_17_0: Out = native_chunks_b3::<17, 0>();
const C_NATIVE_CHUNKS_B3_17_1: Out = native_chunks_b3::<17, 1>();
const C_NATIVE_CHUNKS_B3_17_2: Out = native_chunks_b3::<17, 2>();
const C_NATIVE_CHUNKS_B3_17_3: Out = native_chunks_b3::<17, 3>();
const C_CHUNKS_B3_33_0: Out = chunks_b3::<33, 0>();
const C_CHUNKS_MUT_B3_33_0: Out = chunks_mut_b3::<33, 0>();
const C_CHUNKS_B3_33_1: Out = chunks_b3::<33, 1>();
const C_CHUNKS_MUT_B3_33_1: Out = chunks_mut_b3::<33, 1>();
const C_CHUNKS_B3_33_32: Out = chunks_b3::<33, 32>();
const C_CHUNKS_MUT_B3_33_32: Out = chunks_mut_b3::<33, 32>();
const C_CHUNKS_B3_33_33: Out = chunks_b3::<33, 33>();
const C_CHUNKS_MUT_B3_33_33: Out = chunks_mut_b3::<33, 33>();
const C_CHUNKS_B3_33_34: Out = chunks_b3::<33, 34>();
const C_CHUNKS_MUT_B3_33_34: Out = chunks_mut_b3::<33, 34>();
const C_CHUNKS_B3_33_65: Out = chunks_b3::<33, 65>();
const C_CHUNKS_MUT_B3_33_65: Out = chunks_mut_b3::<33, 65>();
const C_CHUNKS_B3_33_66: Out = chunks_b3::<33, 66>();
const C_CHUNKS_MUT_B3_33_66: Out = chunks_mut_b3::<33, 66>();
const C_CHUNKS_B3_33_67: Out = chunks_b3::<33, 67>();
const C_CHUNKS_MUT_B3_33_67: Out = chunks_mut_b3::<33, 67>();
const C_CHUNKS_B3_33_98: Out = chunks_b3::<33, 98>();
const C_CHUNKS_MUT_B3_33_98: Out = chunks_mut_b3::<33, 98>();
const C_CHUNKS_B3_33_99: Out = chunks_b3::<33, 99>();
const C_CHUNKS_MUT_B3_33_99: Out = chunks_mut_b3::<33, 99>();
const C_CHUNKS_B3_33_100: Out = chunks_b3::<33, 100>();
const C_CHUNKS_MUT_B3_33_100: Out = chunks_mut_b3::<33, 100>();
const C_CHUNKS_B3_33_101: Out = chunks_b3::<33, 101>();
const C_CHUNKS_MUT_B3_33_101: Out = chunks_mut_b3::<33, 101>();
const C_REINTERPRET_B3_33_0: Out = reinterpret_b3::<33, 0>();
const C_REINTERPRET_B3_33_1: Out = reinterpret_b3::<33, 1>();
const C_REINTERPRET_B3_33_32: Out = reinterpret_b3::<33, 32>();
const C_REINTERPRET_B3_33_33: Out = reinterpret_b3::<33, 33>();
const C_REINTERPRET_B3_33_34: Out = reinterpret_b3::<33, 34>();
const C_REINTERPRET_B3_33_66: Out = reinterpret_b3::<33, 66>();
const C_REINTERPRET_B3_33_101: Out = reinterpret_b3::<33, 101>();
const C_BYVALUE_B3_33: Out = byvalue_b3::<33>();
const C_NATIVE_CHUNKS_B3_33_0: Out = native_chunks_b3::<33, 0>();
const C_NATIVE_CHUNKS_B3_33_1: Out = native_chunks_b3::<33, 1>();
const C_NATIVE_CHUNKS_B3_33_2: Out = native_chunks_b3::<33, 2>();
const C_NATIVE_CHUNKS_B3_33_3: Out = native_chunks_b3::<33, 3>();
const C_CHUNKS_B3_64_0: Out = chunks_b3::<64, 0>();
const C_CHUNKS_MUT_B3_64_0: Out = chunks_mut_b3::<64, 0>();
const C_CHUNKS_B3_64_1: Out = chunks_b3::<64, 1>();
const C_CHUNKS_MUT_B3_64_1: Out = chunks_mut_b3::<64, 1>();
const C_CHUNKS_B3_64_63: Out = chunks_b3::<64, 63>();
const C_CHUNKS_MUT_B3_64_63: Out = chunks_mut_b3::<64, 63>();
const C_CHUNKS_B3_64_64: Out = chunks_b3::<64, 64>();
const C_CHUNKS_MUT_B3_64_64: Out = chunks_mut_b3::<64, 64>();
const C_CHUNKS_B3_64_65: Out = chunks_b3::<64, 65>();
const C_CHUNKS_MUT_B3_64_65: Out = chunks_mut_b3::<64, 65>();
const C_CHUNKS_B3_64_127: Out = chunks_b3::<64, 127>();
const C_CHUNKS_MUT_B3_64_127: Out = chunks_mut_b3::<64, 127>();
const C_CHUNKS_B3_64_128: Out = chunks_b3::<64, 128>();
const C_CHUNKS_MUT_B3_64_128: Out = chunks_mut_b3::<64, 128>();
const C_CHUNKS_B3_64_129: Out = chunks_b3::<64, 129>();
const C_CHUNKS_MUT_B3_64_129: Out = chunks_mut_b3::<64, 129>();
const C_CHUNKS_B3_64_191: Out = chunks_b3::<64, 191>();
const C_CHUNKS_MUT_B3_64_191: Out = chunks_mut_b3::<64, 191>();
const C_CHUNKS_B3_64_192: Out = chunks_b3::<64, 192>();
const C_CHUNKS_MUT_B3_64_192: Out = chunks_mut_b3::<64, 192>();
const C_CHUNKS_B3_64_193: Out = chunks_b3::<64, 193>();
const C_CHUNKS_MUT_B3_64_193: Out = chunks_mut_b3::<64, 193>();
const C_CHUNKS_B3_64_194: Out = chunks_b3::<64, 194>();
const C_CHUNKS_MUT_B3_64_194: Out = chunks_mut_b3::<64, 194>();
const C_REINTERPRET_B3_64_0: Out = reinterpret_b3::<64, 0>();
const C_REINTERPRET_B3_64_1: Out = reinterpret_b3::<64, 1>();
const C_REINTERPRET_B3_64_63: Out = reinterpret_b3::<64, 63>();
const C_REINTERPRET_B3_64_64: Out = reinterpret_b3::<64, 64>();
const C_REINTERPRET_B3_64_65: Out = reinterpret_b3::<64, 65>();
const C_REINTERPRET_B3_64_128: Out = reinterpret_b3::<64, 128>();
const C_REINTERPRET_B3_64_194: Out = reinterpret_b3::<64, 194>();
const C_BYVALUE_B3_64: Out = byvalue_b3::<64>();
const C_NATIVE_CHUNKS_B3_64_0: Out = native_chunks_b3::<64, 0>();
const C_NATIVE_CHUNKS_B3_64_1: Out = native_chunks_b3::<64, 1>();
const C_NATIVE_CHUNKS_B3_64_2: Out = native_chunks_b3::<64, 2>();
const C_NATIVE_CHUNKS_B3_64_3: Out = native_chunks_b3::<64, 3>();
const C_CHUNKS_B3_100_0: Out = chunks_b3::<100, 0>();
const C_CHUNKS_MUT_B3_100_0: Out = chunks_mut_b3::<100, 0>();
const C_CHUNKS_B3_100_1: Out = chunks_b3::<100, 1>();
const C_CHUNKS_MUT_B3_100_1: Out = chunks_mut_b3::<100, 1>();
const C_CHUNKS_B3_100_99: Out = chunks_b3::<100, 99>();
const C_CHUNKS_MUT_B3_100_99: Out = chunks_mut_b3::<100, 99>();
const C_CHUNKS_B3_100_100: Out = chunks_b3::<100, 100>();
const C_CHUNKS_MUT_B3_100_100: Out = chunks_mut_b3::<100, 100>();
const C_CHUNKS_B3_100_101: Out = chunks_b3::<100, 101>();
const C_CHUNKS_MUT_B3_100_101: Out = chunks_mut_b3::<100, 101>();
const C_CHUNKS_B3_100_199: Out = chunks_b3::<100, 199>();
const C_CHUNKS_MUT_B3_100_199: Out = chunks_mut_b3::<100, 199>();
const C_CHUNKS_B3_100_200: Out = chunks_b3::<100, 200>();
const C_CHUNKS_MUT_B3_100_200: Out = chunks_mut_b3::<100, 200>();
const C_CHUNKS_B3_100_201: Out = chunks_b3::<100, 201>();
const C_CHUNKS_MUT_B3_100_201: Out = chunks_mut_b3::<100, 201>();
const C_CHUNKS_B3_100_302: Out = chunks_b3::<100, 302>();
const C_CHUNKS_MUT_B3_100_302: Out = chunks_mut_b3::<100, 302>();
const C_REINTERPRET_B3_100_0: Out = reinterpret_b3::<100, 0>();
const C_REINTERPRET_B3_100_1: Out = reinterpret_b3::<100, 1>();
const C_REINTERPRET_B3_100_99: Out = reinterpret_b3::<100, 99>();
const C_REINTERPRET_B3_100_100: Out = reinterpret_b3::<100, 100>();
const C_REINTERPRET_B3_100_101: Out = reinterpret_b3::<100, 101>();
const C_REINTERPRET_B3_100_200: Out = reinterpret_b3::<100, 200>();
const C_REINTERPRET_B3_100_302: Out = reinterpret_b3::<100, 302>();
const C_BYVALUE_B3_100: Out = byvalue_b3::<100>();
const C_NATIVE_CHUNKS_B3_100_0: Out = native_chunks_b3::<100, 0>();
const C_NATIVE_CHUNKS_B3_100_1: Out = native_chunks_b3::<100, 1>();
const C_NATIVE_CHUNKS_B3_100_2: Out = native_chunks_b3::<100, 2>();
const C_NATIVE_CHUNKS_B3_100_3: Out = native_chunks_b3::<100, 3>();
const C_CHUNKS_B3_1024_0: Out = chunks_b3::<1024, 0>();
const C_CHUNKS_MUT_B3_1024_0: Out = chunks_mut_b3::<1024, 0>();
const C_CHUNKS_B3_1024_1: Out = chunks_b3::<1024, 1>();
const C_CHUNKS_MUT_B3_1024_1: Out = chunks_mut_b3::<1024, 1>();
const C_CHUNKS_B3_1024_1023: Out = chunks_b3::<1024, 1023>();
const C_CHUNKS_MUT_B3_1024_1023: Out = chunks_mut_b3::<1024, 1023>();
const C_CHUNKS_B3_1024_1024: Out = chunks_b3::<1024, 1024>();
const C_CHUNKS_MUT_B3_1024_1024: Out = chunks_mut_b3::<1024, 1024>();
const C_CHUNKS_B3_1024_1025: Out = chunks_b3::<1024, 1025>();
const C_CHUNKS_MUT_B3_1024_1025: Out = chunks_mut_b3::<1024, 1025>();
const C_CHUNKS_B3_1024_2047: Out = chunks_b3::<1024, 2047>();
const C_CHUNKS_MUT_B3_1024_2047: Out = chunks_mut_b3::<1024, 2047>();
const C_CHUNKS_B3_1024_2048: Out = chunks_b3::<1024, 2048>();
const C_CHUNKS_MUT_B3_1024_2048: Out = chunks_mut_b3::<1024, 2048>();
const C_CHUNKS_B3_1024_2049: Out = chunks_b3::<1024, 2049>();
const C_CHUNKS_MUT_B3_1024_2049: Out = chunks_mut_b3::<1024, 2049>();
const C_CHUNKS_B3_1024_3074: Out = chunks_b3::<1024, 3074>();
const C_CHUNKS_MUT_B3_1024_3074: Out = chunks_mut_b3::<1024, 3074>();
const C_REINTERPRET_B3_1024_0: Out = reinterpret_b3::<1024, 0>();
const C_REINTERPRET_B3_1024_1: Out = reinterpret_b3::<1024, 1>();
const C_REINTERPRET_B3_1024_1023: Out = reinterpret_b3::<1024, 1023>();
const C_REINTERPRET_B3_1024_1024: Out = reinterpret_b3::<1024, 1024>();
const C_REINTERPRET_B3_1024_1025: Out = reinterpret_b3::<1024, 1025>();
const C_REINTERPRET_B3_1024_2048: Out = reinterpret_b3::<1024, 2048>();
const C_REINTERPRET_B3_1024_3074: Out = reinterpret_b3::<1024, 3074>();
const C_BYVALUE_B3_1024: Out = byvalue_b3::<1024>();
const C_NATIVE_CHUNKS_B3_1024_0: Out = native_chunks_b3::<1024, 0>();
const C_NATIVE_CHUNKS_B3_1024_1: Out = native_chunks_b3::<1024, 1>();
const C_NATIVE_CHUNKS_B3_1024_2: Out = native_chunks_b3::<1024, 2>();
const C_NATIVE_CHUNKS_B3_1024_3: Out = native_chunks_b3::<1024, 3>();
const C_CHUNKS_CH_0_0: Out = chunks_ch::<0, 0>();
const C_CHUNKS_MUT_CH_0_0: Out = chunks_mut_ch::<0, 0>();
const C_REINTERPRET_CH_0_0: Out = reinterpret_ch::<0, 0>();
const C_REINTERPRET_CH_0_1: Out = reinterpret_ch::<0, 1>();
const C_REINTERPRET_CH_0_2: Out = reinterpret_ch::<0, 2>();
const C_BYVALUE_CH_0: Out = byvalue_ch::<0>();
const C_NATIVE_CHUNKS_CH_0_0: Out = native_chunks_ch::<0, 0>();
const C_NATIVE_CHUNKS_CH_0_1: Out = native_chunks_ch::<0, 1>();
const C_NATIVE_CHUNKS_CH_0_2: Out = native_chunks_ch::<0, 2>();
const C_NATIVE_CHUNKS_CH_0_3: Out = native_chunks_ch::<0, 3>();
const C_CHUNKS_CH_1_0: Out = chunks_ch::<1, 0>();
const C_CHUNKS_MUT_CH_1_0: Out = chunks_mut_ch::<1, 0>();
const C_CHUNKS_CH_1_1: Out = chunks_ch::<1, 1>();
const C_CHUNKS_MUT_CH_1_1: Out = chunks_mut_ch::<1, 1>();
const C_CHUNKS_CH_1_2: Out = chunks_ch::<1, 2>();
const C_CHUNKS_MUT_CH_1_2: Out = chunks_mut_ch::<1, 2>();
const C_CHUNKS_CH_1_3: Out = chunks_ch::<1, 3>();
const C_CHUNKS_MUT_CH_1_3: Out = chunks_mut_ch::<1, 3>();
const C_CHUNKS_CH_1_4: Out = chunks_ch::<1, 4>();
const C_CHUNKS_MUT_CH_1_4: Out = chunks_mut_ch::<1, 4>();
const C_CHUNKS_CH_1_5: Out = chunks_ch::<1, 5>();
const C_CHUNKS_MUT_CH_1_5: Out = chunks_mut_ch::<1, 5>();
const C_REINTERPRET_CH_1_0: Out = reinterpret_ch::<1, 0>();
const C_REINTERPRET_CH_1_1: Out = reinterpret_ch::<1, 1>();
const C_REINTERPRET_CH_1_2: Out = reinterpret_ch::<1, 2>();
const C_REINTERPRET_CH_1_5: Out = reinterpret_ch::<1, 5>();
const C_BYVALUE_CH_1: Out = byvalue_ch::<1>();
const C_NATIVE_CHUNKS_CH_1_0: Out = native_chunks_ch::<1, 0>();
const C_NATIVE_CHUNKS_CH_1_1: Out = native_chunks_ch::<1, 1>();
const C_NATIVE_CHUNKS_CH_1_2: Out = native_chunks_ch::<1, 2>();
const C_NATIVE_CHUNKS_CH_1_3: Out = native_chunks_ch::<1, 3>();
const C_CHUNKS_CH_2_0: Out = chunks_ch::<2, 0>();
const C_CHUNKS_MUT_CH_2_0: Out = chunks_mut_ch::<2, 0>();
const C_CHUNKS_CH_2_1: Out = chunks_ch::<2, 1>();
const C_CHUNKS_MUT_CH_2_1: Out = chunks_mut_ch::<2, 1>();
const C_CHUNKS_CH_2_2: Out = chunks_ch::<2, 2>();
const C_CHUNKS_MUT_CH_2_2: Out = chunks_mut_ch::<2, 2>();
const C_CHUNKS_CH_2_3: Out = chunks_ch::<2, 3>();
const C_CHUNKS_MUT_CH_2_3: Out = chunks_mut_ch::<2, 3>();
const C_CHUNKS_CH_2_4: Out = chunks_ch::<2, 4>();
const C_CHUNKS_MUT_CH_2_4: Out = chunks_mut_ch::<2, 4>();
const C_CHUNKS_CH_2_5: Out = chunks_ch::<2, 5>();
const C_CHUNKS_MUT_CH_2_5: Out = chunks_mut_ch::<2, 5>();
const C_CHUNKS_CH_2_6: Out = chunks_ch::<2, 6>();
const C_CHUNKS_MUT_CH_2_6: Out = chunks_mut_ch::<2, 6>();
const C_CHUNKS_CH_2_7: Out = chunks_ch::<2, 7>();
const C_CHUNKS_MUT_CH_2_7: Out = chunks_mut_ch::<2, 7>();
const C_CHUNKS_CH_2_8: Out = chunks_ch::<2, 8>();
const C_CHUNKS_MUT_CH_2_8: Out = chunks_mut_ch::<2, 8>();
const C_REINTERPRET_CH_2_0: Out = reinterpret_ch::<2, 0>();
const C_REINTERPRET_CH_2_1: Out = reinterpret_ch::<2, 1>();
const C_REINTERPRET_CH_2_2: Out = reinterpret_ch::<2, 2>();
const C_REINTERPRET_CH_2_3: Out = reinterpret_ch::<2, 3>();
const C_REINTERPRET_CH_2_4: Out = reinterpret_ch::<2, 4>();
const C_REINTERPRET_CH_2_8: Out = reinterpret_ch::<2, 8>();
const C_BYVALUE_CH_2: Out = byvalue_ch::<2>();
const C_NATIVE_CHUNKS_CH_2_0: Out = native_chunks_ch::<2, 0>();
const C_NATIVE_CHUNKS_CH_2_1: Out = native_chunks_ch::<2, 1>();
const C_NATIVE_CHUNKS_CH_2_2: Out = native_chunks_ch::<2, 2>();
const C_NATIVE_CHUNKS_CH_2_3: Out = native_chunks_ch::<2, 3>();
const C_CHUNKS_CH_3_0: Out = chunks_ch::<3, 0>();
const C_CHUNKS_MUT_CH_3_0: Out = chunks_mut_ch::<3, 0>();
const C_CHUNKS_CH_3_1: Out = chunks_ch::<3, 1>();
const C_CHUNKS_MUT_CH_3_1: Out = chunks_mut_ch::<3, 1>();
const C_CHUNKS_CH_3_2: Out = chunks_ch::<3, 2>();
const C_CHUNKS_MUT_CH_3_2: Out = chunks_mut_ch::<3, 2>();
const C_CHUNKS_CH_3_3: Out = chunks_ch::<3, 3>();
const C_CHUNKS_MUT_CH_3_3: Out = chunks_mut_ch::<3, 3>();
const C_CHUNKS_CH_3_4: Out = chunks_ch::<3, 4>();
const C_CHUNKS_MUT_CH_3_4: Out = chunks_mut_ch::<3, 4>();
const C_CHUNKS_CH_3_5: Out = chunks_ch::<3, 5>();
const C_CHUNKS_MUT_CH_3_5: Out = chunks_mut_ch::<3, 5>();
const C_CHUNKS_CH_3_6: Out = chunks_ch::<3, 6>();
const C_CHUNKS_MUT_CH_3_6: Out = chunks_mut_ch::<3, 6>();
const C_CHUNKS_CH_3_7: Out = chunks_ch::<3, 7>();
const C_CHUNKS_MUT_CH_3_7: Out = chunks_mut_ch::<3, 7>();
const C_CHUNKS_CH_3_8: Out = chunks_ch::<3, 8>();
const C_CHUNKS_MUT_CH_3_8: Out = chunks_mut_ch::<3, 8>();
const C_CHUNKS_CH_3_9: Out = chunks_ch::<3, 9>();
const C_CHUNKS_MUT_CH_3_9: Out = chunks_mut_ch::<3, 9>();
const C_CHUNKS_CH_3_10: Out = chunks_ch::<3, 10>();
const C_CHUNKS_MUT_CH_3_10: Out = chunks_mut_ch::<3, 10>();
const C_CHUNKS_CH_3_11: Out = chunks_ch::<3, 11>();
const C_CHUNKS_MUT_CH_3_11: Out = chunks_mut_ch::<3, 11>();
const C_REINTERPRET_CH_3_0: Out = reinterpret_ch::<3, 0>();
const C_REINTERPRET_CH_3_1: Out = reinterpret_ch::<3, 1>();
const C_REINTERPRET_CH_3_2: Out = reinterpret_ch::<3, 2>();
const C_REINTERPRET_CH_3_3: Out = reinterpret_ch::<3, 3>();
const C_REINTERPRET_CH_3_4: Out = reinterpret_ch::<3, 4>();
const C_REINTERPRET_CH_3_6: Out = reinterpret_ch::<3, 6>();
const C_REINTERPRET_CH_3_11: Out = reinterpret_ch::<3, 11>();
const C_BYVALUE_CH_3: Out = byvalue_ch::<3>();
const C_NATIVE_CHUNKS_CH_3_0: Out = native_chunks_ch::<3, 0>();
const C_NATIVE_CHUNKS_CH_3_1: Out = native_chunks_ch::<3, 1>();
const C_NATIVE_CHUNKS_CH_3_2: Out = native_chunks_ch::<3, 2>();
const C_NATIVE_CHUNKS_CH_3_3: Out = native_chunks_ch::<3, 3>();
const C_CHUNKS_CH_7_0: Out = chunks_ch::<7, 0>();
const C_CHUNKS_MUT_CH_7_0: Out = chunks_mut_ch::<7, 0>();
const C_CHUNKS_CH_7_1: Out = chunks_ch::<7, 1>();
const C_CHUNKS_MUT_CH_7_1: Out = chunks_mut_ch::<7, 1>();
const C_CHUNKS_CH_7_2: Out = chunks_ch::<7, 2>();
const C_CHUNKS_MUT_CH_7_2: Out = chunks_mut_ch::<7, 2>();
const C_CHUNKS_CH_7_3: Out = chunks_ch::<7, 3>();
const C_CHUNKS_MUT_CH_7_3: Out = chunks_mut_ch::<7, 3>();
const C_CHUNKS_CH_7_4: Out = chunks_ch::<7, 4>();
const C_CHUNKS_MUT_CH_7_4: Out = chunks_mut_ch::<7, 4>();
const C_CHUNKS_CH_7_5: Out = chunks_ch::<7, 5>();
const C_CHUNKS_MUT_CH_7_5: Out = chunks_mut_ch::<7, 5>();
const C_CHUNKS_CH_7_6: Out = chunks_ch::<7, 6>();
const C_CHUNKS_MUT_CH_7_6: Out = chunks_mut_ch::<7, 6>();
const C_CHUNKS_CH_7_7: Out = chunks_ch::<7, 7>();
const C_CHUNKS_MUT_CH_7_7: Out = chunks_mut_ch::<7, 7>();
const C_CHUNKS_CH_7_8: Out = chunks_ch::<7, 8>();
const C_CHUNKS_MUT_CH_7_8: Out = chunks_mut_ch::<7, 8>();
const C_CHUNKS_CH_7_9: Out = chunks_ch::<7, 9>();
const C_CHUNKS_MUT_CH_7_9: Out = chunks_mut_ch::<7, 9>();
const C_CHUNKS_CH_7_10: Out = chunks_ch::<7, 10>();
const C_CHUNKS_MUT_CH_7_10: Out = chunks_mut_ch::<7, 10>();
const C_CHUNKS_CH_7_11: Out = chunks_ch::<7, 11>();
const C_CHUNKS_MUT_CH_7_11: Out = chunks_mut_ch::<7, 11>();
const C_CHUNKS_CH_7_12: Out = chunks_ch::<7, 12>();
const C_CHUNKS_MUT_CH_7_12: Out = chunks_mut_ch::<7, 12>();
const C_CHUNKS_CH_7_13: Out = chunks_ch::<7, 13>();
const C_CHUNKS_MUT_CH_7_13: Out = chunks_mut_ch::<7, 13>();
const C_CHUNKS_CH_7_14: Out = chunks_ch::<7, 14>();
const C_CHUNKS_MUT_CH_7_14: Out = chunks_mut_ch::<7, 14>();
const C_CHUNKS_CH_7_15: Out = chunks_ch::<7, 15>();
const C_CHUNKS_MUT_CH_7_15: Out = chunks_mut_ch::<7, 15>();
const C_CHUNKS_CH_7_16: Out = chunks_ch::<7, 16>();
const C_CHUNKS_MUT_CH_7_16: Out = chunks_mut_ch::<7, 16>();
const C_CHUNKS_CH_7_17: Out = chunks_ch::<7, 17>();
const C_CHUNKS_MUT_CH_7_17: Out = chunks_mut_ch::<7, 17>();
const C_CHUNKS_CH_7_18: Out = chunks_ch::<7, 18>();
const C_CHUNKS_MUT_CH_7_18: Out = chunks_mut_ch::<7, 18>();
const C_CHUNKS_CH_7_19: Out = chunks_ch::<7, 19>();
const C_CHUNKS_MUT_CH_7_19: Out = chunks_mut_ch::<7, 19>();
const C_CHUNKS_CH_7_20: Out = chunks_ch::<7, 20>();
const C_CHUNKS_MUT_CH_7_20: Out = chunks_mut_ch::<7, 20>();
const C_CHUNKS_CH_7_21: Out = chunks_ch::<7, 21>();
const C_CHUNKS_MUT_CH_7_21: Out = chunks_mut_ch::<7, 21>();
const C_CHUNKS_CH_7_22: Out = chunks_ch::<7, 22>();
const C_CHUNKS_MUT_CH_7_22: Out = chunks_mut_ch::<7, 22>();
const C_CHUNKS_CH_7_23: Out = chunks_ch::<7, 23>();
const C_CHUNKS_MUT_CH_7_23: Out = chunks_mut_ch::<7, 23>();
const C_REINTERPRET_CH_7_0: Out = reinterpret_ch::<7, 0>();
const C_REINTERPRET_CH_7_1: Out = reinterpret_ch::<7, 1>();
const C_REINTERPRET_CH_7_6: Out = reinterpret_ch::<7, 6>();
const C_REINTERPRET_CH_7_7: Out = reinterpret_ch::<7, 7>();
const C_REINTERPRET_CH_7_8: Out = reinterpret_ch::<7, 8>();
const C_REINTERPRET_CH_7_14: Out = reinterpret_ch::<7, 14>();
const C_REINTERPRET_CH_7_23: Out = reinterpret_ch::<7, 23>();
const C_BYVALUE_CH_7: Out = byvalue_ch::<7>();
const C_NATIVE_CHUNKS_CH_7_0: Out = native_chunks_ch::<7, 0>();
const C_NATIVE_CHUNKS_CH_7_1: Out = native_chunks_ch::<7, 1>();
const C_NATIVE_CHUNKS_CH_7_2: Out = native_chunks_ch::<7, 2>();
const C_NATIVE_CHUNKS_CH_7_3: Out = native_chunks_ch::<7, 3>();
const C_CHUNKS_CH_8_0: Out = chunks_ch::<8, 0>();
const C_CHUNKS_MUT_CH_8_0: Out = chunks_mut_ch::<8, 0>();
const C_CHUNKS_CH_8_1: Out = chunks_ch::<8, 1>();
const C_CHUNKS_MUT_CH_8_1: Out = chunks_mut_ch::<8, 1>();
const C_CHUNKS_CH_8_2: Out = chunks_ch::<8, 2>();
const C_CHUNKS_MUT_CH_8_2: Out = chunks_mut_ch::<8, 2>();
const C_CHUNKS_CH_8_3: Out = chunks_ch::<8, 3>();
const C_CHUNKS_MUT_CH_8_3: Out = chunks_mut_ch::<8, 3>();
const C_CHUNKS_CH_8_4: Out = chunks_ch::<8, 4>();
const C_CHUNKS_MUT_CH_8_4: Out = chunks_mut_ch::<8, 4>();
const C_CHUNKS_CH_8_5: Out = chunks_ch::<8, 5>();
const C_CHUNKS_MUT_CH_8_5: Out = chunks_mut_ch::<8, 5>();
const C_CHUNKS_CH_8_6: Out = chunks_ch::<8, 6>();
const C_CHUNKS_MUT_CH_8_6: Out = chunks_mut_ch::<8, 6>();
const C_CHUNKS_CH_8_7: Out = chunks_ch::<8, 7>();
const C_CHUNKS_MUT_CH_8_7: Out = chunks_mut_ch::<8, 7>();
const C_CHUNKS_CH_8_8: Out = chunks_ch::<8, 8>();
const C_CHUNKS_MUT_CH_8_8: Out = chunks_mut_ch::<8, 8>();
const C_CHUNKS_CH_8_9: Out = chunks_ch::<8, 9>();
const C_CHUNKS_MUT_CH_8_9: Out = chunks_mut_ch::<8, 9>();
const C_CHUNKS_CH_8_10: Out = chunks_ch::<8, 10>();
const C_CHUNKS_MUT_CH_8_10: Out = chunks_mut_ch::<8, 10>();
const C_CHUNKS_CH_8_11: Out = chunks_ch::<8, 11>();
const C_CHUNKS_MUT_CH_8_11: Out = chunks_mut_ch::<8, 11>();
const C_CHUNKS_CH_8_12: Out = chunks_ch::<8, 12>();
const C_CHUNKS_MUT_CH_8_12: Out = chunks_mut_ch::<8, 12>();
const C_CHUNKS_CH_8_13: Out = chunks_ch::<8, 13>();
const C_CHUNKS_MUT_CH_8_13: Out = chunks_mut_ch::<8, 13>();
const C_CHUNKS_CH_8_14: Out = chunks_ch::<8, 14>();
const C_CHUNKS_MUT_CH_8_14: Out = chunks_mut_ch::<8, 14>();
const C_CHUNKS_CH_8_15: Out = chunks_ch::<8, 15>();
const C_CHUNKS_MUT_CH_8_15: Out = chunks_mut_ch::<8, 15>();
const C_CHUNKS_CH_8_16: Out = chunks_ch::<8, 16>();
const C_CHUNKS_MUT_CH_8_16: Out = chunks_mut_ch::<8, 16>();
const C_CHUNKS_CH_8_17: Out = chunks_ch::<8, 17>();
const C_CHUNKS_MUT_CH_8_17: Out = chunks_mut_ch::<8, 17>();
const C_CHUNKS_CH_8_18: Out = chunks_ch::<8, 18>();
const C_CHUNKS_MUT_CH_8_18: Out = chunks_mut_ch::<8, 18>();
const C_CHUNKS_CH_8_19: Out = chunks_ch::<8, 19>();
const C_CHUNKS_MUT_CH_8_19: Out = chunks_mut_ch::<8, 19>();
const C_CHUNKS_CH_8_20: Out = chunks_ch::<8, 20>();
const C_CHUNKS_MUT_CH_8_20: Out = chunks_mut_ch::<8, 20>();
const C_CHUNKS_CH_8_21: Out = chunks_ch::<8, 21>();
const C_CHUNKS_MUT_CH_8_21: Out = chunks_mut_ch::<8, 21>();
const C_CHUNKS_CH_8_22: Out = chunks_ch::<8, 22>();
const C_CHUNKS_MUT_CH_8_22: Out = chunks_mut_ch::<8, 22>();
const C_CHUNKS_CH_8_23: Out = chunks_ch::<8, 23>();
const C_CHUNKS_MUT_CH_8_23: Out = chunks_mut_ch::<8, 23>();
const C_CHUNKS_CH_8_24: Out = chunks_ch::<8, 24>();
const C_CHUNKS_MUT_CH_8_24: Out = chunks_mut_ch::<8, 24>();
const C_CHUNKS_CH_8_25: Out = chunks_ch::<8, 25>();
const C_CHUNKS_MUT_CH_8_25: Out = chunks_mut_ch::<8, 25>();
const C_CHUNKS_CH_8_26: Out = chunks_ch::<8, 26>();
const C_CHUNKS_MUT_CH_8_26: Out = chunks_mut_ch::<8, 26>();
const C_REINTERPRET_CH_8_0: Out = reinterpret_ch::<8, 0>();
const C_REINTERPRET_CH_8_1: Out = reinterpret_ch::<8, 1>();
const C_REINTERPRET_CH_8_7: Out = reinterpret_ch::<8, 7>();
const C_REINTERPRET_CH_8_8: Out = reinterpret_ch::<8, 8>();
const C_REINTERPRET_CH_8_9: Out = reinterpret_ch::<8, 9>();
const C_REINTERPRET_CH_8_16: Out = reinterpret_ch::<8, 16>();
const C_REINTERPRET_CH_8_26: Out = reinterpret_ch::<8, 26>();
const C_BYVALUE_CH_8: Out = byvalue_ch::<8>();
const C_NATIVE_CHUNKS_CH_8_0: Out = native_chunks_ch::<8, 0>();
const C_NATIVE_CHUNKS_CH_8_1: Out = native_chunks_ch::<8, 1>();
const C_NATIVE_CHUNKS_CH_8_2: Out = native_chunks_ch::<8, 2>();
const C_NATIVE_CHUNKS_CH_8_3: Out = native_chunks_ch::<8, 3>();
const C_CHUNKS_CH_16_0: Out = chunks_ch::<16, 0>();
const C_CHUNKS_MUT_CH_16_0: Out = chunks_mut_ch::<16, 0>();
const C_CHUNKS_CH_16_1: Out = chunks_ch::<16, 1>();
const C_CHUNKS_MUT_CH_16_1: Out = chunks_mut_ch::<16, 1>();
const C_CHUNKS_CH_16_2: Out = chunks_ch::<16, 2>();
const C_CHUNKS_MUT_CH_16_2: Out = chunks_mut_ch::<16, 2>();
const C_CHUNKS_CH_16_3: Out = chunks_ch::<16, 3>();
const C_CHUNKS_MUT_CH_16_3: Out = chunks_mut_ch::<16, 3>();
const C_CHUNKS_CH_16_4: Out = chunks_ch::<16, 4>();
const C_CHUNKS_MUT_CH_16_4: Out = chunks_mut_ch::<16, 4>();
const C_CHUNKS_CH_16_5: Out = chunks_ch::<16, 5>();
const C_CHUNKS_MUT_CH_16_5: Out = chunks_mut_ch::<16, 5>();
const C_CHUNKS_CH_16_6: Out = chunks_ch::<16, 6>();
const C_CHUNKS_MUT_CH_16_6: Out = chunks_mut_ch::<16, 6>();
const C_CHUNKS_CH_16_7: Out = chunks_ch::<16, 7>();
const C_CHUNKS_MUT_CH_16_7: Out = chunks_mut_ch::<16, 7>();
const C_CHUNKS_CH_16_8: Out = chunks_ch::<16, 8>();
const C_CHUNKS_MUT_CH_16_8: Out = chunks_mut_ch::<16, 8>();
const C_CHUNKS_CH_16_9: Out = chunks_ch::<16, 9>();
const C_CHUNKS_MUT_CH_16_9: Out = chunks_mut_ch::<16, 9>();
const C_CHUNKS_CH_16_10: Out = chunks_ch::<16, 10>();
const C_CHUNKS_MUT_CH_16_10: Out = chunks_mut_ch::<16, 10>();
const C_CHUNKS_CH_16_11: Out = chunks_ch::<16, 11>();
const C_CHUNKS_MUT_CH_16_11: Out = chunks_mut_ch::<16, 11>();
const C_CHUNKS_CH_16_12: Out = chunks_ch::<16, 12>();
const C_CHUNKS_MUT_CH_16_12: Out = chunks_mut_ch::<16, 12>();
const C_CHUNKS_CH_16_13: Out = chunks_ch::<16, 13>();
const C_CHUNKS_MUT_CH_16_13: Out = chunks_mut_ch::<16, 13>();
const C_CHUNKS_CH_16_14: Out = chunks_ch::<16, 14>();
const C_CHUNKS_MUT_CH_16_14: Out = chunks_mut_ch::<16, 14>();
const C_CHUNKS_CH_16_15: Out = chunks_ch::<16, 15>();
const C_CHUNKS_MUT_CH_16_15: Out = chunks_mut_ch::<16, 15>();
const C_CHUNKS_CH_16_16: Out = chunks_ch::<16, 16>();
const C_CHUNKS_MUT_CH_16_16: Out = chunks_mut_ch::<16, 16>();
const C_CHUNKS_CH_16_17: Out = chunks_ch::<16, 17>();
const C_CHUNKS_MUT_CH_16_17: Out = chunks_mut_ch::<16, 17>();
const C_CHUNKS_CH_16_18: Out = chunks_ch::<16, 18>();
const C_CHUNKS_MUT_CH_16_18: Out = chunks_mut_ch::<16, 18>();
const C_CHUNKS_CH_16_19: Out = chunks_ch::<16, 19>();
const C_CHUNKS_MUT_CH_16_19: Out = chunks_mut_ch::<16, 19>();
const C_CHUNKS_CH_16_20: Out = chunks_ch::<16, 20>();
const C_CHUNKS_MUT_CH_16_20: Out = chunks_mut_ch::<16, 20>();
const C_CHUNKS_CH_16_21: Out = chunks_ch::<16, 21>();
const C_CHUNKS_MUT_CH_16_21: Out = chunks_mut_ch::<16, 21>();
const C_CHUNKS_CH_16_22: Out = chunks_ch::<16, 22>();
const C_CHUNKS_MUT_CH_16_22: Out = chunks_mut_ch::<16, 22>();
const C_CHUNKS_CH_16_23: Out = chunks_ch::<16, 23>();
const C_CHUNKS_MUT_CH_16_23: Out = chunks_mut_ch::<16, 23>();
const C_CHUNKS_CH_16_24: Out = chunks_ch::<16, 24>();
const C_CHUNKS_MUT_CH_16_24: Out = chunks_mut_ch::<16, 24>();
const C_CHUNKS_CH_16_25: Out = chunks_ch::<16, 25>();
const C_CHUNKS_MUT_CH_16_25: Out = chunks_mut_ch::<16, 25>();
const C_CHUNKS_CH_16_26: Out = chunks_ch::<16, 26>();
const C_CHUNKS_MUT_CH_16_26: Out = chunks_mut_ch::<16, 26>();
const C_CHUNKS_CH_16_27: Out = chunks_ch::<16, 27>();
const C_CHUNKS_MUT_CH_16_27: Out = chunks_mut_ch::<16, 27>();
const C_CHUNKS_CH_16_28: Out = chunks_ch::<16, 28>();
const C_CHUNKS_MUT_CH_16_28: Out = chunks_mut_ch::<16, 28>();
const C_CHUNKS_CH_16_29: Out = chunks_ch::<16, 29>();
const C_CHUNKS_MUT_CH_16_29: Out = chunks_mut_ch::<16, 29>();
const C_CHUNKS_CH_16_30: Out = chunks_ch::<16, 30>();
const C_CHUNKS_MUT_CH_16_30: Out = chunks_mut_ch::<16, 30>();
const C_CHUNKS_CH_16_31: Out = chunks_ch::<16, 31>();
const C_CHUNKS_MUT_CH_16_31: Out = chunks_mut_ch::<16, 31>();
const C_CHUNKS_CH_16_32: Out = chunks_ch::<16, 32>();
const C_CHUNKS_MUT_CH_16_32: Out = chunks_mut_ch::<16, 32>();
const C_CHUNKS_CH_16_33: Out = chunks_ch::<16, 33>();
const C_CHUNKS_MUT_CH_16_33: Out = chunks_mut_ch::<16, 33>();
const C_CHUNKS_CH_16_34: Out = chunks_ch::<16, 34>();
const C_CHUNKS_MUT_CH_16_34: Out = chunks_mut_ch::<16, 34>();
const C_CHUNKS_CH_16_35: Out = chunks_ch::<16, 35>();
const C_CHUNKS_MUT_CH_16_35: Out = chunks_mut_ch::<16, 35>();
const C_CHUNKS_CH_16_36: Out = chunks_ch::<16, 36>();
const C_CHUNKS_MUT_CH_16_36: Out = chunks_mut_ch::<16, 36>();
const C_CHUNKS_CH_16_37: Out = chunks_ch::<16, 37>();
const C_CHUNKS_MUT_CH_16_37: Out = chunks_mut_ch::<16, 37>();
const C_CHUNKS_CH_16_38: Out = chunks_ch::<16, 38>();
const C_CHUNKS_MUT_CH_16_38: Out = chunks_mut_ch::<16, 38>();
const C_CHUNKS_CH_16_39: Out = chunks_ch::<16, 39>();
const C_CHUNKS_MUT_CH_16_39: Out = chunks_mut_ch::<16, 39>();
const C_CHUNKS_CH_16_40: Out = chunks_ch::<16, 40>();
const C_CHUNKS_MUT_CH_16_40: Out = chunks_mut_ch::<16, 40>();
const C_CHUNKS_CH_16_41: Out = chunks_ch::<16, 41>();
const C_CHUNKS_MUT_CH_16_41: Out = chunks_mut_ch::<16, 41>();
const C_CHUNKS_CH_16_42: Out = chunks_ch::<16, 42>();
const C_CHUNKS_MUT_CH_16_42: Out = chunks_mut_ch::<16, 42>();
const C_CHUNKS_CH_16_43: Out = chunks_ch::<16, 43>();
const C_CHUNKS_MUT_CH_16_43: Out = chunks_mut_ch::<16, 43>();
const C_CHUNKS_CH_16_44: Out = chunks_ch::<16, 44>();
const C_CHUNKS_MUT_CH_16_44: Out = chunks_mut_ch::<16, 44>();
const C_CHUNKS_CH_16_45: Out = chunks_ch::<16, 45>();
const C_CHUNKS_MUT_CH_16_45: Out = chunks_mut_ch::<16, 45>();
const C_CHUNKS_CH_16_46: Out = chunks_ch::<16, 46>();
const C_CHUNKS_MUT_CH_16_46: Out = chunks_mut_ch::<16, 46>();
const C_CHUNKS_CH_16_47: Out = chunks_ch::<16, 47>();
const C_CHUNKS_MUT_CH_16_47: Out = chunks_mut_ch::<16, 47>();
const C_CHUNKS_CH_16_48: Out = chunks_ch::<16, 48>();
const C_CHUNKS_MUT_CH_16_48: Out = chunks_mut_ch::<16, 48>();
const C_CHUNKS_CH_16_49: Out = chunks_ch::<16, 49>();
const C_CHUNKS_MUT_CH_16_49: Out = chunks_mut_ch::<16, 49>();
const C_CHUNKS_CH_16_50: Out = chunks_ch::<16, 50>();
const C_CHUNKS_MUT_CH_16_50: Out = chunks_mut_ch::<16, 50>();
const C_REINTERPRET_CH_16_0: Out = reinterpret_ch::<16, 0>();
const C_REINTERPRET_CH_16_1: Out = reinterpret_ch::<16, 1>();
const C_REINTERPRET_CH_16_15: Out = reinterpret_ch::<16, 15>();
const C_REINTERPRET_CH_16_16: Out = reinterpret_ch::<16, 16>();
const C_REINTERPRET_CH_16_17: Out = reinterpret_ch::<16, 17>();
const C_REINTERPRET_CH_16_32: Out = reinterpret_ch::<16, 32>();
const C_REINTERPRET_CH_16_50: Out = reinterpret_ch::<16, 50>();
const C_BYVALUE_CH_16: Out = byvalue_ch::<16>();
const C_NATIVE_CHUNKS_CH_16_0: Out = native_chunks_ch::<16, 0>();
const C_NATIVE_CHUNKS_CH_16_1: Out = native_chunks_ch::<16, 1>();
const C_NATIVE_CHUNKS_CH_16_2: Out = native_chunks_ch::<16, 2>();
const C_NATIVE_CHUNKS_CH_16_3: Out = native_chunks_ch::<16, 3>();
const C_CHUNKS_CH_17_0: Out = chunks_ch::<17, 0>();
const C_CHUNKS_MUT_CH_17_0: Out = chunks_mut_ch::<17, 0>();
const C_CHUNKS_CH_17_1: Out = chunks_ch::<17, 1>();
const C_CHUNKS_MUT_CH_17_1: Out = chunks_mut_ch::<17, 1>();
const C_CHUNKS_CH_17_2: Out = chunks_ch::<17, 2>();
const C_CHUNKS_MUT_CH_17_2: Out = chunks_mut_ch::<17, 2>();
const C_CHUNKS_CH_17_3: Out = chunks_ch::<17, 3>();
const C_CHUNKS_MUT_CH_17_3: Out = chunks_mut_ch::<17, 3>();
const C_CHUNKS_CH_17_4: Out = chunks_ch::<17, 4>();
const C_CHUNKS_MUT_CH_17_4: Out = chunks_mut_ch::<17, 4>();
const C_CHUNKS_CH_17_5: Out = chunks_ch::<17, 5>();
const C_CHUNKS_MUT_CH_17_5: Out = chunks_mut_ch::<17, 5>();
const C_CHUNKS_CH_17_6: Out = chunks_ch::<17, 6>();
const C_CHUNKS_MUT_CH_17_6: Out = chunks_mut_ch::<17, 6>();
const C_CHUNKS_CH_17_7: Out = chunks_ch::<17, 7>();
const C_CHUNKS_MUT_CH_17_7: Out = chunks_mut_ch::<17, 7>();
const C_CHUNKS_CH_17_8: Out = chunks_ch::<17, 8>();
const C_CHUNKS_MUT_CH_17_8: Out = chunks_mut_ch::<17, 8>();
const C_CHUNKS_CH_17_9: Out = chunks_ch::<17, 9>();
const C_CHUNKS_MUT_CH_17_9: Out = chunks_mut_ch::<17, 9>();
const C_CHUNKS_CH_17_10: Out = chunks_ch::<17, 10>();
const C_CHUNKS_MUT_CH_17_10: Out = chunks_mut_ch::<17, 10>();
const C_CHUNKS_CH_17_11: Out = chunks_ch::<17, 11>();
const C_CHUNKS_MUT_CH_17_11: Out = chunks_mut_ch::<17, 11>();
const C_CHUNKS_CH_17_12: Out = chunks_ch::<17, 12>();
const C_CHUNKS_MUT_CH_17_12: Out = chunks_mut_ch::<17, 12>();
const C_CHUNKS_CH_17_13: Out = chunks_ch::<17, 13>();
const C_CHUNKS_MUT_CH_17_13: Out = chunks_mut_ch::<17, 13>();
const C_CHUNKS_CH_17_14: Out = chunks_ch::<17, 14>();
const C_CHUNKS_MUT_CH_17_14: Out = chunks_mut_ch::<17, 14>();
const C_CHUNKS_CH_17_15: Out = chunks_ch::<17, 15>();
const C_CHUNKS_MUT_CH_17_15: Out = chunks_mut_ch::<17, 15>();
const C_CHUNKS_CH_17_16: Out = chunks_ch::<17, 16>();
const C_CHUNKS_MUT_CH_17_16: Out = chunks_mut_ch::<17, 16>();
const C_CHUNKS_CH_17_17: Out = chunks_ch::<17, 17>();
const C_CHUNKS_MUT_CH_17_17: Out = chunks_mut_ch::<17, 17>();
const C_CHUNKS_CH_17_18: Out = chunks_ch::<17, 18>();
const C_CHUNKS_MUT_CH_17_18: Out = chunks_mut_ch::<17, 18>();
const C_CHUNKS_CH_17_19: Out = chunks_ch::<17, 19>();
const C_CHUNKS_MUT_CH_17_19: Out = chunks_mut_ch::<17, 19>();
const C_CHUNKS_CH_17_20: Out = chunks_ch::<17, 20>();
const C_CHUNKS_MUT_CH_17_20: Out = chunks_mut_ch::<17, 20>();
const C_CHUNKS_CH_17_21: Out = chunks_ch::<17, 21>();
const C_CHUNKS_MUT_CH_17_21: Out = chunks_mut_ch::<17, 21>();
const C_CHUNKS_CH_17_22: Out = chunks_ch::<17, 22>();
const C_CHUNKS_MUT_CH_17_22: Out = chunks_mut_ch::<17, 22>();
const C_CHUNKS_CH_17_23: Out = chunks_ch::<17, 23>();
const C_CHUNKS_MUT_CH_17_23: Out = chunks_mut_ch::<17, 23>();
const C_CHUNKS_CH_17_24: Out = chunks_ch::<17, 24>();
const C_CHUNKS_MUT_CH_17_24: Out = chunks_mut_ch::<17, 24>();
const C_CHUNKS_CH_17_25: Out = chunks_ch::<17, 25>();
const C_CHUNKS_MUT_CH_17_25: Out = chunks_mut_ch::<17, 25>();
const C_CHUNKS_CH_17_26: Out = chunks_ch::<17, 26>();
const C_CHUNKS_MUT_CH_17_26: Out = chunks_mut_ch::<17, 26>();
const C_CHUNKS_CH_17_27: Out = chunks_ch::<17, 27>();
const C_CHUNKS_MUT_CH_17_27: Out = chunks_mut_ch::<17, 27>();
const C_CHUNKS_CH_17_28: Out = chunks_ch::<17, 28>();
const C_CHUNKS_MUT_CH_17_28: Out = chunks_mut_ch::<17, 28>();
const C_CHUNKS_CH_17_29: Out = chunks_ch::<17, 29>();
const C_CHUNKS_MUT_CH_17_29: Out = chunks_mut_ch::<17, 29>();
const C_CHUNKS_CH_17_30: Out = chunks_ch::<17, 30>();
const C_CHUNKS_MUT_CH_17_30: Out = chunks_mut_ch::<17, 30>();
const C_CHUNKS_CH_17_31: Out = chunks_ch::<17, 31>();
const C_CHUNKS_MUT_CH_17_31: Out = chunks_mut_ch::<17, 31>();
const C_CHUNKS_CH_17_32: Out = chunks_ch::<17, 32>();
const C_CHUNKS_MUT_CH_17_32: Out = chunks_mut_ch::<17, 32>();
const C_CHUNKS_CH_17_33: Out = chunks_ch::<17, 33>();
const C_CHUNKS_MUT_CH_17_33: Out = chunks_mut_ch::<17, 33>();
const C_CHUNKS_CH_17_34: Out = chunks_ch::<17, 34>();
const C_CHUNKS_MUT_CH_17_34: Out = chunks_mut_ch::<17, 34>();
const C_CHUNKS_CH_17_35: Out = chunks_ch::<17, 35>();
const C_CHUNKS_MUT_CH_17_35: Out = chunks_mut_ch::<17, 35>();
const C_CHUNKS_CH_17_36: Out = chunks_ch::<17, 36>();
const C_CHUNKS_MUT_CH_17_36: Out = chunks_mut_ch::<17, 36>();
const C_CHUNKS_CH_17_37: Out = chunks_ch::<17, 37>();
const C_CHUNKS_MUT_CH_17_37: Out = chunks_mut_ch::<17, 37>();
const C_CHUNKS_CH_17_38: Out = chunks_ch::<17, 38>();
const C_CHUNKS_MUT_CH_17_38: Out = chunks_mut_ch::<17, 38>();
const C_CHUNKS_CH_17_39: Out = chunks_ch::<17, 39>();
const C_CHUNKS_MUT_CH_17_39: Out = chunks_mut_ch::<17, 39>();
const C_CHUNKS_CH_17_40: Out = chunks_ch::<17, 40>();
const C_CHUNKS_MUT_CH_17_40: Out = chunks_mut_ch::<17, 40>();
const C_CHUNKS_CH_17_41: Out = chunks_ch::<17, 41>();
const C_CHUNKS_MUT_CH_17_41: Out = chunks_mut_ch::<17, 41>();
const C_CHUNKS_CH_17_42: Out = chunks_ch::<17, 42>();
const C_CHUNKS_MUT_CH_17_42: Out = chunks_mut_ch::<17, 42>();
const C_CHUNKS_CH_17_43: Out = chunks_ch::<17, 43>();
const C_CHUNKS_MUT_CH_17_43: Out = chunks_mut_ch::<17, 43>();
const C_CHUNKS_CH_17_44: Out = chunks_ch::<17, 44>();
const C_CHUNKS_MUT_CH_17_44: Out = chunks_mut_ch::<17, 44>();
const C_CHUNKS_CH_17_45: Out = chunks_ch::<17, 45>();
const C_CHUNKS_MUT_CH_17_45: Out = chunks_mut_ch::<17, 45>();
const C_CHUNKS_CH_17_46: Out = chunks_ch::<17, 46>();
const C_CHUNKS_MUT_CH_17_46: Out = chunks_mut_ch::<17, 46>();
const C_CHUNKS_CH_17_47: Out = chunks_ch::<17, 47>();
const C_CHUNKS_MUT_CH_17_47: Out = chunks_mut_ch::<17, 47>();
const C_CHUNKS_CH_17_48: Out = chunks_ch::<17, 48>();
const C_CHUNKS_MUT_CH_17_48: Out = chunks_mut_ch::<17, 48>();
const C_CHUNKS_CH_17_49: Out = chunks_ch::<17, 49>();
const C_CHUNKS_MUT_CH_17_49: Out = chunks_mut_ch::<17, 49>();
const C_CHUNKS_CH_17_50: Out = chunks_ch::<17, 50>();
const C_CHUNKS_MUT_CH_17_50: Out = chunks_mut_ch::<17, 50>();
const C_CHUNKS_CH_17_51: Out = chunks_ch::<17, 51>();
const C_CHUNKS_MUT_CH_17_51: Out = chunks_mut_ch::<17, 51>();
const C_CHUNKS_CH_17_52: Out = chunks_ch::<17, 52>();
const C_CHUNKS_MUT_CH_17_52: Out = chunks_mut_ch::<17, 52>();
const C_CHUNKS_CH_17_53: Out = chunks_ch::<17, 53>();
const C_CHUNKS_MUT_CH_17_53: Out = chunks_mut_ch::<17, 53>();
const C_REINTERPRET_CH_17_0: Out = reinterpret_ch::<17, 0>();
const C_REINTERPRET_CH_17_1: Out = reinterpret_ch::<17, 1>();
const C_REINTERPRET_CH_17_16: Out = reinterpret_ch::<17, 16>();
const C_REINTERPRET_CH_17_17: Out = reinterpret_ch::<17, 17>();
const C_REINTERPRET_CH_17_18: Out = reinterpret_ch::<17, 18>();
const C_REINTERPRET_CH_17_34: Out = reinterpret_ch::<17, 34>();
const C_REINTERPRET_CH_17_53: Out = reinterpret_ch::<17, 53>();
const C_BYVALUE_CH_17: Out = byvalue_ch::<17>();
const C_NATIVE_CHUNKS_CH_17_0: Out = native_chunks_ch::<17, 0>();
const C_NATIVE_CHUNKS_CH_17_1: Out = native_chunks_ch::<17, 1>();
const C_NATIVE_CHUNKS_CH_17_2: Out = native_chunks_ch::<17, 2>();
const C_NATIVE_CHUNKS_CH_17_3: Out = native_chunks_ch::<17, 3>();
const C_CHUNKS_CH_33_0: Out = chunks_ch::<33, 0>();
const C_CHUNKS_MUT_CH_33_0: Out = chunks_mut_ch::<33, 0>();
const C_CHUNKS_CH_33_1: Out = chunks_ch::<33, 1>();
const C_CHUNKS_MUT_CH_33_1: Out = chunks_mut_ch::<33, 1>();
const C_CHUNKS_CH_33_32: Out = chunks_ch::<33, 32>();
const C_CHUNKS_MUT_CH_33_32: Out = chunks_mut_ch::<33, 32>();
const C_CHUNKS_CH_33_33: Out = chunks_ch::<33, 33>();
const C_CHUNKS_MUT_CH_33_33: Out = chunks_mut_ch::<33, 33>();
const C_CHUNKS_CH_33_34: Out = chunks_ch::<33, 34>();
const C_CHUNKS_MUT_CH_33_34: Out = chunks_mut_ch::<33, 34>();
const C_CHUNKS_CH_33_65: Out = chunks_ch::<33, 65>();
const C_CHUNKS_MUT_CH_33_65: Out = chunks_mut_ch::<33, 65>();
const C_CHUNKS_CH_33_66: Out = chunks_ch::<33, 66>();
const C_CHUNKS_MUT_CH_33_66: Out = chunks_mut_ch::<33, 66>();
const C_CHUNKS_CH_33_67: Out = chunks_ch::<33, 67>();
const C_CHUNKS_MUT_CH_33_67: Out = chunks_mut_ch::<33, 67>();
const C_CHUNKS_CH_33_98: Out = chunks_ch::<33, 98>();
const C_CHUNKS_MUT_CH_33_98: Out = chunks_mut_ch::<33, 98>();
const C_CHUNKS_CH_33_99: Out = chunks_ch::<33, 99>();
const C_CHUNKS_MUT_CH_33_99: Out = chunks_mut_ch::<33, 99>();
const C_CHUNKS_CH_33_100: Out = chunks_ch::<33, 100>();
const C_CHUNKS_MUT_CH_33_100: Out = chunks_mut_ch::<33, 100>();
const C_CHUNKS_CH_33_101: Out = chunks_ch::<33, 101>();
const C_CHUNKS_MUT_CH_33_101: Out = chunks_mut_ch::<33, 101>();
const C_REINTERPRET_CH_33_0: Out = reinterpret_ch::<33, 0>();
const C_REINTERPRET_CH_33_1: Out = reinterpret_ch::<33, 1>();
const C_REINTERPRET_CH_33_32: Out = reinterpret_ch::<33, 32>();
const C_REINTERPRET_CH_33_33: Out = reinterpret_ch::<33, 33>();
const C_REINTERPRET_CH_33_34: Out = reinterpret_ch::<33, 34>();
const C_REINTERPRET_CH_33_66: Out = reinterpret_ch::<33, 66>();
const C_REINTERPRET_CH_33_101: Out = reinterpret_ch::<33, 101>();
const C_BYVALUE_CH_33: Out = byvalue_ch::<33>();
const C_NATIVE_CHUNKS_CH_33_0: Out = native_chunks_ch::<33, 0>();
const C_NATIVE_CHUNKS_CH_33_1: Out = native_chunks_ch::<33, 1>();
const C_NATIVE_CHUNKS_CH_33_2: Out = native_chunks_ch::<33, 2>();
const C_NATIVE_CHUNKS_CH_33_3: Out = native_chunks_ch::<33, 3>();
const C_CHUNKS_CH_64_0: Out = chunks_ch::<64, 0>();
const C_CHUNKS_MUT_CH_64_0: Out = chunks_mut_ch::<64, 0>();
const C_CHUNKS_CH_64_1: Out = chunks_ch::<64, 1>();
const C_CHUNKS_MUT_CH_64_1: Out = chunks_mut_ch::<64, 1>();
const C_CHUNKS_CH_64_63: Out = chunks_ch::<64, 63>();
const C_CHUNKS_MUT_CH_64_63: Out = chunks_mut_ch::<64, 63>();
const C_CHUNKS_CH_64_64: Out = chunks_ch::<64, 64>();
const C_CHUNKS_MUT_CH_64_64: Out = chunks_mut_ch::<64, 64>();
const C_CHUNKS_CH_64_65: Out = chunks_ch::<64, 65>();
const C_CHUNKS_MUT_CH_64_65: Out = chunks_mut_ch::<64, 65>();
const C_CHUNKS_CH_64_127: Out = chunks_ch::<64, 127>();
const C_CHUNKS_MUT_CH_64_127: Out = chunks_mut_ch::<64, 127>();
const C_CHUNKS_CH_64_128: Out = chunks_ch::<64, 128>();
const C_CHUNKS_MUT_CH_64_128: Out = chunks_mut_ch::<64, 128>();
const C_CHUNKS_CH_64_129: Out = chunks_ch::<64, 129>();
const C_CHUNKS_MUT_CH_64_129: Out = chunks_mut_ch::<64, 129>();
const C_CHUNKS_CH_64_191: Out = chunks_ch::<64, 191>();
const C_CHUNKS_MUT_CH_64_191: Out = chunks_mut_ch::<64, 191>();
const C_CHUNKS_CH_64_192: Out = chunks_ch::<64, 192>();
const C_CHUNKS_MUT_CH_64_192: Out = chunks_mut_ch::<64, 192>();
const C_CHUNKS_CH_64_193: Out = chunks_ch::<64, 193>();
const C_CHUNKS_MUT_CH_64_193: Out = chunks_mut_ch::<64, 193>();
const C_CHUNKS_CH_64_194: Out = chunks_ch::<64, 194>();
const C_CHUNKS_MUT_CH_64_194: Out = chunks_mut_ch::<64, 194>();
const C_REINTERPRET_CH_64_0: Out = reinterpret_ch::<64, 0>();
const C_REINTERPRET_CH_64_1: Out = reinterpret_ch::<64, 1>();
const C_REINTERPRET_CH_64_63: Out = reinterpret_ch::<64, 63>();
const C_REINTERPRET_CH_64_64: Out = reinterpret_ch::<64, 64>();
const C_REINTERPRET_CH_64_65: Out = reinterpret_ch::<64, 65>();
const C_REINTERPRET_CH_64_128: Out = reinterpret_ch::<64, 128>();
const C_REINTERPRET_CH_64_194: Out = reinterpret_ch::<64, 194>();
const C_BYVALUE_CH_64: Out = byvalue_ch::<64>();
const C_NATIVE_CHUNKS_CH_64_0: Out = native_chunks_ch::<64, 0>();
const C_NATIVE_CHUNKS_CH_64_1: Out = native_chunks_ch::<64, 1>();
const C_NATIVE_CHUNKS_CH_64_2: Out = native_chunks_ch::<64, 2>();
const C_NATIVE_CHUNKS_CH_64_3: Out = native_chunks_ch::<64, 3>();
const C_CHUNKS_CH_100_0: Out = chunks_ch::<100, 0>();
const C_CHUNKS_MUT_CH_100_0: Out = chunks_mut_ch::<100, 0>();
const C_CHUNKS_CH_100_1: Out = chunks_ch::<100, 1>();
const C_CHUNKS_MUT_CH_100_1: Out = chunks_mut_ch::<100, 1>();
const C_CHUNKS_CH_100_99: Out = chunks_ch::<100, 99>();
const C_CHUNKS_MUT_CH_100_99: Out = chunks_mut_ch::<100, 99>();
const C_CHUNKS_CH_100_100: Out = chunks_ch::<100, 100>();
const C_CHUNKS_MUT_CH_100_100: Out = chunks_mut_ch::<100, 100>();
const C_CHUNKS_CH_100_101: Out = chunks_ch::<100, 101>();
const C_CHUNKS_MUT_CH_100_101: Out = chunks_mut_ch::<100, 101>();
const C_CHUNKS_CH_100_199: Out = chunks_ch::<100, 199>();
const C_CHUNKS_MUT_CH_100_199: Out = chunks_mut_ch::<100, 199>();
const C_CHUNKS_CH_100_200: Out = chunks_ch::<100, 200>();
const C_CHUNKS_MUT_CH_100_200: Out = chunks_mut_ch::<100, 200>();
const C_CHUNKS_CH_100_201: Out = chunks_ch::<100, 201>();
const C_CHUNKS_MUT_CH_100_201: Out = chunks_mut_ch::<100, 201>();
const C_CHUNKS_CH_100_302: Out = chunks_ch::<100, 302>();
const C_CHUNKS_MUT_CH_100_302: Out = chunks_mut_ch::<100, 302>();
const C_REINTERPRET_CH_100_0: Out = reinterpret_ch::<100, 0>();
const C_REINTERPRET_CH_100_1: Out = reinterpret_ch::<100, 1>();
const C_REINTERPRET_CH_100_99: Out = reinterpret_ch::<100, 99>();
const C_REINTERPRET_CH_100_100: Out = reinterpret_ch::<100, 100>();
const C_REINTERPRET_CH_100_101: Out = reinterpret_ch::<100, 101>();
const C_REINTERPRET_CH_100_200: Out = reinterpret_ch::<100, 200>();
const C_REINTERPRET_CH_100_302: Out = reinterpret_ch::<100, 302>();
const C_BYVALUE_CH_100: Out = byvalue_ch::<100>();
const C_NATIVE_CHUNKS_CH_100_0: Out = native_chunks_ch::<100, 0>();
const C_NATIVE_CHUNKS_CH_100_1: Out = native_chunks_ch::<100, 1>();
const C_NATIVE_CHUNKS_CH_100_2: Out = native_chunks_ch::<100, 2>();
const C_NATIVE_CHUNKS_CH_100_3: Out = native_chunks_ch::<100, 3>();
const C_CHUNKS_CH_1024_0: Out = chunks_ch::<1024, 0>();
const C_CHUNKS_MUT_CH_1024_0: Out = chunks_mut_ch::<1024, 0>();
const C_CHUNKS_CH_1024_1: Out = chunks_ch::<1024, 1>();
const C_CHUNKS_MUT_CH_1024_1: Out = chunks_mut_ch::<1024, 1>();
const C_CHUNKS_CH_1024_1023: Out = chunks_ch::<1024, 1023>();
const C_CHUNKS_MUT_CH_1024_1023: Out = chunks_mut_ch::<1024, 1023>();
const C_CHUNKS_CH_1024_1024: Out = chunks_ch::<1024, 1024>();
const C_CHUNKS_MUT_CH_1024_1024: Out = chunks_mut_ch::<1024, 1024>();
const C_CHUNKS_CH_1024_1025: Out = chunks_ch::<1024, 1025>();
const C_CHUNKS_MUT_CH_1024_1025: Out = chunks_mut_ch::<1024, 1025>();
const C_CHUNKS_CH_1024_2047: Out = chunks_ch::<1024, 2047>();
const C_CHUNKS_MUT_CH_1024_2047: Out = chunks_mut_ch::<1024, 2047>();
const C_CHUNKS_CH_1024_2048: Out = chunks_ch::<1024, 2048>();
const C_CHUNKS_MUT_CH_1024_2048: Out = chunks_mut_ch::<1024, 2048>();
const C_CHUNKS_CH_1024_2049: Out = chunks_ch::<1024, 2049>();
const C_CHUNKS_MUT_CH_1024_2049: Out = chunks_mut_ch::<1024, 2049>();
const C_CHUNKS_CH_1024_3074: Out = chunks_ch::<1024, 3074>();
const C_CHUNKS_MUT_CH_1024_3074: Out = chunks_mut_ch::<1024, 3074>();
const C_REINTERPRET_CH_1024_0: Out = reinterpret_ch::<1024, 0>();
const C_REINTERPRET_CH_1024_1: Out = reinterpret_ch::<1024, 1>();
const C_REINTERPRET_CH_1024_1023: Out = reinterpret_ch::<1024, 1023>();
const C_REINTERPRET_CH_1024_1024: Out = reinterpret_ch::<1024, 1024>();
const C_REINTERPRET_CH_1024_1025: Out = reinterpret_ch::<1024, 1025>();
const C_REINTERPRET_CH_1024_2048: Out = reinterpret_ch::<1024, 2048>();
const C_REINTERPRET_CH_1024_3074: Out = reinterpret_ch::<1024, 3074>();
const C_BYVALUE_CH_1024: Out = byvalue_ch::<1024>();
const C_NATIVE_CHUNKS_CH_1024_0: Out = native_chunks_ch::<1024, 0>();
const C_NATIVE_CHUNKS_CH_1024_1: Out = native_chunks_ch::<1024, 1>();
const C_NATIVE_CHUNKS_CH_1024_2: Out = native_chunks_ch::<1024, 2>();
const C_NATIVE_CHUNKS_CH_1024_3: Out = native_chunks_ch::<1024, 3>();
const C_TRANSMUTE: Out = transmute_case();
const C_BUILDERS_FINISH_EMPTY: Out = builders_finish_empty();
const C_BUILDERS_0: Out = builders_case::<0>();
const C_BUILDERS_1: Out = builders_case::<1>();
const C_BUILDERS_2: Out = builders_case::<2>();
const C_BUILDERS_3: Out = builders_case::<3>();
const C_BUILDERS_7: Out = builders_case::<7>();
const C_BUILDERS_8: Out = builders_case::<8>();
const C_BUILDERS_16: Out = builders_case::<16>();
const C_BUILDERS_17: Out = builders_case::<17>();
const C_BUILDERS_33: Out = builders_case::<33>();
const C_BUILDERS_64: Out = builders_case::<64>();
const C_BUILDERS_100: Out = builders_case::<100>();
const C_BUILDERS_1024: Out = builders_case::<1024>();
const C_CDEFAULT_0: Out = { let a: GA<u32, N<0>> = GA::<u32, N<0>>::const_default(); let mut i = 0; let mut h = 0u64; while i < 0 { assert!(a.as_slice()[i] == 0); h = mix(h, a.as_slice()[i] as u64); i += 1; } assert!(a.as_slice().len() == 0); (0, 0, h, 0, 0) };
const C_ARR_TYPE_0: Out = { let a = arr![9u8; N<0>]; let mut i = 0; while i < 0 { assert!(a.as_slice()[i] == 9); i += 1; } assert!(a.as_slice().len() == 0); (0, 0, 9, 0, 0) };
const C_ARR_CONST_0: Out = { let a: GA<u8, N<0>> = arr![9u8; 0]; let mut i = 0; while i < 0 { assert!(a.as_slice()[i] == 9); i += 1; } assert!(a.as_slice().len() == 0); (0, 0, 9, 0, 0) };
const C_CDEFAULT_1: Out = { let a: GA<u32, N<1>> = GA::<u32, N<1>>::const_default(); let mut i = 0; let mut h = 0u64; while i < 1 { assert!(a.as_slice()[i] == 0); h = mix(h, a.as_slice()[i] as u64); i += 1; } assert!(a.as_slice().len() == 1); (1, 0, h, 0, 0) };
const C_ARR_TYPE_1: Out = { let a = arr![9u8; N<1>]; let mut i = 0; while i < 1 { assert!(a.as_slice()[i] == 9); i += 1; } assert!(a.as_slice().len() == 1); (1, 0, 9, 0, 0) };
const C_ARR_CONST_1: Out = { let a: GA<u8, N<1>> = arr![9u8; 1]; let mut i = 0; while i < 1 { assert!(a.as_slice()[i] == 9); i += 1; } assert!(a.as_slice().len() == 1); (1, 0, 9, 0, 0) };
const C_CDEFAULT_2: Out = { let a: GA<u32, N<2>> = GA::<u32, N<2>>::const_default(); let mut i = 0; let mut h = 0u64; while i < 2 { assert!(a.as_slice()[i] == 0); h = mix(h, a.as_slice()[i] as u64); i += 1; } assert!(a.as_slice().len() == 2); (2, 0, h, 0, 0) };
const C_ARR_TYPE_2: Out = { let a = arr![9u8; N<2>]; let mut i = 0; while i < 2 { assert!(a.as_slice()[i] == 9); i += 1; } assert!(a.as_slice().len() == 2); (2, 0, 9, 0, 0) };
const C_ARR_CONST_2: Out = { let a: GA<u8, N<2>> = arr![9u8; 2]; let mut i = 0; while i < 2 { assert!(a.as_slice()[i] == 9); i += 1; } assert!(a.as_slice().len() == 2); (2, 0, 9, 0, 0) };
const C_CDEFAULT_3: Out = { let a: GA<u32, N<3>> = GA::<u32, N<3>>::const_default(); let mut i = 0; let mut h = 0u64; while i < 3 { assert!(a.as_slice()[i] == 0); h = mix(h, a.as_slice()[i] as u64); i += 1; } assert!(a.as_slice().len() == 3); (3, 0, h, 0, 0) };
const C_ARR_TYPE_3: Out = { let a = arr![9u8; N<3>]; let mut i = 0; while i < 3 { assert!(a.as_slice()[i] == 9); i += 1; } assert!(a.as_slice().len() == 3); (3, 0, 9, 0, 0) };
const C_ARR_CONST_3: Out = { let a: GA<u8, N<3>> = arr![9u8; 3]; let mut i = 0; while i < 3 { assert!(a.as_slice()[i] == 9); i += 1; } assert!(a.as_slice().len() == 3); (3, 0, 9, 0, 0) };
const C_CDEFAULT_5: Out = { let a: GA<u32, N<5>> = GA::<u32, N<5>>::const_default(); let mut i = 0; let mut h = 0u64; while i < 5 { assert!(a.as_slice()[i] == 0); h = mix(h, a.as_slice()[i] as u64); i += 1; } assert!(a.as_slice().len() == 5); (5, 0, h, 0, 0) };
const C_ARR_TYPE_5: Out = { let a = arr![9u8; N<5>]; let mut i = 0; while i < 5 { assert!(a.as_slice()[i] == 9); i += 1; } assert!(a.as_slice().len() == 5); (5, 0, 9, 0, 0) };
const C_ARR_CONST_5: Out = { let a: GA<u8, N<5>> = arr![9u8; 5]; let mut i = 0; while i < 5 { assert!(a.as_slice()[i] == 9); i += 1; } assert!(a.as_slice().len() == 5); (5, 0, 9, 0, 0) };
const C_CDEFAULT_7: Out = { let a: GA<u32, N<7>> = GA::<u32, N<7>>::const_default(); let mut i = 0; let mut h = 0u64; while i < 7 { assert!(a.as_slice()[i] == 0); h = mix(h, a.as_slice()[i] as u64); i += 1; } assert!(a.as_slice().len() == 7); (7, 0, h, 0, 0) };
const C_ARR_TYPE_7: Out = { let a = arr![9u8; N<7>]; let mut i = 0; while i < 7 { assert!(a.as_slice()[i] == 9); i += 1; } assert!(a.as_slice().len() == 7); (7, 0, 9, 0, 0) };
const C_ARR_CONST_7: Out = { let a: GA<u8, N<7>> = arr![9u8; 7]; let mut i = 0; while i < 7 { assert!(a.as_slice()[i] == 9); i += 1; } assert!(a.as_slice().len() == 7); (7, 0, 9, 0, 0) };
const C_CDEFAULT_8: Out = { let a: GA<u32, N<8>> = GA::<u32, N<8>>::const_default(); let mut i = 0; let mut h = 0u64; while i < 8 { assert!(a.as_slice()[i] == 0); h = mix(h, a.as_slice()[i] as u64); i += 1; } assert!(a.as_slice().len() == 8); (8, 0, h, 0, 0) };
const C_ARR_TYPE_8: Out = { let a = arr![9u8; N<8>]; let mut i = 0; while i < 8 { assert!(a.as_slice()[i] == 9); i += 1; } assert!(a.as_slice().len() == 8); (8, 0, 9, 0, 0) };
const C_ARR_CONST_8: Out = { let a: GA<u8, N<8>> = arr![9u8; 8]; let mut i = 0; while i < 8 { assert!(a.as_slice()[i] == 9); i += 1; } assert!(a.as_slice().len() == 8); (8, 0, 9, 0, 0) };
const C_CDEFAULT_16: Out = { let a: GA<u32, N<16>> = GA::<u32, N<16>>::const_default(); let mut i = 0; let mut h = 0u64; while i < 16 { assert!(a.as_slice()[i] == 0); h = mix(h, a.as_slice()[i] as u64); i += 1; } assert!(a.as_slice().len() == 16); (16, 0, h, 0, 0) };
const C_ARR_TYPE_16: Out = { let a = arr![9u8; N<16>]; let mut i = 0; while i < 16 { assert!(a.as_slice()[i] == 9); i += 1; } assert!(a.as_slice().len() == 16); (16, 0, 9, 0, 0) };
const C_ARR_CONST_16: Out = { let a: GA<u8, N<16>> = arr![9u8; 16]; let mut i = 0; while i < 16 { assert!(a.as_slice()[i] == 9); i += 1; } assert!(a.as_slice().len() == 16); (16, 0, 9, 0, 0) };
const C_CDEFAULT_17: Out = { let a: GA<u32, N<17>> = GA::<u32, N<17>>::const_default(); let mut i = 0; let mut h = 0u64; while i < 17 { assert!(a.as_slice()[i] == 0); h = mix(h, a.as_slice()[i] as u64); i += 1; } assert!(a.as_slice().len() == 17); (17, 0, h, 0, 0) };
const C_ARR_TYPE_17: Out = { let a = arr![9u8; N<17>]; let mut i = 0; while i < 17 { assert!(a.as_slice()[i] == 9); i += 1; } assert!(a.as_slice().len() == 17); (17, 0, 9, 0, 0) };
const C_ARR_CONST_17: Out = { let a: GA<u8, N<17>> = arr![9u8; 17]; let mut i = 0; while i < 17 { assert!(a.as_slice()[i] == 9); i += 1; } assert!(a.as_slice().len() == 17); (17, 0, 9, 0, 0) };
const C_CDEFAULT_33: Out = { let a: GA<u32, N<33>> = GA::<u32, N<33>>::const_default(); let mut i = 0; let mut h = 0u64; while i < 33 { assert!(a.as_slice()[i] == 0); h = mix(h, a.as_slice()[i] as u64); i += 1; } assert!(a.as_slice().len() == 33); (33, 0, h, 0, 0) };
const C_ARR_TYPE_33: Out = { let a = arr![9u8; N<33>]; let mut i = 0; while i < 33 { assert!(a.as_slice()[i] == 9); i += 1; } assert!(a.as_slice().len() == 33); (33, 0, 9, 0, 0) };
const C_ARR_CONST_33: Out = { let a: GA<u8, N<33>> = arr![9u8; 33]; let mut i = 0; while i < 33 { assert!(a.as_slice()[i] == 9); i += 1; } assert!(a.as_slice().len() == 33); (33, 0, 9, 0, 0) };
const C_CDEFAULT_64: Out = { let a: GA<u32, N<64>> = GA::<u32, N<64>>::const_default(); let mut i = 0; let mut h = 0u64; while i < 64 { assert!(a.as_slice()[i] == 0); h = mix(h, a.as_slice()[i] as u64); i += 1; } assert!(a.as_slice().len() == 64); (64, 0, h, 0, 0) };
const C_ARR_TYPE_64: Out = { let a = arr![9u8; N<64>]; let mut i = 0; while i < 64 { assert!(a.as_slice()[i] == 9); i += 1; } assert!(a.as_slice().len() == 64); (64, 0, 9, 0, 0) };
const C_ARR_CONST_64: Out = { let a: GA<u8, N<64>> = arr![9u8; 64]; let mut i = 0; while i < 64 { assert!(a.as_slice()[i] == 9); i += 1; } assert!(a.as_slice().len() == 64); (64, 0, 9, 0, 0) };
const C_CDEFAULT_100: Out = { let a: GA<u32, N<100>> = GA::<u32, N<100>>::const_default(); let mut i = 0; let mut h = 0u64; while i < 100 { assert!(a.as_slice()[i] == 0); h = mix(h, a.as_slice()[i] as u64); i += 1; } assert!(a.as_slice().len() == 100); (100, 0, h, 0, 0) };
const C_ARR_TYPE_100: Out = { let a = arr![9u8; N<100>]; let mut i = 0; while i < 100 { assert!(a.as_slice()[i] == 9); i += 1; } assert!(a.as_slice().len() == 100); (100, 0, 9, 0, 0) };
const C_ARR_CONST_100: Out = { let a: GA<u8, N<100>> = arr![9u8; 100]; let mut i = 0; while i < 100 { assert!(a.as_slice()[i] == 9); i += 1; } assert!(a.as_slice().len() == 100); (100, 0, 9, 0, 0) };
const C_CDEFAULT_255: Out = { let a: GA<u32, N<255>> = GA::<u32, N<255>>::const_default(); let mut i = 0; let mut h = 0u64; while i < 255 { assert!(a.as_slice()[i] == 0); h = mix(h, a.as_slice()[i] as u64); i += 1; } assert!(a.as_slice().len() == 255); (255, 0, h, 0, 0) };
const C_ARR_TYPE_255: Out = { let a = arr![9u8; N<255>]; let mut i = 0; while i < 255 { assert!(a.as_slice()[i] == 9); i += 1; } assert!(a.as_slice().len() == 255); (255, 0, 9, 0, 0) };
const C_ARR_CONST_255: Out = { let a: GA<u8, N<255>> = arr![9u8; 255]; let mut i = 0; while i < 255 { assert!(a.as_slice()[i] == 9); i += 1; } assert!(a.as_slice().len() == 255); (255, 0, 9, 0, 0) };
const C_CDEFAULT_256: Out = { let a: GA<u32, N<256>> = GA::<u32, N<256>>::const_default(); let mut i = 0; let mut h = 0u64; while i < 256 { assert!(a.as_slice()[i] == 0); h = mix(h, a.as_slice()[i] as u64); i += 1; } assert!(a.as_slice().len() == 256); (256, 0, h, 0, 0) };
const C_ARR_TYPE_256: Out = { let a = arr![9u8; N<256>]; let mut i = 0; while i < 256 { assert!(a.as_slice()[i] == 9); i += 1; } assert!(a.as_slice().len() == 256); (256, 0, 9, 0, 0) };
const C_ARR_CONST_256: Out = { let a: GA<u8, N<256>> = arr![9u8; 256]; let mut i = 0; while i < 256 { assert!(a.as_slice()[i] == 9); i += 1; } assert!(a.as_slice().len() == 256); (256, 0, 9, 0, 0) };
const C_CDEFAULT_1000: Out = { let a: GA<u32, N<1000>> = GA::<u32, N<1000>>::const_default(); let mut i = 0; let mut h = 0u64; while i < 1000 { assert!(a.as_slice()[i] == 0); h = mix(h, a.as_slice()[i] as u64); i += 1; } assert!(a.as_slice().len() == 1000); (1000, 0, h, 0, 0) };
const C_ARR_TYPE_1000: Out = { let a = arr![9u8; N<1000>]; let mut i = 0; while i < 1000 { assert!(a.as_slice()[i] == 9); i += 1; } assert!(a.as_slice().len() == 1000); (1000, 0, 9, 0, 0) };
const C_ARR_CONST_1000: Out = { let a: GA<u8, N<1000>> = arr![9u8; 1000]; let mut i = 0; while i < 1000 { assert!(a.as_slice()[i] == 9); i += 1; } assert!(a.as_slice().len() == 1000); (1000, 0, 9, 0, 0) };
const C_CDEFAULT_1024: Out = { let a: GA<u32, N<1024>> = GA::<u32, N<1024>>::const_default(); let mut i = 0; let mut h = 0u64; while i < 1024 { assert!(a.as_slice()[i] == 0); h = mix(h, a.as_slice()[i] as u64); i += 1; } assert!(a.as_slice().len() == 1024); (1024, 0, h, 0, 0) };
const C_ARR_TYPE_1024: Out = { let a = arr![9u8; N<1024>]; let mut i = 0; while i < 1024 { assert!(a.as_slice()[i] == 9); i += 1; } assert!(a.as_slice().len() == 1024); (1024, 0, 9, 0, 0) };
const C_ARR_CONST_1024: Out = { let a: GA<u8, N<1024>> = arr![9u8; 1024]; let mut i = 0; while i < 1024 { assert!(a.as_slice()[i] == 9); i += 1; } assert!(a.as_slice().len() == 1024); (1024, 0, 9, 0, 0) };
const C_ARR_TYPE_1025: Out = { let a = arr![9u8; generic_array::typenum::Add1<generic_array::typenum::U1024>]; let mut i = 0; while i < 1025 { assert!(a.as_slice()[i] == 9); i += 1; } (a.as_slice().len(), 0, 9, 0, 0) };
const C_ARR_TYPE_3000: Out = { let a = arr![9u16; generic_array::typenum::Prod<U3, generic_array::typenum::U1000>]; assert!(a.as_slice().len() == 3000 && a.as_slice()[2999] == 9); (3000, 0, 9, 0, 0) };
const C_ARR_LIST_0: Out = { let a: GA<u8, N<0>> = arr![]; let mut i = 0; let mut h = 0u64; while i < 0 { assert!(a.as_slice()[i] as usize == (i * 3 + 1) % 256); h = mix(h, a.as_slice()[i] as u64); i += 1; } (0, 0, h, 0, 0) };
const C_ARR_LIST_TRAILING_0: Out = { let a: GA<u8, N<0>> = arr![]; (a.as_slice().len(), 0, 0, 0, 0) };
const C_ARR_LIST_1: Out = { let a: GA<u8, N<1>> = arr![1u8]; let mut i = 0; let mut h = 0u64; while i < 1 { assert!(a.as_slice()[i] as usize == (i * 3 + 1) % 256); h = mix(h, a.as_slice()[i] as u64); i += 1; } (1, 0, h, 0, 0) };
const C_ARR_LIST_TRAILING_1: Out = { let a: GA<u8, N<1>> = arr![1u8,]; (a.as_slice().len(), 0, 0, 0, 0) };
const C_ARR_LIST_2: Out = { let a: GA<u8, N<2>> = arr![1u8, 4u8]; let mut i = 0; let mut h = 0u64; while i < 2 { assert!(a.as_slice()[i] as usize == (i * 3 + 1) % 256); h = mix(h, a.as_slice()[i] as u64); i += 1; } (2, 0, h, 0, 0) };
const C_ARR_LIST_TRAILING_2: Out = { let a: GA<u8, N<2>> = arr![1u8, 4u8,]; (a.as_slice().len(), 0, 0, 0, 0) };
const C_ARR_LIST_3: Out = { let a: GA<u8, N<3>> = arr![1u8, 4u8, 7u8]; let mut i = 0; let mut h = 0u64; while i < 3 { assert!(a.as_slice()[i] as usize == (i * 3 + 1) % 256); h = mix(h, a.as_slice()[i] as u64); i += 1; } (3, 0, h, 0, 0) };
const C_ARR_LIST_TRAILING_3: Out = { let a: GA<u8, N<3>> = arr![1u8, 4u8, 7u8,]; (a.as_slice().len(), 0, 0, 0, 0) };
const C_ARR_LIST_5: Out = { let a: GA<u8, N<5>> = arr![1u8, 4u8, 7u8, 10u8, 13u8]; let mut i = 0; let mut h = 0u64; while i < 5 { assert!(a.as_slice()[i] as usize == (i * 3 + 1) % 256); h = mix(h, a.as_slice()[i] as u64); i += 1; } (5, 0, h, 0, 0) };
const C_ARR_LIST_TRAILING_5: Out = { let a: GA<u8, N<5>> = arr![1u8, 4u8, 7u8, 10u8, 13u8,]; (a.as_slice().len(), 0, 0, 0, 0) };
const C_ARR_LIST_8: Out = { let a: GA<u8, N<8>> = arr![1u8, 4u8, 7u8, 10u8, 13u8, 16u8, 19u8, 22u8]; let mut i = 0; let mut h = 0u64; while i < 8 { assert!(a.as_slice()[i] as usize == (i * 3 + 1) % 256); h = mix(h, a.as_slice()[i] as u64); i += 1; } (8, 0, h, 0, 0) };
const C_ARR_LIST_TRAILING_8: Out = { let a: GA<u8, N<8>> = arr![1u8, 4u8, 7u8, 10u8, 13u8, 16u8, 19u8, 22u8,]; (a.as_slice().len(), 0, 0, 0, 0) };
const C_ARR_LIST_17: Out = { let a: GA<u8, N<17>> = arr![1u8, 4u8, 7u8, 10u8, 13u8, 16u8, 19u8, 22u8, 25u8, 28u8, 31u8, 34u8, 37u8, 40u8, 43u8, 46u8, 49u8]; let mut i = 0; let mut h = 0u64; while i < 17 { assert!(a.as_slice()[i] as usize == (i * 3 + 1) % 256); h = mix(h, a.as_slice()[i] as u64); i += 1; } (17, 0, h, 0, 0) };
const C_ARR_LIST_TRAILING_17: Out = { let a: GA<u8, N<17>> = arr![1u8, 4u8, 7u8, 10u8, 13u8, 16u8, 19u8, 22u8, 25u8, 28u8, 31u8, 34u8, 37u8, 40u8, 43u8, 46u8, 49u8,]; (a.as_slice().len(), 0, 0, 0, 0) };
const C_ARR_LIST_33: Out = { let a: GA<u8, N<33>> = arr![1u8, 4u8, 7u8, 10u8, 13u8, 16u8, 19u8, 22u8, 25u8, 28u8, 31u8, 34u8, 37u8, 40u8, 43u8, 46u8, 49u8, 52u8, 55u8, 58u8, 61u8, 64u8, 67u8, 70u8, 73u8, 76u8, 79u8, 82u8, 85u8, 88u8, 91u8, 94u8, 97u8]; let mut i = 0; let mut h = 0u64; while i < 33 { assert!(a.as_slice()[i] as usize == (i * 3 + 1) % 256); h = mix(h, a.as_slice()[i] as u64); i += 1; } (33, 0, h, 0, 0) };
const C_ARR_LIST_TRAILING_33: Out = { let a: GA<u8, N<33>> = arr![1u8, 4u8, 7u8, 10u8, 13u8, 16u8, 19u8, 22u8, 25u8, 28u8, 31u8, 34u8, 37u8, 40u8, 43u8, 46u8, 49u8, 52u8, 55u8, 58u8, 61u8, 64u8, 67u8, 70u8, 73u8, 76u8, 79u8, 82u8, 85u8, 88u8, 91u8, 94u8, 97u8,]; (a.as_slice().len(), 0, 0, 0, 0) };
const C_ARR_LIST_64: Out = { let a: GA<u8, N<64>> = arr![1u8, 4u8, 7u8, 10u8, 13u8, 16u8, 19u8, 22u8, 25u8, 28u8, 31u8, 34u8, 37u8, 40u8, 43u8, 46u8, 49u8, 52u8, 55u8, 58u8, 61u8, 64u8, 67u8, 70u8, 73u8, 76u8, 79u8, 82u8, 85u8, 88u8, 91u8, 94u8, 97u8, 100u8, 103u8, 106u8, 109u8, 112u8, 115u8, 118u8, 121u8, 124u8, 127u8, 130u8, 133u8, 136u8, 139u8, 142u8, 145u8, 148u8, 151u8, 154u8, 157u8, 160u8, 163u8, 166u8, 169u8, 172u8, 175u8, 178u8, 181u8, 184u8, 187u8, 190u8]; let mut i = 0; let mut h = 0u64; while i < 64 { assert!(a.as_slice()[i] as usize == (i * 3 + 1) % 256); h = mix(h, a.as_slice()[i] as u64); i += 1; } (64, 0, h, 0, 0) };
const C_ARR_LIST_TRAILING_64: Out = { let a: GA<u8, N<64>> = arr![1u8, 4u8, 7u8, 10u8, 13u8, 16u8, 19u8, 22u8, 25u8, 28u8, 31u8, 34u8, 37u8, 40u8, 43u8, 46u8, 49u8, 52u8, 55u8, 58u8, 61u8, 64u8, 67u8, 70u8, 73u8, 76u8, 79u8, 82u8, 85u8, 88u8, 91u8, 94u8, 97u8, 100u8, 103u8, 106u8, 109u8, 112u8, 115u8, 118u8, 121u8, 124u8, 127u8, 130u8, 133u8, 136u8, 139u8, 142u8, 145u8, 148u8, 151u8, 154u8, 157u8, 160u8, 163u8, 166u8, 169u8, 172u8, 175u8, 178u8, 181u8, 184u8, 187u8, 190u8,]; (a.as_slice().len(), 0, 0, 0, 0) };
fn table() -> Vec<(&'static str, Out, fn() -> Out)> { vec![
    ("chunks_u8_0_0", C_CHUNKS_U8_0_0, chunks_u8::<0, 0> as fn() -> Out),
    ("chunks_mut_u8_0_0", C_CHUNKS_MUT_U8_0_0, chunks_mut_u8::<0, 0> as fn() -> Out),
    ("reinterpret_u8_0_0", C_REINTERPRET_U8_0_0, reinterpret_u8::<0, 0> as fn() -> Out),
    ("reinterpret_u8_0_1", C_REINTERPRET_U8_0_1, reinterpret_u8::<0, 1> as fn() -> Out),
    ("reinterpret_u8_0_2", C_REINTERPRET_U8_0_2, reinterpret_u8::<0, 2> as fn() -> Out),
    ("byvalue_u8_0", C_BYVALUE_U8_0, byvalue_u8::<0> as fn() -> Out),
    ("native_chunks_u8_0_0", C_NATIVE_CHUNKS_U8_0_0, native_chunks_u8::<0, 0> as fn() -> Out),
    ("native_chunks_u8_0_1", C_NATIVE_CHUNKS_U8_0_1, native_chunks_u8::<0, 1> as fn() -> Out),
    ("native_chunks_u8_0_2", C_NATIVE_CHUNKS_U8_0_2, native_chunks_u8::<0, 2> as fn() -> Out),
    ("native_chunks_u8_0_3", C_NATIVE_CHUNKS_U8_0_3, native_chunks_u8::<0, 3> as fn() -> Out),
    ("chunks_u8_1_0", C_CHUNKS_U8_1_0, chunks_u8::<1, 0> as fn() -> Out),
    ("chunks_mut_u8_1_0", C_CHUNKS_MUT_U8_1_0, chunks_mut_u8::<1, 0> as fn() -> Out),
    ("chunks_u8_1_1", C_CHUNKS_U8_1_1, chunks_u8::<1, 1> as fn() -> Out),
    ("chunks_mut_u8_1_1", C_CHUNKS_MUT_U8_1_1, chunks_mut_u8::<1, 1> as fn() -> Out),
    ("chunks_u8_1_2", C_CHUNKS_U8_1_2, chunks_u8::<1, 2> as fn() -> Out),
    ("chunks_mut_u8_1_2", C_CHUNKS_MUT_U8_1_2, chunks_mut_u8::<1, 2> as fn() -> Out),
    ("chunks_u8_1_3", C_CHUNKS_U8_1_3, chunks_u8::<1, 3> as fn() -> Out),
    ("chunks_mut_u8_1_3", C_CHUNKS_MUT_U8_1_3, chunks_mut_u8::<1, 3> as fn() -> Out),
    ("chunks_u8_1_4", C_CHUNKS_U8_1_4, chunks_u8::<1, 4> as fn() -> Out),
    ("chunks_mut_u8_1_4", C_CHUNKS_MUT_U8_1_4, chunks_mut_u8::<1, 4> as fn() -> Out),
    ("chunks_u8_1_5", C_CHUNKS_U8_1_5, chunks_u8::<1, 5> as fn() -> Out),
    ("chunks_mut_u8_1_5", C_CHUNKS_MUT_U8_1_5, chunks_mut_u8::<1, 5> as fn() -> Out),
    ("reinterpret_u8_1_0", C_REINTERPRET_U8_1_0, reinterpret_u8::<1, 0> as fn() -> Out),
    ("reinterpret_u8_1_1", C_REINTERPRET_U8_1_1, reinterpret_u8::<1, 1> as fn() -> Out),
    ("reinterpret_u8_1_2", C_REINTERPRET_U8_1_2, reinterpret_u8::<1, 2> as fn() -> Out),
    ("reinterpret_u8_1_5", C_REINTERPRET_U8_1_5, reinterpret_u8::<1, 5> as fn() -> Out),
    ("byvalue_u8_1", C_BYVALUE_U8_1, byvalue_u8::<1> as fn() -> Out),
    ("native_chunks_u8_1_0", C_NATIVE_CHUNKS_U8_1_0, native_chunks_u8::<1, 0> as fn() -> Out),
    ("native_chunks_u8_1_1", C_NATIVE_CHUNKS_U8_1_1, native_chunks_u8::<1, 1> as fn() -> Out),
    ("native_chunks_u8_1_2", C_NATIVE_CHUNKS_U8_1_2, native_chunks_u8::<1, 2> as fn() -> Out),
    ("native_chunks_u8_1_3", C_NATIVE_CHUNKS_U8_1_3, native_chunks_u8::<1, 3> as fn() -> Out),
    ("chunks_u8_2_0", C_CHUNKS_U8_2_0, chunks_u8::<2, 0> as fn() -> Out),
    ("chunks_mut_u8_2_0", C_CHUNKS_MUT_U8_2_0, chunks_mut_u8::<2, 0> as fn() -> Out),
    ("chunks_u8_2_1", C_CHUNKS_U8_2_1, chunks_u8::<2, 1> as fn() -> Out),
    ("chunks_mut_u8_2_1", C_CHUNKS_MUT_U8_2_1, chunks_mut_u8::<2, 1> as fn() -> Out),
    ("chunks_u8_2_2", C_CHUNKS_U8_2_2, chunks_u8::<2, 2> as fn() -> Out),
    ("chunks_mut_u8_2_2", C_CHUNKS_MUT_U8_2_2, chunks_mut_u8::<2, 2> as fn() -> Out),
    ("chunks_u8_2_3", C_CHUNKS_U8_2_3, chunks_u8::<2, 3> as fn() -> Out),
    ("chunks_mut_u8_2_3", C_CHUNKS_MUT_U8_2_3, chunks_mut_u8::<2, 3> as fn() -> Out),
    ("chunks_u8_2_4", C_CHUNKS_U8_2_4, chunks_u8::<2, 4> as fn() -> Out),
    ("chunks_mut_u8_2_4", C_CHUNKS_MUT_U8_2_4, chunks_mut_u8::<2, 4> as fn() -> Out),
    ("chunks_u8_2_5", C_CHUNKS_U8_2_5, chunks_u8::<2, 5> as fn() -> Out),
    ("chunks_mut_u8_2_5", C_CHUNKS_MUT_U8_2_5, chunks_mut_u8::<2, 5> as fn() -> Out),
    ("chunks_u8_2_6", C_CHUNKS_U8_2_6, chunks_u8::<2, 6> as fn() -> Out),
    ("chunks_mut_u8_2_6", C_CHUNKS_MUT_U8_2_6, chunks_mut_u8::<2, 6> as fn() -> Out),
    ("chunks_u8_2_7", C_CHUNKS_U8_2_7, chunks_u8::<2, 7> as fn() -> Out),
    ("chunks_mut_u8_2_7", C_CHUNKS_MUT_U8_2_7, chunks_mut_u8::<2, 7> as fn() -> Out),
    ("chunks_u8_2_8", C_CHUNKS_U8_2_8, chunks_u8::<2, 8> as fn() -> Out),
    ("chunks_mut_u8_2_8", C_CHUNKS_MUT_U8_2_8, chunks_mut_u8::<2, 8> as fn() -> Out),
    ("reinterpret_u8_2_0", C_REINTERPRET_U8_2_0, reinterpret_u8::<2, 0> as fn() -> Out),
    ("reinterpret_u8_2_1", C_REINTERPRET_U8_2_1, reinterpret_u8::<2, 1> as fn() -> Out),
    ("reinterpret_u8_2_2", C_REINTERPRET_U8_2_2, reinterpret_u8::<2, 2> as fn() -> Out),
    ("reinterpret_u8_2_3", C_REINTERPRET_U8_2_3, reinterpret_u8::<2, 3> as fn() -> Out),
    ("reinterpret_u8_2_4", C_REINTERPRET_U8_2_4, reinterpret_u8::<2, 4> as fn() -> Out),
    ("reinterpret_u8_2_8", C_REINTERPRET_U8_2_8, reinterpret_u8::<2, 8> as fn() -> Out),
    ("byvalue_u8_2", C_BYVALUE_U8_2, byvalue_u8::<2> as fn() -> Out),
    ("native_chunks_u8_2_0", C_NATIVE_CHUNKS_U8_2_0, native_chunks_u8::<2, 0> as fn() -> Out),
    ("native_chunks_u8_2_1", C_NATIVE_CHUNKS_U8_2_1, native_chunks_u8::<2, 1> as fn() -> Out),
    ("native_chunks_u8_2_2", C_NATIVE_CHUNKS_U8_2_2, native_chunks_u8::<2, 2> as fn() -> Out),
    ("native_chunks_u8_2_3", C_NATIVE_CHUNKS_U8_2_3, native_chunks_u8::<2, 3> as fn() -> Out),
    ("chunks_u8_3_0", C_CHUNKS_U8_3_0, chunks_u8::<3, 0> as fn() -> Out),
    ("chunks_mut_u8_3_0", C_CHUNKS_MUT_U8_3_0, chunks_mut_u8::<3, 0> as fn() -> Out),
    ("chunks_u8_3_1", C_CHUNKS_U8_3_1, chunks_u8::<3, 1> as fn() -> Out),
    ("chunks_mut_u8_3_1", C_CHUNKS_MUT_U8_3_1, chunks_mut_u8::<3, 1> as fn() -> Out),
    ("chunks_u8_3_2", C_CHUNKS_U8_3_2, chunks_u8::<3, 2> as fn() -> Out),
    ("chunks_mut_u8_3_2", C_CHUNKS_MUT_U8_3_2, chunks_mut_u8::<3, 2> as fn() -> Out),
    ("chunks_u8_3_3", C_CHUNKS_U8_3_3, chunks_u8::<3, 3> as fn() -> Out),
    ("chunks_mut_u8_3_3", C_CHUNKS_MUT_U8_3_3, chunks_mut_u8::<3, 3> as fn() -> Out),
    ("chunks_u8_3_4", C_CHUNKS_U8_3_4, chunks_u8::<3, 4> as fn() -> Out),
    ("chunks_mut_u8_3_4", C_CHUNKS_MUT_U8_3_4, chunks_mut_u8::<3, 4> as fn() -> Out),
    ("chunks_u8_3_5", C_CHUNKS_U8_3_5, chunks_u8::<3, 5> as fn() -> Out),
    ("chunks_mut_u8_3_5", C_CHUNKS_MUT_U8_3_5, chunks_mut_u8::<3, 5> as fn() -> Out),
    ("chunks_u8_3_6", C_CHUNKS_U8_3_6, chunks_u8::<3, 6> as fn() -> Out),
    ("chunks_mut_u8_3_6", C_CHUNKS_MUT_U8_3_6, chunks_mut_u8::<3, 6> as fn() -> Out),
    ("chunks_u8_3_7", C_CHUNKS_U8_3_7, chunks_u8::<3, 7> as fn() -> Out),
    ("chunks_mut_u8_3_7", C_CHUNKS_MUT_U8_3_7, chunks_mut_u8::<3, 7> as fn() -> Out),
    ("chunks_u8_3_8", C_CHUNKS_U8_3_8, chunks_u8::<3, 8> as fn() -> Out),
    ("chunks_mut_u8_3_8", C_CHUNKS_MUT_U8_3_8, chunks_mut_u8::<3, 8> as fn() -> Out),
    ("chunks_u8_3_9", C_CHUNKS_U8_3_9, chunks_u8::<3, 9> as fn() -> Out),
    ("chunks_mut_u8_3_9", C_CHUNKS_MUT_U8_3_9, chunks_mut_u8::<3, 9> as fn() -> Out),
    ("chunks_u8_3_10", C_CHUNKS_U8_3_10, chunks_u8::<3, 10> as fn() -> Out),
    ("chunks_mut_u8_3_10", C_CHUNKS_MUT_U8_3_10, chunks_mut_u8::<3, 10> as fn() -> Out),
    ("chunks_u8_3_11", C_CHUNKS_U8_3_11, chunks_u8::<3, 11> as fn() -> Out),
    ("chunks_mut_u8_3_11", C_CHUNKS_MUT_U8_3_11, chunks_mut_u8::<3, 11> as fn() -> Out),
    ("reinterpret_u8_3_0", C_REINTERPRET_U8_3_0, reinterpret_u8::<3, 0> as fn() -> Out),
    ("reinterpret_u8_3_1", C_REINTERPRET_U8_3_1, reinterpret_u8::<3, 1> as fn() -> Out),
    ("reinterpret_u8_3_2", C_REINTERPRET_U8_3_2, reinterpret_u8::<3, 2> as fn() -> Out),
    ("reinterpret_u8_3_3", C_REINTERPRET_U8_3_3, reinterpret_u8::<3, 3> as fn() -> Out),
    ("reinterpret_u8_3_4", C_REINTERPRET_U8_3_4, reinterpret_u8::<3, 4> as fn() -> Out),
    ("reinterpret_u8_3_6", C_REINTERPRET_U8_3_6, reinterpret_u8::<3, 6> as fn() -> Out),
    ("reinterpret_u8_3_11", C_REINTERPRET_U8_3_11, reinterpret_u8::<3, 11> as fn() -> Out),
    ("byvalue_u8_3", C_BYVALUE_U8_3, byvalue_u8::<3> as fn() -> Out),
    ("native_chunks_u8_3_0", C_NATIVE_CHUNKS_U8_3_0, native_chunks_u8::<3, 0> as fn() -> Out),
    ("native_chunks_u8_3_1", C_NATIVE_CHUNKS_U8_3_1, native_chunks_u8::<3, 1> as fn() -> Out),
    ("native_chunks_u8_3_2", C_NATIVE_CHUNKS_U8_3_2, native_chunks_u8::<3, 2> as fn() -> Out),
    ("native_chunks_u8_3_3", C_NATIVE_CHUNKS_U8_3_3, native_chunks_u8::<3, 3> as fn() -> Out),
    ("chunks_u8_7_0", C_CHUNKS_U8_7_0, chunks_u8::<7, 0> as fn() -> Out),
    ("chunks_mut_u8_7_0", C_CHUNKS_MUT_U8_7_0, chunks_mut_u8::<7, 0> as fn() -> Out),
    ("chunks_u8_7_1", C_CHUNKS_U8_7_1, chunks_u8::<7, 1> as fn() -> Out),
    ("chunks_mut_u8_7_1", C_CHUNKS_MUT_U8_7_1, chunks_mut_u8::<7, 1> as fn() -> Out),
    ("chunks_u8_7_2", C_CHUNKS_U8_7_2, chunks_u8::<7, 2> as fn() -> Out),
    ("chunks_mut_u8_7_2", C_CHUNKS_MUT_U8_7_2, chunks_mut_u8::<7, 2> as fn() -> Out),
    ("chunks_u8_7_3", C_CHUNKS_U8_7_3, chunks_u8::<7, 3> as fn() -> Out),
    ("chunks_mut_u8_7_3", C_CHUNKS_MUT_U8_7_3, chunks_mut_u8::<7, 3> as fn() -> Out),
    ("chunks_u8_7_4", C_CHUNKS_U8_7_4, chunks_u8::<7, 4> as fn() -> Out),
    ("chunks_mut_u8_7_4", C_CHUNKS_MUT_U8_7_4, chunks_mut_u8::<7, 4> as fn() -> Out),
    ("chunks_u8_7_5", C_CHUNKS_U8_7_5, chunks_u8::<7, 5> as fn() -> Out),
    ("chunks_mut_u8_7_5", C_CHUNKS_MUT_U8_7_5, chunks_mut_u8::<7, 5> as fn() -> Out),
    ("chunks_u8_7_6", C_CHUNKS_U8_7_6, chunks_u8::<7, 6> as fn() -> Out),
    ("chunks_mut_u8_7_6", C_CHUNKS_MUT_U8_7_6, chunks_mut_u8::<7, 6> as fn() -> Out),
    ("chunks_u8_7_7", C_CHUNKS_U8_7_7, chunks_u8::<7, 7> as fn() -> Out),
    ("chunks_mut_u8_7_7", C_CHUNKS_MUT_U8_7_7, chunks_mut_u8::<7, 7> as fn() -> Out),
    ("chunks_u8_7_8", C_CHUNKS_U8_7_8, chunks_u8::<7, 8> as fn() -> Out),
    ("chunks_mut_u8_7_8", C_CHUNKS_MUT_U8_7_8, chunks_mut_u8::<7, 8> as fn() -> Out),
    ("chunks_u8_7_9", C_CHUNKS_U8_7_9, chunks_u8::<7, 9> as fn() -> Out),
    ("chunks_mut_u8_7_9", C_CHUNKS_MUT_U8_7_9, chunks_mut_u8::<7, 9> as fn() -> Out),
    ("chunks_u8_7_10", C_CHUNKS_U8_7_10, chunks_u8::<7, 10> as fn() -> Out),
    ("chunks_mut_u8_7_10", C_CHUNKS_MUT_U8_7_10, chunks_mut_u8::<7, 10> as fn() -> Out),
    ("chunks_u8_7_11", C_CHUNKS_U8_7_11, chunks_u8::<7, 11> as fn() -> Out),
    ("chunks_mut_u8_7_11", C_CHUNKS_MUT_U8_7_11, chunks_mut_u8::<7, 11> as fn() -> Out),
    ("chunks_u8_7_12", C_CHUNKS_U8_7_12, chunks_u8::<7, 12> as fn() -> Out),
    ("chunks_mut_u8_7_12", C_CHUNKS_MUT_U8_7_12, chunks_mut_u8::<7, 12> as fn() -> Out),
    ("chunks_u8_7_13", C_CHUNKS_U8_7_13, chunks_u8::<7, 13> as fn() -> Out),
    ("chunks_mut_u8_7_13", C_CHUNKS_MUT_U8_7_13, chunks_mut_u8::<7, 13> as fn() -> Out),
    ("chunks_u8_7_14", C_CHUNKS_U8_7_14, chunks_u8::<7, 14> as fn() -> Out),
    ("chunks_mut_u8_7_14", C_CHUNKS_MUT_U8_7_14, chunks_mut_u8::<7, 14> as fn() -> Out),
    ("chunks_u8_7_15", C_CHUNKS_U8_7_15, chunks_u8::<7, 15> as fn() -> Out),
    ("chunks_mut_u8_7_15", C_CHUNKS_MUT_U8_7_15, chunks_mut_u8::<7, 15> as fn() -> Out),
    ("chunks_u8_7_16", C_CHUNKS_U8_7_16, chunks_u8::<7, 16> as fn() -> Out),
    ("chunks_mut_u8_7_16", C_CHUNKS_MUT_U8_7_16, chunks_mut_u8::<7, 16> as fn() -> Out),
    ("chunks_u8_7_17", C_CHUNKS_U8_7_17, chunks_u8::<7, 17> as fn() -> Out),
    ("chunks_mut_u8_7_17", C_CHUNKS_MUT_U8_7_17, chunks_mut_u8::<7, 17> as fn() -> Out),
    ("chunks_u8_7_18", C_CHUNKS_U8_7_18, chunks_u8::<7, 18> as fn() -> Out),
    ("chunks_mut_u8_7_18", C_CHUNKS_MUT_U8_7_18, chunks_mut_u8::<7, 18> as fn() -> Out),
    ("chunks_u8_7_19", C_CHUNKS_U8_7_19, chunks_u8::<7, 19> as fn() -> Out),
    ("chunks_mut_u8_7_19", C_CHUNKS_MUT_U8_7_19, chunks_mut_u8::<7, 19> as fn() -> Out),
    ("chunks_u8_7_20", C_CHUNKS_U8_7_20, chunks_u8::<7, 20> as fn() -> Out),
    ("chunks_mut_u8_7_20", C_CHUNKS_MUT_U8_7_20, chunks_mut_u8::<7, 20> as fn() -> Out),
    ("chunks_u8_7_21", C_CHUNKS_U8_7_21, chunks_u8::<7, 21> as fn() -> Out),
    ("chunks_mut_u8_7_21", C_CHUNKS_MUT_U8_7_21, chunks_mut_u8::<7, 21> as fn() -> Out),
    ("chunks_u8_7_22", C_CHUNKS_U8_7_22, chunks_u8::<7, 22> as fn() -> Out),
    ("chunks_mut_u8_7_22", C_CHUNKS_MUT_U8_7_22, chunks_mut_u8::<7, 22> as fn() -> Out),
    ("chunks_u8_7_23", C_CHUNKS_U8_7_23, chunks_u8::<7, 23> as fn() -> Out),
    ("chunks_mut_u8_7_23", C_CHUNKS_MUT_U8_7_23, chunks_mut_u8::<7, 23> as fn() -> Out),
    ("reinterpret_u8_7_0", C_REINTERPRET_U8_7_0, reinterpret_u8::<7, 0> as fn() -> Out),
    ("reinterpret_u8_7_1", C_REINTERPRET_U8_7_1, reinterpret_u8::<7, 1> as fn() -> Out),
    ("reinterpret_u8_7_6", C_REINTERPRET_U8_7_6, reinterpret_u8::<7, 6> as fn() -> Out),
    ("reinterpret_u8_7_7", C_REINTERPRET_U8_7_7, reinterpret_u8::<7, 7> as fn() -> Out),
    ("reinterpret_u8_7_8", C_REINTERPRET_U8_7_8, reinterpret_u8::<7, 8> as fn() -> Out),
    ("reinterpret_u8_7_14", C_REINTERPRET_U8_7_14, reinterpret_u8::<7, 14> as fn() -> Out),
    ("reinterpret_u8_7_23", C_REINTERPRET_U8_7_23, reinterpret_u8::<7, 23> as fn() -> Out),
    ("byvalue_u8_7", C_BYVALUE_U8_7, byvalue_u8::<7> as fn() -> Out),
    ("native_chunks_u8_7_0", C_NATIVE_CHUNKS_U8_7_0, native_chunks_u8::<7, 0> as fn() -> Out),
    ("native_chunks_u8_7_1", C_NATIVE_CHUNKS_U8_7_1, native_chunks_u8::<7, 1> as fn() -> Out),
    ("native_chunks_u8_7_2", C_NATIVE_CHUNKS_U8_7_2, native_chunks_u8::<7, 2> as fn() -> Out),
    ("native_chunks_u8_7_3", C_NATIVE_CHUNKS_U8_7_3, native_chunks_u8::<7, 3> as fn() -> Out),
    ("chunks_u8_8_0", C_CHUNKS_U8_8_0, chunks_u8::<8, 0> as fn() -> Out),
    ("chunks_mut_u8_8_0", C_CHUNKS_MUT_U8_8_0, chunks_mut_u8::<8, 0> as fn() -> Out),
    ("chunks_u8_8_1", C_CHUNKS_U8_8_1, chunks_u8::<8, 1> as fn() -> Out),
    ("chunks_mut_u8_8_1", C_CHUNKS_MUT_U8_8_1, chunks_mut_u8::<8, 1> as fn() -> Out),
    ("chunks_u8_8_2", C_CHUNKS_U8_8_2, chunks_u8::<8, 2> as fn() -> Out),
    ("chunks_mut_u8_8_2", C_CHUNKS_MUT_U8_8_2, chunks_mut_u8::<8, 2> as fn() -> Out),
    ("chunks_u8_8_3", C_CHUNKS_U8_8_3, chunks_u8::<8, 3> as fn() -> Out),
    ("chunks_mut_u8_8_3", C_CHUNKS_MUT_U8_8_3, chunks_mut_u8::<8, 3> as fn() -> Out),
    ("chunks_u8_8_4", C_CHUNKS_U8_8_4, chunks_u8::<8, 4> as fn() -> Out),
    ("chunks_mut_u8_8_4", C_CHUNKS_MUT_U8_8_4, chunks_mut_u8::<8, 4> as fn() -> Out),
    ("chunks_u8_8_5", C_CHUNKS_U8_8_5, chunks_u8::<8, 5> as fn() -> Out),
    ("chunks_mut_u8_8_5", C_CHUNKS_MUT_U8_8_5, chunks_mut_u8::<8, 5> as fn() -> Out),
    ("chunks_u8_8_6", C_CHUNKS_U8_8_6, chunks_u8::<8, 6> as fn() -> Out),
    ("chunks_mut_u8_8_6", C_CHUNKS_MUT_U8_8_6, chunks_mut_u8::<8, 6> as fn() -> Out),
    ("chunks_u8_8_7", C_CHUNKS_U8_8_7, chunks_u8::<8, 7> as fn() -> Out),
    ("chunks_mut_u8_8_7", C_CHUNKS_MUT_U8_8_7, chunks_mut_u8::<8, 7> as fn() -> Out),
    ("chunks_u8_8_8", C_CHUNKS_U8_8_8, chunks_u8::<8, 8> as fn() -> Out),
    ("chunks_mut_u8_8_8", C_CHUNKS_MUT_U8_8_8, chunks_mut_u8::<8, 8> as fn() -> Out),
    ("chunks_u8_8_9", C_CHUNKS_U8_8_9, chunks_u8::<8, 9> as fn() -> Out),
    ("chunks_mut_u8_8_9", C_CHUNKS_MUT_U8_8_9, chunks_mut_u8::<8, 9> as fn() -> Out),
    ("chunks_u8_8_10", C_CHUNKS_U8_8_10, chunks_u8::<8, 10> as fn() -> Out),
    ("chunks_mut_u8_8_10", C_CHUNKS_MUT_U8_8_10, chunks_mut_u8::<8, 10> as fn() -> Out),
    ("chunks_u8_8_11", C_CHUNKS_U8_8_11, chunks_u8::<8, 11> as fn() -> Out),
    ("chunks_mut_u8_8_11", C_CHUNKS_MUT_U8_8_11, chunks_mut_u8::<8, 11> as fn() -> Out),
    ("chunks_u8_8_12", C_CHUNKS_U8_8_12, chunks_u8::<8, 12> as fn() -> Out),
    ("chunks_mut_u8_8_12", C_CHUNKS_MUT_U8_8_12, chunks_mut_u8::<8, 12> as fn() -> Out),
    ("chunks_u8_8_13", C_CHUNKS_U8_8_13, chunks_u8::<8, 13> as fn() -> Out),
    ("chunks_mut_u8_8_13", C_CHUNKS_MUT_U8_8_13, chunks_mut_u8::<8, 13> as fn() -> Out),
    ("chunks_u8_8_14", C_CHUNKS_U8_8_14, chunks_u8::<8, 14> as fn() -> Out),
    ("chunks_mut_u8_8_14", C_CHUNKS_MUT_U8_8_14, chunks_mut_u8::<8, 14> as fn() -> Out),
    ("chunks_u8_8_15", C_CHUNKS_U8_8_15, chunks_u8::<8, 15> as fn() -> Out),
    ("chunks_mut_u8_8_15", C_CHUNKS_MUT_U8_8_15, chunks_mut_u8::<8, 15> as fn() -> Out),
    ("chunks_u8_8_16", C_CHUNKS_U8_8_16, chunks_u8::<8, 16> as fn() -> Out),
    ("chunks_mut_u8_8_16", C_CHUNKS_MUT_U8_8_16, chunks_mut_u8::<8, 16> as fn() -> Out),
    ("chunks_u8_8_17", C_CHUNKS_U8_8_17, chunks_u8::<8, 17> as fn() -> Out),
    ("chunks_mut_u8_8_17", C_CHUNKS_MUT_U8_8_17, chunks_mut_u8::<8, 17> as fn() -> Out),
    ("chunks_u8_8_18", C_CHUNKS_U8_8_18, chunks_u8::<8, 18> as fn() -> Out),
    ("chunks_mut_u8_8_18", C_CHUNKS_MUT_U8_8_18, chunks_mut_u8::<8, 18> as fn() -> Out),
    ("chunks_u8_8_19", C_CHUNKS_U8_8_19, chunks_u8::<8, 19> as fn() -> Out),
    ("chunks_mut_u8_8_19", C_CHUNKS_MUT_U8_8_19, chunks_mut_u8::<8, 19> as fn() -> Out),
    ("chunks_u8_8_20", C_CHUNKS_U8_8_20, chunks_u8::<8, 20> as fn() -> Out),
    ("chunks_mut_u8_8_20", C_CHUNKS_MUT_U8_8_20, chunks_mut_u8::<8, 20> as fn() -> Out),
    ("chunks_u8_8_21", C_CHUNKS_U8_8_21, chunks_u8::<8, 21> as fn() -> Out),
    ("chunks_mut_u8_8_21", C_CHUNKS_MUT_U8_8_21, chunks_mut_u8::<8, 21> as fn() -> Out),
    ("chunks_u8_8_22", C_CHUNKS_U8_8_22, chunks_u8::<8, 22> as fn() -> Out),
    ("chunks_mut_u8_8_22", C_CHUNKS_MUT_U8_8_22, chunks_mut_u8::<8, 22> as fn() -> Out),
    ("chunks_u8_8_23", C_CHUNKS_U8_8_23, chunks_u8::<8, 23> as fn() -> Out),
    ("chunks_mut_u8_8_23", C_CHUNKS_MUT_U8_8_23, chunks_mut_u8::<8, 23> as fn() -> Out),
    ("chunks_u8_8_24", C_CHUNKS_U8_8_24, chunks_u8::<8, 24> as fn() -> Out),
    ("chunks_mut_u8_8_24", C_CHUNKS_MUT_U8_8_24, chunks_mut_u8::<8, 24> as fn() -> Out),
    ("chunks_u8_8_25", C_CHUNKS_U8_8_25, chunks_u8::<8, 25> as fn() -> Out),
    ("chunks_mut_u8_8_25", C_CHUNKS_MUT_U8_8_25, chunks_mut_u8::<8, 25> as fn() -> Out),
    ("chunks_u8_8_26", C_CHUNKS_U8_8_26, chunks_u8::<8, 26> as fn() -> Out),
    ("chunks_mut_u8_8_26", C_CHUNKS_MUT_U8_8_26, chunks_mut_u8::<8, 26> as fn() -> Out),
    ("reinterpret_u8_8_0", C_REINTERPRET_U8_8_0, reinterpret_u8::<8, 0> as fn() -> Out),
    ("reinterpret_u8_8_1", C_REINTERPRET_U8_8_1, reinterpret_u8::<8, 1> as fn() -> Out),
    ("reinterpret_u8_8_7", C_REINTERPRET_U8_8_7, reinterpret_u8::<8, 7> as fn() -> Out),
    ("reinterpret_u8_8_8", C_REINTERPRET_U8_8_8, reinterpret_u8::<8, 8> as fn() -> Out),
    ("reinterpret_u8_8_9", C_REINTERPRET_U8_8_9, reinterpret_u8::<8, 9> as fn() -> Out),
    ("reinterpret_u8_8_16", C_REINTERPRET_U8_8_16, reinterpret_u8::<8, 16> as fn() -> Out),
    ("reinterpret_u8_8_26", C_REINTERPRET_U8_8_26, reinterpret_u8::<8, 26> as fn() -> Out),
    ("byvalue_u8_8", C_BYVALUE_U8_8, byvalue_u8::<8> as fn() -> Out),
    ("native_chunks_u8_8_0", C_NATIVE_CHUNKS_U8_8_0, native_chunks_u8::<8, 0> as fn() -> Out),
    ("native_chunks_u8_8_1", C_NATIVE_CHUNKS_U8_8_1, native_chunks_u8::<8, 1> as fn() -> Out),
    ("native_chunks_u8_8_2", C_NATIVE_CHUNKS_U8_8_2, native_chunks_u8::<8, 2> as fn() -> Out),
    ("native_chunks_u8_8_3", C_NATIVE_CHUNKS_U8_8_3, native_chunks_u8::<8, 3> as fn() -> Out),
    ("chunks_u8_16_0", C_CHUNKS_U8_16_0, chunks_u8::<16, 0> as fn() -> Out),
    ("chunks_mut_u8_16_0", C_CHUNKS_MUT_U8_16_0, chunks_mut_u8::<16, 0> as fn() -> Out),
    ("chunks_u8_16_1", C_CHUNKS_U8_16_1, chunks_u8::<16, 1> as fn() -> Out),
    ("chunks_mut_u8_16_1", C_CHUNKS_MUT_U8_16_1, chunks_mut_u8::<16, 1> as fn() -> Out),
    ("chunks_u8_16_2", C_CHUNKS_U8_16_2, chunks_u8::<16, 2> as fn() -> Out),
    ("chunks_mut_u8_16_2", C_CHUNKS_MUT_U8_16_2, chunks_mut_u8::<16, 2> as fn() -> Out),
    ("chunks_u8_16_3", C_CHUNKS_U8_16_3, chunks_u8::<16, 3> as fn() -> Out),
    ("chunks_mut_u8_16_3", C_CHUNKS_MUT_U8_16_3, chunks_mut_u8::<16, 3> as fn() -> Out),
    ("chunks_u8_16_4", C_CHUNKS_U8_16_4, chunks_u8::<16, 4> as fn() -> Out),
    ("chunks_mut_u8_16_4", C_CHUNKS_MUT_U8_16_4, chunks_mut_u8::<16, 4> as fn() -> Out),
    ("chunks_u8_16_5", C_CHUNKS_U8_16_5, chunks_u8::<16, 5> as fn() -> Out),
    ("chunks_mut_u8_16_5", C_CHUNKS_MUT_U8_16_5, chunks_mut_u8::<16, 5> as fn() -> Out),
    ("chunks_u8_16_6", C_CHUNKS_U8_16_6, chunks_u8::<16, 6> as fn() -> Out),
    ("chunks_mut_u8_16_6", C_CHUNKS_MUT_U8_16_6, chunks_mut_u8::<16, 6> as fn() -> Out),
    ("chunks_u8_16_7", C_CHUNKS_U8_16_7, chunks_u8::<16, 7> as fn() -> Out),
    ("chunks_mut_u8_16_7", C_CHUNKS_MUT_U8_16_7, chunks_mut_u8::<16, 7> as fn() -> Out),
    ("chunks_u8_16_8", C_CHUNKS_U8_16_8, chunks_u8::<16, 8> as fn() -> Out),
    ("chunks_mut_u8_16_8", C_CHUNKS_MUT_U8_16_8, chunks_mut_u8::<16, 8> as fn() -> Out),
    ("chunks_u8_16_9", C_CHUNKS_U8_16_9, chunks_u8::<16, 9> as fn() -> Out),
    ("chunks_mut_u8_16_9", C_CHUNKS_MUT_U8_16_9, chunks_mut_u8::<16, 9> as fn() -> Out),
    ("chunks_u8_16_10", C_CHUNKS_U8_16_10, chunks_u8::<16, 10> as fn() -> Out),
    ("chunks_mut_u8_16_10", C_CHUNKS_MUT_U8_16_10, chunks_mut_u8::<16, 10> as fn() -> Out),
    ("chunks_u8_16_11", C_CHUNKS_U8_16_11, chunks_u8::<16, 11> as fn() -> Out),
    ("chunks_mut_u8_16_11", C_CHUNKS_MUT_U8_16_11, chunks_mut_u8::<16, 11> as fn() -> Out),
    ("chunks_u8_16_12", C_CHUNKS_U8_16_12, chunks_u8::<16, 12> as fn() -> Out),
    ("chunks_mut_u8_16_12", C_CHUNKS_MUT_U8_16_12, chunks_mut_u8::<16, 12> as fn() -> Out),
    ("chunks_u8_16_13", C_CHUNKS_U8_16_13, chunks_u8::<16, 13> as fn() -> Out),
    ("chunks_mut_u8_16_13", C_CHUNKS_MUT_U8_16_13, chunks_mut_u8::<16, 13> as fn() -> Out),
    ("chunks_u8_16_14", C_CHUNKS_U8_16_14, chunks_u8::<16, 14> as fn() -> Out),
    ("chunks_mut_u8_16_14", C_CHUNKS_MUT_U8_16_14, chunks_mut_u8::<16, 14> as fn() -> Out),
    ("chunks_u8_16_15", C_CHUNKS_U8_16_15, chunks_u8::<16, 15> as fn() -> Out),
    ("chunks_mut_u8_16_15", C_CHUNKS_MUT_U8_16_15, chunks_mut_u8::<16, 15> as fn() -> Out),
    ("chunks_u8_16_16", C_CHUNKS_U8_16_16, chunks_u8::<16, 16> as fn() -> Out),
    ("chunks_mut_u8_16_16", C_CHUNKS_MUT_U8_16_16, chunks_mut_u8::<16, 16> as fn() -> Out),
    ("chunks_u8_16_17", C_CHUNKS_U8_16_17, chunks_u8::<16, 17> as fn() -> Out),
    ("chunks_mut_u8_16_17", C_CHUNKS_MUT_U8_16_17, chunks_mut_u8::<16, 17> as fn() -> Out),
    ("chunks_u8_16_18", C_CHUNKS_U8_16_18, chunks_u8::<16, 18> as fn() -> Out),
    ("chunks_mut_u8_16_18", C_CHUNKS_MUT_U8_16_18, chunks_mut_u8::<16, 18> as fn() -> Out),
    ("chunks_u8_16_19", C_CHUNKS_U8_16_19, chunks_u8::<16, 19> as fn() -> Out),
    ("chunks_mut_u8_16_19", C_CHUNKS_MUT_U8_16_19, chunks_mut_u8::<16, 19> as fn() -> Out),
    ("chunks_u8_16_20", C_CHUNKS_U8_16_20, chunks_u8::<16, 20> as fn() -> Out),
    ("chunks_mut_u8_16_20", C_CHUNKS_MUT_U8_16_20, chunks_mut_u8::<16, 20> as fn() -> Out),
    ("chunks_u8_16_21", C_CHUNKS_U8_16_21, chunks_u8::<16, 21> as fn() -> Out),
    ("chunks_mut_u8_16_21", C_CHUNKS_MUT_U8_16_21, chunks_mut_u8::<16, 21> as fn() -> Out),
    ("chunks_u8_16_22", C_CHUNKS_U8_16_22, chunks_u8::<16, 22> as fn() -> Out),
    ("chunks_mut_u8_16_22", C_CHUNKS_MUT_U8_16_22, chunks_mut_u8::<16, 22> as fn() -> Out),
    ("chunks_u8_16_23", C_CHUNKS_U8_16_23, chunks_u8::<16, 23> as fn() -> Out),
    ("chunks_mut_u8_16_23", C_CHUNKS_MUT_U8_16_23, chunks_mut_u8::<16, 23> as fn() -> Out),
    ("chunks_u8_16_24", C_CHUNKS_U8_16_24, chunks_u8::<16, 24> as fn() -> Out),
    ("chunks_mut_u8_16_24", C_CHUNKS_MUT_U8_16_24, chunks_mut_u8::<16, 24> as fn() -> Out),
    ("chunks_u8_16_25", C_CHUNKS_U8_16_25, chunks_u8::<16, 25> as fn() -> Out),
    ("chunks_mut_u8_16_25", C_CHUNKS_MUT_U8_16_25, chunks_mut_u8::<16, 25> as fn() -> Out),
    ("chunks_u8_16_26", C_CHUNKS_U8_16_26, chunks_u8::<16, 26> as fn() -> Out),
    ("chunks_mut_u8_16_26", C_CHUNKS_MUT_U8_16_26, chunks_mut_u8::<16, 26> as fn() -> Out),
    ("chunks_u8_16_27", C_CHUNKS_U8_16_27, chunks_u8::<16, 27> as fn() -> Out),
    ("chunks_mut_u8_16_27", C_CHUNKS_MUT_U8_16_27, chunks_mut_u8::<16, 27> as fn() -> Out),
    ("chunks_u8_16_28", C_CHUNKS_U8_16_28, chunks_u8::<16, 28> as fn() -> Out),
    ("chunks_mut_u8_16_28", C_CHUNKS_MUT_U8_16_28, chunks_mut_u8::<16, 28> as fn() -> Out),
    ("chunks_u8_16_29", C_CHUNKS_U8_16_29, chunks_u8::<16, 29> as fn() -> Out),
    ("chunks_mut_u8_16_29", C_CHUNKS_MUT_U8_16_29, chunks_mut_u8::<16, 29> as fn() -> Out),
    ("chunks_u8_16_30", C_CHUNKS_U8_16_30, chunks_u8::<16, 30> as fn() -> Out),
    ("chunks_mut_u8_16_30", C_CHUNKS_MUT_U8_16_30, chunks_mut_u8::<16, 30> as fn() -> Out),
    ("chunks_u8_16_31", C_CHUNKS_U8_16_31, chunks_u8::<16, 31> as fn() -> Out),
    ("chunks_mut_u8_16_31", C_CHUNKS_MUT_U8_16_31, chunks_mut_u8::<16, 31> as fn() -> Out),
    ("chunks_u8_16_32", C_CHUNKS_U8_16_32, chunks_u8::<16, 32> as fn() -> Out),
    ("chunks_mut_u8_16_32", C_CHUNKS_MUT_U8_16_32, chunks_mut_u8::<16, 32> as fn() -> Out),
    ("chunks_u8_16_33", C_CHUNKS_U8_16_33, chunks_u8::<16, 33> as fn() -> Out),
    ("chunks_mut_u8_16_33", C_CHUNKS_MUT_U8_16_33, chunks_mut_u8::<16, 33> as fn() -> Out),
    ("chunks_u8_16_34", C_CHUNKS_U8_16_34, chunks_u8::<16, 34> as fn() -> Out),
    ("chunks_mut_u8_16_34", C_CHUNKS_MUT_U8_16_34, chunks_mut_u8::<16, 34> as fn() -> Out),
    ("chunks_u8_16_35", C_CHUNKS_U8_16_35, chunks_u8::<16, 35> as fn() -> Out),
    ("chunks_mut_u8_16_35", C_CHUNKS_MUT_U8_16_35, chunks_mut_u8::<16, 35> as fn() -> Out),
    ("chunks_u8_16_36", C_CHUNKS_U8_16_36, chunks_u8::<16, 36> as fn() -> Out),
    ("chunks_mut_u8_16_36", C_CHUNKS_MUT_U8_16_36, chunks_mut_u8::<16, 36> as fn() -> Out),
    ("chunks_u8_16_37", C_CHUNKS_U8_16_37, chunks_u8::<16, 37> as fn() -> Out),
    ("chunks_mut_u8_16_37", C_CHUNKS_MUT_U8_16_37, chunks_mut_u8::<16, 37> as fn() -> Out),
    ("chunks_u8_16_38", C_CHUNKS_U8_16_38, chunks_u8::<16, 38> as fn() -> Out),
    ("chunks_mut_u8_16_38", C_CHUNKS_MUT_U8_16_38, chunks_mut_u8::<16, 38> as fn() -> Out),
    ("chunks_u8_16_39", C_CHUNKS_U8_16_39, chunks_u8::<16, 39> as fn() -> Out),
    ("chunks_mut_u8_16_39", C_CHUNKS_MUT_U8_16_39, chunks_mut_u8::<16, 39> as fn() -> Out),
    ("chunks_u8_16_40", C_CHUNKS_U8_16_40, chunks_u8::<16, 40> as fn() -> Out),
    ("chunks_mut_u8_16_40", C_CHUNKS_MUT_U8_16_40, chunks_mut_u8::<16, 40> as fn() -> Out),
    ("chunks_u8_16_41", C_CHUNKS_U8_16_41, chunks_u8::<16, 41> as fn() -> Out),
    ("chunks_mut_u8_16_41", C_CHUNKS_MUT_U8_16_41, chunks_mut_u8::<16, 41> as fn() -> Out),
    ("chunks_u8_16_42", C_CHUNKS_U8_16_42, chunks_u8::<16, 42> as fn() -> Out),
    ("chunks_mut_u8_16_42", C_CHUNKS_MUT_U8_16_42, chunks_mut_u8::<16, 42> as fn() -> Out),
    ("chunks_u8_16_43", C_CHUNKS_U8_16_43, chunks_u8::<16, 43> as fn() -> Out),
    ("chunks_mut_u8_16_43", C_CHUNKS_MUT_U8_16_43, chunks_mut_u8::<16, 43> as fn() -> Out),
    ("chunks_u8_16_44", C_CHUNKS_U8_16_44, chunks_u8::<16, 44> as fn() -> Out),
    ("chunks_mut_u8_16_44", C_CHUNKS_MUT_U8_16_44, chunks_mut_u8::<16, 44> as fn() -> Out),
    ("chunks_u8_16_45", C_CHUNKS_U8_16_45, chunks_u8::<16, 45> as fn() -> Out),
    ("chunks_mut_u8_16_45", C_CHUNKS_MUT_U8_16_45, chunks_mut_u8::<16, 45> as fn() -> Out),
    ("chunks_u8_16_46", C_CHUNKS_U8_16_46, chunks_u8::<16, 46> as fn() -> Out),
    ("chunks_mut_u8_16_46", C_CHUNKS_MUT_U8_16_46, chunks_mut_u8::<16, 46> as fn() -> Out),
    ("chunks_u8_16_47", C_CHUNKS_U8_16_47, chunks_u8::<16, 47> as fn() -> Out),
    ("chunks_mut_u8_16_47", C_CHUNKS_MUT_U8_16_47, chunks_mut_u8::<16, 47> as fn() -> Out),
    ("chunks_u8_16_48", C_CHUNKS_U8_16_48, chunks_u8::<16, 48> as fn() -> Out),
    ("chunks_mut_u8_16_48", C_CHUNKS_MUT_U8_16_48, chunks_mut_u8::<16, 48> as fn() -> Out),
    ("chunks_u8_16_49", C_CHUNKS_U8_16_49, chunks_u8::<16, 49> as fn() -> Out),
    ("chunks_mut_u8_16_49", C_CHUNKS_MUT_U8_16_49, chunks_mut_u8::<16, 49> as fn() -> Out),
    ("chunks_u8_16_50", C_CHUNKS_U8_16_50, chunks_u8::<16, 50> as fn() -> Out),
    ("chunks_mut_u8_16_50", C_CHUNKS_MUT_U8_16_50, chunks_mut_u8::<16, 50> as fn() -> Out),
    ("reinterpret_u8_16_0", C_REINTERPRET_U8_16_0, reinterpret_u8::<16, 0> as fn() -> Out),
    ("reinterpret_u8_16_1", C_REINTERPRET_U8_16_1, reinterpret_u8::<16, 1> as fn() -> Out),
    ("reinterpret_u8_16_15", C_REINTERPRET_U8_16_15, reinterpret_u8::<16, 15> as fn() -> Out),
    ("reinterpret_u8_16_16", C_REINTERPRET_U8_16_16, reinterpret_u8::<16, 16> as fn() -> Out),
    ("reinterpret_u8_16_17", C_REINTERPRET_U8_16_17, reinterpret_u8::<16, 17> as fn() -> Out),
    ("reinterpret_u8_16_32", C_REINTERPRET_U8_16_32, reinterpret_u8::<16, 32> as fn() -> Out),
    ("reinterpret_u8_16_50", C_REINTERPRET_U8_16_50, reinterpret_u8::<16, 50> as fn() -> Out),
    ("byvalue_u8_16", C_BYVALUE_U8_16, byvalue_u8::<16> as fn() -> Out),
    ("native_chunks_u8_16_0", C_NATIVE_CHUNKS_U8_16_0, native_chunks_u8::<16, 0> as fn() -> Out),
    ("native_chunks_u8_16_1", C_NATIVE_CHUNKS_U8_16_1, native_chunks_u8::<16, 1> as fn() -> Out),
    ("native_chunks_u8_16_2", C_NATIVE_CHUNKS_U8_16_2, native_chunks_u8::<16, 2> as fn() -> Out),
    ("native_chunks_u8_16_3", C_NATIVE_CHUNKS_U8_16_3, native_chunks_u8::<16, 3> as fn() -> Out),
    ("chunks_u8_17_0", C_CHUNKS_U8_17_0, chunks_u8::<17, 0> as fn() -> Out),
    ("chunks_mut_u8_17_0", C_CHUNKS_MUT_U8_17_0, chunks_mut_u8::<17, 0> as fn() -> Out),
    ("chunks_u8_17_1", C_CHUNKS_U8_17_1, chunks_u8::<17, 1> as fn() -> Out),
    ("chunks_mut_u8_17_1", C_CHUNKS_MUT_U8_17_1, chunks_mut_u8::<17, 1> as fn() -> Out),
    ("chunks_u8_17_2", C_CHUNKS_U8_17_2, chunks_u8::<17, 2> as fn() -> Out),
    ("chunks_mut_u8_17_2", C_CHUNKS_MUT_U8_17_2, chunks_mut_u8::<17, 2> as fn() -> Out),
    ("chunks_u8_17_3", C_CHUNKS_U8_17_3, chunks_u8::<17, 3> as fn() -> Out),
    ("chunks_mut_u8_17_3", C_CHUNKS_MUT_U8_17_3, chunks_mut_u8::<17, 3> as fn() -> Out),
    ("chunks_u8_17_4", C_CHUNKS_U8_17_4, chunks_u8::<17, 4> as fn() -> Out),
    ("chunks_mut_u8_17_4", C_CHUNKS_MUT_U8_17_4, chunks_mut_u8::<17, 4> as fn() -> Out),
    ("chunks_u8_17_5", C_CHUNKS_U8_17_5, chunks_u8::<17, 5> as fn() -> Out),
    ("chunks_mut_u8_17_5", C_CHUNKS_MUT_U8_17_5, chunks_mut_u8::<17, 5> as fn() -> Out),
    ("chunks_u8_17_6", C_CHUNKS_U8_17_6, chunks_u8::<17, 6> as fn() -> Out),
    ("chunks_mut_u8_17_6", C_CHUNKS_MUT_U8_17_6, chunks_mut_u8::<17, 6> as fn() -> Out),
    ("chunks_u8_17_7", C_CHUNKS_U8_17_7, chunks_u8::<17, 7> as fn() -> Out),
    ("chunks_mut_u8_17_7", C_CHUNKS_MUT_U8_17_7, chunks_mut_u8::<17, 7> as fn() -> Out),
    ("chunks_u8_17_8", C_CHUNKS_U8_17_8, chunks_u8::<17, 8> as fn() -> Out),
    ("chunks_mut_u8_17_8", C_CHUNKS_MUT_U8_17_8, chunks_mut_u8::<17, 8> as fn() -> Out),
    ("chunks_u8_17_9", C_CHUNKS_U8_17_9, chunks_u8::<17, 9> as fn() -> Out),
    ("chunks_mut_u8_17_9", C_CHUNKS_MUT_U8_17_9, chunks_mut_u8::<17, 9> as fn() -> Out),
    ("chunks_u8_17_10", C_CHUNKS_U8_17_10, chunks_u8::<17, 10> as fn() -> Out),
    ("chunks_mut_u8_17_10", C_CHUNKS_MUT_U8_17_10, chunks_mut_u8::<17, 10> as fn() -> Out),
    ("chunks_u8_17_11", C_CHUNKS_U8_17_11, chunks_u8::<17, 11> as fn() -> Out),
    ("chunks_mut_u8_17_11", C_CHUNKS_MUT_U8_17_11, chunks_mut_u8::<17, 11> as fn() -> Out),
    ("chunks_u8_17_12", C_CHUNKS_U8_17_12, chunks_u8::<17, 12> as fn() -> Out),
    ("chunks_mut_u8_17_12", C_CHUNKS_MUT_U8_17_12, chunks_mut_u8::<17, 12> as fn() -> Out),
    ("chunks_u8_17_13", C_CHUNKS_U8_17_13, chunks_u8::<17, 13> as fn() -> Out),
    ("chunks_mut_u8_17_13", C_CHUNKS_MUT_U8_17_13, chunks_mut_u8::<17, 13> as fn() -> Out),
    ("chunks_u8_17_14", C_CHUNKS_U8_17_14, chunks_u8::<17, 14> as fn() -> Out),
    ("chunks_mut_u8_17_14", C_CHUNKS_MUT_U8_17_14, chunks_mut_u8::<17, 14> as fn() -> Out),
    ("chunks_u8_17_15", C_CHUNKS_U8_17_15, chunks_u8::<17, 15> as fn() -> Out),
    ("chunks_mut_u8_17_15", C_CHUNKS_MUT_U8_17_15, chunks_mut_u8::<17, 15> as fn() -> Out),
    ("chunks_u8_17_16", C_CHUNKS_U8_17_16, chunks_u8::<17, 16> as fn() -> Out),
    ("chunks_mut_u8_17_16", C_CHUNKS_MUT_U8_17_16, chunks_mut_u8::<17, 16> as fn() -> Out),
    ("chunks_u8_17_17", C_CHUNKS_U8_17_17, chunks_u8::<17, 17> as fn() -> Out),
    ("chunks_mut_u8_17_17", C_CHUNKS_MUT_U8_17_17, chunks_mut_u8::<17, 17> as fn() -> Out),
    ("chunks_u8_17_18", C_CHUNKS_U8_17_18, chunks_u8::<17, 18> as fn() -> Out),
    ("chunks_mut_u8_17_18", C_CHUNKS_MUT_U8_17_18, chunks_mut_u8::<17, 18> as fn() -> Out),
    ("chunks_u8_17_19", C_CHUNKS_U8_17_19, chunks_u8::<17, 19> as fn() -> Out),
    ("chunks_mut_u8_17_19", C_CHUNKS_MUT_U8_17_19, chunks_mut_u8::<17, 19> as fn() -> Out),
    ("chunks_u8_17_20", C_CHUNKS_U8_17_20, chunks_u8::<17, 20> as fn() -> Out),
    ("chunks_mut_u8_17_20", C_CHUNKS_MUT_U8_17_20, chunks_mut_u8::<17, 20> as fn() -> Out),
    ("chunks_u8_17_21", C_CHUNKS_U8_17_21, chunks_u8::<17, 21> as fn() -> Out),
    ("chunks_mut_u8_17_21", C_CHUNKS_MUT_U8_17_21, chunks_mut_u8::<17, 21> as fn() -> Out),
    ("chunks_u8_17_22", C_CHUNKS_U8_17_22, chunks_u8::<17, 22> as fn() -> Out),
    ("chunks_mut_u8_17_22", C_CHUNKS_MUT_U8_17_22, chunks_mut_u8::<17, 22> as fn() -> Out),
    ("chunks_u8_17_23", C_CHUNKS_U8_17_23, chunks_u8::<17, 23> as fn() -> Out),
    ("chunks_mut_u8_17_23", C_CHUNKS_MUT_U8_17_23, chunks_mut_u8::<17, 23> as fn() -> Out),
    ("chunks_u8_17_24", C_CHUNKS_U8_17_24, chunks_u8::<17, 24> as fn() -> Out),
    ("chunks_mut_u8_17_24", C_CHUNKS_MUT_U8_17_24, chunks_mut_u8::<17, 24> as fn() -> Out),
    ("chunks_u8_17_25", C_CHUNKS_U8_17_25, chunks_u8::<17, 25> as fn() -> Out),
    ("chunks_mut_u8_17_25", C_CHUNKS_MUT_U8_17_25, chunks_mut_u8::<17, 25> as fn() -> Out),
    ("chunks_u8_17_26", C_CHUNKS_U8_17_26, chunks_u8::<17, 26> as fn() -> Out),
    ("chunks_mut_u8_17_26", C_CHUNKS_MUT_U8_17_26, chunks_mut_u8::<17, 26> as fn() -> Out),
    ("chunks_u8_17_27", C_CHUNKS_U8_17_27, chunks_u8::<17, 27> as fn() -> Out),
    ("chunks_mut_u8_17_27", C_CHUNKS_MUT_U8_17_27, chunks_mut_u8::<17, 27> as fn() -> Out),
    ("chunks_u8_17_28", C_CHUNKS_U8_17_28, chunks_u8::<17, 28> as fn() -> Out),
    ("chunks_mut_u8_17_28", C_CHUNKS_MUT_U8_17_28, chunks_mut_u8::<17, 28> as fn() -> Out),
    ("chunks_u8_17_29", C_CHUNKS_U8_17_29, chunks_u8::<17, 29> as fn() -> Out),
    ("chunks_mut_u8_17_29", C_CHUNKS_MUT_U8_17_29, chunks_mut_u8::<17, 29> as fn() -> Out),
    ("chunks_u8_17_30", C_CHUNKS_U8_17_30, chunks_u8::<17, 30> as fn() -> Out),
    ("chunks_mut_u8_17_30", C_CHUNKS_MUT_U8_17_30, chunks_mut_u8::<17, 30> as fn() -> Out),
    ("chunks_u8_17_31", C_CHUNKS_U8_17_31, chunks_u8::<17, 31> as fn() -> Out),
    ("chunks_mut_u8_17_31", C_CHUNKS_MUT_U8_17_31, chunks_mut_u8::<17, 31> as fn() -> Out),
    ("chunks_u8_17_32", C_CHUNKS_U8_17_32, chunks_u8::<17, 32> as fn() -> Out),
    ("chunks_mut_u8_17_32", C_CHUNKS_MUT_U8_17_32, chunks_mut_u8::<17, 32> as fn() -> Out),
    ("chunks_u8_17_33", C_CHUNKS_U8_17_33, chunks_u8::<17, 33> as fn() -> Out),
    ("chunks_mut_u8_17_33", C_CHUNKS_MUT_U8_17_33, chunks_mut_u8::<17, 33> as fn() -> Out),
    ("chunks_u8_17_34", C_CHUNKS_U8_17_34, chunks_u8::<17, 34> as fn() -> Out),
    ("chunks_mut_u8_17_34", C_CHUNKS_MUT_U8_17_34, chunks_mut_u8::<17, 34> as fn() -> Out),
    ("chunks_u8_17_35", C_CHUNKS_U8_17_35, chunks_u8::<17, 35> as fn() -> Out),
    ("chunks_mut_u8_17_35", C_CHUNKS_MUT_U8_17_35, chunks_mut_u8::<17, 35> as fn() -> Out),
    ("chunks_u8_17_36", C_CHUNKS_U8_17_36, chunks_u8::<17, 36> as fn() -> Out),
    ("chunks_mut_u8_17_36", C_CHUNKS_MUT_U8_17_36, chunks_mut_u8::<17, 36> as fn() -> Out),
    ("chunks_u8_17_37", C_CHUNKS_U8_17_37, chunks_u8::<17, 37> as fn() -> Out),
    ("chunks_mut_u8_17_37", C_CHUNKS_MUT_U8_17_37, chunks_mut_u8::<17, 37> as fn() -> Out),
    ("chunks_u8_17_38", C_CHUNKS_U8_17_38, chunks_u8::<17, 38> as fn() -> Out),
    ("chunks_mut_u8_17_38", C_CHUNKS_MUT_U8_17_38, chunks_mut_u8::<17, 38> as fn() -> Out),
    ("chunks_u8_17_39", C_CHUNKS_U8_17_39, chunks_u8::<17, 39> as fn() -> Out),
    ("chunks_mut_u8_17_39", C_CHUNKS_MUT_U8_17_39, chunks_mut_u8::<17, 39> as fn() -> Out),
    ("chunks_u8_17_40", C_CHUNKS_U8_17_40, chunks_u8::<17, 40> as fn() -> Out),
    ("chunks_mut_u8_17_40", C_CHUNKS_MUT_U8_17_40, chunks_mut_u8::<17, 40> as fn() -> Out),
    ("chunks_u8_17_41", C_CHUNKS_U8_17_41, chunks_u8::<17, 41> as fn() -> Out),
    ("chunks_mut_u8_17_41", C_CHUNKS_MUT_U8_17_41, chunks_mut_u8::<17, 41> as fn() -> Out),
    ("chunks_u8_17_42", C_CHUNKS_U8_17_42, chunks_u8::<17, 42> as fn() -> Out),
    ("chunks_mut_u8_17_42", C_CHUNKS_MUT_U8_17_42, chunks_mut_u8::<17, 42> as fn() -> Out),
    ("chunks_u8_17_43", C_CHUNKS_U8_17_43, chunks_u8::<17, 43> as fn() -> Out),
    ("chunks_mut_u8_17_43", C_CHUNKS_MUT_U8_17_43, chunks_mut_u8::<17, 43> as fn() -> Out),
    ("chunks_u8_17_44", C_CHUNKS_U8_17_44, chunks_u8::<17, 44> as fn() -> Out),
    ("chunks_mut_u8_17_44", C_CHUNKS_MUT_U8_17_44, chunks_mut_u8::<17, 44> as fn() -> Out),
    ("chunks_u8_17_45", C_CHUNKS_U8_17_45, chunks_u8::<17, 45> as fn() -> Out),
    ("chunks_mut_u8_17_45", C_CHUNKS_MUT_U8_17_45, chunks_mut_u8::<17, 45> as fn() -> Out),
    ("chunks_u8_17_46", C_CHUNKS_U8_17_46, chunks_u8::<17, 46> as fn() -> Out),
    ("chunks_mut_u8_17_46", C_CHUNKS_MUT_U8_17_46, chunks_mut_u8::<17, 46> as fn() -> Out),
    ("chunks_u8_17_47", C_CHUNKS_U8_17_47, chunks_u8::<17, 47> as fn() -> Out),
    ("chunks_mut_u8_17_47", C_CHUNKS_MUT_U8_17_47, chunks_mut_u8::<17, 47> as fn() -> Out),
    ("chunks_u8_17_48", C_CHUNKS_U8_17_48, chunks_u8::<17, 48> as fn() -> Out),
    ("chunks_mut_u8_17_48", C_CHUNKS_MUT_U8_17_48, chunks_mut_u8::<17, 48> as fn() -> Out),
    ("chunks_u8_17_49", C_CHUNKS_U8_17_49, chunks_u8::<17, 49> as fn() -> Out),
    ("chunks_mut_u8_17_49", C_CHUNKS_MUT_U8_17_49, chunks_mut_u8::<17, 49> as fn() -> Out),
    ("chunks_u8_17_50", C_CHUNKS_U8_17_50, chunks_u8::<17, 50> as fn() -> Out),
    ("chunks_mut_u8_17_50", C_CHUNKS_MUT_U8_17_50, chunks_mut_u8::<17, 50> as fn() -> Out),
    ("chunks_u8_17_51", C_CHUNKS_U8_17_51, chunks_u8::<17, 51> as fn() -> Out),
    ("chunks_mut_u8_17_51", C_CHUNKS_MUT_U8_17_51, chunks_mut_u8::<17, 51> as fn() -> Out),
    ("chunks_u8_17_52", C_CHUNKS_U8_17_52, chunks_u8::<17, 52> as fn() -> Out),
    ("chunks_mut_u8_17_52", C_CHUNKS_MUT_U8_17_52, chunks_mut_u8::<17, 52> as fn() -> Out),
    ("chunks_u8_17_53", C_CHUNKS_U8_17_53, chunks_u8::<17, 53> as fn() -> Out),
    ("chunks_mut_u8_17_53", C_CHUNKS_MUT_U8_17_53, chunks_mut_u8::<17, 53> as fn() -> Out),
    ("reinterpret_u8_17_0", C_REINTERPRET_U8_17_0, reinterpret_u8::<17, 0> as fn() -> Out),
    ("reinterpret_u8_17_1", C_REINTERPRET_U8_17_1, reinterpret_u8::<17, 1> as fn() -> Out),
    ("reinterpret_u8_17_16", C_REINTERPRET_U8_17_16, reinterpret_u8::<17, 16> as fn() -> Out),
    ("reinterpret_u8_17_17", C_REINTERPRET_U8_17_17, reinterpret_u8::<17, 17> as fn() -> Out),
    ("reinterpret_u8_17_18", C_REINTERPRET_U8_17_18, reinterpret_u8::<17, 18> as fn() -> Out),
    ("reinterpret_u8_17_34", C_REINTERPRET_U8_17_34, reinterpret_u8::<17, 34> as fn() -> Out),
    ("reinterpret_u8_17_53", C_REINTERPRET_U8_17_53, reinterpret_u8::<17, 53> as fn() -> Out),
    ("byvalue_u8_17", C_BYVALUE_U8_17, byvalue_u8::<17> as fn() -> Out),
    ("native_chunks_u8_17_0", C_NATIVE_CHUNKS_U8_17_0, native_chunks_u8::<17, 0> as fn() -> Out),
    ("native_chunks_u8_17_1", C_NATIVE_CHUNKS_U8_17_1, native_chunks_u8::<17, 1> as fn() -> Out),
    ("native_chunks_u8_17_2", C_NATIVE_CHUNKS_U8_17_2, native_chunks_u8::<17, 2> as fn() -> Out),
    ("native_chunks_u8_17_3", C_NATIVE_CHUNKS_U8_17_3, native_chunks_u8::<17, 3> as fn() -> Out),
    ("chunks_u8_33_0", C_CHUNKS_U8_33_0, chunks_u8::<33, 0> as fn() -> Out),
    ("chunks_mut_u8_33_0", C_CHUNKS_MUT_U8_33_0, chunks_mut_u8::<33, 0> as fn() -> Out),
    ("chunks_u8_33_1", C_CHUNKS_U8_33_1, chunks_u8::<33, 1> as fn() -> Out),
    ("chunks_mut_u8_33_1", C_CHUNKS_MUT_U8_33_1, chunks_mut_u8::<33, 1> as fn() -> Out),
    ("chunks_u8_33_32", C_CHUNKS_U8_33_32, chunks_u8::<33, 32> as fn() -> Out),
    ("chunks_mut_u8_33_32", C_CHUNKS_MUT_U8_33_32, chunks_mut_u8::<33, 32> as fn() -> Out),
    ("chunks_u8_33_33", C_CHUNKS_U8_33_33, chunks_u8::<33, 33> as fn() -> Out),
    ("chunks_mut_u8_33_33", C_CHUNKS_MUT_U8_33_33, chunks_mut_u8::<33, 33> as fn() -> Out),
    ("chunks_u8_33_34", C_CHUNKS_U8_33_34, chunks_u8::<33, 34> as fn() -> Out),
    ("chunks_mut_u8_33_34", C_CHUNKS_MUT_U8_33_34, chunks_mut_u8::<33, 34> as fn() -> Out),
    ("chunks_u8_33_65", C_CHUNKS_U8_33_65, chunks_u8::<33, 65> as fn() -> Out),
    ("chunks_mut_u8_33_65", C_CHUNKS_MUT_U8_33_65, chunks_mut_u8::<33, 65> as fn() -> Out),
    ("chunks_u8_33_66", C_CHUNKS_U8_33_66, chunks_u8::<33, 66> as fn() -> Out),
    ("chunks_mut_u8_33_66", C_CHUNKS_MUT_U8_33_66, chunks_mut_u8::<33, 66> as fn() -> Out),
    ("chunks_u8_33_67", C_CHUNKS_U8_33_67, chunks_u8::<33, 67> as fn() -> Out),
    ("chunks_mut_u8_33_67", C_CHUNKS_MUT_U8_33_67, chunks_mut_u8::<33, 67> as fn() -> Out),
    ("chunks_u8_33_98", C_CHUNKS_U8_33_98, chunks_u8::<33, 98> as fn() -> Out),
    ("chunks_mut_u8_33_98", C_CHUNKS_MUT_U8_33_98, chunks_mut_u8::<33, 98> as fn() -> Out),
    ("chunks_u8_33_99", C_CHUNKS_U8_33_99, chunks_u8::<33, 99> as fn() -> Out),
    ("chunks_mut_u8_33_99", C_CHUNKS_MUT_U8_33_99, chunks_mut_u8::<33, 99> as fn() -> Out),
    ("chunks_u8_33_100", C_CHUNKS_U8_33_100, chunks_u8::<33, 100> as fn() -> Out),
    ("chunks_mut_u8_33_100", C_CHUNKS_MUT_U8_33_100, chunks_mut_u8::<33, 100> as fn() -> Out),
    ("chunks_u8_33_101", C_CHUNKS_U8_33_101, chunks_u8::<33, 101> as fn() -> Out),
    ("chunks_mut_u8_33_101", C_CHUNKS_MUT_U8_33_101, chunks_mut_u8::<33, 101> as fn() -> Out),
    ("reinterpret_u8_33_0", C_REINTERPRET_U8_33_0, reinterpret_u8::<33, 0> as fn() -> Out),
    ("reinterpret_u8_33_1", C_REINTERPRET_U8_33_1, reinterpret_u8::<33, 1> as fn() -> Out),
    ("reinterpret_u8_33_32", C_REINTERPRET_U8_33_32, reinterpret_u8::<33, 32> as fn() -> Out),
    ("reinterpret_u8_33_33", C_REINTERPRET_U8_33_33, reinterpret_u8::<33, 33> as fn() -> Out),
    ("reinterpret_u8_33_34", C_REINTERPRET_U8_33_34, reinterpret_u8::<33, 34> as fn() -> Out),
    ("reinterpret_u8_33_66", C_REINTERPRET_U8_33_66, reinterpret_u8::<33, 66> as fn() -> Out),
    ("reinterpret_u8_33_101", C_REINTERPRET_U8_33_101, reinterpret_u8::<33, 101> as fn() -> Out),
    ("byvalue_u8_33", C_BYVALUE_U8_33, byvalue_u8::<33> as fn() -> Out),
    ("native_chunks_u8_33_0", C_NATIVE_CHUNKS_U8_33_0, native_chunks_u8::<33, 0> as fn() -> Out),
    ("native_chunks_u8_33_1", C_NATIVE_CHUNKS_U8_33_1, native_chunks_u8::<33, 1> as fn() -> Out),
    ("native_chunks_u8_33_2", C_NATIVE_CHUNKS_U8_33_2, native_chunks_u8::<33, 2> as fn() -> Out),
    ("native_chunks_u8_33_3", C_NATIVE_CHUNKS_U8_33_3, native_chunks_u8::<33, 3> as fn() -> Out),
    ("chunks_u8_64_0", C_CHUNKS_U8_64_0, chunks_u8::<64, 0> as fn() -> Out),
    ("chunks_mut_u8_64_0", C_CHUNKS_MUT_U8_64_0, chunks_mut_u8::<64, 0> as fn() -> Out),
    ("chunks_u8_64_1", C_CHUNKS_U8_64_1, chunks_u8::<64, 1> as fn() -> Out),
    ("chunks_mut_u8_64_1", C_CHUNKS_MUT_U8_64_1, chunks_mut_u8::<64, 1> as fn() -> Out),
    ("chunks_u8_64_63", C_CHUNKS_U8_64_63, chunks_u8::<64, 63> as fn() -> Out),
    ("chunks_mut_u8_64_63", C_CHUNKS_MUT_U8_64_63, chunks_mut_u8::<64, 63> as fn() -> Out),
    ("chunks_u8_64_64", C_CHUNKS_U8_64_64, chunks_u8::<64, 64> as fn() -> Out),
    ("chunks_mut_u8_64_64", C_CHUNKS_MUT_U8_64_64, chunks_mut_u8::<64, 64> as fn() -> Out),
    ("chunks_u8_64_65", C_CHUNKS_U8_64_65, chunks_u8::<64, 65> as fn() -> Out),
    ("chunks_mut_u8_64_65", C_CHUNKS_MUT_U8_64_65, chunks_mut_u8::<64, 65> as fn() -> Out),
    ("chunks_u8_64_127", C_CHUNKS_U8_64_127, chunks_u8::<64, 127> as fn() -> Out),
    ("chunks_mut_u8_64_127", C_CHUNKS_MUT_U8_64_127, chunks_mut_u8::<64, 127> as fn() -> Out),
    ("chunks_u8_64_128", C_CHUNKS_U8_64_128, chunks_u8::<64, 128> as fn() -> Out),
    ("chunks_mut_u8_64_128", C_CHUNKS_MUT_U8_64_128, chunks_mut_u8::<64, 128> as fn() -> Out),
    ("chunks_u8_64_129", C_CHUNKS_U8_64_129, chunks_u8::<64, 129> as fn() -> Out),
    ("chunks_mut_u8_64_129", C_CHUNKS_MUT_U8_64_129, chunks_mut_u8::<64, 129> as fn() -> Out),
    ("chunks_u8_64_191", C_CHUNKS_U8_64_191, chunks_u8::<64, 191> as fn() -> Out),
    ("chunks_mut_u8_64_191", C_CHUNKS_MUT_U8_64_191, chunks_mut_u8::<64, 191> as fn() -> Out),
    ("chunks_u8_64_192", C_CHUNKS_U8_64_192, chunks_u8::<64, 192> as fn() -> Out),
    ("chunks_mut_u8_64_192", C_CHUNKS_MUT_U8_64_192, chunks_mut_u8::<64, 192> as fn() -> Out),
    ("chunks_u8_64_193", C_CHUNKS_U8_64_193, chunks_u8::<64, 193> as fn() -> Out),
    ("chunks_mut_u8_64_193", C_CHUNKS_MUT_U8_64_193, chunks_mut_u8::<64, 193> as fn() -> Out),
    ("chunks_u8_64_194", C_CHUNKS_U8_64_194, chunks_u8::<64, 194> as fn() -> Out),
    ("chunks_mut_u8_64_194", C_CHUNKS_MUT_U8_64_194, chunks_mut_u8::<64, 194> as fn() -> Out),
    ("reinterpret_u8_64_0", C_REINTERPRET_U8_64_0, reinterpret_u8::<64, 0> as fn() -> Out),
    ("reinterpret_u8_64_1", C_REINTERPRET_U8_64_1, reinterpret_u8::<64, 1> as fn() -> Out),
    ("reinterpret_u8_64_63", C_REINTERPRET_U8_64_63, reinterpret_u8::<64, 63> as fn() -> Out),
    ("reinterpret_u8_64_64", C_REINTERPRET_U8_64_64, reinterpret_u8::<64, 64> as fn() -> Out),
    ("reinterpret_u8_64_65", C_REINTERPRET_U8_64_65, reinterpret_u8::<64, 65> as fn() -> Out),
    ("reinterpret_u8_64_128", C_REINTERPRET_U8_64_128, reinterpret_u8::<64, 128> as fn() -> Out),
    ("reinterpret_u8_64_194", C_REINTERPRET_U8_64_194, reinterpret_u8::<64, 194> as fn() -> Out),
    ("byvalue_u8_64", C_BYVALUE_U8_64, byvalue_u8::<64> as fn() -> Out),
    ("native_chunks_u8_64_0", C_NATIVE_CHUNKS_U8_64_0, native_chunks_u8::<64, 0> as fn() -> Out),
    ("native_chunks_u8_64_1", C_NATIVE_CHUNKS_U8_64_1, native_chunks_u8::<64, 1> as fn() -> Out),
    ("native_chunks_u8_64_2", C_NATIVE_CHUNKS_U8_64_2, native_chunks_u8::<64, 2> as fn() -> Out),
    ("native_chunks_u8_64_3", C_NATIVE_CHUNKS_U8_64_3, native_chunks_u8::<64, 3> as fn() -> Out),
    ("chunks_u8_100_0", C_CHUNKS_U8_100_0, chunks_u8::<100, 0> as fn() -> Out),
    ("chunks_mut_u8_100_0", C_CHUNKS_MUT_U8_100_0, chunks_mut_u8::<100, 0> as fn() -> Out),
    ("chunks_u8_100_1", C_CHUNKS_U8_100_1, chunks_u8::<100, 1> as fn() -> Out),
    ("chunks_mut_u8_100_1", C_CHUNKS_MUT_U8_100_1, chunks_mut_u8::<100, 1> as fn() -> Out),
    ("chunks_u8_100_99", C_CHUNKS_U8_100_99, chunks_u8::<100, 99> as fn() -> Out),
    ("chunks_mut_u8_100_99", C_CHUNKS_MUT_U8_100_99, chunks_mut_u8::<100, 99> as fn() -> Out),
    ("chunks_u8_100_100", C_CHUNKS_U8_100_100, chunks_u8::<100, 100> as fn() -> Out),
    ("chunks_mut_u8_100_100", C_CHUNKS_MUT_U8_100_100, chunks_mut_u8::<100, 100> as fn() -> Out),
    ("chunks_u8_100_101", C_CHUNKS_U8_100_101, chunks_u8::<100, 101> as fn() -> Out),
    ("chunks_mut_u8_100_101", C_CHUNKS_MUT_U8_100_101, chunks_mut_u8::<100, 101> as fn() -> Out),
    ("chunks_u8_100_199", C_CHUNKS_U8_100_199, chunks_u8::<100, 199> as fn() -> Out),
    ("chunks_mut_u8_100_199", C_CHUNKS_MUT_U8_100_199, chunks_mut_u8::<100, 199> as fn() -> Out),
    ("chunks_u8_100_200", C_CHUNKS_U8_100_200, chunks_u8::<100, 200> as fn() -> Out),
    ("chunks_mut_u8_100_200", C_CHUNKS_MUT_U8_100_200, chunks_mut_u8::<100, 200> as fn() -> Out),
    ("chunks_u8_100_201", C_CHUNKS_U8_100_201, chunks_u8::<100, 201> as fn() -> Out),
    ("chunks_mut_u8_100_201", C_CHUNKS_MUT_U8_100_201, chunks_mut_u8::<100, 201> as fn() -> Out),
    ("chunks_u8_100_302", C_CHUNKS_U8_100_302, chunks_u8::<100, 302> as fn() -> Out),
    ("chunks_mut_u8_100_302", C_CHUNKS_MUT_U8_100_302, chunks_mut_u8::<100, 302> as fn() -> Out),
    ("reinterpret_u8_100_0", C_REINTERPRET_U8_100_0, reinterpret_u8::<100, 0> as fn() -> Out),
    ("reinterpret_u8_100_1", C_REINTERPRET_U8_100_1, reinterpret_u8::<100, 1> as fn() -> Out),
    ("reinterpret_u8_100_99", C_REINTERPRET_U8_100_99, reinterpret_u8::<100, 99> as fn() -> Out),
    ("reinterpret_u8_100_100", C_REINTERPRET_U8_100_100, reinterpret_u8::<100, 100> as fn() -> Out),
    ("reinterpret_u8_100_101", C_REINTERPRET_U8_100_101, reinterpret_u8::<100, 101> as fn() -> Out),
    ("reinterpret_u8_100_200", C_REINTERPRET_U8_100_200, reinterpret_u8::<100, 200> as fn() -> Out),
    ("reinterpret_u8_100_302", C_REINTERPRET_U8_100_302, reinterpret_u8::<100, 302> as fn() -> Out),
    ("byvalue_u8_100", C_BYVALUE_U8_100, byvalue_u8::<100> as fn() -> Out),
    ("native_chunks_u8_100_0", C_NATIVE_CHUNKS_U8_100_0, native_chunks_u8::<100, 0> as fn() -> Out),
    ("native_chunks_u8_100_1", C_NATIVE_CHUNKS_U8_100_1, native_chunks_u8::<100, 1> as fn() -> Out),
    ("native_chunks_u8_100_2", C_NATIVE_CHUNKS_U8_100_2, native_chunks_u8::<100, 2> as fn() -> Out),
    ("native_chunks_u8_100_3", C_NATIVE_CHUNKS_U8_100_3, native_chunks_u8::<100, 3> as fn() -> Out),
    ("chunks_u8_1024_0", C_CHUNKS_U8_1024_0, chunks_u8::<1024, 0> as fn() -> Out),
    ("chunks_mut_u8_1024_0", C_CHUNKS_MUT_U8_1024_0, chunks_mut_u8::<1024, 0> as fn() -> Out),
    ("chunks_u8_1024_1", C_CHUNKS_U8_1024_1, chunks_u8::<1024, 1> as fn() -> Out),
    ("chunks_mut_u8_1024_1", C_CHUNKS_MUT_U8_1024_1, chunks_mut_u8::<1024, 1> as fn() -> Out),
    ("chunks_u8_1024_1023", C_CHUNKS_U8_1024_1023, chunks_u8::<1024, 1023> as fn() -> Out),
    ("chunks_mut_u8_1024_1023", C_CHUNKS_MUT_U8_1024_1023, chunks_mut_u8::<1024, 1023> as fn() -> Out),
    ("chunks_u8_1024_1024", C_CHUNKS_U8_1024_1024, chunks_u8::<1024, 1024> as fn() -> Out),
    ("chunks_mut_u8_1024_1024", C_CHUNKS_MUT_U8_1024_1024, chunks_mut_u8::<1024, 1024> as fn() -> Out),
    ("chunks_u8_1024_1025", C_CHUNKS_U8_1024_1025, chunks_u8::<1024, 1025> as fn() -> Out),
    ("chunks_mut_u8_1024_1025", C_CHUNKS_MUT_U8_1024_1025, chunks_mut_u8::<1024, 1025> as fn() -> Out),
    ("chunks_u8_1024_2047", C_CHUNKS_U8_1024_2047, chunks_u8::<1024, 2047> as fn() -> Out),
    ("chunks_mut_u8_1024_2047", C_CHUNKS_MUT_U8_1024_2047, chunks_mut_u8::<1024, 2047> as fn() -> Out),
    ("chunks_u8_1024_2048", C_CHUNKS_U8_1024_2048, chunks_u8::<1024, 2048> as fn() -> Out),
    ("chunks_mut_u8_1024_2048", C_CHUNKS_MUT_U8_1024_2048, chunks_mut_u8::<1024, 2048> as fn() -> Out),
    ("chunks_u8_1024_2049", C_CHUNKS_U8_1024_2049, chunks_u8::<1024, 2049> as fn() -> Out),
    ("chunks_mut_u8_1024_2049", C_CHUNKS_MUT_U8_1024_2049, chunks_mut_u8::<1024, 2049> as fn() -> Out),
    ("chunks_u8_1024_3074", C_CHUNKS_U8_1024_3074, chunks_u8::<1024, 3074> as fn() -> Out),
    ("chunks_mut_u8_1024_3074", C_CHUNKS_MUT_U8_1024_3074, chunks_mut_u8::<1024, 3074> as fn() -> Out),
    ("reinterpret_u8_1024_0", C_REINTERPRET_U8_1024_0, reinterpret_u8::<1024, 0> as fn() -> Out),
    ("reinterpret_u8_1024_1", C_REINTERPRET_U8_1024_1, reinterpret_u8::<1024, 1> as fn() -> Out),
    ("reinterpret_u8_1024_1023", C_REINTERPRET_U8_1024_1023, reinterpret_u8::<1024, 1023> as fn() -> Out),
    ("reinterpret_u8_1024_1024", C_REINTERPRET_U8_1024_1024, reinterpret_u8::<1024, 1024> as fn() -> Out),
    ("reinterpret_u8_1024_1025", C_REINTERPRET_U8_1024_1025, reinterpret_u8::<1024, 1025> as fn() -> Out),
    ("reinterpret_u8_1024_2048", C_REINTERPRET_U8_1024_2048, reinterpret_u8::<1024, 2048> as fn() -> Out),
    ("reinterpret_u8_1024_3074", C_REINTERPRET_U8_1024_3074, reinterpret_u8::<1024, 3074> as fn() -> Out),
    ("byvalue_u8_1024", C_BYVALUE_U8_1024, byvalue_u8::<1024> as fn() -> Out),
    ("native_chunks_u8_1024_0", C_NATIVE_CHUNKS_U8_1024_0, native_chunks_u8::<1024, 0> as fn() -> Out),
    ("native_chunks_u8_1024_1", C_NATIVE_CHUNKS_U8_1024_1, native_chunks_u8::<1024, 1> as fn() -> Out),
    ("native_chunks_u8_1024_2", C_NATIVE_CHUNKS_U8_1024_2, native_chunks_u8::<1024, 2> as fn() -> Out),
    ("native_chunks_u8_1024_3", C_NATIVE_CHUNKS_U8_1024_3, native_chunks_u8::<1024, 3> as fn() -> Out),
    ("chunks_u32_0_0", C_CHUNKS_U32_0_0, chunks_u32::<0, 0> as fn() -> Out),
    ("chunks_mut_u32_0_0", C_CHUNKS_MUT_U32_0_0, chunks_mut_u32::<0, 0> as fn() -> Out),
    ("reinterpret_u32_0_0", C_REINTERPRET_U32_0_0, reinterpret_u32::<0, 0> as fn() -> Out),
    ("reinterpret_u32_0_1", C_REINTERPRET_U32_0_1, reinterpret_u32::<0, 1> as fn() -> Out),
    ("reinterpret_u32_0_2", C_REINTERPRET_U32_0_2, reinterpret_u32::<0, 2> as fn() -> Out),
    ("byvalue_u32_0", C_BYVALUE_U32_0, byvalue_u32::<0> as fn() -> Out),
    ("native_chunks_u32_0_0", C_NATIVE_CHUNKS_U32_0_0, native_chunks_u32::<0, 0> as fn() -> Out),
    ("native_chunks_u32_0_1", C_NATIVE_CHUNKS_U32_0_1, native_chunks_u32::<0, 1> as fn() -> Out),
    ("native_chunks_u32_0_2", C_NATIVE_CHUNKS_U32_0_2, native_chunks_u32::<0, 2> as fn() -> Out),
    ("native_chunks_u32_0_3", C_NATIVE_CHUNKS_U32_0_3, native_chunks_u32::<0, 3> as fn() -> Out),
    ("chunks_u32_1_0", C_CHUNKS_U32_1_0, chunks_u32::<1, 0> as fn() -> Out),
    ("chunks_mut_u32_1_0", C_CHUNKS_MUT_U32_1_0, chunks_mut_u32::<1, 0> as fn() -> Out),
    ("chunks_u32_1_1", C_CHUNKS_U32_1_1, chunks_u32::<1, 1> as fn() -> Out),
    ("chunks_mut_u32_1_1", C_CHUNKS_MUT_U32_1_1, chunks_mut_u32::<1, 1> as fn() -> Out),
    ("chunks_u32_1_2", C_CHUNKS_U32_1_2, chunks_u32::<1, 2> as fn() -> Out),
    ("chunks_mut_u32_1_2", C_CHUNKS_MUT_U32_1_2, chunks_mut_u32::<1, 2> as fn() -> Out),
    ("chunks_u32_1_3", C_CHUNKS_U32_1_3, chunks_u32::<1, 3> as fn() -> Out),
    ("chunks_mut_u32_1_3", C_CHUNKS_MUT_U32_1_3, chunks_mut_u32::<1, 3> as fn() -> Out),
    ("chunks_u32_1_4", C_CHUNKS_U32_1_4, chunks_u32::<1, 4> as fn() -> Out),
    ("chunks_mut_u32_1_4", C_CHUNKS_MUT_U32_1_4, chunks_mut_u32::<1, 4> as fn() -> Out),
    ("chunks_u32_1_5", C_CHUNKS_U32_1_5, chunks_u32::<1, 5> as fn() -> Out),
    ("chunks_mut_u32_1_5", C_CHUNKS_MUT_U32_1_5, chunks_mut_u32::<1, 5> as fn() -> Out),
    ("reinterpret_u32_1_0", C_REINTERPRET_U32_1_0, reinterpret_u32::<1, 0> as fn() -> Out),
    ("reinterpret_u32_1_1", C_REINTERPRET_U32_1_1, reinterpret_u32::<1, 1> as fn() -> Out),
    ("reinterpret_u32_1_2", C_REINTERPRET_U32_1_2, reinterpret_u32::<1, 2> as fn() -> Out),
    ("reinterpret_u32_1_5", C_REINTERPRET_U32_1_5, reinterpret_u32::<1, 5> as fn() -> Out),
    ("byvalue_u32_1", C_BYVALUE_U32_1, byvalue_u32::<1> as fn() -> Out),
    ("native_chunks_u32_1_0", C_NATIVE_CHUNKS_U32_1_0, native_chunks_u32::<1, 0> as fn() -> Out),
    ("native_chunks_u32_1_1", C_NATIVE_CHUNKS_U32_1_1, native_chunks_u32::<1, 1> as fn() -> Out),
    ("native_chunks_u32_1_2", C_NATIVE_CHUNKS_U32_1_2, native_chunks_u32::<1, 2> as fn() -> Out),
    ("native_chunks_u32_1_3", C_NATIVE_CHUNKS_U32_1_3, native_chunks_u32::<1, 3> as fn() -> Out),
    ("chunks_u32_2_0", C_CHUNKS_U32_2_0, chunks_u32::<2, 0> as fn() -> Out),
    ("chunks_mut_u32_2_0", C_CHUNKS_MUT_U32_2_0, chunks_mut_u32::<2, 0> as fn() -> Out),
    ("chunks_u32_2_1", C_CHUNKS_U32_2_1, chunks_u32::<2, 1> as fn() -> Out),
    ("chunks_mut_u32_2_1", C_CHUNKS_MUT_U32_2_1, chunks_mut_u32::<2, 1> as fn() -> Out),
    ("chunks_u32_2_2", C_CHUNKS_U32_2_2, chunks_u32::<2, 2> as fn() -> Out),
    ("chunks_mut_u32_2_2", C_CHUNKS_MUT_U32_2_2, chunks_mut_u32::<2, 2> as fn() -> Out),
    ("chunks_u32_2_3", C_CHUNKS_U32_2_3, chunks_u32::<2, 3> as fn() -> Out),
    ("chunks_mut_u32_2_3", C_CHUNKS_MUT_U32_2_3, chunks_mut_u32::<2, 3> as fn() -> Out),
    ("chunks_u32_2_4", C_CHUNKS_U32_2_4, chunks_u32::<2, 4> as fn() -> Out),
    ("chunks_mut_u32_2_4", C_CHUNKS_MUT_U32_2_4, chunks_mut_u32::<2, 4> as fn() -> Out),
    ("chunks_u32_2_5", C_CHUNKS_U32_2_5, chunks_u32::<2, 5> as fn() -> Out),
    ("chunks_mut_u32_2_5", C_CHUNKS_MUT_U32_2_5, chunks_mut_u32::<2, 5> as fn() -> Out),
    ("chunks_u32_2_6", C_CHUNKS_U32_2_6, chunks_u32::<2, 6> as fn() -> Out),
    ("chunks_mut_u32_2_6", C_CHUNKS_MUT_U32_2_6, chunks_mut_u32::<2, 6> as fn() -> Out),
    ("chunks_u32_2_7", C_CHUNKS_U32_2_7, chunks_u32::<2, 7> as fn() -> Out),
    ("chunks_mut_u32_2_7", C_CHUNKS_MUT_U32_2_7, chunks_mut_u32::<2, 7> as fn() -> Out),
    ("chunks_u32_2_8", C_CHUNKS_U32_2_8, chunks_u32::<2, 8> as fn() -> Out),
    ("chunks_mut_u32_2_8", C_CHUNKS_MUT_U32_2_8, chunks_mut_u32::<2, 8> as fn() -> Out),
    ("reinterpret_u32_2_0", C_REINTERPRET_U32_2_0, reinterpret_u32::<2, 0> as fn() -> Out),
    ("reinterpret_u32_2_1", C_REINTERPRET_U32_2_1, reinterpret_u32::<2, 1> as fn() -> Out),
    ("reinterpret_u32_2_2", C_REINTERPRET_U32_2_2, reinterpret_u32::<2, 2> as fn() -> Out),
    ("reinterpret_u32_2_3", C_REINTERPRET_U32_2_3, reinterpret_u32::<2, 3> as fn() -> Out),
    ("reinterpret_u32_2_4", C_REINTERPRET_U32_2_4, reinterpret_u32::<2, 4> as fn() -> Out),
    ("reinterpret_u32_2_8", C_REINTERPRET_U32_2_8, reinterpret_u32::<2, 8> as fn() -> Out),
    ("byvalue_u32_2", C_BYVALUE_U32_2, byvalue_u32::<2> as fn() -> Out),
    ("native_chunks_u32_2_0", C_NATIVE_CHUNKS_U32_2_0, native_chunks_u32::<2, 0> as fn() -> Out),
    ("native_chunks_u32_2_1", C_NATIVE_CHUNKS_U32_2_1, native_chunks_u32::<2, 1> as fn() -> Out),
    ("native_chunks_u32_2_2", C_NATIVE_CHUNKS_U32_2_2, native_chunks_u32::<2, 2> as fn() -> Out),
    ("native_chunks_u32_2_3", C_NATIVE_CHUNKS_U32_2_3, native_chunks_u32::<2, 3> as fn() -> Out),
    ("chunks_u32_3_0", C_CHUNKS_U32_3_0, chunks_u32::<3, 0> as fn() -> Out),
    ("chunks_mut_u32_3_0", C_CHUNKS_MUT_U32_3_0, chunks_mut_u32::<3, 0> as fn() -> Out),
    ("chunks_u32_3_1", C_CHUNKS_U32_3_1, chunks_u32::<3, 1> as fn() -> Out),
    ("chunks_mut_u32_3_1", C_CHUNKS_MUT_U32_3_1, chunks_mut_u32::<3, 1> as fn() -> Out),
    ("chunks_u32_3_2", C_CHUNKS_U32_3_2, chunks_u32::<3, 2> as fn() -> Out),
    ("chunks_mut_u32_3_2", C_CHUNKS_MUT_U32_3_2, chunks_mut_u32::<3, 2> as fn() -> Out),
    ("chunks_u32_3_3", C_CHUNKS_U32_3_3, chunks_u32::<3, 3> as fn() -> Out),
    ("chunks_mut_u32_3_3", C_CHUNKS_MUT_U32_3_3, chunks_mut_u32::<3, 3> as fn() -> Out),
    ("chunks_u32_3_4", C_CHUNKS_U32_3_4, chunks_u32::<3, 4> as fn() -> Out),
    ("chunks_mut_u32_3_4", C_CHUNKS_MUT_U32_3_4, chunks_mut_u32::<3, 4> as fn() -> Out),
    ("chunks_u32_3_5", C_CHUNKS_U32_3_5, chunks_u32::<3, 5> as fn() -> Out),
    ("chunks_mut_u32_3_5", C_CHUNKS_MUT_U32_3_5, chunks_mut_u32::<3, 5> as fn() -> Out),
    ("chunks_u32_3_6", C_CHUNKS_U32_3_6, chunks_u32::<3, 6> as fn() -> Out),
    ("chunks_mut_u32_3_6", C_CHUNKS_MUT_U32_3_6, chunks_mut_u32::<3, 6> as fn() -> Out),
    ("chunks_u32_3_7", C_CHUNKS_U32_3_7, chunks_u32::<3, 7> as fn() -> Out),
    ("chunks_mut_u32_3_7", C_CHUNKS_MUT_U32_3_7, chunks_mut_u32::<3, 7> as fn() -> Out),
    ("chunks_u32_3_8", C_CHUNKS_U32_3_8, chunks_u32::<3, 8> as fn() -> Out),
    ("chunks_mut_u32_3_8", C_CHUNKS_MUT_U32_3_8, chunks_mut_u32::<3, 8> as fn() -> Out),
    ("chunks_u32_3_9", C_CHUNKS_U32_3_9, chunks_u32::<3, 9> as fn() -> Out),
    ("chunks_mut_u32_3_9", C_CHUNKS_MUT_U32_3_9, chunks_mut_u32::<3, 9> as fn() -> Out),
    ("chunks_u32_3_10", C_CHUNKS_U32_3_10, chunks_u32::<3, 10> as fn() -> Out),
    ("chunks_mut_u32_3_10", C_CHUNKS_MUT_U32_3_10, chunks_mut_u32::<3, 10> as fn() -> Out),
    ("chunks_u32_3_11", C_CHUNKS_U32_3_11, chunks_u32::<3, 11> as fn() -> Out),
    ("chunks_mut_u32_3_11", C_CHUNKS_MUT_U32_3_11, chunks_mut_u32::<3, 11> as fn() -> Out),
    ("reinterpret_u32_3_0", C_REINTERPRET_U32_3_0, reinterpret_u32::<3, 0> as fn() -> Out),
    ("reinterpret_u32_3_1", C_REINTERPRET_U32_3_1, reinterpret_u32::<3, 1> as fn() -> Out),
    ("reinterpret_u32_3_2", C_REINTERPRET_U32_3_2, reinterpret_u32::<3, 2> as fn() -> Out),
    ("reinterpret_u32_3_3", C_REINTERPRET_U32_3_3, reinterpret_u32::<3, 3> as fn() -> Out),
    ("reinterpret_u32_3_4", C_REINTERPRET_U32_3_4, reinterpret_u32::<3, 4> as fn() -> Out),
    ("reinterpret_u32_3_6", C_REINTERPRET_U32_3_6, reinterpret_u32::<3, 6> as fn() -> Out),
    ("reinterpret_u32_3_11", C_REINTERPRET_U32_3_11, reinterpret_u32::<3, 11> as fn() -> Out),
    ("byvalue_u32_3", C_BYVALUE_U32_3, byvalue_u32::<3> as fn() -> Out),
    ("native_chunks_u32_3_0", C_NATIVE_CHUNKS_U32_3_0, native_chunks_u32::<3, 0> as fn() -> Out),
    ("native_chunks_u32_3_1", C_NATIVE_CHUNKS_U32_3_1, native_chunks_u32::<3, 1> as fn() -> Out),
    ("native_chunks_u32_3_2", C_NATIVE_CHUNKS_U32_3_2, native_chunks_u32::<3, 2> as fn() -> Out),
    ("native_chunks_u32_3_3", C_NATIVE_CHUNKS_U32_3_3, native_chunks_u32::<3, 3> as fn() -> Out),
    ("chunks_u32_7_0", C_CHUNKS_U32_7_0, chunks_u32::<7, 0> as fn() -> Out),
    ("chunks_mut_u32_7_0", C_CHUNKS_MUT_U32_7_0, chunks_mut_u32::<7, 0> as fn() -> Out),
    ("chunks_u32_7_1", C_CHUNKS_U32_7_1, chunks_u32::<7, 1> as fn() -> Out),
    ("chunks_mut_u32_7_1", C_CHUNKS_MUT_U32_7_1, chunks_mut_u32::<7, 1> as fn() -> Out),
    ("chunks_u32_7_2", C_CHUNKS_U32_7_2, chunks_u32::<7, 2> as fn() -> Out),
    ("chunks_mut_u32_7_2", C_CHUNKS_MUT_U32_7_2, chunks_mut_u32::<7, 2> as fn() -> Out),
    ("chunks_u32_7_3", C_CHUNKS_U32_7_3, chunks_u32::<7, 3> as fn() -> Out),
    ("chunks_mut_u32_7_3", C_CHUNKS_MUT_U32_7_3, chunks_mut_u32::<7, 3> as fn() -> Out),
    ("chunks_u32_7_4", C_CHUNKS_U32_7_4, chunks_u32::<7, 4> as fn() -> Out),
    ("chunks_mut_u32_7_4", C_CHUNKS_MUT_U32_7_4, chunks_mut_u32::<7, 4> as fn() -> Out),
    ("chunks_u32_7_5", C_CHUNKS_U32_7_5, chunks_u32::<7, 5> as fn() -> Out),
    ("chunks_mut_u32_7_5", C_CHUNKS_MUT_U32_7_5, chunks_mut_u32::<7, 5> as fn() -> Out),
    ("chunks_u32_7_6", C_CHUNKS_U32_7_6, chunks_u32::<7, 6> as fn() -> Out),
    ("chunks_mut_u32_7_6", C_CHUNKS_MUT_U32_7_6, chunks_mut_u32::<7, 6> as fn() -> Out),
    ("chunks_u32_7_7", C_CHUNKS_U32_7_7, chunks_u32::<7, 7> as fn() -> Out),
    ("chunks_mut_u32_7_7", C_CHUNKS_MUT_U32_7_7, chunks_mut_u32::<7, 7> as fn() -> Out),
    ("chunks_u32_7_8", C_CHUNKS_U32_7_8, chunks_u32::<7, 8> as fn() -> Out),
    ("chunks_mut_u32_7_8", C_CHUNKS_MUT_U32_7_8, chunks_mut_u32::<7, 8> as fn() -> Out),
    ("chunks_u32_7_9", C_CHUNKS_U32_7_9, chunks_u32::<7, 9> as fn() -> Out),
    ("chunks_mut_u32_7_9", C_CHUNKS_MUT_U32_7_9, chunks_mut_u32::<7, 9> as fn() -> Out),
    ("chunks_u32_7_10", C_CHUNKS_U32_7_10, chunks_u32::<7, 10> as fn() -> Out),
    ("chunks_mut_u32_7_10", C_CHUNKS_MUT_U32_7_10, chunks_mut_u32::<7, 10> as fn() -> Out),
    ("chunks_u32_7_11", C_CHUNKS_U32_7_11, chunks_u32::<7, 11> as fn() -> Out),
    ("chunks_mut_u32_7_11", C_CHUNKS_MUT_U32_7_11, chunks_mut_u32::<7, 11> as fn() -> Out),
    ("chunks_u32_7_12", C_CHUNKS_U32_7_12, chunks_u32::<7, 12> as fn() -> Out),
    ("chunks_mut_u32_7_12", C_CHUNKS_MUT_U32_7_12, chunks_mut_u32::<7, 12> as fn() -> Out),
    ("chunks_u32_7_13", C_CHUNKS_U32_7_13, chunks_u32::<7, 13> as fn() -> Out),
    ("chunks_mut_u32_7_13", C_CHUNKS_MUT_U32_7_13, chunks_mut_u32::<7, 13> as fn() -> Out),
    ("chunks_u32_7_14", C_CHUNKS_U32_7_14, chunks_u32::<7, 14> as fn() -> Out),
    ("chunks_mut_u32_7_14", C_CHUNKS_MUT_U32_7_14, chunks_mut_u32::<7, 14> as fn() -> Out),
    ("chunks_u32_7_15", C_CHUNKS_U32_7_15, chunks_u32::<7, 15> as fn() -> Out),
    ("chunks_mut_u32_7_15", C_CHUNKS_MUT_U32_7_15, chunks_mut_u32::<7, 15> as fn() -> Out),
    ("chunks_u32_7_16", C_CHUNKS_U32_7_16, chunks_u32::<7, 16> as fn() -> Out),
    ("chunks_mut_u32_7_16", C_CHUNKS_MUT_U32_7_16, chunks_mut_u32::<7, 16> as fn() -> Out),
    ("chunks_u32_7_17", C_CHUNKS_U32_7_17, chunks_u32::<7, 17> as fn() -> Out),
    ("chunks_mut_u32_7_17", C_CHUNKS_MUT_U32_7_17, chunks_mut_u32::<7, 17> as fn() -> Out),
    ("chunks_u32_7_18", C_CHUNKS_U32_7_18, chunks_u32::<7, 18> as fn() -> Out),
    ("chunks_mut_u32_7_18", C_CHUNKS_MUT_U32_7_18, chunks_mut_u32::<7, 18> as fn() -> Out),
    ("chunks_u32_7_19", C_CHUNKS_U32_7_19, chunks_u32::<7, 19> as fn() -> Out),
    ("chunks_mut_u32_7_19", C_CHUNKS_MUT_U32_7_19, chunks_mut_u32::<7, 19> as fn() -> Out),
    ("chunks_u32_7_20", C_CHUNKS_U32_7_20, chunks_u32::<7, 20> as fn() -> Out),
    ("chunks_mut_u32_7_20", C_CHUNKS_MUT_U32_7_20, chunks_mut_u32::<7, 20> as fn() -> Out),
    ("chunks_u32_7_21", C_CHUNKS_U32_7_21, chunks_u32::<7, 21> as fn() -> Out),
    ("chunks_mut_u32_7_21", C_CHUNKS_MUT_U32_7_21, chunks_mut_u32::<7, 21> as fn() -> Out),
    ("chunks_u32_7_22", C_CHUNKS_U32_7_22, chunks_u32::<7, 22> as fn() -> Out),
    ("chunks_mut_u32_7_22", C_CHUNKS_MUT_U32_7_22, chunks_mut_u32::<7, 22> as fn() -> Out),
    ("chunks_u32_7_23", C_CHUNKS_U32_7_23, chunks_u32::<7, 23> as fn() -> Out),
    ("chunks_mut_u32_7_23", C_CHUNKS_MUT_U32_7_23, chunks_mut_u32::<7, 23> as fn() -> Out),
    ("reinterpret_u32_7_0", C_REINTERPRET_U32_7_0, reinterpret_u32::<7, 0> as fn() -> Out),
    ("reinterpret_u32_7_1", C_REINTERPRET_U32_7_1, reinterpret_u32::<7, 1> as fn() -> Out),
    ("reinterpret_u32_7_6", C_REINTERPRET_U32_7_6, reinterpret_u32::<7, 6> as fn() -> Out),
    ("reinterpret_u32_7_7", C_REINTERPRET_U32_7_7, reinterpret_u32::<7, 7> as fn() -> Out),
    ("reinterpret_u32_7_8", C_REINTERPRET_U32_7_8, reinterpret_u32::<7, 8> as fn() -> Out),
    ("reinterpret_u32_7_14", C_REINTERPRET_U32_7_14, reinterpret_u32::<7, 14> as fn() -> Out),
    ("reinterpret_u32_7_23", C_REINTERPRET_U32_7_23, reinterpret_u32::<7, 23> as fn() -> Out),
    ("byvalue_u32_7", C_BYVALUE_U32_7, byvalue_u32::<7> as fn() -> Out),
    ("native_chunks_u32_7_0", C_NATIVE_CHUNKS_U32_7_0, native_chunks_u32::<7, 0> as fn() -> Out),
    ("native_chunks_u32_7_1", C_NATIVE_CHUNKS_U32_7_1, native_chunks_u32::<7, 1> as fn() -> Out),
    ("native_chunks_u32_7_2", C_NATIVE_CHUNKS_U32_7_2, native_chunks_u32::<7, 2> as fn() -> Out),
    ("native_chunks_u32_7_3", C_NATIVE_CHUNKS_U32_7_3, native_chunks_u32::<7, 3> as fn() -> Out),
    ("chunks_u32_8_0", C_CHUNKS_U32_8_0, chunks_u32::<8, 0> as fn() -> Out),
    ("chunks_mut_u32_8_0", C_CHUNKS_MUT_U32_8_0, chunks_mut_u32::<8, 0> as fn() -> Out),
    ("chunks_u32_8_1", C_CHUNKS_U32_8_1, chunks_u32::<8, 1> as fn() -> Out),
    ("chunks_mut_u32_8_1", C_CHUNKS_MUT_U32_8_1, chunks_mut_u32::<8, 1> as fn() -> Out),
    ("chunks_u32_8_2", C_CHUNKS_U32_8_2, chunks_u32::<8, 2> as fn() -> Out),
    ("chunks_mut_u32_8_2", C_CHUNKS_MUT_U32_8_2, chunks_mut_u32::<8, 2> as fn() -> Out),
    ("chunks_u32_8_3", C_CHUNKS_U32_8_3, chunks_u32::<8, 3> as fn() -> Out),
    ("chunks_mut_u32_8_3", C_CHUNKS_MUT_U32_8_3, chunks_mut_u32::<8, 3> as fn() -> Out),
    ("chunks_u32_8_4", C_CHUNKS_U32_8_4, chunks_u32::<8, 4> as fn() -> Out),
    ("chunks_mut_u32_8_4", C_CHUNKS_MUT_U32_8_4, chunks_mut_u32::<8, 4> as fn() -> Out),
    ("chunks_u32_8_5", C_CHUNKS_U32_8_5, chunks_u32::<8, 5> as fn() -> Out),
    ("chunks_mut_u32_8_5", C_CHUNKS_MUT_U32_8_5, chunks_mut_u32::<8, 5> as fn() -> Out),
    ("chunks_u32_8_6", C_CHUNKS_U32_8_6, chunks_u32::<8, 6> as fn() -> Out),
    ("chunks_mut_u32_8_6", C_CHUNKS_MUT_U32_8_6, chunks_mut_u32::<8, 6> as fn() -> Out),
    ("chunks_u32_8_7", C_CHUNKS_U32_8_7, chunks_u32::<8, 7> as fn() -> Out),
    ("chunks_mut_u32_8_7", C_CHUNKS_MUT_U32_8_7, chunks_mut_u32::<8, 7> as fn() -> Out),
    ("chunks_u32_8_8", C_CHUNKS_U32_8_8, chunks_u32::<8, 8> as fn() -> Out),
    ("chunks_mut_u32_8_8", C_CHUNKS_MUT_U32_8_8, chunks_mut_u32::<8, 8> as fn() -> Out),
    ("chunks_u32_8_9", C_CHUNKS_U32_8_9, chunks_u32::<8, 9> as fn() -> Out),
    ("chunks_mut_u32_8_9", C_CHUNKS_MUT_U32_8_9, chunks_mut_u32::<8, 9> as fn() -> Out),
    ("chunks_u32_8_10", C_CHUNKS_U32_8_10, chunks_u32::<8, 10> as fn() -> Out),
    ("chunks_mut_u32_8_10", C_CHUNKS_MUT_U32_8_10, chunks_mut_u32::<8, 10> as fn() -> Out),
    ("chunks_u32_8_11", C_CHUNKS_U32_8_11, chunks_u32::<8, 11> as fn() -> Out),
    ("chunks_mut_u32_8_11", C_CHUNKS_MUT_U32_8_11, chunks_mut_u32::<8, 11> as fn() -> Out),
    ("chunks_u32_8_12", C_CHUNKS_U32_8_12, chunks_u32::<8, 12> as fn() -> Out),
    ("chunks_mut_u32_8_12", C_CHUNKS_MUT_U32_8_12, chunks_mut_u32::<8, 12> as fn() -> Out),
    ("chunks_u32_8_13", C_CHUNKS_U32_8_13, chunks_u32::<8, 13> as fn() -> Out),
    ("chunks_mut_u32_8_13", C_CHUNKS_MUT_U32_8_13, chunks_mut_u32::<8, 13> as fn() -> Out),
    ("chunks_u32_8_14", C_CHUNKS_U32_8_14, chunks_u32::<8, 14> as fn() -> Out),
    ("chunks_mut_u32_8_14", C_CHUNKS_MUT_U32_8_14, chunks_mut_u32::<8, 14> as fn() -> Out),
    ("chunks_u32_8_15", C_CHUNKS_U32_8_15, chunks_u32::<8, 15> as fn() -> Out),
    ("chunks_mut_u32_8_15", C_CHUNKS_MUT_U32_8_15, chunks_mut_u32::<8, 15> as fn() -> Out),
    ("chunks_u32_8_16", C_CHUNKS_U32_8_16, chunks_u32::<8, 16> as fn() -> Out),
    ("chunks_mut_u32_8_16", C_CHUNKS_MUT_U32_8_16, chunks_mut_u32::<8, 16> as fn() -> Out),
    ("chunks_u32_8_17", C_CHUNKS_U32_8_17, chunks_u32::<8, 17> as fn() -> Out),
    ("chunks_mut_u32_8_17", C_CHUNKS_MUT_U32_8_17, chunks_mut_u32::<8, 17> as fn() -> Out),
    ("chunks_u32_8_18", C_CHUNKS_U32_8_18, chunks_u32::<8, 18> as fn() -> Out),
    ("chunks_mut_u32_8_18", C_CHUNKS_MUT_U32_8_18, chunks_mut_u32::<8, 18> as fn() -> Out),
    ("chunks_u32_8_19", C_CHUNKS_U32_8_19, chunks_u32::<8, 19> as fn() -> Out),
    ("chunks_mut_u32_8_19", C_CHUNKS_MUT_U32_8_19, chunks_mut_u32::<8, 19> as fn() -> Out),
    ("chunks_u32_8_20", C_CHUNKS_U32_8_20, chunks_u32::<8, 20> as fn() -> Out),
    ("chunks_mut_u32_8_20", C_CHUNKS_MUT_U32_8_20, chunks_mut_u32::<8, 20> as fn() -> Out),
    ("chunks_u32_8_21", C_CHUNKS_U32_8_21, chunks_u32::<8, 21> as fn() -> Out),
    ("chunks_mut_u32_8_21", C_CHUNKS_MUT_U32_8_21, chunks_mut_u32::<8, 21> as fn() -> Out),
    ("chunks_u32_8_22", C_CHUNKS_U32_8_22, chunks_u32::<8, 22> as fn() -> Out),
    ("chunks_mut_u32_8_22", C_CHUNKS_MUT_U32_8_22, chunks_mut_u32::<8, 22> as fn() -> Out),
    ("chunks_u32_8_23", C_CHUNKS_U32_8_23, chunks_u32::<8, 23> as fn() -> Out),
    ("chunks_mut_u32_8_23", C_CHUNKS_MUT_U32_8_23, chunks_mut_u32::<8, 23> as fn() -> Out),
    ("chunks_u32_8_24", C_CHUNKS_U32_8_24, chunks_u32::<8, 24> as fn() -> Out),
    ("chunks_mut_u32_8_24", C_CHUNKS_MUT_U32_8_24, chunks_mut_u32::<8, 24> as fn() -> Out),
    ("chunks_u32_8_25", C_CHUNKS_U32_8_25, chunks_u32::<8, 25> as fn() -> Out),
    ("chunks_mut_u32_8_25", C_CHUNKS_MUT_U32_8_25, chunks_mut_u32::<8, 25> as fn() -> Out),
    ("chunks_u32_8_26", C_CHUNKS_U32_8_26, chunks_u32::<8, 26> as fn() -> Out),
    ("chunks_mut_u32_8_26", C_CHUNKS_MUT_U32_8_26, chunks_mut_u32::<8, 26> as fn() -> Out),
    ("reinterpret_u32_8_0", C_REINTERPRET_U32_8_0, reinterpret_u32::<8, 0> as fn() -> Out),
    ("reinterpret_u32_8_1", C_REINTERPRET_U32_8_1, reinterpret_u32::<8, 1> as fn() -> Out),
    ("reinterpret_u32_8_7", C_REINTERPRET_U32_8_7, reinterpret_u32::<8, 7> as fn() -> Out),
    ("reinterpret_u32_8_8", C_REINTERPRET_U32_8_8, reinterpret_u32::<8, 8> as fn() -> Out),
    ("reinterpret_u32_8_9", C_REINTERPRET_U32_8_9, reinterpret_u32::<8, 9> as fn() -> Out),
    ("reinterpret_u32_8_16", C_REINTERPRET_U32_8_16, reinterpret_u32::<8, 16> as fn() -> Out),
    ("reinterpret_u32_8_26", C_REINTERPRET_U32_8_26, reinterpret_u32::<8, 26> as fn() -> Out),
    ("byvalue_u32_8", C_BYVALUE_U32_8, byvalue_u32::<8> as fn() -> Out),
    ("native_chunks_u32_8_0", C_NATIVE_CHUNKS_U32_8_0, native_chunks_u32::<8, 0> as fn() -> Out),
    ("native_chunks_u32_8_1", C_NATIVE_CHUNKS_U32_8_1, native_chunks_u32::<8, 1> as fn() -> Out),
    ("native_chunks_u32_8_2", C_NATIVE_CHUNKS_U32_8_2, native_chunks_u32::<8, 2> as fn() -> Out),
    ("native_chunks_u32_8_3", C_NATIVE_CHUNKS_U32_8_3, native_chunks_u32::<8, 3> as fn() -> Out),
    ("chunks_u32_16_0", C_CHUNKS_U32_16_0, chunks_u32::<16, 0> as fn() -> Out),
    ("chunks_mut_u32_16_0", C_CHUNKS_MUT_U32_16_0, chunks_mut_u32::<16, 0> as fn() -> Out),
    ("chunks_u32_16_1", C_CHUNKS_U32_16_1, chunks_u32::<16, 1> as fn() -> Out),
    ("chunks_mut_u32_16_1", C_CHUNKS_MUT_U32_16_1, chunks_mut_u32::<16, 1> as fn() -> Out),
    ("chunks_u32_16_2", C_CHUNKS_U32_16_2, chunks_u32::<16, 2> as fn() -> Out),
    ("chunks_mut_u32_16_2", C_CHUNKS_MUT_U32_16_2, chunks_mut_u32::<16, 2> as fn() -> Out),
    ("chunks_u32_16_3", C_CHUNKS_U32_16_3, chunks_u32::<16, 3> as fn() -> Out),
    ("chunks_mut_u32_16_3", C_CHUNKS_MUT_U32_16_3, chunks_mut_u32::<16, 3> as fn() -> Out),
    ("chunks_u32_16_4", C_CHUNKS_U32_16_4, chunks_u32::<16, 4> as fn() -> Out),
    ("chunks_mut_u32_16_4", C_CHUNKS_MUT_U32_16_4, chunks_mut_u32::<16, 4> as fn() -> Out),
    ("chunks_u32_16_5", C_CHUNKS_U32_16_5, chunks_u32::<16, 5> as fn() -> Out),
    ("chunks_mut_u32_16_5", C_CHUNKS_MUT_U32_16_5, chunks_mut_u32::<16, 5> as fn() -> Out),
    ("chunks_u32_16_6", C_CHUNKS_U32_16_6, chunks_u32::<16, 6> as fn() -> Out),
    ("chunks_mut_u32_16_6", C_CHUNKS_MUT_U32_16_6, chunks_mut_u32::<16, 6> as fn() -> Out),
    ("chunks_u32_16_7", C_CHUNKS_U32_16_7, chunks_u32::<16, 7> as fn() -> Out),
    ("chunks_mut_u32_16_7", C_CHUNKS_MUT_U32_16_7, chunks_mut_u32::<16, 7> as fn() -> Out),
    ("chunks_u32_16_8", C_CHUNKS_U32_16_8, chunks_u32::<16, 8> as fn() -> Out),
    ("chunks_mut_u32_16_8", C_CHUNKS_MUT_U32_16_8, chunks_mut_u32::<16, 8> as fn() -> Out),
    ("chunks_u32_16_9", C_CHUNKS_U32_16_9, chunks_u32::<16, 9> as fn() -> Out),
    ("chunks_mut_u32_16_9", C_CHUNKS_MUT_U32_16_9, chunks_mut_u32::<16, 9> as fn() -> Out),
    ("chunks_u32_16_10", C_CHUNKS_U32_16_10, chunks_u32::<16, 10> as fn() -> Out),
    ("chunks_mut_u32_16_10", C_CHUNKS_MUT_U32_16_10, chunks_mut_u32::<16, 10> as fn() -> Out),
    ("chunks_u32_16_11", C_CHUNKS_U32_16_11, chunks_u32::<16, 11> as fn() -> Out),
    ("chunks_mut_u32_16_11", C_CHUNKS_MUT_U32_16_11, chunks_mut_u32::<16, 11> as fn() -> Out),
    ("chunks_u32_16_12", C_CHUNKS_U32_16_12, chunks_u32::<16, 12> as fn() -> Out),
    ("chunks_mut_u32_16_12", C_CHUNKS_MUT_U32_16_12, chunks_mut_u32::<16, 12> as fn() -> Out),
    ("chunks_u32_16_13", C_CHUNKS_U32_16_13, chunks_u32::<16, 13> as fn() -> Out),
    ("chunks_mut_u32_16_13", C_CHUNKS_MUT_U32_16_13, chunks_mut_u32::<16, 13> as fn() -> Out),
    ("chunks_u32_16_14", C_CHUNKS_U32_16_14, chunks_u32::<16, 14> as fn() -> Out),
    ("chunks_mut_u32_16_14", C_CHUNKS_MUT_U32_16_14, chunks_mut_u32::<16, 14> as fn() -> Out),
    ("chunks_u32_16_15", C_CHUNKS_U32_16_15, chunks_u32::<16, 15> as fn() -> Out),
    ("chunks_mut_u32_16_15", C_CHUNKS_MUT_U32_16_15, chunks_mut_u32::<16, 15> as fn() -> Out),
    ("chunks_u32_16_16", C_CHUNKS_U32_16_16, chunks_u32::<16, 16> as fn() -> Out),
    ("chunks_mut_u32_16_16", C_CHUNKS_MUT_U32_16_16, chunks_mut_u32::<16, 16> as fn() -> Out),
    ("chunks_u32_16_17", C_CHUNKS_U32_16_17, chunks_u32::<16, 17> as fn() -> Out),
    ("chunks_mut_u32_16_17", C_CHUNKS_MUT_U32_16_17, chunks_mut_u32::<16, 17> as fn() -> Out),
    ("chunks_u32_16_18", C_CHUNKS_U32_16_18, chunks_u32::<16, 18> as fn() -> Out),
    ("chunks_mut_u32_16_18", C_CHUNKS_MUT_U32_16_18, chunks_mut_u32::<16, 18> as fn() -> Out),
    ("chunks_u32_16_19", C_CHUNKS_U32_16_19, chunks_u32::<16, 19> as fn() -> Out),
    ("chunks_mut_u32_16_19", C_CHUNKS_MUT_U32_16_19, chunks_mut_u32::<16, 19> as fn() -> Out),
    ("chunks_u32_16_20", C_CHUNKS_U32_16_20, chunks_u32::<16, 20> as fn() -> Out),
    ("chunks_mut_u32_16_20", C_CHUNKS_MUT_U32_16_20, chunks_mut_u32::<16, 20> as fn() -> Out),
    ("chunks_u32_16_21", C_CHUNKS_U32_16_21, chunks_u32::<16, 21> as fn() -> Out),
    ("chunks_mut_u32_16_21", C_CHUNKS_MUT_U32_16_21, chunks_mut_u32::<16, 21> as fn() -> Out),
    ("chunks_u32_16_22", C_CHUNKS_U32_16_22, chunks_u32::<16, 22> as fn() -> Out),
    ("chunks_mut_u32_16_22", C_CHUNKS_MUT_U32_16_22, chunks_mut_u32::<16, 22> as fn() -> Out),
    ("chunks_u32_16_23", C_CHUNKS_U32_16_23, chunks_u32::<16, 23> as fn() -> Out),
    ("chunks_mut_u32_16_23", C_CHUNKS_MUT_U32_16_23, chunks_mut_u32::<16, 23> as fn() -> Out),
    ("chunks_u32_16_24", C_CHUNKS_U32_16_24, chunks_u32::<16, 24> as fn() -> Out),
    ("chunks_mut_u32_16_24", C_CHUNKS_MUT_U32_16_24, chunks_mut_u32::<16, 24> as fn() -> Out),
    ("chunks_u32_16_25", C_CHUNKS_U32_16_25, chunks_u32::<16, 25> as fn() -> Out),
    ("chunks_mut_u32_16_25", C_CHUNKS_MUT_U32_16_25, chunks_mut_u32::<16, 25> as fn() -> Out),
    ("chunks_u32_16_26", C_CHUNKS_U32_16_26, chunks_u32::<16, 26> as fn() -> Out),
    ("chunks_mut_u32_16_26", C_CHUNKS_MUT_U32_16_26, chunks_mut_u32::<16, 26> as fn() -> Out),
    ("chunks_u32_16_27", C_CHUNKS_U32_16_27, chunks_u32::<16, 27> as fn() -> Out),
    ("chunks_mut_u32_16_27", C_CHUNKS_MUT_U32_16_27, chunks_mut_u32::<16, 27> as fn() -> Out),
    ("chunks_u32_16_28", C_CHUNKS_U32_16_28, chunks_u32::<16, 28> as fn() -> Out),
    ("chunks_mut_u32_16_28", C_CHUNKS_MUT_U32_16_28, chunks_mut_u32::<16, 28> as fn() -> Out),
    ("chunks_u32_16_29", C_CHUNKS_U32_16_29, chunks_u32::<16, 29> as fn() -> Out),
    ("chunks_mut_u32_16_29", C_CHUNKS_MUT_U32_16_29, chunks_mut_u32::<16, 29> as fn() -> Out),
    ("chunks_u32_16_30", C_CHUNKS_U32_16_30, chunks_u32::<16, 30> as fn() -> Out),
    ("chunks_mut_u32_16_30", C_CHUNKS_MUT_U32_16_30, chunks_mut_u32::<16, 30> as fn() -> Out),
    ("chunks_u32_16_31", C_CHUNKS_U32_16_31, chunks_u32::<16, 31> as fn() -> Out),
    ("chunks_mut_u32_16_31", C_CHUNKS_MUT_U32_16_31, chunks_mut_u32::<16, 31> as fn() -> Out),
    ("chunks_u32_16_32", C_CHUNKS_U32_16_32, chunks_u32::<16, 32> as fn() -> Out),
    ("chunks_mut_u32_16_32", C_CHUNKS_MUT_U32_16_32, chunks_mut_u32::<16, 32> as fn() -> Out),
    ("chunks_u32_16_33", C_CHUNKS_U32_16_33, chunks_u32::<16, 33> as fn() -> Out),
    ("chunks_mut_u32_16_33", C_CHUNKS_MUT_U32_16_33, chunks_mut_u32::<16, 33> as fn() -> Out),
    ("chunks_u32_16_34", C_CHUNKS_U32_16_34, chunks_u32::<16, 34> as fn() -> Out),
    ("chunks_mut_u32_16_34", C_CHUNKS_MUT_U32_16_34, chunks_mut_u32::<16, 34> as fn() -> Out),
    ("chunks_u32_16_35", C_CHUNKS_U32_16_35, chunks_u32::<16, 35> as fn() -> Out),
    ("chunks_mut_u32_16_35", C_CHUNKS_MUT_U32_16_35, chunks_mut_u32::<16, 35> as fn() -> Out),
    ("chunks_u32_16_36", C_CHUNKS_U32_16_36, chunks_u32::<16, 36> as fn() -> Out),
    ("chunks_mut_u32_16_36", C_CHUNKS_MUT_U32_16_36, chunks_mut_u32::<16, 36> as fn() -> Out),
    ("chunks_u32_16_37", C_CHUNKS_U32_16_37, chunks_u32::<16, 37> as fn() -> Out),
    ("chunks_mut_u32_16_37", C_CHUNKS_MUT_U32_16_37, chunks_mut_u32::<16, 37> as fn() -> Out),
    ("chunks_u32_16_38", C_CHUNKS_U32_16_38, chunks_u32::<16, 38> as fn() -> Out),
    ("chunks_mut_u32_16_38", C_CHUNKS_MUT_U32_16_38, chunks_mut_u32::<16, 38> as fn() -> Out),
    ("chunks_u32_16_39", C_CHUNKS_U32_16_39, chunks_u32::<16, 39> as fn() -> Out),
    ("chunks_mut_u32_16_39", C_CHUNKS_MUT_U32_16_39, chunks_mut_u32::<16, 39> as fn() -> Out),
    ("chunks_u32_16_40", C_CHUNKS_U32_16_40, chunks_u32::<16, 40> as fn() -> Out),
    ("chunks_mut_u32_16_40", C_CHUNKS_MUT_U32_16_40, chunks_mut_u32::<16, 40> as fn() -> Out),
    ("chunks_u32_16_41", C_CHUNKS_U32_16_41, chunks_u32::<16, 41> as fn() -> Out),
    ("chunks_mut_u32_16_41", C_CHUNKS_MUT_U32_16_41, chunks_mut_u32::<16, 41> as fn() -> Out),
    ("chunks_u32_16_42", C_CHUNKS_U32_16_42, chunks_u32::<16, 42> as fn() -> Out),
    ("chunks_mut_u32_16_42", C_CHUNKS_MUT_U32_16_42, chunks_mut_u32::<16, 42> as fn() -> Out),
    ("chunks_u32_16_43", C_CHUNKS_U32_16_43, chunks_u32::<16, 43> as fn() -> Out),
    ("chunks_mut_u32_16_43", C_CHUNKS_MUT_U32_16_43, chunks_mut_u32::<16, 43> as fn() -> Out),
    ("chunks_u32_16_44", C_CHUNKS_U32_16_44, chunks_u32::<16, 44> as fn() -> Out),
    ("chunks_mut_u32_16_44", C_CHUNKS_MUT_U32_16_44, chunks_mut_u32::<16, 44> as fn() -> Out),
    ("chunks_u32_16_45", C_CHUNKS_U32_16_45, chunks_u32::<16, 45> as fn() -> Out),
    ("chunks_mut_u32_16_45", C_CHUNKS_MUT_U32_16_45, chunks_mut_u32::<16, 45> as fn() -> Out),
    ("chunks_u32_16_46", C_CHUNKS_U32_16_46, chunks_u32::<16, 46> as fn() -> Out),
    ("chunks_mut_u32_16_46", C_CHUNKS_MUT_U32_16_46, chunks_mut_u32::<16, 46> as fn() -> Out),
    ("chunks_u32_16_47", C_CHUNKS_U32_16_47, chunks_u32::<16, 47> as fn() -> Out),
    ("chunks_mut_u32_16_47", C_CHUNKS_MUT_U32_16_47, chunks_mut_u32::<16, 47> as fn() -> Out),
    ("chunks_u32_16_48", C_CHUNKS_U32_16_48, chunks_u32::<16, 48> as fn() -> Out),
    ("chunks_mut_u32_16_48", C_CHUNKS_MUT_U32_16_48, chunks_mut_u32::<16, 48> as fn() -> Out),
    ("chunks_u32_16_49", C_CHUNKS_U32_16_49, chunks_u32::<16, 49> as fn() -> Out),
    ("chunks_mut_u32_16_49", C_CHUNKS_MUT_U32_16_49, chunks_mut_u32::<16, 49> as fn() -> Out),
    ("chunks_u32_16_50", C_CHUNKS_U32_16_50, chunks_u32::<16, 50> as fn() -> Out),
    ("chunks_mut_u32_16_50", C_CHUNKS_MUT_U32_16_50, chunks_mut_u32::<16, 50> as fn() -> Out),
    ("reinterpret_u32_16_0", C_REINTERPRET_U32_16_0, reinterpret_u32::<16, 0> as fn() -> Out),
    ("reinterpret_u32_16_1", C_REINTERPRET_U32_16_1, reinterpret_u32::<16, 1> as fn() -> Out),
    ("reinterpret_u32_16_15", C_REINTERPRET_U32_16_15, reinterpret_u32::<16, 15> as fn() -> Out),
    ("reinterpret_u32_16_16", C_REINTERPRET_U32_16_16, reinterpret_u32::<16, 16> as fn() -> Out),
    ("reinterpret_u32_16_17", C_REINTERPRET_U32_16_17, reinterpret_u32::<16, 17> as fn() -> Out),
    ("reinterpret_u32_16_32", C_REINTERPRET_U32_16_32, reinterpret_u32::<16, 32> as fn() -> Out),
    ("reinterpret_u32_16_50", C_REINTERPRET_U32_16_50, reinterpret_u32::<16, 50> as fn() -> Out),
    ("byvalue_u32_16", C_BYVALUE_U32_16, byvalue_u32::<16> as fn() -> Out),
    ("native_chunks_u32_16_0", C_NATIVE_CHUNKS_U32_16_0, native_chunks_u32::<16, 0> as fn() -> Out),
    ("native_chunks_u32_16_1", C_NATIVE_CHUNKS_U32_16_1, native_chunks_u32::<16, 1> as fn() -> Out),
    ("native_chunks_u32_16_2", C_NATIVE_CHUNKS_U32_16_2, native_chunks_u32::<16, 2> as fn() -> Out),
    ("native_chunks_u32_16_3", C_NATIVE_CHUNKS_U32_16_3, native_chunks_u32::<16, 3> as fn() -> Out),
    ("chunks_u32_17_0", C_CHUNKS_U32_17_0, chunks_u32::<17, 0> as fn() -> Out),
    ("chunks_mut_u32_17_0", C_CHUNKS_MUT_U32_17_0, chunks_mut_u32::<17, 0> as fn() -> Out),
    ("chunks_u32_17_1", C_CHUNKS_U32_17_1, chunks_u32::<17, 1> as fn() -> Out),
    ("chunks_mut_u32_17_1", C_CHUNKS_MUT_U32_17_1, chunks_mut_u32::<17, 1> as fn() -> Out),
    ("chunks_u32_17_2", C_CHUNKS_U32_17_2, chunks_u32::<17, 2> as fn() -> Out),
    ("chunks_mut_u32_17_2", C_CHUNKS_MUT_U32_17_2, chunks_mut_u32::<17, 2> as fn() -> Out),
    ("chunks_u32_17_3", C_CHUNKS_U32_17_3, chunks_u32::<17, 3> as fn() -> Out),
    ("chunks_mut_u32_17_3", C_CHUNKS_MUT_U32_17_3, chunks_mut_u32::<17, 3> as fn() -> Out),
    ("chunks_u32_17_4", C_CHUNKS_U32_17_4, chunks_u32::<17, 4> as fn() -> Out),
    ("chunks_mut_u32_17_4", C_CHUNKS_MUT_U32_17_4, chunks_mut_u32::<17, 4> as fn() -> Out),
    ("chunks_u32_17_5", C_CHUNKS_U32_17_5, chunks_u32::<17, 5> as fn() -> Out),
    ("chunks_mut_u32_17_5", C_CHUNKS_MUT_U32_17_5, chunks_mut_u32::<17, 5> as fn() -> Out),
    ("chunks_u32_17_6", C_CHUNKS_U32_17_6, chunks_u32::<17, 6> as fn() -> Out),
    ("chunks_mut_u32_17_6", C_CHUNKS_MUT_U32_17_6, chunks_mut_u32::<17, 6> as fn() -> Out),
    ("chunks_u32_17_7", C_CHUNKS_U32_17_7, chunks_u32::<17, 7> as fn() -> Out),
    ("chunks_mut_u32_17_7", C_CHUNKS_MUT_U32_17_7, chunks_mut_u32::<17, 7> as fn() -> Out),
    ("chunks_u32_17_8", C_CHUNKS_U32_17_8, chunks_u32::<17, 8> as fn() -> Out),
    ("chunks_mut_u32_17_8", C_CHUNKS_MUT_U32_17_8, chunks_mut_u32::<17, 8> as fn() -> Out),
    ("chunks_u32_17_9", C_CHUNKS_U32_17_9, chunks_u32::<17, 9> as fn() -> Out),
    ("chunks_mut_u32_17_9", C_CHUNKS_MUT_U32_17_9, chunks_mut_u32::<17, 9> as fn() -> Out),
    ("chunks_u32_17_10", C_CHUNKS_U32_17_10, chunks_u32::<17, 10> as fn() -> Out),
    ("chunks_mut_u32_17_10", C_CHUNKS_MUT_U32_17_10, chunks_mut_u32::<17, 10> as fn() -> Out),
    ("chunks_u32_17_11", C_CHUNKS_U32_17_11, chunks_u32::<17, 11> as fn() -> Out),
    ("chunks_mut_u32_17_11", C_CHUNKS_MUT_U32_17_11, chunks_mut_u32::<17, 11> as fn() -> Out),
    ("chunks_u32_17_12", C_CHUNKS_U32_17_12, chunks_u32::<17, 12> as fn() -> Out),
    ("chunks_mut_u32_17_12", C_CHUNKS_MUT_U32_17_12, chunks_mut_u32::<17, 12> as fn() -> Out),
    ("chunks_u32_17_13", C_CHUNKS_U32_17_13, chunks_u32::<17, 13> as fn() -> Out),
    ("chunks_mut_u32_17_13", C_CHUNKS_MUT_U32_17_13, chunks_mut_u32::<17, 13> as fn() -> Out),
    ("chunks_u32_17_14", C_CHUNKS_U32_17_14, chunks_u32::<17, 14> as fn() -> Out),
    ("chunks_mut_u32_17_14", C_CHUNKS_MUT_U32_17_14, chunks_mut_u32::<17, 14> as fn() -> Out),
    ("chunks_u32_17_15", C_CHUNKS_U32_17_15, chunks_u32::<17, 15> as fn() -> Out),
    ("chunks_mut_u32_17_15", C_CHUNKS_MUT_U32_17_15, chunks_mut_u32::<17, 15> as fn() -> Out),
    ("chunks_u32_17_16", C_CHUNKS_U32_17_16, chunks_u32::<17, 16> as fn() -> Out),
    ("chunks_mut_u32_17_16", C_CHUNKS_MUT_U32_17_16, chunks_mut_u32::<17, 16> as fn() -> Out),
    ("chunks_u32_17_17", C_CHUNKS_U32_17_17, chunks_u32::<17, 17> as fn() -> Out),
    ("chunks_mut_u32_17_17", C_CHUNKS_MUT_U32_17_17, chunks_mut_u32::<17, 17> as fn() -> Out),
    ("chunks_u32_17_18", C_CHUNKS_U32_17_18, chunks_u32::<17, 18> as fn() -> Out),
    ("chunks_mut_u32_17_18", C_CHUNKS_MUT_U32_17_18, chunks_mut_u32::<17, 18> as fn() -> Out),
    ("chunks_u32_17_19", C_CHUNKS_U32_17_19, chunks_u32::<17, 19> as fn() -> Out),
    ("chunks_mut_u32_17_19", C_CHUNKS_MUT_U32_17_19, chunks_mut_u32::<17, 19> as fn() -> Out),
    ("chunks_u32_17_20", C_CHUNKS_U32_17_20, chunks_u32::<17, 20> as fn() -> Out),
    ("chunks_mut_u32_17_20", C_CHUNKS_MUT_U32_17_20, chunks_mut_u32::<17, 20> as fn() -> Out),
    ("chunks_u32_17_21", C_CHUNKS_U32_17_21, chunks_u32::<17, 21> as fn() -> Out),
    ("chunks_mut_u32_17_21", C_CHUNKS_MUT_U32_17_21, chunks_mut_u32::<17, 21> as fn() -> Out),
    ("chunks_u32_17_22", C_CHUNKS_U32_17_22, chunks_u32::<17, 22> as fn() -> Out),
    ("chunks_mut_u32_17_22", C_CHUNKS_MUT_U32_17_22, chunks_mut_u32::<17, 22> as fn() -> Out),
    ("chunks_u32_17_23", C_CHUNKS_U32_17_23, chunks_u32::<17, 23> as fn() -> Out),
    ("chunks_mut_u32_17_23", C_CHUNKS_MUT_U32_17_23, chunks_mut_u32::<17, 23> as fn() -> Out),
    ("chunks_u32_17_24", C_CHUNKS_U32_17_24, chunks_u32::<17, 24> as fn() -> Out),
    ("chunks_mut_u32_17_24", C_CHUNKS_MUT_U32_17_24, chunks_mut_u32::<17, 24> as fn() -> Out),
    ("chunks_u32_17_25", C_CHUNKS_U32_17_25, chunks_u32::<17, 25> as fn() -> Out),
    ("chunks_mut_u32_17_25", C_CHUNKS_MUT_U32_17_25, chunks_mut_u32::<17, 25> as fn() -> Out),
    ("chunks_u32_17_26", C_CHUNKS_U32_17_26, chunks_u32::<17, 26> as fn() -> Out),
    ("chunks_mut_u32_17_26", C_CHUNKS_MUT_U32_17_26, chunks_mut_u32::<17, 26> as fn() -> Out),
    ("chunks_u32_17_27", C_CHUNKS_U32_17_27, chunks_u32::<17, 27> as fn() -> Out),
    ("chunks_mut_u32_17_27", C_CHUNKS_MUT_U32_17_27, chunks_mut_u32::<17, 27> as fn() -> Out),
    ("chunks_u32_17_28", C_CHUNKS_U32_17_28, chunks_u32::<17, 28> as fn() -> Out),
    ("chunks_mut_u32_17_28", C_CHUNKS_MUT_U32_17_28, chunks_mut_u32::<17, 28> as fn() -> Out),
    ("chunks_u32_17_29", C_CHUNKS_U32_17_29, chunks_u32::<17, 29> as fn() -> Out),
    ("chunks_mut_u32_17_29", C_CHUNKS_MUT_U32_17_29, chunks_mut_u32::<17, 29> as fn() -> Out),
    ("chunks_u32_17_30", C_CHUNKS_U32_17_30, chunks_u32::<17, 30> as fn() -> Out),
    ("chunks_mut_u32_17_30", C_CHUNKS_MUT_U32_17_30, chunks_mut_u32::<17, 30> as fn() -> Out),
    ("chunks_u32_17_31", C_CHUNKS_U32_17_31, chunks_u32::<17, 31> as fn() -> Out),
    ("chunks_mut_u32_17_31", C_CHUNKS_MUT_U32_17_31, chunks_mut_u32::<17, 31> as fn() -> Out),
    ("chunks_u32_17_32", C_CHUNKS_U32_17_32, chunks_u32::<17, 32> as fn() -> Out),
    ("chunks_mut_u32_17_32", C_CHUNKS_MUT_U32_17_32, chunks_mut_u32::<17, 32> as fn() -> Out),
    ("chunks_u32_17_33", C_CHUNKS_U32_17_33, chunks_u32::<17, 33> as fn() -> Out),
    ("chunks_mut_u32_17_33", C_CHUNKS_MUT_U32_17_33, chunks_mut_u32::<17, 33> as fn() -> Out),
    ("chunks_u32_17_34", C_CHUNKS_U32_17_34, chunks_u32::<17, 34> as fn() -> Out),
    ("chunks_mut_u32_17_34", C_CHUNKS_MUT_U32_17_34, chunks_mut_u32::<17, 34> as fn() -> Out),
    ("chunks_u32_17_35", C_CHUNKS_U32_17_35, chunks_u32::<17, 35> as fn() -> Out),
    ("chunks_mut_u32_17_35", C_CHUNKS_MUT_U32_17_35, chunks_mut_u32::<17, 35> as fn() -> Out),
    ("chunks_u32_17_36", C_CHUNKS_U32_17_36, chunks_u32::<17, 36> as fn() -> Out),
    ("chunks_mut_u32_17_36", C_CHUNKS_MUT_U32_17_36, chunks_mut_u32::<17, 36> as fn() -> Out),
    ("chunks_u32_17_37", C_CHUNKS_U32_17_37, chunks_u32::<17, 37> as fn() -> Out),
    ("chunks_mut_u32_17_37", C_CHUNKS_MUT_U32_17_37, chunks_mut_u32::<17, 37> as fn() -> Out),
    ("chunks_u32_17_38", C_CHUNKS_U32_17_38, chunks_u32::<17, 38> as fn() -> Out),
    ("chunks_mut_u32_17_38", C_CHUNKS_MUT_U32_17_38, chunks_mut_u32::<17, 38> as fn() -> Out),
    ("chunks_u32_17_39", C_CHUNKS_U32_17_39, chunks_u32::<17, 39> as fn() -> Out),
    ("chunks_mut_u32_17_39", C_CHUNKS_MUT_U32_17_39, chunks_mut_u32::<17, 39> as fn() -> Out),
    ("chunks_u32_17_40", C_CHUNKS_U32_17_40, chunks_u32::<17, 40> as fn() -> Out),
    ("chunks_mut_u32_17_40", C_CHUNKS_MUT_U32_17_40, chunks_mut_u32::<17, 40> as fn() -> Out),
    ("chunks_u32_17_41", C_CHUNKS_U32_17_41, chunks_u32::<17, 41> as fn() -> Out),
    ("chunks_mut_u32_17_41", C_CHUNKS_MUT_U32_17_41, chunks_mut_u32::<17, 41> as fn() -> Out),
    ("chunks_u32_17_42", C_CHUNKS_U32_17_42, chunks_u32::<17, 42> as fn() -> Out),
    ("chunks_mut_u32_17_42", C_CHUNKS_MUT_U32_17_42, chunks_mut_u32::<17, 42> as fn() -> Out),
    ("chunks_u32_17_43", C_CHUNKS_U32_17_43, chunks_u32::<17, 43> as fn() -> Out),
    ("chunks_mut_u32_17_43", C_CHUNKS_MUT_U32_17_43, chunks_mut_u32::<17, 43> as fn() -> Out),
    ("chunks_u32_17_44", C_CHUNKS_U32_17_44, chunks_u32::<17, 44> as fn() -> Out),
    ("chunks_mut_u32_17_44", C_CHUNKS_MUT_U32_17_44, chunks_mut_u32::<17, 44> as fn() -> Out),
    ("chunks_u32_17_45", C_CHUNKS_U32_17_45, chunks_u32::<17, 45> as fn() -> Out),
    ("chunks_mut_u32_17_45", C_CHUNKS_MUT_U32_17_45, chunks_mut_u32::<17, 45> as fn() -> Out),
    ("chunks_u32_17_46", C_CHUNKS_U32_17_46, chunks_u32::<17, 46> as fn() -> Out),
    ("chunks_mut_u32_17_46", C_CHUNKS_MUT_U32_17_46, chunks_mut_u32::<17, 46> as fn() -> Out),
    ("chunks_u32_17_47", C_CHUNKS_U32_17_47, chunks_u32::<17, 47> as fn() -> Out),
    ("chunks_mut_u32_17_47", C_CHUNKS_MUT_U32_17_47, chunks_mut_u32::<17, 47> as fn() -> Out),
    ("chunks_u32_17_48", C_CHUNKS_U32_17_48, chunks_u32::<17, 48> as fn() -> Out),
    ("chunks_mut_u32_17_48", C_CHUNKS_MUT_U32_17_48, chunks_mut_u32::<17, 48> as fn() -> Out),
    ("chunks_u32_17_49", C_CHUNKS_U32_17_49, chunks_u32::<17, 49> as fn() -> Out),
    ("chunks_mut_u32_17_49", C_CHUNKS_MUT_U32_17_49, chunks_mut_u32::<17, 49> as fn() -> Out),
    ("chunks_u32_17_50", C_CHUNKS_U32_17_50, chunks_u32::<17, 50> as fn() -> Out),
    ("chunks_mut_u32_17_50", C_CHUNKS_MUT_U32_17_50, chunks_mut_u32::<17, 50> as fn() -> Out),
    ("chunks_u32_17_51", C_CHUNKS_U32_17_51, chunks_u32::<17, 51> as fn() -> Out),
    ("chunks_mut_u32_17_51", C_CHUNKS_MUT_U32_17_51, chunks_mut_u32::<17, 51> as fn() -> Out),
    ("chunks_u32_17_52", C_CHUNKS_U32_17_52, chunks_u32::<17, 52> as fn() -> Out),
    ("chunks_mut_u32_17_52", C_CHUNKS_MUT_U32_17_52, chunks_mut_u32::<17, 52> as fn() -> Out),
    ("chunks_u32_17_53", C_CHUNKS_U32_17_53, chunks_u32::<17, 53> as fn() -> Out),
    ("chunks_mut_u32_17_53", C_CHUNKS_MUT_U32_17_53, chunks_mut_u32::<17, 53> as fn() -> Out),
    ("reinterpret_u32_17_0", C_REINTERPRET_U32_17_0, reinterpret_u32::<17, 0> as fn() -> Out),
    ("reinterpret_u32_17_1", C_REINTERPRET_U32_17_1, reinterpret_u32::<17, 1> as fn() -> Out),
    ("reinterpret_u32_17_16", C_REINTERPRET_U32_17_16, reinterpret_u32::<17, 16> as fn() -> Out),
    ("reinterpret_u32_17_17", C_REINTERPRET_U32_17_17, reinterpret_u32::<17, 17> as fn() -> Out),
    ("reinterpret_u32_17_18", C_REINTERPRET_U32_17_18, reinterpret_u32::<17, 18> as fn() -> Out),
    ("reinterpret_u32_17_34", C_REINTERPRET_U32_17_34, reinterpret_u32::<17, 34> as fn() -> Out),
    ("reinterpret_u32_17_53", C_REINTERPRET_U32_17_53, reinterpret_u32::<17, 53> as fn() -> Out),
    ("byvalue_u32_17", C_BYVALUE_U32_17, byvalue_u32::<17> as fn() -> Out),
    ("native_chunks_u32_17_0", C_NATIVE_CHUNKS_U32_17_0, native_chunks_u32::<17, 0> as fn() -> Out),
    ("native_chunks_u32_17_1", C_NATIVE_CHUNKS_U32_17_1, native_chunks_u32::<17, 1> as fn() -> Out),
    ("native_chunks_u32_17_2", C_NATIVE_CHUNKS_U32_17_2, native_chunks_u32::<17, 2> as fn() -> Out),
    ("native_chunks_u32_17_3", C_NATIVE_CHUNKS_U32_17_3, native_chunks_u32::<17, 3> as fn() -> Out),
    ("chunks_u32_33_0", C_CHUNKS_U32_33_0, chunks_u32::<33, 0> as fn() -> Out),
    ("chunks_mut_u32_33_0", C_CHUNKS_MUT_U32_33_0, chunks_mut_u32::<33, 0> as fn() -> Out),
    ("chunks_u32_33_1", C_CHUNKS_U32_33_1, chunks_u32::<33, 1> as fn() -> Out),
    ("chunks_mut_u32_33_1", C_CHUNKS_MUT_U32_33_1, chunks_mut_u32::<33, 1> as fn() -> Out),
    ("chunks_u32_33_32", C_CHUNKS_U32_33_32, chunks_u32::<33, 32> as fn() -> Out),
    ("chunks_mut_u32_33_32", C_CHUNKS_MUT_U32_33_32, chunks_mut_u32::<33, 32> as fn() -> Out),
    ("chunks_u32_33_33", C_CHUNKS_U32_33_33, chunks_u32::<33, 33> as fn() -> Out),
    ("chunks_mut_u32_33_33", C_CHUNKS_MUT_U32_33_33, chunks_mut_u32::<33, 33> as fn() -> Out),
    ("chunks_u32_33_34", C_CHUNKS_U32_33_34, chunks_u32::<33, 34> as fn() -> Out),
    ("chunks_mut_u32_33_34", C_CHUNKS_MUT_U32_33_34, chunks_mut_u32::<33, 34> as fn() -> Out),
    ("chunks_u32_33_65", C_CHUNKS_U32_33_65, chunks_u32::<33, 65> as fn() -> Out),
    ("chunks_mut_u32_33_65", C_CHUNKS_MUT_U32_33_65, chunks_mut_u32::<33, 65> as fn() -> Out),
    ("chunks_u32_33_66", C_CHUNKS_U32_33_66, chunks_u32::<33, 66> as fn() -> Out),
    ("chunks_mut_u32_33_66", C_CHUNKS_MUT_U32_33_66, chunks_mut_u32::<33, 66> as fn() -> Out),
    ("chunks_u32_33_67", C_CHUNKS_U32_33_67, chunks_u32::<33, 67> as fn() -> Out),
    ("chunks_mut_u32_33_67", C_CHUNKS_MUT_U32_33_67, chunks_mut_u32::<33, 67> as fn() -> Out),
    ("chunks_u32_33_98", C_CHUNKS_U32_33_98, chunks_u32::<33, 98> as fn() -> Out),
    ("chunks_mut_u32_33_98", C_CHUNKS_MUT_U32_33_98, chunks_mut_u32::<33, 98> as fn() -> Out),
    ("chunks_u32_33_99", C_CHUNKS_U32_33_99, chunks_u32::<33, 99> as fn() -> Out),
    ("chunks_mut_u32_33_99", C_CHUNKS_MUT_U32_33_99, chunks_mut_u32::<33, 99> as fn() -> Out),
    ("chunks_u32_33_100", C_CHUNKS_U32_33_100, chunks_u32::<33, 100> as fn() -> Out),
    ("chunks_mut_u32_33_100", C_CHUNKS_MUT_U32_33_100, chunks_mut_u32::<33, 100> as fn() -> Out),
    ("chunks_u32_33_101", C_CHUNKS_U32_33_101, chunks_u32::<33, 101> as fn() -> Out),
    ("chunks_mut_u32_33_101", C_CHUNKS_MUT_U32_33_101, chunks_mut_u32::<33, 101> as fn() -> Out),
    ("reinterpret_u32_33_0", C_REINTERPRET_U32_33_0, reinterpret_u32::<33, 0> as fn() -> Out),
    ("reinterpret_u32_33_1", C_REINTERPRET_U32_33_1, reinterpret_u32::<33, 1> as fn() -> Out),
    ("reinterpret_u32_33_32", C_REINTERPRET_U32_33_32, reinterpret_u32::<33, 32> as fn() -> Out),
    ("reinterpret_u32_33_33", C_REINTERPRET_U32_33_33, reinterpret_u32::<33, 33> as fn() -> Out),
    ("reinterpret_u32_33_34", C_REINTERPRET_U32_33_34, reinterpret_u32::<33, 34> as fn() -> Out),
    ("reinterpret_u32_33_66", C_REINTERPRET_U32_33_66, reinterpret_u32::<33, 66> as fn() -> Out),
    ("reinterpret_u32_33_101", C_REINTERPRET_U32_33_101, reinterpret_u32::<33, 101> as fn() -> Out),
    ("byvalue_u32_33", C_BYVALUE_U32_33, byvalue_u32::<33> as fn() -> Out),
    ("native_chunks_u32_33_0", C_NATIVE_CHUNKS_U32_33_0, native_chunks_u32::<33, 0> as fn() -> Out),
    ("native_chunks_u32_33_1", C_NATIVE_CHUNKS_U32_33_1, native_chunks_u32::<33, 1> as fn() -> Out),
    ("native_chunks_u32_33_2", C_NATIVE_CHUNKS_U32_33_2, native_chunks_u32::<33, 2> as fn() -> Out),
    ("native_chunks_u32_33_3", C_NATIVE_CHUNKS_U32_33_3, native_chunks_u32::<33, 3> as fn() -> Out),
    ("chunks_u32_64_0", C_CHUNKS_U32_64_0, chunks_u32::<64, 0> as fn() -> Out),
    ("chunks_mut_u32_64_0", C_CHUNKS_MUT_U32_64_0, chunks_mut_u32::<64, 0> as fn() -> Out),
    ("chunks_u32_64_1", C_CHUNKS_U32_64_1, chunks_u32::<64, 1> as fn() -> Out),
    ("chunks_mut_u32_64_1", C_CHUNKS_MUT_U32_64_1, chunks_mut_u32::<64, 1> as fn() -> Out),
    ("chunks_u32_64_63", C_CHUNKS_U32_64_63, chunks_u32::<64, 63> as fn() -> Out),
    ("chunks_mut_u32_64_63", C_CHUNKS_MUT_U32_64_63, chunks_mut_u32::<64, 63> as fn() -> Out),
    ("chunks_u32_64_64", C_CHUNKS_U32_64_64, chunks_u32::<64, 64> as fn() -> Out),
    ("chunks_mut_u32_64_64", C_CHUNKS_MUT_U32_64_64, chunks_mut_u32::<64, 64> as fn() -> Out),
    ("chunks_u32_64_65", C_CHUNKS_U32_64_65, chunks_u32::<64, 65> as fn() -> Out),
    ("chunks_mut_u32_64_65", C_CHUNKS_MUT_U32_64_65, chunks_mut_u32::<64, 65> as fn() -> Out),
    ("chunks_u32_64_127", C_CHUNKS_U32_64_127, chunks_u32::<64, 127> as fn() -> Out),
    ("chunks_mut_u32_64_127", C_CHUNKS_MUT_U32_64_127, chunks_mut_u32::<64, 127> as fn() -> Out),
    ("chunks_u32_64_128", C_CHUNKS_U32_64_128, chunks_u32::<64, 128> as fn() -> Out),
    ("chunks_mut_u32_64_128", C_CHUNKS_MUT_U32_64_128, chunks_mut_u32::<64, 128> as fn() -> Out),
    ("chunks_u32_64_129", C_CHUNKS_U32_64_129, chunks_u32::<64, 129> as fn() -> Out),
    ("chunks_mut_u32_64_129", C_CHUNKS_MUT_U32_64_129, chunks_mut_u32::<64, 129> as fn() -> Out),
    ("chunks_u32_64_191", C_CHUNKS_U32_64_191, chunks_u32::<64, 191> as fn() -> Out),
    ("chunks_mut_u32_64_191", C_CHUNKS_MUT_U32_64_191, chunks_mut_u32::<64, 191> as fn() -> Out),
    ("chunks_u32_64_192", C_CHUNKS_U32_64_192, chunks_u32::<64, 192> as fn() -> Out),
    ("chunks_mut_u32_64_192", C_CHUNKS_MUT_U32_64_192, chunks_mut_u32::<64, 192> as fn() -> Out),
    ("chunks_u32_64_193", C_CHUNKS_U32_64_193, chunks_u32::<64, 193> as fn() -> Out),
    ("chunks_mut_u32_64_193", C_CHUNKS_MUT_U32_64_193, chunks_mut_u32::<64, 193> as fn() -> Out),
    ("chunks_u32_64_194", C_CHUNKS_U32_64_194, chunks_u32::<64, 194> as fn() -> Out),
    ("chunks_mut_u32_64_194", C_CHUNKS_MUT_U32_64_194, chunks_mut_u32::<64, 194> as fn() -> Out),
    ("reinterpret_u32_64_0", C_REINTERPRET_U32_64_0, reinterpret_u32::<64, 0> as fn() -> Out),
    ("reinterpret_u32_64_1", C_REINTERPRET_U32_64_1, reinterpret_u32::<64, 1> as fn() -> Out),
    ("reinterpret_u32_64_63", C_REINTERPRET_U32_64_63, reinterpret_u32::<64, 63> as fn() -> Out),
    ("reinterpret_u32_64_64", C_REINTERPRET_U32_64_64, reinterpret_u32::<64, 64> as fn() -> Out),
    ("reinterpret_u32_64_65", C_REINTERPRET_U32_64_65, reinterpret_u32::<64, 65> as fn() -> Out),
    ("reinterpret_u32_64_128", C_REINTERPRET_U32_64_128, reinterpret_u32::<64, 128> as fn() -> Out),
    ("reinterpret_u32_64_194", C_REINTERPRET_U32_64_194, reinterpret_u32::<64, 194> as fn() -> Out),
    ("byvalue_u32_64", C_BYVALUE_U32_64, byvalue_u32::<64> as fn() -> Out),
    ("native_chunks_u32_64_0", C_NATIVE_CHUNKS_U32_64_0, native_chunks_u32::<64, 0> as fn() -> Out),
    ("native_chunks_u32_64_1", C_NATIVE_CHUNKS_U32_64_1, native_chunks_u32::<64, 1> as fn() -> Out),
    ("native_chunks_u32_64_2", C_NATIVE_CHUNKS_U32_64_2, native_chunks_u32::<64, 2> as fn() -> Out),
    ("native_chunks_u32_64_3", C_NATIVE_CHUNKS_U32_64_3, native_chunks_u32::<64, 3> as fn() -> Out),
    ("chunks_u32_100_0", C_CHUNKS_U32_100_0, chunks_u32::<100, 0> as fn() -> Out),
    ("chunks_mut_u32_100_0", C_CHUNKS_MUT_U32_100_0, chunks_mut_u32::<100, 0> as fn() -> Out),
    ("chunks_u32_100_1", C_CHUNKS_U32_100_1, chunks_u32::<100, 1> as fn() -> Out),
    ("chunks_mut_u32_100_1", C_CHUNKS_MUT_U32_100_1, chunks_mut_u32::<100, 1> as fn() -> Out),
    ("chunks_u32_100_99", C_CHUNKS_U32_100_99, chunks_u32::<100, 99> as fn() -> Out),
    ("chunks_mut_u32_100_99", C_CHUNKS_MUT_U32_100_99, chunks_mut_u32::<100, 99> as fn() -> Out),
    ("chunks_u32_100_100", C_CHUNKS_U32_100_100, chunks_u32::<100, 100> as fn() -> Out),
    ("chunks_mut_u32_100_100", C_CHUNKS_MUT_U32_100_100, chunks_mut_u32::<100, 100> as fn() -> Out),
    ("chunks_u32_100_101", C_CHUNKS_U32_100_101, chunks_u32::<100, 101> as fn() -> Out),
    ("chunks_mut_u32_100_101", C_CHUNKS_MUT_U32_100_101, chunks_mut_u32::<100, 101> as fn() -> Out),
    ("chunks_u32_100_199", C_CHUNKS_U32_100_199, chunks_u32::<100, 199> as fn() -> Out),
    ("chunks_mut_u32_100_199", C_CHUNKS_MUT_U32_100_199, chunks_mut_u32::<100, 199> as fn() -> Out),
    ("chunks_u32_100_200", C_CHUNKS_U32_100_200, chunks_u32::<100, 200> as fn() -> Out),
    ("chunks_mut_u32_100_200", C_CHUNKS_MUT_U32_100_200, chunks_mut_u32::<100, 200> as fn() -> Out),
    ("chunks_u32_100_201", C_CHUNKS_U32_100_201, chunks_u32::<100, 201> as fn() -> Out),
    ("chunks_mut_u32_100_201", C_CHUNKS_MUT_U32_100_201, chunks_mut_u32::<100, 201> as fn() -> Out),
    ("chunks_u32_100_302", C_CHUNKS_U32_100_302, chunks_u32::<100, 302> as fn() -> Out),
    ("chunks_mut_u32_100_302", C_CHUNKS_MUT_U32_100_302, chunks_mut_u32::<100, 302> as fn() -> Out),
    ("reinterpret_u32_100_0", C_REINTERPRET_U32_100_0, reinterpret_u32::<100, 0> as fn() -> Out),
    ("reinterpret_u32_100_1", C_REINTERPRET_U32_100_1, reinterpret_u32::<100, 1> as fn() -> Out),
    ("reinterpret_u32_100_99", C_REINTERPRET_U32_100_99, reinterpret_u32::<100, 99> as fn() -> Out),
    ("reinterpret_u32_100_100", C_REINTERPRET_U32_100_100, reinterpret_u32::<100, 100> as fn() -> Out),
    ("reinterpret_u32_100_101", C_REINTERPRET_U32_100_101, reinterpret_u32::<100, 101> as fn() -> Out),
    ("reinterpret_u32_100_200", C_REINTERPRET_U32_100_200, reinterpret_u32::<100, 200> as fn() -> Out),
    ("reinterpret_u32_100_302", C_REINTERPRET_U32_100_302, reinterpret_u32::<100, 302> as fn() -> Out),
    ("byvalue_u32_100", C_BYVALUE_U32_100, byvalue_u32::<100> as fn() -> Out),
    ("native_chunks_u32_100_0", C_NATIVE_CHUNKS_U32_100_0, native_chunks_u32::<100, 0> as fn() -> Out),
    ("native_chunks_u32_100_1", C_NATIVE_CHUNKS_U32_100_1, native_chunks_u32::<100, 1> as fn() -> Out),
    ("native_chunks_u32_100_2", C_NATIVE_CHUNKS_U32_100_2, native_chunks_u32::<100, 2> as fn() -> Out),
    ("native_chunks_u32_100_3", C_NATIVE_CHUNKS_U32_100_3, native_chunks_u32::<100, 3> as fn() -> Out),
    ("chunks_u32_1024_0", C_CHUNKS_U32_1024_0, chunks_u32::<1024, 0> as fn() -> Out),
    ("chunks_mut_u32_1024_0", C_CHUNKS_MUT_U32_1024_0, chunks_mut_u32::<1024, 0> as fn() -> Out),
    ("chunks_u32_1024_1", C_CHUNKS_U32_1024_1, chunks_u32::<1024, 1> as fn() -> Out),
    ("chunks_mut_u32_1024_1", C_CHUNKS_MUT_U32_1024_1, chunks_mut_u32::<1024, 1> as fn() -> Out),
    ("chunks_u32_1024_1023", C_CHUNKS_U32_1024_1023, chunks_u32::<1024, 1023> as fn() -> Out),
    ("chunks_mut_u32_1024_1023", C_CHUNKS_MUT_U32_1024_1023, chunks_mut_u32::<1024, 1023> as fn() -> Out),
    ("chunks_u32_1024_1024", C_CHUNKS_U32_1024_1024, chunks_u32::<1024, 1024> as fn() -> Out),
    ("chunks_mut_u32_1024_1024", C_CHUNKS_MUT_U32_1024_1024, chunks_mut_u32::<1024, 1024> as fn() -> Out),
    ("chunks_u32_1024_1025", C_CHUNKS_U32_1024_1025, chunks_u32::<1024, 1025> as fn() -> Out),
    ("chunks_mut_u32_1024_1025", C_CHUNKS_MUT_U32_1024_1025, chunks_mut_u32::<1024, 1025> as fn() -> Out),
    ("chunks_u32_1024_2047", C_CHUNKS_U32_1024_2047, chunks_u32::<1024, 2047> as fn() -> Out),
    ("chunks_mut_u32_1024_2047", C_CHUNKS_MUT_U32_1024_2047, chunks_mut_u32::<1024, 2047> as fn() -> Out),
    ("chunks_u32_1024_2048", C_CHUNKS_U32_1024_2048, chunks_u32::<1024, 2048> as fn() -> Out),
    ("chunks_mut_u32_1024_2048", C_CHUNKS_MUT_U32_1024_2048, chunks_mut_u32::<1024, 2048> as fn() -> Out),
    ("chunks_u32_1024_2049", C_CHUNKS_U32_1024_2049, chunks_u32::<1024, 2049> as fn() -> Out),
    ("chunks_mut_u32_1024_2049", C_CHUNKS_MUT_U32_1024_2049, chunks_mut_u32::<1024, 2049> as fn() -> Out),
    ("chunks_u32_1024_3074", C_CHUNKS_U32_1024_3074, chunks_u32::<1024, 3074> as fn() -> Out),
    ("chunks_mut_u32_1024_3074", C_CHUNKS_MUT_U32_1024_3074, chunks_mut_u32::<1024, 3074> as fn() -> Out),
    ("reinterpret_u32_1024_0", C_REINTERPRET_U32_1024_0, reinterpret_u32::<1024, 0> as fn() -> Out),
    ("reinterpret_u32_1024_1", C_REINTERPRET_U32_1024_1, reinterpret_u32::<1024, 1> as fn() -> Out),
    ("reinterpret_u32_1024_1023", C_REINTERPRET_U32_1024_1023, reinterpret_u32::<1024, 1023> as fn() -> Out),
    ("reinterpret_u32_1024_1024", C_REINTERPRET_U32_1024_1024, reinterpret_u32::<1024, 1024> as fn() -> Out),
    ("reinterpret_u32_1024_1025", C_REINTERPRET_U32_1024_1025, reinterpret_u32::<1024, 1025> as fn() -> Out),
    ("reinterpret_u32_1024_2048", C_REINTERPRET_U32_1024_2048, reinterpret_u32::<1024, 2048> as fn() -> Out),
    ("reinterpret_u32_1024_3074", C_REINTERPRET_U32_1024_3074, reinterpret_u32::<1024, 3074> as fn() -> Out),
    ("byvalue_u32_1024", C_BYVALUE_U32_1024, byvalue_u32::<1024> as fn() -> Out),
    ("native_chunks_u32_1024_0", C_NATIVE_CHUNKS_U32_1024_0, native_chunks_u32::<1024, 0> as fn() -> Out),
    ("native_chunks_u32_1024_1", C_NATIVE_CHUNKS_U32_1024_1, native_chunks_u32::<1024, 1> as fn() -> Out),
    ("native_chunks_u32_1024_2", C_NATIVE_CHUNKS_U32_1024_2, native_chunks_u32::<1024, 2> as fn() -> Out),
    ("native_chunks_u32_1024_3", C_NATIVE_CHUNKS_U32_1024_3, native_chunks_u32::<1024, 3> as fn() -> Out),
    ("chunks_p3_0_0", C_CHUNKS_P3_0_0, chunks_p3::<0, 0> as fn() -> Out),
    ("chunks_mut_p3_0_0", C_CHUNKS_MUT_P3_0_0, chunks_mut_p3::<0, 0> as fn() -> Out),
    ("reinterpret_p3_0_0", C_REINTERPRET_P3_0_0, reinterpret_p3::<0, 0> as fn() -> Out),
    ("reinterpret_p3_0_1", C_REINTERPRET_P3_0_1, reinterpret_p3::<0, 1> as fn() -> Out),
    ("reinterpret_p3_0_2", C_REINTERPRET_P3_0_2, reinterpret_p3::<0, 2> as fn() -> Out),
    ("byvalue_p3_0", C_BYVALUE_P3_0, byvalue_p3::<0> as fn() -> Out),
    ("native_chunks_p3_0_0", C_NATIVE_CHUNKS_P3_0_0, native_chunks_p3::<0, 0> as fn() -> Out),
    ("native_chunks_p3_0_1", C_NATIVE_CHUNKS_P3_0_1, native_chunks_p3::<0, 1> as fn() -> Out),
    ("native_chunks_p3_0_2", C_NATIVE_CHUNKS_P3_0_2, native_chunks_p3::<0, 2> as fn() -> Out),
    ("native_chunks_p3_0_3", C_NATIVE_CHUNKS_P3_0_3, native_chunks_p3::<0, 3> as fn() -> Out),
    ("chunks_p3_1_0", C_CHUNKS_P3_1_0, chunks_p3::<1, 0> as fn() -> Out),
    ("chunks_mut_p3_1_0", C_CHUNKS_MUT_P3_1_0, chunks_mut_p3::<1, 0> as fn() -> Out),
    ("chunks_p3_1_1", C_CHUNKS_P3_1_1, chunks_p3::<1, 1> as fn() -> Out),
    ("chunks_mut_p3_1_1", C_CHUNKS_MUT_P3_1_1, chunks_mut_p3::<1, 1> as fn() -> Out),
    ("chunks_p3_1_2", C_CHUNKS_P3_1_2, chunks_p3::<1, 2> as fn() -> Out),
    ("chunks_mut_p3_1_2", C_CHUNKS_MUT_P3_1_2, chunks_mut_p3::<1, 2> as fn() -> Out),
    ("chunks_p3_1_3", C_CHUNKS_P3_1_3, chunks_p3::<1, 3> as fn() -> Out),
    ("chunks_mut_p3_1_3", C_CHUNKS_MUT_P3_1_3, chunks_mut_p3::<1, 3> as fn() -> Out),
    ("chunks_p3_1_4", C_CHUNKS_P3_1_4, chunks_p3::<1, 4> as fn() -> Out),
    ("chunks_mut_p3_1_4", C_CHUNKS_MUT_P3_1_4, chunks_mut_p3::<1, 4> as fn() -> Out),
    ("chunks_p3_1_5", C_CHUNKS_P3_1_5, chunks_p3::<1, 5> as fn() -> Out),
    ("chunks_mut_p3_1_5", C_CHUNKS_MUT_P3_1_5, chunks_mut_p3::<1, 5> as fn() -> Out),
    ("reinterpret_p3_1_0", C_REINTERPRET_P3_1_0, reinterpret_p3::<1, 0> as fn() -> Out),
    ("reinterpret_p3_1_1", C_REINTERPRET_P3_1_1, reinterpret_p3::<1, 1> as fn() -> Out),
    ("reinterpret_p3_1_2", C_REINTERPRET_P3_1_2, reinterpret_p3::<1, 2> as fn() -> Out),
    ("reinterpret_p3_1_5", C_REINTERPRET_P3_1_5, reinterpret_p3::<1, 5> as fn() -> Out),
    ("byvalue_p3_1", C_BYVALUE_P3_1, byvalue_p3::<1> as fn() -> Out),
    ("native_chunks_p3_1_0", C_NATIVE_CHUNKS_P3_1_0, native_chunks_p3::<1, 0> as fn() -> Out),
    ("native_chunks_p3_1_1", C_NATIVE_CHUNKS_P3_1_1, native_chunks_p3::<1, 1> as fn() -> Out),
    ("native_chunks_p3_1_2", C_NATIVE_CHUNKS_P3_1_2, native_chunks_p3::<1, 2> as fn() -> Out),
    ("native_chunks_p3_1_3", C_NATIVE_CHUNKS_P3_1_3, native_chunks_p3::<1, 3> as fn() -> Out),
    ("chunks_p3_2_0", C_CHUNKS_P3_2_0, chunks_p3::<2, 0> as fn() -> Out),
    ("chunks_mut_p3_2_0", C_CHUNKS_MUT_P3_2_0, chunks_mut_p3::<2, 0> as fn() -> Out),
    ("chunks_p3_2_1", C_CHUNKS_P3_2_1, chunks_p3::<2, 1> as fn() -> Out),
    ("chunks_mut_p3_2_1", C_CHUNKS_MUT_P3_2_1, chunks_mut_p3::<2, 1> as fn() -> Out),
    ("chunks_p3_2_2", C_CHUNKS_P3_2_2, chunks_p3::<2, 2> as fn() -> Out),
    ("chunks_mut_p3_2_2", C_CHUNKS_MUT_P3_2_2, chunks_mut_p3::<2, 2> as fn() -> Out),
    ("chunks_p3_2_3", C_CHUNKS_P3_2_3, chunks_p3::<2, 3> as fn() -> Out),
    ("chunks_mut_p3_2_3", C_CHUNKS_MUT_P3_2_3, chunks_mut_p3::<2, 3> as fn() -> Out),
    ("chunks_p3_2_4", C_CHUNKS_P3_2_4, chunks_p3::<2, 4> as fn() -> Out),
    ("chunks_mut_p3_2_4", C_CHUNKS_MUT_P3_2_4, chunks_mut_p3::<2, 4> as fn() -> Out),
    ("chunks_p3_2_5", C_CHUNKS_P3_2_5, chunks_p3::<2, 5> as fn() -> Out),
    ("chunks_mut_p3_2_5", C_CHUNKS_MUT_P3_2_5, chunks_mut_p3::<2, 5> as fn() -> Out),
    ("chunks_p3_2_6", C_CHUNKS_P3_2_6, chunks_p3::<2, 6> as fn() -> Out),
    ("chunks_mut_p3_2_6", C_CHUNKS_MUT_P3_2_6, chunks_mut_p3::<2, 6> as fn() -> Out),
    ("chunks_p3_2_7", C_CHUNKS_P3_2_7, chunks_p3::<2, 7> as fn() -> Out),
    ("chunks_mut_p3_2_7", C_CHUNKS_MUT_P3_2_7, chunks_mut_p3::<2, 7> as fn() -> Out),
    ("chunks_p3_2_8", C_CHUNKS_P3_2_8, chunks_p3::<2, 8> as fn() -> Out),
    ("chunks_mut_p3_2_8", C_CHUNKS_MUT_P3_2_8, chunks_mut_p3::<2, 8> as fn() -> Out),
    ("reinterpret_p3_2_0", C_REINTERPRET_P3_2_0, reinterpret_p3::<2, 0> as fn() -> Out),
    ("reinterpret_p3_2_1", C_REINTERPRET_P3_2_1, reinterpret_p3::<2, 1> as fn() -> Out),
    ("reinterpret_p3_2_2", C_REINTERPRET_P3_2_2, reinterpret_p3::<2, 2> as fn() -> Out),
    ("reinterpret_p3_2_3", C_REINTERPRET_P3_2_3, reinterpret_p3::<2, 3> as fn() -> Out),
    ("reinterpret_p3_2_4", C_REINTERPRET_P3_2_4, reinterpret_p3::<2, 4> as fn() -> Out),
    ("reinterpret_p3_2_8", C_REINTERPRET_P3_2_8, reinterpret_p3::<2, 8> as fn() -> Out),
    ("byvalue_p3_2", C_BYVALUE_P3_2, byvalue_p3::<2> as fn() -> Out),
    ("native_chunks_p3_2_0", C_NATIVE_CHUNKS_P3_2_0, native_chunks_p3::<2, 0> as fn() -> Out),
    ("native_chunks_p3_2_1", C_NATIVE_CHUNKS_P3_2_1, native_chunks_p3::<2, 1> as fn() -> Out),
    ("native_chunks_p3_2_2", C_NATIVE_CHUNKS_P3_2_2, native_chunks_p3::<2, 2> as fn() -> Out),
    ("native_chunks_p3_2_3", C_NATIVE_CHUNKS_P3_2_3, native_chunks_p3::<2, 3> as fn() -> Out),
    ("chunks_p3_3_0", C_CHUNKS_P3_3_0, chunks_p3::<3, 0> as fn() -> Out),
    ("chunks_mut_p3_3_0", C_CHUNKS_MUT_P3_3_0, chunks_mut_p3::<3, 0> as fn() -> Out),
    ("chunks_p3_3_1", C_CHUNKS_P3_3_1, chunks_p3::<3, 1> as fn() -> Out),
    ("chunks_mut_p3_3_1", C_CHUNKS_MUT_P3_3_1, chunks_mut_p3::<3, 1> as fn() -> Out),
    ("chunks_p3_3_2", C_CHUNKS_P3_3_2, chunks_p3::<3, 2> as fn() -> Out),
    ("chunks_mut_p3_3_2", C_CHUNKS_MUT_P3_3_2, chunks_mut_p3::<3, 2> as fn() -> Out),
    ("chunks_p3_3_3", C_CHUNKS_P3_3_3, chunks_p3::<3, 3> as fn() -> Out),
    ("chunks_mut_p3_3_3", C_CHUNKS_MUT_P3_3_3, chunks_mut_p3::<3, 3> as fn() -> Out),
    ("chunks_p3_3_4", C_CHUNKS_P3_3_4, chunks_p3::<3, 4> as fn() -> Out),
    ("chunks_mut_p3_3_4", C_CHUNKS_MUT_P3_3_4, chunks_mut_p3::<3, 4> as fn() -> Out),
    ("chunks_p3_3_5", C_CHUNKS_P3_3_5, chunks_p3::<3, 5> as fn() -> Out),
    ("chunks_mut_p3_3_5", C_CHUNKS_MUT_P3_3_5, chunks_mut_p3::<3, 5> as fn() -> Out),
    ("chunks_p3_3_6", C_CHUNKS_P3_3_6, chunks_p3::<3, 6> as fn() -> Out),
    ("chunks_mut_p3_3_6", C_CHUNKS_MUT_P3_3_6, chunks_mut_p3::<3, 6> as fn() -> Out),
    ("chunks_p3_3_7", C_CHUNKS_P3_3_7, chunks_p3::<3, 7> as fn() -> Out),
    ("chunks_mut_p3_3_7", C_CHUNKS_MUT_P3_3_7, chunks_mut_p3::<3, 7> as fn() -> Out),
    ("chunks_p3_3_8", C_CHUNKS_P3_3_8, chunks_p3::<3, 8> as fn() -> Out),
    ("chunks_mut_p3_3_8", C_CHUNKS_MUT_P3_3_8, chunks_mut_p3::<3, 8> as fn() -> Out),
    ("chunks_p3_3_9", C_CHUNKS_P3_3_9, chunks_p3::<3, 9> as fn() -> Out),
    ("chunks_mut_p3_3_9", C_CHUNKS_MUT_P3_3_9, chunks_mut_p3::<3, 9> as fn() -> Out),
    ("chunks_p3_3_10", C_CHUNKS_P3_3_10, chunks_p3::<3, 10> as fn() -> Out),
    ("chunks_mut_p3_3_10", C_CHUNKS_MUT_P3_3_10, chunks_mut_p3::<3, 10> as fn() -> Out),
    ("chunks_p3_3_11", C_CHUNKS_P3_3_11, chunks_p3::<3, 11> as fn() -> Out),
    ("chunks_mut_p3_3_11", C_CHUNKS_MUT_P3_3_11, chunks_mut_p3::<3, 11> as fn() -> Out),
    ("reinterpret_p3_3_0", C_REINTERPRET_P3_3_0, reinterpret_p3::<3, 0> as fn() -> Out),
    ("reinterpret_p3_3_1", C_REINTERPRET_P3_3_1, reinterpret_p3::<3, 1> as fn() -> Out),
    ("reinterpret_p3_3_2", C_REINTERPRET_P3_3_2, reinterpret_p3::<3, 2> as fn() -> Out),
    ("reinterpret_p3_3_3", C_REINTERPRET_P3_3_3, reinterpret_p3::<3, 3> as fn() -> Out),
    ("reinterpret_p3_3_4", C_REINTERPRET_P3_3_4, reinterpret_p3::<3, 4> as fn() -> Out),
    ("reinterpret_p3_3_6", C_REINTERPRET_P3_3_6, reinterpret_p3::<3, 6> as fn() -> Out),
    ("reinterpret_p3_3_11", C_REINTERPRET_P3_3_11, reinterpret_p3::<3, 11> as fn() -> Out),
    ("byvalue_p3_3", C_BYVALUE_P3_3, byvalue_p3::<3> as fn() -> Out),
    ("native_chunks_p3_3_0", C_NATIVE_CHUNKS_P3_3_0, native_chunks_p3::<3, 0> as fn() -> Out),
    ("native_chunks_p3_3_1", C_NATIVE_CHUNKS_P3_3_1, native_chunks_p3::<3, 1> as fn() -> Out),
    ("native_chunks_p3_3_2", C_NATIVE_CHUNKS_P3_3_2, native_chunks_p3::<3, 2> as fn() -> Out),
    ("native_chunks_p3_3_3", C_NATIVE_CHUNKS_P3_3_3, native_chunks_p3::<3, 3> as fn() -> Out),
    ("chunks_p3_7_0", C_CHUNKS_P3_7_0, chunks_p3::<7, 0> as fn() -> Out),
    ("chunks_mut_p3_7_0", C_CHUNKS_MUT_P3_7_0, chunks_mut_p3::<7, 0> as fn() -> Out),
    ("chunks_p3_7_1", C_CHUNKS_P3_7_1, chunks_p3::<7, 1> as fn() -> Out),
    ("chunks_mut_p3_7_1", C_CHUNKS_MUT_P3_7_1, chunks_mut_p3::<7, 1> as fn() -> Out),
    ("chunks_p3_7_2", C_CHUNKS_P3_7_2, chunks_p3::<7, 2> as fn() -> Out),
    ("chunks_mut_p3_7_2", C_CHUNKS_MUT_P3_7_2, chunks_mut_p3::<7, 2> as fn() -> Out),
    ("chunks_p3_7_3", C_CHUNKS_P3_7_3, chunks_p3::<7, 3> as fn() -> Out),
    ("chunks_mut_p3_7_3", C_CHUNKS_MUT_P3_7_3, chunks_mut_p3::<7, 3> as fn() -> Out),
    ("chunks_p3_7_4", C_CHUNKS_P3_7_4, chunks_p3::<7, 4> as fn() -> Out),
    ("chunks_mut_p3_7_4", C_CHUNKS_MUT_P3_7_4, chunks_mut_p3::<7, 4> as fn() -> Out),
    ("chunks_p3_7_5", C_CHUNKS_P3_7_5, chunks_p3::<7, 5> as fn() -> Out),
    ("chunks_mut_p3_7_5", C_CHUNKS_MUT_P3_7_5, chunks_mut_p3::<7, 5> as fn() -> Out),
    ("chunks_p3_7_6", C_CHUNKS_P3_7_6, chunks_p3::<7, 6> as fn() -> Out),
    ("chunks_mut_p3_7_6", C_CHUNKS_MUT_P3_7_6, chunks_mut_p3::<7, 6> as fn() -> Out),
    ("chunks_p3_7_7", C_CHUNKS_P3_7_7, chunks_p3::<7, 7> as fn() -> Out),
    ("chunks_mut_p3_7_7", C_CHUNKS_MUT_P3_7_7, chunks_mut_p3::<7, 7> as fn() -> Out),
    ("chunks_p3_7_8", C_CHUNKS_P3_7_8, chunks_p3::<7, 8> as fn() -> Out),
    ("chunks_mut_p3_7_8", C_CHUNKS_MUT_P3_7_8, chunks_mut_p3::<7, 8> as fn() -> Out),
    ("chunks_p3_7_9", C_CHUNKS_P3_7_9, chunks_p3::<7, 9> as fn() -> Out),
    ("chunks_mut_p3_7_9", C_CHUNKS_MUT_P3_7_9, chunks_mut_p3::<7, 9> as fn() -> Out),
    ("chunks_p3_7_10", C_CHUNKS_P3_7_10, chunks_p3::<7, 10> as fn() -> Out),
    ("chunks_mut_p3_7_10", C_CHUNKS_MUT_P3_7_10, chunks_mut_p3::<7, 10> as fn() -> Out),
    ("chunks_p3_7_11", C_CHUNKS_P3_7_11, chunks_p3::<7, 11> as fn() -> Out),
    ("chunks_mut_p3_7_11", C_CHUNKS_MUT_P3_7_11, chunks_mut_p3::<7, 11> as fn() -> Out),
    ("chunks_p3_7_12", C_CHUNKS_P3_7_12, chunks_p3::<7, 12> as fn() -> Out),
    ("chunks_mut_p3_7_12", C_CHUNKS_MUT_P3_7_12, chunks_mut_p3::<7, 12> as fn() -> Out),
    ("chunks_p3_7_13", C_CHUNKS_P3_7_13, chunks_p3::<7, 13> as fn() -> Out),
    ("chunks_mut_p3_7_13", C_CHUNKS_MUT_P3_7_13, chunks_mut_p3::<7, 13> as fn() -> Out),
    ("chunks_p3_7_14", C_CHUNKS_P3_7_14, chunks_p3::<7, 14> as fn() -> Out),
    ("chunks_mut_p3_7_14", C_CHUNKS_MUT_P3_7_14, chunks_mut_p3::<7, 14> as fn() -> Out),
    ("chunks_p3_7_15", C_CHUNKS_P3_7_15, chunks_p3::<7, 15> as fn() -> Out),
    ("chunks_mut_p3_7_15", C_CHUNKS_MUT_P3_7_15, chunks_mut_p3::<7, 15> as fn() -> Out),
    ("chunks_p3_7_16", C_CHUNKS_P3_7_16, chunks_p3::<7, 16> as fn() -> Out),
    ("chunks_mut_p3_7_16", C_CHUNKS_MUT_P3_7_16, chunks_mut_p3::<7, 16> as fn() -> Out),
    ("chunks_p3_7_17", C_CHUNKS_P3_7_17, chunks_p3::<7, 17> as fn() -> Out),
    ("chunks_mut_p3_7_17", C_CHUNKS_MUT_P3_7_17, chunks_mut_p3::<7, 17> as fn() -> Out),
    ("chunks_p3_7_18", C_CHUNKS_P3_7_18, chunks_p3::<7, 18> as fn() -> Out),
    ("chunks_mut_p3_7_18", C_CHUNKS_MUT_P3_7_18, chunks_mut_p3::<7, 18> as fn() -> Out),
    ("chunks_p3_7_19", C_CHUNKS_P3_7_19, chunks_p3::<7, 19> as fn() -> Out),
    ("chunks_mut_p3_7_19", C_CHUNKS_MUT_P3_7_19, chunks_mut_p3::<7, 19> as fn() -> Out),
    ("chunks_p3_7_20", C_CHUNKS_P3_7_20, chunks_p3::<7, 20> as fn() -> Out),
    ("chunks_mut_p3_7_20", C_CHUNKS_MUT_P3_7_20, chunks_mut_p3::<7, 20> as fn() -> Out),
    ("chunks_p3_7_21", C_CHUNKS_P3_7_21, chunks_p3::<7, 21> as fn() -> Out),
    ("chunks_mut_p3_7_21", C_CHUNKS_MUT_P3_7_21, chunks_mut_p3::<7, 21> as fn() -> Out),
    ("chunks_p3_7_22", C_CHUNKS_P3_7_22, chunks_p3::<7, 22> as fn() -> Out),
    ("chunks_mut_p3_7_22", C_CHUNKS_MUT_P3_7_22, chunks_mut_p3::<7, 22> as fn() -> Out),
    ("chunks_p3_7_23", C_CHUNKS_P3_7_23, chunks_p3::<7, 23> as fn() -> Out),
    ("chunks_mut_p3_7_23", C_CHUNKS_MUT_P3_7_23, chunks_mut_p3::<7, 23> as fn() -> Out),
    ("reinterpret_p3_7_0", C_REINTERPRET_P3_7_0, reinterpret_p3::<7, 0> as fn() -> Out),
    ("reinterpret_p3_7_1", C_REINTERPRET_P3_7_1, reinterpret_p3::<7, 1> as fn() -> Out),
    ("reinterpret_p3_7_6", C_REINTERPRET_P3_7_6, reinterpret_p3::<7, 6> as fn() -> Out),
    ("reinterpret_p3_7_7", C_REINTERPRET_P3_7_7, reinterpret_p3::<7, 7> as fn() -> Out),
    ("reinterpret_p3_7_8", C_REINTERPRET_P3_7_8, reinterpret_p3::<7, 8> as fn() -> Out),
    ("reinterpret_p3_7_14", C_REINTERPRET_P3_7_14, reinterpret_p3::<7, 14> as fn() -> Out),
    ("reinterpret_p3_7_23", C_REINTERPRET_P3_7_23, reinterpret_p3::<7, 23> as fn() -> Out),
    ("byvalue_p3_7", C_BYVALUE_P3_7, byvalue_p3::<7> as fn() -> Out),
    ("native_chunks_p3_7_0", C_NATIVE_CHUNKS_P3_7_0, native_chunks_p3::<7, 0> as fn() -> Out),
    ("native_chunks_p3_7_1", C_NATIVE_CHUNKS_P3_7_1, native_chunks_p3::<7, 1> as fn() -> Out),
    ("native_chunks_p3_7_2", C_NATIVE_CHUNKS_P3_7_2, native_chunks_p3::<7, 2> as fn() -> Out),
    ("native_chunks_p3_7_3", C_NATIVE_CHUNKS_P3_7_3, native_chunks_p3::<7, 3> as fn() -> Out),
    ("chunks_p3_8_0", C_CHUNKS_P3_8_0, chunks_p3::<8, 0> as fn() -> Out),
    ("chunks_mut_p3_8_0", C_CHUNKS_MUT_P3_8_0, chunks_mut_p3::<8, 0> as fn() -> Out),
    ("chunks_p3_8_1", C_CHUNKS_P3_8_1, chunks_p3::<8, 1> as fn() -> Out),
    ("chunks_mut_p3_8_1", C_CHUNKS_MUT_P3_8_1, chunks_mut_p3::<8, 1> as fn() -> Out),
    ("chunks_p3_8_2", C_CHUNKS_P3_8_2, chunks_p3::<8, 2> as fn() -> Out),
    ("chunks_mut_p3_8_2", C_CHUNKS_MUT_P3_8_2, chunks_mut_p3::<8, 2> as fn() -> Out),
    ("chunks_p3_8_3", C_CHUNKS_P3_8_3, chunks_p3::<8, 3> as fn() -> Out),
    ("chunks_mut_p3_8_3", C_CHUNKS_MUT_P3_8_3, chunks_mut_p3::<8, 3> as fn() -> Out),
    ("chunks_p3_8_4", C_CHUNKS_P3_8_4, chunks_p3::<8, 4> as fn() -> Out),
    ("chunks_mut_p3_8_4", C_CHUNKS_MUT_P3_8_4, chunks_mut_p3::<8, 4> as fn() -> Out),
    ("chunks_p3_8_5", C_CHUNKS_P3_8_5, chunks_p3::<8, 5> as fn() -> Out),
    ("chunks_mut_p3_8_5", C_CHUNKS_MUT_P3_8_5, chunks_mut_p3::<8, 5> as fn() -> Out),
    ("chunks_p3_8_6", C_CHUNKS_P3_8_6, chunks_p3::<8, 6> as fn() -> Out),
    ("chunks_mut_p3_8_6", C_CHUNKS_MUT_P3_8_6, chunks_mut_p3::<8, 6> as fn() -> Out),
    ("chunks_p3_8_7", C_CHUNKS_P3_8_7, chunks_p3::<8, 7> as fn() -> Out),
    ("chunks_mut_p3_8_7", C_CHUNKS_MUT_P3_8_7, chunks_mut_p3::<8, 7> as fn() -> Out),
    ("chunks_p3_8_8", C_CHUNKS_P3_8_8, chunks_p3::<8, 8> as fn() -> Out),
    ("chunks_mut_p3_8_8", C_CHUNKS_MUT_P3_8_8, chunks_mut_p3::<8, 8> as fn() -> Out),
    ("chunks_p3_8_9", C_CHUNKS_P3_8_9, chunks_p3::<8, 9> as fn() -> Out),
    ("chunks_mut_p3_8_9", C_CHUNKS_MUT_P3_8_9, chunks_mut_p3::<8, 9> as fn() -> Out),
    ("chunks_p3_8_10", C_CHUNKS_P3_8_10, chunks_p3::<8, 10> as fn() -> Out),
    ("chunks_mut_p3_8_10", C_CHUNKS_MUT_P3_8_10, chunks_mut_p3::<8, 10> as fn() -> Out),
    ("chunks_p3_8_11", C_CHUNKS_P3_8_11, chunks_p3::<8, 11> as fn() -> Out),
    ("chunks_mut_p3_8_11", C_CHUNKS_MUT_P3_8_11, chunks_mut_p3::<8, 11> as fn() -> Out),
    ("chunks_p3_8_12", C_CHUNKS_P3_8_12, chunks_p3::<8, 12> as fn() -> Out),
    ("chunks_mut_p3_8_12", C_CHUNKS_MUT_P3_8_12, chunks_mut_p3::<8, 12> as fn() -> Out),
    ("chunks_p3_8_13", C_CHUNKS_P3_8_13, chunks_p3::<8, 13> as fn() -> Out),
    ("chunks_mut_p3_8_13", C_CHUNKS_MUT_P3_8_13, chunks_mut_p3::<8, 13> as fn() -> Out),
    ("chunks_p3_8_14", C_CHUNKS_P3_8_14, chunks_p3::<8, 14> as fn() -> Out),
    ("chunks_mut_p3_8_14", C_CHUNKS_MUT_P3_8_14, chunks_mut_p3::<8, 14> as fn() -> Out),
    ("chunks_p3_8_15", C_CHUNKS_P3_8_15, chunks_p3::<8, 15> as fn() -> Out),
    ("chunks_mut_p3_8_15", C_CHUNKS_MUT_P3_8_15, chunks_mut_p3::<8, 15> as fn() -> Out),
    ("chunks_p3_8_16", C_CHUNKS_P3_8_16, chunks_p3::<8, 16> as fn() -> Out),
    ("chunks_mut_p3_8_16", C_CHUNKS_MUT_P3_8_16, chunks_mut_p3::<8, 16> as fn() -> Out),
    ("chunks_p3_8_17", C_CHUNKS_P3_8_17, chunks_p3::<8, 17> as fn() -> Out),
    ("chunks_mut_p3_8_17", C_CHUNKS_MUT_P3_8_17, chunks_mut_p3::<8, 17> as fn() -> Out),
    ("chunks_p3_8_18", C_CHUNKS_P3_8_18, chunks_p3::<8, 18> as fn() -> Out),
    ("chunks_mut_p3_8_18", C_CHUNKS_MUT_P3_8_18, chunks_mut_p3::<8, 18> as fn() -> Out),
    ("chunks_p3_8_19", C_CHUNKS_P3_8_19, chunks_p3::<8, 19> as fn() -> Out),
    ("chunks_mut_p3_8_19", C_CHUNKS_MUT_P3_8_19, chunks_mut_p3::<8, 19> as fn() -> Out),
    ("chunks_p3_8_20", C_CHUNKS_P3_8_20, chunks_p3::<8, 20> as fn() -> Out),
    ("chunks_mut_p3_8_20", C_CHUNKS_MUT_P3_8_20, chunks_mut_p3::<8, 20> as fn() -> Out),
    ("chunks_p3_8_21", C_CHUNKS_P3_8_21, chunks_p3::<8, 21> as fn() -> Out),
    ("chunks_mut_p3_8_21", C_CHUNKS_MUT_P3_8_21, chunks_mut_p3::<8, 21> as fn() -> Out),
    ("chunks_p3_8_22", C_CHUNKS_P3_8_22, chunks_p3::<8, 22> as fn() -> Out),
    ("chunks_mut_p3_8_22", C_CHUNKS_MUT_P3_8_22, chunks_mut_p3::<8, 22> as fn() -> Out),
    ("chunks_p3_8_23", C_CHUNKS_P3_8_23, chunks_p3::<8, 23> as fn() -> Out),
    ("chunks_mut_p3_8_23", C_CHUNKS_MUT_P3_8_23, chunks_mut_p3::<8, 23> as fn() -> Out),
    ("chunks_p3_8_24", C_CHUNKS_P3_8_24, chunks_p3::<8, 24> as fn() -> Out),
    ("chunks_mut_p3_8_24", C_CHUNKS_MUT_P3_8_24, chunks_mut_p3::<8, 24> as fn() -> Out),
    ("chunks_p3_8_25", C_CHUNKS_P3_8_25, chunks_p3::<8, 25> as fn() -> Out),
    ("chunks_mut_p3_8_25", C_CHUNKS_MUT_P3_8_25, chunks_mut_p3::<8, 25> as fn() -> Out),
    ("chunks_p3_8_26", C_CHUNKS_P3_8_26, chunks_p3::<8, 26> as fn() -> Out),
    ("chunks_mut_p3_8_26", C_CHUNKS_MUT_P3_8_26, chunks_mut_p3::<8, 26> as fn() -> Out),
    ("reinterpret_p3_8_0", C_REINTERPRET_P3_8_0, reinterpret_p3::<8, 0> as fn() -> Out),
    ("reinterpret_p3_8_1", C_REINTERPRET_P3_8_1, reinterpret_p3::<8, 1> as fn() -> Out),
    ("reinterpret_p3_8_7", C_REINTERPRET_P3_8_7, reinterpret_p3::<8, 7> as fn() -> Out),
    ("reinterpret_p3_8_8", C_REINTERPRET_P3_8_8, reinterpret_p3::<8, 8> as fn() -> Out),
    ("reinterpret_p3_8_9", C_REINTERPRET_P3_8_9, reinterpret_p3::<8, 9> as fn() -> Out),
    ("reinterpret_p3_8_16", C_REINTERPRET_P3_8_16, reinterpret_p3::<8, 16> as fn() -> Out),
    ("reinterpret_p3_8_26", C_REINTERPRET_P3_8_26, reinterpret_p3::<8, 26> as fn() -> Out),
    ("byvalue_p3_8", C_BYVALUE_P3_8, byvalue_p3::<8> as fn() -> Out),
    ("native_chunks_p3_8_0", C_NATIVE_CHUNKS_P3_8_0, native_chunks_p3::<8, 0> as fn() -> Out),
    ("native_chunks_p3_8_1", C_NATIVE_CHUNKS_P3_8_1, native_chunks_p3::<8, 1> as fn() -> Out),
    ("native_chunks_p3_8_2", C_NATIVE_CHUNKS_P3_8_2, native_chunks_p3::<8, 2> as fn() -> Out),
    ("native_chunks_p3_8_3", C_NATIVE_CHUNKS_P3_8_3, native_chunks_p3::<8, 3> as fn() -> Out),
    ("chunks_p3_16_0", C_CHUNKS_P3_16_0, chunks_p3::<16, 0> as fn() -> Out),
    ("chunks_mut_p3_16_0", C_CHUNKS_MUT_P3_16_0, chunks_mut_p3::<16, 0> as fn() -> Out),
    ("chunks_p3_16_1", C_CHUNKS_P3_16_1, chunks_p3::<16, 1> as fn() -> Out),
    ("chunks_mut_p3_16_1", C_CHUNKS_MUT_P3_16_1, chunks_mut_p3::<16, 1> as fn() -> Out),
    ("chunks_p3_16_2", C_CHUNKS_P3_16_2, chunks_p3::<16, 2> as fn() -> Out),
    ("chunks_mut_p3_16_2", C_CHUNKS_MUT_P3_16_2, chunks_mut_p3::<16, 2> as fn() -> Out),
    ("chunks_p3_16_3", C_CHUNKS_P3_16_3, chunks_p3::<16, 3> as fn() -> Out),
    ("chunks_mut_p3_16_3", C_CHUNKS_MUT_P3_16_3, chunks_mut_p3::<16, 3> as fn() -> Out),
    ("chunks_p3_16_4", C_CHUNKS_P3_16_4, chunks_p3::<16, 4> as fn() -> Out),
    ("chunks_mut_p3_16_4", C_CHUNKS_MUT_P3_16_4, chunks_mut_p3::<16, 4> as fn() -> Out),
    ("chunks_p3_16_5", C_CHUNKS_P3_16_5, chunks_p3::<16, 5> as fn() -> Out),
    ("chunks_mut_p3_16_5", C_CHUNKS_MUT_P3_16_5, chunks_mut_p3::<16, 5> as fn() -> Out),
    ("chunks_p3_16_6", C_CHUNKS_P3_16_6, chunks_p3::<16, 6> as fn() -> Out),
    ("chunks_mut_p3_16_6", C_CHUNKS_MUT_P3_16_6, chunks_mut_p3::<16, 6> as fn() -> Out),
    ("chunks_p3_16_7", C_CHUNKS_P3_16_7, chunks_p3::<16, 7> as fn() -> Out),
    ("chunks_mut_p3_16_7", C_CHUNKS_MUT_P3_16_7, chunks_mut_p3::<16, 7> as fn() -> Out),
    ("chunks_p3_16_8", C_CHUNKS_P3_16_8, chunks_p3::<16, 8> as fn() -> Out),
    ("chunks_mut_p3_16_8", C_CHUNKS_MUT_P3_16_8, chunks_mut_p3::<16, 8> as fn() -> Out),
    ("chunks_p3_16_9", C_CHUNKS_P3_16_9, chunks_p3::<16, 9> as fn() -> Out),
    ("chunks_mut_p3_16_9", C_CHUNKS_MUT_P3_16_9, chunks_mut_p3::<16, 9> as fn() -> Out),
    ("chunks_p3_16_10", C_CHUNKS_P3_16_10, chunks_p3::<16, 10> as fn() -> Out),
    ("chunks_mut_p3_16_10", C_CHUNKS_MUT_P3_16_10, chunks_mut_p3::<16, 10> as fn() -> Out),
    ("chunks_p3_16_11", C_CHUNKS_P3_16_11, chunks_p3::<16, 11> as fn() -> Out),
    ("chunks_mut_p3_16_11", C_CHUNKS_MUT_P3_16_11, chunks_mut_p3::<16, 11> as fn() -> Out),
    ("chunks_p3_16_12", C_CHUNKS_P3_16_12, chunks_p3::<16, 12> as fn() -> Out),
    ("chunks_mut_p3_16_12", C_CHUNKS_MUT_P3_16_12, chunks_mut_p3::<16, 12> as fn() -> Out),
    ("chunks_p3_16_13", C_CHUNKS_P3_16_13, chunks_p3::<16, 13> as fn() -> Out),
    ("chunks_mut_p3_16_13", C_CHUNKS_MUT_P3_16_13, chunks_mut_p3::<16, 13> as fn() -> Out),
    ("chunks_p3_16_14", C_CHUNKS_P3_16_14, chunks_p3::<16, 14> as fn() -> Out),
    ("chunks_mut_p3_16_14", C_CHUNKS_MUT_P3_16_14, chunks_mut_p3::<16, 14> as fn() -> Out),
    ("chunks_p3_16_15", C_CHUNKS_P3_16_15, chunks_p3::<16, 15> as fn() -> Out),
    ("chunks_mut_p3_16_15", C_CHUNKS_MUT_P3_16_15, chunks_mut_p3::<16, 15> as fn() -> Out),
    ("chunks_p3_16_16", C_CHUNKS_P3_16_16, chunks_p3::<16, 16> as fn() -> Out),
    ("chunks_mut_p3_16_16", C_CHUNKS_MUT_P3_16_16, chunks_mut_p3::<16, 16> as fn() -> Out),
    ("chunks_p3_16_17", C_CHUNKS_P3_16_17, chunks_p3::<16, 17> as fn() -> Out),
    ("chunks_mut_p3_16_17", C_CHUNKS_MUT_P3_16_17, chunks_mut_p3::<16, 17> as fn() -> Out),
    ("chunks_p3_16_18", C_CHUNKS_P3_16_18, chunks_p3::<16, 18> as fn() -> Out),
    ("chunks_mut_p3_16_18", C_CHUNKS_MUT_P3_16_18, chunks_mut_p3::<16, 18> as fn() -> Out),
    ("chunks_p3_16_19", C_CHUNKS_P3_16_19, chunks_p3::<16, 19> as fn() -> Out),
    ("chunks_mut_p3_16_19", C_CHUNKS_MUT_P3_16_19, chunks_mut_p3::<16, 19> as fn() -> Out),
    ("chunks_p3_16_20", C_CHUNKS_P3_16_20, chunks_p3::<16, 20> as fn() -> Out),
    ("chunks_mut_p3_16_20", C_CHUNKS_MUT_P3_16_20, chunks_mut_p3::<16, 20> as fn() -> Out),
    ("chunks_p3_16_21", C_CHUNKS_P3_16_21, chunks_p3::<16, 21> as fn() -> Out),
    ("chunks_mut_p3_16_21", C_CHUNKS_MUT_P3_16_21, chunks_mut_p3::<16, 21> as fn() -> Out),
    ("chunks_p3_16_22", C_CHUNKS_P3_16_22, chunks_p3::<16, 22> as fn() -> Out),
    ("chunks_mut_p3_16_22", C_CHUNKS_MUT_P3_16_22, chunks_mut_p3::<16, 22> as fn() -> Out),
    ("chunks_p3_16_23", C_CHUNKS_P3_16_23, chunks_p3::<16, 23> as fn() -> Out),
    ("chunks_mut_p3_16_23", C_CHUNKS_MUT_P3_16_23, chunks_mut_p3::<16, 23> as fn() -> Out),
    ("chunks_p3_16_24", C_CHUNKS_P3_16_24, chunks_p3::<16, 24> as fn() -> Out),
    ("chunks_mut_p3_16_24", C_CHUNKS_MUT_P3_16_24, chunks_mut_p3::<16, 24> as fn() -> Out),
    ("chunks_p3_16_25", C_CHUNKS_P3_16_25, chunks_p3::<16, 25> as fn() -> Out),
    ("chunks_mut_p3_16_25", C_CHUNKS_MUT_P3_16_25, chunks_mut_p3::<16, 25> as fn() -> Out),
    ("chunks_p3_16_26", C_CHUNKS_P3_16_26, chunks_p3::<16, 26> as fn() -> Out),
    ("chunks_mut_p3_16_26", C_CHUNKS_MUT_P3_16_26, chunks_mut_p3::<16, 26> as fn() -> Out),
    ("chunks_p3_16_27", C_CHUNKS_P3_16_27, chunks_p3::<16, 27> as fn() -> Out),
    ("chunks_mut_p3_16_27", C_CHUNKS_MUT_P3_16_27, chunks_mut_p3::<16, 27> as fn() -> Out),
    ("chunks_p3_16_28", C_CHUNKS_P3_16_28, chunks_p3::<16, 28> as fn() -> Out),
    ("chunks_mut_p3_16_28", C_CHUNKS_MUT_P3_16_28, chunks_mut_p3::<16, 28> as fn() -> Out),
    ("chunks_p3_16_29", C_CHUNKS_P3_16_29, chunks_p3::<16, 29> as fn() -> Out),
    ("chunks_mut_p3_16_29", C_CHUNKS_MUT_P3_16_29, chunks_mut_p3::<16, 29> as fn() -> Out),
    ("chunks_p3_16_30", C_CHUNKS_P3_16_30, chunks_p3::<16, 30> as fn() -> Out),
    ("chunks_mut_p3_16_30", C_CHUNKS_MUT_P3_16_30, chunks_mut_p3::<16, 30> as fn() -> Out),
    ("chunks_p3_16_31", C_CHUNKS_P3_16_31, chunks_p3::<16, 31> as fn() -> Out),
    ("chunks_mut_p3_16_31", C_CHUNKS_MUT_P3_16_31, chunks_mut_p3::<16, 31> as fn() -> Out),
    ("chunks_p3_16_32", C_CHUNKS_P3_16_32, chunks_p3::<16, 32> as fn() -> Out),
    ("chunks_mut_p3_16_32", C_CHUNKS_MUT_P3_16_32, chunks_mut_p3::<16, 32> as fn() -> Out),
    ("chunks_p3_16_33", C_CHUNKS_P3_16_33, chunks_p3::<16, 33> as fn() -> Out),
    ("chunks_mut_p3_16_33", C_CHUNKS_MUT_P3_16_33, chunks_mut_p3::<16, 33> as fn() -> Out),
    ("chunks_p3_16_34", C_CHUNKS_P3_16_34, chunks_p3::<16, 34> as fn() -> Out),
    ("chunks_mut_p3_16_34", C_CHUNKS_MUT_P3_16_34, chunks_mut_p3::<16, 34> as fn() -> Out),
    ("chunks_p3_16_35", C_CHUNKS_P3_16_35, chunks_p3::<16, 35> as fn() -> Out),
    ("chunks_mut_p3_16_35", C_CHUNKS_MUT_P3_16_35, chunks_mut_p3::<16, 35> as fn() -> Out),
    ("chunks_p3_16_36", C_CHUNKS_P3_16_36, chunks_p3::<16, 36> as fn() -> Out),
    ("chunks_mut_p3_16_36", C_CHUNKS_MUT_P3_16_36, chunks_mut_p3::<16, 36> as fn() -> Out),
    ("chunks_p3_16_37", C_CHUNKS_P3_16_37, chunks_p3::<16, 37> as fn() -> Out),
    ("chunks_mut_p3_16_37", C_CHUNKS_MUT_P3_16_37, chunks_mut_p3::<16, 37> as fn() -> Out),
    ("chunks_p3_16_38", C_CHUNKS_P3_16_38, chunks_p3::<16, 38> as fn() -> Out),
    ("chunks_mut_p3_16_38", C_CHUNKS_MUT_P3_16_38, chunks_mut_p3::<16, 38> as fn() -> Out),
    ("chunks_p3_16_39", C_CHUNKS_P3_16_39, chunks_p3::<16, 39> as fn() -> Out),
    ("chunks_mut_p3_16_39", C_CHUNKS_MUT_P3_16_39, chunks_mut_p3::<16, 39> as fn() -> Out),
    ("chunks_p3_16_40", C_CHUNKS_P3_16_40, chunks_p3::<16, 40> as fn() -> Out),
    ("chunks_mut_p3_16_40", C_CHUNKS_MUT_P3_16_40, chunks_mut_p3::<16, 40> as fn() -> Out),
    ("chunks_p3_16_41", C_CHUNKS_P3_16_41, chunks_p3::<16, 41> as fn() -> Out),
    ("chunks_mut_p3_16_41", C_CHUNKS_MUT_P3_16_41, chunks_mut_p3::<16, 41> as fn() -> Out),
    ("chunks_p3_16_42", C_CHUNKS_P3_16_42, chunks_p3::<16, 42> as fn() -> Out),
    ("chunks_mut_p3_16_42", C_CHUNKS_MUT_P3_16_42, chunks_mut_p3::<16, 42> as fn() -> Out),
    ("chunks_p3_16_43", C_CHUNKS_P3_16_43, chunks_p3::<16, 43> as fn() -> Out),
    ("chunks_mut_p3_16_43", C_CHUNKS_MUT_P3_16_43, chunks_mut_p3::<16, 43> as fn() -> Out),
    ("chunks_p3_16_44", C_CHUNKS_P3_16_44, chunks_p3::<16, 44> as fn() -> Out),
    ("chunks_mut_p3_16_44", C_CHUNKS_MUT_P3_16_44, chunks_mut_p3::<16, 44> as fn() -> Out),
    ("chunks_p3_16_45", C_CHUNKS_P3_16_45, chunks_p3::<16, 45> as fn() -> Out),
    ("chunks_mut_p3_16_45", C_CHUNKS_MUT_P3_16_45, chunks_mut_p3::<16, 45> as fn() -> Out),
    ("chunks_p3_16_46", C_CHUNKS_P3_16_46, chunks_p3::<16, 46> as fn() -> Out),
    ("chunks_mut_p3_16_46", C_CHUNKS_MUT_P3_16_46, chunks_mut_p3::<16, 46> as fn() -> Out),
    ("chunks_p3_16_47", C_CHUNKS_P3_16_47, chunks_p3::<16, 47> as fn() -> Out),
    ("chunks_mut_p3_16_47", C_CHUNKS_MUT_P3_16_47, chunks_mut_p3::<16, 47> as fn() -> Out),
    ("chunks_p3_16_48", C_CHUNKS_P3_16_48, chunks_p3::<16, 48> as fn() -> Out),
    ("chunks_mut_p3_16_48", C_CHUNKS_MUT_P3_16_48, chunks_mut_p3::<16, 48> as fn() -> Out),
    ("chunks_p3_16_49", C_CHUNKS_P3_16_49, chunks_p3::<16, 49> as fn() -> Out),
    ("chunks_mut_p3_16_49", C_CHUNKS_MUT_P3_16_49, chunks_mut_p3::<16, 49> as fn() -> Out),
    ("chunks_p3_16_50", C_CHUNKS_P3_16_50, chunks_p3::<16, 50> as fn() -> Out),
    ("chunks_mut_p3_16_50", C_CHUNKS_MUT_P3_16_50, chunks_mut_p3::<16, 50> as fn() -> Out),
    ("reinterpret_p3_16_0", C_REINTERPRET_P3_16_0, reinterpret_p3::<16, 0> as fn() -> Out),
    ("reinterpret_p3_16_1", C_REINTERPRET_P3_16_1, reinterpret_p3::<16, 1> as fn() -> Out),
    ("reinterpret_p3_16_15", C_REINTERPRET_P3_16_15, reinterpret_p3::<16, 15> as fn() -> Out),
    ("reinterpret_p3_16_16", C_REINTERPRET_P3_16_16, reinterpret_p3::<16, 16> as fn() -> Out),
    ("reinterpret_p3_16_17", C_REINTERPRET_P3_16_17, reinterpret_p3::<16, 17> as fn() -> Out),
    ("reinterpret_p3_16_32", C_REINTERPRET_P3_16_32, reinterpret_p3::<16, 32> as fn() -> Out),
    ("reinterpret_p3_16_50", C_REINTERPRET_P3_16_50, reinterpret_p3::<16, 50> as fn() -> Out),
    ("byvalue_p3_16", C_BYVALUE_P3_16, byvalue_p3::<16> as fn() -> Out),
    ("native_chunks_p3_16_0", C_NATIVE_CHUNKS_P3_16_0, native_chunks_p3::<16, 0> as fn() -> Out),
    ("native_chunks_p3_16_1", C_NATIVE_CHUNKS_P3_16_1, native_chunks_p3::<16, 1> as fn() -> Out),
    ("native_chunks_p3_16_2", C_NATIVE_CHUNKS_P3_16_2, native_chunks_p3::<16, 2> as fn() -> Out),
    ("native_chunks_p3_16_3", C_NATIVE_CHUNKS_P3_16_3, native_chunks_p3::<16, 3> as fn() -> Out),
    ("chunks_p3_17_0", C_CHUNKS_P3_17_0, chunks_p3::<17, 0> as fn() -> Out),
    ("chunks_mut_p3_17_0", C_CHUNKS_MUT_P3_17_0, chunks_mut_p3::<17, 0> as fn() -> Out),
    ("chunks_p3_17_1", C_CHUNKS_P3_17_1, chunks_p3::<17, 1> as fn() -> Out),
    ("chunks_mut_p3_17_1", C_CHUNKS_MUT_P3_17_1, chunks_mut_p3::<17, 1> as fn() -> Out),
    ("chunks_p3_17_2", C_CHUNKS_P3_17_2, chunks_p3::<17, 2> as fn() -> Out),
    ("chunks_mut_p3_17_2", C_CHUNKS_MUT_P3_17_2, chunks_mut_p3::<17, 2> as fn() -> Out),
    ("chunks_p3_17_3", C_CHUNKS_P3_17_3, chunks_p3::<17, 3> as fn() -> Out),
    ("chunks_mut_p3_17_3", C_CHUNKS_MUT_P3_17_3, chunks_mut_p3::<17, 3> as fn() -> Out),
    ("chunks_p3_17_4", C_CHUNKS_P3_17_4, chunks_p3::<17, 4> as fn() -> Out),
    ("chunks_mut_p3_17_4", C_CHUNKS_MUT_P3_17_4, chunks_mut_p3::<17, 4> as fn() -> Out),
    ("chunks_p3_17_5", C_CHUNKS_P3_17_5, chunks_p3::<17, 5> as fn() -> Out),
    ("chunks_mut_p3_17_5", C_CHUNKS_MUT_P3_17_5, chunks_mut_p3::<17, 5> as fn() -> Out),
    ("chunks_p3_17_6", C_CHUNKS_P3_17_6, chunks_p3::<17, 6> as fn() -> Out),
    ("chunks_mut_p3_17_6", C_CHUNKS_MUT_P3_17_6, chunks_mut_p3::<17, 6> as fn() -> Out),
    ("chunks_p3_17_7", C_CHUNKS_P3_17_7, chunks_p3::<17, 7> as fn() -> Out),
    ("chunks_mut_p3_17_7", C_CHUNKS_MUT_P3_17_7, chunks_mut_p3::<17, 7> as fn() -> Out),
    ("chunks_p3_17_8", C_CHUNKS_P3_17_8, chunks_p3::<17, 8> as fn() -> Out),
    ("chunks_mut_p3_17_8", C_CHUNKS_MUT_P3_17_8, chunks_mut_p3::<17, 8> as fn() -> Out),
    ("chunks_p3_17_9", C_CHUNKS_P3_17_9, chunks_p3::<17, 9> as fn() -> Out),
    ("chunks_mut_p3_17_9", C_CHUNKS_MUT_P3_17_9, chunks_mut_p3::<17, 9> as fn() -> Out),
    ("chunks_p3_17_10", C_CHUNKS_P3_17_10, chunks_p3::<17, 10> as fn() -> Out),
    ("chunks_mut_p3_17_10", C_CHUNKS_MUT_P3_17_10, chunks_mut_p3::<17, 10> as fn() -> Out),
    ("chunks_p3_17_11", C_CHUNKS_P3_17_11, chunks_p3::<17, 11> as fn() -> Out),
    ("chunks_mut_p3_17_11", C_CHUNKS_MUT_P3_17_11, chunks_mut_p3::<17, 11> as fn() -> Out),
    ("chunks_p3_17_12", C_CHUNKS_P3_17_12, chunks_p3::<17, 12> as fn() -> Out),
    ("chunks_mut_p3_17_12", C_CHUNKS_MUT_P3_17_12, chunks_mut_p3::<17, 12> as fn() -> Out),
    ("chunks_p3_17_13", C_CHUNKS_P3_17_13, chunks_p3::<17, 13> as fn() -> Out),
    ("chunks_mut_p3_17_13", C_CHUNKS_MUT_P3_17_13, chunks_mut_p3::<17, 13> as fn() -> Out),
    ("chunks_p3_17_14", C_CHUNKS_P3_17_14, chunks_p3::<17, 14> as fn() -> Out),
    ("chunks_mut_p3_17_14", C_CHUNKS_MUT_P3_17_14, chunks_mut_p3::<17, 14> as fn() -> Out),
    ("chunks_p3_17_15", C_CHUNKS_P3_17_15, chunks_p3::<17, 15> as fn() -> Out),
    ("chunks_mut_p3_17_15", C_CHUNKS_MUT_P3_17_15, chunks_mut_p3::<17, 15> as fn() -> Out),
    ("chunks_p3_17_16", C_CHUNKS_P3_17_16, chunks_p3::<17, 16> as fn() -> Out),
    ("chunks_mut_p3_17_16", C_CHUNKS_MUT_P3_17_16, chunks_mut_p3::<17, 16> as fn() -> Out),
    ("chunks_p3_17_17", C_CHUNKS_P3_17_17, chunks_p3::<17, 17> as fn() -> Out),
    ("chunks_mut_p3_17_17", C_CHUNKS_MUT_P3_17_17, chunks_mut_p3::<17, 17> as fn() -> Out),
    ("chunks_p3_17_18", C_CHUNKS_P3_17_18, chunks_p3::<17, 18> as fn() -> Out),
    ("chunks_mut_p3_17_18", C_CHUNKS_MUT_P3_17_18, chunks_mut_p3::<17, 18> as fn() -> Out),
    ("chunks_p3_17_19", C_CHUNKS_P3_17_19, chunks_p3::<17, 19> as fn() -> Out),
    ("chunks_mut_p3_17_19", C_CHUNKS_MUT_P3_17_19, chunks_mut_p3::<17, 19> as fn() -> Out),
    ("chunks_p3_17_20", C_CHUNKS_P3_17_20, chunks_p3::<17, 20> as fn() -> Out),
    ("chunks_mut_p3_17_20", C_CHUNKS_MUT_P3_17_20, chunks_mut_p3::<17, 20> as fn() -> Out),
    ("chunks_p3_17_21", C_CHUNKS_P3_17_21, chunks_p3::<17, 21> as fn() -> Out),
    ("chunks_mut_p3_17_21", C_CHUNKS_MUT_P3_17_21, chunks_mut_p3::<17, 21> as fn() -> Out),
    ("chunks_p3_17_22", C_CHUNKS_P3_17_22, chunks_p3::<17, 22> as fn() -> Out),
    ("chunks_mut_p3_17_22", C_CHUNKS_MUT_P3_17_22, chunks_mut_p3::<17, 22> as fn() -> Out),
    ("chunks_p3_17_23", C_CHUNKS_P3_17_23, chunks_p3::<17, 23> as fn() -> Out),
    ("chunks_mut_p3_17_23", C_CHUNKS_MUT_P3_17_23, chunks_mut_p3::<17, 23> as fn() -> Out),
    ("chunks_p3_17_24", C_CHUNKS_P3_17_24, chunks_p3::<17, 24> as fn() -> Out),
    ("chunks_mut_p3_17_24", C_CHUNKS_MUT_P3_17_24, chunks_mut_p3::<17, 24> as fn() -> Out),
    ("chunks_p3_17_25", C_CHUNKS_P3_17_25, chunks_p3::<17, 25> as fn() -> Out),
    ("chunks_mut_p3_17_25", C_CHUNKS_MUT_P3_17_25, chunks_mut_p3::<17, 25> as fn() -> Out),
    ("chunks_p3_17_26", C_CHUNKS_P3_17_26, chunks_p3::<17, 26> as fn() -> Out),
    ("chunks_mut_p3_17_26", C_CHUNKS_MUT_P3_17_26, chunks_mut_p3::<17, 26> as fn() -> Out),
    ("chunks_p3_17_27", C_CHUNKS_P3_17_27, chunks_p3::<17, 27> as fn() -> Out),
    ("chunks_mut_p3_17_27", C_CHUNKS_MUT_P3_17_27, chunks_mut_p3::<17, 27> as fn() -> Out),
    ("chunks_p3_17_28", C_CHUNKS_P3_17_28, chunks_p3::<17, 28> as fn() -> Out),
    ("chunks_mut_p3_17_28", C_CHUNKS_MUT_P3_17_28, chunks_mut_p3::<17, 28> as fn() -> Out),
    ("chunks_p3_17_29", C_CHUNKS_P3_17_29, chunks_p3::<17, 29> as fn() -> Out),
    ("chunks_mut_p3_17_29", C_CHUNKS_MUT_P3_17_29, chunks_mut_p3::<17, 29> as fn() -> Out),
    ("chunks_p3_17_30", C_CHUNKS_P3_17_30, chunks_p3::<17, 30> as fn() -> Out),
    ("chunks_mut_p3_17_30", C_CHUNKS_MUT_P3_17_30, chunks_mut_p3::<17, 30> as fn() -> Out),
    ("chunks_p3_17_31", C_CHUNKS_P3_17_31, chunks_p3::<17, 31> as fn() -> Out),
    ("chunks_mut_p3_17_31", C_CHUNKS_MUT_P3_17_31, chunks_mut_p3::<17, 31> as fn() -> Out),
    ("chunks_p3_17_32", C_CHUNKS_P3_17_32, chunks_p3::<17, 32> as fn() -> Out),
    ("chunks_mut_p3_17_32", C_CHUNKS_MUT_P3_17_32, chunks_mut_p3::<17, 32> as fn() -> Out),
    ("chunks_p3_17_33", C_CHUNKS_P3_17_33, chunks_p3::<17, 33> as fn() -> Out),
    ("chunks_mut_p3_17_33", C_CHUNKS_MUT_P3_17_33, chunks_mut_p3::<17, 33> as fn() -> Out),
    ("chunks_p3_17_34", C_CHUNKS_P3_17_34, chunks_p3::<17, 34> as fn() -> Out),
    ("chunks_mut_p3_17_34", C_CHUNKS_MUT_P3_17_34, chunks_mut_p3::<17, 34> as fn() -> Out),
    ("chunks_p3_17_35", C_CHUNKS_P3_17_35, chunks_p3::<17, 35> as fn() -> Out),
    ("chunks_mut_p3_17_35", C_CHUNKS_MUT_P3_17_35, chunks_mut_p3::<17, 35> as fn() -> Out),
    ("chunks_p3_17_36", C_CHUNKS_P3_17_36, chunks_p3::<17, 36> as fn() -> Out),
    ("chunks_mut_p3_17_36", C_CHUNKS_MUT_P3_17_36, chunks_mut_p3::<17, 36> as fn() -> Out),
    ("chunks_p3_17_37", C_CHUNKS_P3_17_37, chunks_p3::<17, 37> as fn() -> Out),
    ("chunks_mut_p3_17_37", C_CHUNKS_MUT_P3_17_37, chunks_mut_p3::<17, 37> as fn() -> Out),
    ("chunks_p3_17_38", C_CHUNKS_P3_17_38, chunks_p3::<17, 38> as fn() -> Out),
    ("chunks_mut_p3_17_38", C_CHUNKS_MUT_P3_17_38, chunks_mut_p3::<17, 38> as fn() -> Out),
    ("chunks_p3_17_39", C_CHUNKS_P3_17_39, chunks_p3::<17, 39> as fn() -> Out),
    ("chunks_mut_p3_17_39", C_CHUNKS_MUT_P3_17_39, chunks_mut_p3::<17, 39> as fn() -> Out),
    ("chunks_p3_17_40", C_CHUNKS_P3_17_40, chunks_p3::<17, 40> as fn() -> Out),
    ("chunks_mut_p3_17_40", C_CHUNKS_MUT_P3_17_40, chunks_mut_p3::<17, 40> as fn() -> Out),
    ("chunks_p3_17_41", C_CHUNKS_P3_17_41, chunks_p3::<17, 41> as fn() -> Out),
    ("chunks_mut_p3_17_41", C_CHUNKS_MUT_P3_17_41, chunks_mut_p3::<17, 41> as fn() -> Out),
    ("chunks_p3_17_42", C_CHUNKS_P3_17_42, chunks_p3::<17, 42> as fn() -> Out),
    ("chunks_mut_p3_17_42", C_CHUNKS_MUT_P3_17_42, chunks_mut_p3::<17, 42> as fn() -> Out),
    ("chunks_p3_17_43", C_CHUNKS_P3_17_43, chunks_p3::<17, 43> as fn() -> Out),
    ("chunks_mut_p3_17_43", C_CHUNKS_MUT_P3_17_43, chunks_mut_p3::<17, 43> as fn() -> Out),
    ("chunks_p3_17_44", C_CHUNKS_P3_17_44, chunks_p3::<17, 44> as fn() -> Out),
    ("chunks_mut_p3_17_44", C_CHUNKS_MUT_P3_17_44, chunks_mut_p3::<17, 44> as fn() -> Out),
    ("chunks_p3_17_45", C_CHUNKS_P3_17_45, chunks_p3::<17, 45> as fn() -> Out),
    ("chunks_mut_p3_17_45", C_CHUNKS_MUT_P3_17_45, chunks_mut_p3::<17, 45> as fn() -> Out),
    ("chunks_p3_17_46", C_CHUNKS_P3_17_46, chunks_p3::<17, 46> as fn() -> Out),
    ("chunks_mut_p3_17_46", C_CHUNKS_MUT_P3_17_46, chunks_mut_p3::<17, 46> as fn() -> Out),
    ("chunks_p3_17_47", C_CHUNKS_P3_17_47, chunks_p3::<17, 47> as fn() -> Out),
    ("chunks_mut_p3_17_47", C_CHUNKS_MUT_P3_17_47, chunks_mut_p3::<17, 47> as fn() -> Out),
    ("chunks_p3_17_48", C_CHUNKS_P3_17_48, chunks_p3::<17, 48> as fn() -> Out),
    ("chunks_mut_p3_17_48", C_CHUNKS_MUT_P3_17_48, chunks_mut_p3::<17, 48> as fn() -> Out),
    ("chunks_p3_17_49", C_CHUNKS_P3_17_49, chunks_p3::<17, 49> as fn() -> Out),
    ("chunks_mut_p3_17_49", C_CHUNKS_MUT_P3_17_49, chunks_mut_p3::<17, 49> as fn() -> Out),
    ("chunks_p3_17_50", C_CHUNKS_P3_17_50, chunks_p3::<17, 50> as fn() -> Out),
    ("chunks_mut_p3_17_50", C_CHUNKS_MUT_P3_17_50, chunks_mut_p3::<17, 50> as fn() -> Out),
    ("chunks_p3_17_51", C_CHUNKS_P3_17_51, chunks_p3::<17, 51> as fn() -> Out),
    ("chunks_mut_p3_17_51", C_CHUNKS_MUT_P3_17_51, chunks_mut_p3::<17, 51> as fn() -> Out),
    ("chunks_p3_17_52", C_CHUNKS_P3_17_52, chunks_p3::<17, 52> as fn() -> Out),
    ("chunks_mut_p3_17_52", C_CHUNKS_MUT_P3_17_52, chunks_mut_p3::<17, 52> as fn() -> Out),
    ("chunks_p3_17_53", C_CHUNKS_P3_17_53, chunks_p3::<17, 53> as fn() -> Out),
    ("chunks_mut_p3_17_53", C_CHUNKS_MUT_P3_17_53, chunks_mut_p3::<17, 53> as fn() -> Out),
    ("reinterpret_p3_17_0", C_REINTERPRET_P3_17_0, reinterpret_p3::<17, 0> as fn() -> Out),
    ("reinterpret_p3_17_1", C_REINTERPRET_P3_17_1, reinterpret_p3::<17, 1> as fn() -> Out),
    ("reinterpret_p3_17_16", C_REINTERPRET_P3_17_16, reinterpret_p3::<17, 16> as fn() -> Out),
    ("reinterpret_p3_17_17", C_REINTERPRET_P3_17_17, reinterpret_p3::<17, 17> as fn() -> Out),
    ("reinterpret_p3_17_18", C_REINTERPRET_P3_17_18, reinterpret_p3::<17, 18> as fn() -> Out),
    ("reinterpret_p3_17_34", C_REINTERPRET_P3_17_34, reinterpret_p3::<17, 34> as fn() -> Out),
    ("reinterpret_p3_17_53", C_REINTERPRET_P3_17_53, reinterpret_p3::<17, 53> as fn() -> Out),
    ("byvalue_p3_17", C_BYVALUE_P3_17, byvalue_p3::<17> as fn() -> Out),
    ("native_chunks_p3_17_0", C_NATIVE_CHUNKS_P3_17_0, native_chunks_p3::<17, 0> as fn() -> Out),
    ("native_chunks_p3_17_1", C_NATIVE_CHUNKS_P3_17_1, native_chunks_p3::<17, 1> as fn() -> Out),
    ("native_chunks_p3_17_2", C_NATIVE_CHUNKS_P3_17_2, native_chunks_p3::<17, 2> as fn() -> Out),
    ("native_chunks_p3_17_3", C_NATIVE_CHUNKS_P3_17_3, native_chunks_p3::<17, 3> as fn() -> Out),
    ("chunks_p3_33_0", C_CHUNKS_P3_33_0, chunks_p3::<33, 0> as fn() -> Out),
    ("chunks_mut_p3_33_0", C_CHUNKS_MUT_P3_33_0, chunks_mut_p3::<33, 0> as fn() -> Out),
    ("chunks_p3_33_1", C_CHUNKS_P3_33_1, chunks_p3::<33, 1> as fn() -> Out),
    ("chunks_mut_p3_33_1", C_CHUNKS_MUT_P3_33_1, chunks_mut_p3::<33, 1> as fn() -> Out),
    ("chunks_p3_33_32", C_CHUNKS_P3_33_32, chunks_p3::<33, 32> as fn() -> Out),
    ("chunks_mut_p3_33_32", C_CHUNKS_MUT_P3_33_32, chunks_mut_p3::<33, 32> as fn() -> Out),
    ("chunks_p3_33_33", C_CHUNKS_P3_33_33, chunks_p3::<33, 33> as fn() -> Out),
    ("chunks_mut_p3_33_33", C_CHUNKS_MUT_P3_33_33, chunks_mut_p3::<33, 33> as fn() -> Out),
    ("chunks_p3_33_34", C_CHUNKS_P3_33_34, chunks_p3::<33, 34> as fn() -> Out),
    ("chunks_mut_p3_33_34", C_CHUNKS_MUT_P3_33_34, chunks_mut_p3::<33, 34> as fn() -> Out),
    ("chunks_p3_33_65", C_CHUNKS_P3_33_65, chunks_p3::<33, 65> as fn() -> Out),
    ("chunks_mut_p3_33_65", C_CHUNKS_MUT_P3_33_65, chunks_mut_p3::<33, 65> as fn() -> Out),
    ("chunks_p3_33_66", C_CHUNKS_P3_33_66, chunks_p3::<33, 66> as fn() -> Out),
    ("chunks_mut_p3_33_66", C_CHUNKS_MUT_P3_33_66, chunks_mut_p3::<33, 66> as fn() -> Out),
    ("chunks_p3_33_67", C_CHUNKS_P3_33_67, chunks_p3::<33, 67> as fn() -> Out),
    ("chunks_mut_p3_33_67", C_CHUNKS_MUT_P3_33_67, chunks_mut_p3::<33, 67> as fn() -> Out),
    ("chunks_p3_33_98", C_CHUNKS_P3_33_98, chunks_p3::<33, 98> as fn() -> Out),
    ("chunks_mut_p3_33_98", C_CHUNKS_MUT_P3_33_98, chunks_mut_p3::<33, 98> as fn() -> Out),
    ("chunks_p3_33_99", C_CHUNKS_P3_33_99, chunks_p3::<33, 99> as fn() -> Out),
    ("chunks_mut_p3_33_99", C_CHUNKS_MUT_P3_33_99, chunks_mut_p3::<33, 99> as fn() -> Out),
    ("chunks_p3_33_100", C_CHUNKS_P3_33_100, chunks_p3::<33, 100> as fn() -> Out),
    ("chunks_mut_p3_33_100", C_CHUNKS_MUT_P3_33_100, chunks_mut_p3::<33, 100> as fn() -> Out),
    ("chunks_p3_33_101", C_CHUNKS_P3_33_101, chunks_p3::<33, 101> as fn() -> Out),
    ("chunks_mut_p3_33_101", C_CHUNKS_MUT_P3_33_101, chunks_mut_p3::<33, 101> as fn() -> Out),
    ("reinterpret_p3_33_0", C_REINTERPRET_P3_33_0, reinterpret_p3::<33, 0> as fn() -> Out),
    ("reinterpret_p3_33_1", C_REINTERPRET_P3_33_1, reinterpret_p3::<33, 1> as fn() -> Out),
    ("reinterpret_p3_33_32", C_REINTERPRET_P3_33_32, reinterpret_p3::<33, 32> as fn() -> Out),
    ("reinterpret_p3_33_33", C_REINTERPRET_P3_33_33, reinterpret_p3::<33, 33> as fn() -> Out),
    ("reinterpret_p3_33_34", C_REINTERPRET_P3_33_34, reinterpret_p3::<33, 34> as fn() -> Out),
    ("reinterpret_p3_33_66", C_REINTERPRET_P3_33_66, reinterpret_p3::<33, 66> as fn() -> Out),
    ("reinterpret_p3_33_101", C_REINTERPRET_P3_33_101, reinterpret_p3::<33, 101> as fn() -> Out),
    ("byvalue_p3_33", C_BYVALUE_P3_33, byvalue_p3::<33> as fn() -> Out),
    ("native_chunks_p3_33_0", C_NATIVE_CHUNKS_P3_33_0, native_chunks_p3::<33, 0> as fn() -> Out),
    ("native_chunks_p3_33_1", C_NATIVE_CHUNKS_P3_33_1, native_chunks_p3::<33, 1> as fn() -> Out),
    ("native_chunks_p3_33_2", C_NATIVE_CHUNKS_P3_33_2, native_chunks_p3::<33, 2> as fn() -> Out),
    ("native_chunks_p3_33_3", C_NATIVE_CHUNKS_P3_33_3, native_chunks_p3::<33, 3> as fn() -> Out),
    ("chunks_p3_64_0", C_CHUNKS_P3_64_0, chunks_p3::<64, 0> as fn() -> Out),
    ("chunks_mut_p3_64_0", C_CHUNKS_MUT_P3_64_0, chunks_mut_p3::<64, 0> as fn() -> Out),
    ("chunks_p3_64_1", C_CHUNKS_P3_64_1, chunks_p3::<64, 1> as fn() -> Out),
    ("chunks_mut_p3_64_1", C_CHUNKS_MUT_P3_64_1, chunks_mut_p3::<64, 1> as fn() -> Out),
    ("chunks_p3_64_63", C_CHUNKS_P3_64_63, chunks_p3::<64, 63> as fn() -> Out),
    ("chunks_mut_p3_64_63", C_CHUNKS_MUT_P3_64_63, chunks_mut_p3::<64, 63> as fn() -> Out),
    ("chunks_p3_64_64", C_CHUNKS_P3_64_64, chunks_p3::<64, 64> as fn() -> Out),
    ("chunks_mut_p3_64_64", C_CHUNKS_MUT_P3_64_64, chunks_mut_p3::<64, 64> as fn() -> Out),
    ("chunks_p3_64_65", C_CHUNKS_P3_64_65, chunks_p3::<64, 65> as fn() -> Out),
    ("chunks_mut_p3_64_65", C_CHUNKS_MUT_P3_64_65, chunks_mut_p3::<64, 65> as fn() -> Out),
    ("chunks_p3_64_127", C_CHUNKS_P3_64_127, chunks_p3::<64, 127> as fn() -> Out),
    ("chunks_mut_p3_64_127", C_CHUNKS_MUT_P3_64_127, chunks_mut_p3::<64, 127> as fn() -> Out),
    ("chunks_p3_64_128", C_CHUNKS_P3_64_128, chunks_p3::<64, 128> as fn() -> Out),
    ("chunks_mut_p3_64_128", C_CHUNKS_MUT_P3_64_128, chunks_mut_p3::<64, 128> as fn() -> Out),
    ("chunks_p3_64_129", C_CHUNKS_P3_64_129, chunks_p3::<64, 129> as fn() -> Out),
    ("chunks_mut_p3_64_129", C_CHUNKS_MUT_P3_64_129, chunks_mut_p3::<64, 129> as fn() -> Out),
    ("chunks_p3_64_191", C_CHUNKS_P3_64_191, chunks_p3::<64, 191> as fn() -> Out),
    ("chunks_mut_p3_64_191", C_CHUNKS_MUT_P3_64_191, chunks_mut_p3::<64, 191> as fn() -> Out),
    ("chunks_p3_64_192", C_CHUNKS_P3_64_192, chunks_p3::<64, 192> as fn() -> Out),
    ("chunks_mut_p3_64_192", C_CHUNKS_MUT_P3_64_192, chunks_mut_p3::<64, 192> as fn() -> Out),
    ("chunks_p3_64_193", C_CHUNKS_P3_64_193, chunks_p3::<64, 193> as fn() -> Out),
    ("chunks_mut_p3_64_193", C_CHUNKS_MUT_P3_64_193, chunks_mut_p3::<64, 193> as fn() -> Out),
    ("chunks_p3_64_194", C_CHUNKS_P3_64_194, chunks_p3::<64, 194> as fn() -> Out),
    ("chunks_mut_p3_64_194", C_CHUNKS_MUT_P3_64_194, chunks_mut_p3::<64, 194> as fn() -> Out),
    ("reinterpret_p3_64_0", C_REINTERPRET_P3_64_0, reinterpret_p3::<64, 0> as fn() -> Out),
    ("reinterpret_p3_64_1", C_REINTERPRET_P3_64_1, reinterpret_p3::<64, 1> as fn() -> Out),
    ("reinterpret_p3_64_63", C_REINTERPRET_P3_64_63, reinterpret_p3::<64, 63> as fn() -> Out),
    ("reinterpret_p3_64_64", C_REINTERPRET_P3_64_64, reinterpret_p3::<64, 64> as fn() -> Out),
    ("reinterpret_p3_64_65", C_REINTERPRET_P3_64_65, reinterpret_p3::<64, 65> as fn() -> Out),
    ("reinterpret_p3_64_128", C_REINTERPRET_P3_64_128, reinterpret_p3::<64, 128> as fn() -> Out),
    ("reinterpret_p3_64_194", C_REINTERPRET_P3_64_194, reinterpret_p3::<64, 194> as fn() -> Out),
    ("byvalue_p3_64", C_BYVALUE_P3_64, byvalue_p3::<64> as fn() -> Out),
    ("native_chunks_p3_64_0", C_NATIVE_CHUNKS_P3_64_0, native_chunks_p3::<64, 0> as fn() -> Out),
    ("native_chunks_p3_64_1", C_NATIVE_CHUNKS_P3_64_1, native_chunks_p3::<64, 1> as fn() -> Out),
    ("native_chunks_p3_64_2", C_NATIVE_CHUNKS_P3_64_2, native_chunks_p3::<64, 2> as fn() -> Out),
    ("native_chunks_p3_64_3", C_NATIVE_CHUNKS_P3_64_3, native_chunks_p3::<64, 3> as fn() -> Out),
    ("chunks_p3_100_0", C_CHUNKS_P3_100_0, chunks_p3::<100, 0> as fn() -> Out),
    ("chunks_mut_p3_100_0", C_CHUNKS_MUT_P3_100_0, chunks_mut_p3::<100, 0> as fn() -> Out),
    ("chunks_p3_100_1", C_CHUNKS_P3_100_1, chunks_p3::<100, 1> as fn() -> Out),
    ("chunks_mut_p3_100_1", C_CHUNKS_MUT_P3_100_1, chunks_mut_p3::<100, 1> as fn() -> Out),
    ("chunks_p3_100_99", C_CHUNKS_P3_100_99, chunks_p3::<100, 99> as fn() -> Out),
    ("chunks_mut_p3_100_99", C_CHUNKS_MUT_P3_100_99, chunks_mut_p3::<100, 99> as fn() -> Out),
    ("chunks_p3_100_100", C_CHUNKS_P3_100_100, chunks_p3::<100, 100> as fn() -> Out),
    ("chunks_mut_p3_100_100", C_CHUNKS_MUT_P3_100_100, chunks_mut_p3::<100, 100> as fn() -> Out),
    ("chunks_p3_100_101", C_CHUNKS_P3_100_101, chunks_p3::<100, 101> as fn() -> Out),
    ("chunks_mut_p3_100_101", C_CHUNKS_MUT_P3_100_101, chunks_mut_p3::<100, 101> as fn() -> Out),
    ("chunks_p3_100_199", C_CHUNKS_P3_100_199, chunks_p3::<100, 199> as fn() -> Out),
    ("chunks_mut_p3_100_199", C_CHUNKS_MUT_P3_100_199, chunks_mut_p3::<100, 199> as fn() -> Out),
    ("chunks_p3_100_200", C_CHUNKS_P3_100_200, chunks_p3::<100, 200> as fn() -> Out),
    ("chunks_mut_p3_100_200", C_CHUNKS_MUT_P3_100_200, chunks_mut_p3::<100, 200> as fn() -> Out),
    ("chunks_p3_100_201", C_CHUNKS_P3_100_201, chunks_p3::<100, 201> as fn() -> Out),
    ("chunks_mut_p3_100_201", C_CHUNKS_MUT_P3_100_201, chunks_mut_p3::<100, 201> as fn() -> Out),
    ("chunks_p3_100_302", C_CHUNKS_P3_100_302, chunks_p3::<100, 302> as fn() -> Out),
    ("chunks_mut_p3_100_302", C_CHUNKS_MUT_P3_100_302, chunks_mut_p3::<100, 302> as fn() -> Out),
    ("reinterpret_p3_100_0", C_REINTERPRET_P3_100_0, reinterpret_p3::<100, 0> as fn() -> Out),
    ("reinterpret_p3_100_1", C_REINTERPRET_P3_100_1, reinterpret_p3::<100, 1> as fn() -> Out),
    ("reinterpret_p3_100_99", C_REINTERPRET_P3_100_99, reinterpret_p3::<100, 99> as fn() -> Out),
    ("reinterpret_p3_100_100", C_REINTERPRET_P3_100_100, reinterpret_p3::<100, 100> as fn() -> Out),
    ("reinterpret_p3_100_101", C_REINTERPRET_P3_100_101, reinterpret_p3::<100, 101> as fn() -> Out),
    ("reinterpret_p3_100_200", C_REINTERPRET_P3_100_200, reinterpret_p3::<100, 200> as fn() -> Out),
    ("reinterpret_p3_100_302", C_REINTERPRET_P3_100_302, reinterpret_p3::<100, 302> as fn() -> Out),
    ("byvalue_p3_100", C_BYVALUE_P3_100, byvalue_p3::<100> as fn() -> Out),
    ("native_chunks_p3_100_0", C_NATIVE_CHUNKS_P3_100_0, native_chunks_p3::<100, 0> as fn() -> Out),
    ("native_chunks_p3_100_1", C_NATIVE_CHUNKS_P3_100_1, native_chunks_p3::<100, 1> as fn() -> Out),
    ("native_chunks_p3_100_2", C_NATIVE_CHUNKS_P3_100_2, native_chunks_p3::<100, 2> as fn() -> Out),
    ("native_chunks_p3_100_3", C_NATIVE_CHUNKS_P3_100_3, native_chunks_p3::<100, 3> as fn() -> Out),
    ("chunks_p3_1024_0", C_CHUNKS_P3_1024_0, chunks_p3::<1024, 0> as fn() -> Out),
    ("chunks_mut_p3_1024_0", C_CHUNKS_MUT_P3_1024_0, chunks_mut_p3::<1024, 0> as fn() -> Out),
    ("chunks_p3_1024_1", C_CHUNKS_P3_1024_1, chunks_p3::<1024, 1> as fn() -> Out),
    ("chunks_mut_p3_1024_1", C_CHUNKS_MUT_P3_1024_1, chunks_mut_p3::<1024, 1> as fn() -> Out),
    ("chunks_p3_1024_1023", C_CHUNKS_P3_1024_1023, chunks_p3::<1024, 1023> as fn() -> Out),
    ("chunks_mut_p3_1024_1023", C_CHUNKS_MUT_P3_1024_1023, chunks_mut_p3::<1024, 1023> as fn() -> Out),
    ("chunks_p3_1024_1024", C_CHUNKS_P3_1024_1024, chunks_p3::<1024, 1024> as fn() -> Out),
    ("chunks_mut_p3_1024_1024", C_CHUNKS_MUT_P3_1024_1024, chunks_mut_p3::<1024, 1024> as fn() -> Out),
    ("chunks_p3_1024_1025", C_CHUNKS_P3_1024_1025, chunks_p3::<1024, 1025> as fn() -> Out),
    ("chunks_mut_p3_1024_1025", C_CHUNKS_MUT_P3_1024_1025, chunks_mut_p3::<1024, 1025> as fn() -> Out),
    ("chunks_p3_1024_2047", C_CHUNKS_P3_1024_2047, chunks_p3::<1024, 2047> as fn() -> Out),
    ("chunks_mut_p3_1024_2047", C_CHUNKS_MUT_P3_1024_2047, chunks_mut_p3::<1024, 2047> as fn() -> Out),
    ("chunks_p3_1024_2048", C_CHUNKS_P3_1024_2048, chunks_p3::<1024, 2048> as fn() -> Out),
    ("chunks_mut_p3_1024_2048", C_CHUNKS_MUT_P3_1024_2048, chunks_mut_p3::<1024, 2048> as fn() -> Out),
    ("chunks_p3_1024_2049", C_CHUNKS_P3_1024_2049, chunks_p3::<1024, 2049> as fn() -> Out),
    ("chunks_mut_p3_1024_2049", C_CHUNKS_MUT_P3_1024_2049, chunks_mut_p3::<1024, 2049> as fn() -> Out),
    ("chunks_p3_1024_3074", C_CHUNKS_P3_1024_3074, chunks_p3::<1024, 3074> as fn() -> Out),
    ("chunks_mut_p3_1024_3074", C_CHUNKS_MUT_P3_1024_3074, chunks_mut_p3::<1024, 3074> as fn() -> Out),
    ("reinterpret_p3_1024_0", C_REINTERPRET_P3_1024_0, reinterpret_p3::<1024, 0> as fn() -> Out),
    ("reinterpret_p3_1024_1", C_REINTERPRET_P3_1024_1, reinterpret_p3::<1024, 1> as fn() -> Out),
    ("reinterpret_p3_1024_1023", C_REINTERPRET_P3_1024_1023, reinterpret_p3::<1024, 1023> as fn() -> Out),
    ("reinterpret_p3_1024_1024", C_REINTERPRET_P3_1024_1024, reinterpret_p3::<1024, 1024> as fn() -> Out),
    ("reinterpret_p3_1024_1025", C_REINTERPRET_P3_1024_1025, reinterpret_p3::<1024, 1025> as fn() -> Out),
    ("reinterpret_p3_1024_2048", C_REINTERPRET_P3_1024_2048, reinterpret_p3::<1024, 2048> as fn() -> Out),
    ("reinterpret_p3_1024_3074", C_REINTERPRET_P3_1024_3074, reinterpret_p3::<1024, 3074> as fn() -> Out),
    ("byvalue_p3_1024", C_BYVALUE_P3_1024, byvalue_p3::<1024> as fn() -> Out),
    ("native_chunks_p3_1024_0", C_NATIVE_CHUNKS_P3_1024_0, native_chunks_p3::<1024, 0> as fn() -> Out),
    ("native_chunks_p3_1024_1", C_NATIVE_CHUNKS_P3_1024_1, native_chunks_p3::<1024, 1> as fn() -> Out),
    ("native_chunks_p3_1024_2", C_NATIVE_CHUNKS_P3_1024_2, native_chunks_p3::<1024, 2> as fn() -> Out),
    ("native_chunks_p3_1024_3", C_NATIVE_CHUNKS_P3_1024_3, native_chunks_p3::<1024, 3> as fn() -> Out),
    ("chunks_unit_0_0", C_CHUNKS_UNIT_0_0, chunks_unit::<0, 0> as fn() -> Out),
    ("chunks_mut_unit_0_0", C_CHUNKS_MUT_UNIT_0_0, chunks_mut_unit::<0, 0> as fn() -> Out),
    ("reinterpret_unit_0_0", C_REINTERPRET_UNIT_0_0, reinterpret_unit::<0, 0> as fn() -> Out),
    ("reinterpret_unit_0_1", C_REINTERPRET_UNIT_0_1, reinterpret_unit::<0, 1> as fn() -> Out),
    ("reinterpret_unit_0_2", C_REINTERPRET_UNIT_0_2, reinterpret_unit::<0, 2> as fn() -> Out),
    ("byvalue_unit_0", C_BYVALUE_UNIT_0, byvalue_unit::<0> as fn() -> Out),
    ("native_chunks_unit_0_0", C_NATIVE_CHUNKS_UNIT_0_0, native_chunks_unit::<0, 0> as fn() -> Out),
    ("native_chunks_unit_0_1", C_NATIVE_CHUNKS_UNIT_0_1, native_chunks_unit::<0, 1> as fn() -> Out),
    ("native_chunks_unit_0_2", C_NATIVE_CHUNKS_UNIT_0_2, native_chunks_unit::<0, 2> as fn() -> Out),
    ("native_chunks_unit_0_3", C_NATIVE_CHUNKS_UNIT_0_3, native_chunks_unit::<0, 3> as fn() -> Out),
    ("chunks_unit_1_0", C_CHUNKS_UNIT_1_0, chunks_unit::<1, 0> as fn() -> Out),
    ("chunks_mut_unit_1_0", C_CHUNKS_MUT_UNIT_1_0, chunks_mut_unit::<1, 0> as fn() -> Out),
    ("chunks_unit_1_1", C_CHUNKS_UNIT_1_1, chunks_unit::<1, 1> as fn() -> Out),
    ("chunks_mut_unit_1_1", C_CHUNKS_MUT_UNIT_1_1, chunks_mut_unit::<1, 1> as fn() -> Out),
    ("chunks_unit_1_2", C_CHUNKS_UNIT_1_2, chunks_unit::<1, 2> as fn() -> Out),
    ("chunks_mut_unit_1_2", C_CHUNKS_MUT_UNIT_1_2, chunks_mut_unit::<1, 2> as fn() -> Out),
    ("chunks_unit_1_3", C_CHUNKS_UNIT_1_3, chunks_unit::<1, 3> as fn() -> Out),
    ("chunks_mut_unit_1_3", C_CHUNKS_MUT_UNIT_1_3, chunks_mut_unit::<1, 3> as fn() -> Out),
    ("chunks_unit_1_4", C_CHUNKS_UNIT_1_4, chunks_unit::<1, 4> as fn() -> Out),
    ("chunks_mut_unit_1_4", C_CHUNKS_MUT_UNIT_1_4, chunks_mut_unit::<1, 4> as fn() -> Out),
    ("chunks_unit_1_5", C_CHUNKS_UNIT_1_5, chunks_unit::<1, 5> as fn() -> Out),
    ("chunks_mut_unit_1_5", C_CHUNKS_MUT_UNIT_1_5, chunks_mut_unit::<1, 5> as fn() -> Out),
    ("reinterpret_unit_1_0", C_REINTERPRET_UNIT_1_0, reinterpret_unit::<1, 0> as fn() -> Out),
    ("reinterpret_unit_1_1", C_REINTERPRET_UNIT_1_1, reinterpret_unit::<1, 1> as fn() -> Out),
    ("reinterpret_unit_1_2", C_REINTERPRET_UNIT_1_2, reinterpret_unit::<1, 2> as fn() -> Out),
    ("reinterpret_unit_1_5", C_REINTERPRET_UNIT_1_5, reinterpret_unit::<1, 5> as fn() -> Out),
    ("byvalue_unit_1", C_BYVALUE_UNIT_1, byvalue_unit::<1> as fn() -> Out),
    ("native_chunks_unit_1_0", C_NATIVE_CHUNKS_UNIT_1_0, native_chunks_unit::<1, 0> as fn() -> Out),
    ("native_chunks_unit_1_1", C_NATIVE_CHUNKS_UNIT_1_1, native_chunks_unit::<1, 1> as fn() -> Out),
    ("native_chunks_unit_1_2", C_NATIVE_CHUNKS_UNIT_1_2, native_chunks_unit::<1, 2> as fn() -> Out),
    ("native_chunks_unit_1_3", C_NATIVE_CHUNKS_UNIT_1_3, native_chunks_unit::<1, 3> as fn() -> Out),
    ("chunks_unit_2_0", C_CHUNKS_UNIT_2_0, chunks_unit::<2, 0> as fn() -> Out),
    ("chunks_mut_unit_2_0", C_CHUNKS_MUT_UNIT_2_0, chunks_mut_unit::<2, 0> as fn() -> Out),
    ("chunks_unit_2_1", C_CHUNKS_UNIT_2_1, chunks_unit::<2, 1> as fn() -> Out),
    ("chunks_mut_unit_2_1", C_CHUNKS_MUT_UNIT_2_1, chunks_mut_unit::<2, 1> as fn() -> Out),
    ("chunks_unit_2_2", C_CHUNKS_UNIT_2_2, chunks_unit::<2, 2> as fn() -> Out),
    ("chunks_mut_unit_2_2", C_CHUNKS_MUT_UNIT_2_2, chunks_mut_unit::<2, 2> as fn() -> Out),
    ("chunks_unit_2_3", C_CHUNKS_UNIT_2_3, chunks_unit::<2, 3> as fn() -> Out),
    ("chunks_mut_unit_2_3", C_CHUNKS_MUT_UNIT_2_3, chunks_mut_unit::<2, 3> as fn() -> Out),
    ("chunks_unit_2_4", C_CHUNKS_UNIT_2_4, chunks_unit::<2, 4> as fn() -> Out),
    ("chunks_mut_unit_2_4", C_CHUNKS_MUT_UNIT_2_4, chunks_mut_unit::<2, 4> as fn() -> Out),
    ("chunks_unit_2_5", C_CHUNKS_UNIT_2_5, chunks_unit::<2, 5> as fn() -> Out),
    ("chunks_mut_unit_2_5", C_CHUNKS_MUT_UNIT_2_5, chunks_mut_unit::<2, 5> as fn() -> Out),
    ("chunks_unit_2_6", C_CHUNKS_UNIT_2_6, chunks_unit::<2, 6> as fn() -> Out),
    ("chunks_mut_unit_2_6", C_CHUNKS_MUT_UNIT_2_6, chunks_mut_unit::<2, 6> as fn() -> Out),
    ("chunks_unit_2_7", C_CHUNKS_UNIT_2_7, chunks_unit::<2, 7> as fn() -> Out),
    ("chunks_mut_unit_2_7", C_CHUNKS_MUT_UNIT_2_7, chunks_mut_unit::<2, 7> as fn() -> Out),
    ("chunks_unit_2_8", C_CHUNKS_UNIT_2_8, chunks_unit::<2, 8> as fn() -> Out),
    ("chunks_mut_unit_2_8", C_CHUNKS_MUT_UNIT_2_8, chunks_mut_unit::<2, 8> as fn() -> Out),
    ("reinterpret_unit_2_0", C_REINTERPRET_UNIT_2_0, reinterpret_unit::<2, 0> as fn() -> Out),
    ("reinterpret_unit_2_1", C_REINTERPRET_UNIT_2_1, reinterpret_unit::<2, 1> as fn() -> Out),
    ("reinterpret_unit_2_2", C_REINTERPRET_UNIT_2_2, reinterpret_unit::<2, 2> as fn() -> Out),
    ("reinterpret_unit_2_3", C_REINTERPRET_UNIT_2_3, reinterpret_unit::<2, 3> as fn() -> Out),
    ("reinterpret_unit_2_4", C_REINTERPRET_UNIT_2_4, reinterpret_unit::<2, 4> as fn() -> Out),
    ("reinterpret_unit_2_8", C_REINTERPRET_UNIT_2_8, reinterpret_unit::<2, 8> as fn() -> Out),
    ("byvalue_unit_2", C_BYVALUE_UNIT_2, byvalue_unit::<2> as fn() -> Out),
    ("native_chunks_unit_2_0", C_NATIVE_CHUNKS_UNIT_2_0, native_chunks_unit::<2, 0> as fn() -> Out),
    ("native_chunks_unit_2_1", C_NATIVE_CHUNKS_UNIT_2_1, native_chunks_unit::<2, 1> as fn() -> Out),
    ("native_chunks_unit_2_2", C_NATIVE_CHUNKS_UNIT_2_2, native_chunks_unit::<2, 2> as fn() -> Out),
    ("native_chunks_unit_2_3", C_NATIVE_CHUNKS_UNIT_2_3, native_chunks_unit::<2, 3> as fn() -> Out),
    ("chunks_unit_3_0", C_CHUNKS_UNIT_3_0, chunks_unit::<3, 0> as fn() -> Out),
    ("chunks_mut_unit_3_0", C_CHUNKS_MUT_UNIT_3_0, chunks_mut_unit::<3, 0> as fn() -> Out),
    ("chunks_unit_3_1", C_CHUNKS_UNIT_3_1, chunks_unit::<3, 1> as fn() -> Out),
    ("chunks_mut_unit_3_1", C_CHUNKS_MUT_UNIT_3_1, chunks_mut_unit::<3, 1> as fn() -> Out),
    ("chunks_unit_3_2", C_CHUNKS_UNIT_3_2, chunks_unit::<3, 2> as fn() -> Out),
    ("chunks_mut_unit_3_2", C_CHUNKS_MUT_UNIT_3_2, chunks_mut_unit::<3, 2> as fn() -> Out),
    ("chunks_unit_3_3", C_CHUNKS_UNIT_3_3, chunks_unit::<3, 3> as fn() -> Out),
    ("chunks_mut_unit_3_3", C_CHUNKS_MUT_UNIT_3_3, chunks_mut_unit::<3, 3> as fn() -> Out),
    ("chunks_unit_3_4", C_CHUNKS_UNIT_3_4, chunks_unit::<3, 4> as fn() -> Out),
    ("chunks_mut_unit_3_4", C_CHUNKS_MUT_UNIT_3_4, chunks_mut_unit::<3, 4> as fn() -> Out),
    ("chunks_unit_3_5", C_CHUNKS_UNIT_3_5, chunks_unit::<3, 5> as fn() -> Out),
    ("chunks_mut_unit_3_5", C_CHUNKS_MUT_UNIT_3_5, chunks_mut_unit::<3, 5> as fn() -> Out),
    ("chunks_unit_3_6", C_CHUNKS_UNIT_3_6, chunks_unit::<3, 6> as fn() -> Out),
    ("chunks_mut_unit_3_6", C_CHUNKS_MUT_UNIT_3_6, chunks_mut_unit::<3, 6> as fn() -> Out),
    ("chunks_unit_3_7", C_CHUNKS_UNIT_3_7, chunks_unit::<3, 7> as fn() -> Out),
    ("chunks_mut_unit_3_7", C_CHUNKS_MUT_UNIT_3_7, chunks_mut_unit::<3, 7> as fn() -> Out),
    ("chunks_unit_3_8", C_CHUNKS_UNIT_3_8, chunks_unit::<3, 8> as fn() -> Out),
    ("chunks_mut_unit_3_8", C_CHUNKS_MUT_UNIT_3_8, chunks_mut_unit::<3, 8> as fn() -> Out),
    ("chunks_unit_3_9", C_CHUNKS_UNIT_3_9, chunks_unit::<3, 9> as fn() -> Out),
    ("chunks_mut_unit_3_9", C_CHUNKS_MUT_UNIT_3_9, chunks_mut_unit::<3, 9> as fn() -> Out),
    ("chunks_unit_3_10", C_CHUNKS_UNIT_3_10, chunks_unit::<3, 10> as fn() -> Out),
    ("chunks_mut_unit_3_10", C_CHUNKS_MUT_UNIT_3_10, chunks_mut_unit::<3, 10> as fn() -> Out),
    ("chunks_unit_3_11", C_CHUNKS_UNIT_3_11, chunks_unit::<3, 11> as fn() -> Out),
    ("chunks_mut_unit_3_11", C_CHUNKS_MUT_UNIT_3_11, chunks_mut_unit::<3, 11> as fn() -> Out),
    ("reinterpret_unit_3_0", C_REINTERPRET_UNIT_3_0, reinterpret_unit::<3, 0> as fn() -> Out),
    ("reinterpret_unit_3_1", C_REINTERPRET_UNIT_3_1, reinterpret_unit::<3, 1> as fn() -> Out),
    ("reinterpret_unit_3_2", C_REINTERPRET_UNIT_3_2, reinterpret_unit::<3, 2> as fn() -> Out),
    ("reinterpret_unit_3_3", C_REINTERPRET_UNIT_3_3, reinterpret_unit::<3, 3> as fn() -> Out),
    ("reinterpret_unit_3_4", C_REINTERPRET_UNIT_3_4, reinterpret_unit::<3, 4> as fn() -> Out),
    ("reinterpret_unit_3_6", C_REINTERPRET_UNIT_3_6, reinterpret_unit::<3, 6> as fn() -> Out),
    ("reinterpret_unit_3_11", C_REINTERPRET_UNIT_3_11, reinterpret_unit::<3, 11> as fn() -> Out),
    ("byvalue_unit_3", C_BYVALUE_UNIT_3, byvalue_unit::<3> as fn() -> Out),
    ("native_chunks_unit_3_0", C_NATIVE_CHUNKS_UNIT_3_0, native_chunks_unit::<3, 0> as fn() -> Out),
    ("native_chunks_unit_3_1", C_NATIVE_CHUNKS_UNIT_3_1, native_chunks_unit::<3, 1> as fn() -> Out),
    ("native_chunks_unit_3_2", C_NATIVE_CHUNKS_UNIT_3_2, native_chunks_unit::<3, 2> as fn() -> Out),
    ("native_chunks_unit_3_3", C_NATIVE_CHUNKS_UNIT_3_3, native_chunks_unit::<3, 3> as fn() -> Out),
    ("chunks_unit_7_0", C_CHUNKS_UNIT_7_0, chunks_unit::<7, 0> as fn() -> Out),
    ("chunks_mut_unit_7_0", C_CHUNKS_MUT_UNIT_7_0, chunks_mut_unit::<7, 0> as fn() -> Out),
    ("chunks_unit_7_1", C_CHUNKS_UNIT_7_1, chunks_unit::<7, 1> as fn() -> Out),
    ("chunks_mut_unit_7_1", C_CHUNKS_MUT_UNIT_7_1, chunks_mut_unit::<7, 1> as fn() -> Out),
    ("chunks_unit_7_2", C_CHUNKS_UNIT_7_2, chunks_unit::<7, 2> as fn() -> Out),
    ("chunks_mut_unit_7_2", C_CHUNKS_MUT_UNIT_7_2, chunks_mut_unit::<7, 2> as fn() -> Out),
    ("chunks_unit_7_3", C_CHUNKS_UNIT_7_3, chunks_unit::<7, 3> as fn() -> Out),
    ("chunks_mut_unit_7_3", C_CHUNKS_MUT_UNIT_7_3, chunks_mut_unit::<7, 3> as fn() -> Out),
    ("chunks_unit_7_4", C_CHUNKS_UNIT_7_4, chunks_unit::<7, 4> as fn() -> Out),
    ("chunks_mut_unit_7_4", C_CHUNKS_MUT_UNIT_7_4, chunks_mut_unit::<7, 4> as fn() -> Out),
    ("chunks_unit_7_5", C_CHUNKS_UNIT_7_5, chunks_unit::<7, 5> as fn() -> Out),
    ("chunks_mut_unit_7_5", C_CHUNKS_MUT_UNIT_7_5, chunks_mut_unit::<7, 5> as fn() -> Out),
    ("chunks_unit_7_6", C_CHUNKS_UNIT_7_6, chunks_unit::<7, 6> as fn() -> Out),
    ("chunks_mut_unit_7_6", C_CHUNKS_MUT_UNIT_7_6, chunks_mut_unit::<7, 6> as fn() -> Out),
    ("chunks_unit_7_7", C_CHUNKS_UNIT_7_7, chunks_unit::<7, 7> as fn() -> Out),
    ("chunks_mut_unit_7_7", C_CHUNKS_MUT_UNIT_7_7, chunks_mut_unit::<7, 7> as fn() -> Out),
    ("chunks_unit_7_8", C_CHUNKS_UNIT_7_8, chunks_unit::<7, 8> as fn() -> Out),
    ("chunks_mut_unit_7_8", C_CHUNKS_MUT_UNIT_7_8, chunks_mut_unit::<7, 8> as fn() -> Out),
    ("chunks_unit_7_9", C_CHUNKS_UNIT_7_9, chunks_unit::<7, 9> as fn() -> Out),
    ("chunks_mut_unit_7_9", C_CHUNKS_MUT_UNIT_7_9, chunks_mut_unit::<7, 9> as fn() -> Out),
    ("chunks_unit_7_10", C_CHUNKS_UNIT_7_10, chunks_unit::<7, 10> as fn() -> Out),
    ("chunks_mut_unit_7_10", C_CHUNKS_MUT_UNIT_7_10, chunks_mut_unit::<7, 10> as fn() -> Out),
    ("chunks_unit_7_11", C_CHUNKS_UNIT_7_11, chunks_unit::<7, 11> as fn() -> Out),
    ("chunks_mut_unit_7_11", C_CHUNKS_MUT_UNIT_7_11, chunks_mut_unit::<7, 11> as fn() -> Out),
    ("chunks_unit_7_12", C_CHUNKS_UNIT_7_12, chunks_unit::<7, 12> as fn() -> Out),
    ("chunks_mut_unit_7_12", C_CHUNKS_MUT_UNIT_7_12, chunks_mut_unit::<7, 12> as fn() -> Out),
    ("chunks_unit_7_13", C_CHUNKS_UNIT_7_13, chunks_unit::<7, 13> as fn() -> Out),
    ("chunks_mut_unit_7_13", C_CHUNKS_MUT_UNIT_7_13, chunks_mut_unit::<7, 13> as fn() -> Out),
    ("chunks_unit_7_14", C_CHUNKS_UNIT_7_14, chunks_unit::<7, 14> as fn() -> Out),
    ("chunks_mut_unit_7_14", C_CHUNKS_MUT_UNIT_7_14, chunks_mut_unit::<7, 14> as fn() -> Out),
    ("chunks_unit_7_15", C_CHUNKS_UNIT_7_15, chunks_unit::<7, 15> as fn() -> Out),
    ("chunks_mut_unit_7_15", C_CHUNKS_MUT_UNIT_7_15, chunks_mut_unit::<7, 15> as fn() -> Out),
    ("chunks_unit_7_16", C_CHUNKS_UNIT_7_16, chunks_unit::<7, 16> as fn() -> Out),
    ("chunks_mut_unit_7_16", C_CHUNKS_MUT_UNIT_7_16, chunks_mut_unit::<7, 16> as fn() -> Out),
    ("chunks_unit_7_17", C_CHUNKS_UNIT_7_17, chunks_unit::<7, 17> as fn() -> Out),
    ("chunks_mut_unit_7_17", C_CHUNKS_MUT_UNIT_7_17, chunks_mut_unit::<7, 17> as fn() -> Out),
    ("chunks_unit_7_18", C_CHUNKS_UNIT_7_18, chunks_unit::<7, 18> as fn() -> Out),
    ("chunks_mut_unit_7_18", C_CHUNKS_MUT_UNIT_7_18, chunks_mut_unit::<7, 18> as fn() -> Out),
    ("chunks_unit_7_19", C_CHUNKS_UNIT_7_19, chunks_unit::<7, 19> as fn() -> Out),
    ("chunks_mut_unit_7_19", C_CHUNKS_MUT_UNIT_7_19, chunks_mut_unit::<7, 19> as fn() -> Out),
    ("chunks_unit_7_20", C_CHUNKS_UNIT_7_20, chunks_unit::<7, 20> as fn() -> Out),
    ("chunks_mut_unit_7_20", C_CHUNKS_MUT_UNIT_7_20, chunks_mut_unit::<7, 20> as fn() -> Out),
    ("chunks_unit_7_21", C_CHUNKS_UNIT_7_21, chunks_unit::<7, 21> as fn() -> Out),
    ("chunks_mut_unit_7_21", C_CHUNKS_MUT_UNIT_7_21, chunks_mut_unit::<7, 21> as fn() -> Out),
    ("chunks_unit_7_22", C_CHUNKS_UNIT_7_22, chunks_unit::<7, 22> as fn() -> Out),
    ("chunks_mut_unit_7_22", C_CHUNKS_MUT_UNIT_7_22, chunks_mut_unit::<7, 22> as fn() -> Out),
    ("chunks_unit_7_23", C_CHUNKS_UNIT_7_23, chunks_unit::<7, 23> as fn() -> Out),
    ("chunks_mut_unit_7_23", C_CHUNKS_MUT_UNIT_7_23, chunks_mut_unit::<7, 23> as fn() -> Out),
    ("reinterpret_unit_7_0", C_REINTERPRET_UNIT_7_0, reinterpret_unit::<7, 0> as fn() -> Out),
    ("reinterpret_unit_7_1", C_REINTERPRET_UNIT_7_1, reinterpret_unit::<7, 1> as fn() -> Out),
    ("reinterpret_unit_7_6", C_REINTERPRET_UNIT_7_6, reinterpret_unit::<7, 6> as fn() -> Out),
    ("reinterpret_unit_7_7", C_REINTERPRET_UNIT_7_7, reinterpret_unit::<7, 7> as fn() -> Out),
    ("reinterpret_unit_7_8", C_REINTERPRET_UNIT_7_8, reinterpret_unit::<7, 8> as fn() -> Out),
    ("reinterpret_unit_7_14", C_REINTERPRET_UNIT_7_14, reinterpret_unit::<7, 14> as fn() -> Out),
    ("reinterpret_unit_7_23", C_REINTERPRET_UNIT_7_23, reinterpret_unit::<7, 23> as fn() -> Out),
    ("byvalue_unit_7", C_BYVALUE_UNIT_7, byvalue_unit::<7> as fn() -> Out),
    ("native_chunks_unit_7_0", C_NATIVE_CHUNKS_UNIT_7_0, native_chunks_unit::<7, 0> as fn() -> Out),
    ("native_chunks_unit_7_1", C_NATIVE_CHUNKS_UNIT_7_1, native_chunks_unit::<7, 1> as fn() -> Out),
    ("native_chunks_unit_7_2", C_NATIVE_CHUNKS_UNIT_7_2, native_chunks_unit::<7, 2> as fn() -> Out),
    ("native_chunks_unit_7_3", C_NATIVE_CHUNKS_UNIT_7_3, native_chunks_unit::<7, 3> as fn() -> Out),
    ("chunks_unit_8_0", C_CHUNKS_UNIT_8_0, chunks_unit::<8, 0> as fn() -> Out),
    ("chunks_mut_unit_8_0", C_CHUNKS_MUT_UNIT_8_0, chunks_mut_unit::<8, 0> as fn() -> Out),
    ("chunks_unit_8_1", C_CHUNKS_UNIT_8_1, chunks_unit::<8, 1> as fn() -> Out),
    ("chunks_mut_unit_8_1", C_CHUNKS_MUT_UNIT_8_1, chunks_mut_unit::<8, 1> as fn() -> Out),
    ("chunks_unit_8_2", C_CHUNKS_UNIT_8_2, chunks_unit::<8, 2> as fn() -> Out),
    ("chunks_mut_unit_8_2", C_CHUNKS_MUT_UNIT_8_2, chunks_mut_unit::<8, 2> as fn() -> Out),
    ("chunks_unit_8_3", C_CHUNKS_UNIT_8_3, chunks_unit::<8, 3> as fn() -> Out),
    ("chunks_mut_unit_8_3", C_CHUNKS_MUT_UNIT_8_3, chunks_mut_unit::<8, 3> as fn() -> Out),
    ("chunks_unit_8_4", C_CHUNKS_UNIT_8_4, chunks_unit::<8, 4> as fn() -> Out),
    ("chunks_mut_unit_8_4", C_CHUNKS_MUT_UNIT_8_4, chunks_mut_unit::<8, 4> as fn() -> Out),
    ("chunks_unit_8_5", C_CHUNKS_UNIT_8_5, chunks_unit::<8, 5> as fn() -> Out),
    ("chunks_mut_unit_8_5", C_CHUNKS_MUT_UNIT_8_5, chunks_mut_unit::<8, 5> as fn() -> Out),
    ("chunks_unit_8_6", C_CHUNKS_UNIT_8_6, chunks_unit::<8, 6> as fn() -> Out),
    ("chunks_mut_unit_8_6", C_CHUNKS_MUT_UNIT_8_6, chunks_mut_unit::<8, 6> as fn() -> Out),
    ("chunks_unit_8_7", C_CHUNKS_UNIT_8_7, chunks_unit::<8, 7> as fn() -> Out),
    ("chunks_mut_unit_8_7", C_CHUNKS_MUT_UNIT_8_7, chunks_mut_unit::<8, 7> as fn() -> Out),
    ("chunks_unit_8_8", C_CHUNKS_UNIT_8_8, chunks_unit::<8, 8> as fn() -> Out),
    ("chunks_mut_unit_8_8", C_CHUNKS_MUT_UNIT_8_8, chunks_mut_unit::<8, 8> as fn() -> Out),
    ("chunks_unit_8_9", C_CHUNKS_UNIT_8_9, chunks_unit::<8, 9> as fn() -> Out),
    ("chunks_mut_unit_8_9", C_CHUNKS_MUT_UNIT_8_9, chunks_mut_unit::<8, 9> as fn() -> Out),
    ("chunks_unit_8_10", C_CHUNKS_UNIT_8_10, chunks_unit::<8, 10> as fn() -> Out),
    ("chunks_mut_unit_8_10", C_CHUNKS_MUT_UNIT_8_10, chunks_mut_unit::<8, 10> as fn() -> Out),
    ("chunks_unit_8_11", C_CHUNKS_UNIT_8_11, chunks_unit::<8, 11> as fn() -> Out),
    ("chunks_mut_unit_8_11", C_CHUNKS_MUT_UNIT_8_11, chunks_mut_unit::<8, 11> as fn() -> Out),
    ("chunks_unit_8_12", C_CHUNKS_UNIT_8_12, chunks_unit::<8, 12> as fn() -> Out),
    ("chunks_mut_unit_8_12", C_CHUNKS_MUT_UNIT_8_12, chunks_mut_unit::<8, 12> as fn() -> Out),
    ("chunks_unit_8_13", C_CHUNKS_UNIT_8_13, chunks_unit::<8, 13> as fn() -> Out),
    ("chunks_mut_unit_8_13", C_CHUNKS_MUT_UNIT_8_13, chunks_mut_unit::<8, 13> as fn() -> Out),
    ("chunks_unit_8_14", C_CHUNKS_UNIT_8_14, chunks_unit::<8, 14> as fn() -> Out),
    ("chunks_mut_unit_8_14", C_CHUNKS_MUT_UNIT_8_14, chunks_mut_unit::<8, 14> as fn() -> Out),
    ("chunks_unit_8_15", C_CHUNKS_UNIT_8_15, chunks_unit::<8, 15> as fn() -> Out),
    ("chunks_mut_unit_8_15", C_CHUNKS_MUT_UNIT_8_15, chunks_mut_unit::<8, 15> as fn() -> Out),
    ("chunks_unit_8_16", C_CHUNKS_UNIT_8_16, chunks_unit::<8, 16> as fn() -> Out),
    ("chunks_mut_unit_8_16", C_CHUNKS_MUT_UNIT_8_16, chunks_mut_unit::<8, 16> as fn() -> Out),
    ("chunks_unit_8_17", C_CHUNKS_UNIT_8_17, chunks_unit::<8, 17> as fn() -> Out),
    ("chunks_mut_unit_8_17", C_CHUNKS_MUT_UNIT_8_17, chunks_mut_unit::<8, 17> as fn() -> Out),
    ("chunks_unit_8_18", C_CHUNKS_UNIT_8_18, chunks_unit::<8, 18> as fn() -> Out),
    ("chunks_mut_unit_8_18", C_CHUNKS_MUT_UNIT_8_18, chunks_mut_unit::<8, 18> as fn() -> Out),
    ("chunks_unit_8_19", C_CHUNKS_UNIT_8_19, chunks_unit::<8, 19> as fn() -> Out),
    ("chunks_mut_unit_8_19", C_CHUNKS_MUT_UNIT_8_19, chunks_mut_unit::<8, 19> as fn() -> Out),
    ("chunks_unit_8_20", C_CHUNKS_UNIT_8_20, chunks_unit::<8, 20> as fn() -> Out),
    ("chunks_mut_unit_8_20", C_CHUNKS_MUT_UNIT_8_20, chunks_mut_unit::<8, 20> as fn() -> Out),
    ("chunks_unit_8_21", C_CHUNKS_UNIT_8_21, chunks_unit::<8, 21> as fn() -> Out),
    ("chunks_mut_unit_8_21", C_CHUNKS_MUT_UNIT_8_21, chunks_mut_unit::<8, 21> as fn() -> Out),
    ("chunks_unit_8_22", C_CHUNKS_UNIT_8_22, chunks_unit::<8, 22> as fn() -> Out),
    ("chunks_mut_unit_8_22", C_CHUNKS_MUT_UNIT_8_22, chunks_mut_unit::<8, 22> as fn() -> Out),
    ("chunks_unit_8_23", C_CHUNKS_UNIT_8_23, chunks_unit::<8, 23> as fn() -> Out),
    ("chunks_mut_unit_8_23", C_CHUNKS_MUT_UNIT_8_23, chunks_mut_unit::<8, 23> as fn() -> Out),
    ("chunks_unit_8_24", C_CHUNKS_UNIT_8_24, chunks_unit::<8, 24> as fn() -> Out),
    ("chunks_mut_unit_8_24", C_CHUNKS_MUT_UNIT_8_24, chunks_mut_unit::<8, 24> as fn() -> Out),
    ("chunks_unit_8_25", C_CHUNKS_UNIT_8_25, chunks_unit::<8, 25> as fn() -> Out),
    ("chunks_mut_unit_8_25", C_CHUNKS_MUT_UNIT_8_25, chunks_mut_unit::<8, 25> as fn() -> Out),
    ("chunks_unit_8_26", C_CHUNKS_UNIT_8_26, chunks_unit::<8, 26> as fn() -> Out),
    ("chunks_mut_unit_8_26", C_CHUNKS_MUT_UNIT_8_26, chunks_mut_unit::<8, 26> as fn() -> Out),
    ("reinterpret_unit_8_0", C_REINTERPRET_UNIT_8_0, reinterpret_unit::<8, 0> as fn() -> Out),
    ("reinterpret_unit_8_1", C_REINTERPRET_UNIT_8_1, reinterpret_unit::<8, 1> as fn() -> Out),
    ("reinterpret_unit_8_7", C_REINTERPRET_UNIT_8_7, reinterpret_unit::<8, 7> as fn() -> Out),
    ("reinterpret_unit_8_8", C_REINTERPRET_UNIT_8_8, reinterpret_unit::<8, 8> as fn() -> Out),
    ("reinterpret_unit_8_9", C_REINTERPRET_UNIT_8_9, reinterpret_unit::<8, 9> as fn() -> Out),
    ("reinterpret_unit_8_16", C_REINTERPRET_UNIT_8_16, reinterpret_unit::<8, 16> as fn() -> Out),
    ("reinterpret_unit_8_26", C_REINTERPRET_UNIT_8_26, reinterpret_unit::<8, 26> as fn() -> Out),
    ("byvalue_unit_8", C_BYVALUE_UNIT_8, byvalue_unit::<8> as fn() -> Out),
    ("native_chunks_unit_8_0", C_NATIVE_CHUNKS_UNIT_8_0, native_chunks_unit::<8, 0> as fn() -> Out),
    ("native_chunks_unit_8_1", C_NATIVE_CHUNKS_UNIT_8_1, native_chunks_unit::<8, 1> as fn() -> Out),
    ("native_chunks_unit_8_2", C_NATIVE_CHUNKS_UNIT_8_2, native_chunks_unit::<8, 2> as fn() -> Out),
    ("native_chunks_unit_8_3", C_NATIVE_CHUNKS_UNIT_8_3, native_chunks_unit::<8, 3> as fn() -> Out),
    ("chunks_unit_16_0", C_CHUNKS_UNIT_16_0, chunks_unit::<16, 0> as fn() -> Out),
    ("chunks_mut_unit_16_0", C_CHUNKS_MUT_UNIT_16_0, chunks_mut_unit::<16, 0> as fn() -> Out),
    ("chunks_unit_16_1", C_CHUNKS_UNIT_16_1, chunks_unit::<16, 1> as fn() -> Out),
    ("chunks_mut_unit_16_1", C_CHUNKS_MUT_UNIT_16_1, chunks_mut_unit::<16, 1> as fn() -> Out),
    ("chunks_unit_16_2", C_CHUNKS_UNIT_16_2, chunks_unit::<16, 2> as fn() -> Out),
    ("chunks_mut_unit_16_2", C_CHUNKS_MUT_UNIT_16_2, chunks_mut_unit::<16, 2> as fn() -> Out),
    ("chunks_unit_16_3", C_CHUNKS_UNIT_16_3, chunks_unit::<16, 3> as fn() -> Out),
    ("chunks_mut_unit_16_3", C_CHUNKS_MUT_UNIT_16_3, chunks_mut_unit::<16, 3> as fn() -> Out),
    ("chunks_unit_16_4", C_CHUNKS_UNIT_16_4, chunks_unit::<16, 4> as fn() -> Out),
    ("chunks_mut_unit_16_4", C_CHUNKS_MUT_UNIT_16_4, chunks_mut_unit::<16, 4> as fn() -> Out),
    ("chunks_unit_16_5", C_CHUNKS_UNIT_16_5, chunks_unit::<16, 5> as fn() -> Out),
    ("chunks_mut_unit_16_5", C_CHUNKS_MUT_UNIT_16_5, chunks_mut_unit::<16, 5> as fn() -> Out),
    ("chunks_unit_16_6", C_CHUNKS_UNIT_16_6, chunks_unit::<16, 6> as fn() -> Out),
    ("chunks_mut_unit_16_6", C_CHUNKS_MUT_UNIT_16_6, chunks_mut_unit::<16, 6> as fn() -> Out),
    ("chunks_unit_16_7", C_CHUNKS_UNIT_16_7, chunks_unit::<16, 7> as fn() -> Out),
    ("chunks_mut_unit_16_7", C_CHUNKS_MUT_UNIT_16_7, chunks_mut_unit::<16, 7> as fn() -> Out),
    ("chunks_unit_16_8", C_CHUNKS_UNIT_16_8, chunks_unit::<16, 8> as fn() -> Out),
    ("chunks_mut_unit_16_8", C_CHUNKS_MUT_UNIT_16_8, chunks_mut_unit::<16, 8> as fn() -> Out),
    ("chunks_unit_16_9", C_CHUNKS_UNIT_16_9, chunks_unit::<16, 9> as fn() -> Out),
    ("chunks_mut_unit_16_9", C_CHUNKS_MUT_UNIT_16_9, chunks_mut_unit::<16, 9> as fn() -> Out),
    ("chunks_unit_16_10", C_CHUNKS_UNIT_16_10, chunks_unit::<16, 10> as fn() -> Out),
    ("chunks_mut_unit_16_10", C_CHUNKS_MUT_UNIT_16_10, chunks_mut_unit::<16, 10> as fn() -> Out),
    ("chunks_unit_16_11", C_CHUNKS_UNIT_16_11, chunks_unit::<16, 11> as fn() -> Out),
    ("chunks_mut_unit_16_11", C_CHUNKS_MUT_UNIT_16_11, chunks_mut_unit::<16, 11> as fn() -> Out),
    ("chunks_unit_16_12", C_CHUNKS_UNIT_16_12, chunks_unit::<16, 12> as fn() -> Out),
    ("chunks_mut_unit_16_12", C_CHUNKS_MUT_UNIT_16_12, chunks_mut_unit::<16, 12> as fn() -> Out),
    ("chunks_unit_16_13", C_CHUNKS_UNIT_16_13, chunks_unit::<16, 13> as fn() -> Out),
    ("chunks_mut_unit_16_13", C_CHUNKS_MUT_UNIT_16_13, chunks_mut_unit::<16, 13> as fn() -> Out),
    ("chunks_unit_16_14", C_CHUNKS_UNIT_16_14, chunks_unit::<16, 14> as fn() -> Out),
    ("chunks_mut_unit_16_14", C_CHUNKS_MUT_UNIT_16_14, chunks_mut_unit::<16, 14> as fn() -> Out),
    ("chunks_unit_16_15", C_CHUNKS_UNIT_16_15, chunks_unit::<16, 15> as fn() -> Out),
    ("chunks_mut_unit_16_15", C_CHUNKS_MUT_UNIT_16_15, chunks_mut_unit::<16, 15> as fn() -> Out),
    ("chunks_unit_16_16", C_CHUNKS_UNIT_16_16, chunks_unit::<16, 16> as fn() -> Out),
    ("chunks_mut_unit_16_16", C_CHUNKS_MUT_UNIT_16_16, chunks_mut_unit::<16, 16> as fn() -> Out),
    ("chunks_unit_16_17", C_CHUNKS_UNIT_16_17, chunks_unit::<16, 17> as fn() -> Out),
    ("chunks_mut_unit_16_17", C_CHUNKS_MUT_UNIT_16_17, chunks_mut_unit::<16, 17> as fn() -> Out),
    ("chunks_unit_16_18", C_CHUNKS_UNIT_16_18, chunks_unit::<16, 18> as fn() -> Out),
    ("chunks_mut_unit_16_18", C_CHUNKS_MUT_UNIT_16_18, chunks_mut_unit::<16, 18> as fn() -> Out),
    ("chunks_unit_16_19", C_CHUNKS_UNIT_16_19, chunks_unit::<16, 19> as fn() -> Out),
    ("chunks_mut_unit_16_19", C_CHUNKS_MUT_UNIT_16_19, chunks_mut_unit::<16, 19> as fn() -> Out),
    ("chunks_unit_16_20", C_CHUNKS_UNIT_16_20, chunks_unit::<16, 20> as fn() -> Out),
    ("chunks_mut_unit_16_20", C_CHUNKS_MUT_UNIT_16_20, chunks_mut_unit::<16, 20> as fn() -> Out),
    ("chunks_unit_16_21", C_CHUNKS_UNIT_16_21, chunks_unit::<16, 21> as fn() -> Out),
    ("chunks_mut_unit_16_21", C_CHUNKS_MUT_UNIT_16_21, chunks_mut_unit::<16, 21> as fn() -> Out),
    ("chunks_unit_16_22", C_CHUNKS_UNIT_16_22, chunks_unit::<16, 22> as fn() -> Out),
    ("chunks_mut_unit_16_22", C_CHUNKS_MUT_UNIT_16_22, chunks_mut_unit::<16, 22> as fn() -> Out),
    ("chunks_unit_16_23", C_CHUNKS_UNIT_16_23, chunks_unit::<16, 23> as fn() -> Out),
    ("chunks_mut_unit_16_23", C_CHUNKS_MUT_UNIT_16_23, chunks_mut_unit::<16, 23> as fn() -> Out),
    ("chunks_unit_16_24", C_CHUNKS_UNIT_16_24, chunks_unit::<16, 24> as fn() -> Out),
    ("chunks_mut_unit_16_24", C_CHUNKS_MUT_UNIT_16_24, chunks_mut_unit::<16, 24> as fn() -> Out),
    ("chunks_unit_16_25", C_CHUNKS_UNIT_16_25, chunks_unit::<16, 25> as fn() -> Out),
    ("chunks_mut_unit_16_25", C_CHUNKS_MUT_UNIT_16_25, chunks_mut_unit::<16, 25> as fn() -> Out),
    ("chunks_unit_16_26", C_CHUNKS_UNIT_16_26, chunks_unit::<16, 26> as fn() -> Out),
    ("chunks_mut_unit_16_26", C_CHUNKS_MUT_UNIT_16_26, chunks_mut_unit::<16, 26> as fn() -> Out),
    ("chunks_unit_16_27", C_CHUNKS_UNIT_16_27, chunks_unit::<16, 27> as fn() -> Out),
    ("chunks_mut_unit_16_27", C_CHUNKS_MUT_UNIT_16_27, chunks_mut_unit::<16, 27> as fn() -> Out),
    ("chunks_unit_16_28", C_CHUNKS_UNIT_16_28, chunks_unit::<16, 28> as fn() -> Out),
    ("chunks_mut_unit_16_28", C_CHUNKS_MUT_UNIT_16_28, chunks_mut_unit::<16, 28> as fn() -> Out),
    ("chunks_unit_16_29", C_CHUNKS_UNIT_16_29, chunks_unit::<16, 29> as fn() -> Out),
    ("chunks_mut_unit_16_29", C_CHUNKS_MUT_UNIT_16_29, chunks_mut_unit::<16, 29> as fn() -> Out),
    ("chunks_unit_16_30", C_CHUNKS_UNIT_16_30, chunks_unit::<16, 30> as fn() -> Out),
    ("chunks_mut_unit_16_30", C_CHUNKS_MUT_UNIT_16_30, chunks_mut_unit::<16, 30> as fn() -> Out),
    ("chunks_unit_16_31", C_CHUNKS_UNIT_16_31, chunks_unit::<16, 31> as fn() -> Out),
    ("chunks_mut_unit_16_31", C_CHUNKS_MUT_UNIT_16_31, chunks_mut_unit::<16, 31> as fn() -> Out),
    ("chunks_unit_16_32", C_CHUNKS_UNIT_16_32, chunks_unit::<16, 32> as fn() -> Out),
    ("chunks_mut_unit_16_32", C_CHUNKS_MUT_UNIT_16_32, chunks_mut_unit::<16, 32> as fn() -> Out),
    ("chunks_unit_16_33", C_CHUNKS_UNIT_16_33, chunks_unit::<16, 33> as fn() -> Out),
    ("chunks_mut_unit_16_33", C_CHUNKS_MUT_UNIT_16_33, chunks_mut_unit::<16, 33> as fn() -> Out),
    ("chunks_unit_16_34", C_CHUNKS_UNIT_16_34, chunks_unit::<16, 34> as fn() -> Out),
    ("chunks_mut_unit_16_34", C_CHUNKS_MUT_UNIT_16_34, chunks_mut_unit::<16, 34> as fn() -> Out),
    ("chunks_unit_16_35", C_CHUNKS_UNIT_16_35, chunks_unit::<16, 35> as fn() -> Out),
    ("chunks_mut_unit_16_35", C_CHUNKS_MUT_UNIT_16_35, chunks_mut_unit::<16, 35> as fn() -> Out),
    ("chunks_unit_16_36", C_CHUNKS_UNIT_16_36, chunks_unit::<16, 36> as fn() -> Out),
    ("chunks_mut_unit_16_36", C_CHUNKS_MUT_UNIT_16_36, chunks_mut_unit::<16, 36> as fn() -> Out),
    ("chunks_unit_16_37", C_CHUNKS_UNIT_16_37, chunks_unit::<16, 37> as fn() -> Out),
    ("chunks_mut_unit_16_37", C_CHUNKS_MUT_UNIT_16_37, chunks_mut_unit::<16, 37> as fn() -> Out),
    ("chunks_unit_16_38", C_CHUNKS_UNIT_16_38, chunks_unit::<16, 38> as fn() -> Out),
    ("chunks_mut_unit_16_38", C_CHUNKS_MUT_UNIT_16_38, chunks_mut_unit::<16, 38> as fn() -> Out),
    ("chunks_unit_16_39", C_CHUNKS_UNIT_16_39, chunks_unit::<16, 39> as fn() -> Out),
    ("chunks_mut_unit_16_39", C_CHUNKS_MUT_UNIT_16_39, chunks_mut_unit::<16, 39> as fn() -> Out),
    ("chunks_unit_16_40", C_CHUNKS_UNIT_16_40, chunks_unit::<16, 40> as fn() -> Out),
    ("chunks_mut_unit_16_40", C_CHUNKS_MUT_UNIT_16_40, chunks_mut_unit::<16, 40> as fn() -> Out),
    ("chunks_unit_16_41", C_CHUNKS_UNIT_16_41, chunks_unit::<16, 41> as fn() -> Out),
    ("chunks_mut_unit_16_41", C_CHUNKS_MUT_UNIT_16_41, chunks_mut_unit::<16, 41> as fn() -> Out),
    ("chunks_unit_16_42", C_CHUNKS_UNIT_16_42, chunks_unit::<16, 42> as fn() -> Out),
    ("chunks_mut_unit_16_42", C_CHUNKS_MUT_UNIT_16_42, chunks_mut_unit::<16, 42> as fn() -> Out),
    ("chunks_unit_16_43", C_CHUNKS_UNIT_16_43, chunks_unit::<16, 43> as fn() -> Out),
    ("chunks_mut_unit_16_43", C_CHUNKS_MUT_UNIT_16_43, chunks_mut_unit::<16, 43> as fn() -> Out),
    ("chunks_unit_16_44", C_CHUNKS_UNIT_16_44, chunks_unit::<16, 44> as fn() -> Out),
    ("chunks_mut_unit_16_44", C_CHUNKS_MUT_UNIT_16_44, chunks_mut_unit::<16, 44> as fn() -> Out),
    ("chunks_unit_16_45", C_CHUNKS_UNIT_16_45, chunks_unit::<16, 45> as fn() -> Out),
    ("chunks_mut_unit_16_45", C_CHUNKS_MUT_UNIT_16_45, chunks_mut_unit::<16, 45> as fn() -> Out),
    ("chunks_unit_16_46", C_CHUNKS_UNIT_16_46, chunks_unit::<16, 46> as fn() -> Out),
    ("chunks_mut_unit_16_46", C_CHUNKS_MUT_UNIT_16_46, chunks_mut_unit::<16, 46> as fn() -> Out),
    ("chunks_unit_16_47", C_CHUNKS_UNIT_16_47, chunks_unit::<16, 47> as fn() -> Out),
    ("chunks_mut_unit_16_47", C_CHUNKS_MUT_UNIT_16_47, chunks_mut_unit::<16, 47> as fn() -> Out),
    ("chunks_unit_16_48", C_CHUNKS_UNIT_16_48, chunks_unit::<16, 48> as fn() -> Out),
    ("chunks_mut_unit_16_48", C_CHUNKS_MUT_UNIT_16_48, chunks_mut_unit::<16, 48> as fn() -> Out),
    ("chunks_unit_16_49", C_CHUNKS_UNIT_16_49, chunks_unit::<16, 49> as fn() -> Out),
    ("chunks_mut_unit_16_49", C_CHUNKS_MUT_UNIT_16_49, chunks_mut_unit::<16, 49> as fn() -> Out),
    ("chunks_unit_16_50", C_CHUNKS_UNIT_16_50, chunks_unit::<16, 50> as fn() -> Out),
    ("chunks_mut_unit_16_50", C_CHUNKS_MUT_UNIT_16_50, chunks_mut_unit::<16, 50> as fn() -> Out),
    ("reinterpret_unit_16_0", C_REINTERPRET_UNIT_16_0, reinterpret_unit::<16, 0> as fn() -> Out),
    ("reinterpret_unit_16_1", C_REINTERPRET_UNIT_16_1, reinterpret_unit::<16, 1> as fn() -> Out),
    ("reinterpret_unit_16_15", C_REINTERPRET_UNIT_16_15, reinterpret_unit::<16, 15> as fn() -> Out),
    ("reinterpret_unit_16_16", C_REINTERPRET_UNIT_16_16, reinterpret_unit::<16, 16> as fn() -> Out),
    ("reinterpret_unit_16_17", C_REINTERPRET_UNIT_16_17, reinterpret_unit::<16, 17> as fn() -> Out),
    ("reinterpret_unit_16_32", C_REINTERPRET_UNIT_16_32, reinterpret_unit::<16, 32> as fn() -> Out),
    ("reinterpret_unit_16_50", C_REINTERPRET_UNIT_16_50, reinterpret_unit::<16, 50> as fn() -> Out),
    ("byvalue_unit_16", C_BYVALUE_UNIT_16, byvalue_unit::<16> as fn() -> Out),
    ("native_chunks_unit_16_0", C_NATIVE_CHUNKS_UNIT_16_0, native_chunks_unit::<16, 0> as fn() -> Out),
    ("native_chunks_unit_16_1", C_NATIVE_CHUNKS_UNIT_16_1, native_chunks_unit::<16, 1> as fn() -> Out),
    ("native_chunks_unit_16_2", C_NATIVE_CHUNKS_UNIT_16_2, native_chunks_unit::<16, 2> as fn() -> Out),
    ("native_chunks_unit_16_3", C_NATIVE_CHUNKS_UNIT_16_3, native_chunks_unit::<16, 3> as fn() -> Out),
    ("chunks_unit_17_0", C_CHUNKS_UNIT_17_0, chunks_unit::<17, 0> as fn() -> Out),
    ("chunks_mut_unit_17_0", C_CHUNKS_MUT_UNIT_17_0, chunks_mut_unit::<17, 0> as fn() -> Out),
    ("chunks_unit_17_1", C_CHUNKS_UNIT_17_1, chunks_unit::<17, 1> as fn() -> Out),
    ("chunks_mut_unit_17_1", C_CHUNKS_MUT_UNIT_17_1, chunks_mut_unit::<17, 1> as fn() -> Out),
    ("chunks_unit_17_2", C_CHUNKS_UNIT_17_2, chunks_unit::<17, 2> as fn() -> Out),
    ("chunks_mut_unit_17_2", C_CHUNKS_MUT_UNIT_17_2, chunks_mut_unit::<17, 2> as fn() -> Out),
    ("chunks_unit_17_3", C_CHUNKS_UNIT_17_3, chunks_unit::<17, 3> as fn() -> Out),
    ("chunks_mut_unit_17_3", C_CHUNKS_MUT_UNIT_17_3, chunks_mut_unit::<17, 3> as fn() -> Out),
    ("chunks_unit_17_4", C_CHUNKS_UNIT_17_4, chunks_unit::<17, 4> as fn() -> Out),
    ("chunks_mut_unit_17_4", C_CHUNKS_MUT_UNIT_17_4, chunks_mut_unit::<17, 4> as fn() -> Out),
    ("chunks_unit_17_5", C_CHUNKS_UNIT_17_5, chunks_unit::<17, 5> as fn() -> Out),
    ("chunks_mut_unit_17_5", C_CHUNKS_MUT_UNIT_17_5, chunks_mut_unit::<17, 5> as fn() -> Out),
    ("chunks_unit_17_6", C_CHUNKS_UNIT_17_6, chunks_unit::<17, 6> as fn() -> Out),
    ("chunks_mut_unit_17_6", C_CHUNKS_MUT_UNIT_17_6, chunks_mut_unit::<17, 6> as fn() -> Out),
    ("chunks_unit_17_7", C_CHUNKS_UNIT_17_7, chunks_unit::<17, 7> as fn() -> Out),
    ("chunks_mut_unit_17_7", C_CHUNKS_MUT_UNIT_17_7, chunks_mut_unit::<17, 7> as fn() -> Out),
    ("chunks_unit_17_8", C_CHUNKS_UNIT_17_8, chunks_unit::<17, 8> as fn() -> Out),
    ("chunks_mut_unit_17_8", C_CHUNKS_MUT_UNIT_17_8, chunks_mut_unit::<17, 8> as fn() -> Out),
    ("chunks_unit_17_9", C_CHUNKS_UNIT_17_9, chunks_unit::<17, 9> as fn() -> Out),
    ("chunks_mut_unit_17_9", C_CHUNKS_MUT_UNIT_17_9, chunks_mut_unit::<17, 9> as fn() -> Out),
    ("chunks_unit_17_10", C_CHUNKS_UNIT_17_10, chunks_unit::<17, 10> as fn() -> Out),
    ("chunks_mut_unit_17_10", C_CHUNKS_MUT_UNIT_17_10, chunks_mut_unit::<17, 10> as fn() -> Out),
    ("chunks_unit_17_11", C_CHUNKS_UNIT_17_11, chunks_unit::<17, 11> as fn() -> Out),
    ("chunks_mut_unit_17_11", C_CHUNKS_MUT_UNIT_17_11, chunks_mut_unit::<17, 11> as fn() -> Out),
    ("chunks_unit_17_12", C_CHUNKS_UNIT_17_12, chunks_unit::<17, 12> as fn() -> Out),
    ("chunks_mut_unit_17_12", C_CHUNKS_MUT_UNIT_17_12, chunks_mut_unit::<17, 12> as fn() -> Out),
    ("chunks_unit_17_13", C_CHUNKS_UNIT_17_13, chunks_unit::<17, 13> as fn() -> Out),
    ("chunks_mut_unit_17_13", C_CHUNKS_MUT_UNIT_17_13, chunks_mut_unit::<17, 13> as fn() -> Out),
    ("chunks_unit_17_14", C_CHUNKS_UNIT_17_14, chunks_unit::<17, 14> as fn() -> Out),
    ("chunks_mut_unit_17_14", C_CHUNKS_MUT_UNIT_17_14, chunks_mut_unit::<17, 14> as fn() -> Out),
    ("chunks_unit_17_15", C_CHUNKS_UNIT_17_15, chunks_unit::<17, 15> as fn() -> Out),
    ("chunks_mut_unit_17_15", C_CHUNKS_MUT_UNIT_17_15, chunks_mut_unit::<17, 15> as fn() -> Out),
    ("chunks_unit_17_16", C_CHUNKS_UNIT_17_16, chunks_unit::<17, 16> as fn() -> Out),
    ("chunks_mut_unit_17_16", C_CHUNKS_MUT_UNIT_17_16, chunks_mut_unit::<17, 16> as fn() -> Out),
    ("chunks_unit_17_17", C_CHUNKS_UNIT_17_17, chunks_unit::<17, 17> as fn() -> Out),
    ("chunks_mut_unit_17_17", C_CHUNKS_MUT_UNIT_17_17, chunks_mut_unit::<17, 17> as fn() -> Out),
    ("chunks_unit_17_18", C_CHUNKS_UNIT_17_18, chunks_unit::<17, 18> as fn() -> Out),
    ("chunks_mut_unit_17_18", C_CHUNKS_MUT_UNIT_17_18, chunks_mut_unit::<17, 18> as fn() -> Out),
    ("chunks_unit_17_19", C_CHUNKS_UNIT_17_19, chunks_unit::<17, 19> as fn() -> Out),
    ("chunks_mut_unit_17_19", C_CHUNKS_MUT_UNIT_17_19, chunks_mut_unit::<17, 19> as fn() -> Out),
    ("chunks_unit_17_20", C_CHUNKS_UNIT_17_20, chunks_unit::<17, 20> as fn() -> Out),
    ("chunks_mut_unit_17_20", C_CHUNKS_MUT_UNIT_17_20, chunks_mut_unit::<17, 20> as fn() -> Out),
    ("chunks_unit_17_21", C_CHUNKS_UNIT_17_21, chunks_unit::<17, 21> as fn() -> Out),
    ("chunks_mut_unit_17_21", C_CHUNKS_MUT_UNIT_17_21, chunks_mut_unit::<17, 21> as fn() -> Out),
    ("chunks_unit_17_22", C_CHUNKS_UNIT_17_22, chunks_unit::<17, 22> as fn() -> Out),
    ("chunks_mut_unit_17_22", C_CHUNKS_MUT_UNIT_17_22, chunks_mut_unit::<17, 22> as fn() -> Out),
    ("chunks_unit_17_23", C_CHUNKS_UNIT_17_23, chunks_unit::<17, 23> as fn() -> Out),
    ("chunks_mut_unit_17_23", C_CHUNKS_MUT_UNIT_17_23, chunks_mut_unit::<17, 23> as fn() -> Out),
    ("chunks_unit_17_24", C_CHUNKS_UNIT_17_24, chunks_unit::<17, 24> as fn() -> Out),
    ("chunks_mut_unit_17_24", C_CHUNKS_MUT_UNIT_17_24, chunks_mut_unit::<17, 24> as fn() -> Out),
    ("chunks_unit_17_25", C_CHUNKS_UNIT_17_25, chunks_unit::<17, 25> as fn() -> Out),
    ("chunks_mut_unit_17_25", C_CHUNKS_MUT_UNIT_17_25, chunks_mut_unit::<17, 25> as fn() -> Out),
    ("chunks_unit_17_26", C_CHUNKS_UNIT_17_26, chunks_unit::<17, 26> as fn() -> Out),
    ("chunks_mut_unit_17_26", C_CHUNKS_MUT_UNIT_17_26, chunks_mut_unit::<17, 26> as fn() -> Out),
    ("chunks_unit_17_27", C_CHUNKS_UNIT_17_27, chunks_unit::<17, 27> as fn() -> Out),
    ("chunks_mut_unit_17_27", C_CHUNKS_MUT_UNIT_17_27, chunks_mut_unit::<17, 27> as fn() -> Out),
    ("chunks_unit_17_28", C_CHUNKS_UNIT_17_28, chunks_unit::<17, 28> as fn() -> Out),
    ("chunks_mut_unit_17_28", C_CHUNKS_MUT_UNIT_17_28, chunks_mut_unit::<17, 28> as fn() -> Out),
    ("chunks_unit_17_29", C_CHUNKS_UNIT_17_29, chunks_unit::<17, 29> as fn() -> Out),
    ("chunks_mut_unit_17_29", C_CHUNKS_MUT_UNIT_17_29, chunks_mut_unit::<17, 29> as fn() -> Out),
    ("chunks_unit_17_30", C_CHUNKS_UNIT_17_30, chunks_unit::<17, 30> as fn() -> Out),
    ("chunks_mut_unit_17_30", C_CHUNKS_MUT_UNIT_17_30, chunks_mut_unit::<17, 30> as fn() -> Out),
    ("chunks_unit_17_31", C_CHUNKS_UNIT_17_31, chunks_unit::<17, 31> as fn() -> Out),
    ("chunks_mut_unit_17_31", C_CHUNKS_MUT_UNIT_17_31, chunks_mut_unit::<17, 31> as fn() -> Out),
    ("chunks_unit_17_32", C_CHUNKS_UNIT_17_32, chunks_unit::<17, 32> as fn() -> Out),
    ("chunks_mut_unit_17_32", C_CHUNKS_MUT_UNIT_17_32, chunks_mut_unit::<17, 32> as fn() -> Out),
    ("chunks_unit_17_33", C_CHUNKS_UNIT_17_33, chunks_unit::<17, 33> as fn() -> Out),
    ("chunks_mut_unit_17_33", C_CHUNKS_MUT_UNIT_17_33, chunks_mut_unit::<17, 33> as fn() -> Out),
    ("chunks_unit_17_34", C_CHUNKS_UNIT_17_34, chunks_unit::<17, 34> as fn() -> Out),
    ("chunks_mut_unit_17_34", C_CHUNKS_MUT_UNIT_17_34, chunks_mut_unit::<17, 34> as fn() -> Out),
    ("chunks_unit_17_35", C_CHUNKS_UNIT_17_35, chunks_unit::<17, 35> as fn() -> Out),
    ("chunks_mut_unit_17_35", C_CHUNKS_MUT_UNIT_17_35, chunks_mut_unit::<17, 35> as fn() -> Out),
    ("chunks_unit_17_36", C_CHUNKS_UNIT_17_36, chunks_unit::<17, 36> as fn() -> Out),
    ("chunks_mut_unit_17_36", C_CHUNKS_MUT_UNIT_17_36, chunks_mut_unit::<17, 36> as fn() -> Out),
    ("chunks_unit_17_37", C_CHUNKS_UNIT_17_37, chunks_unit::<17, 37> as fn() -> Out),
    ("chunks_mut_unit_17_37", C_CHUNKS_MUT_UNIT_17_37, chunks_mut_unit::<17, 37> as fn() -> Out),
    ("chunks_unit_17_38", C_CHUNKS_UNIT_17_38, chunks_unit::<17, 38> as fn() -> Out),
    ("chunks_mut_unit_17_38", C_CHUNKS_MUT_UNIT_17_38, chunks_mut_unit::<17, 38> as fn() -> Out),
    ("chunks_unit_17_39", C_CHUNKS_UNIT_17_39, chunks_unit::<17, 39> as fn() -> Out),
    ("chunks_mut_unit_17_39", C_CHUNKS_MUT_UNIT_17_39, chunks_mut_unit::<17, 39> as fn() -> Out),
    ("chunks_unit_17_40", C_CHUNKS_UNIT_17_40, chunks_unit::<17, 40> as fn() -> Out),
    ("chunks_mut_unit_17_40", C_CHUNKS_MUT_UNIT_17_40, chunks_mut_unit::<17, 40> as fn() -> Out),
    ("chunks_unit_17_41", C_CHUNKS_UNIT_17_41, chunks_unit::<17, 41> as fn() -> Out),
    ("chunks_mut_unit_17_41", C_CHUNKS_MUT_UNIT_17_41, chunks_mut_unit::<17, 41> as fn() -> Out),
    ("chunks_unit_17_42", C_CHUNKS_UNIT_17_42, chunks_unit::<17, 42> as fn() -> Out),
    ("chunks_mut_unit_17_42", C_CHUNKS_MUT_UNIT_17_42, chunks_mut_unit::<17, 42> as fn() -> Out),
    ("chunks_unit_17_43", C_CHUNKS_UNIT_17_43, chunks_unit::<17, 43> as fn() -> Out),
    ("chunks_mut_unit_17_43", C_CHUNKS_MUT_UNIT_17_43, chunks_mut_unit::<17, 43> as fn() -> Out),
    ("chunks_unit_17_44", C_CHUNKS_UNIT_17_44, chunks_unit::<17, 44> as fn() -> Out),
    ("chunks_mut_unit_17_44", C_CHUNKS_MUT_UNIT_17_44, chunks_mut_unit::<17, 44> as fn() -> Out),
    ("chunks_unit_17_45", C_CHUNKS_UNIT_17_45, chunks_unit::<17, 45> as fn() -> Out),
    ("chunks_mut_unit_17_45", C_CHUNKS_MUT_UNIT_17_45, chunks_mut_unit::<17, 45> as fn() -> Out),
    ("chunks_unit_17_46", C_CHUNKS_UNIT_17_46, chunks_unit::<17, 46> as fn() -> Out),
    ("chunks_mut_unit_17_46", C_CHUNKS_MUT_UNIT_17_46, chunks_mut_unit::<17, 46> as fn() -> Out),
    ("chunks_unit_17_47", C_CHUNKS_UNIT_17_47, chunks_unit::<17, 47> as fn() -> Out),
    ("chunks_mut_unit_17_47", C_CHUNKS_MUT_UNIT_17_47, chunks_mut_unit::<17, 47> as fn() -> Out),
    ("chunks_unit_17_48", C_CHUNKS_UNIT_17_48, chunks_unit::<17, 48> as fn() -> Out),
    ("chunks_mut_unit_17_48", C_CHUNKS_MUT_UNIT_17_48, chunks_mut_unit::<17, 48> as fn() -> Out),
    ("chunks_unit_17_49", C_CHUNKS_UNIT_17_49, chunks_unit::<17, 49> as fn() -> Out),
    ("chunks_mut_unit_17_49", C_CHUNKS_MUT_UNIT_17_49, chunks_mut_unit::<17, 49> as fn() -> Out),
    ("chunks_unit_17_50", C_CHUNKS_UNIT_17_50, chunks_unit::<17, 50> as fn() -> Out),
    ("chunks_mut_unit_17_50", C_CHUNKS_MUT_UNIT_17_50, chunks_mut_unit::<17, 50> as fn() -> Out),
    ("chunks_unit_17_51", C_CHUNKS_UNIT_17_51, chunks_unit::<17, 51> as fn() -> Out),
    ("chunks_mut_unit_17_51", C_CHUNKS_MUT_UNIT_17_51, chunks_mut_unit::<17, 51> as fn() -> Out),
    ("chunks_unit_17_52", C_CHUNKS_UNIT_17_52, chunks_unit::<17, 52> as fn() -> Out),
    ("chunks_mut_unit_17_52", C_CHUNKS_MUT_UNIT_17_52, chunks_mut_unit::<17, 52> as fn() -> Out),
    ("chunks_unit_17_53", C_CHUNKS_UNIT_17_53, chunks_unit::<17, 53> as fn() -> Out),
    ("chunks_mut_unit_17_53", C_CHUNKS_MUT_UNIT_17_53, chunks_mut_unit::<17, 53> as fn() -> Out),
    ("reinterpret_unit_17_0", C_REINTERPRET_UNIT_17_0, reinterpret_unit::<17, 0> as fn() -> Out),
    ("reinterpret_unit_17_1", C_REINTERPRET_UNIT_17_1, reinterpret_unit::<17, 1> as fn() -> Out),
    ("reinterpret_unit_17_16", C_REINTERPRET_UNIT_17_16, reinterpret_unit::<17, 16> as fn() -> Out),
    ("reinterpret_unit_17_17", C_REINTERPRET_UNIT_17_17, reinterpret_unit::<17, 17> as fn() -> Out),
    ("reinterpret_unit_17_18", C_REINTERPRET_UNIT_17_18, reinterpret_unit::<17, 18> as fn() -> Out),
    ("reinterpret_unit_17_34", C_REINTERPRET_UNIT_17_34, reinterpret_unit::<17, 34> as fn() -> Out),
    ("reinterpret_unit_17_53", C_REINTERPRET_UNIT_17_53, reinterpret_unit::<17, 53> as fn() -> Out),
    ("byvalue_unit_17", C_BYVALUE_UNIT_17, byvalue_unit::<17> as fn() -> Out),
    ("native_chunks_unit_17_0", C_NATIVE_CHUNKS_UNIT_17_0, native_chunks_unit::<17, 0> as fn() -> Out),
    ("native_chunks_unit_17_1", C_NATIVE_CHUNKS_UNIT_17_1, native_chunks_unit::<17, 1> as fn() -> Out),
    ("native_chunks_unit_17_2", C_NATIVE_CHUNKS_UNIT_17_2, native_chunks_unit::<17, 2> as fn() -> Out),
    ("native_chunks_unit_17_3", C_NATIVE_CHUNKS_UNIT_17_3, native_chunks_unit::<17, 3> as fn() -> Out),
    ("chunks_unit_33_0", C_CHUNKS_UNIT_33_0, chunks_unit::<33, 0> as fn() -> Out),
    ("chunks_mut_unit_33_0", C_CHUNKS_MUT_UNIT_33_0, chunks_mut_unit::<33, 0> as fn() -> Out),
    ("chunks_unit_33_1", C_CHUNKS_UNIT_33_1, chunks_unit::<33, 1> as fn() -> Out),
    ("chunks_mut_unit_33_1", C_CHUNKS_MUT_UNIT_33_1, chunks_mut_unit::<33, 1> as fn() -> Out),
    ("chunks_unit_33_32", C_CHUNKS_UNIT_33_32, chunks_unit::<33, 32> as fn() -> Out),
    ("chunks_mut_unit_33_32", C_CHUNKS_MUT_UNIT_33_32, chunks_mut_unit::<33, 32> as fn() -> Out),
    ("chunks_unit_33_33", C_CHUNKS_UNIT_33_33, chunks_unit::<33, 33> as fn() -> Out),
    ("chunks_mut_unit_33_33", C_CHUNKS_MUT_UNIT_33_33, chunks_mut_unit::<33, 33> as fn() -> Out),
    ("chunks_unit_33_34", C_CHUNKS_UNIT_33_34, chunks_unit::<33, 34> as fn() -> Out),
    ("chunks_mut_unit_33_34", C_CHUNKS_MUT_UNIT_33_34, chunks_mut_unit::<33, 34> as fn() -> Out),
    ("chunks_unit_33_65", C_CHUNKS_UNIT_33_65, chunks_unit::<33, 65> as fn() -> Out),
    ("chunks_mut_unit_33_65", C_CHUNKS_MUT_UNIT_33_65, chunks_mut_unit::<33, 65> as fn() -> Out),
    ("chunks_unit_33_66", C_CHUNKS_UNIT_33_66, chunks_unit::<33, 66> as fn() -> Out),
    ("chunks_mut_unit_33_66", C_CHUNKS_MUT_UNIT_33_66, chunks_mut_unit::<33, 66> as fn() -> Out),
    ("chunks_unit_33_67", C_CHUNKS_UNIT_33_67, chunks_unit::<33, 67> as fn() -> Out),
    ("chunks_mut_unit_33_67", C_CHUNKS_MUT_UNIT_33_67, chunks_mut_unit::<33, 67> as fn() -> Out),
    ("chunks_unit_33_98", C_CHUNKS_UNIT_33_98, chunks_unit::<33, 98> as fn() -> Out),
    ("chunks_mut_unit_33_98", C_CHUNKS_MUT_UNIT_33_98, chunks_mut_unit::<33, 98> as fn() -> Out),
    ("chunks_unit_33_99", C_CHUNKS_UNIT_33_99, chunks_unit::<33, 99> as fn() -> Out),
    ("chunks_mut_unit_33_99", C_CHUNKS_MUT_UNIT_33_99, chunks_mut_unit::<33, 99> as fn() -> Out),
    ("chunks_unit_33_100", C_CHUNKS_UNIT_33_100, chunks_unit::<33, 100> as fn() -> Out),
    ("chunks_mut_unit_33_100", C_CHUNKS_MUT_UNIT_33_100, chunks_mut_unit::<33, 100> as fn() -> Out),
    ("chunks_unit_33_101", C_CHUNKS_UNIT_33_101, chunks_unit::<33, 101> as fn() -> Out),
    ("chunks_mut_unit_33_101", C_CHUNKS_MUT_UNIT_33_101, chunks_mut_unit::<33, 101> as fn() -> Out),
    ("reinterpret_unit_33_0", C_REINTERPRET_UNIT_33_0, reinterpret_unit::<33, 0> as fn() -> Out),
    ("reinterpret_unit_33_1", C_REINTERPRET_UNIT_33_1, reinterpret_unit::<33, 1> as fn() -> Out),
    ("reinterpret_unit_33_32", C_REINTERPRET_UNIT_33_32, reinterpret_unit::<33, 32> as fn() -> Out),
    ("reinterpret_unit_33_33", C_REINTERPRET_UNIT_33_33, reinterpret_unit::<33, 33> as fn() -> Out),
    ("reinterpret_unit_33_34", C_REINTERPRET_UNIT_33_34, reinterpret_unit::<33, 34> as fn() -> Out),
    ("reinterpret_unit_33_66", C_REINTERPRET_UNIT_33_66, reinterpret_unit::<33, 66> as fn() -> Out),
    ("reinterpret_unit_33_101", C_REINTERPRET_UNIT_33_101, reinterpret_unit::<33, 101> as fn() -> Out),
    ("byvalue_unit_33", C_BYVALUE_UNIT_33, byvalue_unit::<33> as fn() -> Out),
    ("native_chunks_unit_33_0", C_NATIVE_CHUNKS_UNIT_33_0, native_chunks_unit::<33, 0> as fn() -> Out),
    ("native_chunks_unit_33_1", C_NATIVE_CHUNKS_UNIT_33_1, native_chunks_unit::<33, 1> as fn() -> Out),
    ("native_chunks_unit_33_2", C_NATIVE_CHUNKS_UNIT_33_2, native_chunks_unit::<33, 2> as fn() -> Out),
    ("native_chunks_unit_33_3", C_NATIVE_CHUNKS_UNIT_33_3, native_chunks_unit::<33, 3> as fn() -> Out),
    ("chunks_unit_64_0", C_CHUNKS_UNIT_64_0, chunks_unit::<64, 0> as fn() -> Out),
    ("chunks_mut_unit_64_0", C_CHUNKS_MUT_UNIT_64_0, chunks_mut_unit::<64, 0> as fn() -> Out),
    ("chunks_unit_64_1", C_CHUNKS_UNIT_64_1, chunks_unit::<64, 1> as fn() -> Out),
    ("chunks_mut_unit_64_1", C_CHUNKS_MUT_UNIT_64_1, chunks_mut_unit::<64, 1> as fn() -> Out),
    ("chunks_unit_64_63", C_CHUNKS_UNIT_64_63, chunks_unit::<64, 63> as fn() -> Out),
    ("chunks_mut_unit_64_63", C_CHUNKS_MUT_UNIT_64_63, chunks_mut_unit::<64, 63> as fn() -> Out),
    ("chunks_unit_64_64", C_CHUNKS_UNIT_64_64, chunks_unit::<64, 64> as fn() -> Out),
    ("chunks_mut_unit_64_64", C_CHUNKS_MUT_UNIT_64_64, chunks_mut_unit::<64, 64> as fn() -> Out),
    ("chunks_unit_64_65", C_CHUNKS_UNIT_64_65, chunks_unit::<64, 65> as fn() -> Out),
    ("chunks_mut_unit_64_65", C_CHUNKS_MUT_UNIT_64_65, chunks_mut_unit::<64, 65> as fn() -> Out),
    ("chunks_unit_64_127", C_CHUNKS_UNIT_64_127, chunks_unit::<64, 127> as fn() -> Out),
    ("chunks_mut_unit_64_127", C_CHUNKS_MUT_UNIT_64_127, chunks_mut_unit::<64, 127> as fn() -> Out),
    ("chunks_unit_64_128", C_CHUNKS_UNIT_64_128, chunks_unit::<64, 128> as fn() -> Out),
    ("chunks_mut_unit_64_128", C_CHUNKS_MUT_UNIT_64_128, chunks_mut_unit::<64, 128> as fn() -> Out),
    ("chunks_unit_64_129", C_CHUNKS_UNIT_64_129, chunks_unit::<64, 129> as fn() -> Out),
    ("chunks_mut_unit_64_129", C_CHUNKS_MUT_UNIT_64_129, chunks_mut_unit::<64, 129> as fn() -> Out),
    ("chunks_unit_64_191", C_CHUNKS_UNIT_64_191, chunks_unit::<64, 191> as fn() -> Out),
    ("chunks_mut_unit_64_191", C_CHUNKS_MUT_UNIT_64_191, chunks_mut_unit::<64, 191> as fn() -> Out),
    ("chunks_unit_64_192", C_CHUNKS_UNIT_64_192, chunks_unit::<64, 192> as fn() -> Out),
    ("chunks_mut_unit_64_192", C_CHUNKS_MUT_UNIT_64_192, chunks_mut_unit::<64, 192> as fn() -> Out),
    ("chunks_unit_64_193", C_CHUNKS_UNIT_64_193, chunks_unit::<64, 193> as fn() -> Out),
    ("chunks_mut_unit_64_193", C_CHUNKS_MUT_UNIT_64_193, chunks_mut_unit::<64, 193> as fn() -> Out),
    ("chunks_unit_64_194", C_CHUNKS_UNIT_64_194, chunks_unit::<64, 194> as fn() -> Out),
    ("chunks_mut_unit_64_194", C_CHUNKS_MUT_UNIT_64_194, chunks_mut_unit::<64, 194> as fn() -> Out),
    ("reinterpret_unit_64_0", C_REINTERPRET_UNIT_64_0, reinterpret_unit::<64, 0> as fn() -> Out),
    ("reinterpret_unit_64_1", C_REINTERPRET_UNIT_64_1, reinterpret_unit::<64, 1> as fn() -> Out),
    ("reinterpret_unit_64_63", C_REINTERPRET_UNIT_64_63, reinterpret_unit::<64, 63> as fn() -> Out),
    ("reinterpret_unit_64_64", C_REINTERPRET_UNIT_64_64, reinterpret_unit::<64, 64> as fn() -> Out),
    ("reinterpret_unit_64_65", C_REINTERPRET_UNIT_64_65, reinterpret_unit::<64, 65> as fn() -> Out),
    ("reinterpret_unit_64_128", C_REINTERPRET_UNIT_64_128, reinterpret_unit::<64, 128> as fn() -> Out),
    ("reinterpret_unit_64_194", C_REINTERPRET_UNIT_64_194, reinterpret_unit::<64, 194> as fn() -> Out),
    ("byvalue_unit_64", C_BYVALUE_UNIT_64, byvalue_unit::<64> as fn() -> Out),
    ("native_chunks_unit_64_0", C_NATIVE_CHUNKS_UNIT_64_0, native_chunks_unit::<64, 0> as fn() -> Out),
    ("native_chunks_unit_64_1", C_NATIVE_CHUNKS_UNIT_64_1, native_chunks_unit::<64, 1> as fn() -> Out),
    ("native_chunks_unit_64_2", C_NATIVE_CHUNKS_UNIT_64_2, native_chunks_unit::<64, 2> as fn() -> Out),
    ("native_chunks_unit_64_3", C_NATIVE_CHUNKS_UNIT_64_3, native_chunks_unit::<64, 3> as fn() -> Out),
    ("chunks_unit_100_0", C_CHUNKS_UNIT_100_0, chunks_unit::<100, 0> as fn() -> Out),
    ("chunks_mut_unit_100_0", C_CHUNKS_MUT_UNIT_100_0, chunks_mut_unit::<100, 0> as fn() -> Out),
    ("chunks_unit_100_1", C_CHUNKS_UNIT_100_1, chunks_unit::<100, 1> as fn() -> Out),
    ("chunks_mut_unit_100_1", C_CHUNKS_MUT_UNIT_100_1, chunks_mut_unit::<100, 1> as fn() -> Out),
    ("chunks_unit_100_99", C_CHUNKS_UNIT_100_99, chunks_unit::<100, 99> as fn() -> Out),
    ("chunks_mut_unit_100_99", C_CHUNKS_MUT_UNIT_100_99, chunks_mut_unit::<100, 99> as fn() -> Out),
    ("chunks_unit_100_100", C_CHUNKS_UNIT_100_100, chunks_unit::<100, 100> as fn() -> Out),
    ("chunks_mut_unit_100_100", C_CHUNKS_MUT_UNIT_100_100, chunks_mut_unit::<100, 100> as fn() -> Out),
    ("chunks_unit_100_101", C_CHUNKS_UNIT_100_101, chunks_unit::<100, 101> as fn() -> Out),
    ("chunks_mut_unit_100_101", C_CHUNKS_MUT_UNIT_100_101, chunks_mut_unit::<100, 101> as fn() -> Out),
    ("chunks_unit_100_199", C_CHUNKS_UNIT_100_199, chunks_unit::<100, 199> as fn() -> Out),
    ("chunks_mut_unit_100_199", C_CHUNKS_MUT_UNIT_100_199, chunks_mut_unit::<100, 199> as fn() -> Out),
    ("chunks_unit_100_200", C_CHUNKS_UNIT_100_200, chunks_unit::<100, 200> as fn() -> Out),
    ("chunks_mut_unit_100_200", C_CHUNKS_MUT_UNIT_100_200, chunks_mut_unit::<100, 200> as fn() -> Out),
    ("chunks_unit_100_201", C_CHUNKS_UNIT_100_201, chunks_unit::<100, 201> as fn() -> Out),
    ("chunks_mut_unit_100_201", C_CHUNKS_MUT_UNIT_100_201, chunks_mut_unit::<100, 201> as fn() -> Out),
    ("chunks_unit_100_302", C_CHUNKS_UNIT_100_302, chunks_unit::<100, 302> as fn() -> Out),
    ("chunks_mut_unit_100_302", C_CHUNKS_MUT_UNIT_100_302, chunks_mut_unit::<100, 302> as fn() -> Out),
    ("reinterpret_unit_100_0", C_REINTERPRET_UNIT_100_0, reinterpret_unit::<100, 0> as fn() -> Out),
    ("reinterpret_unit_100_1", C_REINTERPRET_UNIT_100_1, reinterpret_unit::<100, 1> as fn() -> Out),
    ("reinterpret_unit_100_99", C_REINTERPRET_UNIT_100_99, reinterpret_unit::<100, 99> as fn() -> Out),
    ("reinterpret_unit_100_100", C_REINTERPRET_UNIT_100_100, reinterpret_unit::<100, 100> as fn() -> Out),
    ("reinterpret_unit_100_101", C_REINTERPRET_UNIT_100_101, reinterpret_unit::<100, 101> as fn() -> Out),
    ("reinterpret_unit_100_200", C_REINTERPRET_UNIT_100_200, reinterpret_unit::<100, 200> as fn() -> Out),
    ("reinterpret_unit_100_302", C_REINTERPRET_UNIT_100_302, reinterpret_unit::<100, 302> as fn() -> Out),
    ("byvalue_unit_100", C_BYVALUE_UNIT_100, byvalue_unit::<100> as fn() -> Out),
    ("native_chunks_unit_100_0", C_NATIVE_CHUNKS_UNIT_100_0, native_chunks_unit::<100, 0> as fn() -> Out),
    ("native_chunks_unit_100_1", C_NATIVE_CHUNKS_UNIT_100_1, native_chunks_unit::<100, 1> as fn() -> Out),
    ("native_chunks_unit_100_2", C_NATIVE_CHUNKS_UNIT_100_2, native_chunks_unit::<100, 2> as fn() -> Out),
    ("native_chunks_unit_100_3", C_NATIVE_CHUNKS_UNIT_100_3, native_chunks_unit::<100, 3> as fn() -> Out),
    ("chunks_unit_1024_0", C_CHUNKS_UNIT_1024_0, chunks_unit::<1024, 0> as fn() -> Out),
    ("chunks_mut_unit_1024_0", C_CHUNKS_MUT_UNIT_1024_0, chunks_mut_unit::<1024, 0> as fn() -> Out),
    ("chunks_unit_1024_1", C_CHUNKS_UNIT_1024_1, chunks_unit::<1024, 1> as fn() -> Out),
    ("chunks_mut_unit_1024_1", C_CHUNKS_MUT_UNIT_1024_1, chunks_mut_unit::<1024, 1> as fn() -> Out),
    ("chunks_unit_1024_1023", C_CHUNKS_UNIT_1024_1023, chunks_unit::<1024, 1023> as fn() -> Out),
    ("chunks_mut_unit_1024_1023", C_CHUNKS_MUT_UNIT_1024_1023, chunks_mut_unit::<1024, 1023> as fn() -> Out),
    ("chunks_unit_1024_1024", C_CHUNKS_UNIT_1024_1024, chunks_unit::<1024, 1024> as fn() -> Out),
    ("chunks_mut_unit_1024_1024", C_CHUNKS_MUT_UNIT_1024_1024, chunks_mut_unit::<1024, 1024> as fn() -> Out),
    ("chunks_unit_1024_1025", C_CHUNKS_UNIT_1024_1025, chunks_unit::<1024, 1025> as fn() -> Out),
    ("chunks_mut_unit_1024_1025", C_CHUNKS_MUT_UNIT_1024_1025, chunks_mut_unit::<1024, 1025> as fn() -> Out),
    ("chunks_unit_1024_2047", C_CHUNKS_UNIT_1024_2047, chunks_unit::<1024, 2047> as fn() -> Out),
    ("chunks_mut_unit_1024_2047", C_CHUNKS_MUT_UNIT_1024_2047, chunks_mut_unit::<1024, 2047> as fn() -> Out),
    ("chunks_unit_1024_2048", C_CHUNKS_UNIT_1024_2048, chunks_unit::<1024, 2048> as fn() -> Out),
    ("chunks_mut_unit_1024_2048", C_CHUNKS_MUT_UNIT_1024_2048, chunks_mut_unit::<1024, 2048> as fn() -> Out),
    ("chunks_unit_1024_2049", C_CHUNKS_UNIT_1024_2049, chunks_unit::<1024, 2049> as fn() -> Out),
    ("chunks_mut_unit_1024_2049", C_CHUNKS_MUT_UNIT_1024_2049, chunks_mut_unit::<1024, 2049> as fn() -> Out),
    ("chunks_unit_1024_3074", C_CHUNKS_UNIT_1024_3074, chunks_unit::<1024, 3074> as fn() -> Out),
    ("chunks_mut_unit_1024_3074", C_CHUNKS_MUT_UNIT_1024_3074, chunks_mut_unit::<1024, 3074> as fn() -> Out),
    ("reinterpret_unit_1024_0", C_REINTERPRET_UNIT_1024_0, reinterpret_unit::<1024, 0> as fn() -> Out),
    ("reinterpret_unit_1024_1", C_REINTERPRET_UNIT_1024_1, reinterpret_unit::<1024, 1> as fn() -> Out),
    ("reinterpret_unit_1024_1023", C_REINTERPRET_UNIT_1024_1023, reinterpret_unit::<1024, 1023> as fn() -> Out),
    ("reinterpret_unit_1024_1024", C_REINTERPRET_UNIT_1024_1024, reinterpret_unit::<1024, 1024> as fn() -> Out),
    ("reinterpret_unit_1024_1025", C_REINTERPRET_UNIT_1024_1025, reinterpret_unit::<1024, 1025> as fn() -> Out),
    ("reinterpret_unit_1024_2048", C_REINTERPRET_UNIT_1024_2048, reinterpret_unit::<1024, 2048> as fn() -> Out),
    ("reinterpret_unit_1024_3074", C_REINTERPRET_UNIT_1024_3074, reinterpret_unit::<1024, 3074> as fn() -> Out),
    ("byvalue_unit_1024", C_BYVALUE_UNIT_1024, byvalue_unit::<1024> as fn() -> Out),
    ("native_chunks_unit_1024_0", C_NATIVE_CHUNKS_UNIT_1024_0, native_chunks_unit::<1024, 0> as fn() -> Out),
    ("native_chunks_unit_1024_1", C_NATIVE_CHUNKS_UNIT_1024_1, native_chunks_unit::<1024, 1> as fn() -> Out),
    ("native_chunks_unit_1024_2", C_NATIVE_CHUNKS_UNIT_1024_2, native_chunks_unit::<1024, 2> as fn() -> Out),
    ("native_chunks_unit_1024_3", C_NATIVE_CHUNKS_UNIT_1024_3, native_chunks_unit::<1024, 3> as fn() -> Out),
    ("chunks_a16_0_0", C_CHUNKS_A16_0_0, chunks_a16::<0, 0> as fn() -> Out),
    ("chunks_mut_a16_0_0", C_CHUNKS_MUT_A16_0_0, chunks_mut_a16::<0, 0> as fn() -> Out),
    ("reinterpret_a16_0_0", C_REINTERPRET_A16_0_0, reinterpret_a16::<0, 0> as fn() -> Out),
    ("reinterpret_a16_0_1", C_REINTERPRET_A16_0_1, reinterpret_a16::<0, 1> as fn() -> Out),
    ("reinterpret_a16_0_2", C_REINTERPRET_A16_0_2, reinterpret_a16::<0, 2> as fn() -> Out),
    ("byvalue_a16_0", C_BYVALUE_A16_0, byvalue_a16::<0> as fn() -> Out),
    ("native_chunks_a16_0_0", C_NATIVE_CHUNKS_A16_0_0, native_chunks_a16::<0, 0> as fn() -> Out),
    ("native_chunks_a16_0_1", C_NATIVE_CHUNKS_A16_0_1, native_chunks_a16::<0, 1> as fn() -> Out),
    ("native_chunks_a16_0_2", C_NATIVE_CHUNKS_A16_0_2, native_chunks_a16::<0, 2> as fn() -> Out),
    ("native_chunks_a16_0_3", C_NATIVE_CHUNKS_A16_0_3, native_chunks_a16::<0, 3> as fn() -> Out),
    ("chunks_a16_1_0", C_CHUNKS_A16_1_0, chunks_a16::<1, 0> as fn() -> Out),
    ("chunks_mut_a16_1_0", C_CHUNKS_MUT_A16_1_0, chunks_mut_a16::<1, 0> as fn() -> Out),
    ("chunks_a16_1_1", C_CHUNKS_A16_1_1, chunks_a16::<1, 1> as fn() -> Out),
    ("chunks_mut_a16_1_1", C_CHUNKS_MUT_A16_1_1, chunks_mut_a16::<1, 1> as fn() -> Out),
    ("chunks_a16_1_2", C_CHUNKS_A16_1_2, chunks_a16::<1, 2> as fn() -> Out),
    ("chunks_mut_a16_1_2", C_CHUNKS_MUT_A16_1_2, chunks_mut_a16::<1, 2> as fn() -> Out),
    ("chunks_a16_1_3", C_CHUNKS_A16_1_3, chunks_a16::<1, 3> as fn() -> Out),
    ("chunks_mut_a16_1_3", C_CHUNKS_MUT_A16_1_3, chunks_mut_a16::<1, 3> as fn() -> Out),
    ("chunks_a16_1_4", C_CHUNKS_A16_1_4, chunks_a16::<1, 4> as fn() -> Out),
    ("chunks_mut_a16_1_4", C_CHUNKS_MUT_A16_1_4, chunks_mut_a16::<1, 4> as fn() -> Out),
    ("chunks_a16_1_5", C_CHUNKS_A16_1_5, chunks_a16::<1, 5> as fn() -> Out),
    ("chunks_mut_a16_1_5", C_CHUNKS_MUT_A16_1_5, chunks_mut_a16::<1, 5> as fn() -> Out),
    ("reinterpret_a16_1_0", C_REINTERPRET_A16_1_0, reinterpret_a16::<1, 0> as fn() -> Out),
    ("reinterpret_a16_1_1", C_REINTERPRET_A16_1_1, reinterpret_a16::<1, 1> as fn() -> Out),
    ("reinterpret_a16_1_2", C_REINTERPRET_A16_1_2, reinterpret_a16::<1, 2> as fn() -> Out),
    ("reinterpret_a16_1_5", C_REINTERPRET_A16_1_5, reinterpret_a16::<1, 5> as fn() -> Out),
    ("byvalue_a16_1", C_BYVALUE_A16_1, byvalue_a16::<1> as fn() -> Out),
    ("native_chunks_a16_1_0", C_NATIVE_CHUNKS_A16_1_0, native_chunks_a16::<1, 0> as fn() -> Out),
    ("native_chunks_a16_1_1", C_NATIVE_CHUNKS_A16_1_1, native_chunks_a16::<1, 1> as fn() -> Out),
    ("native_chunks_a16_1_2", C_NATIVE_CHUNKS_A16_1_2, native_chunks_a16::<1, 2> as fn() -> Out),
    ("native_chunks_a16_1_3", C_NATIVE_CHUNKS_A16_1_3, native_chunks_a16::<1, 3> as fn() -> Out),
    ("chunks_a16_2_0", C_CHUNKS_A16_2_0, chunks_a16::<2, 0> as fn() -> Out),
    ("chunks_mut_a16_2_0", C_CHUNKS_MUT_A16_2_0, chunks_mut_a16::<2, 0> as fn() -> Out),
    ("chunks_a16_2_1", C_CHUNKS_A16_2_1, chunks_a16::<2, 1> as fn() -> Out),
    ("chunks_mut_a16_2_1", C_CHUNKS_MUT_A16_2_1, chunks_mut_a16::<2, 1> as fn() -> Out),
    ("chunks_a16_2_2", C_CHUNKS_A16_2_2, chunks_a16::<2, 2> as fn() -> Out),
    ("chunks_mut_a16_2_2", C_CHUNKS_MUT_A16_2_2, chunks_mut_a16::<2, 2> as fn() -> Out),
    ("chunks_a16_2_3", C_CHUNKS_A16_2_3, chunks_a16::<2, 3> as fn() -> Out),
    ("chunks_mut_a16_2_3", C_CHUNKS_MUT_A16_2_3, chunks_mut_a16::<2, 3> as fn() -> Out),
    ("chunks_a16_2_4", C_CHUNKS_A16_2_4, chunks_a16::<2, 4> as fn() -> Out),
    ("chunks_mut_a16_2_4", C_CHUNKS_MUT_A16_2_4, chunks_mut_a16::<2, 4> as fn() -> Out),
    ("chunks_a16_2_5", C_CHUNKS_A16_2_5, chunks_a16::<2, 5> as fn() -> Out),
    ("chunks_mut_a16_2_5", C_CHUNKS_MUT_A16_2_5, chunks_mut_a16::<2, 5> as fn() -> Out),
    ("chunks_a16_2_6", C_CHUNKS_A16_2_6, chunks_a16::<2, 6> as fn() -> Out),
    ("chunks_mut_a16_2_6", C_CHUNKS_MUT_A16_2_6, chunks_mut_a16::<2, 6> as fn() -> Out),
    ("chunks_a16_2_7", C_CHUNKS_A16_2_7, chunks_a16::<2, 7> as fn() -> Out),
    ("chunks_mut_a16_2_7", C_CHUNKS_MUT_A16_2_7, chunks_mut_a16::<2, 7> as fn() -> Out),
    ("chunks_a16_2_8", C_CHUNKS_A16_2_8, chunks_a16::<2, 8> as fn() -> Out),
    ("chunks_mut_a16_2_8", C_CHUNKS_MUT_A16_2_8, chunks_mut_a16::<2, 8> as fn() -> Out),
    ("reinterpret_a16_2_0", C_REINTERPRET_A16_2_0, reinterpret_a16::<2, 0> as fn() -> Out),
    ("reinterpret_a16_2_1", C_REINTERPRET_A16_2_1, reinterpret_a16::<2, 1> as fn() -> Out),
    ("reinterpret_a16_2_2", C_REINTERPRET_A16_2_2, reinterpret_a16::<2, 2> as fn() -> Out),
    ("reinterpret_a16_2_3", C_REINTERPRET_A16_2_3, reinterpret_a16::<2, 3> as fn() -> Out),
    ("reinterpret_a16_2_4", C_REINTERPRET_A16_2_4, reinterpret_a16::<2, 4> as fn() -> Out),
    ("reinterpret_a16_2_8", C_REINTERPRET_A16_2_8, reinterpret_a16::<2, 8> as fn() -> Out),
    ("byvalue_a16_2", C_BYVALUE_A16_2, byvalue_a16::<2> as fn() -> Out),
    ("native_chunks_a16_2_0", C_NATIVE_CHUNKS_A16_2_0, native_chunks_a16::<2, 0> as fn() -> Out),
    ("native_chunks_a16_2_1", C_NATIVE_CHUNKS_A16_2_1, native_chunks_a16::<2, 1> as fn() -> Out),
    ("native_chunks_a16_2_2", C_NATIVE_CHUNKS_A16_2_2, native_chunks_a16::<2, 2> as fn() -> Out),
    ("native_chunks_a16_2_3", C_NATIVE_CHUNKS_A16_2_3, native_chunks_a16::<2, 3> as fn() -> Out),
    ("chunks_a16_3_0", C_CHUNKS_A16_3_0, chunks_a16::<3, 0> as fn() -> Out),
    ("chunks_mut_a16_3_0", C_CHUNKS_MUT_A16_3_0, chunks_mut_a16::<3, 0> as fn() -> Out),
    ("chunks_a16_3_1", C_CHUNKS_A16_3_1, chunks_a16::<3, 1> as fn() -> Out),
    ("chunks_mut_a16_3_1", C_CHUNKS_MUT_A16_3_1, chunks_mut_a16::<3, 1> as fn() -> Out),
    ("chunks_a16_3_2", C_CHUNKS_A16_3_2, chunks_a16::<3, 2> as fn() -> Out),
    ("chunks_mut_a16_3_2", C_CHUNKS_MUT_A16_3_2, chunks_mut_a16::<3, 2> as fn() -> Out),
    ("chunks_a16_3_3", C_CHUNKS_A16_3_3, chunks_a16::<3, 3> as fn() -> Out),
    ("chunks_mut_a16_3_3", C_CHUNKS_MUT_A16_3_3, chunks_mut_a16::<3, 3> as fn() -> Out),
    ("chunks_a16_3_4", C_CHUNKS_A16_3_4, chunks_a16::<3, 4> as fn() -> Out),
    ("chunks_mut_a16_3_4", C_CHUNKS_MUT_A16_3_4, chunks_mut_a16::<3, 4> as fn() -> Out),
    ("chunks_a16_3_5", C_CHUNKS_A16_3_5, chunks_a16::<3, 5> as fn() -> Out),
    ("chunks_mut_a16_3_5", C_CHUNKS_MUT_A16_3_5, chunks_mut_a16::<3, 5> as fn() -> Out),
    ("chunks_a16_3_6", C_CHUNKS_A16_3_6, chunks_a16::<3, 6> as fn() -> Out),
    ("chunks_mut_a16_3_6", C_CHUNKS_MUT_A16_3_6, chunks_mut_a16::<3, 6> as fn() -> Out),
    ("chunks_a16_3_7", C_CHUNKS_A16_3_7, chunks_a16::<3, 7> as fn() -> Out),
    ("chunks_mut_a16_3_7", C_CHUNKS_MUT_A16_3_7, chunks_mut_a16::<3, 7> as fn() -> Out),
    ("chunks_a16_3_8", C_CHUNKS_A16_3_8, chunks_a16::<3, 8> as fn() -> Out),
    ("chunks_mut_a16_3_8", C_CHUNKS_MUT_A16_3_8, chunks_mut_a16::<3, 8> as fn() -> Out),
    ("chunks_a16_3_9", C_CHUNKS_A16_3_9, chunks_a16::<3, 9> as fn() -> Out),
    ("chunks_mut_a16_3_9", C_CHUNKS_MUT_A16_3_9, chunks_mut_a16::<3, 9> as fn() -> Out),
    ("chunks_a16_3_10", C_CHUNKS_A16_3_10, chunks_a16::<3, 10> as fn() -> Out),
    ("chunks_mut_a16_3_10", C_CHUNKS_MUT_A16_3_10, chunks_mut_a16::<3, 10> as fn() -> Out),
    ("chunks_a16_3_11", C_CHUNKS_A16_3_11, chunks_a16::<3, 11> as fn() -> Out),
    ("chunks_mut_a16_3_11", C_CHUNKS_MUT_A16_3_11, chunks_mut_a16::<3, 11> as fn() -> Out),
    ("reinterpret_a16_3_0", C_REINTERPRET_A16_3_0, reinterpret_a16::<3, 0> as fn() -> Out),
    ("reinterpret_a16_3_1", C_REINTERPRET_A16_3_1, reinterpret_a16::<3, 1> as fn() -> Out),
    ("reinterpret_a16_3_2", C_REINTERPRET_A16_3_2, reinterpret_a16::<3, 2> as fn() -> Out),
    ("reinterpret_a16_3_3", C_REINTERPRET_A16_3_3, reinterpret_a16::<3, 3> as fn() -> Out),
    ("reinterpret_a16_3_4", C_REINTERPRET_A16_3_4, reinterpret_a16::<3, 4> as fn() -> Out),
    ("reinterpret_a16_3_6", C_REINTERPRET_A16_3_6, reinterpret_a16::<3, 6> as fn() -> Out),
    ("reinterpret_a16_3_11", C_REINTERPRET_A16_3_11, reinterpret_a16::<3, 11> as fn() -> Out),
    ("byvalue_a16_3", C_BYVALUE_A16_3, byvalue_a16::<3> as fn() -> Out),
    ("native_chunks_a16_3_0", C_NATIVE_CHUNKS_A16_3_0, native_chunks_a16::<3, 0> as fn() -> Out),
    ("native_chunks_a16_3_1", C_NATIVE_CHUNKS_A16_3_1, native_chunks_a16::<3, 1> as fn() -> Out),
    ("native_chunks_a16_3_2", C_NATIVE_CHUNKS_A16_3_2, native_chunks_a16::<3, 2> as fn() -> Out),
    ("native_chunks_a16_3_3", C_NATIVE_CHUNKS_A16_3_3, native_chunks_a16::<3, 3> as fn() -> Out),
    ("chunks_a16_7_0", C_CHUNKS_A16_7_0, chunks_a16::<7, 0> as fn() -> Out),
    ("chunks_mut_a16_7_0", C_CHUNKS_MUT_A16_7_0, chunks_mut_a16::<7, 0> as fn() -> Out),
    ("chunks_a16_7_1", C_CHUNKS_A16_7_1, chunks_a16::<7, 1> as fn() -> Out),
    ("chunks_mut_a16_7_1", C_CHUNKS_MUT_A16_7_1, chunks_mut_a16::<7, 1> as fn() -> Out),
    ("chunks_a16_7_2", C_CHUNKS_A16_7_2, chunks_a16::<7, 2> as fn() -> Out),
    ("chunks_mut_a16_7_2", C_CHUNKS_MUT_A16_7_2, chunks_mut_a16::<7, 2> as fn() -> Out),
    ("chunks_a16_7_3", C_CHUNKS_A16_7_3, chunks_a16::<7, 3> as fn() -> Out),
    ("chunks_mut_a16_7_3", C_CHUNKS_MUT_A16_7_3, chunks_mut_a16::<7, 3> as fn() -> Out),
    ("chunks_a16_7_4", C_CHUNKS_A16_7_4, chunks_a16::<7, 4> as fn() -> Out),
    ("chunks_mut_a16_7_4", C_CHUNKS_MUT_A16_7_4, chunks_mut_a16::<7, 4> as fn() -> Out),
    ("chunks_a16_7_5", C_CHUNKS_A16_7_5, chunks_a16::<7, 5> as fn() -> Out),
    ("chunks_mut_a16_7_5", C_CHUNKS_MUT_A16_7_5, chunks_mut_a16::<7, 5> as fn() -> Out),
    ("chunks_a16_7_6", C_CHUNKS_A16_7_6, chunks_a16::<7, 6> as fn() -> Out),
    ("chunks_mut_a16_7_6", C_CHUNKS_MUT_A16_7_6, chunks_mut_a16::<7, 6> as fn() -> Out),
    ("chunks_a16_7_7", C_CHUNKS_A16_7_7, chunks_a16::<7, 7> as fn() -> Out),
    ("chunks_mut_a16_7_7", C_CHUNKS_MUT_A16_7_7, chunks_mut_a16::<7, 7> as fn() -> Out),
    ("chunks_a16_7_8", C_CHUNKS_A16_7_8, chunks_a16::<7, 8> as fn() -> Out),
    ("chunks_mut_a16_7_8", C_CHUNKS_MUT_A16_7_8, chunks_mut_a16::<7, 8> as fn() -> Out),
    ("chunks_a16_7_9", C_CHUNKS_A16_7_9, chunks_a16::<7, 9> as fn() -> Out),
    ("chunks_mut_a16_7_9", C_CHUNKS_MUT_A16_7_9, chunks_mut_a16::<7, 9> as fn() -> Out),
    ("chunks_a16_7_10", C_CHUNKS_A16_7_10, chunks_a16::<7, 10> as fn() -> Out),
    ("chunks_mut_a16_7_10", C_CHUNKS_MUT_A16_7_10, chunks_mut_a16::<7, 10> as fn() -> Out),
    ("chunks_a16_7_11", C_CHUNKS_A16_7_11, chunks_a16::<7, 11> as fn() -> Out),
    ("chunks_mut_a16_7_11", C_CHUNKS_MUT_A16_7_11, chunks_mut_a16::<7, 11> as fn() -> Out),
    ("chunks_a16_7_12", C_CHUNKS_A16_7_12, chunks_a16::<7, 12> as fn() -> Out),
    ("chunks_mut_a16_7_12", C_CHUNKS_MUT_A16_7_12, chunks_mut_a16::<7, 12> as fn() -> Out),
    ("chunks_a16_7_13", C_CHUNKS_A16_7_13, chunks_a16::<7, 13> as fn() -> Out),
    ("chunks_mut_a16_7_13", C_CHUNKS_MUT_A16_7_13, chunks_mut_a16::<7, 13> as fn() -> Out),
    ("chunks_a16_7_14", C_CHUNKS_A16_7_14, chunks_a16::<7, 14> as fn() -> Out),
    ("chunks_mut_a16_7_14", C_CHUNKS_MUT_A16_7_14, chunks_mut_a16::<7, 14> as fn() -> Out),
    ("chunks_a16_7_15", C_CHUNKS_A16_7_15, chunks_a16::<7, 15> as fn() -> Out),
    ("chunks_mut_a16_7_15", C_CHUNKS_MUT_A16_7_15, chunks_mut_a16::<7, 15> as fn() -> Out),
    ("chunks_a16_7_16", C_CHUNKS_A16_7_16, chunks_a16::<7, 16> as fn() -> Out),
    ("chunks_mut_a16_7_16", C_CHUNKS_MUT_A16_7_16, chunks_mut_a16::<7, 16> as fn() -> Out),
    ("chunks_a16_7_17", C_CHUNKS_A16_7_17, chunks_a16::<7, 17> as fn() -> Out),
    ("chunks_mut_a16_7_17", C_CHUNKS_MUT_A16_7_17, chunks_mut_a16::<7, 17> as fn() -> Out),
    ("chunks_a16_7_18", C_CHUNKS_A16_7_18, chunks_a16::<7, 18> as fn() -> Out),
    ("chunks_mut_a16_7_18", C_CHUNKS_MUT_A16_7_18, chunks_mut_a16::<7, 18> as fn() -> Out),
    ("chunks_a16_7_19", C_CHUNKS_A16_7_19, chunks_a16::<7, 19> as fn() -> Out),
    ("chunks_mut_a16_7_19", C_CHUNKS_MUT_A16_7_19, chunks_mut_a16::<7, 19> as fn() -> Out),
    ("chunks_a16_7_20", C_CHUNKS_A16_7_20, chunks_a16::<7, 20> as fn() -> Out),
    ("chunks_mut_a16_7_20", C_CHUNKS_MUT_A16_7_20, chunks_mut_a16::<7, 20> as fn() -> Out),
    ("chunks_a16_7_21", C_CHUNKS_A16_7_21, chunks_a16::<7, 21> as fn() -> Out),
    ("chunks_mut_a16_7_21", C_CHUNKS_MUT_A16_7_21, chunks_mut_a16::<7, 21> as fn() -> Out),
    ("chunks_a16_7_22", C_CHUNKS_A16_7_22, chunks_a16::<7, 22> as fn() -> Out),
    ("chunks_mut_a16_7_22", C_CHUNKS_MUT_A16_7_22, chunks_mut_a16::<7, 22> as fn() -> Out),
    ("chunks_a16_7_23", C_CHUNKS_A16_7_23, chunks_a16::<7, 23> as fn() -> Out),
    ("chunks_mut_a16_7_23", C_CHUNKS_MUT_A16_7_23, chunks_mut_a16::<7, 23> as fn() -> Out),
    ("reinterpret_a16_7_0", C_REINTERPRET_A16_7_0, reinterpret_a16::<7, 0> as fn() -> Out),
    ("reinterpret_a16_7_1", C_REINTERPRET_A16_7_1, reinterpret_a16::<7, 1> as fn() -> Out),
    ("reinterpret_a16_7_6", C_REINTERPRET_A16_7_6, reinterpret_a16::<7, 6> as fn() -> Out),
    ("reinterpret_a16_7_7", C_REINTERPRET_A16_7_7, reinterpret_a16::<7, 7> as fn() -> Out),
    ("reinterpret_a16_7_8", C_REINTERPRET_A16_7_8, reinterpret_a16::<7, 8> as fn() -> Out),
    ("reinterpret_a16_7_14", C_REINTERPRET_A16_7_14, reinterpret_a16::<7, 14> as fn() -> Out),
    ("reinterpret_a16_7_23", C_REINTERPRET_A16_7_23, reinterpret_a16::<7, 23> as fn() -> Out),
    ("byvalue_a16_7", C_BYVALUE_A16_7, byvalue_a16::<7> as fn() -> Out),
    ("native_chunks_a16_7_0", C_NATIVE_CHUNKS_A16_7_0, native_chunks_a16::<7, 0> as fn() -> Out),
    ("native_chunks_a16_7_1", C_NATIVE_CHUNKS_A16_7_1, native_chunks_a16::<7, 1> as fn() -> Out),
    ("native_chunks_a16_7_2", C_NATIVE_CHUNKS_A16_7_2, native_chunks_a16::<7, 2> as fn() -> Out),
    ("native_chunks_a16_7_3", C_NATIVE_CHUNKS_A16_7_3, native_chunks_a16::<7, 3> as fn() -> Out),
    ("chunks_a16_8_0", C_CHUNKS_A16_8_0, chunks_a16::<8, 0> as fn() -> Out),
    ("chunks_mut_a16_8_0", C_CHUNKS_MUT_A16_8_0, chunks_mut_a16::<8, 0> as fn() -> Out),
    ("chunks_a16_8_1", C_CHUNKS_A16_8_1, chunks_a16::<8, 1> as fn() -> Out),
    ("chunks_mut_a16_8_1", C_CHUNKS_MUT_A16_8_1, chunks_mut_a16::<8, 1> as fn() -> Out),
    ("chunks_a16_8_2", C_CHUNKS_A16_8_2, chunks_a16::<8, 2> as fn() -> Out),
    ("chunks_mut_a16_8_2", C_CHUNKS_MUT_A16_8_2, chunks_mut_a16::<8, 2> as fn() -> Out),
    ("chunks_a16_8_3", C_CHUNKS_A16_8_3, chunks_a16::<8, 3> as fn() -> Out),
    ("chunks_mut_a16_8_3", C_CHUNKS_MUT_A16_8_3, chunks_mut_a16::<8, 3> as fn() -> Out),
    ("chunks_a16_8_4", C_CHUNKS_A16_8_4, chunks_a16::<8, 4> as fn() -> Out),
    ("chunks_mut_a16_8_4", C_CHUNKS_MUT_A16_8_4, chunks_mut_a16::<8, 4> as fn() -> Out),
    ("chunks_a16_8_5", C_CHUNKS_A16_8_5, chunks_a16::<8, 5> as fn() -> Out),
    ("chunks_mut_a16_8_5", C_CHUNKS_MUT_A16_8_5, chunks_mut_a16::<8, 5> as fn() -> Out),
    ("chunks_a16_8_6", C_CHUNKS_A16_8_6, chunks_a16::<8, 6> as fn() -> Out),
    ("chunks_mut_a16_8_6", C_CHUNKS_MUT_A16_8_6, chunks_mut_a16::<8, 6> as fn() -> Out),
    ("chunks_a16_8_7", C_CHUNKS_A16_8_7, chunks_a16::<8, 7> as fn() -> Out),
    ("chunks_mut_a16_8_7", C_CHUNKS_MUT_A16_8_7, chunks_mut_a16::<8, 7> as fn() -> Out),
    ("chunks_a16_8_8", C_CHUNKS_A16_8_8, chunks_a16::<8, 8> as fn() -> Out),
    ("chunks_mut_a16_8_8", C_CHUNKS_MUT_A16_8_8, chunks_mut_a16::<8, 8> as fn() -> Out),
    ("chunks_a16_8_9", C_CHUNKS_A16_8_9, chunks_a16::<8, 9> as fn() -> Out),
    ("chunks_mut_a16_8_9", C_CHUNKS_MUT_A16_8_9, chunks_mut_a16::<8, 9> as fn() -> Out),
    ("chunks_a16_8_10", C_CHUNKS_A16_8_10, chunks_a16::<8, 10> as fn() -> Out),
    ("chunks_mut_a16_8_10", C_CHUNKS_MUT_A16_8_10, chunks_mut_a16::<8, 10> as fn() -> Out),
    ("chunks_a16_8_11", C_CHUNKS_A16_8_11, chunks_a16::<8, 11> as fn() -> Out),
    ("chunks_mut_a16_8_11", C_CHUNKS_MUT_A16_8_11, chunks_mut_a16::<8, 11> as fn() -> Out),
    ("chunks_a16_8_12", C_CHUNKS_A16_8_12, chunks_a16::<8, 12> as fn() -> Out),
    ("chunks_mut_a16_8_12", C_CHUNKS_MUT_A16_8_12, chunks_mut_a16::<8, 12> as fn() -> Out),
    ("chunks_a16_8_13", C_CHUNKS_A16_8_13, chunks_a16::<8, 13> as fn() -> Out),
    ("chunks_mut_a16_8_13", C_CHUNKS_MUT_A16_8_13, chunks_mut_a16::<8, 13> as fn() -> Out),
    ("chunks_a16_8_14", C_CHUNKS_A16_8_14, chunks_a16::<8, 14> as fn() -> Out),
    ("chunks_mut_a16_8_14", C_CHUNKS_MUT_A16_8_14, chunks_mut_a16::<8, 14> as fn() -> Out),
    ("chunks_a16_8_15", C_CHUNKS_A16_8_15, chunks_a16::<8, 15> as fn() -> Out),
    ("chunks_mut_a16_8_15", C_CHUNKS_MUT_A16_8_15, chunks_mut_a16::<8, 15> as fn() -> Out),
    ("chunks_a16_8_16", C_CHUNKS_A16_8_16, chunks_a16::<8, 16> as fn() -> Out),
    ("chunks_mut_a16_8_16", C_CHUNKS_MUT_A16_8_16, chunks_mut_a16::<8, 16> as fn() -> Out),
    ("chunks_a16_8_17", C_CHUNKS_A16_8_17, chunks_a16::<8, 17> as fn() -> Out),
    ("chunks_mut_a16_8_17", C_CHUNKS_MUT_A16_8_17, chunks_mut_a16::<8, 17> as fn() -> Out),
    ("chunks_a16_8_18", C_CHUNKS_A16_8_18, chunks_a16::<8, 18> as fn() -> Out),
    ("chunks_mut_a16_8_18", C_CHUNKS_MUT_A16_8_18, chunks_mut_a16::<8, 18> as fn() -> Out),
    ("chunks_a16_8_19", C_CHUNKS_A16_8_19, chunks_a16::<8, 19> as fn() -> Out),
    ("chunks_mut_a16_8_19", C_CHUNKS_MUT_A16_8_19, chunks_mut_a16::<8, 19> as fn() -> Out),
    ("chunks_a16_8_20", C_CHUNKS_A16_8_20, chunks_a16::<8, 20> as fn() -> Out),
    ("chunks_mut_a16_8_20", C_CHUNKS_MUT_A16_8_20, chunks_mut_a16::<8, 20> as fn() -> Out),
    ("chunks_a16_8_21", C_CHUNKS_A16_8_21, chunks_a16::<8, 21> as fn() -> Out),
    ("chunks_mut_a16_8_21", C_CHUNKS_MUT_A16_8_21, chunks_mut_a16::<8, 21> as fn() -> Out),
    ("chunks_a16_8_22", C_CHUNKS_A16_8_22, chunks_a16::<8, 22> as fn() -> Out),
    ("chunks_mut_a16_8_22", C_CHUNKS_MUT_A16_8_22, chunks_mut_a16::<8, 22> as fn() -> Out),
    ("chunks_a16_8_23", C_CHUNKS_A16_8_23, chunks_a16::<8, 23> as fn() -> Out),
    ("chunks_mut_a16_8_23", C_CHUNKS_MUT_A16_8_23, chunks_mut_a16::<8, 23> as fn() -> Out),
    ("chunks_a16_8_24", C_CHUNKS_A16_8_24, chunks_a16::<8, 24> as fn() -> Out),
    ("chunks_mut_a16_8_24", C_CHUNKS_MUT_A16_8_24, chunks_mut_a16::<8, 24> as fn() -> Out),
    ("chunks_a16_8_25", C_CHUNKS_A16_8_25, chunks_a16::<8, 25> as fn() -> Out),
    ("chunks_mut_a16_8_25", C_CHUNKS_MUT_A16_8_25, chunks_mut_a16::<8, 25> as fn() -> Out),
    ("chunks_a16_8_26", C_CHUNKS_A16_8_26, chunks_a16::<8, 26> as fn() -> Out),
    ("chunks_mut_a16_8_26", C_CHUNKS_MUT_A16_8_26, chunks_mut_a16::<8, 26> as fn() -> Out),
    ("reinterpret_a16_8_0", C_REINTERPRET_A16_8_0, reinterpret_a16::<8, 0> as fn() -> Out),
    ("reinterpret_a16_8_1", C_REINTERPRET_A16_8_1, reinterpret_a16::<8, 1> as fn() -> Out),
    ("reinterpret_a16_8_7", C_REINTERPRET_A16_8_7, reinterpret_a16::<8, 7> as fn() -> Out),
    ("reinterpret_a16_8_8", C_REINTERPRET_A16_8_8, reinterpret_a16::<8, 8> as fn() -> Out),
    ("reinterpret_a16_8_9", C_REINTERPRET_A16_8_9, reinterpret_a16::<8, 9> as fn() -> Out),
    ("reinterpret_a16_8_16", C_REINTERPRET_A16_8_16, reinterpret_a16::<8, 16> as fn() -> Out),
    ("reinterpret_a16_8_26", C_REINTERPRET_A16_8_26, reinterpret_a16::<8, 26> as fn() -> Out),
    ("byvalue_a16_8", C_BYVALUE_A16_8, byvalue_a16::<8> as fn() -> Out),
    ("native_chunks_a16_8_0", C_NATIVE_CHUNKS_A16_8_0, native_chunks_a16::<8, 0> as fn() -> Out),
    ("native_chunks_a16_8_1", C_NATIVE_CHUNKS_A16_8_1, native_chunks_a16::<8, 1> as fn() -> Out),
    ("native_chunks_a16_8_2", C_NATIVE_CHUNKS_A16_8_2, native_chunks_a16::<8, 2> as fn() -> Out),
    ("native_chunks_a16_8_3", C_NATIVE_CHUNKS_A16_8_3, native_chunks_a16::<8, 3> as fn() -> Out),
    ("chunks_a16_16_0", C_CHUNKS_A16_16_0, chunks_a16::<16, 0> as fn() -> Out),
    ("chunks_mut_a16_16_0", C_CHUNKS_MUT_A16_16_0, chunks_mut_a16::<16, 0> as fn() -> Out),
    ("chunks_a16_16_1", C_CHUNKS_A16_16_1, chunks_a16::<16, 1> as fn() -> Out),
    ("chunks_mut_a16_16_1", C_CHUNKS_MUT_A16_16_1, chunks_mut_a16::<16, 1> as fn() -> Out),
    ("chunks_a16_16_2", C_CHUNKS_A16_16_2, chunks_a16::<16, 2> as fn() -> Out),
    ("chunks_mut_a16_16_2", C_CHUNKS_MUT_A16_16_2, chunks_mut_a16::<16, 2> as fn() -> Out),
    ("chunks_a16_16_3", C_CHUNKS_A16_16_3, chunks_a16::<16, 3> as fn() -> Out),
    ("chunks_mut_a16_16_3", C_CHUNKS_MUT_A16_16_3, chunks_mut_a16::<16, 3> as fn() -> Out),
    ("chunks_a16_16_4", C_CHUNKS_A16_16_4, chunks_a16::<16, 4> as fn() -> Out),
    ("chunks_mut_a16_16_4", C_CHUNKS_MUT_A16_16_4, chunks_mut_a16::<16, 4> as fn() -> Out),
    ("chunks_a16_16_5", C_CHUNKS_A16_16_5, chunks_a16::<16, 5> as fn() -> Out),
    ("chunks_mut_a16_16_5", C_CHUNKS_MUT_A16_16_5, chunks_mut_a16::<16, 5> as fn() -> Out),
    ("chunks_a16_16_6", C_CHUNKS_A16_16_6, chunks_a16::<16, 6> as fn() -> Out),
    ("chunks_mut_a16_16_6", C_CHUNKS_MUT_A16_16_6, chunks_mut_a16::<16, 6> as fn() -> Out),
    ("chunks_a16_16_7", C_CHUNKS_A16_16_7, chunks_a16::<16, 7> as fn() -> Out),
    ("chunks_mut_a16_16_7", C_CHUNKS_MUT_A16_16_7, chunks_mut_a16::<16, 7> as fn() -> Out),
    ("chunks_a16_16_8", C_CHUNKS_A16_16_8, chunks_a16::<16, 8> as fn() -> Out),
    ("chunks_mut_a16_16_8", C_CHUNKS_MUT_A16_16_8, chunks_mut_a16::<16, 8> as fn() -> Out),
    ("chunks_a16_16_9", C_CHUNKS_A16_16_9, chunks_a16::<16, 9> as fn() -> Out),
    ("chunks_mut_a16_16_9", C_CHUNKS_MUT_A16_16_9, chunks_mut_a16::<16, 9> as fn() -> Out),
    ("chunks_a16_16_10", C_CHUNKS_A16_16_10, chunks_a16::<16, 10> as fn() -> Out),
    ("chunks_mut_a16_16_10", C_CHUNKS_MUT_A16_16_10, chunks_mut_a16::<16, 10> as fn() -> Out),
    ("chunks_a16_16_11", C_CHUNKS_A16_16_11, chunks_a16::<16, 11> as fn() -> Out),
    ("chunks_mut_a16_16_11", C_CHUNKS_MUT_A16_16_11, chunks_mut_a16::<16, 11> as fn() -> Out),
    ("chunks_a16_16_12", C_CHUNKS_A16_16_12, chunks_a16::<16, 12> as fn() -> Out),
    ("chunks_mut_a16_16_12", C_CHUNKS_MUT_A16_16_12, chunks_mut_a16::<16, 12> as fn() -> Out),
    ("chunks_a16_16_13", C_CHUNKS_A16_16_13, chunks_a16::<16, 13> as fn() -> Out),
    ("chunks_mut_a16_16_13", C_CHUNKS_MUT_A16_16_13, chunks_mut_a16::<16, 13> as fn() -> Out),
    ("chunks_a16_16_14", C_CHUNKS_A16_16_14, chunks_a16::<16, 14> as fn() -> Out),
    ("chunks_mut_a16_16_14", C_CHUNKS_MUT_A16_16_14, chunks_mut_a16::<16, 14> as fn() -> Out),
    ("chunks_a16_16_15", C_CHUNKS_A16_16_15, chunks_a16::<16, 15> as fn() -> Out),
    ("chunks_mut_a16_16_15", C_CHUNKS_MUT_A16_16_15, chunks_mut_a16::<16, 15> as fn() -> Out),
    ("chunks_a16_16_16", C_CHUNKS_A16_16_16, chunks_a16::<16, 16> as fn() -> Out),
    ("chunks_mut_a16_16_16", C_CHUNKS_MUT_A16_16_16, chunks_mut_a16::<16, 16> as fn() -> Out),
    ("chunks_a16_16_17", C_CHUNKS_A16_16_17, chunks_a16::<16, 17> as fn() -> Out),
    ("chunks_mut_a16_16_17", C_CHUNKS_MUT_A16_16_17, chunks_mut_a16::<16, 17> as fn() -> Out),
    ("chunks_a16_16_18", C_CHUNKS_A16_16_18, chunks_a16::<16, 18> as fn() -> Out),
    ("chunks_mut_a16_16_18", C_CHUNKS_MUT_A16_16_18, chunks_mut_a16::<16, 18> as fn() -> Out),
    ("chunks_a16_16_19", C_CHUNKS_A16_16_19, chunks_a16::<16, 19> as fn() -> Out),
    ("chunks_mut_a16_16_19", C_CHUNKS_MUT_A16_16_19, chunks_mut_a16::<16, 19> as fn() -> Out),
    ("chunks_a16_16_20", C_CHUNKS_A16_16_20, chunks_a16::<16, 20> as fn() -> Out),
    ("chunks_mut_a16_16_20", C_CHUNKS_MUT_A16_16_20, chunks_mut_a16::<16, 20> as fn() -> Out),
    ("chunks_a16_16_21", C_CHUNKS_A16_16_21, chunks_a16::<16, 21> as fn() -> Out),
    ("chunks_mut_a16_16_21", C_CHUNKS_MUT_A16_16_21, chunks_mut_a16::<16, 21> as fn() -> Out),
    ("chunks_a16_16_22", C_CHUNKS_A16_16_22, chunks_a16::<16, 22> as fn() -> Out),
    ("chunks_mut_a16_16_22", C_CHUNKS_MUT_A16_16_22, chunks_mut_a16::<16, 22> as fn() -> Out),
    ("chunks_a16_16_23", C_CHUNKS_A16_16_23, chunks_a16::<16, 23> as fn() -> Out),
    ("chunks_mut_a16_16_23", C_CHUNKS_MUT_A16_16_23, chunks_mut_a16::<16, 23> as fn() -> Out),
    ("chunks_a16_16_24", C_CHUNKS_A16_16_24, chunks_a16::<16, 24> as fn() -> Out),
    ("chunks_mut_a16_16_24", C_CHUNKS_MUT_A16_16_24, chunks_mut_a16::<16, 24> as fn() -> Out),
    ("chunks_a16_16_25", C_CHUNKS_A16_16_25, chunks_a16::<16, 25> as fn() -> Out),
    ("chunks_mut_a16_16_25", C_CHUNKS_MUT_A16_16_25, chunks_mut_a16::<16, 25> as fn() -> Out),
    ("chunks_a16_16_26", C_CHUNKS_A16_16_26, chunks_a16::<16, 26> as fn() -> Out),
    ("chunks_mut_a16_16_26", C_CHUNKS_MUT_A16_16_26, chunks_mut_a16::<16, 26> as fn() -> Out),
    ("chunks_a16_16_27", C_CHUNKS_A16_16_27, chunks_a16::<16, 27> as fn() -> Out),
    ("chunks_mut_a16_16_27", C_CHUNKS_MUT_A16_16_27, chunks_mut_a16::<16, 27> as fn() -> Out),
    ("chunks_a16_16_28", C_CHUNKS_A16_16_28, chunks_a16::<16, 28> as fn() -> Out),
    ("chunks_mut_a16_16_28", C_CHUNKS_MUT_A16_16_28, chunks_mut_a16::<16, 28> as fn() -> Out),
    ("chunks_a16_16_29", C_CHUNKS_A16_16_29, chunks_a16::<16, 29> as fn() -> Out),
    ("chunks_mut_a16_16_29", C_CHUNKS_MUT_A16_16_29, chunks_mut_a16::<16, 29> as fn() -> Out),
    ("chunks_a16_16_30", C_CHUNKS_A16_16_30, chunks_a16::<16, 30> as fn() -> Out),
    ("chunks_mut_a16_16_30", C_CHUNKS_MUT_A16_16_30, chunks_mut_a16::<16, 30> as fn() -> Out),
    ("chunks_a16_16_31", C_CHUNKS_A16_16_31, chunks_a16::<16, 31> as fn() -> Out),
    ("chunks_mut_a16_16_31", C_CHUNKS_MUT_A16_16_31, chunks_mut_a16::<16, 31> as fn() -> Out),
    ("chunks_a16_16_32", C_CHUNKS_A16_16_32, chunks_a16::<16, 32> as fn() -> Out),
    ("chunks_mut_a16_16_32", C_CHUNKS_MUT_A16_16_32, chunks_mut_a16::<16, 32> as fn() -> Out),
    ("chunks_a16_16_33", C_CHUNKS_A16_16_33, chunks_a16::<16, 33> as fn() -> Out),
    ("chunks_mut_a16_16_33", C_CHUNKS_MUT_A16_16_33, chunks_mut_a16::<16, 33> as fn() -> Out),
    ("chunks_a16_16_34", C_CHUNKS_A16_16_34, chunks_a16::<16, 34> as fn() -> Out),
    ("chunks_mut_a16_16_34", C_CHUNKS_MUT_A16_16_34, chunks_mut_a16::<16, 34> as fn() -> Out),
    ("chunks_a16_16_35", C_CHUNKS_A16_16_35, chunks_a16::<16, 35> as fn() -> Out),
    ("chunks_mut_a16_16_35", C_CHUNKS_MUT_A16_16_35, chunks_mut_a16::<16, 35> as fn() -> Out),
    ("chunks_a16_16_36", C_CHUNKS_A16_16_36, chunks_a16::<16, 36> as fn() -> Out),
    ("chunks_mut_a16_16_36", C_CHUNKS_MUT_A16_16_36, chunks_mut_a16::<16, 36> as fn() -> Out),
    ("chunks_a16_16_37", C_CHUNKS_A16_16_37, chunks_a16::<16, 37> as fn() -> Out),
    ("chunks_mut_a16_16_37", C_CHUNKS_MUT_A16_16_37, chunks_mut_a16::<16, 37> as fn() -> Out),
    ("chunks_a16_16_38", C_CHUNKS_A16_16_38, chunks_a16::<16, 38> as fn() -> Out),
    ("chunks_mut_a16_16_38", C_CHUNKS_MUT_A16_16_38, chunks_mut_a16::<16, 38> as fn() -> Out),
    ("chunks_a16_16_39", C_CHUNKS_A16_16_39, chunks_a16::<16, 39> as fn() -> Out),
    ("chunks_mut_a16_16_39", C_CHUNKS_MUT_A16_16_39, chunks_mut_a16::<16, 39> as fn() -> Out),
    ("chunks_a16_16_40", C_CHUNKS_A16_16_40, chunks_a16::<16, 40> as fn() -> Out),
    ("chunks_mut_a16_16_40", C_CHUNKS_MUT_A16_16_40, chunks_mut_a16::<16, 40> as fn() -> Out),
    ("chunks_a16_16_41", C_CHUNKS_A16_16_41, chunks_a16::<16, 41> as fn() -> Out),
    ("chunks_mut_a16_16_41", C_CHUNKS_MUT_A16_16_41, chunks_mut_a16::<16, 41> as fn() -> Out),
    ("chunks_a16_16_42", C_CHUNKS_A16_16_42, chunks_a16::<16, 42> as fn() -> Out),
    ("chunks_mut_a16_16_42", C_CHUNKS_MUT_A16_16_42, chunks_mut_a16::<16, 42> as fn() -> Out),
    ("chunks_a16_16_43", C_CHUNKS_A16_16_43, chunks_a16::<16, 43> as fn() -> Out),
    ("chunks_mut_a16_16_43", C_CHUNKS_MUT_A16_16_43, chunks_mut_a16::<16, 43> as fn() -> Out),
    ("chunks_a16_16_44", C_CHUNKS_A16_16_44, chunks_a16::<16, 44> as fn() -> Out),
    ("chunks_mut_a16_16_44", C_CHUNKS_MUT_A16_16_44, chunks_mut_a16::<16, 44> as fn() -> Out),
    ("chunks_a16_16_45", C_CHUNKS_A16_16_45, chunks_a16::<16, 45> as fn() -> Out),
    ("chunks_mut_a16_16_45", C_CHUNKS_MUT_A16_16_45, chunks_mut_a16::<16, 45> as fn() -> Out),
    ("chunks_a16_16_46", C_CHUNKS_A16_16_46, chunks_a16::<16, 46> as fn() -> Out),
    ("chunks_mut_a16_16_46", C_CHUNKS_MUT_A16_16_46, chunks_mut_a16::<16, 46> as fn() -> Out),
    ("chunks_a16_16_47", C_CHUNKS_A16_16_47, chunks_a16::<16, 47> as fn() -> Out),
    ("chunks_mut_a16_16_47", C_CHUNKS_MUT_A16_16_47, chunks_mut_a16::<16, 47> as fn() -> Out),
    ("chunks_a16_16_48", C_CHUNKS_A16_16_48, chunks_a16::<16, 48> as fn() -> Out),
    ("chunks_mut_a16_16_48", C_CHUNKS_MUT_A16_16_48, chunks_mut_a16::<16, 48> as fn() -> Out),
    ("chunks_a16_16_49", C_CHUNKS_A16_16_49, chunks_a16::<16, 49> as fn() -> Out),
    ("chunks_mut_a16_16_49", C_CHUNKS_MUT_A16_16_49, chunks_mut_a16::<16, 49> as fn() -> Out),
    ("chunks_a16_16_50", C_CHUNKS_A16_16_50, chunks_a16::<16, 50> as fn() -> Out),
    ("chunks_mut_a16_16_50", C_CHUNKS_MUT_A16_16_50, chunks_mut_a16::<16, 50> as fn() -> Out),
    ("reinterpret_a16_16_0", C_REINTERPRET_A16_16_0, reinterpret_a16::<16, 0> as fn() -> Out),
    ("reinterpret_a16_16_1", C_REINTERPRET_A16_16_1, reinterpret_a16::<16, 1> as fn() -> Out),
    ("reinterpret_a16_16_15", C_REINTERPRET_A16_16_15, reinterpret_a16::<16, 15> as fn() -> Out),
    ("reinterpret_a16_16_16", C_REINTERPRET_A16_16_16, reinterpret_a16::<16, 16> as fn() -> Out),
    ("reinterpret_a16_16_17", C_REINTERPRET_A16_16_17, reinterpret_a16::<16, 17> as fn() -> Out),
    ("reinterpret_a16_16_32", C_REINTERPRET_A16_16_32, reinterpret_a16::<16, 32> as fn() -> Out),
    ("reinterpret_a16_16_50", C_REINTERPRET_A16_16_50, reinterpret_a16::<16, 50> as fn() -> Out),
    ("byvalue_a16_16", C_BYVALUE_A16_16, byvalue_a16::<16> as fn() -> Out),
    ("native_chunks_a16_16_0", C_NATIVE_CHUNKS_A16_16_0, native_chunks_a16::<16, 0> as fn() -> Out),
    ("native_chunks_a16_16_1", C_NATIVE_CHUNKS_A16_16_1, native_chunks_a16::<16, 1> as fn() -> Out),
    ("native_chunks_a16_16_2", C_NATIVE_CHUNKS_A16_16_2, native_chunks_a16::<16, 2> as fn() -> Out),
    ("native_chunks_a16_16_3", C_NATIVE_CHUNKS_A16_16_3, native_chunks_a16::<16, 3> as fn() -> Out),
    ("chunks_a16_17_0", C_CHUNKS_A16_17_0, chunks_a16::<17, 0> as fn() -> Out),
    ("chunks_mut_a16_17_0", C_CHUNKS_MUT_A16_17_0, chunks_mut_a16::<17, 0> as fn() -> Out),
    ("chunks_a16_17_1", C_CHUNKS_A16_17_1, chunks_a16::<17, 1> as fn() -> Out),
    ("chunks_mut_a16_17_1", C_CHUNKS_MUT_A16_17_1, chunks_mut_a16::<17, 1> as fn() -> Out),
    ("chunks_a16_17_2", C_CHUNKS_A16_17_2, chunks_a16::<17, 2> as fn() -> Out),
    ("chunks_mut_a16_17_2", C_CHUNKS_MUT_A16_17_2, chunks_mut_a16::<17, 2> as fn() -> Out),
    ("chunks_a16_17_3", C_CHUNKS_A16_17_3, chunks_a16::<17, 3> as fn() -> Out),
    ("chunks_mut_a16_17_3", C_CHUNKS_MUT_A16_17_3, chunks_mut_a16::<17, 3> as fn() -> Out),
    ("chunks_a16_17_4", C_CHUNKS_A16_17_4, chunks_a16::<17, 4> as fn() -> Out),
    ("chunks_mut_a16_17_4", C_CHUNKS_MUT_A16_17_4, chunks_mut_a16::<17, 4> as fn() -> Out),
    ("chunks_a16_17_5", C_CHUNKS_A16_17_5, chunks_a16::<17, 5> as fn() -> Out),
    ("chunks_mut_a16_17_5", C_CHUNKS_MUT_A16_17_5, chunks_mut_a16::<17, 5> as fn() -> Out),
    ("chunks_a16_17_6", C_CHUNKS_A16_17_6, chunks_a16::<17, 6> as fn() -> Out),
    ("chunks_mut_a16_17_6", C_CHUNKS_MUT_A16_17_6, chunks_mut_a16::<17, 6> as fn() -> Out),
    ("chunks_a16_17_7", C_CHUNKS_A16_17_7, chunks_a16::<17, 7> as fn() -> Out),
    ("chunks_mut_a16_17_7", C_CHUNKS_MUT_A16_17_7, chunks_mut_a16::<17, 7> as fn() -> Out),
    ("chunks_a16_17_8", C_CHUNKS_A16_17_8, chunks_a16::<17, 8> as fn() -> Out),
    ("chunks_mut_a16_17_8", C_CHUNKS_MUT_A16_17_8, chunks_mut_a16::<17, 8> as fn() -> Out),
    ("chunks_a16_17_9", C_CHUNKS_A16_17_9, chunks_a16::<17, 9> as fn() -> Out),
    ("chunks_mut_a16_17_9", C_CHUNKS_MUT_A16_17_9, chunks_mut_a16::<17, 9> as fn() -> Out),
    ("chunks_a16_17_10", C_CHUNKS_A16_17_10, chunks_a16::<17, 10> as fn() -> Out),
    ("chunks_mut_a16_17_10", C_CHUNKS_MUT_A16_17_10, chunks_mut_a16::<17, 10> as fn() -> Out),
    ("chunks_a16_17_11", C_CHUNKS_A16_17_11, chunks_a16::<17, 11> as fn() -> Out),
    ("chunks_mut_a16_17_11", C_CHUNKS_MUT_A16_17_11, chunks_mut_a16::<17, 11> as fn() -> Out),
    ("chunks_a16_17_12", C_CHUNKS_A16_17_12, chunks_a16::<17, 12> as fn() -> Out),
    ("chunks_mut_a16_17_12", C_CHUNKS_MUT_A16_17_12, chunks_mut_a16::<17, 12> as fn() -> Out),
    ("chunks_a16_17_13", C_CHUNKS_A16_17_13, chunks_a16::<17, 13> as fn() -> Out),
    ("chunks_mut_a16_17_13", C_CHUNKS_MUT_A16_17_13, chunks_mut_a16::<17, 13> as fn() -> Out),
    ("chunks_a16_17_14", C_CHUNKS_A16_17_14, chunks_a16::<17, 14> as fn() -> Out),
    ("chunks_mut_a16_17_14", C_CHUNKS_MUT_A16_17_14, chunks_mut_a16::<17, 14> as fn() -> Out),
    ("chunks_a16_17_15", C_CHUNKS_A16_17_15, chunks_a16::<17, 15> as fn() -> Out),
    ("chunks_mut_a16_17_15", C_CHUNKS_MUT_A16_17_15, chunks_mut_a16::<17, 15> as fn() -> Out),
    ("chunks_a16_17_16", C_CHUNKS_A16_17_16, chunks_a16::<17, 16> as fn() -> Out),
    ("chunks_mut_a16_17_16", C_CHUNKS_MUT_A16_17_16, chunks_mut_a16::<17, 16> as fn() -> Out),
    ("chunks_a16_17_17", C_CHUNKS_A16_17_17, chunks_a16::<17, 17> as fn() -> Out),
    ("chunks_mut_a16_17_17", C_CHUNKS_MUT_A16_17_17, chunks_mut_a16::<17, 17> as fn() -> Out),
    ("chunks_a16_17_18", C_CHUNKS_A16_17_18, chunks_a16::<17, 18> as fn() -> Out),
    ("chunks_mut_a16_17_18", C_CHUNKS_MUT_A16_17_18, chunks_mut_a16::<17, 18> as fn() -> Out),
    ("chunks_a16_17_19", C_CHUNKS_A16_17_19, chunks_a16::<17, 19> as fn() -> Out),
    ("chunks_mut_a16_17_19", C_CHUNKS_MUT_A16_17_19, chunks_mut_a16::<17, 19> as fn() -> Out),
    ("chunks_a16_17_20", C_CHUNKS_A16_17_20, chunks_a16::<17, 20> as fn() -> Out),
    ("chunks_mut_a16_17_20", C_CHUNKS_MUT_A16_17_20, chunks_mut_a16::<17, 20> as fn() -> Out),
    ("chunks_a16_17_21", C_CHUNKS_A16_17_21, chunks_a16::<17, 21> as fn() -> Out),
    ("chunks_mut_a16_17_21", C_CHUNKS_MUT_A16_17_21, chunks_mut_a16::<17, 21> as fn() -> Out),
    ("chunks_a16_17_22", C_CHUNKS_A16_17_22, chunks_a16::<17, 22> as fn() -> Out),
    ("chunks_mut_a16_17_22", C_CHUNKS_MUT_A16_17_22, chunks_mut_a16::<17, 22> as fn() -> Out),
    ("chunks_a16_17_23", C_CHUNKS_A16_17_23, chunks_a16::<17, 23> as fn() -> Out),
    ("chunks_mut_a16_17_23", C_CHUNKS_MUT_A16_17_23, chunks_mut_a16::<17, 23> as fn() -> Out),
    ("chunks_a16_17_24", C_CHUNKS_A16_17_24, chunks_a16::<17, 24> as fn() -> Out),
    ("chunks_mut_a16_17_24", C_CHUNKS_MUT_A16_17_24, chunks_mut_a16::<17, 24> as fn() -> Out),
    ("chunks_a16_17_25", C_CHUNKS_A16_17_25, chunks_a16::<17, 25> as fn() -> Out),
    ("chunks_mut_a16_17_25", C_CHUNKS_MUT_A16_17_25, chunks_mut_a16::<17, 25> as fn() -> Out),
    ("chunks_a16_17_26", C_CHUNKS_A16_17_26, chunks_a16::<17, 26> as fn() -> Out),
    ("chunks_mut_a16_17_26", C_CHUNKS_MUT_A16_17_26, chunks_mut_a16::<17, 26> as fn() -> Out),
    ("chunks_a16_17_27", C_CHUNKS_A16_17_27, chunks_a16::<17, 27> as fn() -> Out),
    ("chunks_mut_a16_17_27", C_CHUNKS_MUT_A16_17_27, chunks_mut_a16::<17, 27> as fn() -> Out),
    ("chunks_a16_17_28", C_CHUNKS_A16_17_28, chunks_a16::<17, 28> as fn() -> Out),
    ("chunks_mut_a16_17_28", C_CHUNKS_MUT_A16_17_28, chunks_mut_a16::<17, 28> as fn() -> Out),
    ("chunks_a16_17_29", C_CHUNKS_A16_17_29, chunks_a16::<17, 29> as fn() -> Out),
    ("chunks_mut_a16_17_29", C_CHUNKS_MUT_A16_17_29, chunks_mut_a16::<17, 29> as fn() -> Out),
    ("chunks_a16_17_30", C_CHUNKS_A16_17_30, chunks_a16::<17, 30> as fn() -> Out),
    ("chunks_mut_a16_17_30", C_CHUNKS_MUT_A16_17_30, chunks_mut_a16::<17, 30> as fn() -> Out),
    ("chunks_a16_17_31", C_CHUNKS_A16_17_31, chunks_a16::<17, 31> as fn() -> Out),
    ("chunks_mut_a16_17_31", C_CHUNKS_MUT_A16_17_31, chunks_mut_a16::<17, 31> as fn() -> Out),
    ("chunks_a16_17_32", C_CHUNKS_A16_17_32, chunks_a16::<17, 32> as fn() -> Out),
    ("chunks_mut_a16_17_32", C_CHUNKS_MUT_A16_17_32, chunks_mut_a16::<17, 32> as fn() -> Out),
    ("chunks_a16_17_33", C_CHUNKS_A16_17_33, chunks_a16::<17, 33> as fn() -> Out),
    ("chunks_mut_a16_17_33", C_CHUNKS_MUT_A16_17_33, chunks_mut_a16::<17, 33> as fn() -> Out),
    ("chunks_a16_17_34", C_CHUNKS_A16_17_34, chunks_a16::<17, 34> as fn() -> Out),
    ("chunks_mut_a16_17_34", C_CHUNKS_MUT_A16_17_34, chunks_mut_a16::<17, 34> as fn() -> Out),
    ("chunks_a16_17_35", C_CHUNKS_A16_17_35, chunks_a16::<17, 35> as fn() -> Out),
    ("chunks_mut_a16_17_35", C_CHUNKS_MUT_A16_17_35, chunks_mut_a16::<17, 35> as fn() -> Out),
    ("chunks_a16_17_36", C_CHUNKS_A16_17_36, chunks_a16::<17, 36> as fn() -> Out),
    ("chunks_mut_a16_17_36", C_CHUNKS_MUT_A16_17_36, chunks_mut_a16::<17, 36> as fn() -> Out),
    ("chunks_a16_17_37", C_CHUNKS_A16_17_37, chunks_a16::<17, 37> as fn() -> Out),
    ("chunks_mut_a16_17_37", C_CHUNKS_MUT_A16_17_37, chunks_mut_a16::<17, 37> as fn() -> Out),
    ("chunks_a16_17_38", C_CHUNKS_A16_17_38, chunks_a16::<17, 38> as fn() -> Out),
    ("chunks_mut_a16_17_38", C_CHUNKS_MUT_A16_17_38, chunks_mut_a16::<17, 38> as fn() -> Out),
    ("chunks_a16_17_39", C_CHUNKS_A16_17_39, chunks_a16::<17, 39> as fn() -> Out),
    ("chunks_mut_a16_17_39", C_CHUNKS_MUT_A16_17_39, chunks_mut_a16::<17, 39> as fn() -> Out),
    ("chunks_a16_17_40", C_CHUNKS_A16_17_40, chunks_a16::<17, 40> as fn() -> Out),
    ("chunks_mut_a16_17_40", C_CHUNKS_MUT_A16_17_40, chunks_mut_a16::<17, 40> as fn() -> Out),
    ("chunks_a16_17_41", C_CHUNKS_A16_17_41, chunks_a16::<17, 41> as fn() -> Out),
    ("chunks_mut_a16_17_41", C_CHUNKS_MUT_A16_17_41, chunks_mut_a16::<17, 41> as fn() -> Out),
    ("chunks_a16_17_42", C_CHUNKS_A16_17_42, chunks_a16::<17, 42> as fn() -> Out),
    ("chunks_mut_a16_17_42", C_CHUNKS_MUT_A16_17_42, chunks_mut_a16::<17, 42> as fn() -> Out),
    ("chunks_a16_17_43", C_CHUNKS_A16_17_43, chunks_a16::<17, 43> as fn() -> Out),
    ("chunks_mut_a16_17_43", C_CHUNKS_MUT_A16_17_43, chunks_mut_a16::<17, 43> as fn() -> Out),
    ("chunks_a16_17_44", C_CHUNKS_A16_17_44, chunks_a16::<17, 44> as fn() -> Out),
    ("chunks_mut_a16_17_44", C_CHUNKS_MUT_A16_17_44, chunks_mut_a16::<17, 44> as fn() -> Out),
    ("chunks_a16_17_45", C_CHUNKS_A16_17_45, chunks_a16::<17, 45> as fn() -> Out),
    ("chunks_mut_a16_17_45", C_CHUNKS_MUT_A16_17_45, chunks_mut_a16::<17, 45> as fn() -> Out),
    ("chunks_a16_17_46", C_CHUNKS_A16_17_46, chunks_a16::<17, 46> as fn() -> Out),
    ("chunks_mut_a16_17_46", C_CHUNKS_MUT_A16_17_46, chunks_mut_a16::<17, 46> as fn() -> Out),
    ("chunks_a16_17_47", C_CHUNKS_A16_17_47, chunks_a16::<17, 47> as fn() -> Out),
    ("chunks_mut_a16_17_47", C_CHUNKS_MUT_A16_17_47, chunks_mut_a16::<17, 47> as fn() -> Out),
    ("chunks_a16_17_48", C_CHUNKS_A16_17_48, chunks_a16::<17, 48> as fn() -> Out),
    ("chunks_mut_a16_17_48", C_CHUNKS_MUT_A16_17_48, chunks_mut_a16::<17, 48> as fn() -> Out),
    ("chunks_a16_17_49", C_CHUNKS_A16_17_49, chunks_a16::<17, 49> as fn() -> Out),
    ("chunks_mut_a16_17_49", C_CHUNKS_MUT_A16_17_49, chunks_mut_a16::<17, 49> as fn() -> Out),
    ("chunks_a16_17_50", C_CHUNKS_A16_17_50, chunks_a16::<17, 50> as fn() -> Out),
    ("chunks_mut_a16_17_50", C_CHUNKS_MUT_A16_17_50, chunks_mut_a16::<17, 50> as fn() -> Out),
    ("chunks_a16_17_51", C_CHUNKS_A16_17_51, chunks_a16::<17, 51> as fn() -> Out),
    ("chunks_mut_a16_17_51", C_CHUNKS_MUT_A16_17_51, chunks_mut_a16::<17, 51> as fn() -> Out),
    ("chunks_a16_17_52", C_CHUNKS_A16_17_52, chunks_a16::<17, 52> as fn() -> Out),
    ("chunks_mut_a16_17_52", C_CHUNKS_MUT_A16_17_52, chunks_mut_a16::<17, 52> as fn() -> Out),
    ("chunks_a16_17_53", C_CHUNKS_A16_17_53, chunks_a16::<17, 53> as fn() -> Out),
    ("chunks_mut_a16_17_53", C_CHUNKS_MUT_A16_17_53, chunks_mut_a16::<17, 53> as fn() -> Out),
    ("reinterpret_a16_17_0", C_REINTERPRET_A16_17_0, reinterpret_a16::<17, 0> as fn() -> Out),
    ("reinterpret_a16_17_1", C_REINTERPRET_A16_17_1, reinterpret_a16::<17, 1> as fn() -> Out),
    ("reinterpret_a16_17_16", C_REINTERPRET_A16_17_16, reinterpret_a16::<17, 16> as fn() -> Out),
    ("reinterpret_a16_17_17", C_REINTERPRET_A16_17_17, reinterpret_a16::<17, 17> as fn() -> Out),
    ("reinterpret_a16_17_18", C_REINTERPRET_A16_17_18, reinterpret_a16::<17, 18> as fn() -> Out),
    ("reinterpret_a16_17_34", C_REINTERPRET_A16_17_34, reinterpret_a16::<17, 34> as fn() -> Out),
    ("reinterpret_a16_17_53", C_REINTERPRET_A16_17_53, reinterpret_a16::<17, 53> as fn() -> Out),
    ("byvalue_a16_17", C_BYVALUE_A16_17, byvalue_a16::<17> as fn() -> Out),
    ("native_chunks_a16_17_0", C_NATIVE_CHUNKS_A16_17_0, native_chunks_a16::<17, 0> as fn() -> Out),
    ("native_chunks_a16_17_1", C_NATIVE_CHUNKS_A16_17_1, native_chunks_a16::<17, 1> as fn() -> Out),
    ("native_chunks_a16_17_2", C_NATIVE_CHUNKS_A16_17_2, native_chunks_a16::<17, 2> as fn() -> Out),
    ("native_chunks_a16_17_3", C_NATIVE_CHUNKS_A16_17_3, native_chunks_a16::<17, 3> as fn() -> Out),
    ("chunks_a16_33_0", C_CHUNKS_A16_33_0, chunks_a16::<33, 0> as fn() -> Out),
    ("chunks_mut_a16_33_0", C_CHUNKS_MUT_A16_33_0, chunks_mut_a16::<33, 0> as fn() -> Out),
    ("chunks_a16_33_1", C_CHUNKS_A16_33_1, chunks_a16::<33, 1> as fn() -> Out),
    ("chunks_mut_a16_33_1", C_CHUNKS_MUT_A16_33_1, chunks_mut_a16::<33, 1> as fn() -> Out),
    ("chunks_a16_33_32", C_CHUNKS_A16_33_32, chunks_a16::<33, 32> as fn() -> Out),
    ("chunks_mut_a16_33_32", C_CHUNKS_MUT_A16_33_32, chunks_mut_a16::<33, 32> as fn() -> Out),
    ("chunks_a16_33_33", C_CHUNKS_A16_33_33, chunks_a16::<33, 33> as fn() -> Out),
    ("chunks_mut_a16_33_33", C_CHUNKS_MUT_A16_33_33, chunks_mut_a16::<33, 33> as fn() -> Out),
    ("chunks_a16_33_34", C_CHUNKS_A16_33_34, chunks_a16::<33, 34> as fn() -> Out),
    ("chunks_mut_a16_33_34", C_CHUNKS_MUT_A16_33_34, chunks_mut_a16::<33, 34> as fn() -> Out),
    ("chunks_a16_33_65", C_CHUNKS_A16_33_65, chunks_a16::<33, 65> as fn() -> Out),
    ("chunks_mut_a16_33_65", C_CHUNKS_MUT_A16_33_65, chunks_mut_a16::<33, 65> as fn() -> Out),
    ("chunks_a16_33_66", C_CHUNKS_A16_33_66, chunks_a16::<33, 66> as fn() -> Out),
    ("chunks_mut_a16_33_66", C_CHUNKS_MUT_A16_33_66, chunks_mut_a16::<33, 66> as fn() -> Out),
    ("chunks_a16_33_67", C_CHUNKS_A16_33_67, chunks_a16::<33, 67> as fn() -> Out),
    ("chunks_mut_a16_33_67", C_CHUNKS_MUT_A16_33_67, chunks_mut_a16::<33, 67> as fn() -> Out),
    ("chunks_a16_33_98", C_CHUNKS_A16_33_98, chunks_a16::<33, 98> as fn() -> Out),
    ("chunks_mut_a16_33_98", C_CHUNKS_MUT_A16_33_98, chunks_mut_a16::<33, 98> as fn() -> Out),
    ("chunks_a16_33_99", C_CHUNKS_A16_33_99, chunks_a16::<33, 99> as fn() -> Out),
    ("chunks_mut_a16_33_99", C_CHUNKS_MUT_A16_33_99, chunks_mut_a16::<33, 99> as fn() -> Out),
    ("chunks_a16_33_100", C_CHUNKS_A16_33_100, chunks_a16::<33, 100> as fn() -> Out),
    ("chunks_mut_a16_33_100", C_CHUNKS_MUT_A16_33_100, chunks_mut_a16::<33, 100> as fn() -> Out),
    ("chunks_a16_33_101", C_CHUNKS_A16_33_101, chunks_a16::<33, 101> as fn() -> Out),
    ("chunks_mut_a16_33_101", C_CHUNKS_MUT_A16_33_101, chunks_mut_a16::<33, 101> as fn() -> Out),
    ("reinterpret_a16_33_0", C_REINTERPRET_A16_33_0, reinterpret_a16::<33, 0> as fn() -> Out),
    ("reinterpret_a16_33_1", C_REINTERPRET_A16_33_1, reinterpret_a16::<33, 1> as fn() -> Out),
    ("reinterpret_a16_33_32", C_REINTERPRET_A16_33_32, reinterpret_a16::<33, 32> as fn() -> Out),
    ("reinterpret_a16_33_33", C_REINTERPRET_A16_33_33, reinterpret_a16::<33, 33> as fn() -> Out),
    ("reinterpret_a16_33_34", C_REINTERPRET_A16_33_34, reinterpret_a16::<33, 34> as fn() -> Out),
    ("reinterpret_a16_33_66", C_REINTERPRET_A16_33_66, reinterpret_a16::<33, 66> as fn() -> Out),
    ("reinterpret_a16_33_101", C_REINTERPRET_A16_33_101, reinterpret_a16::<33, 101> as fn() -> Out),
    ("byvalue_a16_33", C_BYVALUE_A16_33, byvalue_a16::<33> as fn() -> Out),
    ("native_chunks_a16_33_0", C_NATIVE_CHUNKS_A16_33_0, native_chunks_a16::<33, 0> as fn() -> Out),
    ("native_chunks_a16_33_1", C_NATIVE_CHUNKS_A16_33_1, native_chunks_a16::<33, 1> as fn() -> Out),
    ("native_chunks_a16_33_2", C_NATIVE_CHUNKS_A16_33_2, native_chunks_a16::<33, 2> as fn() -> Out),
    ("native_chunks_a16_33_3", C_NATIVE_CHUNKS_A16_33_3, native_chunks_a16::<33, 3> as fn() -> Out),
    ("chunks_a16_64_0", C_CHUNKS_A16_64_0, chunks_a16::<64, 0> as fn() -> Out),
    ("chunks_mut_a16_64_0", C_CHUNKS_MUT_A16_64_0, chunks_mut_a16::<64, 0> as fn() -> Out),
    ("chunks_a16_64_1", C_CHUNKS_A16_64_1, chunks_a16::<64, 1> as fn() -> Out),
    ("chunks_mut_a16_64_1", C_CHUNKS_MUT_A16_64_1, chunks_mut_a16::<64, 1> as fn() -> Out),
    ("chunks_a16_64_63", C_CHUNKS_A16_64_63, chunks_a16::<64, 63> as fn() -> Out),
    ("chunks_mut_a16_64_63", C_CHUNKS_MUT_A16_64_63, chunks_mut_a16::<64, 63> as fn() -> Out),
    ("chunks_a16_64_64", C_CHUNKS_A16_64_64, chunks_a16::<64, 64> as fn() -> Out),
    ("chunks_mut_a16_64_64", C_CHUNKS_MUT_A16_64_64, chunks_mut_a16::<64, 64> as fn() -> Out),
    ("chunks_a16_64_65", C_CHUNKS_A16_64_65, chunks_a16::<64, 65> as fn() -> Out),
    ("chunks_mut_a16_64_65", C_CHUNKS_MUT_A16_64_65, chunks_mut_a16::<64, 65> as fn() -> Out),
    ("chunks_a16_64_127", C_CHUNKS_A16_64_127, chunks_a16::<64, 127> as fn() -> Out),
    ("chunks_mut_a16_64_127", C_CHUNKS_MUT_A16_64_127, chunks_mut_a16::<64, 127> as fn() -> Out),
    ("chunks_a16_64_128", C_CHUNKS_A16_64_128, chunks_a16::<64, 128> as fn() -> Out),
    ("chunks_mut_a16_64_128", C_CHUNKS_MUT_A16_64_128, chunks_mut_a16::<64, 128> as fn() -> Out),
    ("chunks_a16_64_129", C_CHUNKS_A16_64_129, chunks_a16::<64, 129> as fn() -> Out),
    ("chunks_mut_a16_64_129", C_CHUNKS_MUT_A16_64_129, chunks_mut_a16::<64, 129> as fn() -> Out),
    ("chunks_a16_64_191", C_CHUNKS_A16_64_191, chunks_a16::<64, 191> as fn() -> Out),
    ("chunks_mut_a16_64_191", C_CHUNKS_MUT_A16_64_191, chunks_mut_a16::<64, 191> as fn() -> Out),
    ("chunks_a16_64_192", C_CHUNKS_A16_64_192, chunks_a16::<64, 192> as fn() -> Out),
    ("chunks_mut_a16_64_192", C_CHUNKS_MUT_A16_64_192, chunks_mut_a16::<64, 192> as fn() -> Out),
    ("chunks_a16_64_193", C_CHUNKS_A16_64_193, chunks_a16::<64, 193> as fn() -> Out),
    ("chunks_mut_a16_64_193", C_CHUNKS_MUT_A16_64_193, chunks_mut_a16::<64, 193> as fn() -> Out),
    ("chunks_a16_64_194", C_CHUNKS_A16_64_194, chunks_a16::<64, 194> as fn() -> Out),
    ("chunks_mut_a16_64_194", C_CHUNKS_MUT_A16_64_194, chunks_mut_a16::<64, 194> as fn() -> Out),
    ("reinterpret_a16_64_0", C_REINTERPRET_A16_64_0, reinterpret_a16::<64, 0> as fn() -> Out),
    ("reinterpret_a16_64_1", C_REINTERPRET_A16_64_1, reinterpret_a16::<64, 1> as fn() -> Out),
    ("reinterpret_a16_64_63", C_REINTERPRET_A16_64_63, reinterpret_a16::<64, 63> as fn() -> Out),
    ("reinterpret_a16_64_64", C_REINTERPRET_A16_64_64, reinterpret_a16::<64, 64> as fn() -> Out),
    ("reinterpret_a16_64_65", C_REINTERPRET_A16_64_65, reinterpret_a16::<64, 65> as fn() -> Out),
    ("reinterpret_a16_64_128", C_REINTERPRET_A16_64_128, reinterpret_a16::<64, 128> as fn() -> Out),
    ("reinterpret_a16_64_194", C_REINTERPRET_A16_64_194, reinterpret_a16::<64, 194> as fn() -> Out),
    ("byvalue_a16_64", C_BYVALUE_A16_64, byvalue_a16::<64> as fn() -> Out),
    ("native_chunks_a16_64_0", C_NATIVE_CHUNKS_A16_64_0, native_chunks_a16::<64, 0> as fn() -> Out),
    ("native_chunks_a16_64_1", C_NATIVE_CHUNKS_A16_64_1, native_chunks_a16::<64, 1> as fn() -> Out),
    ("native_chunks_a16_64_2", C_NATIVE_CHUNKS_A16_64_2, native_chunks_a16::<64, 2> as fn() -> Out),
    ("native_chunks_a16_64_3", C_NATIVE_CHUNKS_A16_64_3, native_chunks_a16::<64, 3> as fn() -> Out),
    ("chunks_a16_100_0", C_CHUNKS_A16_100_0, chunks_a16::<100, 0> as fn() -> Out),
    ("chunks_mut_a16_100_0", C_CHUNKS_MUT_A16_100_0, chunks_mut_a16::<100, 0> as fn() -> Out),
    ("chunks_a16_100_1", C_CHUNKS_A16_100_1, chunks_a16::<100, 1> as fn() -> Out),
    ("chunks_mut_a16_100_1", C_CHUNKS_MUT_A16_100_1, chunks_mut_a16::<100, 1> as fn() -> Out),
    ("chunks_a16_100_99", C_CHUNKS_A16_100_99, chunks_a16::<100, 99> as fn() -> Out),
    ("chunks_mut_a16_100_99", C_CHUNKS_MUT_A16_100_99, chunks_mut_a16::<100, 99> as fn() -> Out),
    ("chunks_a16_100_100", C_CHUNKS_A16_100_100, chunks_a16::<100, 100> as fn() -> Out),
    ("chunks_mut_a16_100_100", C_CHUNKS_MUT_A16_100_100, chunks_mut_a16::<100, 100> as fn() -> Out),
    ("chunks_a16_100_101", C_CHUNKS_A16_100_101, chunks_a16::<100, 101> as fn() -> Out),
    ("chunks_mut_a16_100_101", C_CHUNKS_MUT_A16_100_101, chunks_mut_a16::<100, 101> as fn() -> Out),
    ("chunks_a16_100_199", C_CHUNKS_A16_100_199, chunks_a16::<100, 199> as fn() -> Out),
    ("chunks_mut_a16_100_199", C_CHUNKS_MUT_A16_100_199, chunks_mut_a16::<100, 199> as fn() -> Out),
    ("chunks_a16_100_200", C_CHUNKS_A16_100_200, chunks_a16::<100, 200> as fn() -> Out),
    ("chunks_mut_a16_100_200", C_CHUNKS_MUT_A16_100_200, chunks_mut_a16::<100, 200> as fn() -> Out),
    ("chunks_a16_100_201", C_CHUNKS_A16_100_201, chunks_a16::<100, 201> as fn() -> Out),
    ("chunks_mut_a16_100_201", C_CHUNKS_MUT_A16_100_201, chunks_mut_a16::<100, 201> as fn() -> Out),
    ("chunks_a16_100_302", C_CHUNKS_A16_100_302, chunks_a16::<100, 302> as fn() -> Out),
    ("chunks_mut_a16_100_302", C_CHUNKS_MUT_A16_100_302, chunks_mut_a16::<100, 302> as fn() -> Out),
    ("reinterpret_a16_100_0", C_REINTERPRET_A16_100_0, reinterpret_a16::<100, 0> as fn() -> Out),
    ("reinterpret_a16_100_1", C_REINTERPRET_A16_100_1, reinterpret_a16::<100, 1> as fn() -> Out),
    ("reinterpret_a16_100_99", C_REINTERPRET_A16_100_99, reinterpret_a16::<100, 99> as fn() -> Out),
    ("reinterpret_a16_100_100", C_REINTERPRET_A16_100_100, reinterpret_a16::<100, 100> as fn() -> Out),
    ("reinterpret_a16_100_101", C_REINTERPRET_A16_100_101, reinterpret_a16::<100, 101> as fn() -> Out),
    ("reinterpret_a16_100_200", C_REINTERPRET_A16_100_200, reinterpret_a16::<100, 200> as fn() -> Out),
    ("reinterpret_a16_100_302", C_REINTERPRET_A16_100_302, reinterpret_a16::<100, 302> as fn() -> Out),
    ("byvalue_a16_100", C_BYVALUE_A16_100, byvalue_a16::<100> as fn() -> Out),
    ("native_chunks_a16_100_0", C_NATIVE_CHUNKS_A16_100_0, native_chunks_a16::<100, 0> as fn() -> Out),
    ("native_chunks_a16_100_1", C_NATIVE_CHUNKS_A16_100_1, native_chunks_a16::<100, 1> as fn() -> Out),
    ("native_chunks_a16_100_2", C_NATIVE_CHUNKS_A16_100_2, native_chunks_a16::<100, 2> as fn() -> Out),
    ("native_chunks_a16_100_3", C_NATIVE_CHUNKS_A16_100_3, native_chunks_a16::<100, 3> as fn() -> Out),
    ("chunks_a16_1024_0", C_CHUNKS_A16_1024_0, chunks_a16::<1024, 0> as fn() -> Out),
    ("chunks_mut_a16_1024_0", C_CHUNKS_MUT_A16_1024_0, chunks_mut_a16::<1024, 0> as fn() -> Out),
    ("chunks_a16_1024_1", C_CHUNKS_A16_1024_1, chunks_a16::<1024, 1> as fn() -> Out),
    ("chunks_mut_a16_1024_1", C_CHUNKS_MUT_A16_1024_1, chunks_mut_a16::<1024, 1> as fn() -> Out),
    ("chunks_a16_1024_1023", C_CHUNKS_A16_1024_1023, chunks_a16::<1024, 1023> as fn() -> Out),
    ("chunks_mut_a16_1024_1023", C_CHUNKS_MUT_A16_1024_1023, chunks_mut_a16::<1024, 1023> as fn() -> Out),
    ("chunks_a16_1024_1024", C_CHUNKS_A16_1024_1024, chunks_a16::<1024, 1024> as fn() -> Out),
    ("chunks_mut_a16_1024_1024", C_CHUNKS_MUT_A16_1024_1024, chunks_mut_a16::<1024, 1024> as fn() -> Out),
    ("chunks_a16_1024_1025", C_CHUNKS_A16_1024_1025, chunks_a16::<1024, 1025> as fn() -> Out),
    ("chunks_mut_a16_1024_1025", C_CHUNKS_MUT_A16_1024_1025, chunks_mut_a16::<1024, 1025> as fn() -> Out),
    ("chunks_a16_1024_2047", C_CHUNKS_A16_1024_2047, chunks_a16::<1024, 2047> as fn() -> Out),
    ("chunks_mut_a16_1024_2047", C_CHUNKS_MUT_A16_1024_2047, chunks_mut_a16::<1024, 2047> as fn() -> Out),
    ("chunks_a16_1024_2048", C_CHUNKS_A16_1024_2048, chunks_a16::<1024, 2048> as fn() -> Out),
    ("chunks_mut_a16_1024_2048", C_CHUNKS_MUT_A16_1024_2048, chunks_mut_a16::<1024, 2048> as fn() -> Out),
    ("chunks_a16_1024_2049", C_CHUNKS_A16_1024_2049, chunks_a16::<1024, 2049> as fn() -> Out),
    ("chunks_mut_a16_1024_2049", C_CHUNKS_MUT_A16_1024_2049, chunks_mut_a16::<1024, 2049> as fn() -> Out),
    ("chunks_a16_1024_3074", C_CHUNKS_A16_1024_3074, chunks_a16::<1024, 3074> as fn() -> Out),
    ("chunks_mut_a16_1024_3074", C_CHUNKS_MUT_A16_1024_3074, chunks_mut_a16::<1024, 3074> as fn() -> Out),
    ("reinterpret_a16_1024_0", C_REINTERPRET_A16_1024_0, reinterpret_a16::<1024, 0> as fn() -> Out),
    ("reinterpret_a16_1024_1", C_REINTERPRET_A16_1024_1, reinterpret_a16::<1024, 1> as fn() -> Out),
    ("reinterpret_a16_1024_1023", C_REINTERPRET_A16_1024_1023, reinterpret_a16::<1024, 1023> as fn() -> Out),
    ("reinterpret_a16_1024_1024", C_REINTERPRET_A16_1024_1024, reinterpret_a16::<1024, 1024> as fn() -> Out),
    ("reinterpret_a16_1024_1025", C_REINTERPRET_A16_1024_1025, reinterpret_a16::<1024, 1025> as fn() -> Out),
    ("reinterpret_a16_1024_2048", C_REINTERPRET_A16_1024_2048, reinterpret_a16::<1024, 2048> as fn() -> Out),
    ("reinterpret_a16_1024_3074", C_REINTERPRET_A16_1024_3074, reinterpret_a16::<1024, 3074> as fn() -> Out),
    ("byvalue_a16_1024", C_BYVALUE_A16_1024, byvalue_a16::<1024> as fn() -> Out),
    ("native_chunks_a16_1024_0", C_NATIVE_CHUNKS_A16_1024_0, native_chunks_a16::<1024, 0> as fn() -> Out),
    ("native_chunks_a16_1024_1", C_NATIVE_CHUNKS_A16_1024_1, native_chunks_a16::<1024, 1> as fn() -> Out),
    ("native_chunks_a16_1024_2", C_NATIVE_CHUNKS_A16_1024_2, native_chunks_a16::<1024, 2> as fn() -> Out),
    ("native_chunks_a16_1024_3", C_NATIVE_CHUNKS_A16_1024_3, native_chunks_a16::<1024, 3> as fn() -> Out),
    ("chunks_b3_0_0", C_CHUNKS_B3_0_0, chunks_b3::<0, 0> as fn() -> Out),
    ("chunks_mut_b3_0_0", C_CHUNKS_MUT_B3_0_0, chunks_mut_b3::<0, 0> as fn() -> Out),
    ("reinterpret_b3_0_0", C_REINTERPRET_B3_0_0, reinterpret_b3::<0, 0> as fn() -> Out),
    ("reinterpret_b3_0_1", C_REINTERPRET_B3_0_1, reinterpret_b3::<0, 1> as fn() -> Out),
    ("reinterpret_b3_0_2", C_REINTERPRET_B3_0_2, reinterpret_b3::<0, 2> as fn() -> Out),
    ("byvalue_b3_0", C_BYVALUE_B3_0, byvalue_b3::<0> as fn() -> Out),
    ("native_chunks_b3_0_0", C_NATIVE_CHUNKS_B3_0_0, native_chunks_b3::<0, 0> as fn() -> Out),
    ("native_chunks_b3_0_1", C_NATIVE_CHUNKS_B3_0_1, native_chunks_b3::<0, 1> as fn() -> Out),
    ("native_chunks_b3_0_2", C_NATIVE_CHUNKS_B3_0_2, native_chunks_b3::<0, 2> as fn() -> Out),
    ("native_chunks_b3_0_3", C_NATIVE_CHUNKS_B3_0_3, native_chunks_b3::<0, 3> as fn() -> Out),
    ("chunks_b3_1_0", C_CHUNKS_B3_1_0, chunks_b3::<1, 0> as fn() -> Out),
    ("chunks_mut_b3_1_0", C_CHUNKS_MUT_B3_1_0, chunks_mut_b3::<1, 0> as fn() -> Out),
    ("chunks_b3_1_1", C_CHUNKS_B3_1_1, chunks_b3::<1, 1> as fn() -> Out),
    ("chunks_mut_b3_1_1", C_CHUNKS_MUT_B3_1_1, chunks_mut_b3::<1, 1> as fn() -> Out),
    ("chunks_b3_1_2", C_CHUNKS_B3_1_2, chunks_b3::<1, 2> as fn() -> Out),
    ("chunks_mut_b3_1_2", C_CHUNKS_MUT_B3_1_2, chunks_mut_b3::<1, 2> as fn() -> Out),
    ("chunks_b3_1_3", C_CHUNKS_B3_1_3, chunks_b3::<1, 3> as fn() -> Out),
    ("chunks_mut_b3_1_3", C_CHUNKS_MUT_B3_1_3, chunks_mut_b3::<1, 3> as fn() -> Out),
    ("chunks_b3_1_4", C_CHUNKS_B3_1_4, chunks_b3::<1, 4> as fn() -> Out),
    ("chunks_mut_b3_1_4", C_CHUNKS_MUT_B3_1_4, chunks_mut_b3::<1, 4> as fn() -> Out),
    ("chunks_b3_1_5", C_CHUNKS_B3_1_5, chunks_b3::<1, 5> as fn() -> Out),
    ("chunks_mut_b3_1_5", C_CHUNKS_MUT_B3_1_5, chunks_mut_b3::<1, 5> as fn() -> Out),
    ("reinterpret_b3_1_0", C_REINTERPRET_B3_1_0, reinterpret_b3::<1, 0> as fn() -> Out),
    ("reinterpret_b3_1_1", C_REINTERPRET_B3_1_1, reinterpret_b3::<1, 1> as fn() -> Out),
    ("reinterpret_b3_1_2", C_REINTERPRET_B3_1_2, reinterpret_b3::<1, 2> as fn() -> Out),
    ("reinterpret_b3_1_5", C_REINTERPRET_B3_1_5, reinterpret_b3::<1, 5> as fn() -> Out),
    ("byvalue_b3_1", C_BYVALUE_B3_1, byvalue_b3::<1> as fn() -> Out),
    ("native_chunks_b3_1_0", C_NATIVE_CHUNKS_B3_1_0, native_chunks_b3::<1, 0> as fn() -> Out),
    ("native_chunks_b3_1_1", C_NATIVE_CHUNKS_B3_1_1, native_chunks_b3::<1, 1> as fn() -> Out),
    ("native_chunks_b3_1_2", C_NATIVE_CHUNKS_B3_1_2, native_chunks_b3::<1, 2> as fn() -> Out),
    ("native_chunks_b3_1_3", C_NATIVE_CHUNKS_B3_1_3, native_chunks_b3::<1, 3> as fn() -> Out),
    ("chunks_b3_2_0", C_CHUNKS_B3_2_0, chunks_b3::<2, 0> as fn() -> Out),
    ("chunks_mut_b3_2_0", C_CHUNKS_MUT_B3_2_0, chunks_mut_b3::<2, 0> as fn() -> Out),
    ("chunks_b3_2_1", C_CHUNKS_B3_2_1, chunks_b3::<2, 1> as fn() -> Out),
    ("chunks_mut_b3_2_1", C_CHUNKS_MUT_B3_2_1, chunks_mut_b3::<2, 1> as fn() -> Out),
    ("chunks_b3_2_2", C_CHUNKS_B3_2_2, chunks_b3::<2, 2> as fn() -> Out),
    ("chunks_mut_b3_2_2", C_CHUNKS_MUT_B3_2_2, chunks_mut_b3::<2, 2> as fn() -> Out),
    ("chunks_b3_2_3", C_CHUNKS_B3_2_3, chunks_b3::<2, 3> as fn() -> Out),
    ("chunks_mut_b3_2_3", C_CHUNKS_MUT_B3_2_3, chunks_mut_b3::<2, 3> as fn() -> Out),
    ("chunks_b3_2_4", C_CHUNKS_B3_2_4, chunks_b3::<2, 4> as fn() -> Out),
    ("chunks_mut_b3_2_4", C_CHUNKS_MUT_B3_2_4, chunks_mut_b3::<2, 4> as fn() -> Out),
    ("chunks_b3_2_5", C_CHUNKS_B3_2_5, chunks_b3::<2, 5> as fn() -> Out),
    ("chunks_mut_b3_2_5", C_CHUNKS_MUT_B3_2_5, chunks_mut_b3::<2, 5> as fn() -> Out),
    ("chunks_b3_2_6", C_CHUNKS_B3_2_6, chunks_b3::<2, 6> as fn() -> Out),
    ("chunks_mut_b3_2_6", C_CHUNKS_MUT_B3_2_6, chunks_mut_b3::<2, 6> as fn() -> Out),
    ("chunks_b3_2_7", C_CHUNKS_B3_2_7, chunks_b3::<2, 7> as fn() -> Out),
    ("chunks_mut_b3_2_7", C_CHUNKS_MUT_B3_2_7, chunks_mut_b3::<2, 7> as fn() -> Out),
    ("chunks_b3_2_8", C_CHUNKS_B3_2_8, chunks_b3::<2, 8> as fn() -> Out),
    ("chunks_mut_b3_2_8", C_CHUNKS_MUT_B3_2_8, chunks_mut_b3::<2, 8> as fn() -> Out),
    ("reinterpret_b3_2_0", C_REINTERPRET_B3_2_0, reinterpret_b3::<2, 0> as fn() -> Out),
    ("reinterpret_b3_2_1", C_REINTERPRET_B3_2_1, reinterpret_b3::<2, 1> as fn() -> Out),
    ("reinterpret_b3_2_2", C_REINTERPRET_B3_2_2, reinterpret_b3::<2, 2> as fn() -> Out),
    ("reinterpret_b3_2_3", C_REINTERPRET_B3_2_3, reinterpret_b3::<2, 3> as fn() -> Out),
    ("reinterpret_b3_2_4", C_REINTERPRET_B3_2_4, reinterpret_b3::<2, 4> as fn() -> Out),
    ("reinterpret_b3_2_8", C_REINTERPRET_B3_2_8, reinterpret_b3::<2, 8> as fn() -> Out),
    ("byvalue_b3_2", C_BYVALUE_B3_2, byvalue_b3::<2> as fn() -> Out),
    ("native_chunks_b3_2_0", C_NATIVE_CHUNKS_B3_2_0, native_chunks_b3::<2, 0> as fn() -> Out),
    ("native_chunks_b3_2_1", C_NATIVE_CHUNKS_B3_2_1, native_chunks_b3::<2, 1> as fn() -> Out),
    ("native_chunks_b3_2_2", C_NATIVE_CHUNKS_B3_2_2, native_chunks_b3::<2, 2> as fn() -> Out),
    ("native_chunks_b3_2_3", C_NATIVE_CHUNKS_B3_2_3, native_chunks_b3::<2, 3> as fn() -> Out),
    ("chunks_b3_3_0", C_CHUNKS_B3_3_0, chunks_b3::<3, 0> as fn() -> Out),
    ("chunks_mut_b3_3_0", C_CHUNKS_MUT_B3_3_0, chunks_mut_b3::<3, 0> as fn() -> Out),
    ("chunks_b3_3_1", C_CHUNKS_B3_3_1, chunks_b3::<3, 1> as fn() -> Out),
    ("chunks_mut_b3_3_1", C_CHUNKS_MUT_B3_3_1, chunks_mut_b3::<3, 1> as fn() -> Out),
    ("chunks_b3_3_2", C_CHUNKS_B3_3_2, chunks_b3::<3, 2> as fn() -> Out),
    ("chunks_mut_b3_3_2", C_CHUNKS_MUT_B3_3_2, chunks_mut_b3::<3, 2> as fn() -> Out),
    ("chunks_b3_3_3", C_CHUNKS_B3_3_3, chunks_b3::<3, 3> as fn() -> Out),
    ("chunks_mut_b3_3_3", C_CHUNKS_MUT_B3_3_3, chunks_mut_b3::<3, 3> as fn() -> Out),
    ("chunks_b3_3_4", C_CHUNKS_B3_3_4, chunks_b3::<3, 4> as fn() -> Out),
    ("chunks_mut_b3_3_4", C_CHUNKS_MUT_B3_3_4, chunks_mut_b3::<3, 4> as fn() -> Out),
    ("chunks_b3_3_5", C_CHUNKS_B3_3_5, chunks_b3::<3, 5> as fn() -> Out),
    ("chunks_mut_b3_3_5", C_CHUNKS_MUT_B3_3_5, chunks_mut_b3::<3, 5> as fn() -> Out),
    ("chunks_b3_3_6", C_CHUNKS_B3_3_6, chunks_b3::<3, 6> as fn() -> Out),
    ("chunks_mut_b3_3_6", C_CHUNKS_MUT_B3_3_6, chunks_mut_b3::<3, 6> as fn() -> Out),
    ("chunks_b3_3_7", C_CHUNKS_B3_3_7, chunks_b3::<3, 7> as fn() -> Out),
    ("chunks_mut_b3_3_7", C_CHUNKS_MUT_B3_3_7, chunks_mut_b3::<3, 7> as fn() -> Out),
    ("chunks_b3_3_8", C_CHUNKS_B3_3_8, chunks_b3::<3, 8> as fn() -> Out),
    ("chunks_mut_b3_3_8", C_CHUNKS_MUT_B3_3_8, chunks_mut_b3::<3, 8> as fn() -> Out),
    ("chunks_b3_3_9", C_CHUNKS_B3_3_9, chunks_b3::<3, 9> as fn() -> Out),
    ("chunks_mut_b3_3_9", C_CHUNKS_MUT_B3_3_9, chunks_mut_b3::<3, 9> as fn() -> Out),
    ("chunks_b3_3_10", C_CHUNKS_B3_3_10, chunks_b3::<3, 10> as fn() -> Out),
    ("chunks_mut_b3_3_10", C_CHUNKS_MUT_B3_3_10, chunks_mut_b3::<3, 10> as fn() -> Out),
    ("chunks_b3_3_11", C_CHUNKS_B3_3_11, chunks_b3::<3, 11> as fn() -> Out),
    ("chunks_mut_b3_3_11", C_CHUNKS_MUT_B3_3_11, chunks_mut_b3::<3, 11> as fn() -> Out),
    ("reinterpret_b3_3_0", C_REINTERPRET_B3_3_0, reinterpret_b3::<3, 0> as fn() -> Out),
    ("reinterpret_b3_3_1", C_REINTERPRET_B3_3_1, reinterpret_b3::<3, 1> as fn() -> Out),
    ("reinterpret_b3_3_2", C_REINTERPRET_B3_3_2, reinterpret_b3::<3, 2> as fn() -> Out),
    ("reinterpret_b3_3_3", C_REINTERPRET_B3_3_3, reinterpret_b3::<3, 3> as fn() -> Out),
    ("reinterpret_b3_3_4", C_REINTERPRET_B3_3_4, reinterpret_b3::<3, 4> as fn() -> Out),
    ("reinterpret_b3_3_6", C_REINTERPRET_B3_3_6, reinterpret_b3::<3, 6> as fn() -> Out),
    ("reinterpret_b3_3_11", C_REINTERPRET_B3_3_11, reinterpret_b3::<3, 11> as fn() -> Out),
    ("byvalue_b3_3", C_BYVALUE_B3_3, byvalue_b3::<3> as fn() -> Out),
    ("native_chunks_b3_3_0", C_NATIVE_CHUNKS_B3_3_0, native_chunks_b3::<3, 0> as fn() -> Out),
    ("native_chunks_b3_3_1", C_NATIVE_CHUNKS_B3_3_1, native_chunks_b3::<3, 1> as fn() -> Out),
    ("native_chunks_b3_3_2", C_NATIVE_CHUNKS_B3_3_2, native_chunks_b3::<3, 2> as fn() -> Out),
    ("native_chunks_b3_3_3", C_NATIVE_CHUNKS_B3_3_3, native_chunks_b3::<3, 3> as fn() -> Out),
    ("chunks_b3_7_0", C_CHUNKS_B3_7_0, chunks_b3::<7, 0> as fn() -> Out),
    ("chunks_mut_b3_7_0", C_CHUNKS_MUT_B3_7_0, chunks_mut_b3::<7, 0> as fn() -> Out),
    ("chunks_b3_7_1", C_CHUNKS_B3_7_1, chunks_b3::<7, 1> as fn() -> Out),
    ("chunks_mut_b3_7_1", C_CHUNKS_MUT_B3_7_1, chunks_mut_b3::<7, 1> as fn() -> Out),
    ("chunks_b3_7_2", C_CHUNKS_B3_7_2, chunks_b3::<7, 2> as fn() -> Out),
    ("chunks_mut_b3_7_2", C_CHUNKS_MUT_B3_7_2, chunks_mut_b3::<7, 2> as fn() -> Out),
    ("chunks_b3_7_3", C_CHUNKS_B3_7_3, chunks_b3::<7, 3> as fn() -> Out),
    ("chunks_mut_b3_7_3", C_CHUNKS_MUT_B3_7_3, chunks_mut_b3::<7, 3> as fn() -> Out),
    ("chunks_b3_7_4", C_CHUNKS_B3_7_4, chunks_b3::<7, 4> as fn() -> Out),
    ("chunks_mut_b3_7_4", C_CHUNKS_MUT_B3_7_4, chunks_mut_b3::<7, 4> as fn() -> Out),
    ("chunks_b3_7_5", C_CHUNKS_B3_7_5, chunks_b3::<7, 5> as fn() -> Out),
    ("chunks_mut_b3_7_5", C_CHUNKS_MUT_B3_7_5, chunks_mut_b3::<7, 5> as fn() -> Out),
    ("chunks_b3_7_6", C_CHUNKS_B3_7_6, chunks_b3::<7, 6> as fn() -> Out),
    ("chunks_mut_b3_7_6", C_CHUNKS_MUT_B3_7_6, chunks_mut_b3::<7, 6> as fn() -> Out),
    ("chunks_b3_7_7", C_CHUNKS_B3_7_7, chunks_b3::<7, 7> as fn() -> Out),
    ("chunks_mut_b3_7_7", C_CHUNKS_MUT_B3_7_7, chunks_mut_b3::<7, 7> as fn() -> Out),
    ("chunks_b3_7_8", C_CHUNKS_B3_7_8, chunks_b3::<7, 8> as fn() -> Out),
    ("chunks_mut_b3_7_8", C_CHUNKS_MUT_B3_7_8, chunks_mut_b3::<7, 8> as fn() -> Out),
    ("chunks_b3_7_9", C_CHUNKS_B3_7_9, chunks_b3::<7, 9> as fn() -> Out),
    ("chunks_mut_b3_7_9", C_CHUNKS_MUT_B3_7_9, chunks_mut_b3::<7, 9> as fn() -> Out),
    ("chunks_b3_7_10", C_CHUNKS_B3_7_10, chunks_b3::<7, 10> as fn() -> Out),
    ("chunks_mut_b3_7_10", C_CHUNKS_MUT_B3_7_10, chunks_mut_b3::<7, 10> as fn() -> Out),
    ("chunks_b3_7_11", C_CHUNKS_B3_7_11, chunks_b3::<7, 11> as fn() -> Out),
    ("chunks_mut_b3_7_11", C_CHUNKS_MUT_B3_7_11, chunks_mut_b3::<7, 11> as fn() -> Out),
    ("chunks_b3_7_12", C_CHUNKS_B3_7_12, chunks_b3::<7, 12> as fn() -> Out),
    ("chunks_mut_b3_7_12", C_CHUNKS_MUT_B3_7_12, chunks_mut_b3::<7, 12> as fn() -> Out),
    ("chunks_b3_7_13", C_CHUNKS_B3_7_13, chunks_b3::<7, 13> as fn() -> Out),
    ("chunks_mut_b3_7_13", C_CHUNKS_MUT_B3_7_13, chunks_mut_b3::<7, 13> as fn() -> Out),
    ("chunks_b3_7_14", C_CHUNKS_B3_7_14, chunks_b3::<7, 14> as fn() -> Out),
    ("chunks_mut_b3_7_14", C_CHUNKS_MUT_B3_7_14, chunks_mut_b3::<7, 14> as fn() -> Out),
    ("chunks_b3_7_15", C_CHUNKS_B3_7_15, chunks_b3::<7, 15> as fn() -> Out),
    ("chunks_mut_b3_7_15", C_CHUNKS_MUT_B3_7_15, chunks_mut_b3::<7, 15> as fn() -> Out),
    ("chunks_b3_7_16", C_CHUNKS_B3_7_16, chunks_b3::<7, 16> as fn() -> Out),
    ("chunks_mut_b3_7_16", C_CHUNKS_MUT_B3_7_16, chunks_mut_b3::<7, 16> as fn() -> Out),
    ("chunks_b3_7_17", C_CHUNKS_B3_7_17, chunks_b3::<7, 17> as fn() -> Out),
    ("chunks_mut_b3_7_17", C_CHUNKS_MUT_B3_7_17, chunks_mut_b3::<7, 17> as fn() -> Out),
    ("chunks_b3_7_18", C_CHUNKS_B3_7_18, chunks_b3::<7, 18> as fn() -> Out),
    ("chunks_mut_b3_7_18", C_CHUNKS_MUT_B3_7_18, chunks_mut_b3::<7, 18> as fn() -> Out),
    ("chunks_b3_7_19", C_CHUNKS_B3_7_19, chunks_b3::<7, 19> as fn() -> Out),
    ("chunks_mut_b3_7_19", C_CHUNKS_MUT_B3_7_19, chunks_mut_b3::<7, 19> as fn() -> Out),
    ("chunks_b3_7_20", C_CHUNKS_B3_7_20, chunks_b3::<7, 20> as fn() -> Out),
    ("chunks_mut_b3_7_20", C_CHUNKS_MUT_B3_7_20, chunks_mut_b3::<7, 20> as fn() -> Out),
    ("chunks_b3_7_21", C_CHUNKS_B3_7_21, chunks_b3::<7, 21> as fn() -> Out),
    ("chunks_mut_b3_7_21", C_CHUNKS_MUT_B3_7_21, chunks_mut_b3::<7, 21> as fn() -> Out),
    ("chunks_b3_7_22", C_CHUNKS_B3_7_22, chunks_b3::<7, 22> as fn() -> Out),
    ("chunks_mut_b3_7_22", C_CHUNKS_MUT_B3_7_22, chunks_mut_b3::<7, 22> as fn() -> Out),
    ("chunks_b3_7_23", C_CHUNKS_B3_7_23, chunks_b3::<7, 23> as fn() -> Out),
    ("chunks_mut_b3_7_23", C_CHUNKS_MUT_B3_7_23, chunks_mut_b3::<7, 23> as fn() -> Out),
    ("reinterpret_b3_7_0", C_REINTERPRET_B3_7_0, reinterpret_b3::<7, 0> as fn() -> Out),
    ("reinterpret_b3_7_1", C_REINTERPRET_B3_7_1, reinterpret_b3::<7, 1> as fn() -> Out),
    ("reinterpret_b3_7_6", C_REINTERPRET_B3_7_6, reinterpret_b3::<7, 6> as fn() -> Out),
    ("reinterpret_b3_7_7", C_REINTERPRET_B3_7_7, reinterpret_b3::<7, 7> as fn() -> Out),
    ("reinterpret_b3_7_8", C_REINTERPRET_B3_7_8, reinterpret_b3::<7, 8> as fn() -> Out),
    ("reinterpret_b3_7_14", C_REINTERPRET_B3_7_14, reinterpret_b3::<7, 14> as fn() -> Out),
    ("reinterpret_b3_7_23", C_REINTERPRET_B3_7_23, reinterpret_b3::<7, 23> as fn() -> Out),
    ("byvalue_b3_7", C_BYVALUE_B3_7, byvalue_b3::<7> as fn() -> Out),
    ("native_chunks_b3_7_0", C_NATIVE_CHUNKS_B3_7_0, native_chunks_b3::<7, 0> as fn() -> Out),
    ("native_chunks_b3_7_1", C_NATIVE_CHUNKS_B3_7_1, native_chunks_b3::<7, 1> as fn() -> Out),
    ("native_chunks_b3_7_2", C_NATIVE_CHUNKS_B3_7_2, native_chunks_b3::<7, 2> as fn() -> Out),
    ("native_chunks_b3_7_3", C_NATIVE_CHUNKS_B3_7_3, native_chunks_b3::<7, 3> as fn() -> Out),
    ("chunks_b3_8_0", C_CHUNKS_B3_8_0, chunks_b3::<8, 0> as fn() -> Out),
    ("chunks_mut_b3_8_0", C_CHUNKS_MUT_B3_8_0, chunks_mut_b3::<8, 0> as fn() -> Out),
    ("chunks_b3_8_1", C_CHUNKS_B3_8_1, chunks_b3::<8, 1> as fn() -> Out),
    ("chunks_mut_b3_8_1", C_CHUNKS_MUT_B3_8_1, chunks_mut_b3::<8, 1> as fn() -> Out),
    ("chunks_b3_8_2", C_CHUNKS_B3_8_2, chunks_b3::<8, 2> as fn() -> Out),
    ("chunks_mut_b3_8_2", C_CHUNKS_MUT_B3_8_2, chunks_mut_b3::<8, 2> as fn() -> Out),
    ("chunks_b3_8_3", C_CHUNKS_B3_8_3, chunks_b3::<8, 3> as fn() -> Out),
    ("chunks_mut_b3_8_3", C_CHUNKS_MUT_B3_8_3, chunks_mut_b3::<8, 3> as fn() -> Out),
    ("chunks_b3_8_4", C_CHUNKS_B3_8_4, chunks_b3::<8, 4> as fn() -> Out),
    ("chunks_mut_b3_8_4", C_CHUNKS_MUT_B3_8_4, chunks_mut_b3::<8, 4> as fn() -> Out),
    ("chunks_b3_8_5", C_CHUNKS_B3_8_5, chunks_b3::<8, 5> as fn() -> Out),
    ("chunks_mut_b3_8_5", C_CHUNKS_MUT_B3_8_5, chunks_mut_b3::<8, 5> as fn() -> Out),
    ("chunks_b3_8_6", C_CHUNKS_B3_8_6, chunks_b3::<8, 6> as fn() -> Out),
    ("chunks_mut_b3_8_6", C_CHUNKS_MUT_B3_8_6, chunks_mut_b3::<8, 6> as fn() -> Out),
    ("chunks_b3_8_7", C_CHUNKS_B3_8_7, chunks_b3::<8, 7> as fn() -> Out),
    ("chunks_mut_b3_8_7", C_CHUNKS_MUT_B3_8_7, chunks_mut_b3::<8, 7> as fn() -> Out),
    ("chunks_b3_8_8", C_CHUNKS_B3_8_8, chunks_b3::<8, 8> as fn() -> Out),
    ("chunks_mut_b3_8_8", C_CHUNKS_MUT_B3_8_8, chunks_mut_b3::<8, 8> as fn() -> Out),
    ("chunks_b3_8_9", C_CHUNKS_B3_8_9, chunks_b3::<8, 9> as fn() -> Out),
    ("chunks_mut_b3_8_9", C_CHUNKS_MUT_B3_8_9, chunks_mut_b3::<8, 9> as fn() -> Out),
    ("chunks_b3_8_10", C_CHUNKS_B3_8_10, chunks_b3::<8, 10> as fn() -> Out),
    ("chunks_mut_b3_8_10", C_CHUNKS_MUT_B3_8_10, chunks_mut_b3::<8, 10> as fn() -> Out),
    ("chunks_b3_8_11", C_CHUNKS_B3_8_11, chunks_b3::<8, 11> as fn() -> Out),
    ("chunks_mut_b3_8_11", C_CHUNKS_MUT_B3_8_11, chunks_mut_b3::<8, 11> as fn() -> Out),
    ("chunks_b3_8_12", C_CHUNKS_B3_8_12, chunks_b3::<8, 12> as fn() -> Out),
    ("chunks_mut_b3_8_12", C_CHUNKS_MUT_B3_8_12, chunks_mut_b3::<8, 12> as fn() -> Out),
    ("chunks_b3_8_13", C_CHUNKS_B3_8_13, chunks_b3::<8, 13> as fn() -> Out),
    ("chunks_mut_b3_8_13", C_CHUNKS_MUT_B3_8_13, chunks_mut_b3::<8, 13> as fn() -> Out),
    ("chunks_b3_8_14", C_CHUNKS_B3_8_14, chunks_b3::<8, 14> as fn() -> Out),
    ("chunks_mut_b3_8_14", C_CHUNKS_MUT_B3_8_14, chunks_mut_b3::<8, 14> as fn() -> Out),
    ("chunks_b3_8_15", C_CHUNKS_B3_8_15, chunks_b3::<8, 15> as fn() -> Out),
    ("chunks_mut_b3_8_15", C_CHUNKS_MUT_B3_8_15, chunks_mut_b3::<8, 15> as fn() -> Out),
    ("chunks_b3_8_16", C_CHUNKS_B3_8_16, chunks_b3::<8, 16> as fn() -> Out),
    ("chunks_mut_b3_8_16", C_CHUNKS_MUT_B3_8_16, chunks_mut_b3::<8, 16> as fn() -> Out),
    ("chunks_b3_8_17", C_CHUNKS_B3_8_17, chunks_b3::<8, 17> as fn() -> Out),
    ("chunks_mut_b3_8_17", C_CHUNKS_MUT_B3_8_17, chunks_mut_b3::<8, 17> as fn() -> Out),
    ("chunks_b3_8_18", C_CHUNKS_B3_8_18, chunks_b3::<8, 18> as fn() -> Out),
    ("chunks_mut_b3_8_18", C_CHUNKS_MUT_B3_8_18, chunks_mut_b3::<8, 18> as fn() -> Out),
    ("chunks_b3_8_19", C_CHUNKS_B3_8_19, chunks_b3::<8, 19> as fn() -> Out),
    ("chunks_mut_b3_8_19", C_CHUNKS_MUT_B3_8_19, chunks_mut_b3::<8, 19> as fn() -> Out),
    ("chunks_b3_8_20", C_CHUNKS_B3_8_20, chunks_b3::<8, 20> as fn() -> Out),
    ("chunks_mut_b3_8_20", C_CHUNKS_MUT_B3_8_20, chunks_mut_b3::<8, 20> as fn() -> Out),
    ("chunks_b3_8_21", C_CHUNKS_B3_8_21, chunks_b3::<8, 21> as fn() -> Out),
    ("chunks_mut_b3_8_21", C_CHUNKS_MUT_B3_8_21, chunks_mut_b3::<8, 21> as fn() -> Out),
    ("chunks_b3_8_22", C_CHUNKS_B3_8_22, chunks_b3::<8, 22> as fn() -> Out),
    ("chunks_mut_b3_8_22", C_CHUNKS_MUT_B3_8_22, chunks_mut_b3::<8, 22> as fn() -> Out),
    ("chunks_b3_8_23", C_CHUNKS_B3_8_23, chunks_b3::<8, 23> as fn() -> Out),
    ("chunks_mut_b3_8_23", C_CHUNKS_MUT_B3_8_23, chunks_mut_b3::<8, 23> as fn() -> Out),
    ("chunks_b3_8_24", C_CHUNKS_B3_8_24, chunks_b3::<8, 24> as fn() -> Out),
    ("chunks_mut_b3_8_24", C_CHUNKS_MUT_B3_8_24, chunks_mut_b3::<8, 24> as fn() -> Out),
    ("chunks_b3_8_25", C_CHUNKS_B3_8_25, chunks_b3::<8, 25> as fn() -> Out),
    ("chunks_mut_b3_8_25", C_CHUNKS_MUT_B3_8_25, chunks_mut_b3::<8, 25> as fn() -> Out),
    ("chunks_b3_8_26", C_CHUNKS_B3_8_26, chunks_b3::<8, 26> as fn() -> Out),
    ("chunks_mut_b3_8_26", C_CHUNKS_MUT_B3_8_26, chunks_mut_b3::<8, 26> as fn() -> Out),
    ("reinterpret_b3_8_0", C_REINTERPRET_B3_8_0, reinterpret_b3::<8, 0> as fn() -> Out),
    ("reinterpret_b3_8_1", C_REINTERPRET_B3_8_1, reinterpret_b3::<8, 1> as fn() -> Out),
    ("reinterpret_b3_8_7", C_REINTERPRET_B3_8_7, reinterpret_b3::<8, 7> as fn() -> Out),
    ("reinterpret_b3_8_8", C_REINTERPRET_B3_8_8, reinterpret_b3::<8, 8> as fn() -> Out),
    ("reinterpret_b3_8_9", C_REINTERPRET_B3_8_9, reinterpret_b3::<8, 9> as fn() -> Out),
    ("reinterpret_b3_8_16", C_REINTERPRET_B3_8_16, reinterpret_b3::<8, 16> as fn() -> Out),
    ("reinterpret_b3_8_26", C_REINTERPRET_B3_8_26, reinterpret_b3::<8, 26> as fn() -> Out),
    ("byvalue_b3_8", C_BYVALUE_B3_8, byvalue_b3::<8> as fn() -> Out),
    ("native_chunks_b3_8_0", C_NATIVE_CHUNKS_B3_8_0, native_chunks_b3::<8, 0> as fn() -> Out),
    ("native_chunks_b3_8_1", C_NATIVE_CHUNKS_B3_8_1, native_chunks_b3::<8, 1> as fn() -> Out),
    ("native_chunks_b3_8_2", C_NATIVE_CHUNKS_B3_8_2, native_chunks_b3::<8, 2> as fn() -> Out),
    ("native_chunks_b3_8_3", C_NATIVE_CHUNKS_B3_8_3, native_chunks_b3::<8, 3> as fn() -> Out),
    ("chunks_b3_16_0", C_CHUNKS_B3_16_0, chunks_b3::<16, 0> as fn() -> Out),
    ("chunks_mut_b3_16_0", C_CHUNKS_MUT_B3_16_0, chunks_mut_b3::<16, 0> as fn() -> Out),
    ("chunks_b3_16_1", C_CHUNKS_B3_16_1, chunks_b3::<16, 1> as fn() -> Out),
    ("chunks_mut_b3_16_1", C_CHUNKS_MUT_B3_16_1, chunks_mut_b3::<16, 1> as fn() -> Out),
    ("chunks_b3_16_2", C_CHUNKS_B3_16_2, chunks_b3::<16, 2> as fn() -> Out),
    ("chunks_mut_b3_16_2", C_CHUNKS_MUT_B3_16_2, chunks_mut_b3::<16, 2> as fn() -> Out),
    ("chunks_b3_16_3", C_CHUNKS_B3_16_3, chunks_b3::<16, 3> as fn() -> Out),
    ("chunks_mut_b3_16_3", C_CHUNKS_MUT_B3_16_3, chunks_mut_b3::<16, 3> as fn() -> Out),
    ("chunks_b3_16_4", C_CHUNKS_B3_16_4, chunks_b3::<16, 4> as fn() -> Out),
    ("chunks_mut_b3_16_4", C_CHUNKS_MUT_B3_16_4, chunks_mut_b3::<16, 4> as fn() -> Out),
    ("chunks_b3_16_5", C_CHUNKS_B3_16_5, chunks_b3::<16, 5> as fn() -> Out),
    ("chunks_mut_b3_16_5", C_CHUNKS_MUT_B3_16_5, chunks_mut_b3::<16, 5> as fn() -> Out),
    ("chunks_b3_16_6", C_CHUNKS_B3_16_6, chunks_b3::<16, 6> as fn() -> Out),
    ("chunks_mut_b3_16_6", C_CHUNKS_MUT_B3_16_6, chunks_mut_b3::<16, 6> as fn() -> Out),
    ("chunks_b3_16_7", C_CHUNKS_B3_16_7, chunks_b3::<16, 7> as fn() -> Out),
    ("chunks_mut_b3_16_7", C_CHUNKS_MUT_B3_16_7, chunks_mut_b3::<16, 7> as fn() -> Out),
    ("chunks_b3_16_8", C_CHUNKS_B3_16_8, chunks_b3::<16, 8> as fn() -> Out),
    ("chunks_mut_b3_16_8", C_CHUNKS_MUT_B3_16_8, chunks_mut_b3::<16, 8> as fn() -> Out),
    ("chunks_b3_16_9", C_CHUNKS_B3_16_9, chunks_b3::<16, 9> as fn() -> Out),
    ("chunks_mut_b3_16_9", C_CHUNKS_MUT_B3_16_9, chunks_mut_b3::<16, 9> as fn() -> Out),
    ("chunks_b3_16_10", C_CHUNKS_B3_16_10, chunks_b3::<16, 10> as fn() -> Out),
    ("chunks_mut_b3_16_10", C_CHUNKS_MUT_B3_16_10, chunks_mut_b3::<16, 10> as fn() -> Out),
    ("chunks_b3_16_11", C_CHUNKS_B3_16_11, chunks_b3::<16, 11> as fn() -> Out),
    ("chunks_mut_b3_16_11", C_CHUNKS_MUT_B3_16_11, chunks_mut_b3::<16, 11> as fn() -> Out),
    ("chunks_b3_16_12", C_CHUNKS_B3_16_12, chunks_b3::<16, 12> as fn() -> Out),
    ("chunks_mut_b3_16_12", C_CHUNKS_MUT_B3_16_12, chunks_mut_b3::<16, 12> as fn() -> Out),
    ("chunks_b3_16_13", C_CHUNKS_B3_16_13, chunks_b3::<16, 13> as fn() -> Out),
    ("chunks_mut_b3_16_13", C_CHUNKS_MUT_B3_16_13, chunks_mut_b3::<16, 13> as fn() -> Out),
    ("chunks_b3_16_14", C_CHUNKS_B3_16_14, chunks_b3::<16, 14> as fn() -> Out),
    ("chunks_mut_b3_16_14", C_CHUNKS_MUT_B3_16_14, chunks_mut_b3::<16, 14> as fn() -> Out),
    ("chunks_b3_16_15", C_CHUNKS_B3_16_15, chunks_b3::<16, 15> as fn() -> Out),
    ("chunks_mut_b3_16_15", C_CHUNKS_MUT_B3_16_15, chunks_mut_b3::<16, 15> as fn() -> Out),
    ("chunks_b3_16_16", C_CHUNKS_B3_16_16, chunks_b3::<16, 16> as fn() -> Out),
    ("chunks_mut_b3_16_16", C_CHUNKS_MUT_B3_16_16, chunks_mut_b3::<16, 16> as fn() -> Out),
    ("chunks_b3_16_17", C_CHUNKS_B3_16_17, chunks_b3::<16, 17> as fn() -> Out),
    ("chunks_mut_b3_16_17", C_CHUNKS_MUT_B3_16_17, chunks_mut_b3::<16, 17> as fn() -> Out),
    ("chunks_b3_16_18", C_CHUNKS_B3_16_18, chunks_b3::<16, 18> as fn() -> Out),
    ("chunks_mut_b3_16_18", C_CHUNKS_MUT_B3_16_18, chunks_mut_b3::<16, 18> as fn() -> Out),
    ("chunks_b3_16_19", C_CHUNKS_B3_16_19, chunks_b3::<16, 19> as fn() -> Out),
    ("chunks_mut_b3_16_19", C_CHUNKS_MUT_B3_16_19, chunks_mut_b3::<16, 19> as fn() -> Out),
    ("chunks_b3_16_20", C_CHUNKS_B3_16_20, chunks_b3::<16, 20> as fn() -> Out),
    ("chunks_mut_b3_16_20", C_CHUNKS_MUT_B3_16_20, chunks_mut_b3::<16, 20> as fn() -> Out),
    ("chunks_b3_16_21", C_CHUNKS_B3_16_21, chunks_b3::<16, 21> as fn() -> Out),
    ("chunks_mut_b3_16_21", C_CHUNKS_MUT_B3_16_21, chunks_mut_b3::<16, 21> as fn() -> Out),
    ("chunks_b3_16_22", C_CHUNKS_B3_16_22, chunks_b3::<16, 22> as fn() -> Out),
    ("chunks_mut_b3_16_22", C_CHUNKS_MUT_B3_16_22, chunks_mut_b3::<16, 22> as fn() -> Out),
    ("chunks_b3_16_23", C_CHUNKS_B3_16_23, chunks_b3::<16, 23> as fn() -> Out),
    ("chunks_mut_b3_16_23", C_CHUNKS_MUT_B3_16_23, chunks_mut_b3::<16, 23> as fn() -> Out),
    ("chunks_b3_16_24", C_CHUNKS_B3_16_24, chunks_b3::<16, 24> as fn() -> Out),
    ("chunks_mut_b3_16_24", C_CHUNKS_MUT_B3_16_24, chunks_mut_b3::<16, 24> as fn() -> Out),
    ("chunks_b3_16_25", C_CHUNKS_B3_16_25, chunks_b3::<16, 25> as fn() -> Out),
    ("chunks_mut_b3_16_25", C_CHUNKS_MUT_B3_16_25, chunks_mut_b3::<16, 25> as fn() -> Out),
    ("chunks_b3_16_26", C_CHUNKS_B3_16_26, chunks_b3::<16, 26> as fn() -> Out),
    ("chunks_mut_b3_16_26", C_CHUNKS_MUT_B3_16_26, chunks_mut_b3::<16, 26> as fn() -> Out),
    ("chunks_b3_16_27", C_CHUNKS_B3_16_27, chunks_b3::<16, 27> as fn() -> Out),
    ("chunks_mut_b3_16_27", C_CHUNKS_MUT_B3_16_27, chunks_mut_b3::<16, 27> as fn() -> Out),
    ("chunks_b3_16_28", C_CHUNKS_B3_16_28, chunks_b3::<16, 28> as fn() -> Out),
    ("chunks_mut_b3_16_28", C_CHUNKS_MUT_B3_16_28, chunks_mut_b3::<16, 28> as fn() -> Out),
    ("chunks_b3_16_29", C_CHUNKS_B3_16_29, chunks_b3::<16, 29> as fn() -> Out),
    ("chunks_mut_b3_16_29", C_CHUNKS_MUT_B3_16_29, chunks_mut_b3::<16, 29> as fn() -> Out),
    ("chunks_b3_16_30", C_CHUNKS_B3_16_30, chunks_b3::<16, 30> as fn() -> Out),
    ("chunks_mut_b3_16_30", C_CHUNKS_MUT_B3_16_30, chunks_mut_b3::<16, 30> as fn() -> Out),
    ("chunks_b3_16_31", C_CHUNKS_B3_16_31, chunks_b3::<16, 31> as fn() -> Out),
    ("chunks_mut_b3_16_31", C_CHUNKS_MUT_B3_16_31, chunks_mut_b3::<16, 31> as fn() -> Out),
    ("chunks_b3_16_32", C_CHUNKS_B3_16_32, chunks_b3::<16, 32> as fn() -> Out),
    ("chunks_mut_b3_16_32", C_CHUNKS_MUT_B3_16_32, chunks_mut_b3::<16, 32> as fn() -> Out),
    ("chunks_b3_16_33", C_CHUNKS_B3_16_33, chunks_b3::<16, 33> as fn() -> Out),
    ("chunks_mut_b3_16_33", C_CHUNKS_MUT_B3_16_33, chunks_mut_b3::<16, 33> as fn() -> Out),
    ("chunks_b3_16_34", C_CHUNKS_B3_16_34, chunks_b3::<16, 34> as fn() -> Out),
    ("chunks_mut_b3_16_34", C_CHUNKS_MUT_B3_16_34, chunks_mut_b3::<16, 34> as fn() -> Out),
    ("chunks_b3_16_35", C_CHUNKS_B3_16_35, chunks_b3::<16, 35> as fn() -> Out),
    ("chunks_mut_b3_16_35", C_CHUNKS_MUT_B3_16_35, chunks_mut_b3::<16, 35> as fn() -> Out),
    ("chunks_b3_16_36", C_CHUNKS_B3_16_36, chunks_b3::<16, 36> as fn() -> Out),
    ("chunks_mut_b3_16_36", C_CHUNKS_MUT_B3_16_36, chunks_mut_b3::<16, 36> as fn() -> Out),
    ("chunks_b3_16_37", C_CHUNKS_B3_16_37, chunks_b3::<16, 37> as fn() -> Out),
    ("chunks_mut_b3_16_37", C_CHUNKS_MUT_B3_16_37, chunks_mut_b3::<16, 37> as fn() -> Out),
    ("chunks_b3_16_38", C_CHUNKS_B3_16_38, chunks_b3::<16, 38> as fn() -> Out),
    ("chunks_mut_b3_16_38", C_CHUNKS_MUT_B3_16_38, chunks_mut_b3::<16, 38> as fn() -> Out),
    ("chunks_b3_16_39", C_CHUNKS_B3_16_39, chunks_b3::<16, 39> as fn() -> Out),
    ("chunks_mut_b3_16_39", C_CHUNKS_MUT_B3_16_39, chunks_mut_b3::<16, 39> as fn() -> Out),
    ("chunks_b3_16_40", C_CHUNKS_B3_16_40, chunks_b3::<16, 40> as fn() -> Out),
    ("chunks_mut_b3_16_40", C_CHUNKS_MUT_B3_16_40, chunks_mut_b3::<16, 40> as fn() -> Out),
    ("chunks_b3_16_41", C_CHUNKS_B3_16_41, chunks_b3::<16, 41> as fn() -> Out),
    ("chunks_mut_b3_16_41", C_CHUNKS_MUT_B3_16_41, chunks_mut_b3::<16, 41> as fn() -> Out),
    ("chunks_b3_16_42", C_CHUNKS_B3_16_42, chunks_b3::<16, 42> as fn() -> Out),
    ("chunks_mut_b3_16_42", C_CHUNKS_MUT_B3_16_42, chunks_mut_b3::<16, 42> as fn() -> Out),
    ("chunks_b3_16_43", C_CHUNKS_B3_16_43, chunks_b3::<16, 43> as fn() -> Out),
    ("chunks_mut_b3_16_43", C_CHUNKS_MUT_B3_16_43, chunks_mut_b3::<16, 43> as fn() -> Out),
    ("chunks_b3_16_44", C_CHUNKS_B3_16_44, chunks_b3::<16, 44> as fn() -> Out),
    ("chunks_mut_b3_16_44", C_CHUNKS_MUT_B3_16_44, chunks_mut_b3::<16, 44> as fn() -> Out),
    ("chunks_b3_16_45", C_CHUNKS_B3_16_45, chunks_b3::<16, 45> as fn() -> Out),
    ("chunks_mut_b3_16_45", C_CHUNKS_MUT_B3_16_45, chunks_mut_b3::<16, 45> as fn() -> Out),
    ("chunks_b3_16_46", C_CHUNKS_B3_16_46, chunks_b3::<16, 46> as fn() -> Out),
    ("chunks_mut_b3_16_46", C_CHUNKS_MUT_B3_16_46, chunks_mut_b3::<16, 46> as fn() -> Out),
    ("chunks_b3_16_47", C_CHUNKS_B3_16_47, chunks_b3::<16, 47> as fn() -> Out),
    ("chunks_mut_b3_16_47", C_CHUNKS_MUT_B3_16_47, chunks_mut_b3::<16, 47> as fn() -> Out),
    ("chunks_b3_16_48", C_CHUNKS_B3_16_48, chunks_b3::<16, 48> as fn() -> Out),
    ("chunks_mut_b3_16_48", C_CHUNKS_MUT_B3_16_48, chunks_mut_b3::<16, 48> as fn() -> Out),
    ("chunks_b3_16_49", C_CHUNKS_B3_16_49, chunks_b3::<16, 49> as fn() -> Out),
    ("chunks_mut_b3_16_49", C_CHUNKS_MUT_B3_16_49, chunks_mut_b3::<16, 49> as fn() -> Out),
    ("chunks_b3_16_50", C_CHUNKS_B3_16_50, chunks_b3::<16, 50> as fn() -> Out),
    ("chunks_mut_b3_16_50", C_CHUNKS_MUT_B3_16_50, chunks_mut_b3::<16, 50> as fn() -> Out),
    ("reinterpret_b3_16_0", C_REINTERPRET_B3_16_0, reinterpret_b3::<16, 0> as fn() -> Out),
    ("reinterpret_b3_16_1", C_REINTERPRET_B3_16_1, reinterpret_b3::<16, 1> as fn() -> Out),
    ("reinterpret_b3_16_15", C_REINTERPRET_B3_16_15, reinterpret_b3::<16, 15> as fn() -> Out),
    ("reinterpret_b3_16_16", C_REINTERPRET_B3_16_16, reinterpret_b3::<16, 16> as fn() -> Out),
    ("reinterpret_b3_16_17", C_REINTERPRET_B3_16_17, reinterpret_b3::<16, 17> as fn() -> Out),
    ("reinterpret_b3_16_32", C_REINTERPRET_B3_16_32, reinterpret_b3::<16, 32> as fn() -> Out),
    ("reinterpret_b3_16_50", C_REINTERPRET_B3_16_50, reinterpret_b3::<16, 50> as fn() -> Out),
    ("byvalue_b3_16", C_BYVALUE_B3_16, byvalue_b3::<16> as fn() -> Out),
    ("native_chunks_b3_16_0", C_NATIVE_CHUNKS_B3_16_0, native_chunks_b3::<16, 0> as fn() -> Out),
    ("native_chunks_b3_16_1", C_NATIVE_CHUNKS_B3_16_1, native_chunks_b3::<16, 1> as fn() -> Out),
    ("native_chunks_b3_16_2", C_NATIVE_CHUNKS_B3_16_2, native_chunks_b3::<16, 2> as fn() -> Out),
    ("native_chunks_b3_16_3", C_NATIVE_CHUNKS_B3_16_3, native_chunks_b3::<16, 3> as fn() -> Out),
    ("chunks_b3_17_0", C_CHUNKS_B3_17_0, chunks_b3::<17, 0> as fn() -> Out),
    ("chunks_mut_b3_17_0", C_CHUNKS_MUT_B3_17_0, chunks_mut_b3::<17, 0> as fn() -> Out),
    ("chunks_b3_17_1", C_CHUNKS_B3_17_1, chunks_b3::<17, 1> as fn() -> Out),
    ("chunks_mut_b3_17_1", C_CHUNKS_MUT_B3_17_1, chunks_mut_b3::<17, 1> as fn() -> Out),
    ("chunks_b3_17_2", C_CHUNKS_B3_17_2, chunks_b3::<17, 2> as fn() -> Out),
    ("chunks_mut_b3_17_2", C_CHUNKS_MUT_B3_17_2, chunks_mut_b3::<17, 2> as fn() -> Out),
    ("chunks_b3_17_3", C_CHUNKS_B3_17_3, chunks_b3::<17, 3> as fn() -> Out),
    ("chunks_mut_b3_17_3", C_CHUNKS_MUT_B3_17_3, chunks_mut_b3::<17, 3> as fn() -> Out),
    ("chunks_b3_17_4", C_CHUNKS_B3_17_4, chunks_b3::<17, 4> as fn() -> Out),
    ("chunks_mut_b3_17_4", C_CHUNKS_MUT_B3_17_4, chunks_mut_b3::<17, 4> as fn() -> Out),
    ("chunks_b3_17_5", C_CHUNKS_B3_17_5, chunks_b3::<17, 5> as fn() -> Out),
    ("chunks_mut_b3_17_5", C_CHUNKS_MUT_B3_17_5, chunks_mut_b3::<17, 5> as fn() -> Out),
    ("chunks_b3_17_6", C_CHUNKS_B3_17_6, chunks_b3::<17, 6> as fn() -> Out),
    ("chunks_mut_b3_17_6", C_CHUNKS_MUT_B3_17_6, chunks_mut_b3::<17, 6> as fn() -> Out),
    ("chunks_b3_17_7", C_CHUNKS_B3_17_7, chunks_b3::<17, 7> as fn() -> Out),
    ("chunks_mut_b3_17_7", C_CHUNKS_MUT_B3_17_7, chunks_mut_b3::<17, 7> as fn() -> Out),
    ("chunks_b3_17_8", C_CHUNKS_B3_17_8, chunks_b3::<17, 8> as fn() -> Out),
    ("chunks_mut_b3_17_8", C_CHUNKS_MUT_B3_17_8, chunks_mut_b3::<17, 8> as fn() -> Out),
    ("chunks_b3_17_9", C_CHUNKS_B3_17_9, chunks_b3::<17, 9> as fn() -> Out),
    ("chunks_mut_b3_17_9", C_CHUNKS_MUT_B3_17_9, chunks_mut_b3::<17, 9> as fn() -> Out),
    ("chunks_b3_17_10", C_CHUNKS_B3_17_10, chunks_b3::<17, 10> as fn() -> Out),
    ("chunks_mut_b3_17_10", C_CHUNKS_MUT_B3_17_10, chunks_mut_b3::<17, 10> as fn() -> Out),
    ("chunks_b3_17_11", C_CHUNKS_B3_17_11, chunks_b3::<17, 11> as fn() -> Out),
    ("chunks_mut_b3_17_11", C_CHUNKS_MUT_B3_17_11, chunks_mut_b3::<17, 11> as fn() -> Out),
    ("chunks_b3_17_12", C_CHUNKS_B3_17_12, chunks_b3::<17, 12> as fn() -> Out),
    ("chunks_mut_b3_17_12", C_CHUNKS_MUT_B3_17_12, chunks_mut_b3::<17, 12> as fn() -> Out),
    ("chunks_b3_17_13", C_CHUNKS_B3_17_13, chunks_b3::<17, 13> as fn() -> Out),
    ("chunks_mut_b3_17_13", C_CHUNKS_MUT_B3_17_13, chunks_mut_b3::<17, 13> as fn() -> Out),
    ("chunks_b3_17_14", C_CHUNKS_B3_17_14, chunks_b3::<17, 14> as fn() -> Out),
    ("chunks_mut_b3_17_14", C_CHUNKS_MUT_B3_17_14, chunks_mut_b3::<17, 14> as fn() -> Out),
    ("chunks_b3_17_15", C_CHUNKS_B3_17_15, chunks_b3::<17, 15> as fn() -> Out),
    ("chunks_mut_b3_17_15", C_CHUNKS_MUT_B3_17_15, chunks_mut_b3::<17, 15> as fn() -> Out),
    ("chunks_b3_17_16", C_CHUNKS_B3_17_16, chunks_b3::<17, 16> as fn() -> Out),
    ("chunks_mut_b3_17_16", C_CHUNKS_MUT_B3_17_16, chunks_mut_b3::<17, 16> as fn() -> Out),
    ("chunks_b3_17_17", C_CHUNKS_B3_17_17, chunks_b3::<17, 17> as fn() -> Out),
    ("chunks_mut_b3_17_17", C_CHUNKS_MUT_B3_17_17, chunks_mut_b3::<17, 17> as fn() -> Out),
    ("chunks_b3_17_18", C_CHUNKS_B3_17_18, chunks_b3::<17, 18> as fn() -> Out),
    ("chunks_mut_b3_17_18", C_CHUNKS_MUT_B3_17_18, chunks_mut_b3::<17, 18> as fn() -> Out),
    ("chunks_b3_17_19", C_CHUNKS_B3_17_19, chunks_b3::<17, 19> as fn() -> Out),
    ("chunks_mut_b3_17_19", C_CHUNKS_MUT_B3_17_19, chunks_mut_b3::<17, 19> as fn() -> Out),
    ("chunks_b3_17_20", C_CHUNKS_B3_17_20, chunks_b3::<17, 20> as fn() -> Out),
    ("chunks_mut_b3_17_20", C_CHUNKS_MUT_B3_17_20, chunks_mut_b3::<17, 20> as fn() -> Out),
    ("chunks_b3_17_21", C_CHUNKS_B3_17_21, chunks_b3::<17, 21> as fn() -> Out),
    ("chunks_mut_b3_17_21", C_CHUNKS_MUT_B3_17_21, chunks_mut_b3::<17, 21> as fn() -> Out),
    ("chunks_b3_17_22", C_CHUNKS_B3_17_22, chunks_b3::<17, 22> as fn() -> Out),
    ("chunks_mut_b3_17_22", C_CHUNKS_MUT_B3_17_22, chunks_mut_b3::<17, 22> as fn() -> Out),
    ("chunks_b3_17_23", C_CHUNKS_B3_17_23, chunks_b3::<17, 23> as fn() -> Out),
    ("chunks_mut_b3_17_23", C_CHUNKS_MUT_B3_17_23, chunks_mut_b3::<17, 23> as fn() -> Out),
    ("chunks_b3_17_24", C_CHUNKS_B3_17_24, chunks_b3::<17, 24> as fn() -> Out),
    ("chunks_mut_b3_17_24", C_CHUNKS_MUT_B3_17_24, chunks_mut_b3::<17, 24> as fn() -> Out),
    ("chunks_b3_17_25", C_CHUNKS_B3_17_25, chunks_b3::<17, 25> as fn() -> Out),
    ("chunks_mut_b3_17_25", C_CHUNKS_MUT_B3_17_25, chunks_mut_b3::<17, 25> as fn() -> Out),
    ("chunks_b3_17_26", C_CHUNKS_B3_17_26, chunks_b3::<17, 26> as fn() -> Out),
    ("chunks_mut_b3_17_26", C_CHUNKS_MUT_B3_17_26, chunks_mut_b3::<17, 26> as fn() -> Out),
    ("chunks_b3_17_27", C_CHUNKS_B3_17_27, chunks_b3::<17, 27> as fn() -> Out),
    ("chunks_mut_b3_17_27", C_CHUNKS_MUT_B3_17_27, chunks_mut_b3::<17, 27> as fn() -> Out),
    ("chunks_b3_17_28", C_CHUNKS_B3_17_28, chunks_b3::<17, 28> as fn() -> Out),
    ("chunks_mut_b3_17_28", C_CHUNKS_MUT_B3_17_28, chunks_mut_b3::<17, 28> as fn() -> Out),
    ("chunks_b3_17_29", C_CHUNKS_B3_17_29, chunks_b3::<17, 29> as fn() -> Out),
    ("chunks_mut_b3_17_29", C_CHUNKS_MUT_B3_17_29, chunks_mut_b3::<17, 29> as fn() -> Out),
    ("chunks_b3_17_30", C_CHUNKS_B3_17_30, chunks_b3::<17, 30> as fn() -> Out),
    ("chunks_mut_b3_17_30", C_CHUNKS_MUT_B3_17_30, chunks_mut_b3::<17, 30> as fn() -> Out),
    ("chunks_b3_17_31", C_CHUNKS_B3_17_31, chunks_b3::<17, 31> as fn() -> Out),
    ("chunks_mut_b3_17_31", C_CHUNKS_MUT_B3_17_31, chunks_mut_b3::<17, 31> as fn() -> Out),
    ("chunks_b3_17_32", C_CHUNKS_B3_17_32, chunks_b3::<17, 32> as fn() -> Out),
    ("chunks_mut_b3_17_32", C_CHUNKS_MUT_B3_17_32, chunks_mut_b3::<17, 32> as fn() -> Out),
    ("chunks_b3_17_33", C_CHUNKS_B3_17_33, chunks_b3::<17, 33> as fn() -> Out),
    ("chunks_mut_b3_17_33", C_CHUNKS_MUT_B3_17_33, chunks_mut_b3::<17, 33> as fn() -> Out),
    ("chunks_b3_17_34", C_CHUNKS_B3_17_34, chunks_b3::<17, 34> as fn() -> Out),
    ("chunks_mut_b3_17_34", C_CHUNKS_MUT_B3_17_34, chunks_mut_b3::<17, 34> as fn() -> Out),
    ("chunks_b3_17_35", C_CHUNKS_B3_17_35, chunks_b3::<17, 35> as fn() -> Out),
    ("chunks_mut_b3_17_35", C_CHUNKS_MUT_B3_17_35, chunks_mut_b3::<17, 35> as fn() -> Out),
    ("chunks_b3_17_36", C_CHUNKS_B3_17_36, chunks_b3::<17, 36> as fn() -> Out),
    ("chunks_mut_b3_17_36", C_CHUNKS_MUT_B3_17_36, chunks_mut_b3::<17, 36> as fn() -> Out),
    ("chunks_b3_17_37", C_CHUNKS_B3_17_37, chunks_b3::<17, 37> as fn() -> Out),
    ("chunks_mut_b3_17_37", C_CHUNKS_MUT_B3_17_37, chunks_mut_b3::<17, 37> as fn() -> Out),
    ("chunks_b3_17_38", C_CHUNKS_B3_17_38, chunks_b3::<17, 38> as fn() -> Out),
    ("chunks_mut_b3_17_38", C_CHUNKS_MUT_B3_17_38, chunks_mut_b3::<17, 38> as fn() -> Out),
    ("chunks_b3_17_39", C_CHUNKS_B3_17_39, chunks_b3::<17, 39> as fn() -> Out),
    ("chunks_mut_b3_17_39", C_CHUNKS_MUT_B3_17_39, chunks_mut_b3::<17, 39> as fn() -> Out),
    ("chunks_b3_17_40", C_CHUNKS_B3_17_40, chunks_b3::<17, 40> as fn() -> Out),
    ("chunks_mut_b3_17_40", C_CHUNKS_MUT_B3_17_40, chunks_mut_b3::<17, 40> as fn() -> Out),
    ("chunks_b3_17_41", C_CHUNKS_B3_17_41, chunks_b3::<17, 41> as fn() -> Out),
    ("chunks_mut_b3_17_41", C_CHUNKS_MUT_B3_17_41, chunks_mut_b3::<17, 41> as fn() -> Out),
    ("chunks_b3_17_42", C_CHUNKS_B3_17_42, chunks_b3::<17, 42> as fn() -> Out),
    ("chunks_mut_b3_17_42", C_CHUNKS_MUT_B3_17_42, chunks_mut_b3::<17, 42> as fn() -> Out),
    ("chunks_b3_17_43", C_CHUNKS_B3_17_43, chunks_b3::<17, 43> as fn() -> Out),
    ("chunks_mut_b3_17_43", C_CHUNKS_MUT_B3_17_43, chunks_mut_b3::<17, 43> as fn() -> Out),
    ("chunks_b3_17_44", C_CHUNKS_B3_17_44, chunks_b3::<17, 44> as fn() -> Out),
    ("chunks_mut_b3_17_44", C_CHUNKS_MUT_B3_17_44, chunks_mut_b3::<17, 44> as fn() -> Out),
    ("chunks_b3_17_45", C_CHUNKS_B3_17_45, chunks_b3::<17, 45> as fn() -> Out),
    ("chunks_mut_b3_17_45", C_CHUNKS_MUT_B3_17_45, chunks_mut_b3::<17, 45> as fn() -> Out),
    ("chunks_b3_17_46", C_CHUNKS_B3_17_46, chunks_b3::<17, 46> as fn() -> Out),
    ("chunks_mut_b3_17_46", C_CHUNKS_MUT_B3_17_46, chunks_mut_b3::<17, 46> as fn() -> Out),
    ("chunks_b3_17_47", C_CHUNKS_B3_17_47, chunks_b3::<17, 47> as fn() -> Out),
    ("chunks_mut_b3_17_47", C_CHUNKS_MUT_B3_17_47, chunks_mut_b3::<17, 47> as fn() -> Out),
    ("chunks_b3_17_48", C_CHUNKS_B3_17_48, chunks_b3::<17, 48> as fn() -> Out),
    ("chunks_mut_b3_17_48", C_CHUNKS_MUT_B3_17_48, chunks_mut_b3::<17, 48> as fn() -> Out),
    ("chunks_b3_17_49", C_CHUNKS_B3_17_49, chunks_b3::<17, 49> as fn() -> Out),
    ("chunks_mut_b3_17_49", C_CHUNKS_MUT_B3_17_49, chunks_mut_b3::<17, 49> as fn() -> Out),
    ("chunks_b3_17_50", C_CHUNKS_B3_17_50, chunks_b3::<17, 50> as fn() -> Out),
    ("chunks_mut_b3_17_50", C_CHUNKS_MUT_B3_17_50, chunks_mut_b3::<17, 50> as fn() -> Out),
    ("chunks_b3_17_51", C_CHUNKS_B3_17_51, chunks_b3::<17, 51> as fn() -> Out),
    ("chunks_mut_b3_17_51", C_CHUNKS_MUT_B3_17_51, chunks_mut_b3::<17, 51> as fn() -> Out),
    ("chunks_b3_17_52", C_CHUNKS_B3_17_52, chunks_b3::<17, 52> as fn() -> Out),
    ("chunks_mut_b3_17_52", C_CHUNKS_MUT_B3_17_52, chunks_mut_b3::<17, 52> as fn() -> Out),
    ("chunks_b3_17_53", C_CHUNKS_B3_17_53, chunks_b3::<17, 53> as fn() -> Out),
    ("chunks_mut_b3_17_53", C_CHUNKS_MUT_B3_17_53, chunks_mut_b3::<17, 53> as fn() -> Out),
    ("reinterpret_b3_17_0", C_REINTERPRET_B3_17_0, reinterpret_b3::<17, 0> as fn() -> Out),
    ("reinterpret_b3_17_1", C_REINTERPRET_B3_17_1, reinterpret_b3::<17, 1> as fn() -> Out),
    ("reinterpret_b3_17_16", C_REINTERPRET_B3_17_16, reinterpret_b3::<17, 16> as fn() -> Out),
    ("reinterpret_b3_17_17", C_REINTERPRET_B3_17_17, reinterpret_b3::<17, 17> as fn() -> Out),
    ("reinterpret_b3_17_18", C_REINTERPRET_B3_17_18, reinterpret_b3::<17, 18> as fn() -> Out),
    ("reinterpret_b3_17_34", C_REINTERPRET_B3_17_34, reinterpret_b3::<17, 34> as fn() -> Out),
    ("reinterpret_b3_17_53", C_REINTERPRET_B3_17_53, reinterpret_b3::<17, 53> as fn() -> Out),
    ("byvalue_b3_17", C_BYVALUE_B3_17, byvalue_b3::<17> as fn() -> Out),
    ("native_chunks_b3_17_0", C_NATIVE_CHUNKS_B3_17_0, native_chunks_b3::<17, 0> as fn() -> Out),
    ("native_chunks_b3_17_1", C_NATIVE_CHUNKS_B3_17_1, native_chunks_b3::<17, 1> as fn() -> Out),
    ("native_chunks_b3_17_2", C_NATIVE_CHUNKS_B3_17_2, native_chunks_b3::<17, 2> as fn() -> Out),
    ("native_chunks_b3_17_3", C_NATIVE_CHUNKS_B3_17_3, native_chunks_b3::<17, 3> as fn() -> Out),
    ("chunks_b3_33_0", C_CHUNKS_B3_33_0, chunks_b3::<33, 0> as fn() -> Out),
    ("chunks_mut_b3_33_0", C_CHUNKS_MUT_B3_33_0, chunks_mut_b3::<33, 0> as fn() -> Out),
    ("chunks_b3_33_1", C_CHUNKS_B3_33_1, chunks_b3::<33, 1> as fn() -> Out),
    ("chunks_mut_b3_33_1", C_CHUNKS_MUT_B3_33_1, chunks_mut_b3::<33, 1> as fn() -> Out),
    ("chunks_b3_33_32", C_CHUNKS_B3_33_32, chunks_b3::<33, 32> as fn() -> Out),
    ("chunks_mut_b3_33_32", C_CHUNKS_MUT_B3_33_32, chunks_mut_b3::<33, 32> as fn() -> Out),
    ("chunks_b3_33_33", C_CHUNKS_B3_33_33, chunks_b3::<33, 33> as fn() -> Out),
    ("chunks_mut_b3_33_33", C_CHUNKS_MUT_B3_33_33, chunks_mut_b3::<33, 33> as fn() -> Out),
    ("chunks_b3_33_34", C_CHUNKS_B3_33_34, chunks_b3::<33, 34> as fn() -> Out),
    ("chunks_mut_b3_33_34", C_CHUNKS_MUT_B3_33_34, chunks_mut_b3::<33, 34> as fn() -> Out),
    ("chunks_b3_33_65", C_CHUNKS_B3_33_65, chunks_b3::<33, 65> as fn() -> Out),
    ("chunks_mut_b3_33_65", C_CHUNKS_MUT_B3_33_65, chunks_mut_b3::<33, 65> as fn() -> Out),
    ("chunks_b3_33_66", C_CHUNKS_B3_33_66, chunks_b3::<33, 66> as fn() -> Out),
    ("chunks_mut_b3_33_66", C_CHUNKS_MUT_B3_33_66, chunks_mut_b3::<33, 66> as fn() -> Out),
    ("chunks_b3_33_67", C_CHUNKS_B3_33_67, chunks_b3::<33, 67> as fn() -> Out),
    ("chunks_mut_b3_33_67", C_CHUNKS_MUT_B3_33_67, chunks_mut_b3::<33, 67> as fn() -> Out),
    ("chunks_b3_33_98", C_CHUNKS_B3_33_98, chunks_b3::<33, 98> as fn() -> Out),
    ("chunks_mut_b3_33_98", C_CHUNKS_MUT_B3_33_98, chunks_mut_b3::<33, 98> as fn() -> Out),
    ("chunks_b3_33_99", C_CHUNKS_B3_33_99, chunks_b3::<33, 99> as fn() -> Out),
    ("chunks_mut_b3_33_99", C_CHUNKS_MUT_B3_33_99, chunks_mut_b3::<33, 99> as fn() -> Out),
    ("chunks_b3_33_100", C_CHUNKS_B3_33_100, chunks_b3::<33, 100> as fn() -> Out),
    ("chunks_mut_b3_33_100", C_CHUNKS_MUT_B3_33_100, chunks_mut_b3::<33, 100> as fn() -> Out),
    ("chunks_b3_33_101", C_CHUNKS_B3_33_101, chunks_b3::<33, 101> as fn() -> Out),
    ("chunks_mut_b3_33_101", C_CHUNKS_MUT_B3_33_101, chunks_mut_b3::<33, 101> as fn() -> Out),
    ("reinterpret_b3_33_0", C_REINTERPRET_B3_33_0, reinterpret_b3::<33, 0> as fn() -> Out),
    ("reinterpret_b3_33_1", C_REINTERPRET_B3_33_1, reinterpret_b3::<33, 1> as fn() -> Out),
    ("reinterpret_b3_33_32", C_REINTERPRET_B3_33_32, reinterpret_b3::<33, 32> as fn() -> Out),
    ("reinterpret_b3_33_33", C_REINTERPRET_B3_33_33, reinterpret_b3::<33, 33> as fn() -> Out),
    ("reinterpret_b3_33_34", C_REINTERPRET_B3_33_34, reinterpret_b3::<33, 34> as fn() -> Out),
    ("reinterpret_b3_33_66", C_REINTERPRET_B3_33_66, reinterpret_b3::<33, 66> as fn() -> Out),
    ("reinterpret_b3_33_101", C_REINTERPRET_B3_33_101, reinterpret_b3::<33, 101> as fn() -> Out),
    ("byvalue_b3_33", C_BYVALUE_B3_33, byvalue_b3::<33> as fn() -> Out),
    ("native_chunks_b3_33_0", C_NATIVE_CHUNKS_B3_33_0, native_chunks_b3::<33, 0> as fn() -> Out),
    ("native_chunks_b3_33_1", C_NATIVE_CHUNKS_B3_33_1, native_chunks_b3::<33, 1> as fn() -> Out),
    ("native_chunks_b3_33_2", C_NATIVE_CHUNKS_B3_33_2, native_chunks_b3::<33, 2> as fn() -> Out),
    ("native_chunks_b3_33_3", C_NATIVE_CHUNKS_B3_33_3, native_chunks_b3::<33, 3> as fn() -> Out),
    ("chunks_b3_64_0", C_CHUNKS_B3_64_0, chunks_b3::<64, 0> as fn() -> Out),
    ("chunks_mut_b3_64_0", C_CHUNKS_MUT_B3_64_0, chunks_mut_b3::<64, 0> as fn() -> Out),
    ("chunks_b3_64_1", C_CHUNKS_B3_64_1, chunks_b3::<64, 1> as fn() -> Out),
    ("chunks_mut_b3_64_1", C_CHUNKS_MUT_B3_64_1, chunks_mut_b3::<64, 1> as fn() -> Out),
    ("chunks_b3_64_63", C_CHUNKS_B3_64_63, chunks_b3::<64, 63> as fn() -> Out),
    ("chunks_mut_b3_64_63", C_CHUNKS_MUT_B3_64_63, chunks_mut_b3::<64, 63> as fn() -> Out),
    ("chunks_b3_64_64", C_CHUNKS_B3_64_64, chunks_b3::<64, 64> as fn() -> Out),
    ("chunks_mut_b3_64_64", C_CHUNKS_MUT_B3_64_64, chunks_mut_b3::<64, 64> as fn() -> Out),
    ("chunks_b3_64_65", C_CHUNKS_B3_64_65, chunks_b3::<64, 65> as fn() -> Out),
    ("chunks_mut_b3_64_65", C_CHUNKS_MUT_B3_64_65, chunks_mut_b3::<64, 65> as fn() -> Out),
    ("chunks_b3_64_127", C_CHUNKS_B3_64_127, chunks_b3::<64, 127> as fn() -> Out),
    ("chunks_mut_b3_64_127", C_CHUNKS_MUT_B3_64_127, chunks_mut_b3::<64, 127> as fn() -> Out),
    ("chunks_b3_64_128", C_CHUNKS_B3_64_128, chunks_b3::<64, 128> as fn() -> Out),
    ("chunks_mut_b3_64_128", C_CHUNKS_MUT_B3_64_128, chunks_mut_b3::<64, 128> as fn() -> Out),
    ("chunks_b3_64_129", C_CHUNKS_B3_64_129, chunks_b3::<64, 129> as fn() -> Out),
    ("chunks_mut_b3_64_129", C_CHUNKS_MUT_B3_64_129, chunks_mut_b3::<64, 129> as fn() -> Out),
    ("chunks_b3_64_191", C_CHUNKS_B3_64_191, chunks_b3::<64, 191> as fn() -> Out),
    ("chunks_mut_b3_64_191", C_CHUNKS_MUT_B3_64_191, chunks_mut_b3::<64, 191> as fn() -> Out),
    ("chunks_b3_64_192", C_CHUNKS_B3_64_192, chunks_b3::<64, 192> as fn() -> Out),
    ("chunks_mut_b3_64_192", C_CHUNKS_MUT_B3_64_192, chunks_mut_b3::<64, 192> as fn() -> Out),
    ("chunks_b3_64_193", C_CHUNKS_B3_64_193, chunks_b3::<64, 193> as fn() -> Out),
    ("chunks_mut_b3_64_193", C_CHUNKS_MUT_B3_64_193, chunks_mut_b3::<64, 193> as fn() -> Out),
    ("chunks_b3_64_194", C_CHUNKS_B3_64_194, chunks_b3::<64, 194> as fn() -> Out),
    ("chunks_mut_b3_64_194", C_CHUNKS_MUT_B3_64_194, chunks_mut_b3::<64, 194> as fn() -> Out),
    ("reinterpret_b3_64_0", C_REINTERPRET_B3_64_0, reinterpret_b3::<64, 0> as fn() -> Out),
    ("reinterpret_b3_64_1", C_REINTERPRET_B3_64_1, reinterpret_b3::<64, 1> as fn() -> Out),
    ("reinterpret_b3_64_63", C_REINTERPRET_B3_64_63, reinterpret_b3::<64, 63> as fn() -> Out),
    ("reinterpret_b3_64_64", C_REINTERPRET_B3_64_64, reinterpret_b3::<64, 64> as fn() -> Out),
    ("reinterpret_b3_64_65", C_REINTERPRET_B3_64_65, reinterpret_b3::<64, 65> as fn() -> Out),
    ("reinterpret_b3_64_128", C_REINTERPRET_B3_64_128, reinterpret_b3::<64, 128> as fn() -> Out),
    ("reinterpret_b3_64_194", C_REINTERPRET_B3_64_194, reinterpret_b3::<64, 194> as fn() -> Out),
    ("byvalue_b3_64", C_BYVALUE_B3_64, byvalue_b3::<64> as fn() -> Out),
    ("native_chunks_b3_64_0", C_NATIVE_CHUNKS_B3_64_0, native_chunks_b3::<64, 0> as fn() -> Out),
    ("native_chunks_b3_64_1", C_NATIVE_CHUNKS_B3_64_1, native_chunks_b3::<64, 1> as fn() -> Out),
    ("native_chunks_b3_64_2", C_NATIVE_CHUNKS_B3_64_2, native_chunks_b3::<64, 2> as fn() -> Out),
    ("native_chunks_b3_64_3", C_NATIVE_CHUNKS_B3_64_3, native_chunks_b3::<64, 3> as fn() -> Out),
    ("chunks_b3_100_0", C_CHUNKS_B3_100_0, chunks_b3::<100, 0> as fn() -> Out),
    ("chunks_mut_b3_100_0", C_CHUNKS_MUT_B3_100_0, chunks_mut_b3::<100, 0> as fn() -> Out),
    ("chunks_b3_100_1", C_CHUNKS_B3_100_1, chunks_b3::<100, 1> as fn() -> Out),
    ("chunks_mut_b3_100_1", C_CHUNKS_MUT_B3_100_1, chunks_mut_b3::<100, 1> as fn() -> Out),
    ("chunks_b3_100_99", C_CHUNKS_B3_100_99, chunks_b3::<100, 99> as fn() -> Out),
    ("chunks_mut_b3_100_99", C_CHUNKS_MUT_B3_100_99, chunks_mut_b3::<100, 99> as fn() -> Out),
    ("chunks_b3_100_100", C_CHUNKS_B3_100_100, chunks_b3::<100, 100> as fn() -> Out),
    ("chunks_mut_b3_100_100", C_CHUNKS_MUT_B3_100_100, chunks_mut_b3::<100, 100> as fn() -> Out),
    ("chunks_b3_100_101", C_CHUNKS_B3_100_101, chunks_b3::<100, 101> as fn() -> Out),
    ("chunks_mut_b3_100_101", C_CHUNKS_MUT_B3_100_101, chunks_mut_b3::<100, 101> as fn() -> Out),
    ("chunks_b3_100_199", C_CHUNKS_B3_100_199, chunks_b3::<100, 199> as fn() -> Out),
    ("chunks_mut_b3_100_199", C_CHUNKS_MUT_B3_100_199, chunks_mut_b3::<100, 199> as fn() -> Out),
    ("chunks_b3_100_200", C_CHUNKS_B3_100_200, chunks_b3::<100, 200> as fn() -> Out),
    ("chunks_mut_b3_100_200", C_CHUNKS_MUT_B3_100_200, chunks_mut_b3::<100, 200> as fn() -> Out),
    ("chunks_b3_100_201", C_CHUNKS_B3_100_201, chunks_b3::<100, 201> as fn() -> Out),
    ("chunks_mut_b3_100_201", C_CHUNKS_MUT_B3_100_201, chunks_mut_b3::<100, 201> as fn() -> Out),
    ("chunks_b3_100_302", C_CHUNKS_B3_100_302, chunks_b3::<100, 302> as fn() -> Out),
    ("chunks_mut_b3_100_302", C_CHUNKS_MUT_B3_100_302, chunks_mut_b3::<100, 302> as fn() -> Out),
    ("reinterpret_b3_100_0", C_REINTERPRET_B3_100_0, reinterpret_b3::<100, 0> as fn() -> Out),
    ("reinterpret_b3_100_1", C_REINTERPRET_B3_100_1, reinterpret_b3::<100, 1> as fn() -> Out),
    ("reinterpret_b3_100_99", C_REINTERPRET_B3_100_99, reinterpret_b3::<100, 99> as fn() -> Out),
    ("reinterpret_b3_100_100", C_REINTERPRET_B3_100_100, reinterpret_b3::<100, 100> as fn() -> Out),
    ("reinterpret_b3_100_101", C_REINTERPRET_B3_100_101, reinterpret_b3::<100, 101> as fn() -> Out),
    ("reinterpret_b3_100_200", C_REINTERPRET_B3_100_200, reinterpret_b3::<100, 200> as fn() -> Out),
    ("reinterpret_b3_100_302", C_REINTERPRET_B3_100_302, reinterpret_b3::<100, 302> as fn() -> Out),
    ("byvalue_b3_100", C_BYVALUE_B3_100, byvalue_b3::<100> as fn() -> Out),
    ("native_chunks_b3_100_0", C_NATIVE_CHUNKS_B3_100_0, native_chunks_b3::<100, 0> as fn() -> Out),
    ("native_chunks_b3_100_1", C_NATIVE_CHUNKS_B3_100_1, native_chunks_b3::<100, 1> as fn() -> Out),
    ("native_chunks_b3_100_2", C_NATIVE_CHUNKS_B3_100_2, native_chunks_b3::<100, 2> as fn() -> Out),
    ("native_chunks_b3_100_3", C_NATIVE_CHUNKS_B3_100_3, native_chunks_b3::<100, 3> as fn() -> Out),
    ("chunks_b3_1024_0", C_CHUNKS_B3_1024_0, chunks_b3::<1024, 0> as fn() -> Out),
    ("chunks_mut_b3_1024_0", C_CHUNKS_MUT_B3_1024_0, chunks_mut_b3::<1024, 0> as fn() -> Out),
    ("chunks_b3_1024_1", C_CHUNKS_B3_1024_1, chunks_b3::<1024, 1> as fn() -> Out),
    ("chunks_mut_b3_1024_1", C_CHUNKS_MUT_B3_1024_1, chunks_mut_b3::<1024, 1> as fn() -> Out),
    ("chunks_b3_1024_1023", C_CHUNKS_B3_1024_1023, chunks_b3::<1024, 1023> as fn() -> Out),
    ("chunks_mut_b3_1024_1023", C_CHUNKS_MUT_B3_1024_1023, chunks_mut_b3::<1024, 1023> as fn() -> Out),
    ("chunks_b3_1024_1024", C_CHUNKS_B3_1024_1024, chunks_b3::<1024, 1024> as fn() -> Out),
    ("chunks_mut_b3_1024_1024", C_CHUNKS_MUT_B3_1024_1024, chunks_mut_b3::<1024, 1024> as fn() -> Out),
    ("chunks_b3_1024_1025", C_CHUNKS_B3_1024_1025, chunks_b3::<1024, 1025> as fn() -> Out),
    ("chunks_mut_b3_1024_1025", C_CHUNKS_MUT_B3_1024_1025, chunks_mut_b3::<1024, 1025> as fn() -> Out),
    ("chunks_b3_1024_2047", C_CHUNKS_B3_1024_2047, chunks_b3::<1024, 2047> as fn() -> Out),
    ("chunks_mut_b3_1024_2047", C_CHUNKS_MUT_B3_1024_2047, chunks_mut_b3::<1024, 2047> as fn() -> Out),
    ("chunks_b3_1024_2048", C_CHUNKS_B3_1024_2048, chunks_b3::<1024, 2048> as fn() -> Out),
    ("chunks_mut_b3_1024_2048", C_CHUNKS_MUT_B3_1024_2048, chunks_mut_b3::<1024, 2048> as fn() -> Out),
    ("chunks_b3_1024_2049", C_CHUNKS_B3_1024_2049, chunks_b3::<1024, 2049> as fn() -> Out),
    ("chunks_mut_b3_1024_2049", C_CHUNKS_MUT_B3_1024_2049, chunks_mut_b3::<1024, 2049> as fn() -> Out),
    ("chunks_b3_1024_3074", C_CHUNKS_B3_1024_3074, chunks_b3::<1024, 3074> as fn() -> Out),
    ("chunks_mut_b3_1024_3074", C_CHUNKS_MUT_B3_1024_3074, chunks_mut_b3::<1024, 3074> as fn() -> Out),
    ("reinterpret_b3_1024_0", C_REINTERPRET_B3_1024_0, reinterpret_b3::<1024, 0> as fn() -> Out),
    ("reinterpret_b3_1024_1", C_REINTERPRET_B3_1024_1, reinterpret_b3::<1024, 1> as fn() -> Out),
    ("reinterpret_b3_1024_1023", C_REINTERPRET_B3_1024_1023, reinterpret_b3::<1024, 1023> as fn() -> Out),
    ("reinterpret_b3_1024_1024", C_REINTERPRET_B3_1024_1024, reinterpret_b3::<1024, 1024> as fn() -> Out),
    ("reinterpret_b3_1024_1025", C_REINTERPRET_B3_1024_1025, reinterpret_b3::<1024, 1025> as fn() -> Out),
    ("reinterpret_b3_1024_2048", C_REINTERPRET_B3_1024_2048, reinterpret_b3::<1024, 2048> as fn() -> Out),
    ("reinterpret_b3_1024_3074", C_REINTERPRET_B3_1024_3074, reinterpret_b3::<1024, 3074> as fn() -> Out),
    ("byvalue_b3_1024", C_BYVALUE_B3_1024, byvalue_b3::<1024> as fn() -> Out),
    ("native_chunks_b3_1024_0", C_NATIVE_CHUNKS_B3_1024_0, native_chunks_b3::<1024, 0> as fn() -> Out),
    ("native_chunks_b3_1024_1", C_NATIVE_CHUNKS_B3_1024_1, native_chunks_b3::<1024, 1> as fn() -> Out),
    ("native_chunks_b3_1024_2", C_NATIVE_CHUNKS_B3_1024_2, native_chunks_b3::<1024, 2> as fn() -> Out),
    ("native_chunks_b3_1024_3", C_NATIVE_CHUNKS_B3_1024_3, native_chunks_b3::<1024, 3> as fn() -> Out),
    ("chunks_ch_0_0", C_CHUNKS_CH_0_0, chunks_ch::<0, 0> as fn() -> Out),
    ("chunks_mut_ch_0_0", C_CHUNKS_MUT_CH_0_0, chunks_mut_ch::<0, 0> as fn() -> Out),
    ("reinterpret_ch_0_0", C_REINTERPRET_CH_0_0, reinterpret_ch::<0, 0> as fn() -> Out),
    ("reinterpret_ch_0_1", C_REINTERPRET_CH_0_1, reinterpret_ch::<0, 1> as fn() -> Out),
    ("reinterpret_ch_0_2", C_REINTERPRET_CH_0_2, reinterpret_ch::<0, 2> as fn() -> Out),
    ("byvalue_ch_0", C_BYVALUE_CH_0, byvalue_ch::<0> as fn() -> Out),
    ("native_chunks_ch_0_0", C_NATIVE_CHUNKS_CH_0_0, native_chunks_ch::<0, 0> as fn() -> Out),
    ("native_chunks_ch_0_1", C_NATIVE_CHUNKS_CH_0_1, native_chunks_ch::<0, 1> as fn() -> Out),
    ("native_chunks_ch_0_2", C_NATIVE_CHUNKS_CH_0_2, native_chunks_ch::<0, 2> as fn() -> Out),
    ("native_chunks_ch_0_3", C_NATIVE_CHUNKS_CH_0_3, native_chunks_ch::<0, 3> as fn() -> Out),
    ("chunks_ch_1_0", C_CHUNKS_CH_1_0, chunks_ch::<1, 0> as fn() -> Out),
    ("chunks_mut_ch_1_0", C_CHUNKS_MUT_CH_1_0, chunks_mut_ch::<1, 0> as fn() -> Out),
    ("chunks_ch_1_1", C_CHUNKS_CH_1_1, chunks_ch::<1, 1> as fn() -> Out),
    ("chunks_mut_ch_1_1", C_CHUNKS_MUT_CH_1_1, chunks_mut_ch::<1, 1> as fn() -> Out),
    ("chunks_ch_1_2", C_CHUNKS_CH_1_2, chunks_ch::<1, 2> as fn() -> Out),
    ("chunks_mut_ch_1_2", C_CHUNKS_MUT_CH_1_2, chunks_mut_ch::<1, 2> as fn() -> Out),
    ("chunks_ch_1_3", C_CHUNKS_CH_1_3, chunks_ch::<1, 3> as fn() -> Out),
    ("chunks_mut_ch_1_3", C_CHUNKS_MUT_CH_1_3, chunks_mut_ch::<1, 3> as fn() -> Out),
    ("chunks_ch_1_4", C_CHUNKS_CH_1_4, chunks_ch::<1, 4> as fn() -> Out),
    ("chunks_mut_ch_1_4", C_CHUNKS_MUT_CH_1_4, chunks_mut_ch::<1, 4> as fn() -> Out),
    ("chunks_ch_1_5", C_CHUNKS_CH_1_5, chunks_ch::<1, 5> as fn() -> Out),
    ("chunks_mut_ch_1_5", C_CHUNKS_MUT_CH_1_5, chunks_mut_ch::<1, 5> as fn() -> Out),
    ("reinterpret_ch_1_0", C_REINTERPRET_CH_1_0, reinterpret_ch::<1, 0> as fn() -> Out),
    ("reinterpret_ch_1_1", C_REINTERPRET_CH_1_1, reinterpret_ch::<1, 1> as fn() -> Out),
    ("reinterpret_ch_1_2", C_REINTERPRET_CH_1_2, reinterpret_ch::<1, 2> as fn() -> Out),
    ("reinterpret_ch_1_5", C_REINTERPRET_CH_1_5, reinterpret_ch::<1, 5> as fn() -> Out),
    ("byvalue_ch_1", C_BYVALUE_CH_1, byvalue_ch::<1> as fn() -> Out),
    ("native_chunks_ch_1_0", C_NATIVE_CHUNKS_CH_1_0, native_chunks_ch::<1, 0> as fn() -> Out),
    ("native_chunks_ch_1_1", C_NATIVE_CHUNKS_CH_1_1, native_chunks_ch::<1, 1> as fn() -> Out),
    ("native_chunks_ch_1_2", C_NATIVE_CHUNKS_CH_1_2, native_chunks_ch::<1, 2> as fn() -> Out),
    ("native_chunks_ch_1_3", C_NATIVE_CHUNKS_CH_1_3, native_chunks_ch::<1, 3> as fn() -> Out),
    ("chunks_ch_2_0", C_CHUNKS_CH_2_0, chunks_ch::<2, 0> as fn() -> Out),
    ("chunks_mut_ch_2_0", C_CHUNKS_MUT_CH_2_0, chunks_mut_ch::<2, 0> as fn() -> Out),
    ("chunks_ch_2_1", C_CHUNKS_CH_2_1, chunks_ch::<2, 1> as fn() -> Out),
    ("chunks_mut_ch_2_1", C_CHUNKS_MUT_CH_2_1, chunks_mut_ch::<2, 1> as fn() -> Out),
    ("chunks_ch_2_2", C_CHUNKS_CH_2_2, chunks_ch::<2, 2> as fn() -> Out),
    ("chunks_mut_ch_2_2", C_CHUNKS_MUT_CH_2_2, chunks_mut_ch::<2, 2> as fn() -> Out),
    ("chunks_ch_2_3", C_CHUNKS_CH_2_3, chunks_ch::<2, 3> as fn() -> Out),
    ("chunks_mut_ch_2_3", C_CHUNKS_MUT_CH_2_3, chunks_mut_ch::<2, 3> as fn() -> Out),
    ("chunks_ch_2_4", C_CHUNKS_CH_2_4, chunks_ch::<2, 4> as fn() -> Out),
    ("chunks_mut_ch_2_4", C_CHUNKS_MUT_CH_2_4, chunks_mut_ch::<2, 4> as fn() -> Out),
    ("chunks_ch_2_5", C_CHUNKS_CH_2_5, chunks_ch::<2, 5> as fn() -> Out),
    ("chunks_mut_ch_2_5", C_CHUNKS_MUT_CH_2_5, chunks_mut_ch::<2, 5> as fn() -> Out),
    ("chunks_ch_2_6", C_CHUNKS_CH_2_6, chunks_ch::<2, 6> as fn() -> Out),
    ("chunks_mut_ch_2_6", C_CHUNKS_MUT_CH_2_6, chunks_mut_ch::<2, 6> as fn() -> Out),
    ("chunks_ch_2_7", C_CHUNKS_CH_2_7, chunks_ch::<2, 7> as fn() -> Out),
    ("chunks_mut_ch_2_7", C_CHUNKS_MUT_CH_2_7, chunks_mut_ch::<2, 7> as fn() -> Out),
    ("chunks_ch_2_8", C_CHUNKS_CH_2_8, chunks_ch::<2, 8> as fn() -> Out),
    ("chunks_mut_ch_2_8", C_CHUNKS_MUT_CH_2_8, chunks_mut_ch::<2, 8> as fn() -> Out),
    ("reinterpret_ch_2_0", C_REINTERPRET_CH_2_0, reinterpret_ch::<2, 0> as fn() -> Out),
    ("reinterpret_ch_2_1", C_REINTERPRET_CH_2_1, reinterpret_ch::<2, 1> as fn() -> Out),
    ("reinterpret_ch_2_2", C_REINTERPRET_CH_2_2, reinterpret_ch::<2, 2> as fn() -> Out),
    ("reinterpret_ch_2_3", C_REINTERPRET_CH_2_3, reinterpret_ch::<2, 3> as fn() -> Out),
    ("reinterpret_ch_2_4", C_REINTERPRET_CH_2_4, reinterpret_ch::<2, 4> as fn() -> Out),
    ("reinterpret_ch_2_8", C_REINTERPRET_CH_2_8, reinterpret_ch::<2, 8> as fn() -> Out),
    ("byvalue_ch_2", C_BYVALUE_CH_2, byvalue_ch::<2> as fn() -> Out),
    ("native_chunks_ch_2_0", C_NATIVE_CHUNKS_CH_2_0, native_chunks_ch::<2, 0> as fn() -> Out),
    ("native_chunks_ch_2_1", C_NATIVE_CHUNKS_CH_2_1, native_chunks_ch::<2, 1> as fn() -> Out),
    ("native_chunks_ch_2_2", C_NATIVE_CHUNKS_CH_2_2, native_chunks_ch::<2, 2> as fn() -> Out),
    ("native_chunks_ch_2_3", C_NATIVE_CHUNKS_CH_2_3, native_chunks_ch::<2, 3> as fn() -> Out),
    ("chunks_ch_3_0", C_CHUNKS_CH_3_0, chunks_ch::<3, 0> as fn() -> Out),
    ("chunks_mut_ch_3_0", C_CHUNKS_MUT_CH_3_0, chunks_mut_ch::<3, 0> as fn() -> Out),
    ("chunks_ch_3_1", C_CHUNKS_CH_3_1, chunks_ch::<3, 1> as fn() -> Out),
    ("chunks_mut_ch_3_1", C_CHUNKS_MUT_CH_3_1, chunks_mut_ch::<3, 1> as fn() -> Out),
    ("chunks_ch_3_2", C_CHUNKS_CH_3_2, chunks_ch::<3, 2> as fn() -> Out),
    ("chunks_mut_ch_3_2", C_CHUNKS_MUT_CH_3_2, chunks_mut_ch::<3, 2> as fn() -> Out),
    ("chunks_ch_3_3", C_CHUNKS_CH_3_3, chunks_ch::<3, 3> as fn() -> Out),
    ("chunks_mut_ch_3_3", C_CHUNKS_MUT_CH_3_3, chunks_mut_ch::<3, 3> as fn() -> Out),
    ("chunks_ch_3_4", C_CHUNKS_CH_3_4, chunks_ch::<3, 4> as fn() -> Out),
    ("chunks_mut_ch_3_4", C_CHUNKS_MUT_CH_3_4, chunks_mut_ch::<3, 4> as fn() -> Out),
    ("chunks_ch_3_5", C_CHUNKS_CH_3_5, chunks_ch::<3, 5> as fn() -> Out),
    ("chunks_mut_ch_3_5", C_CHUNKS_MUT_CH_3_5, chunks_mut_ch::<3, 5> as fn() -> Out),
    ("chunks_ch_3_6", C_CHUNKS_CH_3_6, chunks_ch::<3, 6> as fn() -> Out),
    ("chunks_mut_ch_3_6", C_CHUNKS_MUT_CH_3_6, chunks_mut_ch::<3, 6> as fn() -> Out),
    ("chunks_ch_3_7", C_CHUNKS_CH_3_7, chunks_ch::<3, 7> as fn() -> Out),
    ("chunks_mut_ch_3_7", C_CHUNKS_MUT_CH_3_7, chunks_mut_ch::<3, 7> as fn() -> Out),
    ("chunks_ch_3_8", C_CHUNKS_CH_3_8, chunks_ch::<3, 8> as fn() -> Out),
    ("chunks_mut_ch_3_8", C_CHUNKS_MUT_CH_3_8, chunks_mut_ch::<3, 8> as fn() -> Out),
    ("chunks_ch_3_9", C_CHUNKS_CH_3_9, chunks_ch::<3, 9> as fn() -> Out),
    ("chunks_mut_ch_3_9", C_CHUNKS_MUT_CH_3_9, chunks_mut_ch::<3, 9> as fn() -> Out),
    ("chunks_ch_3_10", C_CHUNKS_CH_3_10, chunks_ch::<3, 10> as fn() -> Out),
    ("chunks_mut_ch_3_10", C_CHUNKS_MUT_CH_3_10, chunks_mut_ch::<3, 10> as fn() -> Out),
    ("chunks_ch_3_11", C_CHUNKS_CH_3_11, chunks_ch::<3, 11> as fn() -> Out),
    ("chunks_mut_ch_3_11", C_CHUNKS_MUT_CH_3_11, chunks_mut_ch::<3, 11> as fn() -> Out),
    ("reinterpret_ch_3_0", C_REINTERPRET_CH_3_0, reinterpret_ch::<3, 0> as fn() -> Out),
    ("reinterpret_ch_3_1", C_REINTERPRET_CH_3_1, reinterpret_ch::<3, 1> as fn() -> Out),
    ("reinterpret_ch_3_2", C_REINTERPRET_CH_3_2, reinterpret_ch::<3, 2> as fn() -> Out),
    ("reinterpret_ch_3_3", C_REINTERPRET_CH_3_3, reinterpret_ch::<3, 3> as fn() -> Out),
    ("reinterpret_ch_3_4", C_REINTERPRET_CH_3_4, reinterpret_ch::<3, 4> as fn() -> Out),
    ("reinterpret_ch_3_6", C_REINTERPRET_CH_3_6, reinterpret_ch::<3, 6> as fn() -> Out),
    ("reinterpret_ch_3_11", C_REINTERPRET_CH_3_11, reinterpret_ch::<3, 11> as fn() -> Out),
    ("byvalue_ch_3", C_BYVALUE_CH_3, byvalue_ch::<3> as fn() -> Out),
    ("native_chunks_ch_3_0", C_NATIVE_CHUNKS_CH_3_0, native_chunks_ch::<3, 0> as fn() -> Out),
    ("native_chunks_ch_3_1", C_NATIVE_CHUNKS_CH_3_1, native_chunks_ch::<3, 1> as fn() -> Out),
    ("native_chunks_ch_3_2", C_NATIVE_CHUNKS_CH_3_2, native_chunks_ch::<3, 2> as fn() -> Out),
    ("native_chunks_ch_3_3", C_NATIVE_CHUNKS_CH_3_3, native_chunks_ch::<3, 3> as fn() -> Out),
    ("chunks_ch_7_0", C_CHUNKS_CH_7_0, chunks_ch::<7, 0> as fn() -> Out),
    ("chunks_mut_ch_7_0", C_CHUNKS_MUT_CH_7_0, chunks_mut_ch::<7, 0> as fn() -> Out),
    ("chunks_ch_7_1", C_CHUNKS_CH_7_1, chunks_ch::<7, 1> as fn() -> Out),
    ("chunks_mut_ch_7_1", C_CHUNKS_MUT_CH_7_1, chunks_mut_ch::<7, 1> as fn() -> Out),
    ("chunks_ch_7_2", C_CHUNKS_CH_7_2, chunks_ch::<7, 2> as fn() -> Out),
    ("chunks_mut_ch_7_2", C_CHUNKS_MUT_CH_7_2, chunks_mut_ch::<7, 2> as fn() -> Out),
    ("chunks_ch_7_3", C_CHUNKS_CH_7_3, chunks_ch::<7, 3> as fn() -> Out),
    ("chunks_mut_ch_7_3", C_CHUNKS_MUT_CH_7_3, chunks_mut_ch::<7, 3> as fn() -> Out),
    ("chunks_ch_7_4", C_CHUNKS_CH_7_4, chunks_ch::<7, 4> as fn() -> Out),
    ("chunks_mut_ch_7_4", C_CHUNKS_MUT_CH_7_4, chunks_mut_ch::<7, 4> as fn() -> Out),
    ("chunks_ch_7_5", C_CHUNKS_CH_7_5, chunks_ch::<7, 5> as fn() -> Out),
    ("chunks_mut_ch_7_5", C_CHUNKS_MUT_CH_7_5, chunks_mut_ch::<7, 5> as fn() -> Out),
    ("chunks_ch_7_6", C_CHUNKS_CH_7_6, chunks_ch::<7, 6> as fn() -> Out),
    ("chunks_mut_ch_7_6", C_CHUNKS_MUT_CH_7_6, chunks_mut_ch::<7, 6> as fn() -> Out),
    ("chunks_ch_7_7", C_CHUNKS_CH_7_7, chunks_ch::<7, 7> as fn() -> Out),
    ("chunks_mut_ch_7_7", C_CHUNKS_MUT_CH_7_7, chunks_mut_ch::<7, 7> as fn() -> Out),
    ("chunks_ch_7_8", C_CHUNKS_CH_7_8, chunks_ch::<7, 8> as fn() -> Out),
    ("chunks_mut_ch_7_8", C_CHUNKS_MUT_CH_7_8, chunks_mut_ch::<7, 8> as fn() -> Out),
    ("chunks_ch_7_9", C_CHUNKS_CH_7_9, chunks_ch::<7, 9> as fn() -> Out),
    ("chunks_mut_ch_7_9", C_CHUNKS_MUT_CH_7_9, chunks_mut_ch::<7, 9> as fn() -> Out),
    ("chunks_ch_7_10", C_CHUNKS_CH_7_10, chunks_ch::<7, 10> as fn() -> Out),
    ("chunks_mut_ch_7_10", C_CHUNKS_MUT_CH_7_10, chunks_mut_ch::<7, 10> as fn() -> Out),
    ("chunks_ch_7_11", C_CHUNKS_CH_7_11, chunks_ch::<7, 11> as fn() -> Out),
    ("chunks_mut_ch_7_11", C_CHUNKS_MUT_CH_7_11, chunks_mut_ch::<7, 11> as fn() -> Out),
    ("chunks_ch_7_12", C_CHUNKS_CH_7_12, chunks_ch::<7, 12> as fn() -> Out),
    ("chunks_mut_ch_7_12", C_CHUNKS_MUT_CH_7_12, chunks_mut_ch::<7, 12> as fn() -> Out),
    ("chunks_ch_7_13", C_CHUNKS_CH_7_13, chunks_ch::<7, 13> as fn() -> Out),
    ("chunks_mut_ch_7_13", C_CHUNKS_MUT_CH_7_13, chunks_mut_ch::<7, 13> as fn() -> Out),
    ("chunks_ch_7_14", C_CHUNKS_CH_7_14, chunks_ch::<7, 14> as fn() -> Out),
    ("chunks_mut_ch_7_14", C_CHUNKS_MUT_CH_7_14, chunks_mut_ch::<7, 14> as fn() -> Out),
    ("chunks_ch_7_15", C_CHUNKS_CH_7_15, chunks_ch::<7, 15> as fn() -> Out),
    ("chunks_mut_ch_7_15", C_CHUNKS_MUT_CH_7_15, chunks_mut_ch::<7, 15> as fn() -> Out),
    ("chunks_ch_7_16", C_CHUNKS_CH_7_16, chunks_ch::<7, 16> as fn() -> Out),
    ("chunks_mut_ch_7_16", C_CHUNKS_MUT_CH_7_16, chunks_mut_ch::<7, 16> as fn() -> Out),
    ("chunks_ch_7_17", C_CHUNKS_CH_7_17, chunks_ch::<7, 17> as fn() -> Out),
    ("chunks_mut_ch_7_17", C_CHUNKS_MUT_CH_7_17, chunks_mut_ch::<7, 17> as fn() -> Out),
    ("chunks_ch_7_18", C_CHUNKS_CH_7_18, chunks_ch::<7, 18> as fn() -> Out),
    ("chunks_mut_ch_7_18", C_CHUNKS_MUT_CH_7_18, chunks_mut_ch::<7, 18> as fn() -> Out),
    ("chunks_ch_7_19", C_CHUNKS_CH_7_19, chunks_ch::<7, 19> as fn() -> Out),
    ("chunks_mut_ch_7_19", C_CHUNKS_MUT_CH_7_19, chunks_mut_ch::<7, 19> as fn() -> Out),
    ("chunks_ch_7_20", C_CHUNKS_CH_7_20, chunks_ch::<7, 20> as fn() -> Out),
    ("chunks_mut_ch_7_20", C_CHUNKS_MUT_CH_7_20, chunks_mut_ch::<7, 20> as fn() -> Out),
    ("chunks_ch_7_21", C_CHUNKS_CH_7_21, chunks_ch::<7, 21> as fn() -> Out),
    ("chunks_mut_ch_7_21", C_CHUNKS_MUT_CH_7_21, chunks_mut_ch::<7, 21> as fn() -> Out),
    ("chunks_ch_7_22", C_CHUNKS_CH_7_22, chunks_ch::<7, 22> as fn() -> Out),
    ("chunks_mut_ch_7_22", C_CHUNKS_MUT_CH_7_22, chunks_mut_ch::<7, 22> as fn() -> Out),
    ("chunks_ch_7_23", C_CHUNKS_CH_7_23, chunks_ch::<7, 23> as fn() -> Out),
    ("chunks_mut_ch_7_23", C_CHUNKS_MUT_CH_7_23, chunks_mut_ch::<7, 23> as fn() -> Out),
    ("reinterpret_ch_7_0", C_REINTERPRET_CH_7_0, reinterpret_ch::<7, 0> as fn() -> Out),
    ("reinterpret_ch_7_1", C_REINTERPRET_CH_7_1, reinterpret_ch::<7, 1> as fn() -> Out),
    ("reinterpret_ch_7_6", C_REINTERPRET_CH_7_6, reinterpret_ch::<7, 6> as fn() -> Out),
    ("reinterpret_ch_7_7", C_REINTERPRET_CH_7_7, reinterpret_ch::<7, 7> as fn() -> Out),
    ("reinterpret_ch_7_8", C_REINTERPRET_CH_7_8, reinterpret_ch::<7, 8> as fn() -> Out),
    ("reinterpret_ch_7_14", C_REINTERPRET_CH_7_14, reinterpret_ch::<7, 14> as fn() -> Out),
    ("reinterpret_ch_7_23", C_REINTERPRET_CH_7_23, reinterpret_ch::<7, 23> as fn() -> Out),
    ("byvalue_ch_7", C_BYVALUE_CH_7, byvalue_ch::<7> as fn() -> Out),
    ("native_chunks_ch_7_0", C_NATIVE_CHUNKS_CH_7_0, native_chunks_ch::<7, 0> as fn() -> Out),
    ("native_chunks_ch_7_1", C_NATIVE_CHUNKS_CH_7_1, native_chunks_ch::<7, 1> as fn() -> Out),
    ("native_chunks_ch_7_2", C_NATIVE_CHUNKS_CH_7_2, native_chunks_ch::<7, 2> as fn() -> Out),
    ("native_chunks_ch_7_3", C_NATIVE_CHUNKS_CH_7_3, native_chunks_ch::<7, 3> as fn() -> Out),
    ("chunks_ch_8_0", C_CHUNKS_CH_8_0, chunks_ch::<8, 0> as fn() -> Out),
    ("chunks_mut_ch_8_0", C_CHUNKS_MUT_CH_8_0, chunks_mut_ch::<8, 0> as fn() -> Out),
    ("chunks_ch_8_1", C_CHUNKS_CH_8_1, chunks_ch::<8, 1> as fn() -> Out),
    ("chunks_mut_ch_8_1", C_CHUNKS_MUT_CH_8_1, chunks_mut_ch::<8, 1> as fn() -> Out),
    ("chunks_ch_8_2", C_CHUNKS_CH_8_2, chunks_ch::<8, 2> as fn() -> Out),
    ("chunks_mut_ch_8_2", C_CHUNKS_MUT_CH_8_2, chunks_mut_ch::<8, 2> as fn() -> Out),
    ("chunks_ch_8_3", C_CHUNKS_CH_8_3, chunks_ch::<8, 3> as fn() -> Out),
    ("chunks_mut_ch_8_3", C_CHUNKS_MUT_CH_8_3, chunks_mut_ch::<8, 3> as fn() -> Out),
    ("chunks_ch_8_4", C_CHUNKS_CH_8_4, chunks_ch::<8, 4> as fn() -> Out),
    ("chunks_mut_ch_8_4", C_CHUNKS_MUT_CH_8_4, chunks_mut_ch::<8, 4> as fn() -> Out),
    ("chunks_ch_8_5", C_CHUNKS_CH_8_5, chunks_ch::<8, 5> as fn() -> Out),
    ("chunks_mut_ch_8_5", C_CHUNKS_MUT_CH_8_5, chunks_mut_ch::<8, 5> as fn() -> Out),
    ("chunks_ch_8_6", C_CHUNKS_CH_8_6, chunks_ch::<8, 6> as fn() -> Out),
    ("chunks_mut_ch_8_6", C_CHUNKS_MUT_CH_8_6, chunks_mut_ch::<8, 6> as fn() -> Out),
    ("chunks_ch_8_7", C_CHUNKS_CH_8_7, chunks_ch::<8, 7> as fn() -> Out),
    ("chunks_mut_ch_8_7", C_CHUNKS_MUT_CH_8_7, chunks_mut_ch::<8, 7> as fn() -> Out),
    ("chunks_ch_8_8", C_CHUNKS_CH_8_8, chunks_ch::<8, 8> as fn() -> Out),
    ("chunks_mut_ch_8_8", C_CHUNKS_MUT_CH_8_8, chunks_mut_ch::<8, 8> as fn() -> Out),
    ("chunks_ch_8_9", C_CHUNKS_CH_8_9, chunks_ch::<8, 9> as fn() -> Out),
    ("chunks_mut_ch_8_9", C_CHUNKS_MUT_CH_8_9, chunks_mut_ch::<8, 9> as fn() -> Out),
    ("chunks_ch_8_10", C_CHUNKS_CH_8_10, chunks_ch::<8, 10> as fn() -> Out),
    ("chunks_mut_ch_8_10", C_CHUNKS_MUT_CH_8_10, chunks_mut_ch::<8, 10> as fn() -> Out),
    ("chunks_ch_8_11", C_CHUNKS_CH_8_11, chunks_ch::<8, 11> as fn() -> Out),
    ("chunks_mut_ch_8_11", C_CHUNKS_MUT_CH_8_11, chunks_mut_ch::<8, 11> as fn() -> Out),
    ("chunks_ch_8_12", C_CHUNKS_CH_8_12, chunks_ch::<8, 12> as fn() -> Out),
    ("chunks_mut_ch_8_12", C_CHUNKS_MUT_CH_8_12, chunks_mut_ch::<8, 12> as fn() -> Out),
    ("chunks_ch_8_13", C_CHUNKS_CH_8_13, chunks_ch::<8, 13> as fn() -> Out),
    ("chunks_mut_ch_8_13", C_CHUNKS_MUT_CH_8_13, chunks_mut_ch::<8, 13> as fn() -> Out),
    ("chunks_ch_8_14", C_CHUNKS_CH_8_14, chunks_ch::<8, 14> as fn() -> Out),
    ("chunks_mut_ch_8_14", C_CHUNKS_MUT_CH_8_14, chunks_mut_ch::<8, 14> as fn() -> Out),
    ("chunks_ch_8_15", C_CHUNKS_CH_8_15, chunks_ch::<8, 15> as fn() -> Out),
    ("chunks_mut_ch_8_15", C_CHUNKS_MUT_CH_8_15, chunks_mut_ch::<8, 15> as fn() -> Out),
    ("chunks_ch_8_16", C_CHUNKS_CH_8_16, chunks_ch::<8, 16> as fn() -> Out),
    ("chunks_mut_ch_8_16", C_CHUNKS_MUT_CH_8_16, chunks_mut_ch::<8, 16> as fn() -> Out),
    ("chunks_ch_8_17", C_CHUNKS_CH_8_17, chunks_ch::<8, 17> as fn() -> Out),
    ("chunks_mut_ch_8_17", C_CHUNKS_MUT_CH_8_17, chunks_mut_ch::<8, 17> as fn() -> Out),
    ("chunks_ch_8_18", C_CHUNKS_CH_8_18, chunks_ch::<8, 18> as fn() -> Out),
    ("chunks_mut_ch_8_18", C_CHUNKS_MUT_CH_8_18, chunks_mut_ch::<8, 18> as fn() -> Out),
    ("chunks_ch_8_19", C_CHUNKS_CH_8_19, chunks_ch::<8, 19> as fn() -> Out),
    ("chunks_mut_ch_8_19", C_CHUNKS_MUT_CH_8_19, chunks_mut_ch::<8, 19> as fn() -> Out),
    ("chunks_ch_8_20", C_CHUNKS_CH_8_20, chunks_ch::<8, 20> as fn() -> Out),
    ("chunks_mut_ch_8_20", C_CHUNKS_MUT_CH_8_20, chunks_mut_ch::<8, 20> as fn() -> Out),
    ("chunks_ch_8_21", C_CHUNKS_CH_8_21, chunks_ch::<8, 21> as fn() -> Out),
    ("chunks_mut_ch_8_21", C_CHUNKS_MUT_CH_8_21, chunks_mut_ch::<8, 21> as fn() -> Out),
    ("chunks_ch_8_22", C_CHUNKS_CH_8_22, chunks_ch::<8, 22> as fn() -> Out),
    ("chunks_mut_ch_8_22", C_CHUNKS_MUT_CH_8_22, chunks_mut_ch::<8, 22> as fn() -> Out),
    ("chunks_ch_8_23", C_CHUNKS_CH_8_23, chunks_ch::<8, 23> as fn() -> Out),
    ("chunks_mut_ch_8_23", C_CHUNKS_MUT_CH_8_23, chunks_mut_ch::<8, 23> as fn() -> Out),
    ("chunks_ch_8_24", C_CHUNKS_CH_8_24, chunks_ch::<8, 24> as fn() -> Out),
    ("chunks_mut_ch_8_24", C_CHUNKS_MUT_CH_8_24, chunks_mut_ch::<8, 24> as fn() -> Out),
    ("chunks_ch_8_25", C_CHUNKS_CH_8_25, chunks_ch::<8, 25> as fn() -> Out),
    ("chunks_mut_ch_8_25", C_CHUNKS_MUT_CH_8_25, chunks_mut_ch::<8, 25> as fn() -> Out),
    ("chunks_ch_8_26", C_CHUNKS_CH_8_26, chunks_ch::<8, 26> as fn() -> Out),
    ("chunks_mut_ch_8_26", C_CHUNKS_MUT_CH_8_26, chunks_mut_ch::<8, 26> as fn() -> Out),
    ("reinterpret_ch_8_0", C_REINTERPRET_CH_8_0, reinterpret_ch::<8, 0> as fn() -> Out),
    ("reinterpret_ch_8_1", C_REINTERPRET_CH_8_1, reinterpret_ch::<8, 1> as fn() -> Out),
    ("reinterpret_ch_8_7", C_REINTERPRET_CH_8_7, reinterpret_ch::<8, 7> as fn() -> Out),
    ("reinterpret_ch_8_8", C_REINTERPRET_CH_8_8, reinterpret_ch::<8, 8> as fn() -> Out),
    ("reinterpret_ch_8_9", C_REINTERPRET_CH_8_9, reinterpret_ch::<8, 9> as fn() -> Out),
    ("reinterpret_ch_8_16", C_REINTERPRET_CH_8_16, reinterpret_ch::<8, 16> as fn() -> Out),
    ("reinterpret_ch_8_26", C_REINTERPRET_CH_8_26, reinterpret_ch::<8, 26> as fn() -> Out),
    ("byvalue_ch_8", C_BYVALUE_CH_8, byvalue_ch::<8> as fn() -> Out),
    ("native_chunks_ch_8_0", C_NATIVE_CHUNKS_CH_8_0, native_chunks_ch::<8, 0> as fn() -> Out),
    ("native_chunks_ch_8_1", C_NATIVE_CHUNKS_CH_8_1, native_chunks_ch::<8, 1> as fn() -> Out),
    ("native_chunks_ch_8_2", C_NATIVE_CHUNKS_CH_8_2, native_chunks_ch::<8, 2> as fn() -> Out),
    ("native_chunks_ch_8_3", C_NATIVE_CHUNKS_CH_8_3, native_chunks_ch::<8, 3> as fn() -> Out),
    ("chunks_ch_16_0", C_CHUNKS_CH_16_0, chunks_ch::<16, 0> as fn() -> Out),
    ("chunks_mut_ch_16_0", C_CHUNKS_MUT_CH_16_0, chunks_mut_ch::<16, 0> as fn() -> Out),
    ("chunks_ch_16_1", C_CHUNKS_CH_16_1, chunks_ch::<16, 1> as fn() -> Out),
    ("chunks_mut_ch_16_1", C_CHUNKS_MUT_CH_16_1, chunks_mut_ch::<16, 1> as fn() -> Out),
    ("chunks_ch_16_2", C_CHUNKS_CH_16_2, chunks_ch::<16, 2> as fn() -> Out),
    ("chunks_mut_ch_16_2", C_CHUNKS_MUT_CH_16_2, chunks_mut_ch::<16, 2> as fn() -> Out),
    ("chunks_ch_16_3", C_CHUNKS_CH_16_3, chunks_ch::<16, 3> as fn() -> Out),
    ("chunks_mut_ch_16_3", C_CHUNKS_MUT_CH_16_3, chunks_mut_ch::<16, 3> as fn() -> Out),
    ("chunks_ch_16_4", C_CHUNKS_CH_16_4, chunks_ch::<16, 4> as fn() -> Out),
    ("chunks_mut_ch_16_4", C_CHUNKS_MUT_CH_16_4, chunks_mut_ch::<16, 4> as fn() -> Out),
    ("chunks_ch_16_5", C_CHUNKS_CH_16_5, chunks_ch::<16, 5> as fn() -> Out),
    ("chunks_mut_ch_16_5", C_CHUNKS_MUT_CH_16_5, chunks_mut_ch::<16, 5> as fn() -> Out),
    ("chunks_ch_16_6", C_CHUNKS_CH_16_6, chunks_ch::<16, 6> as fn() -> Out),
    ("chunks_mut_ch_16_6", C_CHUNKS_MUT_CH_16_6, chunks_mut_ch::<16, 6> as fn() -> Out),
    ("chunks_ch_16_7", C_CHUNKS_CH_16_7, chunks_ch::<16, 7> as fn() -> Out),
    ("chunks_mut_ch_16_7", C_CHUNKS_MUT_CH_16_7, chunks_mut_ch::<16, 7> as fn() -> Out),
    ("chunks_ch_16_8", C_CHUNKS_CH_16_8, chunks_ch::<16, 8> as fn() -> Out),
    ("chunks_mut_ch_16_8", C_CHUNKS_MUT_CH_16_8, chunks_mut_ch::<16, 8> as fn() -> Out),
    ("chunks_ch_16_9", C_CHUNKS_CH_16_9, chunks_ch::<16, 9> as fn() -> Out),
    ("chunks_mut_ch_16_9", C_CHUNKS_MUT_CH_16_9, chunks_mut_ch::<16, 9> as fn() -> Out),
    ("chunks_ch_16_10", C_CHUNKS_CH_16_10, chunks_ch::<16, 10> as fn() -> Out),
    ("chunks_mut_ch_16_10", C_CHUNKS_MUT_CH_16_10, chunks_mut_ch::<16, 10> as fn() -> Out),
    ("chunks_ch_16_11", C_CHUNKS_CH_16_11, chunks_ch::<16, 11> as fn() -> Out),
    ("chunks_mut_ch_16_11", C_CHUNKS_MUT_CH_16_11, chunks_mut_ch::<16, 11> as fn() -> Out),
    ("chunks_ch_16_12", C_CHUNKS_CH_16_12, chunks_ch::<16, 12> as fn() -> Out),
    ("chunks_mut_ch_16_12", C_CHUNKS_MUT_CH_16_12, chunks_mut_ch::<16, 12> as fn() -> Out),
    ("chunks_ch_16_13", C_CHUNKS_CH_16_13, chunks_ch::<16, 13> as fn() -> Out),
    ("chunks_mut_ch_16_13", C_CHUNKS_MUT_CH_16_13, chunks_mut_ch::<16, 13> as fn() -> Out),
    ("chunks_ch_16_14", C_CHUNKS_CH_16_14, chunks_ch::<16, 14> as fn() -> Out),
    ("chunks_mut_ch_16_14", C_CHUNKS_MUT_CH_16_14, chunks_mut_ch::<16, 14> as fn() -> Out),
    ("chunks_ch_16_15", C_CHUNKS_CH_16_15, chunks_ch::<16, 15> as fn() -> Out),
    ("chunks_mut_ch_16_15", C_CHUNKS_MUT_CH_16_15, chunks_mut_ch::<16, 15> as fn() -> Out),
    ("chunks_ch_16_16", C_CHUNKS_CH_16_16, chunks_ch::<16, 16> as fn() -> Out),
    ("chunks_mut_ch_16_16", C_CHUNKS_MUT_CH_16_16, chunks_mut_ch::<16, 16> as fn() -> Out),
    ("chunks_ch_16_17", C_CHUNKS_CH_16_17, chunks_ch::<16, 17> as fn() -> Out),
    ("chunks_mut_ch_16_17", C_CHUNKS_MUT_CH_16_17, chunks_mut_ch::<16, 17> as fn() -> Out),
    ("chunks_ch_16_18", C_CHUNKS_CH_16_18, chunks_ch::<16, 18> as fn() -> Out),
    ("chunks_mut_ch_16_18", C_CHUNKS_MUT_CH_16_18, chunks_mut_ch::<16, 18> as fn() -> Out),
    ("chunks_ch_16_19", C_CHUNKS_CH_16_19, chunks_ch::<16, 19> as fn() -> Out),
    ("chunks_mut_ch_16_19", C_CHUNKS_MUT_CH_16_19, chunks_mut_ch::<16, 19> as fn() -> Out),
    ("chunks_ch_16_20", C_CHUNKS_CH_16_20, chunks_ch::<16, 20> as fn() -> Out),
    ("chunks_mut_ch_16_20", C_CHUNKS_MUT_CH_16_20, chunks_mut_ch::<16, 20> as fn() -> Out),
    ("chunks_ch_16_21", C_CHUNKS_CH_16_21, chunks_ch::<16, 21> as fn() -> Out),
    ("chunks_mut_ch_16_21", C_CHUNKS_MUT_CH_16_21, chunks_mut_ch::<16, 21> as fn() -> Out),
    ("chunks_ch_16_22", C_CHUNKS_CH_16_22, chunks_ch::<16, 22> as fn() -> Out),
    ("chunks_mut_ch_16_22", C_CHUNKS_MUT_CH_16_22, chunks_mut_ch::<16, 22> as fn() -> Out),
    ("chunks_ch_16_23", C_CHUNKS_CH_16_23, chunks_ch::<16, 23> as fn() -> Out),
    ("chunks_mut_ch_16_23", C_CHUNKS_MUT_CH_16_23, chunks_mut_ch::<16, 23> as fn() -> Out),
    ("chunks_ch_16_24", C_CHUNKS_CH_16_24, chunks_ch::<16, 24> as fn() -> Out),
    ("chunks_mut_ch_16_24", C_CHUNKS_MUT_CH_16_24, chunks_mut_ch::<16, 24> as fn() -> Out),
    ("chunks_ch_16_25", C_CHUNKS_CH_16_25, chunks_ch::<16, 25> as fn() -> Out),
    ("chunks_mut_ch_16_25", C_CHUNKS_MUT_CH_16_25, chunks_mut_ch::<16, 25> as fn() -> Out),
    ("chunks_ch_16_26", C_CHUNKS_CH_16_26, chunks_ch::<16, 26> as fn() -> Out),
    ("chunks_mut_ch_16_26", C_CHUNKS_MUT_CH_16_26, chunks_mut_ch::<16, 26> as fn() -> Out),
    ("chunks_ch_16_27", C_CHUNKS_CH_16_27, chunks_ch::<16, 27> as fn() -> Out),
    ("chunks_mut_ch_16_27", C_CHUNKS_MUT_CH_16_27, chunks_mut_ch::<16, 27> as fn() -> Out),
    ("chunks_ch_16_28", C_CHUNKS_CH_16_28, chunks_ch::<16, 28> as fn() -> Out),
    ("chunks_mut_ch_16_28", C_CHUNKS_MUT_CH_16_28, chunks_mut_ch::<16, 28> as fn() -> Out),
    ("chunks_ch_16_29", C_CHUNKS_CH_16_29, chunks_ch::<16, 29> as fn() -> Out),
    ("chunks_mut_ch_16_29", C_CHUNKS_MUT_CH_16_29, chunks_mut_ch::<16, 29> as fn() -> Out),
    ("chunks_ch_16_30", C_CHUNKS_CH_16_30, chunks_ch::<16, 30> as fn() -> Out),
    ("chunks_mut_ch_16_30", C_CHUNKS_MUT_CH_16_30, chunks_mut_ch::<16, 30> as fn() -> Out),
    ("chunks_ch_16_31", C_CHUNKS_CH_16_31, chunks_ch::<16, 31> as fn() -> Out),
    ("chunks_mut_ch_16_31", C_CHUNKS_MUT_CH_16_31, chunks_mut_ch::<16, 31> as fn() -> Out),
    ("chunks_ch_16_32", C_CHUNKS_CH_16_32, chunks_ch::<16, 32> as fn() -> Out),
    ("chunks_mut_ch_16_32", C_CHUNKS_MUT_CH_16_32, chunks_mut_ch::<16, 32> as fn() -> Out),
    ("chunks_ch_16_33", C_CHUNKS_CH_16_33, chunks_ch::<16, 33> as fn() -> Out),
    ("chunks_mut_ch_16_33", C_CHUNKS_MUT_CH_16_33, chunks_mut_ch::<16, 33> as fn() -> Out),
    ("chunks_ch_16_34", C_CHUNKS_CH_16_34, chunks_ch::<16, 34> as fn() -> Out),
    ("chunks_mut_ch_16_34", C_CHUNKS_MUT_CH_16_34, chunks_mut_ch::<16, 34> as fn() -> Out),
    ("chunks_ch_16_35", C_CHUNKS_CH_16_35, chunks_ch::<16, 35> as fn() -> Out),
    ("chunks_mut_ch_16_35", C_CHUNKS_MUT_CH_16_35, chunks_mut_ch::<16, 35> as fn() -> Out),
    ("chunks_ch_16_36", C_CHUNKS_CH_16_36, chunks_ch::<16, 36> as fn() -> Out),
    ("chunks_mut_ch_16_36", C_CHUNKS_MUT_CH_16_36, chunks_mut_ch::<16, 36> as fn() -> Out),
    ("chunks_ch_16_37", C_CHUNKS_CH_16_37, chunks_ch::<16, 37> as fn() -> Out),
    ("chunks_mut_ch_16_37", C_CHUNKS_MUT_CH_16_37, chunks_mut_ch::<16, 37> as fn() -> Out),
    ("chunks_ch_16_38", C_CHUNKS_CH_16_38, chunks_ch::<16, 38> as fn() -> Out),
    ("chunks_mut_ch_16_38", C_CHUNKS_MUT_CH_16_38, chunks_mut_ch::<16, 38> as fn() -> Out),
    ("chunks_ch_16_39", C_CHUNKS_CH_16_39, chunks_ch::<16, 39> as fn() -> Out),
    ("chunks_mut_ch_16_39", C_CHUNKS_MUT_CH_16_39, chunks_mut_ch::<16, 39> as fn() -> Out),
    ("chunks_ch_16_40", C_CHUNKS_CH_16_40, chunks_ch::<16, 40> as fn() -> Out),
    ("chunks_mut_ch_16_40", C_CHUNKS_MUT_CH_16_40, chunks_mut_ch::<16, 40> as fn() -> Out),
    ("chunks_ch_16_41", C_CHUNKS_CH_16_41, chunks_ch::<16, 41> as fn() -> Out),
    ("chunks_mut_ch_16_41", C_CHUNKS_MUT_CH_16_41, chunks_mut_ch::<16, 41> as fn() -> Out),
    ("chunks_ch_16_42", C_CHUNKS_CH_16_42, chunks_ch::<16, 42> as fn() -> Out),
    ("chunks_mut_ch_16_42", C_CHUNKS_MUT_CH_16_42, chunks_mut_ch::<16, 42> as fn() -> Out),
    ("chunks_ch_16_43", C_CHUNKS_CH_16_43, chunks_ch::<16, 43> as fn() -> Out),
    ("chunks_mut_ch_16_43", C_CHUNKS_MUT_CH_16_43, chunks_mut_ch::<16, 43> as fn() -> Out),
    ("chunks_ch_16_44", C_CHUNKS_CH_16_44, chunks_ch::<16, 44> as fn() -> Out),
    ("chunks_mut_ch_16_44", C_CHUNKS_MUT_CH_16_44, chunks_mut_ch::<16, 44> as fn() -> Out),
    ("chunks_ch_16_45", C_CHUNKS_CH_16_45, chunks_ch::<16, 45> as fn() -> Out),
    ("chunks_mut_ch_16_45", C_CHUNKS_MUT_CH_16_45, chunks_mut_ch::<16, 45> as fn() -> Out),
    ("chunks_ch_16_46", C_CHUNKS_CH_16_46, chunks_ch::<16, 46> as fn() -> Out),
    ("chunks_mut_ch_16_46", C_CHUNKS_MUT_CH_16_46, chunks_mut_ch::<16, 46> as fn() -> Out),
    ("chunks_ch_16_47", C_CHUNKS_CH_16_47, chunks_ch::<16, 47> as fn() -> Out),
    ("chunks_mut_ch_16_47", C_CHUNKS_MUT_CH_16_47, chunks_mut_ch::<16, 47> as fn() -> Out),
    ("chunks_ch_16_48", C_CHUNKS_CH_16_48, chunks_ch::<16, 48> as fn() -> Out),
    ("chunks_mut_ch_16_48", C_CHUNKS_MUT_CH_16_48, chunks_mut_ch::<16, 48> as fn() -> Out),
    ("chunks_ch_16_49", C_CHUNKS_CH_16_49, chunks_ch::<16, 49> as fn() -> Out),
    ("chunks_mut_ch_16_49", C_CHUNKS_MUT_CH_16_49, chunks_mut_ch::<16, 49> as fn() -> Out),
    ("chunks_ch_16_50", C_CHUNKS_CH_16_50, chunks_ch::<16, 50> as fn() -> Out),
    ("chunks_mut_ch_16_50", C_CHUNKS_MUT_CH_16_50, chunks_mut_ch::<16, 50> as fn() -> Out),
    ("reinterpret_ch_16_0", C_REINTERPRET_CH_16_0, reinterpret_ch::<16, 0> as fn() -> Out),
    ("reinterpret_ch_16_1", C_REINTERPRET_CH_16_1, reinterpret_ch::<16, 1> as fn() -> Out),
    ("reinterpret_ch_16_15", C_REINTERPRET_CH_16_15, reinterpret_ch::<16, 15> as fn() -> Out),
    ("reinterpret_ch_16_16", C_REINTERPRET_CH_16_16, reinterpret_ch::<16, 16> as fn() -> Out),
    ("reinterpret_ch_16_17", C_REINTERPRET_CH_16_17, reinterpret_ch::<16, 17> as fn() -> Out),
    ("reinterpret_ch_16_32", C_REINTERPRET_CH_16_32, reinterpret_ch::<16, 32> as fn() -> Out),
    ("reinterpret_ch_16_50", C_REINTERPRET_CH_16_50, reinterpret_ch::<16, 50> as fn() -> Out),
    ("byvalue_ch_16", C_BYVALUE_CH_16, byvalue_ch::<16> as fn() -> Out),
    ("native_chunks_ch_16_0", C_NATIVE_CHUNKS_CH_16_0, native_chunks_ch::<16, 0> as fn() -> Out),
    ("native_chunks_ch_16_1", C_NATIVE_CHUNKS_CH_16_1, native_chunks_ch::<16, 1> as fn() -> Out),
    ("native_chunks_ch_16_2", C_NATIVE_CHUNKS_CH_16_2, native_chunks_ch::<16, 2> as fn() -> Out),
    ("native_chunks_ch_16_3", C_NATIVE_CHUNKS_CH_16_3, native_chunks_ch::<16, 3> as fn() -> Out),
    ("chunks_ch_17_0", C_CHUNKS_CH_17_0, chunks_ch::<17, 0> as fn() -> Out),
    ("chunks_mut_ch_17_0", C_CHUNKS_MUT_CH_17_0, chunks_mut_ch::<17, 0> as fn() -> Out),
    ("chunks_ch_17_1", C_CHUNKS_CH_17_1, chunks_ch::<17, 1> as fn() -> Out),
    ("chunks_mut_ch_17_1", C_CHUNKS_MUT_CH_17_1, chunks_mut_ch::<17, 1> as fn() -> Out),
    ("chunks_ch_17_2", C_CHUNKS_CH_17_2, chunks_ch::<17, 2> as fn() -> Out),
    ("chunks_mut_ch_17_2", C_CHUNKS_MUT_CH_17_2, chunks_mut_ch::<17, 2> as fn() -> Out),
    ("chunks_ch_17_3", C_CHUNKS_CH_17_3, chunks_ch::<17, 3> as fn() -> Out),
    ("chunks_mut_ch_17_3", C_CHUNKS_MUT_CH_17_3, chunks_mut_ch::<17, 3> as fn() -> Out),
    ("chunks_ch_17_4", C_CHUNKS_CH_17_4, chunks_ch::<17, 4> as fn() -> Out),
    ("chunks_mut_ch_17_4", C_CHUNKS_MUT_CH_17_4, chunks_mut_ch::<17, 4> as fn() -> Out),
    ("chunks_ch_17_5", C_CHUNKS_CH_17_5, chunks_ch::<17, 5> as fn() -> Out),
    ("chunks_mut_ch_17_5", C_CHUNKS_MUT_CH_17_5, chunks_mut_ch::<17, 5> as fn() -> Out),
    ("chunks_ch_17_6", C_CHUNKS_CH_17_6, chunks_ch::<17, 6> as fn() -> Out),
    ("chunks_mut_ch_17_6", C_CHUNKS_MUT_CH_17_6, chunks_mut_ch::<17, 6> as fn() -> Out),
    ("chunks_ch_17_7", C_CHUNKS_CH_17_7, chunks_ch::<17, 7> as fn() -> Out),
    ("chunks_mut_ch_17_7", C_CHUNKS_MUT_CH_17_7, chunks_mut_ch::<17, 7> as fn() -> Out),
    ("chunks_ch_17_8", C_CHUNKS_CH_17_8, chunks_ch::<17, 8> as fn() -> Out),
    ("chunks_mut_ch_17_8", C_CHUNKS_MUT_CH_17_8, chunks_mut_ch::<17, 8> as fn() -> Out),
    ("chunks_ch_17_9", C_CHUNKS_CH_17_9, chunks_ch::<17, 9> as fn() -> Out),
    ("chunks_mut_ch_17_9", C_CHUNKS_MUT_CH_17_9, chunks_mut_ch::<17, 9> as fn() -> Out),
    ("chunks_ch_17_10", C_CHUNKS_CH_17_10, chunks_ch::<17, 10> as fn() -> Out),
    ("chunks_mut_ch_17_10", C_CHUNKS_MUT_CH_17_10, chunks_mut_ch::<17, 10> as fn() -> Out),
    ("chunks_ch_17_11", C_CHUNKS_CH_17_11, chunks_ch::<17, 11> as fn() -> Out),
    ("chunks_mut_ch_17_11", C_CHUNKS_MUT_CH_17_11, chunks_mut_ch::<17, 11> as fn() -> Out),
    ("chunks_ch_17_12", C_CHUNKS_CH_17_12, chunks_ch::<17, 12> as fn() -> Out),
    ("chunks_mut_ch_17_12", C_CHUNKS_MUT_CH_17_12, chunks_mut_ch::<17, 12> as fn() -> Out),
    ("chunks_ch_17_13", C_CHUNKS_CH_17_13, chunks_ch::<17, 13> as fn() -> Out),
    ("chunks_mut_ch_17_13", C_CHUNKS_MUT_CH_17_13, chunks_mut_ch::<17, 13> as fn() -> Out),
    ("chunks_ch_17_14", C_CHUNKS_CH_17_14, chunks_ch::<17, 14> as fn() -> Out),
    ("chunks_mut_ch_17_14", C_CHUNKS_MUT_CH_17_14, chunks_mut_ch::<17, 14> as fn() -> Out),
    ("chunks_ch_17_15", C_CHUNKS_CH_17_15, chunks_ch::<17, 15> as fn() -> Out),
    ("chunks_mut_ch_17_15", C_CHUNKS_MUT_CH_17_15, chunks_mut_ch::<17, 15> as fn() -> Out),
    ("chunks_ch_17_16", C_CHUNKS_CH_17_16, chunks_ch::<17, 16> as fn() -> Out),
    ("chunks_mut_ch_17_16", C_CHUNKS_MUT_CH_17_16, chunks_mut_ch::<17, 16> as fn() -> Out),
    ("chunks_ch_17_17", C_CHUNKS_CH_17_17, chunks_ch::<17, 17> as fn() -> Out),
    ("chunks_mut_ch_17_17", C_CHUNKS_MUT_CH_17_17, chunks_mut_ch::<17, 17> as fn() -> Out),
    ("chunks_ch_17_18", C_CHUNKS_CH_17_18, chunks_ch::<17, 18> as fn() -> Out),
    ("chunks_mut_ch_17_18", C_CHUNKS_MUT_CH_17_18, chunks_mut_ch::<17, 18> as fn() -> Out),
    ("chunks_ch_17_19", C_CHUNKS_CH_17_19, chunks_ch::<17, 19> as fn() -> Out),
    ("chunks_mut_ch_17_19", C_CHUNKS_MUT_CH_17_19, chunks_mut_ch::<17, 19> as fn() -> Out),
    ("chunks_ch_17_20", C_CHUNKS_CH_17_20, chunks_ch::<17, 20> as fn() -> Out),
    ("chunks_mut_ch_17_20", C_CHUNKS_MUT_CH_17_20, chunks_mut_ch::<17, 20> as fn() -> Out),
    ("chunks_ch_17_21", C_CHUNKS_CH_17_21, chunks_ch::<17, 21> as fn() -> Out),
    ("chunks_mut_ch_17_21", C_CHUNKS_MUT_CH_17_21, chunks_mut_ch::<17, 21> as fn() -> Out),
    ("chunks_ch_17_22", C_CHUNKS_CH_17_22, chunks_ch::<17, 22> as fn() -> Out),
    ("chunks_mut_ch_17_22", C_CHUNKS_MUT_CH_17_22, chunks_mut_ch::<17, 22> as fn() -> Out),
    ("chunks_ch_17_23", C_CHUNKS_CH_17_23, chunks_ch::<17, 23> as fn() -> Out),
    ("chunks_mut_ch_17_23", C_CHUNKS_MUT_CH_17_23, chunks_mut_ch::<17, 23> as fn() -> Out),
    ("chunks_ch_17_24", C_CHUNKS_CH_17_24, chunks_ch::<17, 24> as fn() -> Out),
    ("chunks_mut_ch_17_24", C_CHUNKS_MUT_CH_17_24, chunks_mut_ch::<17, 24> as fn() -> Out),
    ("chunks_ch_17_25", C_CHUNKS_CH_17_25, chunks_ch::<17, 25> as fn() -> Out),
    ("chunks_mut_ch_17_25", C_CHUNKS_MUT_CH_17_25, chunks_mut_ch::<17, 25> as fn() -> Out),
    ("chunks_ch_17_26", C_CHUNKS_CH_17_26, chunks_ch::<17, 26> as fn() -> Out),
    ("chunks_mut_ch_17_26", C_CHUNKS_MUT_CH_17_26, chunks_mut_ch::<17, 26> as fn() -> Out),
    ("chunks_ch_17_27", C_CHUNKS_CH_17_27, chunks_ch::<17, 27> as fn() -> Out),
    ("chunks_mut_ch_17_27", C_CHUNKS_MUT_CH_17_27, chunks_mut_ch::<17, 27> as fn() -> Out),
    ("chunks_ch_17_28", C_CHUNKS_CH_17_28, chunks_ch::<17, 28> as fn() -> Out),
    ("chunks_mut_ch_17_28", C_CHUNKS_MUT_CH_17_28, chunks_mut_ch::<17, 28> as fn() -> Out),
    ("chunks_ch_17_29", C_CHUNKS_CH_17_29, chunks_ch::<17, 29> as fn() -> Out),
    ("chunks_mut_ch_17_29", C_CHUNKS_MUT_CH_17_29, chunks_mut_ch::<17, 29> as fn() -> Out),
    ("chunks_ch_17_30", C_CHUNKS_CH_17_30, chunks_ch::<17, 30> as fn() -> Out),
    ("chunks_mut_ch_17_30", C_CHUNKS_MUT_CH_17_30, chunks_mut_ch::<17, 30> as fn() -> Out),
    ("chunks_ch_17_31", C_CHUNKS_CH_17_31, chunks_ch::<17, 31> as fn() -> Out),
    ("chunks_mut_ch_17_31", C_CHUNKS_MUT_CH_17_31, chunks_mut_ch::<17, 31> as fn() -> Out),
    ("chunks_ch_17_32", C_CHUNKS_CH_17_32, chunks_ch::<17, 32> as fn() -> Out),
    ("chunks_mut_ch_17_32", C_CHUNKS_MUT_CH_17_32, chunks_mut_ch::<17, 32> as fn() -> Out),
    ("chunks_ch_17_33", C_CHUNKS_CH_17_33, chunks_ch::<17, 33> as fn() -> Out),
    ("chunks_mut_ch_17_33", C_CHUNKS_MUT_CH_17_33, chunks_mut_ch::<17, 33> as fn() -> Out),
    ("chunks_ch_17_34", C_CHUNKS_CH_17_34, chunks_ch::<17, 34> as fn() -> Out),
    ("chunks_mut_ch_17_34", C_CHUNKS_MUT_CH_17_34, chunks_mut_ch::<17, 34> as fn() -> Out),
    ("chunks_ch_17_35", C_CHUNKS_CH_17_35, chunks_ch::<17, 35> as fn() -> Out),
    ("chunks_mut_ch_17_35", C_CHUNKS_MUT_CH_17_35, chunks_mut_ch::<17, 35> as fn() -> Out),
    ("chunks_ch_17_36", C_CHUNKS_CH_17_36, chunks_ch::<17, 36> as fn() -> Out),
    ("chunks_mut_ch_17_36", C_CHUNKS_MUT_CH_17_36, chunks_mut_ch::<17, 36> as fn() -> Out),
    ("chunks_ch_17_37", C_CHUNKS_CH_17_37, chunks_ch::<17, 37> as fn() -> Out),
    ("chunks_mut_ch_17_37", C_CHUNKS_MUT_CH_17_37, chunks_mut_ch::<17, 37> as fn() -> Out),
    ("chunks_ch_17_38", C_CHUNKS_CH_17_38, chunks_ch::<17, 38> as fn() -> Out),
    ("chunks_mut_ch_17_38", C_CHUNKS_MUT_CH_17_38, chunks_mut_ch::<17, 38> as fn() -> Out),
    ("chunks_ch_17_39", C_CHUNKS_CH_17_39, chunks_ch::<17, 39> as fn() -> Out),
    ("chunks_mut_ch_17_39", C_CHUNKS_MUT_CH_17_39, chunks_mut_ch::<17, 39> as fn() -> Out),
    ("chunks_ch_17_40", C_CHUNKS_CH_17_40, chunks_ch::<17, 40> as fn() -> Out),
    ("chunks_mut_ch_17_40", C_CHUNKS_MUT_CH_17_40, chunks_mut_ch::<17, 40> as fn() -> Out),
    ("chunks_ch_17_41", C_CHUNKS_CH_17_41, chunks_ch::<17, 41> as fn() -> Out),
    ("chunks_mut_ch_17_41", C_CHUNKS_MUT_CH_17_41, chunks_mut_ch::<17, 41> as fn() -> Out),
    ("chunks_ch_17_42", C_CHUNKS_CH_17_42, chunks_ch::<17, 42> as fn() -> Out),
    ("chunks_mut_ch_17_42", C_CHUNKS_MUT_CH_17_42, chunks_mut_ch::<17, 42> as fn() -> Out),
    ("chunks_ch_17_43", C_CHUNKS_CH_17_43, chunks_ch::<17, 43> as fn() -> Out),
    ("chunks_mut_ch_17_43", C_CHUNKS_MUT_CH_17_43, chunks_mut_ch::<17, 43> as fn() -> Out),
    ("chunks_ch_17_44", C_CHUNKS_CH_17_44, chunks_ch::<17, 44> as fn() -> Out),
    ("chunks_mut_ch_17_44", C_CHUNKS_MUT_CH_17_44, chunks_mut_ch::<17, 44> as fn() -> Out),
    ("chunks_ch_17_45", C_CHUNKS_CH_17_45, chunks_ch::<17, 45> as fn() -> Out),
    ("chunks_mut_ch_17_45", C_CHUNKS_MUT_CH_17_45, chunks_mut_ch::<17, 45> as fn() -> Out),
    ("chunks_ch_17_46", C_CHUNKS_CH_17_46, chunks_ch::<17, 46> as fn() -> Out),
    ("chunks_mut_ch_17_46", C_CHUNKS_MUT_CH_17_46, chunks_mut_ch::<17, 46> as fn() -> Out),
    ("chunks_ch_17_47", C_CHUNKS_CH_17_47, chunks_ch::<17, 47> as fn() -> Out),
    ("chunks_mut_ch_17_47", C_CHUNKS_MUT_CH_17_47, chunks_mut_ch::<17, 47> as fn() -> Out),
    ("chunks_ch_17_48", C_CHUNKS_CH_17_48, chunks_ch::<17, 48> as fn() -> Out),
    ("chunks_mut_ch_17_48", C_CHUNKS_MUT_CH_17_48, chunks_mut_ch::<17, 48> as fn() -> Out),
    ("chunks_ch_17_49", C_CHUNKS_CH_17_49, chunks_ch::<17, 49> as fn() -> Out),
    ("chunks_mut_ch_17_49", C_CHUNKS_MUT_CH_17_49, chunks_mut_ch::<17, 49> as fn() -> Out),
    ("chunks_ch_17_50", C_CHUNKS_CH_17_50, chunks_ch::<17, 50> as fn() -> Out),
    ("chunks_mut_ch_17_50", C_CHUNKS_MUT_CH_17_50, chunks_mut_ch::<17, 50> as fn() -> Out),
    ("chunks_ch_17_51", C_CHUNKS_CH_17_51, chunks_ch::<17, 51> as fn() -> Out),
    ("chunks_mut_ch_17_51", C_CHUNKS_MUT_CH_17_51, chunks_mut_ch::<17, 51> as fn() -> Out),
    ("chunks_ch_17_52", C_CHUNKS_CH_17_52, chunks_ch::<17, 52> as fn() -> Out),
    ("chunks_mut_ch_17_52", C_CHUNKS_MUT_CH_17_52, chunks_mut_ch::<17, 52> as fn() -> Out),
    ("chunks_ch_17_53", C_CHUNKS_CH_17_53, chunks_ch::<17, 53> as fn() -> Out),
    ("chunks_mut_ch_17_53", C_CHUNKS_MUT_CH_17_53, chunks_mut_ch::<17, 53> as fn() -> Out),
    ("reinterpret_ch_17_0", C_REINTERPRET_CH_17_0, reinterpret_ch::<17, 0> as fn() -> Out),
    ("reinterpret_ch_17_1", C_REINTERPRET_CH_17_1, reinterpret_ch::<17, 1> as fn() -> Out),
    ("reinterpret_ch_17_16", C_REINTERPRET_CH_17_16, reinterpret_ch::<17, 16> as fn() -> Out),
    ("reinterpret_ch_17_17", C_REINTERPRET_CH_17_17, reinterpret_ch::<17, 17> as fn() -> Out),
    ("reinterpret_ch_17_18", C_REINTERPRET_CH_17_18, reinterpret_ch::<17, 18> as fn() -> Out),
    ("reinterpret_ch_17_34", C_REINTERPRET_CH_17_34, reinterpret_ch::<17, 34> as fn() -> Out),
    ("reinterpret_ch_17_53", C_REINTERPRET_CH_17_53, reinterpret_ch::<17, 53> as fn() -> Out),
    ("byvalue_ch_17", C_BYVALUE_CH_17, byvalue_ch::<17> as fn() -> Out),
    ("native_chunks_ch_17_0", C_NATIVE_CHUNKS_CH_17_0, native_chunks_ch::<17, 0> as fn() -> Out),
    ("native_chunks_ch_17_1", C_NATIVE_CHUNKS_CH_17_1, native_chunks_ch::<17, 1> as fn() -> Out),
    ("native_chunks_ch_17_2", C_NATIVE_CHUNKS_CH_17_2, native_chunks_ch::<17, 2> as fn() -> Out),
    ("native_chunks_ch_17_3", C_NATIVE_CHUNKS_CH_17_3, native_chunks_ch::<17, 3> as fn() -> Out),
    ("chunks_ch_33_0", C_CHUNKS_CH_33_0, chunks_ch::<33, 0> as fn() -> Out),
    ("chunks_mut_ch_33_0", C_CHUNKS_MUT_CH_33_0, chunks_mut_ch::<33, 0> as fn() -> Out),
    ("chunks_ch_33_1", C_CHUNKS_CH_33_1, chunks_ch::<33, 1> as fn() -> Out),
    ("chunks_mut_ch_33_1", C_CHUNKS_MUT_CH_33_1, chunks_mut_ch::<33, 1> as fn() -> Out),
    ("chunks_ch_33_32", C_CHUNKS_CH_33_32, chunks_ch::<33, 32> as fn() -> Out),
    ("chunks_mut_ch_33_32", C_CHUNKS_MUT_CH_33_32, chunks_mut_ch::<33, 32> as fn() -> Out),
    ("chunks_ch_33_33", C_CHUNKS_CH_33_33, chunks_ch::<33, 33> as fn() -> Out),
    ("chunks_mut_ch_33_33", C_CHUNKS_MUT_CH_33_33, chunks_mut_ch::<33, 33> as fn() -> Out),
    ("chunks_ch_33_34", C_CHUNKS_CH_33_34, chunks_ch::<33, 34> as fn() -> Out),
    ("chunks_mut_ch_33_34", C_CHUNKS_MUT_CH_33_34, chunks_mut_ch::<33, 34> as fn() -> Out),
    ("chunks_ch_33_65", C_CHUNKS_CH_33_65, chunks_ch::<33, 65> as fn() -> Out),
    ("chunks_mut_ch_33_65", C_CHUNKS_MUT_CH_33_65, chunks_mut_ch::<33, 65> as fn() -> Out),
    ("chunks_ch_33_66", C_CHUNKS_CH_33_66, chunks_ch::<33, 66> as fn() -> Out),
    ("chunks_mut_ch_33_66", C_CHUNKS_MUT_CH_33_66, chunks_mut_ch::<33, 66> as fn() -> Out),
    ("chunks_ch_33_67", C_CHUNKS_CH_33_67, chunks_ch::<33, 67> as fn() -> Out),
    ("chunks_mut_ch_33_67", C_CHUNKS_MUT_CH_33_67, chunks_mut_ch::<33, 67> as fn() -> Out),
    ("chunks_ch_33_98", C_CHUNKS_CH_33_98, chunks_ch::<33, 98> as fn() -> Out),
    ("chunks_mut_ch_33_98", C_CHUNKS_MUT_CH_33_98, chunks_mut_ch::<33, 98> as fn() -> Out),
    ("chunks_ch_33_99", C_CHUNKS_CH_33_99, chunks_ch::<33, 99> as fn() -> Out),
    ("chunks_mut_ch_33_99", C_CHUNKS_MUT_CH_33_99, chunks_mut_ch::<33, 99> as fn() -> Out),
    ("chunks_ch_33_100", C_CHUNKS_CH_33_100, chunks_ch::<33, 100> as fn() -> Out),
    ("chunks_mut_ch_33_100", C_CHUNKS_MUT_CH_33_100, chunks_mut_ch::<33, 100> as fn() -> Out),
    ("chunks_ch_33_101", C_CHUNKS_CH_33_101, chunks_ch::<33, 101> as fn() -> Out),
    ("chunks_mut_ch_33_101", C_CHUNKS_MUT_CH_33_101, chunks_mut_ch::<33, 101> as fn() -> Out),
    ("reinterpret_ch_33_0", C_REINTERPRET_CH_33_0, reinterpret_ch::<33, 0> as fn() -> Out),
    ("reinterpret_ch_33_1", C_REINTERPRET_CH_33_1, reinterpret_ch::<33, 1> as fn() -> Out),
    ("reinterpret_ch_33_32", C_REINTERPRET_CH_33_32, reinterpret_ch::<33, 32> as fn() -> Out),
    ("reinterpret_ch_33_33", C_REINTERPRET_CH_33_33, reinterpret_ch::<33, 33> as fn() -> Out),
    ("reinterpret_ch_33_34", C_REINTERPRET_CH_33_34, reinterpret_ch::<33, 34> as fn() -> Out),
    ("reinterpret_ch_33_66", C_REINTERPRET_CH_33_66, reinterpret_ch::<33, 66> as fn() -> Out),
    ("reinterpret_ch_33_101", C_REINTERPRET_CH_33_101, reinterpret_ch::<33, 101> as fn() -> Out),
    ("byvalue_ch_33", C_BYVALUE_CH_33, byvalue_ch::<33> as fn() -> Out),
    ("native_chunks_ch_33_0", C_NATIVE_CHUNKS_CH_33_0, native_chunks_ch::<33, 0> as fn() -> Out),
    ("native_chunks_ch_33_1", C_NATIVE_CHUNKS_CH_33_1, native_chunks_ch::<33, 1> as fn() -> Out),
    ("native_chunks_ch_33_2", C_NATIVE_CHUNKS_CH_33_2, native_chunks_ch::<33, 2> as fn() -> Out),
    ("native_chunks_ch_33_3", C_NATIVE_CHUNKS_CH_33_3, native_chunks_ch::<33, 3> as fn() -> Out),
    ("chunks_ch_64_0", C_CHUNKS_CH_64_0, chunks_ch::<64, 0> as fn() -> Out),
    ("chunks_mut_ch_64_0", C_CHUNKS_MUT_CH_64_0, chunks_mut_ch::<64, 0> as fn() -> Out),
    ("chunks_ch_64_1", C_CHUNKS_CH_64_1, chunks_ch::<64, 1> as fn() -> Out),
    ("chunks_mut_ch_64_1", C_CHUNKS_MUT_CH_64_1, chunks_mut_ch::<64, 1> as fn() -> Out),
    ("chunks_ch_64_63", C_CHUNKS_CH_64_63, chunks_ch::<64, 63> as fn() -> Out),
    ("chunks_mut_ch_64_63", C_CHUNKS_MUT_CH_64_63, chunks_mut_ch::<64, 63> as fn() -> Out),
    ("chunks_ch_64_64", C_CHUNKS_CH_64_64, chunks_ch::<64, 64> as fn() -> Out),
    ("chunks_mut_ch_64_64", C_CHUNKS_MUT_CH_64_64, chunks_mut_ch::<64, 64> as fn() -> Out),
    ("chunks_ch_64_65", C_CHUNKS_CH_64_65, chunks_ch::<64, 65> as fn() -> Out),
    ("chunks_mut_ch_64_65", C_CHUNKS_MUT_CH_64_65, chunks_mut_ch::<64, 65> as fn() -> Out),
    ("chunks_ch_64_127", C_CHUNKS_CH_64_127, chunks_ch::<64, 127> as fn() -> Out),
    ("chunks_mut_ch_64_127", C_CHUNKS_MUT_CH_64_127, chunks_mut_ch::<64, 127> as fn() -> Out),
    ("chunks_ch_64_128", C_CHUNKS_CH_64_128, chunks_ch::<64, 128> as fn() -> Out),
    ("chunks_mut_ch_64_128", C_CHUNKS_MUT_CH_64_128, chunks_mut_ch::<64, 128> as fn() -> Out),
    ("chunks_ch_64_129", C_CHUNKS_CH_64_129, chunks_ch::<64, 129> as fn() -> Out),
    ("chunks_mut_ch_64_129", C_CHUNKS_MUT_CH_64_129, chunks_mut_ch::<64, 129> as fn() -> Out),
    ("chunks_ch_64_191", C_CHUNKS_CH_64_191, chunks_ch::<64, 191> as fn() -> Out),
    ("chunks_mut_ch_64_191", C_CHUNKS_MUT_CH_64_191, chunks_mut_ch::<64, 191> as fn() -> Out),
    ("chunks_ch_64_192", C_CHUNKS_CH_64_192, chunks_ch::<64, 192> as fn() -> Out),
    ("chunks_mut_ch_64_192", C_CHUNKS_MUT_CH_64_192, chunks_mut_ch::<64, 192> as fn() -> Out),
    ("chunks_ch_64_193", C_CHUNKS_CH_64_193, chunks_ch::<64, 193> as fn() -> Out),
    ("chunks_mut_ch_64_193", C_CHUNKS_MUT_CH_64_193, chunks_mut_ch::<64, 193> as fn() -> Out),
    ("chunks_ch_64_194", C_CHUNKS_CH_64_194, chunks_ch::<64, 194> as fn() -> Out),
    ("chunks_mut_ch_64_194", C_CHUNKS_MUT_CH_64_194, chunks_mut_ch::<64, 194> as fn() -> Out),
    ("reinterpret_ch_64_0", C_REINTERPRET_CH_64_0, reinterpret_ch::<64, 0> as fn() -> Out),
    ("reinterpret_ch_64_1", C_REINTERPRET_CH_64_1, reinterpret_ch::<64, 1> as fn() -> Out),
    ("reinterpret_ch_64_63", C_REINTERPRET_CH_64_63, reinterpret_ch::<64, 63> as fn() -> Out),
    ("reinterpret_ch_64_64", C_REINTERPRET_CH_64_64, reinterpret_ch::<64, 64> as fn() -> Out),
    ("reinterpret_ch_64_65", C_REINTERPRET_CH_64_65, reinterpret_ch::<64, 65> as fn() -> Out),
    ("reinterpret_ch_64_128", C_REINTERPRET_CH_64_128, reinterpret_ch::<64, 128> as fn() -> Out),
    ("reinterpret_ch_64_194", C_REINTERPRET_CH_64_194, reinterpret_ch::<64, 194> as fn() -> Out),
    ("byvalue_ch_64", C_BYVALUE_CH_64, byvalue_ch::<64> as fn() -> Out),
    ("native_chunks_ch_64_0", C_NATIVE_CHUNKS_CH_64_0, native_chunks_ch::<64, 0> as fn() -> Out),
    ("native_chunks_ch_64_1", C_NATIVE_CHUNKS_CH_64_1, native_chunks_ch::<64, 1> as fn() -> Out),
    ("native_chunks_ch_64_2", C_NATIVE_CHUNKS_CH_64_2, native_chunks_ch::<64, 2> as fn() -> Out),
    ("native_chunks_ch_64_3", C_NATIVE_CHUNKS_CH_64_3, native_chunks_ch::<64, 3> as fn() -> Out),
    ("chunks_ch_100_0", C_CHUNKS_CH_100_0, chunks_ch::<100, 0> as fn() -> Out),
    ("chunks_mut_ch_100_0", C_CHUNKS_MUT_CH_100_0, chunks_mut_ch::<100, 0> as fn() -> Out),
    ("chunks_ch_100_1", C_CHUNKS_CH_100_1, chunks_ch::<100, 1> as fn() -> Out),
    ("chunks_mut_ch_100_1", C_CHUNKS_MUT_CH_100_1, chunks_mut_ch::<100, 1> as fn() -> Out),
    ("chunks_ch_100_99", C_CHUNKS_CH_100_99, chunks_ch::<100, 99> as fn() -> Out),
    ("chunks_mut_ch_100_99", C_CHUNKS_MUT_CH_100_99, chunks_mut_ch::<100, 99> as fn() -> Out),
    ("chunks_ch_100_100", C_CHUNKS_CH_100_100, chunks_ch::<100, 100> as fn() -> Out),
    ("chunks_mut_ch_100_100", C_CHUNKS_MUT_CH_100_100, chunks_mut_ch::<100, 100> as fn() -> Out),
    ("chunks_ch_100_101", C_CHUNKS_CH_100_101, chunks_ch::<100, 101> as fn() -> Out),
    ("chunks_mut_ch_100_101", C_CHUNKS_MUT_CH_100_101, chunks_mut_ch::<100, 101> as fn() -> Out),
    ("chunks_ch_100_199", C_CHUNKS_CH_100_199, chunks_ch::<100, 199> as fn() -> Out),
    ("chunks_mut_ch_100_199", C_CHUNKS_MUT_CH_100_199, chunks_mut_ch::<100, 199> as fn() -> Out),
    ("chunks_ch_100_200", C_CHUNKS_CH_100_200, chunks_ch::<100, 200> as fn() -> Out),
    ("chunks_mut_ch_100_200", C_CHUNKS_MUT_CH_100_200, chunks_mut_ch::<100, 200> as fn() -> Out),
    ("chunks_ch_100_201", C_CHUNKS_CH_100_201, chunks_ch::<100, 201> as fn() -> Out),
    ("chunks_mut_ch_100_201", C_CHUNKS_MUT_CH_100_201, chunks_mut_ch::<100, 201> as fn() -> Out),
    ("chunks_ch_100_302", C_CHUNKS_CH_100_302, chunks_ch::<100, 302> as fn() -> Out),
    ("chunks_mut_ch_100_302", C_CHUNKS_MUT_CH_100_302, chunks_mut_ch::<100, 302> as fn() -> Out),
    ("reinterpret_ch_100_0", C_REINTERPRET_CH_100_0, reinterpret_ch::<100, 0> as fn() -> Out),
    ("reinterpret_ch_100_1", C_REINTERPRET_CH_100_1, reinterpret_ch::<100, 1> as fn() -> Out),
    ("reinterpret_ch_100_99", C_REINTERPRET_CH_100_99, reinterpret_ch::<100, 99> as fn() -> Out),
    ("reinterpret_ch_100_100", C_REINTERPRET_CH_100_100, reinterpret_ch::<100, 100> as fn() -> Out),
    ("reinterpret_ch_100_101", C_REINTERPRET_CH_100_101, reinterpret_ch::<100, 101> as fn() -> Out),
    ("reinterpret_ch_100_200", C_REINTERPRET_CH_100_200, reinterpret_ch::<100, 200> as fn() -> Out),
    ("reinterpret_ch_100_302", C_REINTERPRET_CH_100_302, reinterpret_ch::<100, 302> as fn() -> Out),
    ("byvalue_ch_100", C_BYVALUE_CH_100, byvalue_ch::<100> as fn() -> Out),
    ("native_chunks_ch_100_0", C_NATIVE_CHUNKS_CH_100_0, native_chunks_ch::<100, 0> as fn() -> Out),
    ("native_chunks_ch_100_1", C_NATIVE_CHUNKS_CH_100_1, native_chunks_ch::<100, 1> as fn() -> Out),
    ("native_chunks_ch_100_2", C_NATIVE_CHUNKS_CH_100_2, native_chunks_ch::<100, 2> as fn() -> Out),
    ("native_chunks_ch_100_3", C_NATIVE_CHUNKS_CH_100_3, native_chunks_ch::<100, 3> as fn() -> Out),
    ("chunks_ch_1024_0", C_CHUNKS_CH_1024_0, chunks_ch::<1024, 0> as fn() -> Out),
    ("chunks_mut_ch_1024_0", C_CHUNKS_MUT_CH_1024_0, chunks_mut_ch::<1024, 0> as fn() -> Out),
    ("chunks_ch_1024_1", C_CHUNKS_CH_1024_1, chunks_ch::<1024, 1> as fn() -> Out),
    ("chunks_mut_ch_1024_1", C_CHUNKS_MUT_CH_1024_1, chunks_mut_ch::<1024, 1> as fn() -> Out),
    ("chunks_ch_1024_1023", C_CHUNKS_CH_1024_1023, chunks_ch::<1024, 1023> as fn() -> Out),
    ("chunks_mut_ch_1024_1023", C_CHUNKS_MUT_CH_1024_1023, chunks_mut_ch::<1024, 1023> as fn() -> Out),
    ("chunks_ch_1024_1024", C_CHUNKS_CH_1024_1024, chunks_ch::<1024, 1024> as fn() -> Out),
    ("chunks_mut_ch_1024_1024", C_CHUNKS_MUT_CH_1024_1024, chunks_mut_ch::<1024, 1024> as fn() -> Out),
    ("chunks_ch_1024_1025", C_CHUNKS_CH_1024_1025, chunks_ch::<1024, 1025> as fn() -> Out),
    ("chunks_mut_ch_1024_1025", C_CHUNKS_MUT_CH_1024_1025, chunks_mut_ch::<1024, 1025> as fn() -> Out),
    ("chunks_ch_1024_2047", C_CHUNKS_CH_1024_2047, chunks_ch::<1024, 2047> as fn() -> Out),
    ("chunks_mut_ch_1024_2047", C_CHUNKS_MUT_CH_1024_2047, chunks_mut_ch::<1024, 2047> as fn() -> Out),
    ("chunks_ch_1024_2048", C_CHUNKS_CH_1024_2048, chunks_ch::<1024, 2048> as fn() -> Out),
    ("chunks_mut_ch_1024_2048", C_CHUNKS_MUT_CH_1024_2048, chunks_mut_ch::<1024, 2048> as fn() -> Out),
    ("chunks_ch_1024_2049", C_CHUNKS_CH_1024_2049, chunks_ch::<1024, 2049> as fn() -> Out),
    ("chunks_mut_ch_1024_2049", C_CHUNKS_MUT_CH_1024_2049, chunks_mut_ch::<1024, 2049> as fn() -> Out),
    ("chunks_ch_1024_3074", C_CHUNKS_CH_1024_3074, chunks_ch::<1024, 3074> as fn() -> Out),
    ("chunks_mut_ch_1024_3074", C_CHUNKS_MUT_CH_1024_3074, chunks_mut_ch::<1024, 3074> as fn() -> Out),
    ("reinterpret_ch_1024_0", C_REINTERPRET_CH_1024_0, reinterpret_ch::<1024, 0> as fn() -> Out),
    ("reinterpret_ch_1024_1", C_REINTERPRET_CH_1024_1, reinterpret_ch::<1024, 1> as fn() -> Out),
    ("reinterpret_ch_1024_1023", C_REINTERPRET_CH_1024_1023, reinterpret_ch::<1024, 1023> as fn() -> Out),
    ("reinterpret_ch_1024_1024", C_REINTERPRET_CH_1024_1024, reinterpret_ch::<1024, 1024> as fn() -> Out),
    ("reinterpret_ch_1024_1025", C_REINTERPRET_CH_1024_1025, reinterpret_ch::<1024, 1025> as fn() -> Out),
    ("reinterpret_ch_1024_2048", C_REINTERPRET_CH_1024_2048, reinterpret_ch::<1024, 2048> as fn() -> Out),
    ("reinterpret_ch_1024_3074", C_REINTERPRET_CH_1024_3074, reinterpret_ch::<1024, 3074> as fn() -> Out),
    ("byvalue_ch_1024", C_BYVALUE_CH_1024, byvalue_ch::<1024> as fn() -> Out),
    ("native_chunks_ch_1024_0", C_NATIVE_CHUNKS_CH_1024_0, native_chunks_ch::<1024, 0> as fn() -> Out),
    ("native_chunks_ch_1024_1", C_NATIVE_CHUNKS_CH_1024_1, native_chunks_ch::<1024, 1> as fn() -> Out),
    ("native_chunks_ch_1024_2", C_NATIVE_CHUNKS_CH_1024_2, native_chunks_ch::<1024, 2> as fn() -> Out),
    ("native_chunks_ch_1024_3", C_NATIVE_CHUNKS_CH_1024_3, native_chunks_ch::<1024, 3> as fn() -> Out),
    ("transmute", C_TRANSMUTE, transmute_case as fn() -> Out),
    ("builders_finish_empty", C_BUILDERS_FINISH_EMPTY, builders_finish_empty as fn() -> Out),
    ("builders_0", C_BUILDERS_0, builders_case::<0> as fn() -> Out),
    ("builders_1", C_BUILDERS_1, builders_case::<1> as fn() -> Out),
    ("builders_2", C_BUILDERS_2, builders_case::<2> as fn() -> Out),
    ("builders_3", C_BUILDERS_3, builders_case::<3> as fn() -> Out),
    ("builders_7", C_BUILDERS_7, builders_case::<7> as fn() -> Out),
    ("builders_8", C_BUILDERS_8, builders_case::<8> as fn() -> Out),
    ("builders_16", C_BUILDERS_16, builders_case::<16> as fn() -> Out),
    ("builders_17", C_BUILDERS_17, builders_case::<17> as fn() -> Out),
    ("builders_33", C_BUILDERS_33, builders_case::<33> as fn() -> Out),
    ("builders_64", C_BUILDERS_64, builders_case::<64> as fn() -> Out),
    ("builders_100", C_BUILDERS_100, builders_case::<100> as fn() -> Out),
    ("builders_1024", C_BUILDERS_1024, builders_case::<1024> as fn() -> Out),
    ("cdefault_0", C_CDEFAULT_0, (|| -> Out { let a: GA<u32, N<0>> = GA::<u32, N<0>>::const_default(); let mut i = 0; let mut h = 0u64; while i < 0 { assert!(a.as_slice()[i] == 0); h = mix(h, a.as_slice()[i] as u64); i += 1; } assert!(a.as_slice().len() == 0); (0, 0, h, 0, 0) }) as fn() -> Out),
    ("arr_type_0", C_ARR_TYPE_0, (|| -> Out { let a = arr![9u8; N<0>]; let mut i = 0; while i < 0 { assert!(a.as_slice()[i] == 9); i += 1; } assert!(a.as_slice().len() == 0); (0, 0, 9, 0, 0) }) as fn() -> Out),
    ("arr_const_0", C_ARR_CONST_0, (|| -> Out { let a: GA<u8, N<0>> = arr![9u8; 0]; let mut i = 0; while i < 0 { assert!(a.as_slice()[i] == 9); i += 1; } assert!(a.as_slice().len() == 0); (0, 0, 9, 0, 0) }) as fn() -> Out),
    ("cdefault_1", C_CDEFAULT_1, (|| -> Out { let a: GA<u32, N<1>> = GA::<u32, N<1>>::const_default(); let mut i = 0; let mut h = 0u64; while i < 1 { assert!(a.as_slice()[i] == 0); h = mix(h, a.as_slice()[i] as u64); i += 1; } assert!(a.as_slice().len() == 1); (1, 0, h, 0, 0) }) as fn() -> Out),
    ("arr_type_1", C_ARR_TYPE_1, (|| -> Out { let a = arr![9u8; N<1>]; let mut i = 0; while i < 1 { assert!(a.as_slice()[i] == 9); i += 1; } assert!(a.as_slice().len() == 1); (1, 0, 9, 0, 0) }) as fn() -> Out),
    ("arr_const_1", C_ARR_CONST_1, (|| -> Out { let a: GA<u8, N<1>> = arr![9u8; 1]; let mut i = 0; while i < 1 { assert!(a.as_slice()[i] == 9); i += 1; } assert!(a.as_slice().len() == 1); (1, 0, 9, 0, 0) }) as fn() -> Out),
    ("cdefault_2", C_CDEFAULT_2, (|| -> Out { let a: GA<u32, N<2>> = GA::<u32, N<2>>::const_default(); let mut i = 0; let mut h = 0u64; while i < 2 { assert!(a.as_slice()[i] == 0); h = mix(h, a.as_slice()[i] as u64); i += 1; } assert!(a.as_slice().len() == 2); (2, 0, h, 0, 0) }) as fn() -> Out),
    ("arr_type_2", C_ARR_TYPE_2, (|| -> Out { let a = arr![9u8; N<2>]; let mut i = 0; while i < 2 { assert!(a.as_slice()[i] == 9); i += 1; } assert!(a.as_slice().len() == 2); (2, 0, 9, 0, 0) }) as fn() -> Out),
    ("arr_const_2", C_ARR_CONST_2, (|| -> Out { let a: GA<u8, N<2>> = arr![9u8; 2]; let mut i = 0; while i < 2 { assert!(a.as_slice()[i] == 9); i += 1; } assert!(a.as_slice().len() == 2); (2, 0, 9, 0, 0) }) as fn() -> Out),
    ("cdefault_3", C_CDEFAULT_3, (|| -> Out { let a: GA<u32, N<3>> = GA::<u32, N<3>>::const_default(); let mut i = 0; let mut h = 0u64; while i < 3 { assert!(a.as_slice()[i] == 0); h = mix(h, a.as_slice()[i] as u64); i += 1; } assert!(a.as_slice().len() == 3); (3, 0, h, 0, 0) }) as fn() -> Out),
    ("arr_type_3", C_ARR_TYPE_3, (|| -> Out { let a = arr![9u8; N<3>]; let mut i = 0; while i < 3 { assert!(a.as_slice()[i] == 9); i += 1; } assert!(a.as_slice().len() == 3); (3, 0, 9, 0, 0) }) as fn() -> Out),
    ("arr_const_3", C_ARR_CONST_3, (|| -> Out { let a: GA<u8, N<3>> = arr![9u8; 3]; let mut i = 0; while i < 3 { assert!(a.as_slice()[i] == 9); i += 1; } assert!(a.as_slice().len() == 3); (3, 0, 9, 0, 0) }) as fn() -> Out),
    ("cdefault_5", C_CDEFAULT_5, (|| -> Out { let a: GA<u32, N<5>> = GA::<u32, N<5>>::const_default(); let mut i = 0; let mut h = 0u64; while i < 5 { assert!(a.as_slice()[i] == 0); h = mix(h, a.as_slice()[i] as u64); i += 1; } assert!(a.as_slice().len() == 5); (5, 0, h, 0, 0) }) as fn() -> Out),
    ("arr_type_5", C_ARR_TYPE_5, (|| -> Out { let a = arr![9u8; N<5>]; let mut i = 0; while i < 5 { assert!(a.as_slice()[i] == 9); i += 1; } assert!(a.as_slice().len() == 5); (5, 0, 9, 0, 0) }) as fn() -> Out),
    ("arr_const_5", C_ARR_CONST_5, (|| -> Out { let a: GA<u8, N<5>> = arr![9u8; 5]; let mut i = 0; while i < 5 { assert!(a.as_slice()[i] == 9); i += 1; } assert!(a.as_slice().len() == 5); (5, 0, 9, 0, 0) }) as fn() -> Out),
    ("cdefault_7", C_CDEFAULT_7, (|| -> Out { let a: GA<u32, N<7>> = GA::<u32, N<7>>::const_default(); let mut i = 0; let mut h = 0u64; while i < 7 { assert!(a.as_slice()[i] == 0); h = mix(h, a.as_slice()[i] as u64); i += 1; } assert!(a.as_slice().len() == 7); (7, 0, h, 0, 0) }) as fn() -> Out),
    ("arr_type_7", C_ARR_TYPE_7, (|| -> Out { let a = arr![9u8; N<7>]; let mut i = 0; while i < 7 { assert!(a.as_slice()[i] == 9); i += 1; } assert!(a.as_slice().len() == 7); (7, 0, 9, 0, 0) }) as fn() -> Out),
    ("arr_const_7", C_ARR_CONST_7, (|| -> Out { let a: GA<u8, N<7>> = arr![9u8; 7]; let mut i = 0; while i < 7 { assert!(a.as_slice()[i] == 9); i += 1; } assert!(a.as_slice().len() == 7); (7, 0, 9, 0, 0) }) as fn() -> Out),
    ("cdefault_8", C_CDEFAULT_8, (|| -> Out { let a: GA<u32, N<8>> = GA::<u32, N<8>>::const_default(); let mut i = 0; let mut h = 0u64; while i < 8 { assert!(a.as_slice()[i] == 0); h = mix(h, a.as_slice()[i] as u64); i += 1; } assert!(a.as_slice().len() == 8); (8, 0, h, 0, 0) }) as fn() -> Out),
    ("arr_type_8", C_ARR_TYPE_8, (|| -> Out { let a = arr![9u8; N<8>]; let mut i = 0; while i < 8 { assert!(a.as_slice()[i] == 9); i += 1; } assert!(a.as_slice().len() == 8); (8, 0, 9, 0, 0) }) as fn() -> Out),
    ("arr_const_8", C_ARR_CONST_8, (|| -> Out { let a: GA<u8, N<8>> = arr![9u8; 8]; let mut i = 0; while i < 8 { assert!(a.as_slice()[i] == 9); i += 1; } assert!(a.as_slice().len() == 8); (8, 0, 9, 0, 0) }) as fn() -> Out),
    ("cdefault_16", C_CDEFAULT_16, (|| -> Out { let a: GA<u32, N<16>> = GA::<u32, N<16>>::const_default(); let mut i = 0; let mut h = 0u64; while i < 16 { assert!(a.as_slice()[i] == 0); h = mix(h, a.as_slice()[i] as u64); i += 1; } assert!(a.as_slice().len() == 16); (16, 0, h, 0, 0) }) as fn() -> Out),
    ("arr_type_16", C_ARR_TYPE_16, (|| -> Out { let a = arr![9u8; N<16>]; let mut i = 0; while i < 16 { assert!(a.as_slice()[i] == 9); i += 1; } assert!(a.as_slice().len() == 16); (16, 0, 9, 0, 0) }) as fn() -> Out),
    ("arr_const_16", C_ARR_CONST_16, (|| -> Out { let a: GA<u8, N<16>> = arr![9u8; 16]; let mut i = 0; while i < 16 { assert!(a.as_slice()[i] == 9); i += 1; } assert!(a.as_slice().len() == 16); (16, 0, 9, 0, 0) }) as fn() -> Out),
    ("cdefault_17", C_CDEFAULT_17, (|| -> Out { let a: GA<u32, N<17>> = GA::<u32, N<17>>::const_default(); let mut i = 0; let mut h = 0u64; while i < 17 { assert!(a.as_slice()[i] == 0); h = mix(h, a.as_slice()[i] as u64); i += 1; } assert!(a.as_slice().len() == 17); (17, 0, h, 0, 0) }) as fn() -> Out),
    ("arr_type_17", C_ARR_TYPE_17, (|| -> Out { let a = arr![9u8; N<17>]; let mut i = 0; while i < 17 { assert!(a.as_slice()[i] == 9); i += 1; } assert!(a.as_slice().len() == 17); (17, 0, 9, 0, 0) }) as fn() -> Out),
    ("arr_const_17", C_ARR_CONST_17, (|| -> Out { let a: GA<u8, N<17>> = arr![9u8; 17]; let mut i = 0; while i < 17 { assert!(a.as_slice()[i] == 9); i += 1; } assert!(a.as_slice().len() == 17); (17, 0, 9, 0, 0) }) as fn() -> Out),
    ("cdefault_33", C_CDEFAULT_33, (|| -> Out { let a: GA<u32, N<33>> = GA::<u32, N<33>>::const_default(); let mut i = 0; let mut h = 0u64; while i < 33 { assert!(a.as_slice()[i] == 0); h = mix(h, a.as_slice()[i] as u64); i += 1; } assert!(a.as_slice().len() == 33); (33, 0, h, 0, 0) }) as fn() -> Out),
    ("arr_type_33", C_ARR_TYPE_33, (|| -> Out { let a = arr![9u8; N<33>]; let mut i = 0; while i < 33 { assert!(a.as_slice()[i] == 9); i += 1; } assert!(a.as_slice().len() == 33); (33, 0, 9, 0, 0) }) as fn() -> Out),
    ("arr_const_33", C_ARR_CONST_33, (|| -> Out { let a: GA<u8, N<33>> = arr![9u8; 33]; let mut i = 0; while i < 33 { assert!(a.as_slice()[i] == 9); i += 1; } assert!(a.as_slice().len() == 33); (33, 0, 9, 0, 0) }) as fn() -> Out),
    ("cdefault_64", C_CDEFAULT_64, (|| -> Out { let a: GA<u32, N<64>> = GA::<u32, N<64>>::const_default(); let mut i = 0; let mut h = 0u64; while i < 64 { assert!(a.as_slice()[i] == 0); h = mix(h, a.as_slice()[i] as u64); i += 1; } assert!(a.as_slice().len() == 64); (64, 0, h, 0, 0) }) as fn() -> Out),
    ("arr_type_64", C_ARR_TYPE_64, (|| -> Out { let a = arr![9u8; N<64>]; let mut i = 0; while i < 64 { assert!(a.as_slice()[i] == 9); i += 1; } assert!(a.as_slice().len() == 64); (64, 0, 9, 0, 0) }) as fn() -> Out),
    ("arr_const_64", C_ARR_CONST_64, (|| -> Out { let a: GA<u8, N<64>> = arr![9u8; 64]; let mut i = 0; while i < 64 { assert!(a.as_slice()[i] == 9); i += 1; } assert!(a.as_slice().len() == 64); (64, 0, 9, 0, 0) }) as fn() -> Out),
    ("cdefault_100", C_CDEFAULT_100, (|| -> Out { let a: GA<u32, N<100>> = GA::<u32, N<100>>::const_default(); let mut i = 0; let mut h = 0u64; while i < 100 { assert!(a.as_slice()[i] == 0); h = mix(h, a.as_slice()[i] as u64); i += 1; } assert!(a.as_slice().len() == 100); (100, 0, h, 0, 0) }) as fn() -> Out),
    ("arr_type_100", C_ARR_TYPE_100, (|| -> Out { let a = arr![9u8; N<100>]; let mut i = 0; while i < 100 { assert!(a.as_slice()[i] == 9); i += 1; } assert!(a.as_slice().len() == 100); (100, 0, 9, 0, 0) }) as fn() -> Out),
    ("arr_const_100", C_ARR_CONST_100, (|| -> Out { let a: GA<u8, N<100>> = arr![9u8; 100]; let mut i = 0; while i < 100 { assert!(a.as_slice()[i] == 9); i += 1; } assert!(a.as_slice().len() == 100); (100, 0, 9, 0, 0) }) as fn() -> Out),
    ("cdefault_255", C_CDEFAULT_255, (|| -> Out { let a: GA<u32, N<255>> = GA::<u32, N<255>>::const_default(); let mut i = 0; let mut h = 0u64; while i < 255 { assert!(a.as_slice()[i] == 0); h = mix(h, a.as_slice()[i] as u64); i += 1; } assert!(a.as_slice().len() == 255); (255, 0, h, 0, 0) }) as fn() -> Out),
    ("arr_type_255", C_ARR_TYPE_255, (|| -> Out { let a = arr![9u8; N<255>]; let mut i = 0; while i < 255 { assert!(a.as_slice()[i] == 9); i += 1; } assert!(a.as_slice().len() == 255); (255, 0, 9, 0, 0) }) as fn() -> Out),
    ("arr_const_255", C_ARR_CONST_255, (|| -> Out { let a: GA<u8, N<255>> = arr![9u8; 255]; let mut i = 0; while i < 255 { assert!(a.as_slice()[i] == 9); i += 1; } assert!(a.as_slice().len() == 255); (255, 0, 9, 0, 0) }) as fn() -> Out),
    ("cdefault_256", C_CDEFAULT_256, (|| -> Out { let a: GA<u32, N<256>> = GA::<u32, N<256>>::const_default(); let mut i = 0; let mut h = 0u64; while i < 256 { assert!(a.as_slice()[i] == 0); h = mix(h, a.as_slice()[i] as u64); i += 1; } assert!(a.as_slice().len() == 256); (256, 0, h, 0, 0) }) as fn() -> Out),
    ("arr_type_256", C_ARR_TYPE_256, (|| -> Out { let a = arr![9u8; N<256>]; let mut i = 0; while i < 256 { assert!(a.as_slice()[i] == 9); i += 1; } assert!(a.as_slice().len() == 256); (256, 0, 9, 0, 0) }) as fn() -> Out),
    ("arr_const_256", C_ARR_CONST_256, (|| -> Out { let a: GA<u8, N<256>> = arr![9u8; 256]; let mut i = 0; while i < 256 { assert!(a.as_slice()[i] == 9); i += 1; } assert!(a.as_slice().len() == 256); (256, 0, 9, 0, 0) }) as fn() -> Out),
    ("cdefault_1000", C_CDEFAULT_1000, (|| -> Out { let a: GA<u32, N<1000>> = GA::<u32, N<1000>>::const_default(); let mut i = 0; let mut h = 0u64; while i < 1000 { assert!(a.as_slice()[i] == 0); h = mix(h, a.as_slice()[i] as u64); i += 1; } assert!(a.as_slice().len() == 1000); (1000, 0, h, 0, 0) }) as fn() -> Out),
    ("arr_type_1000", C_ARR_TYPE_1000, (|| -> Out { let a = arr![9u8; N<1000>]; let mut i = 0; while i < 1000 { assert!(a.as_slice()[i] == 9); i += 1; } assert!(a.as_slice().len() == 1000); (1000, 0, 9, 0, 0) }) as fn() -> Out),
    ("arr_const_1000", C_ARR_CONST_1000, (|| -> Out { let a: GA<u8, N<1000>> = arr![9u8; 1000]; let mut i = 0; while i < 1000 { assert!(a.as_slice()[i] == 9); i += 1; } assert!(a.as_slice().len() == 1000); (1000, 0, 9, 0, 0) }) as fn() -> Out),
    ("cdefault_1024", C_CDEFAULT_1024, (|| -> Out { let a: GA<u32, N<1024>> = GA::<u32, N<1024>>::const_default(); let mut i = 0; let mut h = 0u64; while i < 1024 { assert!(a.as_slice()[i] == 0); h = mix(h, a.as_slice()[i] as u64); i += 1; } assert!(a.as_slice().len() == 1024); (1024, 0, h, 0, 0) }) as fn() -> Out),
    ("arr_type_1024", C_ARR_TYPE_1024, (|| -> Out { let a = arr![9u8; N<1024>]; let mut i = 0; while i < 1024 { assert!(a.as_slice()[i] == 9); i += 1; } assert!(a.as_slice().len() == 1024); (1024, 0, 9, 0, 0) }) as fn() -> Out),
    ("arr_const_1024", C_ARR_CONST_1024, (|| -> Out { let a: GA<u8, N<1024>> = arr![9u8; 1024]; let mut i = 0; while i < 1024 { assert!(a.as_slice()[i] == 9); i += 1; } assert!(a.as_slice().len() == 1024); (1024, 0, 9, 0, 0) }) as fn() -> Out),
    ("arr_type_1025", C_ARR_TYPE_1025, (|| -> Out { let a = arr![9u8; generic_array::typenum::Add1<generic_array::typenum::U1024>]; let mut i = 0; while i < 1025 { assert!(a.as_slice()[i] == 9); i += 1; } (a.as_slice().len(), 0, 9, 0, 0) }) as fn() -> Out),
    ("arr_type_3000", C_ARR_TYPE_3000, (|| -> Out { let a = arr![9u16; generic_array::typenum::Prod<U3, generic_array::typenum::U1000>]; assert!(a.as_slice().len() == 3000 && a.as_slice()[2999] == 9); (3000, 0, 9, 0, 0) }) as fn() -> Out),
    ("arr_list_0", C_ARR_LIST_0, (|| -> Out { let a: GA<u8, N<0>> = arr![]; let mut i = 0; let mut h = 0u64; while i < 0 { assert!(a.as_slice()[i] as usize == (i * 3 + 1) % 256); h = mix(h, a.as_slice()[i] as u64); i += 1; } (0, 0, h, 0, 0) }) as fn() -> Out),
    ("arr_list_trailing_0", C_ARR_LIST_TRAILING_0, (|| -> Out { let a: GA<u8, N<0>> = arr![]; (a.as_slice().len(), 0, 0, 0, 0) }) as fn() -> Out),
    ("arr_list_1", C_ARR_LIST_1, (|| -> Out { let a: GA<u8, N<1>> = arr![1u8]; let mut i = 0; let mut h = 0u64; while i < 1 { assert!(a.as_slice()[i] as usize == (i * 3 + 1) % 256); h = mix(h, a.as_slice()[i] as u64); i += 1; } (1, 0, h, 0, 0) }) as fn() -> Out),
    ("arr_list_trailing_1", C_ARR_LIST_TRAILING_1, (|| -> Out { let a: GA<u8, N<1>> = arr![1u8,]; (a.as_slice().len(), 0, 0, 0, 0) }) as fn() -> Out),
    ("arr_list_2", C_ARR_LIST_2, (|| -> Out { let a: GA<u8, N<2>> = arr![1u8, 4u8]; let mut i = 0; let mut h = 0u64; while i < 2 { assert!(a.as_slice()[i] as usize == (i * 3 + 1) % 256); h = mix(h, a.as_slice()[i] as u64); i += 1; } (2, 0, h, 0, 0) }) as fn() -> Out),
    ("arr_list_trailing_2", C_ARR_LIST_TRAILING_2, (|| -> Out { let a: GA<u8, N<2>> = arr![1u8, 4u8,]; (a.as_slice().len(), 0, 0, 0, 0) }) as fn() -> Out),
    ("arr_list_3", C_ARR_LIST_3, (|| -> Out { let a: GA<u8, N<3>> = arr![1u8, 4u8, 7u8]; let mut i = 0; let mut h = 0u64; while i < 3 { assert!(a.as_slice()[i] as usize == (i * 3 + 1) % 256); h = mix(h, a.as_slice()[i] as u64); i += 1; } (3, 0, h, 0, 0) }) as fn() -> Out),
    ("arr_list_trailing_3", C_ARR_LIST_TRAILING_3, (|| -> Out { let a: GA<u8, N<3>> = arr![1u8, 4u8, 7u8,]; (a.as_slice().len(), 0, 0, 0, 0) }) as fn() -> Out),
    ("arr_list_5", C_ARR_LIST_5, (|| -> Out { let a: GA<u8, N<5>> = arr![1u8, 4u8, 7u8, 10u8, 13u8]; let mut i = 0; let mut h = 0u64; while i < 5 { assert!(a.as_slice()[i] as usize == (i * 3 + 1) % 256); h = mix(h, a.as_slice()[i] as u64); i += 1; } (5, 0, h, 0, 0) }) as fn() -> Out),
    ("arr_list_trailing_5", C_ARR_LIST_TRAILING_5, (|| -> Out { let a: GA<u8, N<5>> = arr![1u8, 4u8, 7u8, 10u8, 13u8,]; (a.as_slice().len(), 0, 0, 0, 0) }) as fn() -> Out),
    ("arr_list_8", C_ARR_LIST_8, (|| -> Out { let a: GA<u8, N<8>> = arr![1u8, 4u8, 7u8, 10u8, 13u8, 16u8, 19u8, 22u8]; let mut i = 0; let mut h = 0u64; while i < 8 { assert!(a.as_slice()[i] as usize == (i * 3 + 1) % 256); h = mix(h, a.as_slice()[i] as u64); i += 1; } (8, 0, h, 0, 0) }) as fn() -> Out),
    ("arr_list_trailing_8", C_ARR_LIST_TRAILING_8, (|| -> Out { let a: GA<u8, N<8>> = arr![1u8, 4u8, 7u8, 10u8, 13u8, 16u8, 19u8, 22u8,]; (a.as_slice().len(), 0, 0, 0, 0) }) as fn() -> Out),
    ("arr_list_17", C_ARR_LIST_17, (|| -> Out { let a: GA<u8, N<17>> = arr![1u8, 4u8, 7u8, 10u8, 13u8, 16u8, 19u8, 22u8, 25u8, 28u8, 31u8, 34u8, 37u8, 40u8, 43u8, 46u8, 49u8]; let mut i = 0; let mut h = 0u64; while i < 17 { assert!(a.as_slice()[i] as usize == (i * 3 + 1) % 256); h = mix(h, a.as_slice()[i] as u64); i += 1; } (17, 0, h, 0, 0) }) as fn() -> Out),
    ("arr_list_trailing_17", C_ARR_LIST_TRAILING_17, (|| -> Out { let a: GA<u8, N<17>> = arr![1u8, 4u8, 7u8, 10u8, 13u8, 16u8, 19u8, 22u8, 25u8, 28u8, 31u8, 34u8, 37u8, 40u8, 43u8, 46u8, 49u8,]; (a.as_slice().len(), 0, 0, 0, 0) }) as fn() -> Out),
    ("arr_list_33", C_ARR_LIST_33, (|| -> Out { let a: GA<u8, N<33>> = arr![1u8, 4u8, 7u8, 10u8, 13u8, 16u8, 19u8, 22u8, 25u8, 28u8, 31u8, 34u8, 37u8, 40u8, 43u8, 46u8, 49u8, 52u8, 55u8, 58u8, 61u8, 64u8, 67u8, 70u8, 73u8, 76u8, 79u8, 82u8, 85u8, 88u8, 91u8, 94u8, 97u8]; let mut i = 0; let mut h = 0u64; while i < 33 { assert!(a.as_slice()[i] as usize == (i * 3 + 1) % 256); h = mix(h, a.as_slice()[i] as u64); i += 1; } (33, 0, h, 0, 0) }) as fn() -> Out),
    ("arr_list_trailing_33", C_ARR_LIST_TRAILING_33, (|| -> Out { let a: GA<u8, N<33>> = arr![1u8, 4u8, 7u8, 10u8, 13u8, 16u8, 19u8, 22u8, 25u8, 28u8, 31u8, 34u8, 37u8, 40u8, 43u8, 46u8, 49u8, 52u8, 55u8, 58u8, 61u8, 64u8, 67u8, 70u8, 73u8, 76u8, 79u8, 82u8, 85u8, 88u8, 91u8, 94u8, 97u8,]; (a.as_slice().len(), 0, 0, 0, 0) }) as fn() -> Out),
    ("arr_list_64", C_ARR_LIST_64, (|| -> Out { let a: GA<u8, N<64>> = arr![1u8, 4u8, 7u8, 10u8, 13u8, 16u8, 19u8, 22u8, 25u8, 28u8, 31u8, 34u8, 37u8, 40u8, 43u8, 46u8, 49u8, 52u8, 55u8, 58u8, 61u8, 64u8, 67u8, 70u8, 73u8, 76u8, 79u8, 82u8, 85u8, 88u8, 91u8, 94u8, 97u8, 100u8, 103u8, 106u8, 109u8, 112u8, 115u8, 118u8, 121u8, 124u8, 127u8, 130u8, 133u8, 136u8, 139u8, 142u8, 145u8, 148u8, 151u8, 154u8, 157u8, 160u8, 163u8, 166u8, 169u8, 172u8, 175u8, 178u8, 181u8, 184u8, 187u8, 190u8]; let mut i = 0; let mut h = 0u64; while i < 64 { assert!(a.as_slice()[i] as usize == (i * 3 + 1) % 256); h = mix(h, a.as_slice()[i] as u64); i += 1; } (64, 0, h, 0, 0) }) as fn() -> Out),
    ("arr_list_trailing_64", C_ARR_LIST_TRAILING_64, (|| -> Out { let a: GA<u8, N<64>> = arr![1u8, 4u8, 7u8, 10u8, 13u8, 16u8, 19u8, 22u8, 25u8, 28u8, 31u8, 34u8, 37u8, 40u8, 43u8, 46u8, 49u8, 52u8, 55u8, 58u8, 61u8, 64u8, 67u8, 70u8, 73u8, 76u8, 79u8, 82u8, 85u8, 88u8, 91u8, 94u8, 97u8, 100u8, 103u8, 106u8, 109u8, 112u8, 115u8, 118u8, 121u8, 124u8, 127u8, 130u8, 133u8, 136u8, 139u8, 142u8, 145u8, 148u8, 151u8, 154u8, 157u8, 160u8, 163u8, 166u8, 169u8, 172u8, 175u8, 178u8, 181u8, 184u8, 187u8, 190u8,]; (a.as_slice().len(), 0, 0, 0, 0) }) as fn() -> Out),
]}
fn main() {
    std::panic::set_hook(Box::new(|_| {}));
    let mut bad = 0usize; let mut n = 0usize;
    for (name, ct, f) in table() {
        n += 1;
        let f = std::hint::black_box(f);
        match std::panic::catch_unwind(move || f()) {
            Ok(rt) => if rt != ct { bad += 1; println!("MISMATCH {name}: const-evaluated {ct:?}, run time {rt:?}"); },
            Err(_) => { bad += 1; println!("RUNTIME-ASSERT {name}: the same call panics at run time"); }
        }
    }
    println!("RUNTIME-COMPARED {n} MISMATCHES {bad}");
}
